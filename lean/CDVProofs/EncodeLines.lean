import CDVProofs.LineEnc
import CDVProofs.EncodeRead
/-! The line table `to_code()` writes gives every assembled instruction the line the data gives it. -/
namespace CDV
open CDV.LT

/-- the line of every code unit of the assembled code, in order -/
def unitLines : List Instr → List Int → List (Option Int)
  | i :: is, a :: as => List.replicate (sizeOfI i.nov a) i.line ++ unitLines is as
  | _, _ => []

theorem unitsAt_append : ∀ (A B : List (Option Int)) (off : Nat), unitsAt (A ++ B) off = unitsAt A off ++ unitsAt B (off + 2 * A.length) := by
  intro A
  induction A with
  | nil => intro B off; simp [unitsAt]
  | cons a A ih =>
    intro B off
    simp only [List.cons_append, unitsAt, ih, List.length_cons]
    rw [show off + 2 + 2 * A.length = off + 2 * (A.length + 1) by omega]

theorem unitsAt_replicate (n : Nat) (l : Option Int) : ∀ (off : Nat),
    unitsAt (List.replicate n l) off = (List.range n).map (fun k => (off + 2 * k, l)) := by
  induction n with
  | zero => intro off; simp [unitsAt]
  | succ n ih =>
    intro off
    rw [List.replicate_succ, unitsAt, ih, List.range_succ_eq_map]
    simp only [List.map_cons, List.map_map, Nat.mul_zero, Nat.add_zero, List.cons.injEq, true_and]
    apply List.map_congr_left
    intro k _
    simp only [Function.comp, Prod.mk.injEq, and_true]; omega

theorem emit_lines : ∀ (is : List Instr) (as : List Int) (off : Nat), (emit is as off).2.1 = unitsAt (unitLines is as) off := by
  intro is
  induction is with
  | nil => intro as off; simp [emit, unitLines, unitsAt]
  | cons i is ih =>
    intro as off
    cases as with
    | nil => simp [emit, unitLines, unitsAt]
    | cons a as =>
      simp only [emit, unitLines, unitsAt_append, unitsAt_replicate, List.length_replicate, ih]

theorem unitsAt_map (f : Option Int → Option Int) : ∀ (ls : List (Option Int)) (off : Nat),
    (unitsAt ls off).map (fun p => (p.1, f p.2)) = unitsAt (ls.map f) off := by
  intro ls
  induction ls with
  | nil => intro off; rfl
  | cons l ls ih => intro off; simp [unitsAt, ih]

theorem unitLines_get : ∀ (is : List Instr) (as : List Int) (j : Nat) (i : Instr), is.length = as.length → is[j]? = some i →
    (unitLines is as)[psum (szs is as) 0 j]? = some i.line := by
  intro is
  induction is with
  | nil => intro as j i _ h; simp at h
  | cons i0 is ih =>
    intro as j i hl hi
    cases as with
    | nil => simp at hl
    | cons a as =>
      simp only [List.length_cons, Nat.add_right_cancel_iff] at hl
      have hpos := sizeOfI_pos i0.nov a
      cases j with
      | zero =>
        simp only [List.getElem?_cons_zero, Option.some.injEq] at hi
        subst hi
        simp only [unitLines, psum_zero]
        rw [List.getElem?_append_left (by simp; omega)]
        simp [List.getElem?_replicate]; omega
      | succ j =>
        simp only [List.getElem?_cons_succ] at hi
        have hj : j < is.length := (List.getElem?_eq_some_iff.mp hi).1
        simp only [unitLines, szs_cons, psum_succ]
        rw [psum_shift _ (0 + sizeOfI i0.nov a) j (by rw [szs_length is as hl]; omega)]
        rw [List.getElem?_append_right (by simp)]
        simp only [List.length_replicate]
        rw [show 0 + sizeOfI i0.nov a + psum (szs is as) 0 j - sizeOfI i0.nov a = psum (szs is as) 0 j by omega]
        exact ih as j i hl hi

/-- **Each instruction carries the given line or no line (3.10).**  For every non-empty instruction list and operands,
    whatever widths the instructions have: the `co_linetable` that `to_code()` writes (no trailing extra entry) makes
    CPython's reader assign to the first code unit of the `j`-th instruction exactly that instruction's `line_number`,
    and no line where it is `None`. -/
theorem encode_lines_310 (is : List Instr) (as : List Int) (fln : Int) (extra : List (Nat × List Int)) (hl : is.length = as.length)
    (hne : is ≠ []) :
    ∃ table, LT.fromLineMapping true ⟨(emit is as 0).2.1.map (fun p => (p.1, p.2.map (· - fln))), extra⟩ = .ok table ∧
      ∀ (j : Nat) (i : Instr), is[j]? = some i → Spec.lineOf .v310 table fln (2 * psum (szs is as) 0 j) = i.line := by
  rw [emit_lines, unitsAt_map (fun l => l.map (· - fln))]
  have hne' : (unitLines is as).map (fun l => l.map (· - fln)) ≠ [] := by
    cases is with
    | nil => exact absurd rfl hne
    | cons i is =>
      cases as with
      | nil => simp at hl
      | cons a as =>
        have := sizeOfI_pos i.nov a
        simp only [unitLines, List.map_append, List.map_replicate, ne_eq, List.append_eq_nil_iff, List.replicate_eq_nil_iff, not_and]
        omega
  obtain ⟨l0, ls, hls⟩ := List.exists_cons_of_ne_nil hne'
  rw [hls]
  obtain ⟨table, ht, hall⟩ := LT.encoded_lines_310 l0 ls extra
  refine ⟨table, ht, ?_⟩
  intro j i hi
  have hget := unitLines_get is as j i hl hi
  have : (l0 :: ls)[psum (szs is as) 0 j]? = some (i.line.map (· - fln)) := by
    rw [← hls, List.getElem?_map, hget]; rfl
  have := hall _ _ this
  simp only [Spec.lineOf, Ver.is310, if_true, this, Option.map_map]
  cases i.line <;> simp

/-- **… and for `co_lnotab` (3.7-3.9)**, where every instruction must have a line (`None` cannot be written: known finding). -/
theorem encode_lines_lnotab (v : Ver) (hv : v.is310 = false) (is : List Instr) (as : List Int) (fln : Int) (extra : List (Nat × List Int))
    (hl : is.length = as.length) (hsome : ∀ i ∈ is, i.line.isSome) :
    ∃ table, LT.fromLineMapping false ⟨(emit is as 0).2.1.map (fun p => (p.1, p.2.map (· - fln))), extra⟩ = .ok table ∧
      ∀ (j : Nat) (i : Instr), is[j]? = some i → Spec.lineOf v table fln (2 * psum (szs is as) 0 j) = i.line := by
  rw [emit_lines, unitsAt_map (fun l => l.map (· - fln))]
  -- all unit lines are `some`
  have hall : ∀ (is : List Instr) (as : List Int), (∀ i ∈ is, i.line.isSome) →
      ∃ ls : List Int, (unitLines is as).map (fun l => l.map (· - fln)) = ls.map some := by
    intro is
    induction is with
    | nil => intro as _; exact ⟨[], by simp [unitLines]⟩
    | cons i is ih =>
      intro as h
      cases as with
      | nil => exact ⟨[], by simp [unitLines]⟩
      | cons a as =>
        obtain ⟨ls, hls⟩ := ih as (fun x hx => h x (by simp [hx]))
        have hi := h i (by simp)
        cases hline : i.line with
        | none => simp [hline] at hi
        | some l =>
          refine ⟨List.replicate (sizeOfI i.nov a) (l - fln) ++ ls, ?_⟩
          simp only [unitLines, List.map_append, hls, hline, List.map_replicate, Option.map_some]
  obtain ⟨ls, hls⟩ := hall is as hsome
  rw [hls]
  obtain ⟨table, ht, hat⟩ := LT.encoded_lines_lnotab ls extra
  refine ⟨table, ht, ?_⟩
  intro j i hi
  have hget := unitLines_get is as j i hl hi
  have hi' := hsome i (List.mem_of_getElem? hi)
  cases hline : i.line with
  | none => simp [hline] at hi'
  | some l =>
    have : ls[psum (szs is as) 0 j]? = some (l - fln) := by
      have h2 : (ls.map some)[psum (szs is as) 0 j]? = some (some (l - fln)) := by
        rw [← hls, List.getElem?_map, hget, hline]; rfl
      rw [List.getElem?_map] at h2
      cases hx : ls[psum (szs is as) 0 j]? with
      | none => simp [hx] at h2
      | some x => simp [hx] at h2; rw [h2]
    have := hat _ _ this
    simp only [Spec.lineOf, hv, Bool.false_eq_true, if_false, this]
    congr 1; omega

end CDV
