import CDVProofs.FullRT
/-! # The whole round trip with the reading: every attribute but line-table bytes, and the same lines, at every depth -/
namespace CDV
open CDV.Props.C14 (rawCodesOf)

/-- equal in every attribute except the bytes of the line table, and read identically by CPython (instructions, resolved
    operands, the line of every instruction), at every nesting level -/
def SameAsRead (v : Ver) (T : OpTable) : Nat → RawCode → RawCode → Prop
  | 0, _, _ => False
  | n+1, .mk a p k nl ss fl fln code lt fn nm names vn fv cv consts, .mk a' p' k' nl' ss' fl' fln' code' lt' fn' nm' names' vn' fv' cv' consts' =>
    a = a' ∧ p = p' ∧ k = k' ∧ nl = nl' ∧ ss = ss' ∧ fl = fl' ∧ fln = fln' ∧ code = code' ∧ fn = fn' ∧ nm = nm' ∧ names = names' ∧
    vn = vn' ∧ fv = fv' ∧ cv = cv' ∧
    Spec.read v T (.mk a' p' k' nl' ss' fl' fln' code' lt' fn' nm' names' vn' fv' cv' consts') =
      Spec.read v T (.mk a p k nl ss fl fln code lt fn nm names vn fv cv consts) ∧
    constsRel (SameAsRead v T n) consts consts'

theorem full_roundtrip_reading (v : Ver) (T : OpTable) (F : FlagTable)
    (hA : F.annotations ∉ [bOPTIMIZED, bNEWLOCALS, bVARARGS, bVARKEYWORDS, bNESTED, bGENERATOR, bNOFREE, bCOROUTINE, bASYNC_GENERATOR])
    (hT : ∀ op, T.get op = .ext → op = EXTENDED_ARG) :
    ∀ (n : Nat) (c : RawCode) (d : CodeData), AllOK v T n c → toCodeDataFuel v T F n c = .ok d →
      ∃ c', fromCodeDataFuel v F n d = .ok c' ∧ SameAsRead v T n c c'
  | 0, _, _, hok, _ => hok.elim
  | n+1, .mk argc pos kw nl ss fl fln code lt fname name names varnames freevars cellvars consts, d, hok, h => by
    obtain ⟨⟨hlen, hnodup, hpos37, hcode, hcomp, hpre, hmin, hjs, hcn, hfn, hvalid, hteven, htbytes, htbc, htbcOld, hrne⟩, hsub⟩ := hok
    have h' : toCodeDataGo v T F (toCodeDataFuel v T F n)
        (.mk argc pos kw nl ss fl fln code lt fname name names varnames freevars cellvars consts) = .ok d := h
    have hjv := decoded_jumps_valid v T F _ argc pos kw nl ss fl fln code lt fname name names varnames freevars cellvars consts d h' hjs
    have hnest := nested_encode (toCodeDataFuel v T F n) (fromCodeDataFuel v F n) (AllOK v T n) (SameAsRead v T n)
      (fun k dk hk hd => full_roundtrip_reading v T F hA hT n k dk hk hd) consts
    obtain ⟨c', hc'⟩ := decoded_to_code_returns v T F _ (fromCodeDataFuel v F n) argc pos kw nl ss fl fln code lt fname name names varnames
      freevars cellvars consts d h' hlen hnodup hjv hcode hpre hvalid hteven htbytes htbc htbcOld hrne
      (fun K hK => let ⟨cs', h1, _⟩ := hnest K hsub hK; ⟨cs', h1⟩)
    have hread := decoded_reads_identically_full v T F _ (fromCodeDataFuel v F n) argc pos kw nl ss fl fln code lt fname name names varnames
      freevars cellvars consts d c' hA h' hlen hnodup hpos37 hcode hcomp hpre hmin hjs hcn hfn hvalid hteven htbytes htbc htbcOld hT hrne hc'
    obtain ⟨K, lt', consts', hK, hK', hceq⟩ := CDV.Props.C01.C01_all_but_linetable v T F _ (fromCodeDataFuel v F n) argc pos kw nl ss fl fln code lt fname name
      names varnames freevars cellvars consts d c' hA h' hlen hnodup hpos37 hcode hcomp hpre hmin hjs hcn hfn hc'
    obtain ⟨cs', h1, hrel⟩ := hnest K hsub hK
    have : cs' = consts' := by
      have := h1.symm.trans hK'
      exact Except.ok.inj this
    subst this
    refine ⟨c', hc', ?_⟩
    rw [hceq] at hread ⊢
    exact ⟨rfl, rfl, rfl, rfl, rfl, rfl, rfl, rfl, rfl, rfl, rfl, rfl, rfl, rfl, hread, hrel⟩

end CDV
