import CDVProofs.LineSem
/-! Stage 3 of the line-table codec, decoding direction, pre-3.10 format (`co_lnotab`): the per-offset lines that
    `items_to_mapping` produces are the lines CPython's reader (`PyCode_Addr2Line`, `Spec.lineOfOld`) assigns. -/
namespace CDV.LT
open CDV

/-- CPython's lnotab reading, additively: the sum of the line deltas of all rows whose cumulative address is `≤ o`
    (`a` = address before the rows) -/
def tot : List Item → Nat → Nat → Int
  | [], _, _ => 0
  | r :: rest, a, o => (if a + r.bc ≤ o then r.line else 0) + tot rest (a + r.bc) o

def bcSum (rows : List Item) : Nat := (rows.map (·.bc)).sum

theorem tot_append : ∀ (A B : List Item) (a o : Nat), tot (A ++ B) a o = tot A a o + tot B (a + bcSum A) o := by
  intro A
  induction A with
  | nil => intro B a o; simp [tot, bcSum]
  | cons r A ih =>
    intro B a o
    simp only [List.cons_append, tot, ih, bcSum, List.map_cons, List.sum_cons]
    rw [show a + r.bc + (A.map (·.bc)).sum = a + (r.bc + (A.map (·.bc)).sum) by omega]
    omega

theorem bcSum_append (A B : List Item) : bcSum (A ++ B) = bcSum A + bcSum B := by simp [bcSum]

theorem tot_past : ∀ (rows : List Item) (a o : Nat), o < a → tot rows a o = 0 := by
  intro rows
  induction rows with
  | nil => intro a o _; rfl
  | cons r rows ih =>
    intro a o h
    simp only [tot]
    rw [ih _ _ (by omega)]
    have : ¬ a + r.bc ≤ o := by omega
    simp [this]

/-- `PyCode_Addr2Line` (≤ 3.9) is the additive reading -/
theorem lineOfOld_eq_tot : ∀ (rows : List Item) (o a : Nat) (ln : Int), (∀ r ∈ rows, -128 ≤ r.line ∧ r.line ≤ 127) → a ≤ o →
    Spec.lineOfOld (itemsToBytes rows) o a ln = ln + tot rows a o := by
  intro rows
  induction rows with
  | nil => intro o a ln _ _; simp [itemsToBytes, Spec.lineOfOld, tot]
  | cons r rows ih =>
    intro o a ln h ha
    have hr := h r (by simp)
    simp only [itemsToBytes, Spec.lineOfOld, tot, signed_unsigned r.line hr.1 hr.2]
    by_cases hgt : a + r.bc > o
    · simp only [hgt, if_true]
      have : ¬ a + r.bc ≤ o := by omega
      simp only [this, if_false]
      rw [tot_past _ _ _ hgt]; omega
    · simp only [hgt, if_false]
      have : a + r.bc ≤ o := by omega
      simp only [this, if_true]
      rw [ih o _ _ (fun x hx => h x (by simp [hx])) this]; omega

/-! ### the rows of one expanded item (lnotab) -/

theorem maxBc_false : maxBc false = 255 := rfl
theorem minLine_false : minLine false = -128 := rfl

theorem tot_expBc_old : ∀ (bc : Nat) (line : Option Int) (a o : Nat),
    tot (expBc false line bc).1 a o = 0 ∧ bcSum (expBc false line bc).1 + (expBc false line bc).2.2 = bc ∧ (expBc false line bc).2.1 = line := by
  intro bc
  induction bc using Nat.strongRecOn with
  | _ bc ih =>
    intro line a o
    by_cases hb : bc > maxBc false
    · rw [expBc_step _ _ _ hb]
      rw [maxBc_false] at hb
      have ih' := ih (bc - 255) (by omega) line (a + 255) o
      simp only [Bool.false_eq_true, if_false, maxBc_false] at ih' ⊢
      generalize expBc false line (bc - 255) = X at *
      obtain ⟨rows', l2, b2⟩ := X
      dsimp only at *
      refine ⟨?_, ?_, ih'.2.2⟩
      · simp only [tot, ih'.1]; split <;> rfl
      · simp only [bcSum, List.map_cons, List.sum_cons] at ih' ⊢; omega
    · rw [expBc_small _ _ _ (by omega)]; simp [tot, bcSum]

theorem tot_expUp_old : ∀ (n : Nat) (l : Int) (bc : Nat) (a o : Nat), l.toNat = n →
    tot (expUp false l bc).1 a o = (if a + bc ≤ o then l - (expUp false l bc).2.1 else 0) ∧
    bcSum (expUp false l bc).1 + (expUp false l bc).2.2 = bc := by
  intro n
  induction n using Nat.strongRecOn with
  | _ n ih =>
    intro l bc a o hn
    by_cases hb : l > 127
    · rw [expUp_step _ _ _ hb]
      have ih' := ih (l - 127).toNat (by omega) (l - 127) 0 (a + bc) o rfl
      simp only [Bool.false_eq_true, if_false] at ih' ⊢
      generalize expUp false (l - 127) 0 = X at *
      obtain ⟨rows', l2, b2⟩ := X
      dsimp only at *
      constructor
      · simp only [tot, ih'.1, Nat.add_zero]
        split <;> omega
      · simp only [bcSum, List.map_cons, List.sum_cons] at ih' ⊢; omega
    · rw [expUp_small _ _ _ (by omega)]; simp [tot, bcSum]

theorem tot_expDown_old : ∀ (n : Nat) (l : Int) (bc : Nat) (a o : Nat), (-l).toNat = n →
    tot (expDown false l bc).1 a o = (if a + bc ≤ o then l - (expDown false l bc).2.1 else 0) ∧
    bcSum (expDown false l bc).1 + (expDown false l bc).2.2 = bc := by
  intro n
  induction n using Nat.strongRecOn with
  | _ n ih =>
    intro l bc a o hn
    by_cases hb : l < minLine false
    · rw [expDown_step _ _ _ hb]
      rw [minLine_false] at hb ⊢
      have ih' := ih (-(l - -128)).toNat (by omega) (l - -128) 0 (a + bc) o rfl
      simp only [Bool.false_eq_true, if_false] at ih' ⊢
      generalize expDown false (l - -128) 0 = X at *
      obtain ⟨rows', l2, b2⟩ := X
      dsimp only at *
      constructor
      · simp only [tot, ih'.1, Nat.add_zero]
        split <;> omega
      · simp only [bcSum, List.map_cons, List.sum_cons] at ih' ⊢; omega
    · rw [expDown_small _ _ _ (by omega)]; simp [tot, bcSum]

/-- **One collapsed lnotab row means to CPython's reader what it says**: all its line delta at its cumulative address. -/
theorem tot_expandOne_old (l : Int) (bc : Nat) (a o : Nat) :
    tot (expandOne false ⟨some l, bc⟩) a o = (if a + bc ≤ o then l else 0) ∧ bcSum (expandOne false ⟨some l, bc⟩) = bc := by
  simp only [expandOne, Bool.false_eq_true, if_false]
  obtain ⟨hb1, hb2, hb3⟩ := tot_expBc_old bc (some l) a o
  rw [hb3]
  generalize expBc false (some l) bc = B at *
  obtain ⟨rowsB, lB, b1⟩ := B
  dsimp only at *
  simp only [expLine]
  obtain ⟨hu1, hu2⟩ := tot_expUp_old _ l b1 (a + bcSum rowsB) o rfl
  generalize expUp false l b1 = U at *
  obtain ⟨rowsU, lu, bu⟩ := U
  dsimp only at *
  obtain ⟨hd1, hd2⟩ := tot_expDown_old _ lu bu (a + bcSum rowsB + bcSum rowsU) o rfl
  generalize expDown false lu bu = D at *
  obtain ⟨rowsD, ld, bd⟩ := D
  dsimp only at *
  have htot1 : ∀ (x : Item) (a' : Nat), tot [x] a' o = (if a' + x.bc ≤ o then x.line else 0) := by
    intro x a'; simp [tot]
  have hbs1 : ∀ (x : Item), bcSum [x] = x.bc := by intro x; simp [bcSum]
  generalize hsB : bcSum rowsB = sB at *
  generalize hsU : bcSum rowsU = sU at *
  generalize hsD : bcSum rowsD = sD at *
  unfold finish
  split
  · simp only [List.append_assoc, tot_append, bcSum_append, hb1, hu1, hd1, htot1, hbs1, hsB, hsU, hsD, lineOr128]
    refine ⟨?_, by omega⟩
    by_cases h : a + bc ≤ o
    · rw [if_pos (by omega), if_pos (by omega), if_pos (by omega), if_pos h]; omega
    · rw [if_neg (by omega), if_neg (by omega), if_neg (by omega), if_neg h]; omega
  · next hcond =>
    simp only [Bool.or_eq_true, bne_iff_ne, ne_eq, not_or, Decidable.not_not] at hcond
    obtain ⟨⟨hl0, hb0⟩, _⟩ := hcond
    have hld : ld = 0 := by simpa using hl0
    subst hld; subst hb0
    simp only [List.append_assoc, tot_append, bcSum_append, hb1, hu1, hd1, hsB, hsU, hsD]
    refine ⟨?_, by omega⟩
    by_cases h : a + bc ≤ o
    · rw [if_pos (by omega), if_pos (by omega), if_pos h]; omega
    · rw [if_neg (by omega), if_neg (by omega), if_neg h]; omega

/-- the reading of collapsed lnotab rows -/
def totC : List CItem → Nat → Nat → Int
  | [], _, _ => 0
  | c :: rest, a, o => (if a + c.bc ≤ o then c.line.getD 0 else 0) + totC rest (a + c.bc) o

theorem foldl_add_shift : ∀ (L : List Nat) (b : Nat), L.foldl (· + ·) b = b + L.foldl (· + ·) 0 := by
  intro L
  induction L with
  | nil => intro b; simp
  | cons x xs ih => intro b; simp only [List.foldl_cons]; rw [ih (b + x), ih (0 + x)]; omega

theorem tot_expand_old : ∀ (cs : List CItem) (a o : Nat), (∀ c ∈ cs, c.line.isSome) →
    tot (expand false cs) a o = totC cs a o ∧ bcSum (expand false cs) = sumBc cs := by
  intro cs
  induction cs with
  | nil => intro a o _; simp [expand, tot, totC, bcSum, sumBc]
  | cons c cs ih =>
    intro a o h
    have hc := h c (by simp)
    obtain ⟨line, bc⟩ := c
    cases line with
    | none => simp at hc
    | some l =>
      have he : expand false (⟨some l, bc⟩ :: cs) = expandOne false ⟨some l, bc⟩ ++ expand false cs := by simp [expand]
      obtain ⟨h1, h2⟩ := tot_expandOne_old l bc a o
      obtain ⟨i1, i2⟩ := ih (a + bc) o (fun x hx => h x (by simp [hx]))
      rw [he, tot_append, bcSum_append, h1, h2, i1, i2]
      constructor
      · simp [totC]
      · simp only [sumBc, List.map_cons, List.foldl_cons, Nat.zero_add]
        rw [foldl_add_shift _ bc]

/-! ### the decoding loop -/

def sumB (P : List CItem) : Nat := (P.map (·.bc)).sum
def sumL (P : List CItem) : Int := (P.map (·.line.getD 0)).sum

theorem sumBc_eq_sumB (cs : List CItem) : sumBc cs = sumB cs := by
  unfold sumBc sumB
  generalize cs.map (·.bc) = L
  induction L with
  | nil => rfl
  | cons x xs ih => simp only [List.foldl_cons, List.sum_cons]; rw [foldl_add_shift, ih]; omega

theorem totC_append : ∀ (P Q : List CItem) (a o : Nat), totC (P ++ Q) a o = totC P a o + totC Q (a + sumB P) o := by
  intro P
  induction P with
  | nil => intro Q a o; simp [totC, sumB]
  | cons c P ih =>
    intro Q a o
    simp only [List.cons_append, totC, ih, sumB, List.map_cons, List.sum_cons]
    rw [show a + c.bc + (P.map (·.bc)).sum = a + (c.bc + (P.map (·.bc)).sum) by omega]
    omega

theorem totC_all : ∀ (P : List CItem) (a o : Nat), a + sumB P ≤ o → totC P a o = sumL P := by
  intro P
  induction P with
  | nil => intro a o _; simp [totC, sumL]
  | cons c P ih =>
    intro a o h
    simp only [sumB, List.map_cons, List.sum_cons] at h
    simp only [totC, sumL, List.map_cons, List.sum_cons]
    have : a + c.bc ≤ o := by omega
    rw [if_pos this, ih (a + c.bc) o (by simp only [sumB]; omega)]
    rfl

theorem totC_past : ∀ (Q : List CItem) (a o : Nat), o < a → totC Q a o = 0 := by
  intro Q
  induction Q with
  | nil => intro a o _; rfl
  | cons c Q ih =>
    intro a o h
    simp only [totC]
    rw [ih _ _ (by omega), if_neg (by omega)]; rfl

theorem totC_head_past (it : CItem) (rest : List CItem) (a o : Nat) (h : o < a + it.bc) : totC (it :: rest) a o = 0 := by
  simp only [totC]
  rw [if_neg (by omega), totC_past _ _ _ h]; rfl

theorem zeroRun_spec : ∀ (l : List CItem), ∃ Z, l = Z ++ (zeroRun l).2 ∧ (∀ z ∈ Z, z.bc = 0) ∧
    (zeroRun l).1.foldl (· + ·) 0 = sumL Z ∧ (∀ it rest, (zeroRun l).2 = it :: rest → it.bc ≠ 0) := by
  intro l
  induction l with
  | nil => exact ⟨[], by simp [zeroRun], by simp, by simp [zeroRun, sumL], by simp [zeroRun]⟩
  | cons it rest ih =>
    by_cases hz : it.bc = 0
    · obtain ⟨Z, h1, h2, h3, h4⟩ := ih
      refine ⟨it :: Z, ?_, ?_, ?_, ?_⟩
      · simp only [zeroRun, hz, if_true, List.cons_append]; rw [← h1]
      · intro z hz'; rcases List.mem_cons.mp hz' with rfl | h; exact hz; exact h2 z h
      · simp only [zeroRun, hz, if_true, List.foldl_cons, sumL, List.map_cons, List.sum_cons]
        have : ∀ (L : List Int) (b : Int), L.foldl (· + ·) b = b + L.foldl (· + ·) 0 := by
          intro L; induction L with
          | nil => intro b; simp
          | cons x xs ihL => intro b; simp only [List.foldl_cons]; rw [ihL (b + x), ihL (0 + x)]; omega
        rw [this, h3]; simp [sumL]
      · simp only [zeroRun, hz, if_true]; exact h4
    · refine ⟨[], by simp [zeroRun, hz], by simp, by simp [zeroRun, hz, sumL], ?_⟩
      intro it' rest' h
      simp only [zeroRun, hz, if_false, List.cons.injEq] at h
      rw [← h.1]; exact hz

/-- what is true of the loop state each time the `while` condition is evaluated -/
structure OldInv (cs : List CItem) (s : St) : Prop where
  split : ∃ P, cs = P ++ s.items ∧ s.last = sumB P ∧ s.cur = sumL P
  offEven : s.off % 2 = 0
  lastLe : s.last ≤ s.off
  nextGE : ∀ it rest, s.items = it :: rest → s.off ≤ s.last + it.bc
  lines : s.lines = ((List.range (s.off / 2)).map (fun k => (2 * k, some (totC cs 0 (2 * k))))).reverse

theorem sumB_append (P Q : List CItem) : sumB (P ++ Q) = sumB P + sumB Q := by simp [sumB]
theorem sumL_append (P Q : List CItem) : sumL (P ++ Q) = sumL P + sumL Q := by simp [sumL]
theorem sumB_zero (Z : List CItem) (h : ∀ z ∈ Z, z.bc = 0) : sumB Z = 0 := by
  induction Z with
  | nil => rfl
  | cons z Z ih =>
    simp only [sumB, List.map_cons, List.sum_cons]
    rw [h z (by simp)]
    have := ih (fun x hx => h x (by simp [hx]))
    simp only [sumB] at this; omega

theorem sumB_even (P : List CItem) (h : ∀ c ∈ P, c.bc % 2 = 0) : sumB P % 2 = 0 := by
  induction P with
  | nil => rfl
  | cons c P ih =>
    simp only [sumB, List.map_cons, List.sum_cons]
    have := ih (fun x hx => h x (by simp [hx]))
    have := h c (by simp)
    simp only [sumB] at *; omega

theorem lines_step (cs : List CItem) (off : Nat) (hoff : off % 2 = 0) (v : Int) (hv : v = totC cs 0 off) :
    (off, some v) :: ((List.range (off / 2)).map (fun k => (2 * k, some (totC cs 0 (2 * k))))).reverse =
      ((List.range ((off + 2) / 2)).map (fun k => (2 * k, some (totC cs 0 (2 * k))))).reverse := by
  have e : (off + 2) / 2 = off / 2 + 1 := by omega
  rw [e, List.range_succ, List.map_append, List.reverse_append]
  have e2 : 2 * (off / 2) = off := by omega
  simp [e2, hv]

/-- **One iteration of the `while` loop keeps the invariant** and records CPython's line for the current offset. -/
theorem oldStep_inv (cs : List CItem) (hev : ∀ c ∈ cs, c.bc % 2 = 0) (s : St) (h : OldInv cs s) : OldInv cs (oldStep s) ∧ (oldStep s).off = s.off + 2 := by
  obtain ⟨P, hcs, hlast, hcur⟩ := h.split
  have hoff := h.offEven
  have hPev : sumB P % 2 = 0 := sumB_even P (fun c hc => hev c (by rw [hcs]; simp [hc]))
  unfold oldStep
  cases hitems : s.items with
  | nil =>
    simp only
    have hcsP : cs = P := by rw [hcs, hitems]; simp
    refine ⟨⟨⟨P, by simp [hitems, hcsP], hlast, hcur⟩, by simp; omega, by simp; have := h.lastLe; omega,
      by intro it rest hh; simp [hitems] at hh, ?_⟩, trivial⟩
    simp only [h.lines]
    apply lines_step cs s.off hoff
    rw [hcur, hcsP, totC_all P 0 s.off (by have := h.lastLe; omega)]
  | cons it rest =>
    have hnext := h.nextGE it rest hitems
    have hitev : it.bc % 2 = 0 := hev it (by rw [hcs, hitems]; simp)
    simp only
    by_cases hc : s.off - s.last = it.bc
    · -- the entry whose address is the current offset is consumed, then the zero-width entries after it
      simp only [hc, if_true]
      obtain ⟨Z, hZ1, hZ2, hZ3, hZ4⟩ := zeroRun_spec rest
      have hsplit2 : cs = (P ++ [it] ++ Z) ++ (zeroRun rest).2 := by
        rw [hcs, hitems]; simp only [List.append_assoc, List.singleton_append, List.cons_append, List.nil_append]; rw [← hZ1]
      have hB2 : sumB (P ++ [it] ++ Z) = s.off := by
        rw [sumB_append, sumB_append, sumB_zero Z hZ2, ← hlast]; simp only [sumB, List.map_cons, List.map_nil, List.sum_cons, List.sum_nil]
        have := h.lastLe; omega
      have hL2 : s.cur + it.line.getD 0 + (zeroRun rest).1.foldl (· + ·) 0 = sumL (P ++ [it] ++ Z) := by
        rw [sumL_append, sumL_append, hZ3, ← hcur]; simp [sumL]
      refine ⟨⟨⟨P ++ [it] ++ Z, hsplit2, hB2.symm, hL2⟩, by simp; omega, by simp, ?_, ?_⟩, trivial⟩
      · intro it' rest' hh
        simp only at hh
        have hne := hZ4 it' rest' hh
        have hev' : it'.bc % 2 = 0 := hev it' (by rw [hsplit2, hh]; simp)
        simp only; omega
      · simp only [h.lines]
        apply lines_step cs s.off hoff
        rw [hL2, hsplit2, totC_append, totC_all _ 0 s.off (by omega)]
        cases hq : (zeroRun rest).2 with
        | nil => simp [totC]
        | cons it' rest' =>
          have hne := hZ4 it' rest' hq
          rw [totC_head_past it' rest' _ _ (by omega)]; simp
    · -- the next entry lies further on: nothing is consumed
      simp only [hc, if_false]
      have hbpos : it.bc ≠ 0 := by have := h.lastLe; omega
      have hzr : zeroRun s.items = ([], s.items) := by rw [hitems]; simp [zeroRun, hbpos]
      rw [hitems] at hzr
      simp only [hitems, hzr, List.foldl_nil, Int.add_zero]
      refine ⟨⟨⟨P, by rw [hcs, hitems], hlast, hcur⟩, by simp; omega, by simp; have := h.lastLe; omega, ?_, ?_⟩, trivial⟩
      · intro it' rest' hh
        simp only [List.cons.injEq] at hh
        rw [← hh.1]
        simp only
        have := h.lastLe
        rw [hlast] at *
        omega
      · simp only [h.lines]
        apply lines_step cs s.off hoff
        rw [hcur, hcs, hitems, totC_append, totC_all P 0 s.off (by have := h.lastLe; omega)]
        rw [totC_head_past it rest _ _ (by have := h.lastLe; omega)]; simp

theorem sumB_split_le (P : List CItem) (it : CItem) (rest : List CItem) : sumB P + it.bc ≤ sumB (P ++ it :: rest) := by
  rw [sumB_append]; simp only [sumB, List.map_cons, List.sum_cons]; omega

/-- **The decoding loop terminates** (for tables whose addresses are even — an odd address is never reached by the
    offset counter, which advances by 2: the loop of the implementation then never ends) **and ends with the invariant**. -/
theorem oldLoop_spec (cs : List CItem) (hev : ∀ c ∈ cs, c.bc % 2 = 0) (maxOff : Nat) : ∀ (fuel : Nat) (s : St), OldInv cs s →
    maxOff + sumB cs + 4 ≤ 2 * fuel + s.off → ∃ s', oldLoop maxOff fuel s = .ok s' ∧ OldInv cs s' ∧ maxOff ≤ s'.off := by
  intro fuel
  induction fuel with
  | zero =>
    intro s h hf
    have hnc : ¬ (s.off < maxOff ∨ s.items ≠ []) := by
      rintro (h1 | h1)
      · omega
      · cases hit : s.items with
        | nil => exact h1 hit
        | cons it rest =>
          obtain ⟨P, hcs, hlast, _⟩ := h.split
          have := h.nextGE it rest hit
          have := sumB_split_le P it rest
          rw [hit] at hcs; rw [← hcs] at this
          omega
    exact ⟨s, by simp [oldLoop, hnc, pure, Except.pure], h, by omega⟩
  | succ f ih =>
    intro s h hf
    by_cases hc : s.off < maxOff ∨ s.items ≠ []
    · obtain ⟨hi, ho⟩ := oldStep_inv cs hev s h
      obtain ⟨s', h1, h2, h3⟩ := ih (oldStep s) hi (by omega)
      exact ⟨s', by simp only [oldLoop, hc, if_true]; exact h1, h2, h3⟩
    · exact ⟨s, by simp [oldLoop, hc, pure, Except.pure], h, by omega⟩

theorem assoc?_units_fn {β} (f : Nat → β) : ∀ (m o : Nat),
    assoc? o ((List.range m).map (fun k => (2 * k, f k))) = if o % 2 = 0 ∧ o / 2 < m then some (f (o / 2)) else none := by
  intro m
  induction m with
  | zero => intro o; simp [assoc?]
  | succ m ih =>
    intro o
    rw [List.range_succ, List.map_append, assoc?_app, ih]
    by_cases h : o % 2 = 0 ∧ o / 2 < m
    · rw [if_pos h, if_pos ⟨h.1, by omega⟩]
    · rw [if_neg h]
      simp only [List.map_cons, List.map_nil, assoc?]
      by_cases hn : o = 2 * m
      · have : o / 2 = m := by omega
        rw [if_pos hn, if_pos ⟨by omega, by omega⟩, this]
      · rw [if_neg hn, if_neg (by omega)]

/-- **Decoded lines are CPython's lines (`co_lnotab`, 3.7-3.9).**  For every lnotab byte string whose rows, once the
    255-byte continuation rows are merged (`collapse_items`), have even address deltas (any line deltas, zero-width rows,
    any number of rows): `to_line_mapping` terminates and succeeds, and for every
    even offset below the code length the decoded mapping has exactly the line `PyCode_Addr2Line` computes. -/
theorem decoded_lines_old (b : List Nat) (n : Nat) (heven : b.length % 2 = 0) (hbytes : ∀ x ∈ b, x < 256)
    (hbc : ∀ cs, collapse false (bytesToItems b) = some cs → ∀ c ∈ cs, c.bc % 2 = 0) :
    ∃ lm, toLineMapping false b n = .ok lm ∧
      ∀ o, o % 2 = 0 → o < n → assoc? o lm.lines = some (some (Spec.lineOfOld b o 0 0)) := by
  have hv := bytesToItems_validRow false b hbytes (fun h => by cases h)
  obtain ⟨cs, hc, he, hsome⟩ := expand_collapse false (bytesToItems b) hv
  have hcs : ∀ c ∈ cs, c.bc % 2 = 0 := hbc cs hc
  have hinit : OldInv cs ⟨cs, 0, 0, 0, [], []⟩ :=
    ⟨⟨[], by simp, by simp [sumB], by simp [sumL]⟩, rfl, Nat.le_refl _, by intro it rest _; simp, by simp⟩
  obtain ⟨s', hl, hinv, hoff⟩ := oldLoop_spec cs hcs n (n + sumBc cs + 4) _ hinit (by rw [sumBc_eq_sumB]; simp; omega)
  refine ⟨⟨s'.lines.reverse, s'.extra⟩, ?_, ?_⟩
  · simp [toLineMapping, bytesToItems?, heven, hc, liftOpt, itemsToMapping, bind, Except.bind, pure, Except.pure, hl]
  · intro o ho hon
    simp only [hinv.lines, List.reverse_reverse]
    rw [assoc?_units_fn (fun k => some (totC cs 0 (2 * k))) (s'.off / 2) o]
    have : o % 2 = 0 ∧ o / 2 < s'.off / 2 := by have := hinv.offEven; omega
    rw [if_pos this]
    have e2 : 2 * (o / 2) = o := by omega
    rw [e2]
    have hb : itemsToBytes (bytesToItems b) = b := itemsToBytes_bytesToItems b heven hbytes
    have hspec := lineOfOld_eq_tot (bytesToItems b) o 0 0 (fun r hr => ⟨(hv r hr).2.1, (hv r hr).2.2⟩) (by omega)
    rw [hb] at hspec
    rw [hspec, ← he, (tot_expand_old cs 0 o (hsome rfl)).1]
    simp

end CDV.LT
