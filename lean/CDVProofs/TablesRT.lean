import CDVProofs.Tables
import CDVProofs.EncTables
import CDVProofs.Iter
import CDVProofs.Canon
/-! # The operand tables survive `from_code` → `to_code`: generic part (one table) -/
namespace CDV

section
variable {α : Type} {keyEq : α → α → Bool}

theorem ov_cases (d : ToArgs α) (idx : Nat) (d' : ToArgs α) (a : α) (ov : Option Nat)
    (h : d.foundIndex keyEq (idx : Int) = .ok (d', a, ov)) : ov = none ∨ ov = some idx := by
  have := foundIndex_override d idx d' a ov h
  rw [this]
  by_cases hc : ((assoc? idx d'.found).getD 0 != idx || keyElsewhere keyEq a idx d.keyToIndex) = true
  · rw [if_pos hc]; exact Or.inr rfl
  · rw [if_neg hc]; exact Or.inl rfl

/-- first use of an index: the encoder may also *set* the entry explicitly (seeded parameters, the docstring) -/
theorem sim_set_first (hk : KeyEquiv keyEq) (args : List α) (d : ToArgs α) (e : FromArgs α) (hs : Sim keyEq args d e)
    (idx : Nat) (d' : ToArgs α) (a : α) (ov : Option Nat)
    (h : d.foundIndex keyEq (idx : Int) = .ok (d', a, ov)) (hnew : assoc? idx d.found = none) :
    ∃ e', e.set keyEq idx a = .ok e' ∧ Sim keyEq args d' e' := by
  obtain ⟨e', hadd, hs'⟩ := sim_step hk args d e hs idx d' a ov h
  obtain ⟨_, _, hfound, _, _⟩ := foundIndex_ok d idx d' a ov h
  rw [hnew] at hfound
  rcases ov_cases d idx d' a ov h with rfl | rfl
  · unfold FromArgs.add at hadd
    dsimp only at hadd
    cases hkf : keyFind keyEq a e.argToI with
    | some i =>
      rw [hkf] at hadd
      simp only [pure, Except.pure, Except.ok.injEq, Prod.mk.injEq] at hadd
      obtain ⟨rfl, _⟩ := hadd
      have h1 := congrArg List.length hs.idx
      have h2 := congrArg List.length hs'.idx
      rw [hfound] at h2
      simp at h1 h2
      omega
    | none =>
      rw [hkf] at hadd
      obtain ⟨t, ht, hadd⟩ := bind_ok hadd
      simp only [pure, Except.pure, Except.ok.injEq, Prod.mk.injEq] at hadd
      obtain ⟨rfl, hlen⟩ := hadd
      rw [hlen] at ht
      exact ⟨t, ht, hs'⟩
  · unfold FromArgs.add at hadd
    dsimp only at hadd
    obtain ⟨t, ht, hadd⟩ := bind_ok hadd
    simp only [pure, Except.pure, Except.ok.injEq, Prod.mk.injEq] at hadd
    obtain ⟨rfl, _⟩ := hadd
    exact ⟨t, ht, hs'⟩

theorem insertSorted_length_new (x : Nat) : ∀ (l : List Nat), x ∉ l → (insertSorted x l).length = l.length + 1
  | [], _ => rfl
  | y :: ys, h => by
    simp only [List.mem_cons, not_or] at h
    simp only [insertSorted]
    split
    · rfl
    · rw [if_neg h.1]
      simp [insertSorted_length_new x ys h.2]

theorem foldl_insertSorted_length : ∀ (l acc : List Nat), l.Nodup → (∀ x ∈ l, x ∉ acc) →
    (l.foldl (fun a t => insertSorted t a) acc).length = l.length + acc.length
  | [], acc, _, _ => by simp
  | x :: l, acc, hn, hd => by
    simp only [List.nodup_cons] at hn
    simp only [List.foldl_cons, List.length_cons]
    rw [foldl_insertSorted_length l (insertSorted x acc) hn.2 ?_, insertSorted_length_new x acc (hd x (by simp))]
    · omega
    · intro y hy hin
      rw [insertSorted_mem] at hin
      rcases hin with rfl | hin
      · exact hn.1 hy
      · exact hd y (by simp [hy]) hin

/-- a list of distinct naturals that is exactly `{0, …, n-1}` has `n` elements -/
theorem nodup_cover_length (l : List Nat) (n : Nat) (hn : l.Nodup) (hlt : ∀ x ∈ l, x < n) (hall : ∀ i, i < n → i ∈ l) : l.length = n := by
  have hs : SortedLt (l.foldl (fun a t => insertSorted t a) []) := foldl_insertSorted_sorted _ _ (by simp [SortedLt])
  have hr : SortedLt (List.range n) := by
    simp only [SortedLt, List.pairwise_iff_getElem]
    intro i j hi hj hij
    simp only [List.getElem_range]
    exact hij
  have hm : ∀ x, x ∈ l.foldl (fun a t => insertSorted t a) [] ↔ x ∈ List.range n := by
    intro x
    rw [foldl_insertSorted_mem]
    simp only [List.not_mem_nil, or_false, List.mem_range]
    exact ⟨hlt x, hall x⟩
  have := congrArg List.length (sorted_ext _ _ hs hr hm)
  rw [foldl_insertSorted_length l [] hn (by simp)] at this
  simpa using this

/-- an encoder table that already holds the whole original table -/
structure TableComplete (keyEq : α → α → Bool) (args : List α) (e : FromArgs α) : Prop where
  vals : ∀ i a, (i, a) ∈ e.iToArg → args[i]? = some a
  nodup : (e.iToArg.map Prod.fst).Nodup
  all : ∀ i, i < args.length → i ∈ e.iToArg.map Prod.fst
  keys : ∀ a, a ∈ args → (keyFind keyEq a e.argToI).isSome = true
  len : e.iToArg.length = args.length
  keyVal : ∀ a i, keyFind keyEq a e.argToI = some i → ∃ b, args[i]? = some b ∧ keyEq a b = true

theorem Sim.complete {args : List α} {d : ToArgs α} {e : FromArgs α} (hs : Sim keyEq args d e)
    (hall : ∀ i, i < args.length → i ∈ d.found.map Prod.fst) : TableComplete keyEq args e := by
  refine ⟨hs.vals, by rw [hs.idx]; exact hs.nodup, by rw [hs.idx]; exact hall, ?_, ?_, ?_⟩
  · intro a ha
    obtain ⟨i, hi, hget⟩ := List.getElem_of_mem ha
    rw [hs.keys a]
    exact hs.foundKey i a (hall i hi) (by rw [List.getElem?_eq_getElem hi, hget])
  · have := nodup_cover_length (e.iToArg.map Prod.fst) args.length (by rw [hs.idx]; exact hs.nodup)
      (by
        intro x hx
        obtain ⟨⟨k, a⟩, hm, hk⟩ := List.mem_map.mp hx
        dsimp only at hk; subst hk
        exact (List.getElem?_eq_some_iff.mp (hs.vals k a hm)).1)
      (by rw [hs.idx]; exact hall)
    simpa using this
  · intro a i hk
    rw [hs.keys a] at hk
    exact (hs.keyFound a i hk).2

/-- adding again an operand the decoder produced leaves a complete table complete -/
theorem complete_add (hk : KeyEquiv keyEq) (args : List α) (e : FromArgs α) (hc : TableComplete keyEq args e)
    (idx : Nat) (a : α) (ov : Option Nat) (hget : args[idx]? = some a) (hov : ov = none ∨ ov = some idx) :
    ∃ e' j, e.add keyEq a ov = .ok (e', j) ∧ TableComplete keyEq args e' ∧ ∃ b, args[j]? = some b ∧ keyEq a b = true := by
  have hmem : a ∈ args := List.mem_of_getElem? hget
  rcases hov with rfl | rfl
  · obtain ⟨j, hj⟩ := Option.isSome_iff_exists.mp (hc.keys a hmem)
    exact ⟨e, j, by simp [FromArgs.add, hj, pure, Except.pure], hc, hc.keyVal a j hj⟩
  · have hlt : idx < args.length := by
      have := List.getElem?_eq_some_iff.mp hget
      exact this.1
    have hin := hc.all idx hlt
    obtain ⟨old, hold⟩ := Option.isSome_iff_exists.mp ((assoc?_isSome_iff idx e.iToArg).mpr hin)
    have holda : old = a := by
      have := hc.vals idx old (assoc?_mem idx old e.iToArg hold)
      rw [hget] at this; cases this; rfl
    have hsame : ∀ v, (idx, v) ∈ e.iToArg → v = a := by
      intro v hv; have := hc.vals idx v hv; rw [hget] at this; cases this; rfl
    refine ⟨⟨e.iToArg, keySet keyEq a idx e.argToI⟩, idx, ?_, ⟨hc.vals, hc.nodup, hc.all, ?_, hc.len, ?_⟩, ⟨a, hget, hk.refl a⟩⟩
    · simp only [FromArgs.add, FromArgs.set, hold, holda, hk.refl a, if_true, bind, Except.bind, pure, Except.pure]
      congr 3
      exact map_replace_same e.iToArg idx a hsame
    · intro x hx
      dsimp only
      rw [keyFind_keySet hk]
      split
      · rfl
      · exact hc.keys x hx
    · intro x i hx
      dsimp only at hx
      rw [keyFind_keySet hk] at hx
      split at hx
      · next hxa => cases hx; exact ⟨a, hget, hxa⟩
      · exact hc.keyVal x i hx

theorem assoc?_of_mem_nodup {β} (k : Nat) (v : β) : ∀ (l : List (Nat × β)), (l.map Prod.fst).Nodup → (k, v) ∈ l → assoc? k l = some v
  | [], _, h => by simp at h
  | (k', v') :: l, hn, h => by
    simp only [List.map_cons, List.nodup_cons] at hn
    simp only [List.mem_cons, Prod.mk.injEq] at h
    rcases h with ⟨rfl, rfl⟩ | h
    · simp [assoc?]
    · have hne : k ≠ k' := by
        intro he; subst he
        exact hn.1 (List.mem_map.mpr ⟨(k, v), h, rfl⟩)
      simp [assoc?, hne, assoc?_of_mem_nodup k v l hn.2 h]

/-- the keys of an emitted tuple are keys of the table -/
theorem toTuple_keys (t : FromArgs α) (tbl : List α) (h : t.toTuple = .ok tbl) (k : Nat) (hk : k < tbl.length) :
    k ∈ t.iToArg.map Prod.fst := by
  unfold FromArgs.toTuple at h
  simp only at h
  split at h
  · next hr =>
    simp only [pure, Except.pure, Except.ok.injEq] at h
    subst h
    have hkeys : (t.iToArg.foldl (fun acc x => insertByKey x acc) []).map Prod.fst =
        List.range (t.iToArg.foldl (fun acc x => insertByKey x acc) []).length := by simpa using hr
    generalize hsd : t.iToArg.foldl (fun acc x => insertByKey x acc) [] = sorted at hkeys hk
    have hmem : ∀ y, y ∈ sorted ↔ y ∈ t.iToArg := by
      intro y; rw [← hsd, foldl_insertByKey_mem]; simp
    simp only [List.length_map] at hk
    have h1 : (sorted.map Prod.fst)[k]? = some k := by rw [hkeys, List.getElem?_range hk]
    rw [List.getElem?_map] at h1
    rw [List.getElem?_eq_getElem hk] at h1
    simp only [Option.map_some, Option.some.injEq] at h1
    have : sorted[k] ∈ t.iToArg := (hmem _).mp (List.getElem_mem hk)
    exact List.mem_map.mpr ⟨sorted[k], this, h1⟩
  · simp [throw, throwThe, MonadExceptOf.throw] at h

/-- **a complete table is emitted as the original table** -/
theorem complete_toTuple (args : List α) (e : FromArgs α) (hc : TableComplete keyEq args e) (tbl : List α)
    (h : e.toTuple = .ok tbl) : tbl = args := by
  apply List.ext_getElem?
  intro i
  by_cases hi : i < args.length
  · obtain ⟨⟨k, a⟩, hmem, hk⟩ := List.mem_map.mp (hc.all i hi)
    dsimp only at hk
    subst hk
    have := hc.vals k a hmem
    rw [this]
    exact FromArgs.toTuple_get e tbl h k a (assoc?_of_mem_nodup k a e.iToArg hc.nodup hmem)
  · have h1 : args[i]? = none := List.getElem?_eq_none (by omega)
    rw [h1]
    apply List.getElem?_eq_none
    apply Classical.byContradiction
    intro hlt
    have hlt' : args.length < tbl.length := by omega
    obtain ⟨⟨k, a⟩, hmem, hk⟩ := List.mem_map.mp (toTuple_keys e tbl h args.length hlt')
    dsimp only at hk
    subst hk
    have := hc.vals _ a hmem
    have := (List.getElem?_eq_some_iff.mp this).1
    omega

end
end CDV
