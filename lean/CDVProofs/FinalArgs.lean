import CDVProofs.CodeTop
import CDVProofs.EncodeSpec
/-! # On decoded data the assembler ends with the original operands, so every operand fits the width it is written in -/
namespace CDV

theorem body_fits (v : Ver) (T : OpTable) (names varnames freevars cellvars : List PStr) (K : List Const) (lm : LT.LMap)
    (tp : Option Function) (np : Nat) (code : List Nat) (st' : DecSt) (blocks : List (List Instr)) (n : Nat)
    (al : Option AdditionalLine) (aa : List Arg)
    (hbody : decodeBody v T names varnames freevars cellvars K lm tp np code = .ok (st', blocks))
    (htail : decodeTail st' n = .ok (al, aa))
    (hdoc : ∀ f, tp = some f → f.doc = firstStr K)
    (hnone : tp = none → np = 0)
    (hvo : ∀ f, tp = some f → f.args.varnameOrder = varnames.take np ∧ np ≤ varnames.length)
    (hcode : ∀ x ∈ code, x < 256) (hcomp : Complete code 0)
    (hpre : ∀ raws, parseBytes code = .ok raws → ∀ r ∈ raws, r.nargs ≤ 4)
    (hmin : ∀ raws, parseBytes code = .ok raws → ∀ r ∈ raws, T.get r.op ≠ .jabs → T.get r.op ≠ .jrel → r.nargs = instrsize r.arg)
    (hjs : ∀ raws, parseBytes code = .ok raws → ∀ r ∈ raws,
      (T.get r.op = .jabs → (decMult v * r.arg).toNat ∈ raws.map (·.first)) ∧
      (T.get r.op = .jrel → ((r.next : Int) + decMult v * r.arg).toNat ∈ raws.map (·.first)))
    (hcn : cellvars.Nodup) (hfn : freevars.Nodup) :
    ∀ args, finalArgs v blocks aa freevars tp = .ok args → ∀ p ∈ blocks.flatten.zip args, Encodable p.1 p.2 := by
  obtain ⟨st0, raws, ois, est0, cv, est1, xs, hraws, hdec, hbl, _, _, _, _, h0, hcv, hres, hxlen, hxval⟩ :=
    body_resolve v T names varnames freevars cellvars K lm tp np code st' blocks n al aa hbody htail hdoc hnone hvo
  intro args hfinal
  simp only [finalArgs] at hfinal
  obtain ⟨est0', h0', hfinal⟩ := bind_ok hfinal
  rw [h0] at h0'; cases h0'
  obtain ⟨cv', hcv', hfinal⟩ := bind_ok hfinal
  rw [hcv] at hcv'; cases hcv'
  obtain ⟨⟨est1', xs'⟩, h1', hrel⟩ := bind_ok hfinal
  rw [hres] at h1'; cases h1'
  dsimp only at hrel
  obtain ⟨hargs, hflen, hsz⟩ := flat_args v T freevars code raws st0 st' ois blocks xs args _ hraws hdec hbl hcode hcomp (hpre raws hraws)
    (hmin raws hraws) (parseBytes_fits code raws hcode hcomp hraws (hpre raws hraws)) (hjs raws hraws) hxlen
    (resolveArgs_jumpsOne tp freevars _ _ _ _ hres) (fun j r p x e1 e2 e3 e4 => hxval j r p x e1 e2 e3 e4 hcn hfn) hrel
  have hF := parseBytes_Fits code raws hcode hcomp hraws (hpre raws hraws)
  intro p hp
  obtain ⟨j, hj⟩ := List.mem_iff_getElem?.mp hp
  obtain ⟨i, a⟩ := p
  rw [List.getElem?_zip_eq_some] at hj
  obtain ⟨hi, ha⟩ := hj
  rw [hargs, List.getElem?_map] at ha
  cases hr : raws[j]? with
  | none => rw [hr] at ha; simp at ha
  | some r =>
    rw [hr] at ha
    simp only [Option.map_some, Option.some.injEq] at ha
    subst ha
    have hrm := List.mem_of_getElem? hr
    obtain ⟨h1, h2⟩ := hsz j i r hi hr
    obtain ⟨h3, h4⟩ := hF r hrm
    refine ⟨by rw [h2]; exact h4, by rw [h1]; exact hpre raws hraws r hrm, by rw [h1]; exact h3⟩

/-- **On decoded data every operand the assembler writes fits the width it is written in** — the hypothesis of the C03
    theorems, derived for decodings of compiled code. -/
theorem decoded_fits (v : Ver) (T : OpTable) (F : FlagTable) (dec : RawCode → R CodeData)
    (argc pos kw nl ss fl : Nat) (fln : Int) (code lt : List Nat) (fname name : PStr) (names varnames freevars cellvars : List PStr)
    (consts : List RConst) (d : CodeData)
    (h : toCodeDataGo v T F dec (.mk argc pos kw nl ss fl fln code lt fname name names varnames freevars cellvars consts) = .ok d)
    (hlen : argc + kw + (if fl.testBit bVARARGS then 1 else 0) + (if fl.testBit bVARKEYWORDS then 1 else 0) ≤ varnames.length)
    (hnodup : (varnames.take (argc + kw + (if fl.testBit bVARARGS then 1 else 0) + (if fl.testBit bVARKEYWORDS then 1 else 0))).Nodup)
    (hcode : ∀ x ∈ code, x < 256) (hcomp : Complete code 0)
    (hpre : ∀ raws, parseBytes code = .ok raws → ∀ r ∈ raws, r.nargs ≤ 4)
    (hmin : ∀ raws, parseBytes code = .ok raws → ∀ r ∈ raws, T.get r.op ≠ .jabs → T.get r.op ≠ .jrel → r.nargs = instrsize r.arg)
    (hjs : ∀ raws, parseBytes code = .ok raws → ∀ r ∈ raws,
      (T.get r.op = .jabs → (decMult v * r.arg).toNat ∈ raws.map (·.first)) ∧
      (T.get r.op = .jrel → ((r.next : Int) + decMult v * r.arg).toNat ∈ raws.map (·.first)))
    (hcn : cellvars.Nodup) (hfn : freevars.Nodup) :
    ∀ args, finalArgs v d.blocks d.addArgs d.freevars d.type = .ok args → ∀ p ∈ d.blocks.flatten.zip args, Encodable p.1 p.2 := by
  unfold toCodeDataGo at h
  dsimp only at h
  split at h
  · exact absurd h (throw_bind_ne _ _)
  obtain ⟨lm, hlm, h⟩ := bind_ok h
  obtain ⟨K, hK, h⟩ := bind_ok h
  obtain ⟨⟨tp, ann, nested, args⟩, hhdr, h⟩ := bind_ok h
  obtain ⟨⟨st', blocks⟩, hbody, h⟩ := bind_ok h
  obtain ⟨⟨al, aa⟩, htail, h⟩ := bind_ok h
  simp only [pure, Except.pure, Except.ok.injEq] at h
  subst h
  obtain ⟨hnone, hsome, _⟩ := decodeHeader_tp v F argc pos kw fl varnames freevars cellvars K tp ann nested args hhdr
  have hargs := decodeHeader_args v F argc pos kw fl varnames freevars cellvars K tp ann nested args hhdr
  obtain ⟨r1, r2, r3, r4, r5, r6, r7⟩ := header_args_roundtrip argc _ kw varnames _ _ args hargs hlen hnodup
  have hnp : args.len = argc + kw + (if fl.testBit bVARARGS then 1 else 0) + (if fl.testBit bVARKEYWORDS then 1 else 0) := by
    unfold Args.len
    rw [r6, r4, r5]
    omega
  exact body_fits v T names varnames freevars cellvars K (shiftLines lm fln) tp args.len code st' blocks code.length al aa hbody htail
    (fun f hf => (hsome f hf).2) hnone (fun f hf => by rw [(hsome f hf).1, r7, hnp]; exact ⟨rfl, hlen⟩) hcode hcomp hpre hmin hjs hcn hfn

end CDV
