import CDVProofs.EncodeSpec
import CDVProofs.Normalize
/-! C05, the static half, composed: CPython reads the code object re-encoded from the *normalized* decoding of `c`
    as it reads `c` itself. -/
namespace CDV

/-- two readings of an operand are the same reading (constants up to `constant_key`, nested code up to equality of
    the normalized decoded data, jumps to the same instruction) -/
def SameReading (constants outConsts : List Const) : Spec.SArg → Spec.SArg → Prop
  | .raw n, .raw m => n = m
  | .jump i r, .jump i' r' => i = i' ∧ r = r'
  | .name x, .name y => x = y
  | .loc x, .loc y => x = y
  | .cell x, .cell y => x = y
  | .free x, .free y => x = y
  | .constInner c, .constInner c' => InnerConst.keyEq c c' = true
  | .constCode k, .constCode k' => ∃ d d', constants[k]? = some (.code d) ∧ outConsts[k']? = some (.code d') ∧ CodeData.beq (normCode d) d' = true
  | .noarg, .noarg => True
  | _, _ => False

theorem normBlocks_flatten : ∀ (bl : List (List Instr)), (normBlocks bl).flatten = normInstrs bl.flatten := by
  have happ : ∀ (a b : List Instr), normInstrs (a ++ b) = normInstrs a ++ normInstrs b := by
    intro a; induction a with
    | nil => intro b; rfl
    | cons x xs ih => intro b; simp [normInstrs, ih]
  intro bl
  induction bl with
  | nil => rfl
  | cons b bs ih => simp [normBlocks, happ, ih]

theorem normInstrs_get : ∀ (is : List Instr) (j : Nat), (normInstrs is)[j]? = (is[j]?).map normInstr := by
  intro is
  induction is with
  | nil => intro j; simp [normInstrs]
  | cons i is ih => intro j; cases j <;> simp [normInstrs, ih]

theorem normInstr_fields (i : Instr) : (normInstr i).op = i.op ∧ (normInstr i).line = i.line ∧ (normInstr i).arg = normArg i.arg := by
  obtain ⟨op, a, n, l, o⟩ := i; exact ⟨rfl, rfl, rfl⟩

theorem argSays_raw {st oc n s'} (h : ArgSays st oc (.raw n) s') : s' = .raw n := by
  cases s' <;> simp [ArgSays] at h
  rw [h]
theorem argSays_jump {st oc t r s'} (h : ArgSays st oc (.jump t r) s') : ∃ idx, s' = .jump idx r ∧ idx.isSome ∧ st[t]? = idx := by
  cases s' <;> simp only [ArgSays] at h
  case jump idx r' =>
    obtain ⟨t', he, h2, h3⟩ := h
    simp only [Arg.jump.injEq] at he
    obtain ⟨rfl, rfl⟩ := he
    exact ⟨idx, rfl, h2, h3⟩
  all_goals simp at h
theorem argSays_name {st oc x o s'} (h : ArgSays st oc (.name x o) s') : s' = .name x := by
  cases s' <;> simp [ArgSays] at h
  rw [h]
theorem argSays_varname {st oc x o s'} (h : ArgSays st oc (.varname x o) s') : s' = .loc x := by
  cases s' <;> simp [ArgSays] at h
  rw [h]
theorem argSays_cell {st oc x o s'} (h : ArgSays st oc (.cell x o) s') : s' = .cell x := by
  cases s' <;> simp [ArgSays] at h
  rw [h]
theorem argSays_free {st oc x s'} (h : ArgSays st oc (.free x) s') : s' = .free x := by
  cases s' <;> simp [ArgSays] at h
  rw [h]
theorem argSays_noarg {st oc n s'} (h : ArgSays st oc (.noarg n) s') : s' = .noarg := by
  cases s' <;> simp [ArgSays] at h
  rfl
theorem argSays_inner {st oc c o s'} (h : ArgSays st oc (.const (.inner c) o) s') : ∃ c', s' = .constInner c' ∧ InnerConst.keyEq c c' = true := by
  cases s' <;> simp [ArgSays] at h
  next c' => exact ⟨c', rfl, h⟩
theorem argSays_code {st oc d o s'} (h : ArgSays st oc (.const (.code d) o) s') :
    ∃ k d', s' = .constCode k ∧ oc[k]? = some (.code d') ∧ CodeData.beq d d' = true := by
  cases s' <;> simp [ArgSays] at h
  next k => obtain ⟨d', h1, h2⟩ := h; exact ⟨k, d', rfl, h1, h2⟩

/-- the decoded operand `a` reads as `s` in the original; its normalization reads as `s'` in the re-encoded code:
    then `s` and `s'` are the same reading -/
theorem sameReading_of (starts : List Nat) (constants outConsts : List Const) (a : Arg) (s s' : Spec.SArg)
    (h1 : ArgReads starts constants a s) (h2 : ArgSays starts outConsts (normArg a) s') : SameReading constants outConsts s s' := by
  cases s <;> simp only [ArgReads] at h1
  · subst h1; rw [argSays_raw h2]; rfl
  · obtain ⟨t, rfl, hsome, hst⟩ := h1
    obtain ⟨idx, rfl, _, hst'⟩ := argSays_jump h2
    exact ⟨by rw [← hst, ← hst'], rfl⟩
  · obtain ⟨o, rfl⟩ := h1; rw [argSays_name h2]; rfl
  · obtain ⟨o, rfl⟩ := h1; rw [argSays_varname h2]; rfl
  · obtain ⟨o, rfl⟩ := h1; rw [argSays_cell h2]; rfl
  · subst h1; rw [argSays_free h2]; rfl
  · obtain ⟨o, rfl⟩ := h1
    obtain ⟨c', rfl, hk⟩ := argSays_inner (by simpa [normArg, normConst] using h2)
    exact hk
  · obtain ⟨d, o, rfl, hc⟩ := h1
    obtain ⟨k, d', rfl, h3, h4⟩ := argSays_code (by simpa [normArg, normConst] using h2)
    exact ⟨d, d', hc, h3, h4⟩
  · obtain ⟨n, rfl⟩ := h1; rw [argSays_noarg h2]; trivial

end CDV

namespace CDV

theorem kindOK_of_operandOK (v : Ver) (T : OpTable) (names varnames fv cellvars : List PStr) (constants : List Const) (r : RawI) (ins : Instr)
    (hop : ins.op = r.op) (h : OperandOK v T names varnames fv cellvars constants r ins.arg) (hext : T.get r.op ≠ .ext) (targets : List Nat) :
    KindOK T (normInstr (retarget targets ins)) := by
  obtain ⟨op, a, n, l, o⟩ := ins
  simp only [Instr.op, Instr.arg] at hop h
  subst hop
  unfold OperandOK at h
  unfold KindOK
  cases hc : T.get r.op <;> simp only [hc] at h
  · obtain ⟨_, rfl⟩ := h; simp [retarget, normInstr, normArg, Instr.op, Instr.arg, hc]
  · obtain ⟨_, rfl⟩ := h; simp [retarget, normInstr, normArg, Instr.op, Instr.arg, hc]
  · obtain ⟨_, s, o', rfl, _⟩ := h; simp [retarget, normInstr, normArg, Instr.op, Instr.arg, hc]
  · obtain ⟨_, s, o', rfl, _⟩ := h; simp [retarget, normInstr, normArg, Instr.op, Instr.arg, hc]
  · obtain ⟨_, h⟩ := h
    split at h
    · obtain ⟨s, o', rfl, _⟩ := h; simp [retarget, normInstr, normArg, Instr.op, Instr.arg, hc]
    · obtain ⟨s, rfl, _⟩ := h; simp [retarget, normInstr, normArg, Instr.op, Instr.arg, hc]
  · obtain ⟨_, c, o', rfl, _⟩ := h; simp [retarget, normInstr, normArg, Instr.op, Instr.arg, hc]
  · subst h; simp [retarget, normInstr, normArg, Instr.op, Instr.arg, hc]
  · subst h; simp [retarget, normInstr, normArg, Instr.op, Instr.arg, hc]
  · exact absurd hc hext

theorem parseGo_op_ne_ext (ext : Nat) : ∀ (n : Nat) (code : List Nat), code.length = n → ∀ (i : Nat) (arg : Int) (nargs : Nat) (raws : List RawI),
    parseGo ext code i arg nargs = .ok raws → ∀ r ∈ raws, r.op ≠ ext := by
  intro n
  induction n using Nat.strongRecOn with
  | ind n ih =>
  intro code hlen i arg nargs raws hp
  match code, hlen with
  | [], _ => simp [parseGo, pure, Except.pure] at hp; subst hp; simp
  | [_], _ => simp [parseGo, throw, throwThe, MonadExceptOf.throw] at hp
  | op :: a :: rest, hlen =>
    simp only [List.length_cons] at hlen
    rw [parseGo] at hp
    by_cases hop : op = ext
    · simp only [hop, if_true] at hp
      exact ih rest.length (by omega) rest rfl _ _ _ raws hp
    · simp only [hop, if_false] at hp
      obtain ⟨r, hr, hp⟩ := bind_ok hp
      simp only [pure, Except.pure, Except.ok.injEq] at hp
      subst hp
      intro x hx
      rcases List.mem_cons.mp hx with rfl | hx
      · exact hop
      · exact ih rest.length (by omega) rest rfl _ _ _ r hr x hx

end CDV

namespace CDV

theorem units_fold_op_mem (ext : Nat) : ∀ (n : Nat) (code : List Nat), code.length = n → ∀ (off e : Nat) (first : Option Nat)
    (p : Nat × Nat × Int × Nat), p ∈ Spec.fold ext (Spec.units ext code off e) first → p.2.1 ∈ code := by
  intro n
  induction n using Nat.strongRecOn with
  | ind n ih =>
  intro code hlen off e first p hp
  match code, hlen with
  | [], _ => simp [Spec.units, Spec.fold] at hp
  | [_], _ => simp [Spec.units, Spec.fold] at hp
  | op :: a :: rest, hlen =>
    simp only [List.length_cons] at hlen
    simp only [Spec.units] at hp
    rw [Spec.fold] at hp
    by_cases hop : op = ext
    · simp only [hop, if_true] at hp
      have := ih rest.length (by omega) rest rfl _ _ _ p hp
      simp [this]
    · simp only [hop, if_false, List.mem_cons] at hp
      rcases hp with rfl | hp
      · simp
      · have := ih rest.length (by omega) rest rfl _ _ _ p hp
        simp [this]

theorem fold_op_lt (ext : Nat) (code : List Nat) (hcode : ∀ x ∈ code, x < 256) (off e : Nat) (first : Option Nat)
    (p : Nat × Nat × Int × Nat) (hp : p ∈ Spec.fold ext (Spec.units ext code off e) first) : p.2.1 < 256 :=
  hcode _ (units_fold_op_mem ext code.length code rfl off e first p hp)

theorem blockStarts_lt : ∀ (bl : List (List Instr)) (k : Nat), (∀ b ∈ bl, b ≠ []) → ∀ s ∈ blockStarts bl k, s < k + bl.flatten.length := by
  intro bl
  induction bl with
  | nil => intro k _ s hs; simp [blockStarts] at hs
  | cons b bs ih =>
    intro k hne s hs
    simp only [blockStarts, List.mem_cons] at hs
    have hb : b ≠ [] := hne b (by simp)
    have hbl : 0 < b.length := List.length_pos_iff.mpr hb
    simp only [List.flatten_cons, List.length_append]
    rcases hs with rfl | hs
    · omega
    · have := ih (k + b.length) (fun x hx => hne x (by simp [hx])) s hs; omega

/-- **Normalization preserves what CPython reads (C05, static half).**  Let `c` be a code object on which `from_code`
    succeeds (with the three compiler facts of C02), and let `out`, `table`, `consts'` be what `to_code()` builds from the
    *normalized* data.  Then CPython reads the rebuilt code object as it reads `c`: the same number of instructions, and at
    every position the same opcode, the same line (`None` at the same places), and the same operand reading — the same
    name, local, cell or free variable, a constant with the same `constant_key`, nested code whose normalized decoding is
    the one encoded, the same raw operand, a jump of the same kind to the same instruction. -/
theorem normalized_code_reads_same (v : Ver) (T : OpTable) (F : FlagTable) (dec : RawCode → R CodeData)
    (argc pos kw nl ss fl : Nat) (fln : Int) (code lt : List Nat) (fname name : PStr) (names varnames freevars cellvars : List PStr)
    (consts : List RConst) (d : CodeData)
    (h : toCodeDataGo v T F dec (.mk argc pos kw nl ss fl fln code lt fname name names varnames freevars cellvars consts) = .ok d)
    (hcode : ∀ x ∈ code, x < 256)
    (hpre : ∀ raws, parseBytes code = .ok raws → ∀ r ∈ raws, r.nargs ≤ 4)
    (hvalid : ∀ s ∈ Spec.read v T (.mk argc pos kw nl ss fl fln code lt fname name names varnames freevars cellvars consts),
      ∀ idx rel, s.arg = .jump idx rel → idx.isSome)
    (hteven : lt.length % 2 = 0) (htbytes : ∀ x ∈ lt, x < 256)
    (htbc : v.is310 = true → ∀ x ∈ LT.bytesToItems lt, x.bc % 2 = 0 ∧ x.bc ≠ 255)
    (htbcOld : v.is310 = false → ∀ cs, LT.collapse false (LT.bytesToItems lt) = some cs → ∀ c ∈ cs, c.bc % 2 = 0)
    (hT : ∀ op, T.get op = .ext → op = EXTENDED_ARG)
    (hrne : Spec.read v T (.mk argc pos kw nl ss fl fln code lt fname name names varnames freevars cellvars consts) ≠ [])
    -- re-encoding the normalized data
    (out : BlocksOut) (henc : blocksToBytes v (normCode d).blocks (normCode d).addArgs (normCode d).freevars (normCode d).type = .ok out)
    (enc : CodeData → R RawCode) (consts' : List RConst)
    (hconsts : out.consts.mapM (fun c => match c with | .inner i => pure (RConst.inner i) | .code d => RConst.code <$> enc d) = .ok consts')
    (table : List Nat)
    (htable : LT.fromLineMapping v.is310 ⟨out.lm.lines.map (fun p => (p.1, p.2.map (· - fln))), out.lm.extra⟩ = .ok table)
    (argc' pos' kw' nl' ss' fl' : Nat) (fname' name' : PStr)
    (hfit : ∀ args, finalArgs v (normCode d).blocks (normCode d).addArgs (normCode d).freevars (normCode d).type = .ok args →
      ∀ p ∈ (normCode d).blocks.flatten.zip args, Encodable p.1 p.2) :
    ∃ constants : List Const,
      consts.mapM (fun c => match c with | .inner i => pure (Const.inner i) | .code k => Const.code <$> dec k) = .ok constants ∧
      (Spec.read v T (.mk argc' pos' kw' nl' ss' fl' fln out.code table fname' name' out.names out.varnames (normCode d).freevars out.cellvars consts')).length =
        (Spec.read v T (.mk argc pos kw nl ss fl fln code lt fname name names varnames freevars cellvars consts)).length ∧
      ∀ (j : Nat) (s s' : Spec.SInstr),
        (Spec.read v T (.mk argc pos kw nl ss fl fln code lt fname name names varnames freevars cellvars consts))[j]? = some s →
        (Spec.read v T (.mk argc' pos' kw' nl' ss' fl' fln out.code table fname' name' out.names out.varnames (normCode d).freevars out.cellvars consts'))[j]? = some s' →
        s'.op = s.op ∧ s'.line = s.line ∧ SameReading constants out.consts s.arg s'.arg := by
  obtain ⟨constants, blocks, tp, ann, nested, al, aa, hd, hcm, hlenR, hallR⟩ :=
    decode_reads_like_cpython v T F dec argc pos kw nl ss fl fln code lt fname name names varnames freevars cellvars consts d h
      hcode hpre hvalid hteven htbytes htbc htbcOld
  subst hd
  simp only [normCode, CodeData.blocks, CodeData.addArgs, CodeData.freevars, CodeData.type] at henc hfit ⊢
  -- facts about the decoded blocks, once more through the decomposition
  obtain ⟨lm, constants2, tp2, ann2, nested2, args2, st0, st', raws, ois, blocks2, al2, aa2, _, _, _, hn, hvn, hcv, hcs, _, hraws, hdecI, hbl, _, hd2⟩ :=
    toCodeDataGo_decompose v T F dec argc pos kw nl ss fl fln code lt fname name names varnames freevars cellvars consts _ h
  simp only [CodeData.mk.injEq] at hd2
  obtain ⟨hbeq, _⟩ := hd2
  subst hbeq
  have hpart := CDV.Props.C13.C13_partition ois blocks hbl
  obtain ⟨_, hlenI, hallI⟩ := decodeInstrs_ok v T freevars raws st0 st' ois hdecI
  have hnoext := parseGo_op_ne_ext EXTENDED_ARG code.length code rfl 0 0 0 raws hraws
  have hflatN : (normBlocks blocks).flatten = normInstrs (ois.map (fun p => retarget (targetsOf ois) p.2)) := by
    rw [normBlocks_flatten, hpart.2]
  -- every normalized instruction is well-kinded
  have hkindN : ∀ ins ∈ (normBlocks blocks).flatten, KindOK T ins := by
    intro ins hins
    rw [hflatN] at hins
    obtain ⟨j, hj, hget⟩ := List.getElem_of_mem hins
    have hj' : (normInstrs (ois.map (fun p => retarget (targetsOf ois) p.2)))[j]? = some ins := by rw [List.getElem?_eq_getElem hj, hget]
    rw [normInstrs_get, List.getElem?_map] at hj'
    cases hoj : ois[j]? with
    | none => rw [hoj] at hj'; simp at hj'
    | some p =>
      rw [hoj] at hj'
      simp only [Option.map_some, Option.some.injEq] at hj'
      have hjr : j < raws.length := by rw [← hlenI]; exact (List.getElem?_eq_some_iff.mp hoj).1
      obtain ⟨ins0, h1, h2, h3⟩ := hallI j raws[j] (List.getElem?_eq_getElem hjr)
      rw [hoj] at h1
      simp only [Option.some.injEq] at h1
      subst h1
      rw [← hj']
      have hne : T.get raws[j].op ≠ .ext := fun he => hnoext raws[j] (List.getElem_mem hjr) (hT _ he)
      exact kindOK_of_operandOK v T _ _ _ _ _ raws[j] ins0 h2 h3 hne (targetsOf ois)
  have hlenN : (normBlocks blocks).flatten.length = blocks.flatten.length := by
    rw [normBlocks_flatten, normInstrs_length]
  have hneF : (normBlocks blocks).flatten ≠ [] := by
    intro he
    have : (Spec.read v T (.mk argc pos kw nl ss fl fln code lt fname name names varnames freevars cellvars consts)).length = 0 := by
      rw [← hlenR, ← hlenN, he]; rfl
    exact hrne (List.eq_nil_of_length_eq_zero this)
  have hstN : ∀ s ∈ blockStarts (normBlocks blocks) 0, s < (normBlocks blocks).flatten.length := by
    intro s hs
    rw [blockStarts_norm] at hs
    have := blockStarts_lt blocks 0 hpart.1 s hs
    rw [hlenN]; omega
  have hopbN : ∀ ins ∈ (normBlocks blocks).flatten, ins.op < 256 := by
    intro ins hins
    obtain ⟨j, hj, hget⟩ := List.getElem_of_mem hins
    have hj' : (normBlocks blocks).flatten[j]? = some ins := by rw [List.getElem?_eq_getElem hj, hget]
    rw [normBlocks_flatten, normInstrs_get] at hj'
    cases hb : blocks.flatten[j]? with
    | none => rw [hb] at hj'; simp at hj'
    | some i0 =>
      rw [hb] at hj'
      simp only [Option.map_some, Option.some.injEq] at hj'
      have hjr : j < (Spec.read v T (.mk argc pos kw nl ss fl fln code lt fname name names varnames freevars cellvars consts)).length := by
        rw [← hlenR]; exact (List.getElem?_eq_some_iff.mp hb).1
      obtain ⟨sj, hs⟩ : ∃ sj, (Spec.read v T (.mk argc pos kw nl ss fl fln code lt fname name names varnames freevars cellvars consts))[j]? = some sj :=
        ⟨_, List.getElem?_eq_getElem hjr⟩
      obtain ⟨hop, _, _⟩ := hallR j i0 sj hb hs
      rw [← hj', (normInstr_fields i0).1, hop]
      -- CPython's opcode is a byte of the code
      rw [read_eq, List.getElem?_map] at hs
      cases hf : (Spec.fold EXTENDED_ARG (Spec.units EXTENDED_ARG code 0 0) none)[j]? with
      | none => rw [hf] at hs; simp at hs
      | some p =>
        rw [hf] at hs
        simp only [Option.map_some, Option.some.injEq] at hs
        rw [← hs]
        exact fold_op_lt EXTENDED_ARG code hcode _ _ _ p (List.mem_of_getElem? hf)
  have hlinesN : v.is310 = false → ∀ ins ∈ (normBlocks blocks).flatten, ins.line.isSome := by
    intro hv ins hins
    obtain ⟨j, hj, hget⟩ := List.getElem_of_mem hins
    have hj' : (normBlocks blocks).flatten[j]? = some ins := by rw [List.getElem?_eq_getElem hj, hget]
    rw [normBlocks_flatten, normInstrs_get] at hj'
    cases hb : blocks.flatten[j]? with
    | none => rw [hb] at hj'; simp at hj'
    | some i0 =>
      rw [hb] at hj'
      simp only [Option.map_some, Option.some.injEq] at hj'
      have hjr : j < (Spec.read v T (.mk argc pos kw nl ss fl fln code lt fname name names varnames freevars cellvars consts)).length := by
        rw [← hlenR]; exact (List.getElem?_eq_some_iff.mp hb).1
      obtain ⟨sj, hs⟩ : ∃ sj, (Spec.read v T (.mk argc pos kw nl ss fl fln code lt fname name names varnames freevars cellvars consts))[j]? = some sj :=
        ⟨_, List.getElem?_eq_getElem hjr⟩
      obtain ⟨_, hline, _⟩ := hallR j i0 sj hb hs
      rw [← hj', (normInstr_fields i0).2.1, hline]
      rw [read_eq, List.getElem?_map] at hs
      cases hf : (Spec.fold EXTENDED_ARG (Spec.units EXTENDED_ARG code 0 0) none)[j]? with
      | none => rw [hf] at hs; simp at hs
      | some p =>
        rw [hf] at hs
        simp only [Option.map_some, Option.some.injEq] at hs
        rw [← hs]
        simp [Spec.lineOf, hv]
  obtain ⟨hlenE, hallE⟩ := encode_reads_like_data v T (normBlocks blocks) [] freevars tp out henc enc consts' hconsts fln table htable
    argc' pos' kw' nl' ss' fl' fname' name' hkindN hopbN hfit hstN hneF hlinesN
  refine ⟨constants, hcm, by rw [hlenE, hlenN, hlenR], ?_⟩
  intro j s s' hs hs'
  have hjR : j < blocks.flatten.length := by rw [hlenR]; exact (List.getElem?_eq_some_iff.mp hs).1
  have hb : blocks.flatten[j]? = some blocks.flatten[j] := List.getElem?_eq_getElem hjR
  obtain ⟨r1, r2, r3⟩ := hallR j _ s hb hs
  have hbN : (normBlocks blocks).flatten[j]? = some (normInstr blocks.flatten[j]) := by
    rw [normBlocks_flatten, normInstrs_get, hb]; rfl
  obtain ⟨e1, e2, e3⟩ := hallE j _ s' hbN hs'
  obtain ⟨f1, f2, f3⟩ := normInstr_fields blocks.flatten[j]
  refine ⟨by rw [e1, f1, r1], by rw [e2, f2, r2], ?_⟩
  rw [f3, blockStarts_norm] at e3
  exact sameReading_of _ _ _ _ _ _ r3 e3

end CDV
