import CDVProofs.ParseOffsets
import CDVProofs.LineSemOld
/-! The line a decoded instruction carries is the entry of the decoded line mapping at the instruction's first offset
    (`bytes_to_blocks` pops the mapping instruction by instruction; entries on EXTENDED_ARG units are discarded). -/
namespace CDV
open CDV.LT (LMap)

theorem popAssoc_spec {β} (k : Nat) : ∀ (l : List (Nat × β)) (v : β) (l' : List (Nat × β)), popAssoc k l = some (v, l') →
    assoc? k l = some v ∧ ∀ k', k' ≠ k → assoc? k' l' = assoc? k' l := by
  intro l
  induction l with
  | nil => intro v l' h; simp [popAssoc] at h
  | cons p l ih =>
    intro v l' h
    obtain ⟨c, w⟩ := p
    simp only [popAssoc] at h
    by_cases hkc : k = c
    · simp only [hkc, if_true, Option.some.injEq, Prod.mk.injEq] at h
      obtain ⟨rfl, rfl⟩ := h
      subst hkc
      refine ⟨by simp [assoc?], ?_⟩
      intro k' hk'
      simp [assoc?, hk']
    · simp only [hkc, if_false] at h
      cases hp : popAssoc k l with
      | none => simp [hp] at h
      | some r =>
        obtain ⟨x, r'⟩ := r
        simp only [hp, Option.some.injEq, Prod.mk.injEq] at h
        obtain ⟨rfl, rfl⟩ := h
        obtain ⟨i1, i2⟩ := ih x r' hp
        refine ⟨by simp [assoc?, hkc, i1], ?_⟩
        intro k' hk'
        simp only [assoc?]
        split
        · rfl
        · exact i2 k' hk'

theorem foldl_keep {β} (f : List (Nat × β) → Nat → List (Nat × β)) (k' : Nat)
    (hf : ∀ l u, u ≠ k' → assoc? k' (f l u) = assoc? k' l) : ∀ (units : List Nat) (l : List (Nat × β)), k' ∉ units →
    assoc? k' (units.foldl f l) = assoc? k' l := by
  intro units
  induction units with
  | nil => intro l _; rfl
  | cons u us ih =>
    intro l hk
    simp only [List.foldl_cons]
    rw [ih _ (fun h => hk (by simp [h])), hf l u (fun h => hk (by simp [h]))]

/-- what `popLines` returns and leaves -/
theorem popLines_spec (lm lm' : LMap) (i : RawI) (line : Option Int) (offs : List Int) (hfn : i.first < i.next)
    (h : popLines lm i = .ok (lm', line, offs)) :
    assoc? i.first lm.lines = some line ∧ ∀ k', i.next ≤ k' → assoc? k' lm'.lines = assoc? k' lm.lines := by
  unfold popLines at h
  cases hp : popAssoc i.first lm.lines with
  | none => simp [hp, throw, throwThe, MonadExceptOf.throw] at h
  | some r =>
    obtain ⟨ln, lines'⟩ := r
    simp only [hp, pure, Except.pure, Except.ok.injEq, Prod.mk.injEq] at h
    obtain ⟨h1, h2, _⟩ := h
    obtain ⟨s1, s2⟩ := popAssoc_spec _ _ _ _ hp
    subst h2
    refine ⟨s1, ?_⟩
    intro k' hk'
    rw [← h1]
    have hnot : k' ∉ (List.range ((i.next - i.first) / 2 - 1)).map (fun k => i.first + 2 + 2 * k) := by
      intro hm
      simp only [List.mem_map, List.mem_range] at hm
      obtain ⟨k, hk, he⟩ := hm
      omega
    show assoc? k' _ = _
    dsimp only
    rw [foldl_keep _ k' ?_ _ lines' hnot]
    · exact s2 k' (by omega)
    · intro l u hu
      split
      · next x l'' hp' => exact (popAssoc_spec u l x l'' hp').2 k' (fun h => hu h.symm)
      · rfl

def Chained : List RawI → Prop
  | [] => True
  | r :: rest => r.first < r.next ∧ (∀ r' ∈ rest, r.next ≤ r'.first) ∧ Chained rest

/-- **Each decoded instruction carries the mapping's entry at its first offset.** -/
theorem decodeInstrs_lines (v : Ver) (T : OpTable) (fv : List PStr) : ∀ (raws : List RawI) (st st' : DecSt) (ois : List (Nat × Instr)),
    Chained raws → decodeInstrs v T fv st raws = .ok (st', ois) →
    ∀ (j : Nat) (r : RawI), raws[j]? = some r → ∃ ins, ois[j]? = some (r.first, ins) ∧ assoc? r.first st.lm.lines = some ins.line := by
  intro raws
  induction raws with
  | nil => intro st st' ois _ _ j r hj; simp at hj
  | cons r0 raws ih =>
    intro st st' ois hch h j r hj
    rw [decodeInstrs] at h
    obtain ⟨⟨st1, arg⟩, h1, h⟩ := bind_ok h
    obtain ⟨⟨lm, line, offs⟩, h2, h⟩ := bind_ok h
    obtain ⟨⟨st2, rs⟩, h3, h⟩ := bind_ok h
    simp only [pure, Except.pure, Except.ok.injEq, Prod.mk.injEq] at h
    obtain ⟨_, rfl⟩ := h
    obtain ⟨_, _, hlm⟩ := toArg_ok v T fv st st1 r0 arg h1
    simp only [Chained] at hch
    obtain ⟨p1, p2⟩ := popLines_spec _ _ _ _ _ hch.1 h2
    rw [hlm] at p1 p2
    cases j with
    | zero =>
      simp only [List.getElem?_cons_zero, Option.some.injEq] at hj
      subst hj
      exact ⟨_, rfl, by simpa [Instr.line] using p1⟩
    | succ j =>
      simp only [List.getElem?_cons_succ] at hj ⊢
      obtain ⟨ins, i1, i2⟩ := ih _ _ _ hch.2.2 h3 j r hj
      refine ⟨ins, i1, ?_⟩
      simp only at i2
      rw [← i2]
      exact (p2 r.first (hch.2.1 r (List.mem_of_getElem? hj))).symm

theorem parseGo_chained (ext : Nat) : ∀ (n : Nat) (code : List Nat), code.length = n → ∀ (i : Nat) (arg : Int) (nargs : Nat) (raws : List RawI),
    2 * nargs ≤ i → parseGo ext code i arg nargs = .ok raws →
    Chained raws ∧ ∀ r ∈ raws, i - 2 * nargs ≤ r.first := by
  intro n
  induction n using Nat.strongRecOn with
  | ind n ih =>
  intro code hlen i arg nargs raws hpos hp
  match code, hlen with
  | [], _ =>
    simp [parseGo, pure, Except.pure] at hp
    subst hp
    simp [Chained]
  | [_], _ => simp [parseGo, throw, throwThe, MonadExceptOf.throw] at hp
  | op :: a :: rest, hlen =>
    simp only [List.length_cons] at hlen
    rw [parseGo] at hp
    by_cases hop : op = ext
    · simp only [hop, if_true] at hp
      have := ih rest.length (by omega) rest rfl (i + 2) _ (nargs + 1) raws (by omega) hp
      refine ⟨this.1, fun r hr => ?_⟩
      have := this.2 r hr
      omega
    · simp only [hop, if_false] at hp
      obtain ⟨r, hr, hp⟩ := bind_ok hp
      simp only [pure, Except.pure, Except.ok.injEq] at hp
      subst hp
      have := ih rest.length (by omega) rest rfl (i + 2) 0 0 r (by omega) hr
      refine ⟨⟨by simp only; omega, fun x hx => ?_, this.1⟩, ?_⟩
      · have := this.2 x hx; simp only; omega
      · intro x hx
        rcases List.mem_cons.mp hx with rfl | hx
        · simp only; omega
        · have := this.2 x hx; omega

theorem parseBytes_chained (code : List Nat) (raws : List RawI) (h : parseBytes code = .ok raws) : Chained raws :=
  (parseGo_chained EXTENDED_ARG code.length code rfl 0 0 0 raws (by omega) h).1

theorem parseGo_bounds (ext : Nat) : ∀ (n : Nat) (code : List Nat), code.length = n → ∀ (i : Nat) (arg : Int) (nargs : Nat) (raws : List RawI),
    2 * nargs ≤ i → i % 2 = 0 → parseGo ext code i arg nargs = .ok raws →
    ∀ r ∈ raws, r.first % 2 = 0 ∧ r.next ≤ i + code.length := by
  intro n
  induction n using Nat.strongRecOn with
  | ind n ih =>
  intro code hlen i arg nargs raws hpos hev hp
  match code, hlen with
  | [], _ =>
    simp [parseGo, pure, Except.pure] at hp
    subst hp
    simp
  | [_], _ => simp [parseGo, throw, throwThe, MonadExceptOf.throw] at hp
  | op :: a :: rest, hlen =>
    simp only [List.length_cons] at hlen
    rw [parseGo] at hp
    by_cases hop : op = ext
    · simp only [hop, if_true] at hp
      intro r hr
      have := ih rest.length (by omega) rest rfl (i + 2) _ (nargs + 1) raws (by omega) (by omega) hp r hr
      simp only [List.length_cons]; omega
    · simp only [hop, if_false] at hp
      obtain ⟨rs, hr, hp⟩ := bind_ok hp
      simp only [pure, Except.pure, Except.ok.injEq] at hp
      subst hp
      intro x hx
      rcases List.mem_cons.mp hx with rfl | hx
      · simp only [List.length_cons]; omega
      · have := ih rest.length (by omega) rest rfl (i + 2) 0 0 rs (by omega) (by omega) hr x hx
        simp only [List.length_cons]; omega

theorem assoc?_map_val {β γ} (f : β → γ) (k : Nat) : ∀ (l : List (Nat × β)),
    assoc? k (l.map (fun p => (p.1, f p.2))) = (assoc? k l).map f := by
  intro l
  induction l with
  | nil => rfl
  | cons p l ih =>
    obtain ⟨c, w⟩ := p
    simp only [List.map_cons, assoc?]
    split
    · rfl
    · exact ih

end CDV
