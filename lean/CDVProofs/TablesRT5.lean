import CDVProofs.TablesRT4
namespace CDV
open CDV.Props.C09 (keyEquiv_str keyEquiv_const)
open CDV.LT (LMap)

/-- `_additional_args`: the unused entries of the four tables, in the order names, varnames, cells, constants -/
theorem decodeTail_args (st : DecSt) (n : Nat) (al : Option AdditionalLine) (aa : List Arg) (h : decodeTail st n = .ok (al, aa)) :
    ∃ an av ac ak, st.names.additional strEq = .ok an ∧ st.varnames.additional strEq = .ok av ∧ st.cellvars.additional strEq = .ok ac ∧
      st.consts.additional Const.keyEq = .ok ak ∧
      aa = an.map (fun p => Arg.name p.1 p.2) ++ (av.map (fun p => Arg.varname p.1 p.2) ++ (ac.map (fun p => Arg.cell p.1 p.2) ++
        (ak.map (fun p => Arg.const p.1 p.2) ++ []))) := by
  unfold decodeTail at h
  obtain ⟨an, han, h⟩ := bind_ok h
  obtain ⟨av, hav, h⟩ := bind_ok h
  obtain ⟨ac, hac, h⟩ := bind_ok h
  obtain ⟨ak, hak, h⟩ := bind_ok h
  refine ⟨an, av, ac, ak, han, hav, hac, hak, ?_⟩
  dsimp only at h
  have fin : ∀ (x : Option AdditionalLine), (pure (x, (List.map (fun x => match x with | (s, o) => Arg.name s o) an ++
      List.map (fun x => match x with | (s, o) => Arg.varname s o) av ++ List.map (fun x => match x with | (s, o) => Arg.cell s o) ac ++
      List.map (fun x => match x with | (c, o) => Arg.const c o) ak)) : R _) = Except.ok (al, aa) →
      aa = an.map (fun p => Arg.name p.1 p.2) ++ (av.map (fun p => Arg.varname p.1 p.2) ++ (ac.map (fun p => Arg.cell p.1 p.2) ++
        (ak.map (fun p => Arg.const p.1 p.2) ++ []))) := by
    intro x hx
    simp only [pure, Except.pure, Except.ok.injEq, Prod.mk.injEq] at hx
    rw [← hx.2]
    simp only [List.append_assoc, List.append_nil]
  split at h
  · obtain ⟨_, hx, _⟩ := bind_ok h; cases hx
  · split at h
    · split at h
      · obtain ⟨_, hx, _⟩ := bind_ok h; cases hx
      · exact fin _ h
    · exact fin _ h

/-- after the additional entries every index of the table is in the encoder's table -/
theorem sim_all_complete {α} {keyEq : α → α → Bool} (hk : KeyEquiv keyEq) (args : List α) (d : ToArgs α) (e : FromArgs α)
    (hs : Sim keyEq args d e) (step : FromArgs α → α → Option Nat → R (FromArgs α × Nat))
    (hstep : ∀ d e idx d' a ov, Sim keyEq args d e → d.foundIndex keyEq ((idx : Nat) : Int) = .ok (d', a, ov) → step e a ov = e.add keyEq a ov)
    (ops : List (α × Option Nat)) (hadd : d.additional keyEq = .ok ops) :
    ∃ e', runWith step e ops = .ok e' ∧ TableComplete keyEq args e' := by
  unfold ToArgs.additional at hadd
  obtain ⟨e', d', hrun, hs', _, hall⟩ := additional_lockstep hk args step hstep _ d e ops hs hadd
  refine ⟨e', hrun, hs'.complete ?_⟩
  intro i hi
  apply hall
  rw [hs.dargs]
  exact List.mem_range.mpr hi

theorem collectCells_nil_ok (e : FromArgs PStr) : collectCells e [] = .ok e := rfl

/-- **The four operand tables are reproduced.**  For the blocks and additional arguments `bytes_to_blocks` decoded from
    (`names`, `varnames`, `cellvars`, `K`), `blocks_to_bytes` — whenever it returns — emits exactly these four tables. -/
theorem body_tables (v : Ver) (T : OpTable) (names varnames freevars cellvars : List PStr) (K : List Const) (lm : LMap)
    (tp : Option Function) (np : Nat) (code : List Nat) (st' : DecSt) (blocks : List (List Instr)) (n : Nat)
    (al : Option AdditionalLine) (aa : List Arg) (out : BlocksOut)
    (hbody : decodeBody v T names varnames freevars cellvars K lm tp np code = .ok (st', blocks))
    (htail : decodeTail st' n = .ok (al, aa))
    (hdoc : ∀ f, tp = some f → f.doc = firstStr K)
    (hnone : tp = none → np = 0)
    (hvo : ∀ f, tp = some f → f.args.varnameOrder = varnames.take np ∧ np ≤ varnames.length)
    (henc : blocksToBytes v blocks aa freevars tp = .ok out) :
    out.names = names ∧ out.varnames = varnames ∧ out.cellvars = cellvars ∧ out.consts = K := by
  obtain ⟨st0, raws, ois, hn0, hv0, hc0, hk1, hk0, hraws, hdec, hbl⟩ :=
    decodeBody_seeds v T names varnames freevars cellvars K lm tp np code st' blocks hbody
  have hflat := (CDV.Props.C13.C13_partition ois blocks hbl).2
  obtain ⟨an, av, ac, ak, han, hav, hac, hak, haa⟩ := decodeTail_args st' n al aa htail
  simp only [blocksToBytes] at henc
  obtain ⟨est0, h0, henc⟩ := bind_ok henc
  obtain ⟨cv, hcv, henc⟩ := bind_ok henc
  obtain ⟨⟨est1, args0⟩, h1, henc⟩ := bind_ok henc
  obtain ⟨args, _, henc⟩ := bind_ok henc
  obtain ⟨est2, h2, henc⟩ := bind_ok henc
  obtain ⟨tn, htn, henc⟩ := bind_ok henc
  obtain ⟨tv, htv, henc⟩ := bind_ok henc
  obtain ⟨tc, htc, henc⟩ := bind_ok henc
  obtain ⟨tk, htk, henc⟩ := bind_ok henc
  simp only [pure, Except.pure, Except.ok.injEq] at henc
  subst henc
  dsimp only
  -- the tables as seeded on both sides
  have init : est0.names = {} ∧ est0.cellvars = {} ∧ Sim strEq varnames st0.varnames est0.varnames ∧ Sim Const.keyEq K st0.consts est0.consts := by
    cases tp with
    | none =>
      simp only [encInit, pure, Except.pure, Except.ok.injEq] at h0
      subst h0
      have hnp := hnone rfl
      subst hnp
      simp only [List.range_zero, seedFound, pure, Except.pure, Except.ok.injEq] at hv0
      rw [← hv0, hk0 (by simp [docSome])]
      exact ⟨rfl, rfl, Sim.init _ _, Sim.init _ _⟩
    | some f =>
      obtain ⟨hvo1, hvo2⟩ := hvo f rfl
      simp only [encInit] at h0
      obtain ⟨vnE, hvnE, h0⟩ := bind_ok h0
      have hlen : (varnames.take np).length = np := by simp [List.length_take]; omega
      obtain ⟨e', hseed, hsv⟩ := seed_lockstep varnames (varnames.take np) 0 ⟨varnames, [], []⟩ st0.varnames {} (Sim.init _ _)
        (by intro k hk; simp at hk)
        (by intro j hj; simp only [Nat.zero_add]; rw [List.getElem?_take]; rw [hlen] at hj; simp [hj])
        (by rw [hlen, ← List.range_eq_range']; exact hv0)
      rw [hvo1, hseed] at hvnE
      cases hvnE
      have hdf := hdoc f rfl
      cases hd : f.doc with
      | some s =>
        rw [hd] at h0 hdf
        dsimp only at h0
        obtain ⟨t, ht, h0⟩ := bind_ok h0
        simp only [pure, Except.pure, Except.ok.injEq] at h0
        subst h0
        obtain ⟨a, o, hf⟩ := hk1 (by simp [docSome, hd])
        obtain ⟨e'', hset, hsk⟩ := sim_set_first keyEquiv_const K ⟨K, [], []⟩ {} (Sim.init _ _) 0 st0.consts a o hf rfl
        have ha : a = .inner (.str s) := by
          have hget := (foundIndex_ok _ 0 _ _ _ hf).1
          dsimp only at hget
          cases K with
          | nil => simp at hget
          | cons k0 K' =>
            simp only [List.getElem?_cons_zero, Option.some.injEq] at hget
            subst hget
            cases k0 with
            | code c => simp [firstStr] at hdf
            | inner i => cases i <;> simp [firstStr] at hdf; rw [hdf]
        subst ha
        rw [hset] at ht
        cases ht
        exact ⟨rfl, rfl, hsv, hsk⟩
      | none =>
        rw [hd] at h0
        simp only [pure, Except.pure, Except.ok.injEq] at h0
        subst h0
        rw [hk0 (by simp [docSome, hd])]
        exact ⟨rfl, rfl, hsv, Sim.init _ _⟩
  obtain ⟨en0, ec0, hsv0, hsk0⟩ := init
  -- first pass: the cell table
  obtain ⟨e1, hcol, hs1⟩ := decodeInstrs_collect v T freevars cellvars (targetsOf ois) raws st0 st' {} ois
    (by rw [hc0]; exact Sim.init _ _) hdec
  obtain ⟨e2, hrun2, hcomp2⟩ := sim_all_complete keyEquiv_str cellvars st'.cellvars e1 hs1 (fun t a o => t.add strEq a o)
    (fun _ _ _ _ _ _ _ _ => rfl) ac hac
  have hcv' : cv = e2 := by
    rw [ec0, hflat, hcol aa, haa] at hcv
    rw [collectCells_skip _ _ _ (by intro a ha s o hh; obtain ⟨p, _, rfl⟩ := List.mem_map.mp ha; cases hh)] at hcv
    rw [collectCells_skip _ _ _ (by intro a ha s o hh; obtain ⟨p, _, rfl⟩ := List.mem_map.mp ha; cases hh)] at hcv
    rw [collectCells_cells, hrun2] at hcv
    simp only [bind, Except.bind] at hcv
    rw [collectCells_skip _ _ _ (by intro a ha s o hh; obtain ⟨p, _, rfl⟩ := List.mem_map.mp ha; cases hh)] at hcv
    rw [collectCells_nil_ok] at hcv
    cases hcv; rfl
  subst hcv'
  -- second pass: all four tables in step
  have hsim0 : SimSt names varnames cellvars K st0 { est0 with cellvars := cv } :=
    ⟨by rw [hn0, en0]; exact Sim.init _ _, hsv0, hsk0, hcomp2, by rw [hc0]⟩
  obtain ⟨est1', xs, hres, hss, _, _⟩ := decodeInstrs_resolve v T freevars tp names varnames cellvars K hdoc (targetsOf ois) raws st0 st'
    { est0 with cellvars := cv } ois hsim0 hdec
  rw [hflat, hres] at h1
  cases h1
  -- the additional entries
  rw [haa, addAdditional_ops_names] at h2
  obtain ⟨fn, hfn, hcn⟩ := sim_all_complete keyEquiv_str names st'.names est1.names hss.names (fun t a o => t.add strEq a o)
    (fun _ _ _ _ _ _ _ _ => rfl) an han
  rw [hfn] at h2
  simp only [bind, Except.bind] at h2
  rw [addAdditional_ops_varnames] at h2
  obtain ⟨fvn, hfvn, hcvn⟩ := sim_all_complete keyEquiv_str varnames st'.varnames est1.varnames hss.varnames (fun t a o => t.add strEq a o)
    (fun _ _ _ _ _ _ _ _ => rfl) av hav
  dsimp only at h2
  rw [hfvn] at h2
  simp only [bind, Except.bind] at h2
  rw [addAdditional_ops_cells] at h2
  obtain ⟨fc, hfc, hcc⟩ := complete_run keyEquiv_str cellvars ac est1.cellvars hss.cells
    (additionalGo_ops cellvars _ st'.cellvars ac (by
      have := (decodeInstrs_ok v T freevars raws st0 st' ois hdec).1.cellvars
      rw [this, hc0]) hac)
  dsimp only at h2
  rw [hfc] at h2
  simp only [bind, Except.bind] at h2
  rw [addAdditional_ops_constants] at h2
  obtain ⟨fk, hfk, hck⟩ := sim_all_complete keyEquiv_const K st'.consts est1.consts hss.consts (fun t a o => fromConstArg tp t a o)
    (fun d e idx d' a ov hs hf => fromConstArg_eq_add tp K hdoc d e hs idx d' a ov hf) ak hak
  dsimp only at h2
  rw [hfk] at h2
  simp only [bind, Except.bind, addAdditional, pure, Except.pure, Except.ok.injEq] at h2
  subst h2
  exact ⟨complete_toTuple names _ hcn _ htn, complete_toTuple varnames _ hcvn _ htv, complete_toTuple cellvars _ hcc _ htc,
    complete_toTuple K _ hck _ htk⟩

end CDV
