import CDVProofs.ReadSameFull
/-! # `to_code()` returns on decoded data (one level: given that the nested code objects encode) -/
namespace CDV
open CDV.LT

/-- the line table of decoded-looking data can always be written -/
theorem lines_table_exists (v : Ver) (flat : List Instr) (args : List Int) (fln : Int) (out : BlocksOut) (addLine : Option AdditionalLine)
    (hl' : flat.length = args.length) (hne : flat ≠ [])
    (hcode : out.code = (emit flat args 0).1) (hlm : out.lm = ⟨(emit flat args 0).2.1, (emit flat args 0).2.2⟩)
    (hlines : v.is310 = false → ∀ ins ∈ flat, ins.line.isSome)
    (hal : v.is310 = false → ∀ a, addLine = some a → a.line.isSome) :
    ∃ table, LT.fromLineMapping v.is310 (finalLineMap out addLine fln) = .ok table := by
  have hn : out.code.length = 0 + 2 * (unitLines flat args).length := by
    rw [hcode, emit_length flat args 0 hl', unitLines_length flat args hl']; omega
  have hfm : ∃ (tail : List (Option Int)) (extra : List (Nat × List Int)),
      finalLineMap out addLine fln = ⟨unitsAt ((unitLines flat args ++ tail).map (fun l => l.map (· - fln))) 0, extra⟩ ∧
      (tail = [] ∨ ∃ a, addLine = some a ∧ tail = [a.line]) := by
    cases addLine with
    | none =>
      refine ⟨[], out.lm.extra, ?_, Or.inl rfl⟩
      simp only [finalLineMap, hlm, emit_lines, List.append_nil]
      rw [← unitsAt_map (fun l => l.map (· - fln))]
    | some a =>
      refine ⟨[a.line], LT.setAssoc out.code.length a.offs out.lm.extra, ?_, Or.inr ⟨a, rfl, rfl⟩⟩
      simp only [finalLineMap, hlm, emit_lines]
      rw [hn, setAssoc_unitsAt a.line (unitLines flat args) 0, ← unitsAt_map (fun l => l.map (· - fln))]
  obtain ⟨tail, extra, hfm, htail⟩ := hfm
  rw [hfm]
  cases hv : v.is310 with
  | true =>
    obtain ⟨table, ht, _⟩ := encode_lines_310_tail flat args fln extra tail hl' hne
    exact ⟨table, ht⟩
  | false =>
    obtain ⟨tl, htl⟩ : ∃ tl : List Int, tail = tl.map some := by
      rcases htail with rfl | ⟨a, ha, rfl⟩
      · exact ⟨[], rfl⟩
      · obtain ⟨l, hl⟩ := Option.isSome_iff_exists.mp (hal hv a ha)
        exact ⟨[l], by simp [hl]⟩
    subst htl
    obtain ⟨table, ht, _⟩ := encode_lines_lnotab_tail v hv flat args fln extra tl hl' (hlines hv)
    exact ⟨table, ht⟩

theorem headerCounts_ok (tp : Option Function) (vn : List PStr)
    (h1 : ∀ f, tp = some f → f.args.paramNames.length = f.args.posOnly.length + f.args.posOrKw.length + f.args.kwOnly.length
        + (if f.args.varPos.isSome then 1 else 0) + (if f.args.varKw.isSome then 1 else 0))
    (h2 : ∀ f, tp = some f → vn.take f.args.varnameOrder.length = f.args.varnameOrder) :
    ∃ r, headerCounts tp vn = .ok r ∧ ∀ f, tp = some f → r.2.1 = f.args.posOnly.length := by
  unfold headerCounts
  cases tp with
  | none => exact ⟨_, rfl, fun f hf => by cases hf⟩
  | some f =>
    dsimp only
    have c1 : (f.args.paramNames.length != f.args.posOnly.length + f.args.posOrKw.length + f.args.kwOnly.length
        + (if f.args.varPos.isSome then 1 else 0) + (if f.args.varKw.isSome then 1 else 0)) = false := by
      rw [h1 f rfl]; simp
    have c2 : (vn.take f.args.varnameOrder.length != f.args.varnameOrder) = false := by
      rw [h2 f rfl]; simp
    simp only [c1, c2, Bool.false_eq_true, if_false, bind, Except.bind, pure, Except.pure]
    exact ⟨_, rfl, fun g hg => by cases hg; rfl⟩

/-- **`to_code()` returns on decoded data**, given that the nested code objects' decodings encode. -/
theorem decoded_to_code_returns (v : Ver) (T : OpTable) (F : FlagTable) (dec : RawCode → R CodeData) (enc : CodeData → R RawCode)
    (argc pos kw nl ss fl : Nat) (fln : Int) (code lt : List Nat) (fname name : PStr) (names varnames freevars cellvars : List PStr)
    (consts : List RConst) (d : CodeData)
    (h : toCodeDataGo v T F dec (.mk argc pos kw nl ss fl fln code lt fname name names varnames freevars cellvars consts) = .ok d)
    (hlen : argc + kw + (if fl.testBit bVARARGS then 1 else 0) + (if fl.testBit bVARKEYWORDS then 1 else 0) ≤ varnames.length)
    (hnodup : (varnames.take (argc + kw + (if fl.testBit bVARARGS then 1 else 0) + (if fl.testBit bVARKEYWORDS then 1 else 0))).Nodup)
    (hjv : ∀ i ∈ d.blocks.flatten, ∀ t r, i.arg = .jump t r → t < d.blocks.length)
    (hcode : ∀ x ∈ code, x < 256)
    (hpre : ∀ raws, parseBytes code = .ok raws → ∀ r ∈ raws, r.nargs ≤ 4)
    (hvalid : ∀ s ∈ Spec.read v T (.mk argc pos kw nl ss fl fln code lt fname name names varnames freevars cellvars consts),
      ∀ idx rel, s.arg = .jump idx rel → idx.isSome)
    (hteven : lt.length % 2 = 0) (htbytes : ∀ x ∈ lt, x < 256)
    (htbc : v.is310 = true → ∀ x ∈ LT.bytesToItems lt, x.bc % 2 = 0 ∧ x.bc ≠ 255)
    (htbcOld : v.is310 = false → ∀ cs, LT.collapse false (LT.bytesToItems lt) = some cs → ∀ c ∈ cs, c.bc % 2 = 0)
    (hrne : Spec.read v T (.mk argc pos kw nl ss fl fln code lt fname name names varnames freevars cellvars consts) ≠ [])
    (hnested : ∀ K, consts.mapM (fun c => match c with | .inner i => pure (Const.inner i) | .code k => Const.code <$> dec k) = .ok K →
      ∃ consts', K.mapM (fun c => match c with | .inner i => pure (RConst.inner i) | .code d => RConst.code <$> enc d) = .ok consts') :
    ∃ c', fromCodeDataGo v F enc d = .ok c' := by
  obtain ⟨K, out, hK, hout, _, hvn, _, hk⟩ :=
    decoded_encodes v T F dec argc pos kw nl ss fl fln code lt fname name names varnames freevars cellvars consts d h hlen hnodup hjv
  obtain ⟨consts', hc'⟩ := hnested K hK
  have hal : v.is310 = false → ∀ a, d.addLine = some a → a.line.isSome = true := fun hv =>
    decoded_addLine_some v T F dec argc pos kw nl ss fl fln code lt fname name names varnames freevars cellvars consts d h hv hteven htbytes (htbcOld hv)
  obtain ⟨constants, blocks, tp, ann, nested, al, aa, hd, hcm, hlenR, hallR⟩ :=
    decode_reads_like_cpython v T F dec argc pos kw nl ss fl fln code lt fname name names varnames freevars cellvars consts d h
      hcode hpre hvalid hteven htbytes htbc htbcOld
  subst hd
  simp only [CodeData.blocks, CodeData.addArgs, CodeData.freevars, CodeData.type, CodeData.addLine] at hout hal
  -- header facts
  have h' := h
  unfold toCodeDataGo at h'
  dsimp only at h'
  split at h'
  · exact absurd h' (throw_bind_ne _ _)
  obtain ⟨lm, _, h'⟩ := bind_ok h'
  obtain ⟨K2, hK2, h'⟩ := bind_ok h'
  obtain ⟨⟨tp2, ann2, nested2, args⟩, hhdr, h'⟩ := bind_ok h'
  obtain ⟨⟨st', blocks2⟩, _, h'⟩ := bind_ok h'
  obtain ⟨⟨al2, aa2⟩, _, h'⟩ := bind_ok h'
  simp only [pure, Except.pure, Except.ok.injEq, CodeData.mk.injEq] at h'
  obtain ⟨_, _, _, _, _, htp, _⟩ := h'
  subst htp
  obtain ⟨_, hsome, _⟩ := decodeHeader_tp v F argc pos kw fl varnames freevars cellvars K2 tp2 ann2 nested2 args hhdr
  have hargs := decodeHeader_args v F argc pos kw fl varnames freevars cellvars K2 tp2 ann2 nested2 args hhdr
  obtain ⟨r1, r2, r3, r4, r5, r6, r7⟩ := header_args_roundtrip argc _ kw varnames _ _ args hargs hlen hnodup
  obtain ⟨⟨a, p, k, flags⟩, hcounts, hp⟩ := headerCounts_ok tp2 out.varnames
    (fun f hf => by rw [(hsome f hf).1]; exact r6)
    (fun f hf => by
      rw [(hsome f hf).1, r7, hvn]
      have : (varnames.take (argc + kw + (if fl.testBit bVARARGS then 1 else 0) + (if fl.testBit bVARKEYWORDS then 1 else 0))).length =
          argc + kw + (if fl.testBit bVARARGS then 1 else 0) + (if fl.testBit bVARKEYWORDS then 1 else 0) := by
        simp [List.length_take]; omega
      rw [this])
  -- the line table
  obtain ⟨args0, argsF, fuel, _, _, hcodeE, hlmE, hlenA, _, _, _⟩ := blocksToBytes_spec v blocks aa freevars tp2 out hout
  have hsj : ∀ (j : Nat) (i0 : Instr), blocks.flatten[j]? = some i0 →
      ∃ sj, (Spec.read v T (.mk argc pos kw nl ss fl fln code lt fname name names varnames freevars cellvars consts))[j]? = some sj := by
    intro j i0 hb
    have hjr : j < (Spec.read v T (.mk argc pos kw nl ss fl fln code lt fname name names varnames freevars cellvars consts)).length := by
      rw [← hlenR]; exact (List.getElem?_eq_some_iff.mp hb).1
    exact ⟨_, List.getElem?_eq_getElem hjr⟩
  have hlines : v.is310 = false → ∀ ins ∈ blocks.flatten, ins.line.isSome := by
    intro hv ins hins
    obtain ⟨j, hj, hget⟩ := List.getElem_of_mem hins
    have hb : blocks.flatten[j]? = some ins := by rw [List.getElem?_eq_getElem hj, hget]
    obtain ⟨sj, hs⟩ := hsj j ins hb
    obtain ⟨_, hline, _⟩ := hallR j ins sj hb hs
    rw [hline]
    rw [read_eq, List.getElem?_map] at hs
    cases hf : (Spec.fold EXTENDED_ARG (Spec.units EXTENDED_ARG code 0 0) none)[j]? with
    | none => rw [hf] at hs; simp at hs
    | some q =>
      rw [hf] at hs
      simp only [Option.map_some, Option.some.injEq] at hs
      rw [← hs]
      simp [Spec.lineOf, hv]
  have hneF : blocks.flatten ≠ [] := by
    intro he
    have : (Spec.read v T (.mk argc pos kw nl ss fl fln code lt fname name names varnames freevars cellvars consts)).length = 0 := by
      rw [← hlenR, he]; rfl
    exact hrne (List.eq_nil_of_length_eq_zero this)
  obtain ⟨table, htable⟩ := lines_table_exists v blocks.flatten argsF fln out al hlenA.symm hneF hcodeE hlmE hlines hal
  -- positional-only count on 3.7
  have hposchk : (!v.hasPosOnly && p != 0) = false := by
    cases hv : v.hasPosOnly with
    | true => rfl
    | false =>
      cases htp : tp2 with
      | none =>
        rw [htp] at hcounts
        simp only [headerCounts, pure, Except.pure, Except.ok.injEq, Prod.mk.injEq] at hcounts
        simp [← hcounts.2.1]
      | some f =>
        have := hp f htp
        dsimp only at this
        rw [this, (hsome f htp).1, r1, hv]
        simp
  have hfin : ∃ c', finishCode v F out consts' fname fln name ss tp2 freevars ann nested al = .ok c' := by
    simp only [finishCode, hcounts, htable, hposchk, bind, Except.bind, pure, Except.pure, if_false, Bool.false_eq_true]
    exact ⟨_, rfl⟩
  obtain ⟨c', hc2⟩ := hfin
  refine ⟨c', ?_⟩
  simp only [fromCodeDataGo]
  rw [hout]
  show (List.mapM _ out.consts >>= fun consts => finishCode v F out consts fname fln name ss tp2 freevars ann nested al) = .ok c'
  rw [hk]
  have e : ∀ (X : R (List RConst)), X = .ok consts' →
      (X >>= fun consts => finishCode v F out consts fname fln name ss tp2 freevars ann nested al) = .ok c' := by
    intro X hX; rw [hX]; exact hc2
  exact e _ hc'

end CDV
