import CDVProofs.LineSemOld
import CDVProofs.DecodeTop
/-! Before 3.10 every entry of the decoded line mapping has a line, so the additional line of decoded data has one. -/
namespace CDV
open CDV.LT

def AllSome (l : List (Nat × Option Int)) : Prop := ∀ p ∈ l, p.2.isSome = true

/-- `to_line_mapping` on a `co_lnotab`: every entry has a line -/
theorem toLineMapping_old_allSome (b : List Nat) (n : Nat) (heven : b.length % 2 = 0) (hbytes : ∀ x ∈ b, x < 256)
    (hbc : ∀ cs, collapse false (bytesToItems b) = some cs → ∀ c ∈ cs, c.bc % 2 = 0) (lm : LMap)
    (h : toLineMapping false b n = .ok lm) : AllSome lm.lines := by
  have hv := bytesToItems_validRow false b hbytes (fun h => by cases h)
  obtain ⟨cs, hc, he, hsome⟩ := expand_collapse false (bytesToItems b) hv
  have hcs : ∀ c ∈ cs, c.bc % 2 = 0 := hbc cs hc
  have hinit : OldInv cs ⟨cs, 0, 0, 0, [], []⟩ :=
    ⟨⟨[], by simp, by simp [sumB], by simp [sumL]⟩, rfl, Nat.le_refl _, by intro it rest _; simp, by simp⟩
  obtain ⟨s', hl, hinv, hoff⟩ := oldLoop_spec cs hcs n (n + sumBc cs + 4) _ hinit (by rw [sumBc_eq_sumB]; simp; omega)
  have : toLineMapping false b n = .ok ⟨s'.lines.reverse, s'.extra⟩ := by
    simp [toLineMapping, bytesToItems?, heven, hc, liftOpt, itemsToMapping, bind, Except.bind, pure, Except.pure, hl]
  rw [this] at h
  cases h
  intro p hp
  simp only [hinv.lines, List.reverse_reverse, List.mem_map] at hp
  obtain ⟨k, _, rfl⟩ := hp
  rfl

theorem popAssoc_subset {β} (k : Nat) : ∀ (l : List (Nat × β)) (v : β) (l' : List (Nat × β)), popAssoc k l = some (v, l') → ∀ p ∈ l', p ∈ l := by
  intro l
  induction l with
  | nil => intro v l' h; simp [popAssoc] at h
  | cons q l ih =>
    intro v l' h p hp
    obtain ⟨c, w⟩ := q
    simp only [popAssoc] at h
    split at h
    · cases h; exact List.mem_cons_of_mem _ hp
    · cases hr : popAssoc k l with
      | none => simp [hr] at h
      | some r =>
        obtain ⟨x, r'⟩ := r
        simp only [hr, Option.some.injEq, Prod.mk.injEq] at h
        obtain ⟨rfl, rfl⟩ := h
        simp only [List.mem_cons] at hp ⊢
        rcases hp with rfl | hp
        · exact Or.inl rfl
        · exact Or.inr (ih x r' hr p hp)

theorem foldl_subset_gen {β} (f : List (Nat × β) → Nat → List (Nat × β)) (hf : ∀ l u, ∀ p ∈ f l u, p ∈ l) :
    ∀ (units : List Nat) (l : List (Nat × β)), ∀ p ∈ units.foldl f l, p ∈ l := by
  intro units
  induction units with
  | nil => intro l p hp; exact hp
  | cons u us ih =>
    intro l p hp
    simp only [List.foldl_cons] at hp
    exact hf l u p (ih _ p hp)

theorem popLines_subset (lm lm' : LMap) (i : RawI) (line : Option Int) (offs : List Int) (h : popLines lm i = .ok (lm', line, offs)) :
    ∀ p ∈ lm'.lines, p ∈ lm.lines := by
  unfold popLines at h
  cases hp : popAssoc i.first lm.lines with
  | none => simp [hp, throw, throwThe, MonadExceptOf.throw] at h
  | some r =>
    obtain ⟨ln, lines'⟩ := r
    simp only [hp, pure, Except.pure, Except.ok.injEq, Prod.mk.injEq] at h
    obtain ⟨h1, _, _⟩ := h
    intro p hpm
    rw [← h1] at hpm
    refine popAssoc_subset _ _ _ _ hp p (foldl_subset_gen _ ?_ _ _ p hpm)
    intro l u q hq
    split at hq
    · next x l' hr => exact popAssoc_subset u l x l' hr q hq
    · exact hq

theorem decodeInstrs_lines_subset (v : Ver) (T : OpTable) (fv : List PStr) : ∀ (raws : List RawI) (st st' : DecSt) (ois : List (Nat × Instr)),
    decodeInstrs v T fv st raws = .ok (st', ois) → ∀ p ∈ st'.lm.lines, p ∈ st.lm.lines := by
  intro raws
  induction raws with
  | nil =>
    intro st st' ois h
    simp only [decodeInstrs, pure, Except.pure, Except.ok.injEq, Prod.mk.injEq] at h
    rw [← h.1]; exact fun p hp => hp
  | cons r0 raws ih =>
    intro st st' ois h
    rw [decodeInstrs] at h
    obtain ⟨⟨st1, arg⟩, h1, h⟩ := bind_ok h
    obtain ⟨⟨lm, line, offs⟩, h2, h⟩ := bind_ok h
    obtain ⟨⟨st2, r⟩, h3, h⟩ := bind_ok h
    simp only [pure, Except.pure, Except.ok.injEq, Prod.mk.injEq] at h
    obtain ⟨rfl, rfl⟩ := h
    have hlm1 : st1.lm = st.lm := (toArg_ok v T fv st st1 r0 arg h1).2.2
    intro p hp
    have := ih _ _ _ h3 p hp
    have := popLines_subset st1.lm lm r0 line offs h2 p this
    rw [hlm1] at this
    exact this

/-- the additional line `to_code_data` records is one of the entries left in the mapping -/
theorem decodeTail_line (st : DecSt) (n : Nat) (al : Option AdditionalLine) (aa : List Arg) (h : decodeTail st n = .ok (al, aa))
    (hs : AllSome st.lm.lines) : ∀ a, al = some a → a.line.isSome = true := by
  unfold decodeTail at h
  obtain ⟨an, _, h⟩ := bind_ok h
  obtain ⟨av, _, h⟩ := bind_ok h
  obtain ⟨ac, _, h⟩ := bind_ok h
  obtain ⟨ak, _, h⟩ := bind_ok h
  dsimp only at h
  intro a ha
  subst ha
  split at h
  · obtain ⟨_, hx, _⟩ := bind_ok h; cases hx
  · split at h
    · next hne =>
      split at h
      · obtain ⟨_, hx, _⟩ := bind_ok h; cases hx
      · simp only [pure, Except.pure, bind, Except.bind, Except.ok.injEq, Prod.mk.injEq, Option.some.injEq] at h
        obtain ⟨h1, _⟩ := h
        rw [← h1]
        dsimp only
        cases hl : st.lm.lines with
        | nil => rw [hl] at hne; simp at hne
        | cons q rest =>
          obtain ⟨o, l⟩ := q
          exact hs (o, l) (by rw [hl]; simp)
    · simp only [pure, Except.pure, bind, Except.bind, Except.ok.injEq, Prod.mk.injEq] at h
      cases h.1

def CodeData.addLine : CodeData → Option AdditionalLine | .mk _ _ _ _ _ _ _ _ _ al _ => al

theorem allSome_shift (lm : LMap) (fln : Int) (h : AllSome lm.lines) : AllSome (shiftLines lm fln).lines := by
  intro p hp
  simp only [shiftLines, List.mem_map] at hp
  obtain ⟨q, hq, rfl⟩ := hp
  have := h q hq
  obtain ⟨o, l⟩ := q
  cases l with
  | none => simp at this
  | some x => rfl

/-- **before 3.10 the additional line of decoded data has a line** -/
theorem decoded_addLine_some (v : Ver) (T : OpTable) (F : FlagTable) (dec : RawCode → R CodeData)
    (argc pos kw nl ss fl : Nat) (fln : Int) (code lt : List Nat) (fname name : PStr) (names varnames freevars cellvars : List PStr)
    (consts : List RConst) (d : CodeData)
    (h : toCodeDataGo v T F dec (.mk argc pos kw nl ss fl fln code lt fname name names varnames freevars cellvars consts) = .ok d)
    (hv : v.is310 = false) (hteven : lt.length % 2 = 0) (htbytes : ∀ x ∈ lt, x < 256)
    (htbcOld : ∀ cs, LT.collapse false (LT.bytesToItems lt) = some cs → ∀ c ∈ cs, c.bc % 2 = 0) :
    ∀ a, d.addLine = some a → a.line.isSome = true := by
  obtain ⟨lm, constants, tp, ann, nested, args, st0, st', raws, ois, blocks, al, aa, hlm, _, _, _, _, _, _, hstlm, _, hdec, _, htail, hd⟩ :=
    toCodeDataGo_decompose v T F dec argc pos kw nl ss fl fln code lt fname name names varnames freevars cellvars consts d h
  subst hd
  rw [hv] at hlm
  have h1 := toLineMapping_old_allSome lt code.length hteven htbytes htbcOld lm hlm
  have h2 : AllSome st0.lm.lines := by rw [hstlm]; exact allSome_shift lm fln h1
  have h3 : AllSome st'.lm.lines := fun p hp => h2 p (decodeInstrs_lines_subset v T freevars raws st0 st' ois hdec p hp)
  exact decodeTail_line st' code.length al aa htail h3

end CDV
