import CDVProofs.Json
import CDVProofs.Normalize
/-! `canon` (what a JSON round trip does to the data) is invisible to `to_json_data` and commutes with `normalize` -/
namespace CDV

theorem jFloat_canonF (b : Nat) : jFloat (canonF b) = jFloat b := by
  unfold canonF
  by_cases h1 : isInf b = true
  · by_cases h2 : b < 2^63
    · have : isInf 0x7FF0000000000000 = true := by decide
      simp [h1, h2, jFloat, this]
    · have : isInf 0xFFF0000000000000 = true := by decide
      simp [h1, h2, jFloat, this]
  · by_cases h3 : isNaN b = true
    · have e1 : isInf 0x7FF8000000000000 = false := by decide
      have e2 : isNaN 0x7FF8000000000000 = true := by decide
      simp [h1, h3, jFloat, e1, e2]
    · simp [h1, h3]

mutual
theorem jInner_canon : ∀ c, jInner (canonInner c) = jInner c
  | .none => rfl
  | .ellipsis => rfl
  | .bool _ => rfl
  | .int _ => rfl
  | .float b => by simp [canonInner, jInner, jFloat_canonF]
  | .complex r i => by simp [canonInner, jInner, jFloat_canonF]
  | .str _ => rfl
  | .bytes _ => rfl
  | .tuple xs => by simp [canonInner, jInner, jInners_canon xs]
  | .fset xs => by simp [canonInner, jInner, jInners_canon xs]
theorem jInners_canon : ∀ xs, jInners (canonInners xs) = jInners xs
  | [] => rfl
  | x :: xs => by simp [canonInners, jInners, jInner_canon x, jInners_canon xs]
end

theorem canonArg_isDefault (a : Arg) : (canonArg a).isDefault = a.isDefault := by
  cases a <;> simp [canonArg, Arg.isDefault]

mutual
theorem jConst_canon : ∀ c, jConst (canonConst c) = jConst c
  | .inner c => by simp [canonConst, jConst, jInner_canon]
  | .code d => by simp [canonConst, jConst, jCodeData_canon d]
theorem jArg_canon : ∀ a, jArg (canonArg a) = jArg a
  | .raw _ => rfl
  | .jump .. => rfl
  | .name .. => rfl
  | .varname .. => rfl
  | .const c o => by simp [canonArg, jArg, jConst_canon c]
  | .free _ => rfl
  | .cell .. => rfl
  | .noarg _ => rfl
theorem jInstr_canon : ∀ i, jInstr (canonInstr i) = jInstr i
  | .mk op a n l o => by simp [canonInstr, jInstr, jArg_canon a, canonArg_isDefault]
theorem jInstrs_canon : ∀ is, jInstrs (canonInstrs is) = jInstrs is
  | [] => rfl
  | i :: is => by simp [canonInstrs, jInstrs, jInstr_canon i, jInstrs_canon is]
theorem jBlocks_canon : ∀ bs, jBlocks (canonBlocks bs) = jBlocks bs
  | [] => rfl
  | b :: bs => by simp [canonBlocks, jBlocks, jInstrs_canon b, jBlocks_canon bs]
theorem jArgList_canon : ∀ as, jArgList (canonArgList as) = jArgList as
  | [] => rfl
  | a :: as => by simp [canonArgList, jArgList, jArg_canon a, jArgList_canon as]
theorem jCodeData_canon : ∀ d, jCodeData (canonCode d) = jCodeData d
  | .mk bl fname fl name ss tp fv fut nested al aa => by
    have h : (canonArgList aa).isEmpty = aa.isEmpty := by cases aa <;> simp [canonArgList]
    simp [canonCode, jCodeData, jBlocks_canon bl, jArgList_canon aa, nonEmpty, h]
end

mutual
theorem normConst_canon : ∀ c, normConst (canonConst c) = canonConst (normConst c)
  | .inner _ => rfl
  | .code d => by simp [canonConst, normConst, normCode_canon d]
theorem normArg_canon : ∀ a, normArg (canonArg a) = canonArg (normArg a)
  | .raw _ => rfl
  | .jump .. => rfl
  | .name .. => rfl
  | .varname .. => rfl
  | .const c o => by simp [canonArg, normArg, normConst_canon c]
  | .free _ => rfl
  | .cell .. => rfl
  | .noarg _ => rfl
theorem normInstr_canon : ∀ i, normInstr (canonInstr i) = canonInstr (normInstr i)
  | .mk op a n l o => by simp [canonInstr, normInstr, normArg_canon a]
theorem normInstrs_canon : ∀ is, normInstrs (canonInstrs is) = canonInstrs (normInstrs is)
  | [] => rfl
  | i :: is => by simp [canonInstrs, normInstrs, normInstr_canon i, normInstrs_canon is]
theorem normBlocks_canon : ∀ bs, normBlocks (canonBlocks bs) = canonBlocks (normBlocks bs)
  | [] => rfl
  | b :: bs => by simp [canonBlocks, normBlocks, normInstrs_canon b, normBlocks_canon bs]
theorem normCode_canon : ∀ d, normCode (canonCode d) = canonCode (normCode d)
  | .mk bl .. => by simp [canonCode, normCode, normBlocks_canon bl, canonArgList]
end

end CDV
