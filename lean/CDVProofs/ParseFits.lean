import CDVProofs.BytesInv
/-! Every operand `_parse_bytes` reads fits the number of code units it was read from. -/
namespace CDV

theorem parseGo_fits : ∀ (n : Nat) (code : List Nat), code.length = n → ∀ (i : Nat) (arg : Int) (nargs e : Nat) (raws : List RawI),
    (∀ x ∈ code, x < 256) → nargs ≤ 3 → (arg = sgn32 e ∧ e % 256 = 0 ∧ e < 256 ^ (nargs + 1)) → Complete code nargs →
    parseGo EXTENDED_ARG code i arg nargs = .ok raws → (∀ r ∈ raws, r.nargs ≤ 4) →
    ∀ r ∈ raws, instrsize r.arg ≤ r.nargs := by
  intro n
  induction n using Nat.strongRecOn with
  | ind n ih =>
  intro code hlen i arg nargs e raws hb hn3 hrel hc hp hn
  match code, hlen with
  | [], _ =>
    simp [parseGo, pure, Except.pure] at hp
    subst hp
    intro r hr; cases hr
  | [_], _ => simp [Complete] at hc
  | op :: a :: rest, hlen =>
    have ha : a < 256 := hb a (by simp)
    have hrest : ∀ x ∈ rest, x < 256 := fun x hx => hb x (by simp [hx])
    simp only [List.length_cons] at hlen
    rw [parseGo] at hp
    simp only [Complete] at hc
    obtain ⟨hv1, hv2, hv3⟩ := hrel
    by_cases hop : op = EXTENDED_ARG
    · simp only [hop, if_true] at hp hc
      by_cases h3 : nargs = 3
      · subst h3
        obtain ⟨r, rs, h1, h2⟩ := parseGo_first_nargs rest.length rest rfl _ _ _ raws hc (by omega) hp
        have := hn r (by rw [h1]; simp)
        omega
      · have h2 : nargs ≤ 2 := by omega
        have he : e < 16777216 := by
          have : nargs = 0 ∨ nargs = 1 ∨ nargs = 2 := by omega
          rcases this with h | h | h <;> subst h <;> simp at hv3 <;> omega
        have harg : arg = (e : Int) := by
          rw [hv1, sgn32]; split
          · omega
          · rfl
        rw [c_int_upper_eq, c_int_len_eq, harg] at hp
        have hrel' : ((if ((e : Int) + a) * 256 > 2147483647 then ((e : Int) + a) * 256 - 4294967296 else ((e : Int) + a) * 256) = sgn32 ((a + e) * 256)) ∧
            ((a + e) * 256) % 256 = 0 ∧ (a + e) * 256 < 256 ^ (nargs + 1 + 1) := by
          refine ⟨?_, by omega, ?_⟩
          · unfold sgn32; split <;> split <;> omega
          · have : nargs = 0 ∨ nargs = 1 ∨ nargs = 2 := by omega
            rcases this with h | h | h <;> subst h <;> simp at hv3 ⊢ <;> omega
        exact ih rest.length (by omega) rest rfl (i + 2) _ (nargs + 1) ((a + e) * 256) raws hrest (by omega) hrel' hc hp hn
    · simp only [hop, if_false] at hp hc
      obtain ⟨r, hr, hp⟩ := bind_ok hp
      simp only [pure, Except.pure, Except.ok.injEq] at hp
      subst hp
      have hrec := ih rest.length (by omega) rest rfl (i + 2) 0 0 0 r hrest (by omega) ⟨by simp [sgn32], by simp, by simp⟩ hc hr
        (fun x hx => hn x (by simp [hx]))
      intro x hx
      simp only [List.mem_cons] at hx
      rcases hx with rfl | hx
      · show instrsize (arg + a) ≤ nargs + 1
        have : nargs = 0 ∨ nargs = 1 ∨ nargs = 2 ∨ nargs = 3 := by omega
        rcases this with h | h | h | h <;> subst h
        · simp at hv3
          unfold instrsize
          simp only [Extracted.instrsizeLimit1, Extracted.instrsizeLimit2, Extracted.instrsizeLimit3]
          rw [hv1]; unfold sgn32
          split <;> split <;> try split <;> try split <;> try split
          all_goals omega
        · simp at hv3
          unfold instrsize
          simp only [Extracted.instrsizeLimit1, Extracted.instrsizeLimit2, Extracted.instrsizeLimit3]
          rw [hv1]; unfold sgn32
          split <;> split <;> try split <;> try split <;> try split
          all_goals omega
        · simp at hv3
          unfold instrsize
          simp only [Extracted.instrsizeLimit1, Extracted.instrsizeLimit2, Extracted.instrsizeLimit3]
          rw [hv1]; unfold sgn32
          split <;> split <;> try split <;> try split <;> try split
          all_goals omega
        · exact instrsize_le _
      · exact hrec x hx

theorem parseGo_Fits : ∀ (n : Nat) (code : List Nat), code.length = n → ∀ (i : Nat) (arg : Int) (nargs e : Nat) (raws : List RawI),
    (∀ x ∈ code, x < 256) → nargs ≤ 3 → (arg = sgn32 e ∧ e % 256 = 0 ∧ e < 256 ^ (nargs + 1)) → Complete code nargs →
    parseGo EXTENDED_ARG code i arg nargs = .ok raws → (∀ r ∈ raws, r.nargs ≤ 4) →
    ∀ r ∈ raws, Fits r.arg r.nargs ∧ r.op ≠ EXTENDED_ARG := by
  intro n
  induction n using Nat.strongRecOn with
  | ind n ih =>
  intro code hlen i arg nargs e raws hb hn3 hrel hc hp hn
  match code, hlen with
  | [], _ =>
    simp [parseGo, pure, Except.pure] at hp
    subst hp
    intro r hr; cases hr
  | [_], _ => simp [Complete] at hc
  | op :: a :: rest, hlen =>
    have ha : a < 256 := hb a (by simp)
    have hrest : ∀ x ∈ rest, x < 256 := fun x hx => hb x (by simp [hx])
    simp only [List.length_cons] at hlen
    rw [parseGo] at hp
    simp only [Complete] at hc
    obtain ⟨hv1, hv2, hv3⟩ := hrel
    by_cases hop : op = EXTENDED_ARG
    · simp only [hop, if_true] at hp hc
      by_cases h3 : nargs = 3
      · subst h3
        obtain ⟨r, rs, h1, h2⟩ := parseGo_first_nargs rest.length rest rfl _ _ _ raws hc (by omega) hp
        have := hn r (by rw [h1]; simp)
        omega
      · have h2 : nargs ≤ 2 := by omega
        have he : e < 16777216 := by
          have : nargs = 0 ∨ nargs = 1 ∨ nargs = 2 := by omega
          rcases this with h | h | h <;> subst h <;> simp at hv3 <;> omega
        have harg : arg = (e : Int) := by
          rw [hv1, sgn32]; split
          · omega
          · rfl
        rw [c_int_upper_eq, c_int_len_eq, harg] at hp
        have hrel' : ((if ((e : Int) + a) * 256 > 2147483647 then ((e : Int) + a) * 256 - 4294967296 else ((e : Int) + a) * 256) = sgn32 ((a + e) * 256)) ∧
            ((a + e) * 256) % 256 = 0 ∧ (a + e) * 256 < 256 ^ (nargs + 1 + 1) := by
          refine ⟨?_, by omega, ?_⟩
          · unfold sgn32; split <;> split <;> omega
          · have : nargs = 0 ∨ nargs = 1 ∨ nargs = 2 := by omega
            rcases this with h | h | h <;> subst h <;> simp at hv3 ⊢ <;> omega
        exact ih rest.length (by omega) rest rfl (i + 2) _ (nargs + 1) ((a + e) * 256) raws hrest (by omega) hrel' hc hp hn
    · simp only [hop, if_false] at hp hc
      obtain ⟨r, hr, hp⟩ := bind_ok hp
      simp only [pure, Except.pure, Except.ok.injEq] at hp
      subst hp
      have hrec := ih rest.length (by omega) rest rfl (i + 2) 0 0 0 r hrest (by omega) ⟨by simp [sgn32], by simp, by simp⟩ hc hr
        (fun x hx => hn x (by simp [hx]))
      intro x hx
      simp only [List.mem_cons] at hx
      rcases hx with rfl | hx
      · refine ⟨?_, hop⟩
        show Fits (arg + a) (nargs + 1)
        unfold Fits
        have : nargs = 0 ∨ nargs = 1 ∨ nargs = 2 ∨ nargs = 3 := by omega
        rcases this with h | h | h | h <;> subst h <;> simp at hv3 ⊢ <;> rw [hv1] <;> unfold sgn32 <;> split <;> omega
      · exact hrec x hx


/-- **every operand fits the width it was read in** -/
theorem parseBytes_fits (code : List Nat) (raws : List RawI) (hb : ∀ x ∈ code, x < 256) (hc : Complete code 0)
    (hp : parseBytes code = .ok raws) (hn : ∀ r ∈ raws, r.nargs ≤ 4) : ∀ r ∈ raws, instrsize r.arg ≤ r.nargs :=
  parseGo_fits code.length code rfl 0 0 0 0 raws hb (by omega) ⟨by simp [sgn32], by simp, by simp⟩ hc hp hn

/-- **every operand is in the range of the width it was read in, and no instruction is a bare prefix** -/
theorem parseBytes_Fits (code : List Nat) (raws : List RawI) (hb : ∀ x ∈ code, x < 256) (hc : Complete code 0)
    (hp : parseBytes code = .ok raws) (hn : ∀ r ∈ raws, r.nargs ≤ 4) : ∀ r ∈ raws, Fits r.arg r.nargs ∧ r.op ≠ EXTENDED_ARG :=
  parseGo_Fits code.length code rfl 0 0 0 0 raws hb (by omega) ⟨by simp [sgn32], by simp, by simp⟩ hc hp hn

end CDV
