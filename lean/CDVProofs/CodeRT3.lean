import CDVProofs.CodeRT2
import CDVProofs.ParseOffsets
import CDVProofs.BlockStarts
/-! # `co_code` survives `from_code` → `to_code`: the main argument -/
namespace CDV
open CDV.Props.C09 (keyEquiv_str keyEquiv_const)
open CDV.LT (LMap)

theorem zipmap_eq {β} (f : Instr → Int → β) (g : RawI → β) : ∀ (is : List Instr) (raws : List RawI), is.length = raws.length →
    (∀ (j : Nat) (i : Instr) (r : RawI), is[j]? = some i → raws[j]? = some r → f i r.arg = g r) →
    (is.zip (raws.map (·.arg))).map (fun p => f p.1 p.2) = raws.map g := by
  intro is
  induction is with
  | nil => intro raws h _; cases raws with | nil => rfl | cons _ _ => simp at h
  | cons i is ih =>
    intro raws h hp
    cases raws with
    | nil => simp at h
    | cons r raws =>
      simp only [List.length_cons, Nat.add_right_cancel_iff] at h
      simp only [List.map_cons, List.zip_cons_cons]
      rw [hp 0 i r (by simp) (by simp), ih raws h (fun j i' r' e1 e2 => hp (j + 1) i' r' (by simpa using e1) (by simpa using e2))]

theorem retarget_nonjump (tg : List Nat) (i : Instr) (h : isJump i.arg = false) : retarget tg i = i := by
  obtain ⟨op, a, n, l, o⟩ := i
  cases a with
  | jump t r => simp [Instr.arg, isJump] at h
  | _ => rfl

theorem novOf_nonjump (a : Arg) (n : Nat) (h : isJump a = false) : novOf a n = none := by
  cases a with
  | jump t r => simp [isJump] at h
  | _ => rfl

/-- what is known about the `j`-th flattened instruction of decoded data -/
structure FlatAt (v : Ver) (T : OpTable) (tg : List Nat) (r : RawI) (i : Instr) : Prop where
  op : i.op = r.op
  cls : (T.get r.op ≠ .jabs ∧ T.get r.op ≠ .jrel ∧ isJump i.arg = false ∧ i.nov = none) ∨
        (∃ (t : Nat) (rel : Bool), i.arg = .jump (indexOf t tg) rel ∧ i.nov = novOf (.jump t rel) r.nargs ∧
          ((T.get r.op = .jabs ∧ rel = false ∧ (t : Int) = decMult v * r.arg) ∨
           (T.get r.op = .jrel ∧ rel = true ∧ (t : Int) = (r.next : Int) + decMult v * r.arg)))

theorem flat_at (v : Ver) (T : OpTable) (fv : List PStr) (raws : List RawI) (st st' : DecSt) (ois : List (Nat × Instr))
    (hdec : decodeInstrs v T fv st raws = .ok (st', ois)) (tg : List Nat) (j : Nat) (r : RawI) (hj : raws[j]? = some r) :
    ∃ i0, ois[j]? = some (r.first, i0) ∧ FlatAt v T tg r (retarget tg i0) ∧ isJump i0.arg = isJump (retarget tg i0).arg ∧
      (∀ t rel, i0.arg = .jump t rel → (retarget tg i0).arg = .jump (indexOf t tg) rel ∧
        ((T.get r.op = .jabs ∧ rel = false ∧ (t : Int) = decMult v * r.arg) ∨
         (T.get r.op = .jrel ∧ rel = true ∧ (t : Int) = (r.next : Int) + decMult v * r.arg))) := by
  obtain ⟨arg, line, offs, ho, hok⟩ := decodeInstrs_shape v T fv raws st st' ois hdec j r hj
  refine ⟨_, ho, ?_⟩
  rcases operandOK_class v T _ _ _ _ _ r arg hok with ⟨hc, h0, rfl⟩ | ⟨hc, h0, rfl⟩ | ⟨h1, h2, hnj⟩
  · refine ⟨⟨rfl, Or.inr ⟨_, false, rfl, rfl, Or.inl ⟨hc, rfl, Int.toNat_of_nonneg h0⟩⟩⟩, rfl, ?_⟩
    intro t rel he
    simp only [Instr.arg, Arg.jump.injEq] at he
    obtain ⟨rfl, rfl⟩ := he
    exact ⟨rfl, Or.inl ⟨hc, rfl, Int.toNat_of_nonneg h0⟩⟩
  · refine ⟨⟨rfl, Or.inr ⟨_, true, rfl, rfl, Or.inr ⟨hc, rfl, Int.toNat_of_nonneg h0⟩⟩⟩, rfl, ?_⟩
    intro t rel he
    simp only [Instr.arg, Arg.jump.injEq] at he
    obtain ⟨rfl, rfl⟩ := he
    exact ⟨rfl, Or.inr ⟨hc, rfl, Int.toNat_of_nonneg h0⟩⟩
  · have hnj' : isJump (Instr.mk r.op arg (novOf arg r.nargs) line offs).arg = false := hnj
    rw [retarget_nonjump tg _ hnj']
    refine ⟨⟨rfl, Or.inl ⟨h1, h2, hnj, novOf_nonjump arg r.nargs hnj⟩⟩, rfl, ?_⟩
    intro t rel he
    simp only [Instr.arg] at he
    rw [he] at hnj
    simp [isJump] at hnj

theorem szs_eq_zipmap (is : List Instr) (as : List Int) : szs is as = (is.zip as).map (fun p => sizeOfI p.1.nov p.2) := rfl

/-- **The width loop ends with the original operands**, each in its original width. -/
theorem flat_args (v : Ver) (T : OpTable) (fv : List PStr) (code : List Nat) (raws : List RawI) (st st' : DecSt) (ois : List (Nat × Instr))
    (blocks : List (List Instr)) (xs res : List Int) (fuel : Nat)
    (hraws : parseBytes code = .ok raws) (hdec : decodeInstrs v T fv st raws = .ok (st', ois)) (hbl : buildBlocks ois = .ok blocks)
    (hcode : ∀ x ∈ code, x < 256) (hcomp : Complete code 0) (hpre : ∀ r ∈ raws, r.nargs ≤ 4)
    (hmin : ∀ r ∈ raws, T.get r.op ≠ .jabs → T.get r.op ≠ .jrel → r.nargs = instrsize r.arg)
    (hw : ∀ r ∈ raws, instrsize r.arg ≤ r.nargs)
    (hjs : ∀ r ∈ raws, (T.get r.op = .jabs → (decMult v * r.arg).toNat ∈ raws.map (·.first)) ∧
      (T.get r.op = .jrel → ((r.next : Int) + decMult v * r.arg).toNat ∈ raws.map (·.first)))
    (hxlen : xs.length = raws.length) (hxjump : JumpsOne blocks.flatten xs)
    (hxval : ∀ (j : Nat) (r : RawI) (p : Nat × Instr) (x : Int), raws[j]? = some r → ois[j]? = some p → xs[j]? = some x →
      isJump p.2.arg = false → x = r.arg)
    (hrel : relax v blocks.flatten (blockStarts blocks 0) fuel xs = .ok res) :
    res = raws.map (·.arg) ∧ blocks.flatten.length = raws.length ∧
    ∀ (j : Nat) (i : Instr) (r : RawI), blocks.flatten[j]? = some i → raws[j]? = some r → sizeOfI i.nov r.arg = r.nargs ∧ i.op = r.op := by
  have hflat := (CDV.Props.C13.C13_partition ois blocks hbl).2
  have hoffs : ois.map (·.1) = raws.map (·.first) := decodeInstrs_offsets v T fv raws st st' ois hdec
  have hoislen : ois.length = raws.length := (decodeInstrs_ok v T fv raws st st' ois hdec).2.1
  have hflen : blocks.flatten.length = raws.length := by rw [hflat, List.length_map, hoislen]
  have hso : SortedLt (ois.map (·.1)) := by rw [hoffs]; exact parseBytes_sorted code raws hraws
  have hlay := parseBytes_layout code raws hraws
  have hps := layout_psum raws 0 (by simpa using hlay)
  -- the j-th flattened instruction
  have hat : ∀ (j : Nat) (r : RawI) (i : Instr), raws[j]? = some r → blocks.flatten[j]? = some i →
      FlatAt v T (targetsOf ois) r i ∧ ∃ i0, ois[j]? = some (r.first, i0) ∧ isJump i0.arg = isJump i.arg := by
    intro j r i hr hi
    obtain ⟨i0, ho, hfa, hjmp, _⟩ := flat_at v T fv raws st st' ois hdec (targetsOf ois) j r hr
    rw [hflat, List.getElem?_map, ho] at hi
    simp only [Option.map_some, Option.some.injEq] at hi
    subst hi
    exact ⟨hfa, i0, ho, hjmp⟩
  have hn1 : ∀ r ∈ raws, 1 ≤ r.nargs := fun r hr => Nat.le_trans (instrsize_pos r.arg) (hw r hr)
  -- widths of the original operands are the original widths
  have hsize : ∀ (j : Nat) (i : Instr) (r : RawI), blocks.flatten[j]? = some i → raws[j]? = some r → sizeOfI i.nov r.arg = r.nargs := by
    intro j i r hi hr
    have hrm := List.mem_of_getElem? hr
    obtain ⟨hfa, _⟩ := hat j r i hr hi
    rcases hfa.cls with ⟨h1, h2, _, hnov⟩ | ⟨t, rel, _, hnov, _⟩
    · rw [hnov]; exact (hmin r hrm h1 h2).symm
    · rw [hnov]
      unfold novOf
      dsimp only
      by_cases hgt : r.nargs > 1
      · rw [if_pos hgt]; exact sizeOfI_some _ _ (by omega)
      · rw [if_neg hgt]
        have h1 := hn1 r hrm
        have h2 := hw r hrm
        have h3 := instrsize_pos r.arg
        show instrsize r.arg = r.nargs
        omega
  have hszs : szs blocks.flatten (raws.map (·.arg)) = raws.map (·.nargs) := by
    rw [szs_eq_zipmap]
    exact zipmap_eq (fun i a => sizeOfI i.nov a) (·.nargs) blocks.flatten raws hflen hsize
  -- every jump target is an instruction start
  have hsub : raws ≠ [] → ∀ t ∈ targetsOf ois, t ∈ ois.map (·.1) := by
    intro hne t ht
    rw [hoffs]
    rcases (mem_targetsOf ois t).mp ht with rfl | hjt
    · cases hr : raws with
      | nil => exact absurd hr hne
      | cons r0 rs =>
        rw [hr] at hlay
        simp only [List.map_cons, List.mem_cons]
        left
        exact hlay.1.symm
    · obtain ⟨j, off, op, rel, n, ln, lo, hoj⟩ := mem_jumpTargets_inv ois t hjt
      have hjlt : j < raws.length := by
        rw [← hoislen]; exact (List.getElem?_eq_some_iff.mp hoj).1
      have hr : raws[j]? = some raws[j] := List.getElem?_eq_getElem hjlt
      obtain ⟨i0, ho, _, _, hcl⟩ := flat_at v T fv raws st st' ois hdec (targetsOf ois) j _ hr
      rw [hoj] at ho
      simp only [Option.some.injEq, Prod.mk.injEq] at ho
      obtain ⟨_, hi0⟩ := ho
      have := (hcl t rel (by rw [← hi0]; rfl)).2
      have hjr := hjs raws[j] (List.getElem_mem hjlt)
      rcases this with ⟨hc, _, ht'⟩ | ⟨hc, _, ht'⟩
      · have := hjr.1 hc
        rw [← ht'] at this
        simpa using this
      · have := hjr.2 hc
        rw [← ht'] at this
        simpa using this
  -- the original operands are a fix point of one pass
  have hfix : passOf v blocks.flatten (blockStarts blocks 0) (raws.map (·.arg)) = raws.map (·.arg) := by
    unfold passOf
    rw [hszs]
    apply List.ext_getElem?
    intro j
    by_cases hjlt : j < raws.length
    · have hr : raws[j]? = some raws[j] := List.getElem?_eq_getElem hjlt
      obtain ⟨i, hi⟩ : ∃ i, blocks.flatten[j]? = some i := ⟨_, List.getElem?_eq_getElem (by rw [hflen]; exact hjlt)⟩
      rw [newArgs_get v _ _ blocks.flatten (raws.map (·.arg)) 0 j i (by rw [hflen, List.length_map]) hi]
      obtain ⟨i0, ho, _, _, hcl0⟩ := flat_at v T fv raws st st' ois hdec (targetsOf ois) j _ hr
      have hi' : i = retarget (targetsOf ois) i0 := by
        have := hi
        rw [hflat, List.getElem?_map, ho] at this
        simp only [Option.map_some, Option.some.injEq] at this
        exact this.symm
      rw [hi', List.getElem?_map, hr]
      simp only [Option.map_some]
      obtain ⟨op, a, nn, ll, oo⟩ := i0
      cases a with
      | jump t rel =>
        obtain ⟨hra, hcl⟩ := hcl0 t rel rfl
        rw [hra]
        dsimp only
        simp only [Option.some.injEq, Nat.zero_add]
        have hne : raws ≠ [] := by intro he; rw [he] at hjlt; simp at hjlt
        have hmem : t ∈ targetsOf ois :=
          jumpTarget_mem_targetsOf ois t (mem_jumpTargets op t rel nn ll oo _ ois (List.mem_of_getElem? ho))
        obtain ⟨hst, hpt⟩ := jump_block_start ois blocks hbl hso (hsub hne) t hmem
        rw [List.getD_eq_getElem?_getD, hst]
        simp only [Option.getD_some]
        -- offsets in code units
        rw [hoffs, List.getElem?_map] at hpt
        cases hrp : raws[indexOf t (List.map (fun x => x.fst) ois)]? with
        | none => rw [hoffs] at hrp; rw [hrp] at hpt; simp at hpt
        | some rp =>
          rw [hoffs] at hrp
          rw [hrp] at hpt
          simp only [Option.map_some, Option.some.injEq] at hpt
          have hp1 := (hps _ rp hrp).1
          have hj2 := (hps j _ hr).2
          unfold newArgOf
          dsimp only
          have e1 : (prefixSums (raws.map (·.nargs)) 0).getD (indexOf t (List.map (fun x => x.first) raws)) 0 =
              psum (raws.map (·.nargs)) 0 (indexOf t (List.map (fun x => x.first) raws)) := rfl
          have e2 : (prefixSums (raws.map (·.nargs)) 0).getD (j + 1) 0 = psum (raws.map (·.nargs)) 0 (j + 1) := rfl
          rw [hoffs, e1, e2]
          unfold decMult at hcl
          rcases hcl with ⟨_, hrel, ht⟩ | ⟨_, hrel, ht⟩
          · subst hrel
            simp only [Bool.false_eq_true, if_false]
            cases hv : v.is310 <;> simp only [hv, if_true, if_false, Bool.false_eq_true] at ht ⊢ <;> omega
          · subst hrel
            simp only [if_true]
            cases hv : v.is310 <;> simp only [hv, if_true, if_false, Bool.false_eq_true] at ht ⊢ <;> omega
      | _ => rfl
    · have h1 : (raws.map (·.arg))[j]? = none := List.getElem?_eq_none (by simp; omega)
      rw [h1]
      apply List.getElem?_eq_none
      rw [newArgs_length _ _ _ _ _ _ (by rw [hflen, List.length_map]), hflen]
      omega
  -- the start state is below the original operands
  have hle : SzLE blocks.flatten xs (raws.map (·.arg)) := by
    apply SzLE_of_pointwise _ _ _ (by rw [hflen, hxlen]) (by rw [hflen, List.length_map])
    intro j i a b hi ha hb
    rw [List.getElem?_map] at hb
    cases hr : raws[j]? with
    | none => rw [hr] at hb; simp at hb
    | some r =>
      rw [hr] at hb
      simp only [Option.map_some, Option.some.injEq] at hb
      subst hb
      have hrm := List.mem_of_getElem? hr
      obtain ⟨hfa, i0, ho, hjmp⟩ := hat j r i hr hi
      rcases hfa.cls with ⟨_, _, hnj, _⟩ | ⟨t, rel, harg, hnov, _⟩
      · have := hxval j r _ a hr ho ha (by rw [hjmp]; exact hnj)
        subst this
        exact ⟨Nat.le_refl _, fun _ => rfl⟩
      · have hij : isJump i.arg = true := by rw [harg]; rfl
        have ha1 := jumpsOne_get _ _ hxjump j i a hi ha hij
        subst ha1
        refine ⟨?_, fun h => by rw [hij] at h; cases h⟩
        rw [hnov]
        unfold novOf
        dsimp only
        by_cases hgt : r.nargs > 1
        · rw [if_pos hgt, sizeOfI_some _ _ (by omega), sizeOfI_some _ _ (by omega)]
          exact Nat.le_refl _
        · rw [if_neg hgt]
          show instrsize 1 ≤ instrsize r.arg
          have : instrsize 1 = 1 := by decide
          rw [this]
          exact instrsize_pos _
  have hfree : FreeOne blocks.flatten (raws.map (·.arg)) := by
    apply FreeOne_of_pointwise
    intro j i o hi ho' hij hno
    rw [List.getElem?_map] at ho'
    cases hr : raws[j]? with
    | none => rw [hr] at ho'; simp at ho'
    | some r =>
      rw [hr] at ho'
      simp only [Option.map_some, Option.some.injEq] at ho'
      subst ho'
      have hrm := List.mem_of_getElem? hr
      obtain ⟨hfa, _⟩ := hat j r i hr hi
      rcases hfa.cls with ⟨_, _, hnj, _⟩ | ⟨t, rel, _, hnov, _⟩
      · rw [hnj] at hij; cases hij
      · rw [hnov] at hno
        have h1 := (noOverride_novOf_jump t rel r.nargs (hn1 r hrm)).mp hno
        have h2 := hw r hrm
        have h3 := instrsize_pos r.arg
        omega
  have hreso := relax_reproduces v blocks.flatten (blockStarts blocks 0) (raws.map (·.arg)) xs res fuel hfix hle hfree hrel
  exact ⟨hreso, hflen, fun j i r hi hr => ⟨hsize j i r hi hr, (hat j r i hr hi).1.op⟩⟩

/-- **The assembled bytes are the original bytes.** -/
theorem flat_code (v : Ver) (T : OpTable) (fv : List PStr) (code : List Nat) (raws : List RawI) (st st' : DecSt) (ois : List (Nat × Instr))
    (blocks : List (List Instr)) (xs res : List Int) (fuel : Nat)
    (hraws : parseBytes code = .ok raws) (hdec : decodeInstrs v T fv st raws = .ok (st', ois)) (hbl : buildBlocks ois = .ok blocks)
    (hcode : ∀ x ∈ code, x < 256) (hcomp : Complete code 0) (hpre : ∀ r ∈ raws, r.nargs ≤ 4)
    (hmin : ∀ r ∈ raws, T.get r.op ≠ .jabs → T.get r.op ≠ .jrel → r.nargs = instrsize r.arg)
    (hw : ∀ r ∈ raws, instrsize r.arg ≤ r.nargs)
    (hjs : ∀ r ∈ raws, (T.get r.op = .jabs → (decMult v * r.arg).toNat ∈ raws.map (·.first)) ∧
      (T.get r.op = .jrel → ((r.next : Int) + decMult v * r.arg).toNat ∈ raws.map (·.first)))
    (hxlen : xs.length = raws.length) (hxjump : JumpsOne blocks.flatten xs)
    (hxval : ∀ (j : Nat) (r : RawI) (p : Nat × Instr) (x : Int), raws[j]? = some r → ois[j]? = some p → xs[j]? = some x →
      isJump p.2.arg = false → x = r.arg)
    (hrel : relax v blocks.flatten (blockStarts blocks 0) fuel xs = .ok res) :
    (emit blocks.flatten res 0).1 = code := by
  obtain ⟨hreso, hflen, hsz⟩ := flat_args v T fv code raws st st' ois blocks xs res fuel hraws hdec hbl hcode hcomp hpre hmin hw hjs hxlen
    hxjump hxval hrel
  rw [hreso, emit_code_eq]
  rw [zipmap_eq (fun i a => emitOne i.op a (sizeOfI i.nov a)) (fun r => emitOne r.op r.arg r.nargs) blocks.flatten raws hflen ?_]
  · exact (emit_parseBytes code raws hcode hcomp hraws hpre).symm
  · intro j i r hi hr
    rw [(hsz j i r hi hr).1, (hsz j i r hi hr).2]

end CDV
