import CDVProofs.Tables
import CDVProofs.Bytes
/-! The decoder's operand resolution (`to_arg`) against CPython's (the resolution rules of `dis` / `ceval`, as in
    `Spec.read`): every operand is the table entry CPython would use, every jump carries CPython's target offset. -/
namespace CDV

def decMult (v : Ver) : Int := if v.is310 then 2 else 1

/-- CPython's resolution of the operand of raw instruction `i`, as a relation to the decoded `Arg`
    (`consts` are the decoded constants: nested code objects decoded, everything else unchanged). -/
def OperandOK (v : Ver) (T : OpTable) (names varnames freevars cellvars : List PStr) (consts : List Const) (i : RawI) (arg : Arg) : Prop :=
  match T.get i.op with
  | .jabs => 0 ≤ decMult v * i.arg ∧ arg = .jump (decMult v * i.arg).toNat false
  | .jrel => 0 ≤ (i.next : Int) + decMult v * i.arg ∧ arg = .jump ((i.next : Int) + decMult v * i.arg).toNat true
  | .name => 0 ≤ i.arg ∧ ∃ s o, arg = .name s o ∧ names[i.arg.toNat]? = some s
  | .loc => 0 ≤ i.arg ∧ ∃ s o, arg = .varname s o ∧ varnames[i.arg.toNat]? = some s
  | .free => 0 ≤ i.arg ∧
      (if i.arg < (cellvars.length : Int) then ∃ s o, arg = .cell s o ∧ cellvars[i.arg.toNat]? = some s
       else ∃ s, arg = .free s ∧ freevars[(i.arg - cellvars.length).toNat]? = some s)
  | .const => 0 ≤ i.arg ∧ ∃ c o, arg = .const c o ∧ consts[i.arg.toNat]? = some c
  | .noarg => arg = .noarg i.arg
  | .raw => arg = .raw i.arg
  | .ext => arg = .raw i.arg

structure SameTables (st st' : DecSt) : Prop where
  names : st'.names.args = st.names.args
  varnames : st'.varnames.args = st.varnames.args
  cellvars : st'.cellvars.args = st.cellvars.args
  consts : st'.consts.args = st.consts.args

theorem SameTables.refl (st : DecSt) : SameTables st st := ⟨rfl, rfl, rfl, rfl⟩
theorem SameTables.trans {a b c : DecSt} (h1 : SameTables a b) (h2 : SameTables b c) : SameTables a c :=
  ⟨h2.names.trans h1.names, h2.varnames.trans h1.varnames, h2.cellvars.trans h1.cellvars, h2.consts.trans h1.consts⟩

theorem foundIndex_int {α} (keyEq : α → α → Bool) (d d' : ToArgs α) (x : Int) (a : α) (ov : Option Nat)
    (h : d.foundIndex keyEq x = .ok (d', a, ov)) : 0 ≤ x ∧ d.args[x.toNat]? = some a ∧ d'.args = d.args := by
  have hx : 0 ≤ x := by
    by_cases hx : x < 0
    · simp [ToArgs.foundIndex, hx, throw, throwThe, MonadExceptOf.throw] at h
    · omega
  have hcast : ((x.toNat : Nat) : Int) = x := Int.toNat_of_nonneg hx
  rw [← hcast] at h
  obtain ⟨h1, h2, _⟩ := foundIndex_ok d x.toNat d' a ov h
  exact ⟨hx, h1, h2⟩

/-- **`to_arg` resolves every operand the way CPython does.** -/
theorem toArg_ok (v : Ver) (T : OpTable) (fv : List PStr) (st st' : DecSt) (i : RawI) (arg : Arg)
    (h : toArg v T fv st i = .ok (st', arg)) :
    OperandOK v T st.names.args st.varnames.args fv st.cellvars.args st.consts.args i arg ∧ SameTables st st' ∧ st'.lm = st.lm := by
  unfold toArg at h
  unfold OperandOK decMult
  cases hc : T.get i.op <;> simp only [hc] at h ⊢
  · -- jabs
    cases hv : v.is310 <;> simp only [hv, if_true, if_false, Bool.false_eq_true] at h ⊢ <;>
    · split at h
      · simp [throw, throwThe, MonadExceptOf.throw] at h
      · next hn =>
        simp only [pure, Except.pure, Except.ok.injEq, Prod.mk.injEq] at h
        obtain ⟨rfl, rfl⟩ := h
        exact ⟨⟨by omega, rfl⟩, SameTables.refl _, rfl⟩
  · -- jrel
    cases hv : v.is310 <;> simp only [hv, if_true, if_false, Bool.false_eq_true] at h ⊢ <;>
    · split at h
      · simp [throw, throwThe, MonadExceptOf.throw] at h
      · next hn =>
        simp only [pure, Except.pure, Except.ok.injEq, Prod.mk.injEq] at h
        obtain ⟨rfl, rfl⟩ := h
        exact ⟨⟨by omega, rfl⟩, SameTables.refl _, rfl⟩
  · -- name
    obtain ⟨⟨t, a, o⟩, hf, h⟩ := bind_ok h
    simp only [pure, Except.pure, Except.ok.injEq, Prod.mk.injEq] at h
    obtain ⟨rfl, rfl⟩ := h
    obtain ⟨h0, h1, h2⟩ := foundIndex_int _ _ _ _ _ _ hf
    exact ⟨⟨h0, a, o, rfl, h1⟩, ⟨h2, rfl, rfl, rfl⟩, rfl⟩
  · -- loc
    obtain ⟨⟨t, a, o⟩, hf, h⟩ := bind_ok h
    simp only [pure, Except.pure, Except.ok.injEq, Prod.mk.injEq] at h
    obtain ⟨rfl, rfl⟩ := h
    obtain ⟨h0, h1, h2⟩ := foundIndex_int _ _ _ _ _ _ hf
    exact ⟨⟨h0, a, o, rfl, h1⟩, ⟨rfl, h2, rfl, rfl⟩, rfl⟩
  · -- free
    split at h
    · next hlt =>
      obtain ⟨⟨t, a, o⟩, hf, h⟩ := bind_ok h
      simp only [pure, Except.pure, Except.ok.injEq, Prod.mk.injEq] at h
      obtain ⟨rfl, rfl⟩ := h
      obtain ⟨h0, h1, h2⟩ := foundIndex_int _ _ _ _ _ _ hf
      exact ⟨⟨h0, by simp only [hlt, if_true]; exact ⟨a, o, rfl, h1⟩⟩, ⟨rfl, rfl, h2, rfl⟩, rfl⟩
    · next hge =>
      split at h
      · next s hs =>
        simp only [pure, Except.pure, Except.ok.injEq, Prod.mk.injEq] at h
        obtain ⟨rfl, rfl⟩ := h
        exact ⟨⟨by omega, by simp only [hge, if_false]; exact ⟨s, rfl, hs⟩⟩, SameTables.refl _, rfl⟩
      · simp [throw, throwThe, MonadExceptOf.throw] at h
  · -- const
    obtain ⟨⟨t, a, o⟩, hf, h⟩ := bind_ok h
    simp only [pure, Except.pure, Except.ok.injEq, Prod.mk.injEq] at h
    obtain ⟨rfl, rfl⟩ := h
    obtain ⟨h0, h1, h2⟩ := foundIndex_int _ _ _ _ _ _ hf
    exact ⟨⟨h0, a, o, rfl, h1⟩, ⟨rfl, rfl, rfl, h2⟩, rfl⟩
  all_goals
    simp only [pure, Except.pure, Except.ok.injEq, Prod.mk.injEq] at h
    obtain ⟨rfl, rfl⟩ := h
    exact ⟨rfl, SameTables.refl _, rfl⟩

/-- lifted to the whole instruction list: one decoded instruction per raw instruction, same opcode, same first offset,
    operand resolved as CPython resolves it against the code object's own tables -/
theorem decodeInstrs_ok (v : Ver) (T : OpTable) (fv : List PStr) : ∀ (raws : List RawI) (st st' : DecSt) (ois : List (Nat × Instr)),
    decodeInstrs v T fv st raws = .ok (st', ois) →
    SameTables st st' ∧ ois.length = raws.length ∧
    ∀ (j : Nat) (r : RawI), raws[j]? = some r → ∃ ins, ois[j]? = some (r.first, ins) ∧ ins.op = r.op ∧
      OperandOK v T st.names.args st.varnames.args fv st.cellvars.args st.consts.args r ins.arg := by
  intro raws
  induction raws with
  | nil =>
    intro st st' ois h
    simp only [decodeInstrs, pure, Except.pure, Except.ok.injEq, Prod.mk.injEq] at h
    obtain ⟨rfl, rfl⟩ := h
    exact ⟨SameTables.refl _, rfl, fun j r hr => by simp at hr⟩
  | cons r0 raws ih =>
    intro st st' ois h
    rw [decodeInstrs] at h
    obtain ⟨⟨st1, arg⟩, h1, h⟩ := bind_ok h
    obtain ⟨⟨lm, line, offs⟩, h2, h⟩ := bind_ok h
    obtain ⟨⟨st2, r⟩, h3, h⟩ := bind_ok h
    simp only [pure, Except.pure, Except.ok.injEq, Prod.mk.injEq] at h
    obtain ⟨rfl, rfl⟩ := h
    obtain ⟨hop, hsame, _⟩ := toArg_ok v T fv st st1 r0 arg h1
    obtain ⟨hsame2, hlen, hall⟩ := ih _ _ _ h3
    have hsame1' : SameTables st { st1 with lm := lm } := ⟨hsame.names, hsame.varnames, hsame.cellvars, hsame.consts⟩
    refine ⟨SameTables.trans hsame1' hsame2, by simp [hlen], ?_⟩
    intro j rj hj
    cases j with
    | zero =>
      simp only [List.getElem?_cons_zero, Option.some.injEq] at hj
      subst hj
      exact ⟨_, rfl, rfl, hop⟩
    | succ j =>
      simp only [List.getElem?_cons_succ] at hj ⊢
      obtain ⟨ins, h1', h2', h3'⟩ := hall j rj hj
      refine ⟨ins, h1', h2', ?_⟩
      simpa only [hsame.names, hsame.varnames, hsame.cellvars, hsame.consts] using h3'

end CDV
