import CDV.Schema
/-! The executable validator is sound for the validity relation. -/
namespace CDV

theorem validateB_sound (defs : List (String × Schema)) : ∀ (n : Nat) (s : Schema) (j : Json), validateB defs n s j = true → Valid defs s j := by
  intro n
  induction n with
  | zero => intro s j h; simp [validateB] at h
  | succ n ih =>
    intro s j h
    cases s with
    | ref name =>
      simp only [validateB] at h
      cases hl : defs.lookup name with
      | none => rw [hl] at h; cases h
      | some s' => rw [hl] at h; exact Valid.ref hl (ih s' j h)
    | anyOf alts =>
      simp only [validateB, List.any_eq_true] at h
      obtain ⟨s', hm, hv⟩ := h
      exact Valid.anyOf hm (ih s' j hv)
    | node ty enum req props items =>
      simp only [validateB, Bool.and_eq_true] at h
      obtain ⟨⟨⟨h1, h2⟩, h3⟩, h4⟩ := h
      apply Valid.node h1 h2
      · intro kvs hj r hr
        subst hj
        simp only [Bool.and_eq_true, List.all_eq_true] at h3
        exact h3.1 r hr
      · intro kvs hj k sc v hm hg
        subst hj
        simp only [Bool.and_eq_true, List.all_eq_true] at h3
        have := h3.2 (k, sc) hm
        simp only [hg] at this
        exact ih sc v this
      · intro xs sc hj hi x hx
        subst hj; subst hi
        simp only [List.all_eq_true] at h4
        exact ih sc x (h4 x hx)

theorem validate_sound (defs : List (String × Schema)) (root : Schema) (j : Json) (h : validate defs root j = true) : Valid defs root j :=
  validateB_sound defs 200 root j h

end CDV
