import CDVProofs.Header
import CDVProofs.Args
import CDVProofs.DecodeTop
/-! # The decoded `type` field: signature, docstring and kind of a function-like code object (C04, assembled) -/
namespace CDV
open CDV

/-- the first constant when it is a string: what CPython exposes as `__doc__` of a function built from the code -/
def firstStr : List Const → Option PStr
  | .inner (.str s) :: _ => some s
  | _ => none

/-- a flag word on which `to_flags_data` succeeds has only named bits: membership in the decoded set is the bit -/
theorem toFlags_mem_iff (F : FlagTable) (w : Nat) (s : List Nat) (h : toFlags F w = .ok s) (i : Nat) :
    i ∈ s ↔ w.testBit i = true := by
  rw [toFlags_mem F w s h i]
  constructor
  · intro hh; exact hh.2
  · intro hb
    refine ⟨?_, hb⟩
    apply Classical.byContradiction
    intro hk
    have := toFlags_unknown_raises F w i hb hk
    rw [h] at this
    cases this

/-- `Function`-or-`None` inference, with the docstring and the parameters it stores -/
theorem headerType_fn (fl4 : List Nat) (args : Args) (c : List Const) (f : Function) (f5 : List Nat)
    (h : headerType fl4 args c = .ok (some f, f5)) :
    f.args = args ∧ f.doc = firstStr c := by
  unfold headerType at h
  dsimp only at h
  have e1 : ((1 + 1 : Nat) == 0) = false := rfl
  have e2 : ((1 + 1 : Nat) == 2) = true := rfl
  have e3 : ((1 + 0 : Nat) == 0) = false := rfl
  have e4 : ((1 + 0 : Nat) == 2) = false := rfl
  have e5 : ((0 + 1 : Nat) == 0) = false := rfl
  have e6 : ((0 + 1 : Nat) == 2) = false := rfl
  have e7 : ((0 + 0 : Nat) == 0) = true := rfl
  by_cases h1 : bNEWLOCALS ∈ fl4 <;> by_cases h0 : bOPTIMIZED ∈ fl4 <;>
    simp only [List.contains_iff_mem, h1, h0, if_true, if_false, e1, e2, e3, e4, e5, e6, e7, Bool.false_eq_true] at h
  · split at h
    · exact absurd h (throw_ne_ok _)
    · simp only [pure, Except.pure, Except.ok.injEq, Prod.mk.injEq, Option.some.injEq] at h
      obtain ⟨h1, _⟩ := h
      subst h1
      refine ⟨rfl, ?_⟩
      dsimp only
      unfold firstStr
      cases c with
      | nil => rfl
      | cons x t =>
        cases x with
        | inner i => cases i <;> rfl
        | code d => rfl
  · exact absurd h (throw_ne_ok _)
  · exact absurd h (throw_ne_ok _)
  · split at h
    · exact absurd h (throw_ne_ok _)
    · simp only [pure, Except.pure, Except.ok.injEq, Prod.mk.injEq] at h
      exact absurd h.1 (by simp)

/-- membership of a bit in the flags left when `headerType` is reached -/
theorem mem_f4 (F : FlagTable) (S : List Nat) (b : Nat) (h2 : b ≠ bVARARGS) (h3 : b ≠ bVARKEYWORDS) (h6 : b ≠ bNOFREE)
    (h4 : b ≠ bNESTED) (hA : b ≠ F.annotations) :
    b ∈ ((((S.filter (fun b => b != bVARARGS && b != bVARKEYWORDS)).filter (· != bNOFREE)).filter (· != F.annotations)).filter (· != bNESTED)) ↔ b ∈ S := by
  simp only [List.mem_filter, bne_iff_ne, ne_eq, Bool.and_eq_true, decide_eq_true_eq]
  constructor
  · intro hh; exact hh.1.1.1.1
  · intro hh; exact ⟨⟨⟨⟨hh, h2, h3⟩, h6⟩, hA⟩, h4⟩

theorem ftype_iff (ft : Option FnType) (fl4 : List Nat)
    (h : ftypeBits ft = [bASYNC_GENERATOR, bCOROUTINE, bGENERATOR].filter fl4.contains) :
    (ft = some .generator ↔ bGENERATOR ∈ fl4) ∧ (ft = some .coroutine ↔ bCOROUTINE ∈ fl4) ∧
    (ft = some .asyncGenerator ↔ bASYNC_GENERATOR ∈ fl4) := by
  have hm : ∀ x, x ∈ ftypeBits ft ↔ (x = bASYNC_GENERATOR ∨ x = bCOROUTINE ∨ x = bGENERATOR) ∧ x ∈ fl4 := by
    intro x
    rw [h, List.mem_filter, List.contains_iff_mem]
    simp
  have g := hm bGENERATOR
  have c := hm bCOROUTINE
  have a := hm bASYNC_GENERATOR
  have d1 : bGENERATOR ≠ bCOROUTINE := by decide
  have d2 : bGENERATOR ≠ bASYNC_GENERATOR := by decide
  have d3 : bCOROUTINE ≠ bASYNC_GENERATOR := by decide
  cases ft with
  | none =>
    simp only [ftypeBits, List.not_mem_nil, false_iff, not_and] at g c a
    refine ⟨⟨fun h => (by cases h), fun h => absurd h (g (by simp))⟩, ⟨fun h => (by cases h), fun h => absurd h (c (by simp))⟩,
      ⟨fun h => (by cases h), fun h => absurd h (a (by simp))⟩⟩
  | some t =>
    cases t
    · simp only [ftypeBits, List.mem_singleton, true_or, or_true, true_and, d1, d2, d3, d1.symm, d2.symm, d3.symm, false_iff, false_or, or_false, false_and] at g c a
      exact ⟨⟨fun _ => g.mp trivial, fun _ => rfl⟩, ⟨fun h => (by cases h), fun h => absurd h c⟩, ⟨fun h => (by cases h), fun h => absurd h a⟩⟩
    · simp only [ftypeBits, List.mem_singleton, true_or, or_true, true_and, d1, d2, d3, d1.symm, d2.symm, d3.symm, false_iff, false_or, or_false, false_and] at g c a
      exact ⟨⟨fun h => (by cases h), fun h => absurd h g⟩, ⟨fun _ => c.mp trivial, fun _ => rfl⟩, ⟨fun h => (by cases h), fun h => absurd h a⟩⟩
    · simp only [ftypeBits, List.mem_singleton, true_or, or_true, true_and, d1, d2, d3, d1.symm, d2.symm, d3.symm, false_iff, false_or, or_false, false_and] at g c a
      exact ⟨⟨fun h => (by cases h), fun h => absurd h g⟩, ⟨fun h => (by cases h), fun h => absurd h c⟩, ⟨fun _ => a.mp trivial, fun _ => rfl⟩⟩

/-- `len(args)` is the number of parameters of the signature when the names are distinct -/
theorem len_eq_parameters (a : Args) (sig : List (PStr × Kind)) (hraw : a.parametersRaw = sig) (hnodup : (sig.map Prod.fst).Nodup) :
    a.len = sig.length := by
  have hn : sig.map Prod.fst = a.posOnly ++ a.posOrKw ++ optName a.varPos ++ a.kwOnly ++ optName a.varKw := by
    rw [← hraw, Args.parametersRaw]
    simp only [List.map_append, List.map_map]
    have e : ∀ (k : Kind) (l : List PStr), List.map (Prod.fst ∘ fun x => (x, k)) l = l := by
      intro k l; induction l with | nil => rfl | cons x xs ih => simp [ih]
    simp only [e]
  unfold Args.len Args.paramNames
  rw [← hn, dedupKeep_nodup _ [] (by simpa using hnodup)]
  simp

/-- **The header part of `from_code`, read against CPython's calling convention.** -/
theorem decodeHeader_function (v : Ver) (F : FlagTable) (argc pos kw fl : Nat) (varnames freevars cellvars : List PStr) (constants : List Const)
    (tp : Option Function) (ann nested : Bool) (args : Args)
    (hA : F.annotations ∉ [bOPTIMIZED, bNEWLOCALS, bVARARGS, bVARKEYWORDS, bNESTED, bGENERATOR, bNOFREE, bCOROUTINE, bASYNC_GENERATOR])
    (h : decodeHeader v F argc pos kw fl varnames freevars cellvars constants = .ok (tp, ann, nested, args))
    (hlen : argc + kw + (if fl.testBit bVARARGS then 1 else 0) + (if fl.testBit bVARKEYWORDS then 1 else 0) ≤ varnames.length)
    (hnodup : ((Spec.sigCore argc (if v.hasPosOnly then pos else 0) kw varnames (fl.testBit bVARARGS) (fl.testBit bVARKEYWORDS)).map Prod.fst).Nodup) :
    args.parameters = Spec.sigCore argc (if v.hasPosOnly then pos else 0) kw varnames (fl.testBit bVARARGS) (fl.testBit bVARKEYWORDS) ∧
    args.len = (Spec.sigCore argc (if v.hasPosOnly then pos else 0) kw varnames (fl.testBit bVARARGS) (fl.testBit bVARKEYWORDS)).length ∧
    (tp = none → fl.testBit bNEWLOCALS = false ∧ fl.testBit bOPTIMIZED = false ∧ args.len = 0) ∧
    (∀ f, tp = some f → fl.testBit bNEWLOCALS = true ∧ fl.testBit bOPTIMIZED = true ∧ f.args = args ∧ f.doc = firstStr constants ∧
      (f.ftype = some .generator ↔ fl.testBit bGENERATOR = true) ∧ (f.ftype = some .coroutine ↔ fl.testBit bCOROUTINE = true) ∧
      (f.ftype = some .asyncGenerator ↔ fl.testBit bASYNC_GENERATOR = true)) := by
  unfold decodeHeader at h
  obtain ⟨S, hS, h⟩ := bind_ok h
  obtain ⟨a, hargs, h⟩ := bind_ok h
  dsimp only at h
  split at h
  · exact absurd h (throw_ne_ok _)
  obtain ⟨⟨tp', f5⟩, htp, h⟩ := bind_ok h
  dsimp only at h
  split at h
  · exact absurd h (throw_ne_ok _)
  simp only [pure, Except.pure, Except.ok.injEq, Prod.mk.injEq] at h
  obtain ⟨rfl, _, _, rfl⟩ := h
  have hmem := toFlags_mem_iff F fl S hS
  have hva : S.contains bVARARGS = fl.testBit bVARARGS := by
    cases hb : fl.testBit bVARARGS
    · cases hc : S.contains bVARARGS
      · rfl
      · rw [List.contains_iff_mem, hmem, hb] at hc; cases hc
    · rw [List.contains_iff_mem, hmem]; exact hb
  have hvk : S.contains bVARKEYWORDS = fl.testBit bVARKEYWORDS := by
    cases hb : fl.testBit bVARKEYWORDS
    · cases hc : S.contains bVARKEYWORDS
      · rfl
      · rw [List.contains_iff_mem, hmem, hb] at hc; cases hc
    · rw [List.contains_iff_mem, hmem]; exact hb
  rw [hva, hvk] at hargs
  obtain ⟨hle, _⟩ := argsFromInput_fields _ _ _ _ _ _ _ hargs
  obtain ⟨a', ha', hraw⟩ := argsFromInput_raw argc (if v.hasPosOnly then pos else 0) kw varnames (fl.testBit bVARARGS) (fl.testBit bVARKEYWORDS) hle hlen
  rw [hargs] at ha'
  cases ha'
  have hpar : a.parameters = Spec.sigCore argc (if v.hasPosOnly then pos else 0) kw varnames (fl.testBit bVARARGS) (fl.testBit bVARKEYWORDS) := by
    rw [Args.parameters, hraw]
    exact odict_nodup _ hnodup
  simp only [List.mem_cons, List.not_mem_nil, or_false, not_or] at hA
  obtain ⟨a0, a1, a2, a3, a4, a5, a6, a7, a9⟩ := hA
  have m4 := fun b h2 h3 h6 h4 hAb => mem_f4 F S b h2 h3 h6 h4 hAb
  refine ⟨hpar, len_eq_parameters a _ hraw hnodup, ?_, ?_⟩
  · intro hnone
    subst hnone
    rcases headerType_spec _ _ _ _ _ htp with ⟨_, hn1, hn0, hl, _⟩ | ⟨doc, ft, hcon, _⟩
    · rw [m4 bNEWLOCALS (by decide) (by decide) (by decide) (by decide) (Ne.symm a1), hmem] at hn1
      rw [m4 bOPTIMIZED (by decide) (by decide) (by decide) (by decide) (Ne.symm a0), hmem] at hn0
      exact ⟨by simpa using hn1, by simpa using hn0, hl⟩
    · cases hcon
  · intro f hf
    subst hf
    obtain ⟨hfa, hfd⟩ := headerType_fn _ _ _ _ _ htp
    rcases headerType_spec _ _ _ _ _ htp with ⟨hcon, _⟩ | ⟨doc, ft, hcon, hn1, hn0, _, hbits, _⟩
    · cases hcon
    · rw [m4 bNEWLOCALS (by decide) (by decide) (by decide) (by decide) (Ne.symm a1), hmem] at hn1
      rw [m4 bOPTIMIZED (by decide) (by decide) (by decide) (by decide) (Ne.symm a0), hmem] at hn0
      obtain ⟨g, c, ag⟩ := ftype_iff ft _ hbits
      rw [m4 bGENERATOR (by decide) (by decide) (by decide) (by decide) (Ne.symm a5), hmem] at g
      rw [m4 bCOROUTINE (by decide) (by decide) (by decide) (by decide) (Ne.symm a7), hmem] at c
      rw [m4 bASYNC_GENERATOR (by decide) (by decide) (by decide) (by decide) (Ne.symm a9), hmem] at ag
      simp only [Option.some.injEq] at hcon
      subst hcon
      exact ⟨hn1, hn0, hfa, hfd, g, c, ag⟩

end CDV
