import CDV.Decode
/-! flag words ↔ flag sets (helper lemmas for C11) -/
namespace CDV

theorem testBit_fromFlags (bits : List Nat) (i : Nat) : (fromFlags bits).testBit i = decide (i ∈ bits) := by
  unfold fromFlags
  suffices h : ∀ acc, (bits.foldl (fun a b => a ||| (1 <<< b)) acc).testBit i = (acc.testBit i || decide (i ∈ bits)) by
    simpa using h 0
  induction bits with
  | nil => intro acc; simp
  | cons b bs ih =>
    intro acc
    simp only [List.foldl_cons, ih, Nat.testBit_or, List.mem_cons]
    have : (1 <<< b).testBit i = decide (b = i) := by
      rw [Nat.one_shiftLeft, Nat.testBit_two_pow]
    rw [this]
    by_cases h : i = b <;> simp [h, eq_comm, Bool.or_assoc]

theorem toFlags_roundtrip (F : FlagTable) (w : Nat) (s : List Nat) (h : toFlags F w = .ok s) :
    fromFlags s = w := by
  unfold toFlags at h
  split at h
  · rename_i hw
    cases h
    apply Nat.eq_of_testBit_eq
    intro i
    rw [testBit_fromFlags]
    have hb : w.testBit i = ((w &&& fromFlags F.known).testBit i) := by rw [hw]
    rw [Nat.testBit_and, testBit_fromFlags] at hb
    by_cases hk : i ∈ F.known <;> by_cases hwi : w.testBit i <;> simp_all
  · cases h

theorem toFlags_unknown_raises (F : FlagTable) (w : Nat) (i : Nat) (hi : w.testBit i = true) (hk : i ∉ F.known) :
    toFlags F w = .error .raised := by
  unfold toFlags
  split
  · rename_i hw
    have : (w &&& fromFlags F.known).testBit i = w.testBit i := by rw [hw]
    rw [Nat.testBit_and, testBit_fromFlags] at this
    simp_all
  · rfl

theorem toFlags_known_ok (F : FlagTable) (w : Nat) (h : ∀ i, w.testBit i = true → i ∈ F.known) :
    ∃ s, toFlags F w = .ok s := by
  unfold toFlags
  have : w &&& fromFlags F.known = w := by
    apply Nat.eq_of_testBit_eq
    intro i
    rw [Nat.testBit_and, testBit_fromFlags]
    by_cases hwi : w.testBit i
    · simp [hwi, h i hwi]
    · simp [hwi]
  simp [this]
  exact ⟨_, rfl⟩

/-- `to_flags_data` names exactly the set bits -/
theorem toFlags_mem (F : FlagTable) (w : Nat) (s : List Nat) (h : toFlags F w = .ok s) (i : Nat) :
    i ∈ s ↔ (i ∈ F.known ∧ w.testBit i = true) := by
  unfold toFlags at h
  split at h
  · cases h; simp
  · cases h

end CDV
