import CDVProofs.EncodeSpec
/-! # The encode-side theorem for data that carries an additional line (`_additional_line`) -/
namespace CDV
open CDV.LT

theorem setAssoc_unitsAt (x : Option Int) : ∀ (L : List (Option Int)) (off : Nat),
    LT.setAssoc (off + 2 * L.length) x (unitsAt L off) = unitsAt (L ++ [x]) off := by
  intro L
  induction L with
  | nil => intro off; simp [unitsAt, LT.setAssoc]
  | cons l L ih =>
    intro off
    simp only [unitsAt, List.length_cons, LT.setAssoc, List.cons_append]
    rw [if_neg (by omega)]
    have := ih (off + 2)
    rw [show off + 2 + 2 * L.length = off + 2 * (L.length + 1) by omega] at this
    rw [this]

theorem unitLines_length : ∀ (is : List Instr) (as : List Int), is.length = as.length →
    (unitLines is as).length = ((is.zip as).map (fun p => sizeOfI p.1.nov p.2)).sum := by
  intro is
  induction is with
  | nil => intro as _; simp [unitLines]
  | cons i is ih =>
    intro as hl
    cases as with
    | nil => simp at hl
    | cons a as =>
      simp only [List.length_cons, Nat.add_right_cancel_iff] at hl
      simp [unitLines, ih as hl]

/-- 3.10, with an optional trailing entry after the last instruction -/
theorem encode_lines_310_tail (is : List Instr) (as : List Int) (fln : Int) (extra : List (Nat × List Int)) (tail : List (Option Int))
    (hl : is.length = as.length) (hne : is ≠ []) :
    ∃ table, LT.fromLineMapping true ⟨unitsAt ((unitLines is as ++ tail).map (fun l => l.map (· - fln))) 0, extra⟩ = .ok table ∧
      ∀ (j : Nat) (i : Instr), is[j]? = some i → Spec.lineOf .v310 table fln (2 * psum (szs is as) 0 j) = i.line := by
  have hne' : (unitLines is as ++ tail).map (fun l => l.map (· - fln)) ≠ [] := by
    cases is with
    | nil => exact absurd rfl hne
    | cons i is =>
      cases as with
      | nil => simp at hl
      | cons a as =>
        have := sizeOfI_pos i.nov a
        simp only [unitLines, List.map_append, List.map_replicate, ne_eq, List.append_eq_nil_iff, List.replicate_eq_nil_iff, not_and]
        omega
  obtain ⟨l0, ls, hls⟩ := List.exists_cons_of_ne_nil hne'
  rw [hls]
  obtain ⟨table, ht, hall⟩ := LT.encoded_lines_310 l0 ls extra
  refine ⟨table, ht, ?_⟩
  intro j i hi
  have hget := unitLines_get is as j i hl hi
  have hlt : psum (szs is as) 0 j < (unitLines is as).length := (List.getElem?_eq_some_iff.mp hget).1
  have : (l0 :: ls)[psum (szs is as) 0 j]? = some (i.line.map (· - fln)) := by
    rw [← hls, List.getElem?_map, List.getElem?_append_left hlt, hget]; rfl
  have := hall _ _ this
  simp only [Spec.lineOf, Ver.is310, if_true, this, Option.map_map]
  cases i.line <;> simp

/-- `co_lnotab`, with an optional trailing entry after the last instruction (every line, also the trailing one, must be
    present: `None` cannot be written) -/
theorem encode_lines_lnotab_tail (v : Ver) (hv : v.is310 = false) (is : List Instr) (as : List Int) (fln : Int) (extra : List (Nat × List Int))
    (tail : List Int) (hl : is.length = as.length) (hsome : ∀ i ∈ is, i.line.isSome) :
    ∃ table, LT.fromLineMapping false ⟨unitsAt ((unitLines is as ++ tail.map some).map (fun l => l.map (· - fln))) 0, extra⟩ = .ok table ∧
      ∀ (j : Nat) (i : Instr), is[j]? = some i → Spec.lineOf v table fln (2 * psum (szs is as) 0 j) = i.line := by
  have hall : ∀ (is : List Instr) (as : List Int), (∀ i ∈ is, i.line.isSome) →
      ∃ ls : List Int, (unitLines is as).map (fun l => l.map (· - fln)) = ls.map some := by
    intro is
    induction is with
    | nil => intro as _; exact ⟨[], by simp [unitLines]⟩
    | cons i is ih =>
      intro as h
      cases as with
      | nil => exact ⟨[], by simp [unitLines]⟩
      | cons a as =>
        obtain ⟨ls, hls⟩ := ih as (fun x hx => h x (by simp [hx]))
        have hi := h i (by simp)
        cases hline : i.line with
        | none => simp [hline] at hi
        | some l =>
          refine ⟨List.replicate (sizeOfI i.nov a) (l - fln) ++ ls, ?_⟩
          simp only [unitLines, List.map_append, hls, hline, List.map_replicate, Option.map_some]
  obtain ⟨ls, hls⟩ := hall is as hsome
  have hfull : (unitLines is as ++ tail.map some).map (fun l => l.map (· - fln)) = (ls ++ tail.map (· - fln)).map some := by
    rw [List.map_append, hls, List.map_append, List.map_map, List.map_map]
    rfl
  rw [hfull]
  obtain ⟨table, ht, hat⟩ := LT.encoded_lines_lnotab (ls ++ tail.map (· - fln)) extra
  refine ⟨table, ht, ?_⟩
  intro j i hi
  have hget := unitLines_get is as j i hl hi
  have hlt : psum (szs is as) 0 j < (unitLines is as).length := (List.getElem?_eq_some_iff.mp hget).1
  have hlen : ls.length = (unitLines is as).length := by
    have := congrArg List.length hls
    simpa using this.symm
  have hi' := hsome i (List.mem_of_getElem? hi)
  cases hline : i.line with
  | none => simp [hline] at hi'
  | some l =>
    have : (ls ++ tail.map (· - fln))[psum (szs is as) 0 j]? = some (l - fln) := by
      rw [List.getElem?_append_left (by omega)]
      have h2 : (ls.map some)[psum (szs is as) 0 j]? = some (some (l - fln)) := by
        rw [← hls, List.getElem?_map, hget, hline]; rfl
      rw [List.getElem?_map] at h2
      cases hx : ls[psum (szs is as) 0 j]? with
      | none => simp [hx] at h2
      | some x => simp [hx] at h2; rw [h2]
    have := hat _ _ this
    simp only [Spec.lineOf, hv, Bool.false_eq_true, if_false, this]
    congr 1; omega

/-- the line of every instruction in the table `to_code()` writes, with or without an additional line -/
theorem lines_all_al (v : Ver) (flat : List Instr) (args : List Int) (fln : Int) (out : BlocksOut) (addLine : Option AdditionalLine)
    (table : List Nat) (hl' : flat.length = args.length) (hne : flat ≠ [])
    (hcode : out.code = (emit flat args 0).1) (hlm : out.lm = ⟨(emit flat args 0).2.1, (emit flat args 0).2.2⟩)
    (htable : LT.fromLineMapping v.is310 (finalLineMap out addLine fln) = .ok table)
    (hlines : v.is310 = false → ∀ ins ∈ flat, ins.line.isSome)
    (hal : v.is310 = false → ∀ a, addLine = some a → a.line.isSome) :
    ∀ (j : Nat) (ins : Instr), flat[j]? = some ins → Spec.lineOf v table fln (2 * psum (szs flat args) 0 j) = ins.line := by
  -- the mapping handed to `from_line_mapping`, as unit lines with an optional trailing unit
  have hn : out.code.length = 0 + 2 * (unitLines flat args).length := by
    rw [hcode, emit_length flat args 0 hl', unitLines_length flat args hl']; omega
  have hfm : ∃ (tail : List (Option Int)) (extra : List (Nat × List Int)),
      finalLineMap out addLine fln = ⟨unitsAt ((unitLines flat args ++ tail).map (fun l => l.map (· - fln))) 0, extra⟩ ∧
      (tail = [] ∨ ∃ a, addLine = some a ∧ tail = [a.line]) := by
    cases addLine with
    | none =>
      refine ⟨[], out.lm.extra, ?_, Or.inl rfl⟩
      simp only [finalLineMap, hlm, emit_lines, List.append_nil]
      rw [← unitsAt_map (fun l => l.map (· - fln))]
    | some a =>
      refine ⟨[a.line], LT.setAssoc out.code.length a.offs out.lm.extra, ?_, Or.inr ⟨a, rfl, rfl⟩⟩
      simp only [finalLineMap, hlm, emit_lines]
      rw [hn, setAssoc_unitsAt a.line (unitLines flat args) 0, ← unitsAt_map (fun l => l.map (· - fln))]
  obtain ⟨tail, extra, hfm, htail⟩ := hfm
  rw [hfm] at htable
  cases hv : v.is310 with
  | true =>
    have hv' : v = .v310 := by cases v <;> simp [Ver.is310] at hv ⊢
    subst hv'
    obtain ⟨table', ht', hall⟩ := encode_lines_310_tail flat args fln extra tail hl' hne
    have : table' = table := by
      have e : LT.fromLineMapping true ⟨unitsAt ((unitLines flat args ++ tail).map (fun l => l.map (· - fln))) 0, extra⟩ = .ok table := htable
      rw [ht'] at e; simpa using e
    subst this
    exact hall
  | false =>
    -- the trailing line, if any, is present
    obtain ⟨tl, htl⟩ : ∃ tl : List Int, tail = tl.map some := by
      rcases htail with rfl | ⟨a, ha, rfl⟩
      · exact ⟨[], rfl⟩
      · obtain ⟨l, hl⟩ := Option.isSome_iff_exists.mp (hal hv a ha)
        exact ⟨[l], by simp [hl]⟩
    subst htl
    obtain ⟨table', ht', hall⟩ := encode_lines_lnotab_tail v hv flat args fln extra tl hl' (hlines hv)
    have : table' = table := by
      have e : LT.fromLineMapping v.is310 ⟨unitsAt ((unitLines flat args ++ tl.map some).map (fun l => l.map (· - fln))) 0, extra⟩ = .ok table := htable
      rw [hv, ht'] at e; simpa using e
    subst this
    exact hall

/-- **`to_code` says what the data says, also for data with an additional line.**  As `encode_reads_like_data`, for the
    table `from_code_data` really writes (`finalLineMap`): the optional `_additional_line` adds an entry after the last
    instruction and does not disturb the line of any instruction. -/
theorem encode_reads_like_data_al (v : Ver) (T : OpTable) (blocks : List (List Instr)) (addArgs : List Arg) (fv : List PStr)
    (tp : Option Function) (out : BlocksOut) (h : blocksToBytes v blocks addArgs fv tp = .ok out)
    (enc : CodeData → R RawCode) (consts' : List RConst)
    (hconsts : out.consts.mapM (fun c => match c with | .inner i => pure (RConst.inner i) | .code d => RConst.code <$> enc d) = .ok consts')
    (fln : Int) (table : List Nat) (addLine : Option AdditionalLine)
    (htable : LT.fromLineMapping v.is310 (finalLineMap out addLine fln) = .ok table)
    (argc pos kw nl ss fl : Nat) (fname name : PStr)
    (hkind : ∀ ins ∈ blocks.flatten, KindOK T ins) (hopb : ∀ ins ∈ blocks.flatten, ins.op < 256)
    (henc : ∀ args, finalArgs v blocks addArgs fv tp = .ok args → ∀ p ∈ blocks.flatten.zip args, Encodable p.1 p.2)
    (hst : ∀ s ∈ blockStarts blocks 0, s < blocks.flatten.length) (hne : blocks.flatten ≠ [])
    (hlines : v.is310 = false → ∀ ins ∈ blocks.flatten, ins.line.isSome)
    (hal : v.is310 = false → ∀ a, addLine = some a → a.line.isSome) :
    (Spec.read v T (.mk argc pos kw nl ss fl fln out.code table fname name out.names out.varnames fv out.cellvars consts')).length
      = blocks.flatten.length ∧
    ∀ (j : Nat) (ins : Instr) (s : Spec.SInstr), blocks.flatten[j]? = some ins →
      (Spec.read v T (.mk argc pos kw nl ss fl fln out.code table fname name out.names out.varnames fv out.cellvars consts'))[j]? = some s →
      s.op = ins.op ∧ s.line = ins.line ∧ ArgSays (blockStarts blocks 0) out.consts ins.arg s.arg := by
  obtain ⟨args0, args, fuel, hal0, hrelax, hcode, hlm, hlen, hops, hfree, hraw, hfinal⟩ := blocksToBytes_spec' v blocks addArgs fv tp out h
  have hencA := henc args hfinal
  have hl' : blocks.flatten.length = args.length := hlen.symm
  rw [read_eq, hcode, read_emit blocks.flatten args hl' hencA hopb]
  -- offsets CPython sees
  have hoffs : ((rawsOf blocks.flatten args 0).map RawI.proj).map (·.1) = (rawsOf blocks.flatten args 0).map (·.first) := by
    rw [List.map_map]; rfl
  obtain ⟨hcl, hcget⟩ := mapM_get _ out.consts consts' hconsts
  have hconstrel : ∀ (k : Nat) (c : Const), out.consts[k]? = some c →
      match c with | .inner i => consts'[k]? = some (.inner i) | .code _ => ∃ r, consts'[k]? = some (.code r) := by
    intro k c hk
    obtain ⟨b, hb1, hb2⟩ := hcget k c hk
    cases c with
    | inner i => simp only [pure, Except.pure, Except.ok.injEq] at hb2; rw [hb1, ← hb2]
    | code d =>
      simp only [Functor.map, Except.map] at hb2
      cases hdk : enc d with
      | error e => rw [hdk] at hb2; cases hb2
      | ok r => rw [hdk] at hb2; simp only [Except.ok.injEq] at hb2; exact ⟨r, by rw [hb1, ← hb2]⟩
  -- jumps: where CPython lands
  have hland := jumps_land v blocks.flatten (blockStarts blocks 0) fuel args0 args hal0 hrelax hencA hopb hst
  rw [read_emit blocks.flatten args hl' hencA hopb] at hland
  obtain ⟨hrdlen, hjumps⟩ := hland
  -- the line table
  have hlinesAll : ∀ (j : Nat) (ins : Instr), blocks.flatten[j]? = some ins →
      Spec.lineOf v table fln (2 * psum (szs blocks.flatten args) 0 j) = ins.line :=
    lines_all_al v blocks.flatten args fln out addLine table hl' hne hcode hlm htable hlines hal
  refine ⟨by rw [List.length_map, List.length_map, rawsOf_length _ _ _ hl'], ?_⟩
  intro j ins s hi hs
  have hj : j < blocks.flatten.length := (List.getElem?_eq_some_iff.mp hi).1
  have haj : args[j]? = some (args[j]'(by omega)) := List.getElem?_eq_getElem (by omega)
  have hraw' := rawsOf_get blocks.flatten args 0 j ins _ hl' hi haj
  rw [List.getElem?_map, List.getElem?_map, hraw'] at hs
  simp only [Option.map_some, Option.some.injEq] at hs
  subst hs
  simp only [RawI.proj, Nat.zero_add]
  refine ⟨trivial, hlinesAll j ins hi, ?_⟩
  apply argSays_of_tables v T _ (blockStarts blocks 0) fv out consts' ins _ _ (hkind ins (List.mem_of_getElem? hi))
    (hops j ins _ hi haj) (fun s hs => hfree j ins s _ hi hs haj) hconstrel
  · intro t rel hia
    obtain ⟨s, first, arg, nxt, hs1, hs2, hs3⟩ := hjumps j ins t rel hi hia
    rw [List.getElem?_map, hraw'] at hs2
    simp only [Option.map_some, Option.some.injEq, RawI.proj, Prod.mk.injEq, Nat.zero_add] at hs2
    obtain ⟨rfl, _, rfl, rfl⟩ := hs2
    exact ⟨s, hs1, hs3⟩
  · intro n hia
    exact hraw j ins n _ hi hia haj


end CDV
