import CDVProofs.EncodeWF
import CDVProofs.EncodeSpecAL
/-! The line table `to_code()` really writes (`finalLineMap`: with or without `_additional_line`) is well-formed for the reader. -/
namespace CDV
open LT

theorem table_wellformed_al (v : Ver) (flat : List Instr) (args : List Int) (fln : Int) (out : BlocksOut) (addLine : Option AdditionalLine)
    (table : List Nat) (hl' : flat.length = args.length) (hne : flat ≠ [])
    (hcode : out.code = (emit flat args 0).1) (hlm : out.lm = ⟨(emit flat args 0).2.1, (emit flat args 0).2.2⟩)
    (htable : LT.fromLineMapping v.is310 (finalLineMap out addLine fln) = .ok table)
    (hlines : v.is310 = false → ∀ ins ∈ flat, ins.line.isSome)
    (hal : v.is310 = false → ∀ a, addLine = some a → a.line.isSome) :
    table.length % 2 = 0 ∧ (∀ x ∈ table, x < 256) ∧
    (v.is310 = true → ∀ x ∈ LT.bytesToItems table, x.bc % 2 = 0 ∧ x.bc ≠ 255) ∧
    (v.is310 = false → ∀ cs, LT.collapse false (LT.bytesToItems table) = some cs → ∀ c ∈ cs, c.bc % 2 = 0) := by
  have hn : out.code.length = 0 + 2 * (unitLines flat args).length := by
    rw [hcode, emit_length flat args 0 hl', unitLines_length flat args hl']; omega
  have hfm : ∃ (tail : List (Option Int)) (extra : List (Nat × List Int)),
      finalLineMap out addLine fln = ⟨unitsAt ((unitLines flat args ++ tail).map (fun l => l.map (· - fln))) 0, extra⟩ ∧
      (tail = [] ∨ ∃ a, addLine = some a ∧ tail = [a.line]) := by
    cases addLine with
    | none =>
      refine ⟨[], out.lm.extra, ?_, Or.inl rfl⟩
      simp only [finalLineMap, hlm, emit_lines, List.append_nil]
      rw [← unitsAt_map (fun l => l.map (· - fln))]
    | some a =>
      refine ⟨[a.line], LT.setAssoc out.code.length a.offs out.lm.extra, ?_, Or.inr ⟨a, rfl, rfl⟩⟩
      simp only [finalLineMap, hlm, emit_lines]
      rw [hn, setAssoc_unitsAt a.line (unitLines flat args) 0, ← unitsAt_map (fun l => l.map (· - fln))]
  obtain ⟨tail, extra, hfm, htail⟩ := hfm
  rw [hfm] at htable
  cases hv : v.is310 with
  | true =>
    rw [hv] at htable
    have hne' : (unitLines flat args ++ tail).map (fun l => l.map (· - fln)) ≠ [] := by
      cases flat with
      | nil => exact absurd rfl hne
      | cons i is =>
        cases args with
        | nil => simp at hl'
        | cons a as =>
          have := sizeOfI_pos i.nov a
          simp only [unitLines, List.map_append, List.map_replicate, ne_eq, List.append_eq_nil_iff, List.replicate_eq_nil_iff, not_and]
          omega
    obtain ⟨l0, ls, hls⟩ := List.exists_cons_of_ne_nil hne'
    rw [hls] at htable
    obtain ⟨h1, h2, h3⟩ := encoded_table_wellformed_310 l0 ls extra table htable
    exact ⟨h1, h2, fun _ => h3, fun h => (by cases h)⟩
  | false =>
    rw [hv] at htable
    obtain ⟨tl, htl⟩ : ∃ tl : List Int, tail = tl.map some := by
      rcases htail with rfl | ⟨a, ha, rfl⟩
      · exact ⟨[], rfl⟩
      · obtain ⟨l, hl⟩ := Option.isSome_iff_exists.mp (hal hv a ha)
        exact ⟨[l], by simp [hl]⟩
    subst htl
    obtain ⟨ls, hls⟩ := unitLines_some fln flat args (hlines hv)
    have e : (unitLines flat args ++ tl.map some).map (fun l => l.map (· - fln)) = (ls ++ tl.map (· - fln)).map some := by
      rw [List.map_append, hls]; simp [List.map_map, Function.comp_def]
    rw [e] at htable
    obtain ⟨h1, h2, h3⟩ := encoded_table_wellformed_lnotab (ls ++ tl.map (· - fln)) extra table htable
    exact ⟨h1, h2, fun h => (by cases h), fun _ => h3⟩

end CDV
