import CDVProofs.TablesTotal
/-! # Every header field and table of a code object survives `from_code` → `to_code` -/
namespace CDV
open CDV.LT (LMap)

theorem headerCounts_spec (tp : Option Function) (vn : List PStr) (a p k : Nat) (flags : List Nat)
    (h : headerCounts tp vn = .ok (a, p, k, flags)) :
    match tp with
    | none => a = 0 ∧ p = 0 ∧ k = 0 ∧ flags = []
    | some f => a = f.args.posOnly.length + f.args.posOrKw.length ∧ p = f.args.posOnly.length ∧ k = f.args.kwOnly.length ∧
        flags = [bNEWLOCALS, bOPTIMIZED] ++ ftypeBits f.ftype ++ (if (optName f.args.varPos).isEmpty then [] else [bVARARGS])
          ++ (if (optName f.args.varKw).isEmpty then [] else [bVARKEYWORDS]) := by
  unfold headerCounts at h
  cases tp with
  | none =>
    simp only [pure, Except.pure, Except.ok.injEq, Prod.mk.injEq] at h
    obtain ⟨rfl, rfl, rfl, rfl⟩ := h
    exact ⟨rfl, rfl, rfl, rfl⟩
  | some f =>
    dsimp only at h ⊢
    by_cases h1 : (f.args.paramNames.length != f.args.posOnly.length + f.args.posOrKw.length + f.args.kwOnly.length
        + (if f.args.varPos.isSome then 1 else 0) + (if f.args.varKw.isSome then 1 else 0)) = true
    · simp [h1, bind, Except.bind, throw, throwThe, MonadExceptOf.throw] at h
    · by_cases h2 : (vn.take f.args.varnameOrder.length != f.args.varnameOrder) = true
      · simp [h1, h2, bind, Except.bind, throw, throwThe, MonadExceptOf.throw, pure, Except.pure] at h
      · simp only [h1, h2, bind, Except.bind, pure, Except.pure, if_false, Bool.false_eq_true, Except.ok.injEq, Prod.mk.injEq] at h
        obtain ⟨rfl, rfl, rfl, rfl⟩ := h
        exact ⟨rfl, rfl, rfl, rfl⟩

theorem ite_append {α} (c : Bool) (l : List α) (b : α) : (if c = true then l ++ [b] else l) = l ++ (if c = true then [b] else []) := by
  cases c <;> simp

/-- the flag list `finishCode` builds is `flagsOut` -/
theorem finishCode_fields (v : Ver) (F : FlagTable) (out : BlocksOut) (consts : List RConst) (fname : PStr) (fln : Int) (name : PStr) (ss : Nat)
    (tp : Option Function) (fv : List PStr) (ann nested : Bool) (addLine : Option AdditionalLine) (c : RawCode)
    (h : finishCode v F out consts fname fln name ss tp fv ann nested addLine = .ok c) :
    ∃ a p k flags table, headerCounts tp out.varnames = .ok (a, p, k, flags) ∧
      c = .mk a p k out.varnames.length ss
        (fromFlags (flags ++ (if fv.isEmpty && out.cellvars.isEmpty then [bNOFREE] else []) ++ (if ann then [F.annotations] else []) ++ (if nested then [bNESTED] else [])))
        fln out.code table fname name out.names out.varnames fv out.cellvars consts := by
  unfold finishCode at h
  cases hh : headerCounts tp out.varnames with
  | error e => simp [hh, bind, Except.bind] at h
  | ok r =>
    obtain ⟨argc, pos, kw, flags⟩ := r
    cases ht : LT.fromLineMapping v.is310 (finalLineMap out addLine fln) with
    | error e => simp [hh, ht, bind, Except.bind] at h
    | ok table =>
      by_cases hc : (!v.hasPosOnly && pos != 0) = true
      · simp [hh, ht, hc, bind, Except.bind, throw, throwThe, MonadExceptOf.throw] at h
      · simp only [hh, ht, hc, bind, Except.bind, pure, Except.pure, if_false, Bool.false_eq_true, Except.ok.injEq] at h
        subst h
        refine ⟨argc, pos, kw, flags, table, rfl, ?_⟩
        congr 1
        cases hb1 : (fv.isEmpty && out.cellvars.isEmpty) <;> cases ann <;> cases nested <;> simp

/-- **Every field but the two byte strings.**  For every code object on which `from_code` succeeds (parameters: distinct
    names at the start of `co_varnames`; on 3.7 no positional-only count): whenever `to_code` returns for the decoded data,
    the code object it builds has the original `co_argcount`, `co_posonlyargcount`, `co_kwonlyargcount`, `co_nlocals`,
    `co_stacksize`, `co_flags`, `co_firstlineno`, `co_filename`, `co_name`, `co_names`, `co_varnames`, `co_freevars`,
    `co_cellvars`, and its `co_consts` are the re-encodings of the decodings of the original constants, entry by entry. -/
theorem decoded_fields_roundtrip (v : Ver) (T : OpTable) (F : FlagTable) (dec : RawCode → R CodeData) (enc : CodeData → R RawCode)
    (argc pos kw nl ss fl : Nat) (fln : Int) (code lt : List Nat) (fname name : PStr) (names varnames freevars cellvars : List PStr)
    (consts : List RConst) (d : CodeData) (c' : RawCode)
    (hA : F.annotations ∉ [bOPTIMIZED, bNEWLOCALS, bVARARGS, bVARKEYWORDS, bNESTED, bGENERATOR, bNOFREE, bCOROUTINE, bASYNC_GENERATOR])
    (h : toCodeDataGo v T F dec (.mk argc pos kw nl ss fl fln code lt fname name names varnames freevars cellvars consts) = .ok d)
    (hlen : argc + kw + (if fl.testBit bVARARGS then 1 else 0) + (if fl.testBit bVARKEYWORDS then 1 else 0) ≤ varnames.length)
    (hnodup : (varnames.take (argc + kw + (if fl.testBit bVARARGS then 1 else 0) + (if fl.testBit bVARKEYWORDS then 1 else 0))).Nodup)
    (hpos37 : v.hasPosOnly = false → pos = 0)
    (henc : fromCodeDataGo v F enc d = .ok c') :
    ∃ (K : List Const) (out : BlocksOut) (lt' : List Nat) (consts' : List RConst),
      consts.mapM (fun c => match c with | .inner i => pure (Const.inner i) | .code k => Const.code <$> dec k) = .ok K ∧
      K.mapM (fun c => match c with | .inner i => pure (RConst.inner i) | .code d => RConst.code <$> enc d) = .ok consts' ∧
      blocksToBytes v d.blocks d.addArgs d.freevars d.type = .ok out ∧
      c' = .mk argc pos kw nl ss fl fln out.code lt' fname name names varnames freevars cellvars consts' := by
  unfold toCodeDataGo at h
  dsimp only at h
  split at h
  · exact absurd h (throw_bind_ne _ _)
  next hnl =>
  obtain ⟨lm, hlm, h⟩ := bind_ok h
  obtain ⟨K, hK, h⟩ := bind_ok h
  obtain ⟨⟨tp, ann, nested, args⟩, hhdr, h⟩ := bind_ok h
  obtain ⟨⟨st', blocks⟩, hbody, h⟩ := bind_ok h
  obtain ⟨⟨al, aa⟩, htail, h⟩ := bind_ok h
  simp only [pure, Except.pure, Except.ok.injEq] at h
  subst h
  obtain ⟨hnone, hsome, _⟩ := decodeHeader_tp v F argc pos kw fl varnames freevars cellvars K tp ann nested args hhdr
  have hargs := decodeHeader_args v F argc pos kw fl varnames freevars cellvars K tp ann nested args hhdr
  obtain ⟨r1, r2, r3, r4, r5, r6, r7⟩ := header_args_roundtrip argc _ kw varnames _ _ args hargs hlen hnodup
  have hple := (argsFromInput_fields _ _ _ _ _ _ _ hargs).1
  have hnp : args.len = argc + kw + (if fl.testBit bVARARGS then 1 else 0) + (if fl.testBit bVARKEYWORDS then 1 else 0) := by
    unfold Args.len
    rw [r6, r4, r5]
    omega
  have hflags := header_flags_roundtrip v F argc pos kw fl varnames freevars cellvars K tp ann nested args hA hhdr
  simp only [fromCodeDataGo] at henc
  obtain ⟨out, hout, henc⟩ := bind_ok henc
  obtain ⟨consts', hc', henc⟩ := bind_ok henc
  obtain ⟨hn, hv, hc, hk⟩ := body_tables v T names varnames freevars cellvars K (shiftLines lm fln) tp args.len code st' blocks code.length al aa out
    hbody htail (fun f hf => (hsome f hf).2) hnone (fun f hf => by rw [(hsome f hf).1, r7, hnp]; exact ⟨rfl, hlen⟩) hout
  obtain ⟨a, p, k, flags, table, hcounts, hcmk⟩ := finishCode_fields v F out consts' fname fln name ss tp freevars ann nested al c' henc
  have hspec := headerCounts_spec tp out.varnames a p k flags hcounts
  have hnl' : nl = varnames.length := by
    have : ¬ ((nl != varnames.length) = true) := hnl
    simpa using this
  have hpos : (if v.hasPosOnly = true then pos else 0) = pos := by
    cases hv' : v.hasPosOnly
    · simp [hpos37 hv']
    · simp
  refine ⟨K, out, table, consts', hK, by rw [← hk]; exact hc', hout, ?_⟩
  rw [hcmk, hn, hv, hc, ← hnl']
  cases tp with
  | none =>
    obtain ⟨rfl, rfl, rfl, rfl⟩ := hspec
    have hz := hnone rfl
    rw [hnp] at hz
    have ha0 : argc = 0 := by omega
    have hk0 : kw = 0 := by omega
    have hp0 : pos = 0 := by rw [← hpos]; omega
    subst ha0; subst hk0; subst hp0
    unfold flagsOut at hflags
    simp only [List.nil_append] at hflags ⊢
    rw [hflags]
  | some f =>
    dsimp only at hspec
    obtain ⟨rfl, rfl, rfl, rfl⟩ := hspec
    rw [(hsome f rfl).1]
    unfold flagsOut at hflags
    dsimp only at hflags
    rw [(hsome f rfl).1] at hflags
    rw [hflags, r2, r3, r1, hpos]

end CDV
