import CDVProofs.Canon
/-! C06 canonical form, for `from_code`: two code objects CPython reads the same normalize to equal CodeData. -/
namespace CDV

theorem indexOf_getElem_sorted : ∀ (l : List Nat) (k t : Nat), SortedLt l → l[k]? = some t → indexOf t l = k := by
  intro l
  induction l with
  | nil => intro k t _ h; simp at h
  | cons y ys ih =>
    intro k t hs h
    simp only [SortedLt, List.pairwise_cons] at hs
    cases k with
    | zero => simp only [List.getElem?_cons_zero, Option.some.injEq] at h; subst h; simp [indexOf]
    | succ k =>
      simp only [List.getElem?_cons_succ] at h
      have hlt := hs.1 t (List.mem_of_getElem? h)
      have : ¬ t = y := by omega
      simp only [indexOf, this, if_false]
      rw [ih k t hs.2 h]; omega

theorem mem_of_jumpTargets (t : Nat) : ∀ (l : List (Nat × Instr)), t ∈ jumpTargets l →
    ∃ off op rel n ln lo, (off, Instr.mk op (.jump t rel) n ln lo) ∈ l := by
  intro l
  induction l with
  | nil => intro h; simp [jumpTargets] at h
  | cons p l ih =>
    intro h
    obtain ⟨off, ⟨op, a, n, ln, lo⟩⟩ := p
    cases a with
    | jump t' rel =>
      simp only [jumpTargets, List.mem_cons] at h
      rcases h with rfl | h
      · exact ⟨off, op, rel, n, ln, lo, by simp⟩
      · obtain ⟨o, p2, r2, n2, l2, lo2, hm⟩ := ih h; exact ⟨o, p2, r2, n2, l2, lo2, by simp [hm]⟩
    | _ =>
      simp only [jumpTargets] at h
      obtain ⟨o, p2, r2, n2, l2, lo2, hm⟩ := ih h; exact ⟨o, p2, r2, n2, l2, lo2, by simp [hm]⟩

/-- the block-structure facts of decoded data, from the block builder alone -/
theorem later_blocks (ois : List (Nat × Instr)) (blocks : List (List Instr)) (hbl : buildBlocks ois = .ok blocks)
    (hso : SortedLt (ois.map (·.1))) (hsub : ∀ t ∈ targetsOf ois, t ∈ ois.map (·.1)) :
    ∀ k, 0 < k → k < blocks.length → ∃ (j : Nat) (i : Instr) (rel : Bool), blocks.flatten[j]? = some i ∧ i.arg = Arg.jump k rel := by
  intro k hk0 hk
  obtain ⟨_, hlen⟩ := blockStarts_eq_targets ois blocks hbl hso hsub
  have hkt : k < (targetsOf ois).length := by omega
  have ht : (targetsOf ois)[k]? = some (targetsOf ois)[k] := List.getElem?_eq_getElem hkt
  have hjt := CDV.Props.C13.C13_later_blocks_are_jump_targets ois k _ hk0 ht
  obtain ⟨off, op, rel, n, ln, lo, hm⟩ := mem_of_jumpTargets _ ois hjt
  obtain ⟨j, hj, hget⟩ := List.getElem_of_mem hm
  have hflat := (CDV.Props.C13.C13_partition ois blocks hbl).2
  refine ⟨j, retarget (targetsOf ois) (Instr.mk op (.jump (targetsOf ois)[k] rel) n ln lo), rel, ?_, ?_⟩
  · rw [hflat, List.getElem?_map, List.getElem?_eq_getElem hj, hget]; rfl
  · simp only [retarget, Instr.arg]
    rw [indexOf_getElem_sorted _ k _ (targetsOf_sorted ois) ht]

end CDV

namespace CDV

/-- the decode theorems, packaged as the facts the canonical-form argument needs -/
theorem decode_facts (v : Ver) (T : OpTable) (F : FlagTable) (dec : RawCode → R CodeData)
    (argc pos kw nl ss fl : Nat) (fln : Int) (code lt : List Nat) (fname name : PStr) (names varnames freevars cellvars : List PStr)
    (consts : List RConst) (d : CodeData)
    (h : toCodeDataGo v T F dec (.mk argc pos kw nl ss fl fln code lt fname name names varnames freevars cellvars consts) = .ok d)
    (hcode : ∀ x ∈ code, x < 256)
    (hpre : ∀ raws, parseBytes code = .ok raws → ∀ r ∈ raws, r.nargs ≤ 4)
    (hvalid : ∀ s ∈ Spec.read v T (.mk argc pos kw nl ss fl fln code lt fname name names varnames freevars cellvars consts),
      ∀ idx rel, s.arg = .jump idx rel → idx.isSome)
    (hteven : lt.length % 2 = 0) (htbytes : ∀ x ∈ lt, x < 256)
    (htbc : v.is310 = true → ∀ x ∈ LT.bytesToItems lt, x.bc % 2 = 0 ∧ x.bc ≠ 255)
    (htbcOld : v.is310 = false → ∀ cs, LT.collapse false (LT.bytesToItems lt) = some cs → ∀ c ∈ cs, c.bc % 2 = 0) :
    ∃ (constants : List Const) (tp : Option Function) (ann nested : Bool) (al : Option AdditionalLine) (aa : List Arg),
      d = .mk d.blocks fname fln name ss tp freevars ann nested al aa ∧
      consts.mapM (fun c => match c with | .inner i => pure (Const.inner i) | .code k => Const.code <$> dec k) = .ok constants ∧
      DecFacts d.blocks constants (Spec.read v T (.mk argc pos kw nl ss fl fln code lt fname name names varnames freevars cellvars consts)) := by
  obtain ⟨constants, blocks, tp, ann, nested, al, aa, hd, hcm, hlenR, hallR⟩ :=
    decode_reads_like_cpython v T F dec argc pos kw nl ss fl fln code lt fname name names varnames freevars cellvars consts d h
      hcode hpre hvalid hteven htbytes htbc htbcOld
  subst hd
  refine ⟨constants, tp, ann, nested, al, aa, rfl, hcm, ?_⟩
  simp only [CodeData.blocks]
  obtain ⟨lm, constants2, tp2, ann2, nested2, args2, st0, st', raws, ois, blocks2, al2, aa2, _, hcm2, _, hn, hvn, hcv, hcs, _, hraws, hdecI, hbl, _, hd2⟩ :=
    toCodeDataGo_decompose v T F dec argc pos kw nl ss fl fln code lt fname name names varnames freevars cellvars consts _ h
  simp only [CodeData.mk.injEq] at hd2
  obtain ⟨hbeq, _⟩ := hd2
  subst hbeq
  have hceq : constants2 = constants := by
    have e : (Except.ok constants : R (List Const)) = Except.ok constants2 := hcm.symm.trans hcm2
    simpa using e.symm
  subst hceq
  have hpart := CDV.Props.C13.C13_partition ois blocks hbl
  refine ⟨hpart.1, hlenR, hallR, ?_⟩
  -- the targets are instruction starts (as in the proof of `decode_reads_like_cpython`)
  obtain ⟨_, hlen, hall⟩ := decodeInstrs_ok v T freevars raws st0 st' ois hdecI
  rw [hn, hvn, hcv, hcs] at hall
  have hoffs : ois.map (·.1) = raws.map (·.first) := decodeInstrs_offsets v T freevars raws st0 st' ois hdecI
  have hI := parseBytes_agrees code raws hcode hraws (hpre raws hraws)
  have hoffs' : (raws.map RawI.proj).map (·.1) = ois.map (·.1) := by rw [hoffs, List.map_map]; rfl
  have hso : SortedLt (ois.map (·.1)) := by rw [hoffs]; exact parseBytes_sorted code raws hraws
  by_cases hne : ois = []
  · subst hne
    have : blocks = [] := by
      have hfl : blocks.flatten = [] := by rw [hpart.2]; rfl
      cases blocks with
      | nil => rfl
      | cons b bs =>
        have hb := hpart.1 b (by simp)
        simp only [List.flatten_cons, List.append_eq_nil_iff] at hfl
        exact absurd hfl.1 hb
    subst this
    intro k _ hk; simp at hk
  · have hvalid' : ∀ (j : Nat) (r : RawI), raws[j]? = some r → ∀ idx rel',
        specArg v T (ois.map (·.1)) names varnames freevars cellvars consts r.op r.arg r.next = .jump idx rel' → idx.isSome := by
      intro j r hj idx rel' he
      apply hvalid ⟨r.op, specArg v T (ois.map (·.1)) names varnames freevars cellvars consts r.op r.arg r.next, Spec.lineOf v lt fln r.first⟩ _ idx rel' he
      rw [read_eq, ← hI, hoffs']
      apply List.mem_map.mpr
      exact ⟨RawI.proj r, List.mem_map.mpr ⟨r, List.mem_of_getElem? hj, rfl⟩, rfl⟩
    have hzero : 0 ∈ ois.map (·.1) := by
      rw [hoffs]
      cases hraw : raws with
      | nil => rw [hraw] at hlen; exact absurd (List.eq_nil_of_length_eq_zero hlen) hne
      | cons r0 rs =>
        have := parseGo_head_first EXTENDED_ARG code.length code rfl 0 0 0 r0 rs (by omega) (by rw [← hraw]; exact hraws)
        simp only [List.map_cons, List.mem_cons]; left; omega
    have hsub : ∀ t ∈ targetsOf ois, t ∈ ois.map (·.1) := by
      intro t ht
      rcases (mem_targetsOf ois t).mp ht with rfl | hj
      · exact hzero
      · obtain ⟨off, op, rel, n, ln, lo, hm⟩ := mem_of_jumpTargets t ois hj
        obtain ⟨j', hj'lt, hj'⟩ := List.getElem_of_mem hm
        have hj'r : j' < raws.length := by omega
        have hrj' : raws[j']? = some raws[j'] := List.getElem?_eq_getElem hj'r
        obtain ⟨ins', hoj', _, hopok'⟩ := hall j' raws[j'] hrj'
        have : ois[j']? = some (off, Instr.mk op (.jump t rel) n ln lo) := by rw [List.getElem?_eq_getElem hj'lt, hj']
        rw [this] at hoj'
        simp only [Option.some.injEq, Prod.mk.injEq] at hoj'
        rw [← hoj'.2] at hopok'
        exact jump_target_valid v T _ names varnames freevars cellvars consts constants2 raws[j'] _ t rel hopok' rfl (hvalid' j' raws[j'] hrj')
    exact later_blocks ois blocks hbl hso hsub

end CDV

namespace CDV

/-- **Canonical form (C06).**  Let `c₁`, `c₂` be two code objects on which `from_code` succeeds (each under the compiler
    facts of C02) and which CPython *reads the same*: the same number of instructions and, position by position, the same
    opcode, the same line and the same operand reading (`SameRd`: same name / local / cell / free variable, constants with
    the same `constant_key`, nested code whose normalized decodings are equal, same raw operand, jumps of the same kind to
    the same instruction) — and whose non-table header fields decode alike.  Then `normalize()` of the two decodings are
    equal CodeData (`==`), whatever the order of the constant / name / local / cell tables, unreferenced table entries,
    redundant `EXTENDED_ARG` prefixes, redundant line-table entries or the CO_NESTED flag were. -/
theorem canonical_form (v : Ver) (T : OpTable) (F : FlagTable) (dec1 dec2 : RawCode → R CodeData)
    (argc1 pos1 kw1 nl1 ss1 fl1 : Nat) (fln1 : Int) (code1 lt1 : List Nat) (fname1 name1 : PStr) (names1 varnames1 freevars1 cellvars1 : List PStr) (consts1 : List RConst)
    (argc2 pos2 kw2 nl2 ss2 fl2 : Nat) (fln2 : Int) (code2 lt2 : List Nat) (fname2 name2 : PStr) (names2 varnames2 freevars2 cellvars2 : List PStr) (consts2 : List RConst)
    (d1 d2 : CodeData)
    (h1 : toCodeDataGo v T F dec1 (.mk argc1 pos1 kw1 nl1 ss1 fl1 fln1 code1 lt1 fname1 name1 names1 varnames1 freevars1 cellvars1 consts1) = .ok d1)
    (h2 : toCodeDataGo v T F dec2 (.mk argc2 pos2 kw2 nl2 ss2 fl2 fln2 code2 lt2 fname2 name2 names2 varnames2 freevars2 cellvars2 consts2) = .ok d2)
    (hcode1 : ∀ x ∈ code1, x < 256) (hcode2 : ∀ x ∈ code2, x < 256)
    (hpre1 : ∀ raws, parseBytes code1 = .ok raws → ∀ r ∈ raws, r.nargs ≤ 4) (hpre2 : ∀ raws, parseBytes code2 = .ok raws → ∀ r ∈ raws, r.nargs ≤ 4)
    (hvalid1 : ∀ s ∈ Spec.read v T (.mk argc1 pos1 kw1 nl1 ss1 fl1 fln1 code1 lt1 fname1 name1 names1 varnames1 freevars1 cellvars1 consts1),
      ∀ idx rel, s.arg = .jump idx rel → idx.isSome)
    (hvalid2 : ∀ s ∈ Spec.read v T (.mk argc2 pos2 kw2 nl2 ss2 fl2 fln2 code2 lt2 fname2 name2 names2 varnames2 freevars2 cellvars2 consts2),
      ∀ idx rel, s.arg = .jump idx rel → idx.isSome)
    (hteven1 : lt1.length % 2 = 0) (htbytes1 : ∀ x ∈ lt1, x < 256) (hteven2 : lt2.length % 2 = 0) (htbytes2 : ∀ x ∈ lt2, x < 256)
    (htbc1 : v.is310 = true → ∀ x ∈ LT.bytesToItems lt1, x.bc % 2 = 0 ∧ x.bc ≠ 255)
    (htbc2 : v.is310 = true → ∀ x ∈ LT.bytesToItems lt2, x.bc % 2 = 0 ∧ x.bc ≠ 255)
    (htbcOld1 : v.is310 = false → ∀ cs, LT.collapse false (LT.bytesToItems lt1) = some cs → ∀ c ∈ cs, c.bc % 2 = 0)
    (htbcOld2 : v.is310 = false → ∀ cs, LT.collapse false (LT.bytesToItems lt2) = some cs → ∀ c ∈ cs, c.bc % 2 = 0)
    (hheader : d1.header = d2.header)
    (K1 K2 : List Const)
    (hK1 : consts1.mapM (fun c => match c with | .inner i => pure (Const.inner i) | .code k => Const.code <$> dec1 k) = .ok K1)
    (hK2 : consts2.mapM (fun c => match c with | .inner i => pure (Const.inner i) | .code k => Const.code <$> dec2 k) = .ok K2)
    (hlen : (Spec.read v T (.mk argc1 pos1 kw1 nl1 ss1 fl1 fln1 code1 lt1 fname1 name1 names1 varnames1 freevars1 cellvars1 consts1)).length =
      (Spec.read v T (.mk argc2 pos2 kw2 nl2 ss2 fl2 fln2 code2 lt2 fname2 name2 names2 varnames2 freevars2 cellvars2 consts2)).length)
    (hsame : ∀ (j : Nat) (s1 s2 : Spec.SInstr),
      (Spec.read v T (.mk argc1 pos1 kw1 nl1 ss1 fl1 fln1 code1 lt1 fname1 name1 names1 varnames1 freevars1 cellvars1 consts1))[j]? = some s1 →
      (Spec.read v T (.mk argc2 pos2 kw2 nl2 ss2 fl2 fln2 code2 lt2 fname2 name2 names2 varnames2 freevars2 cellvars2 consts2))[j]? = some s2 →
      s1.op = s2.op ∧ s1.line = s2.line ∧ SameRd K1 K2 s1.arg s2.arg) :
    CodeData.beq (normCode d1) (normCode d2) = true := by
  obtain ⟨K1', tp1, ann1, ne1, al1, aa1, hd1, hk1, F1⟩ := decode_facts v T F dec1 argc1 pos1 kw1 nl1 ss1 fl1 fln1 code1 lt1 fname1 name1 names1 varnames1
    freevars1 cellvars1 consts1 d1 h1 hcode1 hpre1 hvalid1 hteven1 htbytes1 htbc1 htbcOld1
  obtain ⟨K2', tp2, ann2, ne2, al2, aa2, hd2, hk2, F2⟩ := decode_facts v T F dec2 argc2 pos2 kw2 nl2 ss2 fl2 fln2 code2 lt2 fname2 name2 names2 varnames2
    freevars2 cellvars2 consts2 d2 h2 hcode2 hpre2 hvalid2 hteven2 htbytes2 htbc2 htbcOld2
  have e1 : K1' = K1 := by
    have e : (Except.ok K1' : R (List Const)) = Except.ok K1 := hk1.symm.trans hK1
    simpa using e
  have e2 : K2' = K2 := by
    have e : (Except.ok K2' : R (List Const)) = Except.ok K2 := hk2.symm.trans hK2
    simpa using e
  subst e1; subst e2
  have hb := canon_blocks d1.blocks d2.blocks K1' K2' _ _ F1 F2 hlen hsame
  rw [hd1, hd2] at hheader ⊢
  simp only [CodeData.header, Prod.mk.injEq] at hheader
  obtain ⟨g1, g2, g3, g4, g5, g6, g7⟩ := hheader
  simp only [normCode, CodeData.beq, hb, g1, g2, g3, g4, g5, g6, g7, argsBeq, Bool.and_eq_true, beq_self_eq_true, and_self]

end CDV
