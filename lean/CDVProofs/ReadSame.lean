import CDVProofs.CodeTop
import CDVProofs.DecodeSpec
/-! # CPython reads `from_code(c).to_code()` with exactly the instructions and resolved operands of `c` -/
namespace CDV

/-- what CPython's operand resolution sees of a constants-table entry: absent, a code object, or this non-code value -/
def shapeOf : Option RConst → Option (Option InnerConst)
  | none => none
  | some (.code _) => some none
  | some (.inner c) => some (some c)

/-- two constants tables that CPython's operand resolution cannot tell apart: same length, the same non-code entries,
    code entries at the same positions -/
def SameShape (a b : List RConst) : Prop := ∀ k : Nat, shapeOf a[k]? = shapeOf b[k]?

theorem sameShape_roundtrip (dec : RawCode → R CodeData) (enc : CodeData → R RawCode) (consts consts' : List RConst) (K : List Const)
    (hK : consts.mapM (fun c => match c with | .inner i => pure (Const.inner i) | .code k => Const.code <$> dec k) = .ok K)
    (hc : K.mapM (fun c => match c with | .inner i => pure (RConst.inner i) | .code d => RConst.code <$> enc d) = .ok consts') :
    SameShape consts consts' := by
  obtain ⟨l1, g1⟩ := mapM_get _ consts K hK
  obtain ⟨l2, g2⟩ := mapM_get _ K consts' hc
  intro k
  cases h1 : consts[k]? with
  | none =>
    have : consts'[k]? = none := by
      apply List.getElem?_eq_none
      have := List.getElem?_eq_none_iff.mp h1
      omega
    rw [this]
  | some a =>
    obtain ⟨b, hb, hfa⟩ := g1 k a h1
    obtain ⟨c, hc', hfb⟩ := g2 k b hb
    rw [hc']
    cases a with
    | inner x =>
      simp only [pure, Except.pure, Except.ok.injEq] at hfa
      subst hfa
      simp only [pure, Except.pure, Except.ok.injEq] at hfb
      subst hfb
      rfl
    | code r =>
      simp only [Functor.map, Except.map] at hfa
      cases hd : dec r with
      | error e => rw [hd] at hfa; cases hfa
      | ok dd =>
        rw [hd] at hfa
        simp only [Except.ok.injEq] at hfa
        subst hfa
        simp only [Functor.map, Except.map] at hfb
        cases he : enc dd with
        | error e => rw [he] at hfb; cases hfb
        | ok rr =>
          rw [he] at hfb
          simp only [Except.ok.injEq] at hfb
          subst hfb
          rfl

theorem specArg_shape (v : Ver) (T : OpTable) (offs : List Nat) (names varnames freevars cellvars : List PStr) (c1 c2 : List RConst)
    (h : SameShape c1 c2) (op : Nat) (arg : Int) (nxt : Nat) :
    specArg v T offs names varnames freevars cellvars c1 op arg nxt = specArg v T offs names varnames freevars cellvars c2 op arg nxt := by
  unfold specArg
  cases hc : T.get op <;> simp only [hc]
  split
  · rfl
  · have := h arg.toNat
    cases h1 : c1[arg.toNat]? with
    | none =>
      rw [h1] at this
      cases h2 : c2[arg.toNat]? with
      | none => rfl
      | some b => rw [h2] at this; cases b <;> simp [shapeOf] at this
    | some a =>
      rw [h1] at this
      cases h2 : c2[arg.toNat]? with
      | none => rw [h2] at this; cases a <;> simp [shapeOf] at this
      | some b =>
        rw [h2] at this
        cases a <;> cases b <;> simp [shapeOf] at this
        · subst this; rfl
        · rfl

/-- **CPython reads the rebuilt code object with exactly the instructions and operands of the original.**  Under the
    hypotheses of `C01_all_but_linetable`: opcode and resolved operand of every instruction (`Spec.read`: names, locals,
    cells, free variables, constants, jump targets as instruction indices) are identical, position by position — not
    merely equivalent.  (The line of every instruction: C02 for the decoding, C03 for the encoding.) -/
theorem decoded_reads_identically (v : Ver) (T : OpTable) (F : FlagTable) (dec : RawCode → R CodeData) (enc : CodeData → R RawCode)
    (argc pos kw nl ss fl : Nat) (fln : Int) (code lt : List Nat) (fname name : PStr) (names varnames freevars cellvars : List PStr)
    (consts : List RConst) (d : CodeData) (c' : RawCode)
    (hA : F.annotations ∉ [bOPTIMIZED, bNEWLOCALS, bVARARGS, bVARKEYWORDS, bNESTED, bGENERATOR, bNOFREE, bCOROUTINE, bASYNC_GENERATOR])
    (h : toCodeDataGo v T F dec (.mk argc pos kw nl ss fl fln code lt fname name names varnames freevars cellvars consts) = .ok d)
    (hlen : argc + kw + (if fl.testBit bVARARGS then 1 else 0) + (if fl.testBit bVARKEYWORDS then 1 else 0) ≤ varnames.length)
    (hnodup : (varnames.take (argc + kw + (if fl.testBit bVARARGS then 1 else 0) + (if fl.testBit bVARKEYWORDS then 1 else 0))).Nodup)
    (hpos37 : v.hasPosOnly = false → pos = 0)
    (hcode : ∀ x ∈ code, x < 256) (hcomp : Complete code 0)
    (hpre : ∀ raws, parseBytes code = .ok raws → ∀ r ∈ raws, r.nargs ≤ 4)
    (hmin : ∀ raws, parseBytes code = .ok raws → ∀ r ∈ raws, T.get r.op ≠ .jabs → T.get r.op ≠ .jrel → r.nargs = instrsize r.arg)
    (hjs : ∀ raws, parseBytes code = .ok raws → ∀ r ∈ raws,
      (T.get r.op = .jabs → (decMult v * r.arg).toNat ∈ raws.map (·.first)) ∧
      (T.get r.op = .jrel → ((r.next : Int) + decMult v * r.arg).toNat ∈ raws.map (·.first)))
    (hcn : cellvars.Nodup) (hfn : freevars.Nodup)
    (henc : fromCodeDataGo v F enc d = .ok c') :
    (Spec.read v T c').map (fun s => (s.op, s.arg)) =
      (Spec.read v T (.mk argc pos kw nl ss fl fln code lt fname name names varnames freevars cellvars consts)).map (fun s => (s.op, s.arg)) := by
  obtain ⟨K, out, lt', consts', h1, h2, h3, h4⟩ := decoded_fields_roundtrip v T F dec enc argc pos kw nl ss fl fln code lt fname name names
    varnames freevars cellvars consts d c' hA h hlen hnodup hpos37 henc
  have hc := decoded_code_roundtrip v T F dec argc pos kw nl ss fl fln code lt fname name names varnames freevars cellvars consts d out
    h hlen hnodup hcode hcomp hpre hmin hjs hcn hfn h3
  rw [h4, hc, read_eq, read_eq]
  simp only [List.map_map]
  apply List.map_congr_left
  intro p _
  simp only [Function.comp]
  rw [specArg_shape v T _ names varnames freevars cellvars consts' consts
    (fun k => (sameShape_roundtrip dec enc consts consts' K h1 h2 k).symm)]

end CDV
