import CDVProofs.LineSemOld
/-! Stage 3 of the line-table codec, encoding direction: the table `from_line_mapping` writes for a per-offset mapping
    is read by CPython's reader as exactly that mapping (3.10: `co_linetable`). -/
namespace CDV.LT
open CDV

/-- consecutive code units starting at `off`, with the given lines (what `blocks_to_bytes` records: one entry per code unit) -/
def unitsAt : List (Option Int) → Nat → List (Nat × Option Int)
  | [], _ => []
  | l :: ls, off => (off, l) :: unitsAt ls (off + 2)

theorem semLT_single (d : Option Int) (bc : Nat) (R : List CItem) (o s : Nat) (c : Int) :
    semLT (⟨d, bc⟩ :: R) o s c = if s ≤ o ∧ o < s + bc then .inl (d.map (c + ·)) else semLT R o (s + bc) (c + d.getD 0) := by
  simp [semLT]

/-- the section loop of `mapping_to_items` (3.10): `c` is the reader's computed line when it reaches the open section -/
theorem semLT_go : ∀ (ls : List (Option Int)) (sec : Sec) (lastOff : Nat) (c : Int),
    sec.line = sec.diff.map (c + ·) → sec.lastLine = c + sec.diff.getD 0 → sec.start ≤ lastOff →
    (∀ o, sec.start ≤ o → o < lastOff + 2 →
      semLT (mappingToItemsLTgo (unitsAt ls (lastOff + 2)) sec lastOff) o sec.start c = .inl sec.line) ∧
    (∀ k l, ls[k]? = some l →
      semLT (mappingToItemsLTgo (unitsAt ls (lastOff + 2)) sec lastOff) (lastOff + 2 + 2 * k) sec.start c = .inl l) := by
  intro ls
  induction ls with
  | nil =>
    intro sec lastOff c h1 h2 h3
    refine ⟨?_, by intro k l h; simp at h⟩
    intro o ho1 ho2
    simp only [unitsAt, mappingToItemsLTgo, semLT_single]
    rw [if_pos ⟨ho1, by omega⟩, h1]
  | cons ln rest ih =>
    intro sec lastOff c h1 h2 h3
    simp only [unitsAt, mappingToItemsLTgo]
    by_cases hne : (ln != sec.line) = true
    · have hc' : c + sec.diff.getD 0 = sec.lastLine := h2.symm
      have hsz : sec.start + (lastOff + 2 - sec.start) = lastOff + 2 := by omega
      -- the new section, for any way of writing its `last` / `diff` fields that satisfies the invariant
      have key : ∀ (last' : Int) (diff' : Option Int), ln = diff'.map (sec.lastLine + ·) → last' = sec.lastLine + diff'.getD 0 →
          (∀ o, sec.start ≤ o → o < lastOff + 2 →
            semLT (⟨sec.diff, lastOff + 2 - sec.start⟩ :: mappingToItemsLTgo (unitsAt rest (lastOff + 2 + 2)) ⟨lastOff + 2, ln, last', diff'⟩ (lastOff + 2))
              o sec.start c = .inl sec.line) ∧
          (∀ k l, (ln :: rest)[k]? = some l →
            semLT (⟨sec.diff, lastOff + 2 - sec.start⟩ :: mappingToItemsLTgo (unitsAt rest (lastOff + 2 + 2)) ⟨lastOff + 2, ln, last', diff'⟩ (lastOff + 2))
              (lastOff + 2 + 2 * k) sec.start c = .inl l) := by
        intro last' diff' inv1 inv2
        obtain ⟨ihA, ihB⟩ := ih ⟨lastOff + 2, ln, last', diff'⟩ (lastOff + 2) sec.lastLine inv1 inv2 (Nat.le_refl _)
        constructor
        · intro o ho1 ho2
          rw [semLT_single, if_pos ⟨ho1, by omega⟩, h1]
        · intro k l hk
          rw [semLT_single, if_neg (by omega), hsz, hc']
          cases k with
          | zero =>
            simp only [List.getElem?_cons_zero, Option.some.injEq] at hk
            subst hk
            exact ihA (lastOff + 2) (Nat.le_refl _) (by omega)
          | succ k =>
            simp only [List.getElem?_cons_succ] at hk
            have := ihB k l hk
            rw [show lastOff + 2 + 2 * (k + 1) = lastOff + 2 + 2 + 2 * k by omega]
            exact this
      simp only [hne, if_true]
      cases ln with
      | none => exact key sec.lastLine none (by simp) (by simp)
      | some l => exact key l (some (l - sec.lastLine)) (by simp; omega) (by simp; omega)
    · have heq : ln = sec.line := by simpa using hne
      simp only [hne, if_false, Bool.false_eq_true]
      obtain ⟨ihA, ihB⟩ := ih sec (lastOff + 2) c h1 h2 (by omega)
      constructor
      · intro o ho1 ho2
        exact ihA o ho1 (by omega)
      · intro k l hk
        cases k with
        | zero =>
          simp only [List.getElem?_cons_zero, Option.some.injEq] at hk
          subst hk
          rw [heq]
          exact ihA (lastOff + 2) (by omega) (by omega)
        | succ k =>
          simp only [List.getElem?_cons_succ] at hk
          have := ihB k l hk
          rw [show lastOff + 2 + 2 * (k + 1) = lastOff + 2 + 2 + 2 * k by omega]
          exact this

/-- **`mapping_to_items` (3.10) says what the mapping says**: the collapsed rows it builds from one line per code unit
    give, at every code unit, that unit's line. -/
theorem semLT_mappingToItems (l0 : Option Int) (ls : List (Option Int)) :
    ∃ cs, mappingToItemsLT (unitsAt (l0 :: ls) 0) = .ok cs ∧
      ∀ k l, (l0 :: ls)[k]? = some l → semLT cs (2 * k) 0 0 = .inl l := by
  simp only [unitsAt, mappingToItemsLT]
  refine ⟨_, rfl, ?_⟩
  have key : ∀ (last' : Int), last' = 0 + l0.getD 0 →
      ∀ k l, (l0 :: ls)[k]? = some l → semLT (mappingToItemsLTgo (unitsAt ls (0 + 2)) ⟨0, l0, last', l0⟩ 0) (2 * k) 0 0 = .inl l := by
    intro last' hl
    obtain ⟨hA, hB⟩ := semLT_go ls ⟨0, l0, last', l0⟩ 0 0 (by cases l0 <;> simp) hl (Nat.le_refl _)
    intro k l hk
    cases k with
    | zero =>
      simp only [List.getElem?_cons_zero, Option.some.injEq] at hk
      subst hk
      exact hA 0 (Nat.le_refl _) (by omega)
    | succ k =>
      simp only [List.getElem?_cons_succ] at hk
      have := hB k l hk
      rw [show 2 * (k + 1) = 0 + 2 + 2 * k by omega]
      exact this
  cases l0 with
  | none => exact key 0 (by simp)
  | some l => exact key l (by simp)

/-! ### rows written by `expand_items` (3.10) are in range -/

theorem expUp_rows : ∀ (n : Nat) (l : Int) (bc : Nat), l.toNat = n → ∀ r ∈ (expUp true l bc).1, r.line = 127 := by
  intro n
  induction n using Nat.strongRecOn with
  | _ n ih =>
    intro l bc hn r hr
    by_cases hb : l > 127
    · rw [expUp_step _ _ _ hb] at hr
      rcases List.mem_cons.mp hr with rfl | hr
      · rfl
      · exact ih (l - 127).toNat (by omega) _ _ rfl r hr
    · rw [expUp_small _ _ _ (by omega)] at hr; simp at hr

theorem expDown_rows : ∀ (n : Nat) (l : Int) (bc : Nat), (-l).toNat = n → ∀ r ∈ (expDown true l bc).1, r.line = -127 := by
  intro n
  induction n using Nat.strongRecOn with
  | _ n ih =>
    intro l bc hn r hr
    by_cases hb : l < minLine true
    · rw [expDown_step _ _ _ hb] at hr
      rw [minLine_true] at hb hr
      rcases List.mem_cons.mp hr with rfl | hr
      · rfl
      · exact ih (-(l - -127)).toNat (by omega) _ _ rfl r hr
    · rw [expDown_small _ _ _ (by omega)] at hr; simp at hr

theorem expBc_rows_none : ∀ (bc : Nat), ∀ r ∈ (expBc true none bc).1, r.line = -128 := by
  intro bc
  induction bc using Nat.strongRecOn with
  | _ bc ih =>
    intro r hr
    by_cases hb : bc > 254
    · rw [expBc_step_none bc hb] at hr
      rcases List.mem_cons.mp hr with rfl | hr
      · rfl
      · exact ih (bc - 254) (by omega) r hr
    · rw [expBc_small _ _ _ (by rw [maxBc_true]; omega)] at hr; simp at hr

theorem expBc_rows_some : ∀ (bc : Nat) (l : Int), ∀ r ∈ (expBc true (some l) bc).1, r.line = l ∨ r.line = 0 := by
  intro bc
  induction bc using Nat.strongRecOn with
  | _ bc ih =>
    intro l r hr
    by_cases hb : bc > 254
    · rw [expBc_step_some l bc hb] at hr
      rcases List.mem_cons.mp hr with rfl | hr
      · exact Or.inl rfl
      · rcases ih (bc - 254) (by omega) 0 r hr with h | h <;> exact Or.inr h
    · rw [expBc_small _ _ _ (by rw [maxBc_true]; omega)] at hr; simp at hr

theorem expandOne_rows (c : CItem) : ∀ r ∈ expandOne true c, -128 ≤ r.line ∧ r.line ≤ 127 := by
  obtain ⟨line, bc⟩ := c
  intro r hr
  simp only [expandOne, if_true] at hr
  cases line with
  | none =>
    simp only [expLine_none, List.nil_append] at hr
    have h1 := (scan_expBc_none bc [] 0 0 0).1
    rw [h1] at hr
    unfold finish at hr
    simp only [lineOr128, noLine_eq] at hr
    split at hr
    · rcases List.mem_append.mp hr with h | h
      · rw [expBc_rows_none bc r h]; omega
      · simp at h; rw [h]; simp
    · rw [expBc_rows_none bc r hr]; omega
  | some l =>
    obtain ⟨l', hl1, hl2, hl3, hbc, _, _⟩ := scan_expLine l bc [] 0 0 0
    simp only [hl1, hbc] at hr
    have hrowsL : ∀ x ∈ (expLine true (some l) bc).1, x.line = 127 ∨ x.line = -127 := by
      intro x hx
      simp only [expLine] at hx
      rcases List.mem_append.mp hx with h | h
      · exact Or.inl (expUp_rows _ l bc rfl x h)
      · exact Or.inr (expDown_rows _ _ _ rfl x h)
    have hb1 := (scan_expBc_some bc l' [] 0 0 0 (by omega)).1
    unfold finish at hr
    have hfin : -128 ≤ lineOr128 (expBc true (some l') bc).2.1 ∧ lineOr128 (expBc true (some l') bc).2.1 ≤ 127 := by
      rw [hb1]; split <;> simp [lineOr128] <;> omega
    have hmain : ∀ x ∈ (expLine true (some l) bc).1 ++ (expBc true (some l') bc).1, -128 ≤ x.line ∧ x.line ≤ 127 := by
      intro x hx
      rcases List.mem_append.mp hx with h | h
      · rcases hrowsL x h with e | e <;> rw [e] <;> omega
      · rcases expBc_rows_some bc l' x h with e | e <;> rw [e] <;> omega
    split at hr
    · rcases List.mem_append.mp hr with h | h
      · exact hmain r h
      · simp at h; rw [h]; exact hfin
    · exact hmain r hr

theorem expand_rows (cs : List CItem) : ∀ r ∈ expand true cs, -128 ≤ r.line ∧ r.line ≤ 127 := by
  intro r hr
  simp only [expand, List.mem_flatMap] at hr
  obtain ⟨c, _, hc⟩ := hr
  exact expandOne_rows c r hc

/-- **The table written for a mapping reads back as that mapping (3.10).**  For any non-empty list of per-code-unit
    lines (any lines, `None` runs, any length): `from_line_mapping` succeeds, and CPython's reader (`co_lines()` /
    `PyCode_Addr2Line`) assigns to the `k`-th code unit exactly the `k`-th line, `None` where it is `None`. -/
theorem encoded_lines_310 (l0 : Option Int) (ls : List (Option Int)) (extra : List (Nat × List Int)) :
    ∃ table, fromLineMapping true ⟨unitsAt (l0 :: ls) 0, extra⟩ = .ok table ∧
      ∀ k l, (l0 :: ls)[k]? = some l → Spec.lineOfLT table (2 * k) 0 0 = l := by
  obtain ⟨cs, hcs, hsem⟩ := semLT_mappingToItems l0 ls
  refine ⟨itemsToBytes (expand true cs), by simp [fromLineMapping, mappingToItems, hcs, bind, Except.bind, pure, Except.pure], ?_⟩
  intro k l hk
  rw [lineOfLT_eq_scan _ _ _ _ (expand_rows cs), scan_expand, hsem k l hk]

/-! ### encoding direction, `co_lnotab` (3.7-3.9) -/

def unitsAtS (ls : List Int) (off : Nat) : List (Nat × Option Int) := unitsAt (ls.map some) off

theorem sumI_foldl (L : List Int) (b : Int) : L.foldl (· + ·) b = b + L.sum := by
  induction L generalizing b with
  | nil => simp
  | cons x xs ih => simp only [List.foldl_cons, List.sum_cons]; rw [ih]; omega

/-- the rows `mapping_to_items` writes for one code unit all sit at that unit's address and add up to the line change -/
theorem totC_unit_items (all : List Int) (its : List CItem) (off lastOff o : Nat) (hle : lastOff ≤ off)
    (hits : (all = [] ∧ its = []) ∨ ∃ a as, all = a :: as ∧ its = (⟨some a, off - lastOff⟩ : CItem) :: as.map (fun x => ⟨some x, 0⟩)) :
    totC its lastOff o = (if off ≤ o then all.sum else 0) ∧
    lastOff + sumB its = (if all = [] then lastOff else off) ∧ (∀ c ∈ its, c.line.isSome) := by
  rcases hits with ⟨rfl, rfl⟩ | ⟨a, as, rfl, rfl⟩
  · simp [totC, sumB]
  · have hz : ∀ (as : List Int) (p : Nat), totC (as.map (fun x => (⟨some x, 0⟩ : CItem))) p o = (if p ≤ o then as.sum else 0) ∧
        sumB (as.map (fun x => (⟨some x, 0⟩ : CItem))) = 0 := by
      intro as
      induction as with
      | nil => intro p; simp [totC, sumB]
      | cons x xs ih =>
        intro p
        obtain ⟨i1, i2⟩ := ih p
        simp only [List.map_cons, totC, Nat.add_zero, Option.getD_some, i1, List.sum_cons, sumB, List.sum_cons]
        simp only [sumB] at i2
        refine ⟨by split <;> omega, by simpa using i2⟩
    obtain ⟨z1, z2⟩ := hz as (lastOff + (off - lastOff))
    simp only [totC, Option.getD_some, z1, sumB, List.map_cons, List.sum_cons, List.cons_ne_nil, if_false]
    simp only [sumB] at z2
    have e : lastOff + (off - lastOff) = off := by omega
    rw [e, z2]
    refine ⟨by split <;> omega, by omega, ?_⟩
    intro c hc
    simp only [List.mem_cons, List.mem_map] at hc
    rcases hc with rfl | ⟨x, _, rfl⟩ <;> rfl

/-- **`mapping_to_items` (≤ 3.9) says what the mapping says**: the collapsed rows it builds for consecutive code units
    starting at `off` give, at every one of them, that unit's line (relative to the line before the first), and nothing
    before the first. -/
theorem totC_mappingToItemsOld (extra : List (Nat × List Int)) : ∀ (ls : List Int) (off : Nat) (lastLine : Int) (lastOff : Nat),
    lastOff ≤ off →
    ∃ cs, mappingToItemsOld extra (unitsAtS ls off) lastLine lastOff = .ok cs ∧ (∀ c ∈ cs, c.line.isSome) ∧
      (∀ o, o < off → totC cs lastOff o = 0) ∧
      (∀ k l, ls[k]? = some l → totC cs lastOff (off + 2 * k) = l - lastLine) := by
  intro ls
  induction ls with
  | nil =>
    intro off lastLine lastOff _
    exact ⟨[], by simp [unitsAtS, unitsAt, mappingToItemsOld, pure, Except.pure], by simp, by simp [totC], by intro k l h; simp at h⟩
  | cons l0 ls ih =>
    intro off lastLine lastOff hle
    -- everything after the rows of this unit are known
    have key : ∀ (all : List Int) (its : List CItem), all.sum = l0 - lastLine →
        ((all = [] ∧ its = []) ∨ ∃ a as, all = a :: as ∧ its = (⟨some a, off - lastOff⟩ : CItem) :: as.map (fun x => ⟨some x, 0⟩)) →
        ∃ cs, (do let r ← mappingToItemsOld extra (unitsAt (ls.map some) (off + 2)) l0 (if all = [] then lastOff else off); pure (its ++ r)) = Except.ok cs ∧
          (∀ c ∈ cs, c.line.isSome) ∧ (∀ o, o < off → totC cs lastOff o = 0) ∧
          (∀ k l, (l0 :: ls)[k]? = some l → totC cs lastOff (off + 2 * k) = l - lastLine) := by
      intro all its hsum hdisj
      have tu := fun o => totC_unit_items all its off lastOff o hle hdisj
      obtain ⟨cs', hcs', hsome', hbefore', hat'⟩ := ih (off + 2) l0 (if all = [] then lastOff else off) (by split <;> omega)
      simp only [unitsAtS] at hcs'
      refine ⟨its ++ cs', by rw [hcs']; rfl, ?_, ?_, ?_⟩
      · intro c hc
        rcases List.mem_append.mp hc with h | h
        · exact (tu 0).2.2 c h
        · exact hsome' c h
      · intro o ho
        rw [totC_append, (tu o).1, (tu o).2.1, if_neg (by omega), hbefore' o (by omega)]; rfl
      · intro k l hk
        rw [totC_append, (tu _).1, (tu (off + 2 * k)).2.1, if_pos (by omega), hsum]
        cases k with
        | zero =>
          simp only [List.getElem?_cons_zero, Option.some.injEq] at hk
          subst hk
          rw [hbefore' _ (by omega)]; omega
        | succ k =>
          simp only [List.getElem?_cons_succ] at hk
          have := hat' k l hk
          rw [show off + 2 * (k + 1) = off + 2 + 2 * k by omega, this]; omega
    simp only [unitsAtS, List.map_cons, unitsAt, mappingToItemsOld]
    generalize hadd : (lookupExtra extra off).getD [] = add
    by_cases hfirst : l0 - lastLine - add.foldl (· + ·) 0 ≠ 0
    · simp only [hfirst, if_true, ne_eq, not_false_eq_true]
      refine key ((l0 - lastLine - add.foldl (· + ·) 0) :: add) _ ?_ (Or.inr ⟨_, _, rfl, rfl⟩)
      rw [sumI_foldl]; simp only [List.sum_cons]; omega
    · have hz : l0 - lastLine - add.foldl (· + ·) 0 = 0 := by simpa using hfirst
      simp only [hz, ne_eq, not_true_eq_false, if_false]
      have hs : add.sum = l0 - lastLine := by rw [sumI_foldl] at hz; omega
      cases add with
      | nil => exact key [] [] hs (Or.inl ⟨rfl, rfl⟩)
      | cons a as => exact key (a :: as) _ hs (Or.inr ⟨a, as, rfl, rfl⟩)

theorem expBc_rows_old : ∀ (bc : Nat) (line : Option Int), ∀ r ∈ (expBc false line bc).1, r.line = 0 := by
  intro bc
  induction bc using Nat.strongRecOn with
  | _ bc ih =>
    intro line r hr
    by_cases hb : bc > maxBc false
    · rw [expBc_step _ _ _ hb] at hr
      rw [maxBc_false] at hb
      rcases List.mem_cons.mp hr with rfl | hr
      · rfl
      · exact ih (bc - 255) (by omega) _ r hr
    · rw [expBc_small _ _ _ (by omega)] at hr; simp at hr

theorem expUp_rows_old : ∀ (n : Nat) (l : Int) (bc : Nat), l.toNat = n → ∀ r ∈ (expUp false l bc).1, r.line = 127 := by
  intro n
  induction n using Nat.strongRecOn with
  | _ n ih =>
    intro l bc hn r hr
    by_cases hb : l > 127
    · rw [expUp_step _ _ _ hb] at hr
      rcases List.mem_cons.mp hr with rfl | hr
      · rfl
      · exact ih (l - 127).toNat (by omega) _ _ rfl r hr
    · rw [expUp_small _ _ _ (by omega)] at hr; simp at hr

theorem expDown_rows_old : ∀ (n : Nat) (l : Int) (bc : Nat), (-l).toNat = n → ∀ r ∈ (expDown false l bc).1, r.line = -128 := by
  intro n
  induction n using Nat.strongRecOn with
  | _ n ih =>
    intro l bc hn r hr
    by_cases hb : l < minLine false
    · rw [expDown_step _ _ _ hb] at hr
      rw [minLine_false] at hb hr
      rcases List.mem_cons.mp hr with rfl | hr
      · rfl
      · exact ih (-(l - -128)).toNat (by omega) _ _ rfl r hr
    · rw [expDown_small _ _ _ (by omega)] at hr; simp at hr

theorem expLine_range_old (l : Int) (bc : Nat) :
    ∃ l', (expLine false (some l) bc).2.1 = some l' ∧ -128 ≤ l' ∧ l' ≤ 127 := by
  simp only [expLine]
  refine ⟨_, rfl, ?_, ?_⟩
  · by_cases hp : 0 < l
    · have h1 := expUp_line_pos false _ l bc rfl hp
      rw [expDown_small _ _ _ (by rw [minLine_false]; omega)]; simp; omega
    · by_cases hz : l = 0
      · subst hz
        rw [expUp_small _ _ _ (by omega), expDown_small _ _ _ (by rw [minLine_false]; simp)]; simp
      · rw [expUp_small _ _ _ (by omega)]
        have h2 := expDown_line_neg false _ l bc rfl (by omega)
        rw [minLine_false] at h2; simp; omega
  · by_cases hp : 0 < l
    · have h1 := expUp_line_pos false _ l bc rfl hp
      rw [expDown_small _ _ _ (by rw [minLine_false]; omega)]; simp; omega
    · rw [expUp_small _ _ _ (by omega)]
      by_cases hz : l = 0
      · subst hz; rw [expDown_small _ _ _ (by rw [minLine_false]; simp)]; simp
      · have h2 := expDown_line_neg false _ l bc rfl (by omega)
        simp; omega

theorem expandOne_rows_old (l : Int) (bc : Nat) : ∀ r ∈ expandOne false ⟨some l, bc⟩, -128 ≤ r.line ∧ r.line ≤ 127 := by
  intro r hr
  simp only [expandOne, Bool.false_eq_true, if_false] at hr
  have hb3 := (tot_expBc_old bc (some l) 0 0).2.2
  rw [hb3] at hr
  obtain ⟨l', hl1, hl2, hl3⟩ := expLine_range_old l (expBc false (some l) bc).2.2
  have hmain : ∀ x ∈ (expBc false (some l) bc).1 ++ (expLine false (some l) (expBc false (some l) bc).2.2).1, -128 ≤ x.line ∧ x.line ≤ 127 := by
    intro x hx
    rcases List.mem_append.mp hx with h | h
    · rw [expBc_rows_old bc _ x h]; omega
    · simp only [expLine] at h
      rcases List.mem_append.mp h with h | h
      · rw [expUp_rows_old _ _ _ rfl x h]; omega
      · rw [expDown_rows_old _ _ _ rfl x h]; omega
  unfold finish at hr
  split at hr
  · rcases List.mem_append.mp hr with h | h
    · exact hmain r h
    · simp only [List.mem_singleton] at h
      rw [h, hl1]; simp only [lineOr128]; omega
  · exact hmain r hr

theorem expand_rows_old (cs : List CItem) (hs : ∀ c ∈ cs, c.line.isSome) : ∀ r ∈ expand false cs, -128 ≤ r.line ∧ r.line ≤ 127 := by
  intro r hr
  simp only [expand, List.mem_flatMap] at hr
  obtain ⟨c, hc, hrc⟩ := hr
  obtain ⟨line, bc⟩ := c
  have := hs _ hc
  cases line with
  | none => simp at this
  | some l => exact expandOne_rows_old l bc r hrc

/-- **The table written for a mapping reads back as that mapping (`co_lnotab`, 3.7-3.9).**  For any list of per-code-unit
    lines (any jumps forward and backward) and any extra zero-width entries recorded for them: `from_line_mapping`
    succeeds, and `PyCode_Addr2Line` assigns to the `k`-th code unit exactly the `k`-th line. -/
theorem encoded_lines_lnotab (ls : List Int) (extra : List (Nat × List Int)) :
    ∃ table, fromLineMapping false ⟨unitsAtS ls 0, extra⟩ = .ok table ∧
      ∀ k l, ls[k]? = some l → Spec.lineOfOld table (2 * k) 0 0 = l := by
  obtain ⟨cs, hcs, hsome, _, hat⟩ := totC_mappingToItemsOld extra ls 0 0 0 (Nat.le_refl _)
  refine ⟨itemsToBytes (expand false cs), by simp [fromLineMapping, mappingToItems, hcs, bind, Except.bind, pure, Except.pure], ?_⟩
  intro k l hk
  rw [lineOfOld_eq_tot _ _ _ _ (expand_rows_old cs hsome) (by omega), (tot_expand_old cs 0 (2 * k) hsome).1]
  have := hat k l hk
  simp only [Nat.zero_add, Int.sub_zero] at this
  rw [this]; omega

end CDV.LT
