import CDVProofs.Relax
/-! Reading the assembled bytes back with CPython's reader: offsets of the assembled instructions, and where every
    jump operand points. -/
namespace CDV

theorem psum_shift : ∀ (X : List Nat) (a s : Nat), s ≤ X.length → psum X a s = a + psum X 0 s := by
  intro X; induction X with
  | nil => intro a s h; simp at h; subst h; simp
  | cons x X ih =>
    intro a s h
    cases s with
    | zero => simp
    | succ s =>
      simp only [psum_succ]
      rw [ih (a + x) s (by simpa using h), ih (0 + x) s (by simpa using h)]
      omega

theorem szs_cons (i : Instr) (is : List Instr) (a : Int) (as : List Int) :
    szs (i :: is) (a :: as) = sizeOfI i.nov a :: szs is as := rfl

theorem szs_length (is : List Instr) (as : List Int) (h : is.length = as.length) : (szs is as).length = is.length := by
  simp [szs, List.length_zip, h]

/-- the `j`-th assembled instruction: opcode, operand, width, and its offsets in the final layout -/
theorem rawsOf_get : ∀ (is : List Instr) (as : List Int) (off j : Nat) (i : Instr) (a : Int), is.length = as.length →
    is[j]? = some i → as[j]? = some a →
    (rawsOf is as off)[j]? = some ⟨i.op, a, sizeOfI i.nov a, off + 2 * psum (szs is as) 0 j, off + 2 * psum (szs is as) 0 (j + 1)⟩ := by
  intro is
  induction is with
  | nil => intro as off j i a _ h; simp at h
  | cons i0 is ih =>
    intro as off j i a hl hi ha
    cases as with
    | nil => simp at hl
    | cons a0 as =>
      simp only [List.length_cons, Nat.add_right_cancel_iff] at hl
      cases j with
      | zero =>
        simp only [List.getElem?_cons_zero, Option.some.injEq] at hi ha
        subst hi; subst ha
        simp [rawsOf, szs_cons]
      | succ j =>
        simp only [List.getElem?_cons_succ] at hi ha
        simp only [rawsOf, List.getElem?_cons_succ, szs_cons, psum_succ]
        rw [ih as _ j i a hl hi ha]
        have hj : j < is.length := (List.getElem?_eq_some_iff.mp hi).1
        have hsl := szs_length is as hl
        rw [psum_shift _ (0 + sizeOfI i0.nov a0) j (by omega), psum_shift _ (0 + sizeOfI i0.nov a0) (j + 1) (by omega)]
        congr 2 <;> omega

theorem rawsOf_length : ∀ (is : List Instr) (as : List Int) (off : Nat), is.length = as.length → (rawsOf is as off).length = is.length := by
  intro is
  induction is with
  | nil => intro as off _; cases as <;> simp [rawsOf]
  | cons i is ih =>
    intro as off hl
    cases as with
    | nil => simp at hl
    | cons a as => simp only [List.length_cons, Nat.add_right_cancel_iff] at hl; simp [rawsOf, ih as _ hl]

theorem go_find : ∀ (l : List Nat) (k s : Nat) (x : Nat), l[s]? = some x → (∀ i y, i < s → l[i]? = some y → y ≠ x) →
    Spec.idxOfOffset.go (x : Int) l k = some (k + s) := by
  intro l
  induction l with
  | nil => intro k s x h; simp at h
  | cons o os ih =>
    intro k s x h hne
    cases s with
    | zero =>
      simp only [List.getElem?_cons_zero, Option.some.injEq] at h
      subst h
      simp [Spec.idxOfOffset.go]
    | succ s =>
      simp only [List.getElem?_cons_succ] at h
      have h0 : o ≠ x := hne 0 o (by omega) (by simp)
      rw [Spec.idxOfOffset.go]
      simp only [Int.toNat_natCast, h0, if_false]
      rw [ih (k + 1) s x h (fun i y hi hy => hne (i + 1) y (by omega) (by simpa using hy))]
      congr 1; omega

/-- in a strictly increasing list of offsets, looking up the `s`-th offset gives `s` -/
theorem idxOfOffset_strict (l : List Nat) (s x : Nat) (h : l[s]? = some x)
    (hinc : ∀ i y, i < s → l[i]? = some y → y < x) : Spec.idxOfOffset l (x : Int) = some s := by
  unfold Spec.idxOfOffset
  have : ¬ ((x : Int) < 0) := by omega
  simp only [this, if_false]
  have := go_find l 0 s x h (fun i y hi hy => Nat.ne_of_lt (hinc i y hi hy))
  simpa using this

theorem emitOne_lt (op : Nat) (a : Int) (n : Nat) (hop : op < 256) : ∀ x ∈ emitOne op a n, x < 256 := by
  intro x hx
  simp only [emitOne, List.mem_flatMap, List.mem_reverse, List.mem_range, List.mem_cons, List.not_mem_nil, or_false] at hx
  obtain ⟨i, _, rfl | rfl⟩ := hx
  · split
    · exact hop
    · simp [EXTENDED_ARG]
  · exact Nat.mod_lt _ (by omega)

theorem emit_lt : ∀ (is : List Instr) (as : List Int) (off : Nat), (∀ i ∈ is, i.op < 256) → ∀ x ∈ (emit is as off).1, x < 256 := by
  intro is
  induction is with
  | nil => intro as off _ x hx; simp [emit] at hx
  | cons i is ih =>
    intro as off hop x hx
    cases as with
    | nil => simp [emit] at hx
    | cons a as =>
      simp only [emit, List.mem_append] at hx
      rcases hx with hx | hx
      · exact emitOne_lt _ _ _ (hop i (by simp)) x hx
      · exact ih as _ (fun j hj => hop j (by simp [hj])) x hx

theorem rawsOf_nargs : ∀ (is : List Instr) (as : List Int) (off : Nat), (∀ p ∈ is.zip as, sizeOfI p.1.nov p.2 ≤ 4) →
    ∀ r ∈ rawsOf is as off, r.nargs ≤ 4 := by
  intro is
  induction is with
  | nil => intro as off _ r hr; simp [rawsOf] at hr
  | cons i is ih =>
    intro as off h r hr
    cases as with
    | nil => simp [rawsOf] at hr
    | cons a as =>
      simp only [rawsOf, List.mem_cons] at hr
      rcases hr with rfl | hr
      · exact h (i, a) (by simp)
      · exact ih as _ (fun p hp => h p (by simp [hp])) r hr

/-- CPython's jump multiplier (3.10 counts code units, earlier versions bytes) -/
def specMult (v : Ver) : Int := if v.is310 then 2 else 1

/-- **CPython reads the assembled bytes back as the instruction list, at the offsets of the final layout.** -/
theorem read_emit (is : List Instr) (as : List Int) (hl : is.length = as.length)
    (henc : ∀ p ∈ is.zip as, Encodable p.1 p.2) (hop : ∀ i ∈ is, i.op < 256) :
    Spec.fold EXTENDED_ARG (Spec.units EXTENDED_ARG (emit is as 0).1 0 0) none = (rawsOf is as 0).map RawI.proj := by
  have hp := parse_emit is as 0 hl henc
  have := parseBytes_agrees (emit is as 0).1 (rawsOf is as 0) (emit_lt is as 0 hop) hp
    (rawsOf_nargs is as 0 (fun p hp => (henc p hp).2.1))
  exact this.symm

theorem jumps_land (v : Ver) (instrs : List Instr) (starts : List Nat) (fuel : Nat) (args res : List Int)
    (hl : instrs.length = args.length) (h : relax v instrs starts fuel args = .ok res)
    (henc : ∀ p ∈ instrs.zip res, Encodable p.1 p.2) (hop : ∀ i ∈ instrs, i.op < 256)
    (hst : ∀ s ∈ starts, s < instrs.length) :
    let rd := Spec.fold EXTENDED_ARG (Spec.units EXTENDED_ARG (emit instrs res 0).1 0 0) none
    rd.length = instrs.length ∧
    ∀ (j : Nat) (i : Instr) (t : Nat) (rel : Bool), instrs[j]? = some i → i.arg = .jump t rel →
      ∃ s first arg nxt, starts[t]? = some s ∧ rd[j]? = some (first, i.op, arg, nxt) ∧
        Spec.idxOfOffset (rd.map (·.1)) (if rel then (nxt : Int) + specMult v * arg else specMult v * arg) = some s := by
  obtain ⟨hrl, hland⟩ := relax_lands v instrs starts fuel args res hl h
  have hl' : instrs.length = res.length := hrl.symm
  intro rd
  have hrd : rd = (rawsOf instrs res 0).map RawI.proj := read_emit instrs res hl' henc hop
  have hsl := szs_length instrs res hl'
  have hpos := szs_pos instrs res
  refine ⟨by rw [hrd, List.length_map, rawsOf_length _ _ _ hl'], ?_⟩
  intro j i t rel hi hia
  obtain ⟨s, hs, hres⟩ := hland j i hi t rel hia
  have hj : j < instrs.length := (List.getElem?_eq_some_iff.mp hi).1
  have hsn : s < instrs.length := hst s (List.mem_of_getElem? hs)
  -- the first offsets CPython sees
  have hfirst : ∀ k, k < instrs.length → (rd.map (·.1))[k]? = some (2 * psum (szs instrs res) 0 k) := by
    intro k hk
    have hik : instrs[k]? = some instrs[k] := List.getElem?_eq_getElem hk
    have hak : res[k]? = some (res[k]'(by omega)) := List.getElem?_eq_getElem (by omega)
    rw [hrd, List.map_map, List.getElem?_map, rawsOf_get instrs res 0 k _ _ hl' hik hak]
    simp [RawI.proj]
  have hraw := rawsOf_get instrs res 0 j i _ hl' hi hres
  refine ⟨s, 2 * psum (szs instrs res) 0 j, newArgOf v (prefixSums (szs instrs res) 0) s j rel, 2 * psum (szs instrs res) 0 (j + 1), hs, ?_, ?_⟩
  · rw [hrd, List.getElem?_map, hraw]; simp [RawI.proj]
  · have htgt : (if rel then ((2 * psum (szs instrs res) 0 (j + 1) : Nat) : Int) + specMult v * newArgOf v (prefixSums (szs instrs res) 0) s j rel
        else specMult v * newArgOf v (prefixSums (szs instrs res) 0) s j rel) = ((2 * psum (szs instrs res) 0 s : Nat) : Int) := by
      unfold newArgOf specMult
      show (if rel then _ + _ * (if rel then ((psum (szs instrs res) 0 s : Int) - (psum (szs instrs res) 0 (j + 1) : Int)) * _ else _ * (psum (szs instrs res) 0 s : Int))
        else _ * (if rel then ((psum (szs instrs res) 0 s : Int) - (psum (szs instrs res) 0 (j + 1) : Int)) * _ else _ * (psum (szs instrs res) 0 s : Int))) = _
      cases rel <;> cases v.is310 <;> simp <;> omega
    rw [htgt]
    apply idxOfOffset_strict _ s _ (hfirst s hsn)
    intro k y hk hy
    rw [hfirst k (by omega)] at hy
    simp only [Option.some.injEq] at hy
    subst hy
    have := psum_strict (szs instrs res) 0 k s hpos hk (by omega)
    omega

end CDV
