import CDVProofs.LineWF
/-! The `co_lnotab` that `from_line_mapping` writes (3.7–3.9) lies in the domain of the decoding theorems: after the reader's
    merging of continuation rows every address delta is even. -/
namespace CDV.LT
open CDV

theorem bind_ok_lt {β γ} {x : R β} {f : β → R γ} {b : γ} (h : x >>= f = .ok b) : ∃ a, x = .ok a ∧ f a = .ok b := by
  cases x with
  | error e => simp [bind, Except.bind] at h
  | ok a => exact ⟨a, rfl, h⟩

/-- parity bookkeeping for the right fold `collapse_items` is: the head of the collapsed list has parity `par` (and is
    non-zero if `nz`), everything behind it is even -/
def Q (cs : List CItem) (par : Nat) (nz : Bool) : Prop :=
  match cs with
  | [] => par = 0 ∧ nz = false
  | h :: t => h.bc % 2 = par ∧ (nz = true → h.bc ≠ 0) ∧ ∀ c ∈ t, c.bc % 2 = 0

def Inv (S : List CItem) (par : Nat) (nz : Bool) : Prop := ∀ cs, collapseC false S = some cs → Q cs par nz

theorem collapseC_cons (x : CItem) (S : List CItem) (cs : List CItem) (h : collapseC false (x :: S) = some cs) :
    ∃ cs0, collapseC false S = some cs0 ∧
      ((cs0 = [] ∧ cs = [x]) ∨
       (∃ y ys l, cs0 = y :: ys ∧ shouldMerge false x y = true ∧ cs = ⟨l, x.bc + y.bc⟩ :: ys) ∨
       (∃ y ys, cs0 = y :: ys ∧ shouldMerge false x y = false ∧ cs = x :: y :: ys)) := by
  simp only [collapseC] at h
  cases h0 : collapseC false S with
  | none => rw [h0] at h; simp [bind, Option.bind] at h
  | some cs0 =>
    rw [h0] at h
    refine ⟨cs0, rfl, ?_⟩
    cases cs0 with
    | nil =>
      simp [bind, Option.bind, pure] at h
      exact Or.inl ⟨rfl, h.symm⟩
    | cons y ys =>
      simp only [bind, Option.bind, pure] at h
      by_cases hm : shouldMerge false x y = true
      · simp only [hm, if_true] at h
        cases hl : mergeLine x.line y.line with
        | none => rw [hl] at h; simp at h
        | some l =>
          rw [hl] at h
          simp only [Option.some.injEq] at h
          exact Or.inr (Or.inl ⟨y, ys, l, rfl, hm, h.symm⟩)
      · have hm' : shouldMerge false x y = false := by simpa using hm
        simp only [hm', Bool.false_eq_true, if_false, Option.some.injEq] at h
        exact Or.inr (Or.inr ⟨y, ys, rfl, hm', h.symm⟩)

theorem Inv_nil : Inv [] 0 false := by
  intro cs h
  simp [collapseC] at h
  subst h
  exact ⟨rfl, rfl⟩

/-- a row with address delta `b` in front of a list whose collapsed head is even -/
theorem Inv_row (x : CItem) (S : List CItem) (nz : Bool) (hS : Inv S 0 nz) : Inv (x :: S) (x.bc % 2) (decide (x.bc ≠ 0)) := by
  intro cs h
  obtain ⟨cs0, h0, hc⟩ := collapseC_cons x S cs h
  have q := hS cs0 h0
  rcases hc with ⟨rfl, rfl⟩ | ⟨y, ys, l, rfl, _, rfl⟩ | ⟨y, ys, rfl, _, rfl⟩
  · exact ⟨rfl, by intro hz; simpa using hz, by intro c hc; cases hc⟩
  · obtain ⟨q1, _, q3⟩ := q
    refine ⟨by dsimp only; omega, ?_, q3⟩
    intro hz
    have : x.bc ≠ 0 := by simpa using hz
    dsimp only
    omega
  · obtain ⟨q1, _, q3⟩ := q
    refine ⟨rfl, by intro hz; simpa using hz, ?_⟩
    intro c hc
    rcases List.mem_cons.mp hc with rfl | hc
    · exact q1
    · exact q3 c hc

/-- a continuation row `(255, 0)` in front of a list whose collapsed head is non-zero: it is merged into that head -/
theorem Inv_chunk (S : List CItem) (par : Nat) (hS : Inv S par true) : Inv (⟨some 0, 255⟩ :: S) ((par + 1) % 2) true := by
  intro cs h
  obtain ⟨cs0, h0, hc⟩ := collapseC_cons _ S cs h
  have q := hS cs0 h0
  rcases hc with ⟨rfl, rfl⟩ | ⟨y, ys, l, rfl, _, rfl⟩ | ⟨y, ys, rfl, hm, rfl⟩
  · exact absurd q.2 (by simp)
  · obtain ⟨q1, q2, q3⟩ := q
    refine ⟨by dsimp only; omega, by intro _; dsimp only; omega, q3⟩
  · obtain ⟨q1, q2, q3⟩ := q
    have hy := q2 rfl
    exfalso
    have : shouldMerge false ⟨some 0, 255⟩ y = true := by
      unfold shouldMerge
      simp [maxBc, hy]
    rw [this] at hm
    cases hm

theorem toC_false (i : Item) : toC false i = ⟨some i.line, i.bc⟩ := by simp [toC]

/-- rows with a zero address delta in front of an even-headed list -/
theorem Inv_zeros : ∀ (Z : List Item) (S : List CItem) (nz : Bool), (∀ r ∈ Z, r.bc = 0) → Inv S 0 nz →
    ∃ nz', Inv (Z.map (toC false) ++ S) 0 nz'
  | [], S, nz, _, hS => ⟨nz, hS⟩
  | z :: Z, S, nz, hz, hS => by
    obtain ⟨nz1, h1⟩ := Inv_zeros Z S nz (fun r hr => hz r (by simp [hr])) hS
    have := Inv_row (toC false z) _ nz1 h1
    rw [toC_false] at this
    have hz0 : z.bc = 0 := hz z (by simp)
    simp only [hz0] at this
    exact ⟨_, by simpa [toC_false, hz0] using this⟩

/-- continuation rows in front of a non-zero-headed list -/
theorem Inv_chunks : ∀ (k : Nat) (S : List CItem) (par : Nat), Inv S par true →
    Inv ((List.replicate k (⟨0, 255⟩ : Item)).map (toC false) ++ S) ((par + k) % 2) true
  | 0, S, par, hS => by
    intro cs h
    have q := hS cs (by simpa using h)
    unfold Q at q ⊢
    cases cs with
    | nil => exact absurd q.2 (by simp)
    | cons hd t => exact ⟨by have := q.1; omega, q.2.1, q.2.2⟩
  | k+1, S, par, hS => by
    have ih := Inv_chunks k S par hS
    have := Inv_chunk _ _ ih
    have e : ((par + k) % 2 + 1) % 2 = (par + (k + 1)) % 2 := by omega
    rw [e] at this
    simpa [List.replicate_succ, toC_false] using this

/-- `expand_bytecode` (lnotab): `k` continuation rows `(255, 0)`, the line unchanged, and a remainder in `1..255` when `k ≥ 1` -/
theorem expBc_struct_old : ∀ (bc : Nat) (line : Option Int), ∃ k, (expBc false line bc).1 = List.replicate k ⟨0, 255⟩ ∧
    (expBc false line bc).2.1 = line ∧ (expBc false line bc).2.2 + 255 * k = bc ∧ (1 ≤ k → 1 ≤ (expBc false line bc).2.2) := by
  intro bc
  induction bc using Nat.strongRecOn with
  | _ bc ih =>
    intro line
    by_cases hb : bc > 255
    · obtain ⟨k, h1, h2, h3, h4⟩ := ih (bc - 255) (by omega) line
      have hstep := expBc_step false line bc (by simpa [maxBc] using hb)
      simp only [maxBc, Bool.false_eq_true, if_false, Extracted.maxBytecodeLnotab] at hstep
      refine ⟨k + 1, ?_, ?_, ?_, ?_⟩
      · rw [hstep]; simp only [List.replicate_succ, h1]
      · rw [hstep]; exact h2
      · rw [hstep]; dsimp only; omega
      · intro _
        rw [hstep]; dsimp only
        by_cases hk : 1 ≤ k
        · exact h4 hk
        · have : k = 0 := by omega
          subst this
          omega
    · refine ⟨0, ?_, ?_, ?_, by omega⟩ <;> rw [expBc_small false line bc (by simpa [maxBc] using (by omega : bc ≤ 255))] <;> simp

/-- rows of the line splitting (lnotab): none, or a first row that carries the address delta followed by zero-delta rows -/
def Carry (rows : List Item) (b out : Nat) : Prop :=
  (rows = [] ∧ out = b) ∨ (∃ x Z, rows = x :: Z ∧ x.bc = b ∧ (∀ r ∈ Z, r.bc = 0) ∧ out = 0)

theorem expUp_struct_old : ∀ (n : Nat) (l : Int) (b : Nat), l.toNat = n → Carry (expUp false l b).1 b (expUp false l b).2.2 := by
  intro n
  induction n using Nat.strongRecOn with
  | _ n ih =>
    intro l b hn
    by_cases hb : l > 127
    · rw [expUp_step false l b hb]
      simp only [Bool.false_eq_true, if_false]
      right
      rcases ih (l - 127).toNat (by omega) (l - 127) 0 rfl with ⟨h1, h2⟩ | ⟨x, Z, h1, h2, h3, h4⟩
      · refine ⟨_, _, rfl, rfl, ?_, h2⟩
        rw [h1]; intro r hr; cases hr
      · refine ⟨_, _, rfl, rfl, ?_, h4⟩
        rw [h1]
        intro r hr
        rcases List.mem_cons.mp hr with rfl | hr
        · exact h2
        · exact h3 r hr
    · rw [expUp_small false l b (by omega)]
      exact Or.inl ⟨rfl, rfl⟩

theorem expDown_struct_old : ∀ (n : Nat) (l : Int) (b : Nat), (-l).toNat = n → Carry (expDown false l b).1 b (expDown false l b).2.2 := by
  intro n
  induction n using Nat.strongRecOn with
  | _ n ih =>
    intro l b hn
    have hm : minLine false = -128 := rfl
    by_cases hb : l < minLine false
    · rw [expDown_step false l b hb]
      simp only [Bool.false_eq_true, if_false]
      rw [hm] at hb ⊢
      right
      rcases ih (-(l - -128)).toNat (by omega) (l - -128) 0 rfl with ⟨h1, h2⟩ | ⟨x, Z, h1, h2, h3, h4⟩
      · refine ⟨_, _, rfl, rfl, ?_, h2⟩
        rw [h1]; intro r hr; cases hr
      · refine ⟨_, _, rfl, rfl, ?_, h4⟩
        rw [h1]
        intro r hr
        rcases List.mem_cons.mp hr with rfl | hr
        · exact h2
        · exact h3 r hr
    · rw [expDown_small false l b (by omega)]
      exact Or.inl ⟨rfl, rfl⟩

theorem Carry_append (A B : List Item) (b m out : Nat) (hA : Carry A b m) (hB : Carry B m out) : Carry (A ++ B) b out := by
  rcases hA with ⟨rfl, rfl⟩ | ⟨x, Z, rfl, h2, h3, rfl⟩
  · simpa using hB
  · right
    rcases hB with ⟨rfl, rfl⟩ | ⟨y, W, rfl, k2, k3, rfl⟩
    · exact ⟨x, Z, by simp, h2, h3, rfl⟩
    · refine ⟨x, Z ++ y :: W, by simp, h2, ?_, rfl⟩
      intro r hr
      rcases List.mem_append.mp hr with h | h
      · exact h3 r h
      · rcases List.mem_cons.mp h with rfl | h
        · exact k2
        · exact k3 r h

theorem expLine_struct_old (l : Int) (b : Nat) : Carry (expLine false (some l) b).1 b (expLine false (some l) b).2.2 := by
  simp only [expLine]
  exact Carry_append _ _ b _ _ (expUp_struct_old _ l b rfl) (expDown_struct_old _ _ _ rfl)

/-- one collapsed item with an even address delta, expanded (lnotab), in front of an even-headed list -/
theorem Inv_block (l : Int) (bc : Nat) (hbc : bc % 2 = 0) (S : List CItem) (nz : Bool) (hS : Inv S 0 nz) :
    ∃ nz', Inv ((expandOne false ⟨some l, bc⟩).map (toC false) ++ S) 0 nz' := by
  obtain ⟨k, e1, e2, e3, e4⟩ := expBc_struct_old bc (some l)
  have hc := expLine_struct_old l (expBc false (some l) bc).2.2
  -- the rows after the continuation rows
  have hT : ∃ T, expandOne false ⟨some l, bc⟩ = List.replicate k ⟨0, 255⟩ ++ T ∧
      ((T = [] ∧ (expBc false (some l) bc).2.2 = 0) ∨
       (∃ x Z, T = x :: Z ∧ x.bc = (expBc false (some l) bc).2.2 ∧ ∀ r ∈ Z, r.bc = 0)) := by
    simp only [expandOne, Bool.false_eq_true, if_false]
    rw [e2, e1]
    unfold finish
    rcases hc with ⟨h1, h2⟩ | ⟨x, Z, h1, h2, h3, h4⟩
    · rw [h1, h2]
      split
      · refine ⟨[⟨lineOr128 (expLine false (some l) (expBc false (some l) bc).2.2).2.1, (expBc false (some l) bc).2.2⟩], by simp,
          Or.inr ⟨_, [], rfl, rfl, by intro r hr; cases hr⟩⟩
      · rename_i hcond
        refine ⟨[], by simp, Or.inl ⟨rfl, ?_⟩⟩
        simp only [Bool.or_eq_true, not_or, bne_iff_ne, ne_eq, Decidable.not_not] at hcond
        exact hcond.1.2
    · rw [h1, h4]
      split
      · refine ⟨x :: (Z ++ [⟨lineOr128 (expLine false (some l) (expBc false (some l) bc).2.2).2.1, 0⟩]), by simp, Or.inr ⟨x, _, rfl, h2, ?_⟩⟩
        intro r hr
        rcases List.mem_append.mp hr with h | h
        · exact h3 r h
        · simp only [List.mem_singleton] at h; rw [h]
      · exact ⟨x :: Z, by simp, Or.inr ⟨x, Z, rfl, h2, h3⟩⟩
  obtain ⟨T, hexp, hTP⟩ := hT
  rw [hexp, List.map_append, List.append_assoc]
  rcases hTP with ⟨rfl, hrem⟩ | ⟨x, Z, rfl, hx, hZ⟩
  · have hk : k = 0 := by
      by_cases h : 1 ≤ k
      · have := e4 h; omega
      · omega
    subst hk
    exact ⟨nz, by simpa using hS⟩
  · obtain ⟨nz1, i1⟩ := Inv_zeros Z S nz hZ hS
    have i2 := Inv_row (toC false x) _ nz1 i1
    rw [toC_false] at i2
    simp only [hx] at i2
    by_cases hk : 1 ≤ k
    · have hr := e4 hk
      have hd : decide ((expBc false (some l) bc).2.2 ≠ 0) = true := by simp; omega
      rw [hd] at i2
      have i3 := Inv_chunks k _ _ i2
      have e : ((expBc false (some l) bc).2.2 % 2 + k) % 2 = 0 := by omega
      rw [e] at i3
      exact ⟨true, by simpa [toC_false, hx] using i3⟩
    · have hk0 : k = 0 := by omega
      subst hk0
      have e : (expBc false (some l) bc).2.2 % 2 = 0 := by omega
      rw [e] at i2
      exact ⟨_, by simpa [toC_false, hx] using i2⟩

/-- every collapsed item of a table written from even-delta items is even -/
theorem Inv_expand : ∀ (cs : List CItem), (∀ c ∈ cs, c.bc % 2 = 0 ∧ c.line.isSome) → ∃ nz, Inv ((expand false cs).map (toC false)) 0 nz
  | [], _ => ⟨false, by simpa [expand] using Inv_nil⟩
  | c :: cs, h => by
    obtain ⟨nz, ih⟩ := Inv_expand cs (fun c' hc' => h c' (by simp [hc']))
    obtain ⟨hc1, hc2⟩ := h c (by simp)
    obtain ⟨line, bc⟩ := c
    cases line with
    | none => simp at hc2
    | some l =>
      obtain ⟨nz', hb⟩ := Inv_block l bc hc1 _ nz ih
      exact ⟨nz', by simpa [expand, List.flatMap_cons, List.map_append] using hb⟩

theorem expBc_rem_le_old : ∀ (bc : Nat) (line : Option Int), (expBc false line bc).2.2 ≤ 255 := by
  intro bc
  induction bc using Nat.strongRecOn with
  | _ bc ih =>
    intro line
    by_cases hb : bc > 255
    · have hstep := expBc_step false line bc (by simpa [maxBc] using hb)
      simp only [maxBc, Bool.false_eq_true, if_false, Extracted.maxBytecodeLnotab] at hstep
      rw [hstep]
      exact ih (bc - 255) (by omega) line
    · rw [expBc_small false line bc (by simpa [maxBc] using (by omega : bc ≤ 255))]
      dsimp only
      omega

theorem expandOne_bc_le_old (l : Int) (bc : Nat) : ∀ r ∈ expandOne false ⟨some l, bc⟩, r.bc ≤ 255 := by
  obtain ⟨k, e1, e2, e3, e4⟩ := expBc_struct_old bc (some l)
  have hrem := expBc_rem_le_old bc (some l)
  have hc := expLine_struct_old l (expBc false (some l) bc).2.2
  intro r hr
  simp only [expandOne, Bool.false_eq_true, if_false] at hr
  rw [e2, e1] at hr
  have hrows : ∀ r ∈ List.replicate k (⟨0, 255⟩ : Item) ++ (expLine false (some l) (expBc false (some l) bc).2.2).1, r.bc ≤ 255 := by
    intro r hr
    rcases List.mem_append.mp hr with h | h
    · rw [(List.mem_replicate.mp h).2]; exact Nat.le_refl _
    · rcases hc with ⟨h1, _⟩ | ⟨x, Z, h1, h2, h3, _⟩
      · rw [h1] at h; cases h
      · rw [h1] at h
        rcases List.mem_cons.mp h with rfl | h
        · omega
        · rw [h3 r h]; omega
  have hout : (expLine false (some l) (expBc false (some l) bc).2.2).2.2 ≤ 255 := by
    rcases hc with ⟨_, h2⟩ | ⟨_, _, _, _, _, h4⟩ <;> omega
  unfold finish at hr
  split at hr
  · rcases List.mem_append.mp hr with h | h
    · exact hrows r h
    · simp only [List.mem_singleton] at h; rw [h]; exact hout
  · exact hrows r hr

theorem mappingToItemsOld_even (extra : List (Nat × List Int)) : ∀ (ls : List Int) (off : Nat) (lastLine : Int) (lastOff : Nat) (cs : List CItem),
    off % 2 = 0 → lastOff % 2 = 0 → mappingToItemsOld extra (unitsAtS ls off) lastLine lastOff = .ok cs →
    ∀ c ∈ cs, c.bc % 2 = 0 ∧ c.line.isSome := by
  intro ls
  induction ls with
  | nil =>
    intro off lastLine lastOff cs _ _ h c hc
    simp [unitsAtS, unitsAt, mappingToItemsOld, pure, Except.pure] at h
    subst h; cases hc
  | cons l rest ih =>
    intro off lastLine lastOff cs ho hl h c hc
    simp only [unitsAtS, List.map_cons, unitsAt, mappingToItemsOld] at h
    obtain ⟨r, hr, h⟩ := bind_ok_lt h
    simp only [pure, Except.pure, Except.ok.injEq] at h
    subst h
    rcases List.mem_append.mp hc with hc | hc
    · generalize (if l - lastLine - List.foldl (· + ·) 0 ((lookupExtra extra off).getD []) ≠ 0
        then (l - lastLine - List.foldl (· + ·) 0 ((lookupExtra extra off).getD [])) :: (lookupExtra extra off).getD []
        else (lookupExtra extra off).getD []) = all at hc hr
      cases all with
      | nil => cases hc
      | cons a as =>
        dsimp only at hc
        rcases List.mem_cons.mp hc with rfl | hc
        · exact ⟨by dsimp only; omega, rfl⟩
        · obtain ⟨x, _, rfl⟩ := List.mem_map.mp hc
          exact ⟨rfl, rfl⟩
    · have hpar : ∀ (P : Prop) [Decidable P], (if P then lastOff else off) % 2 = 0 := by
        intro P _; split <;> omega
      exact ih (off + 2) l _ r (by omega) (hpar _) hr c hc

theorem bytesToItems_itemsToBytes : ∀ rows : List Item, (∀ r ∈ rows, -128 ≤ r.line ∧ r.line ≤ 127) → bytesToItems (itemsToBytes rows) = rows
  | [], _ => rfl
  | r :: rs, h => by
    obtain ⟨h1, h2⟩ := h r (by simp)
    simp only [itemsToBytes, bytesToItems, signed_unsigned r.line h1 h2]
    rw [bytesToItems_itemsToBytes rs (fun r' hr' => h r' (by simp [hr']))]

theorem expand_rows_old_bc (cs : List CItem) (h : ∀ c ∈ cs, c.line.isSome) : ∀ r ∈ expand false cs, (-128 ≤ r.line ∧ r.line ≤ 127) ∧ r.bc ≤ 255 := by
  intro r hr
  simp only [expand, List.mem_flatMap] at hr
  obtain ⟨c, hcm, hrc⟩ := hr
  have := h c hcm
  obtain ⟨line, bc⟩ := c
  cases line with
  | none => simp at this
  | some l => exact ⟨expandOne_rows_old l bc r hrc, expandOne_bc_le_old l bc r hrc⟩

/-- **The `co_lnotab` that `from_line_mapping` writes is well-formed for the reader**: for any per-code-unit lines and any
    recorded zero-width entries, the table has even length, consists of bytes, and — once the reader has merged the
    255-byte continuation rows with the rows they continue — every address delta is even: the hypotheses of
    `C10_decoded_lines_lnotab` / `C02_lines_lnotab`. -/
theorem encoded_table_wellformed_lnotab (ls : List Int) (extra : List (Nat × List Int)) (table : List Nat)
    (h : fromLineMapping false ⟨unitsAtS ls 0, extra⟩ = .ok table) :
    table.length % 2 = 0 ∧ (∀ x ∈ table, x < 256) ∧
    ∀ cs, collapse false (bytesToItems table) = some cs → ∀ c ∈ cs, c.bc % 2 = 0 := by
  simp only [fromLineMapping, mappingToItems, Bool.false_eq_true, if_false] at h
  obtain ⟨cs0, h0, h⟩ := bind_ok_lt h
  simp only [pure, Except.pure, Except.ok.injEq] at h
  subst h
  have hcs0 := mappingToItemsOld_even extra ls 0 0 0 cs0 rfl rfl h0
  have hrows := expand_rows_old_bc cs0 (fun c hc => (hcs0 c hc).2)
  refine ⟨by rw [itemsToBytes_length]; omega, itemsToBytes_lt _ (fun r hr => by have := (hrows r hr).2; omega), ?_⟩
  intro cs hcol
  rw [bytesToItems_itemsToBytes _ (fun r hr => (hrows r hr).1)] at hcol
  obtain ⟨nz, hinv⟩ := Inv_expand cs0 hcs0
  have q := hinv cs hcol
  intro c hc
  unfold Q at q
  cases cs with
  | nil => cases hc
  | cons hd t =>
    rcases List.mem_cons.mp hc with rfl | hc
    · exact q.1
    · exact q.2.2 c hc

end CDV.LT
