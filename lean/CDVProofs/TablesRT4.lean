import CDVProofs.TablesRT3
import CDVProofs.Props.C13
/-! # The operand tables survive `from_code` → `to_code`: seeds and decomposition of the decoder -/
namespace CDV
open CDV.Props.C09 (keyEquiv_str keyEquiv_const)
open CDV.LT (LMap)

/-- the parameters: the decoder marks indices `i, i+1, …` as found, the encoder sets the same entries -/
theorem seed_lockstep (varnames : List PStr) : ∀ (ss : List PStr) (i : Nat) (d d' : ToArgs PStr) (e : FromArgs PStr),
    Sim strEq varnames d e → (∀ k ∈ d.found.map Prod.fst, k < i) → (∀ j, j < ss.length → varnames[i + j]? = ss[j]?) →
    seedFound strEq d (List.range' i ss.length) = .ok d' → ∃ e', seedVarnames e ss i = .ok e' ∧ Sim strEq varnames d' e'
  | [], i, d, d', e, hs, _, _, h => by
    simp only [List.length_nil, List.range'_zero, seedFound, pure, Except.pure, Except.ok.injEq] at h
    subst h
    exact ⟨e, rfl, hs⟩
  | s :: ss, i, d, d', e, hs, hlt, hss, h => by
    simp only [List.length_cons, List.range'_succ, seedFound] at h
    obtain ⟨⟨t1, a, o⟩, h1, h⟩ := bind_ok h
    have hnew : assoc? i d.found = none := by
      cases hh : assoc? i d.found with
      | none => rfl
      | some x =>
        have := (assoc?_isSome_iff i d.found).mp (by simp [hh])
        exact absurd (hlt i this) (by omega)
    obtain ⟨e1, hset, hs1⟩ := sim_set_first keyEquiv_str varnames d e hs i t1 a o h1 hnew
    obtain ⟨hget, _, hfound, _, _⟩ := foundIndex_ok d i t1 a o h1
    rw [hnew] at hfound
    have ha : a = s := by
      have h0 := hss 0 (by simp)
      simp only [Nat.add_zero, List.getElem?_cons_zero] at h0
      rw [hs.dargs, h0] at hget
      cases hget; rfl
    subst ha
    obtain ⟨e2, hrec, hs2⟩ := seed_lockstep varnames ss (i + 1) t1 d' e1 hs1
      (by
        intro k hk
        rw [hfound] at hk
        simp only [List.map_append, List.map_cons, List.map_nil, List.mem_append, List.mem_singleton] at hk
        rcases hk with hk | hk
        · have := hlt k hk; omega
        · omega)
      (by
        intro j hj
        have := hss (j + 1) (by simp; omega)
        simp only [List.getElem?_cons_succ] at this
        rw [← this]
        congr 1
        omega)
      h
    refine ⟨e2, ?_, hs2⟩
    simp only [seedVarnames]
    rw [hset]
    exact hrec

def docSome (tp : Option Function) : Bool := match tp with | some f => f.doc.isSome | none => false

/-- `bytes_to_blocks` decomposed, keeping how the tables were seeded -/
theorem decodeBody_seeds (v : Ver) (T : OpTable) (names varnames freevars cellvars : List PStr) (constants : List Const) (lm : LMap)
    (tp : Option Function) (np : Nat) (code : List Nat) (st' : DecSt) (blocks : List (List Instr))
    (h : decodeBody v T names varnames freevars cellvars constants lm tp np code = .ok (st', blocks)) :
    ∃ (st0 : DecSt) (raws : List RawI) (ois : List (Nat × Instr)),
      st0.names = ⟨names, [], []⟩ ∧ seedFound strEq ⟨varnames, [], []⟩ (List.range np) = .ok st0.varnames ∧
      st0.cellvars = ⟨cellvars, [], []⟩ ∧
      (docSome tp = true → ∃ a o, ToArgs.foundIndex Const.keyEq ⟨constants, [], []⟩ ((0 : Nat) : Int) = .ok (st0.consts, a, o)) ∧
      (docSome tp = false → st0.consts = ⟨constants, [], []⟩) ∧
      parseBytes code = .ok raws ∧ decodeInstrs v T freevars st0 raws = .ok (st', ois) ∧ buildBlocks ois = .ok blocks := by
  unfold decodeBody at h
  obtain ⟨vn, hvn, h⟩ := bind_ok h
  dsimp only at h
  have key : ∀ (st0 : DecSt),
      (do let raw ← parseBytes code
          let __x ← decodeInstrs v T freevars st0 raw
          match __x with
            | (st, ois) => do
              let blocks ← buildBlocks ois
              pure (st, blocks)) = Except.ok (st', blocks) →
      ∃ (raws : List RawI) (ois : List (Nat × Instr)),
        parseBytes code = .ok raws ∧ decodeInstrs v T freevars st0 raws = .ok (st', ois) ∧ buildBlocks ois = .ok blocks := by
    intro st0 hh
    obtain ⟨raws, hraws, hh⟩ := bind_ok hh
    obtain ⟨⟨st2, ois⟩, hdec, hh⟩ := bind_ok hh
    obtain ⟨bl, hbl, hh⟩ := bind_ok hh
    simp only [pure, Except.pure, Except.ok.injEq, Prod.mk.injEq] at hh
    obtain ⟨rfl, rfl⟩ := hh
    exact ⟨raws, ois, hraws, hdec, hbl⟩
  cases tp with
  | none =>
    obtain ⟨st0, hst0, h⟩ := bind_ok h
    simp only [pure, Except.pure, Except.ok.injEq] at hst0
    subst hst0
    obtain ⟨raws, ois, k1, k2, k3⟩ := key _ h
    exact ⟨_, raws, ois, rfl, hvn, rfl, by simp [docSome], fun _ => rfl, k1, k2, k3⟩
  | some f =>
    dsimp only at h
    split at h
    · next hdoc =>
      obtain ⟨st0, hst0, h⟩ := bind_ok h
      obtain ⟨⟨t, a, o⟩, hf, hst0⟩ := bind_ok hst0
      simp only [pure, Except.pure, Except.ok.injEq] at hst0
      subst hst0
      obtain ⟨raws, ois, k1, k2, k3⟩ := key _ h
      exact ⟨_, raws, ois, rfl, hvn, rfl, fun _ => ⟨a, o, hf⟩, by simp [docSome, hdoc], k1, k2, k3⟩
    · next hdoc =>
      obtain ⟨st0, hst0, h⟩ := bind_ok h
      simp only [pure, Except.pure, Except.ok.injEq] at hst0
      subst hst0
      obtain ⟨raws, ois, k1, k2, k3⟩ := key _ h
      exact ⟨_, raws, ois, rfl, hvn, rfl, by simp [docSome, hdoc], fun _ => rfl, k1, k2, k3⟩

/-- what the header part fixes about `type` -/
theorem decodeHeader_tp (v : Ver) (F : FlagTable) (argc pos kw fl : Nat) (varnames freevars cellvars : List PStr) (constants : List Const)
    (tp : Option Function) (ann nested : Bool) (args : Args)
    (h : decodeHeader v F argc pos kw fl varnames freevars cellvars constants = .ok (tp, ann, nested, args)) :
    (tp = none → args.len = 0) ∧ (∀ f, tp = some f → f.args = args ∧ f.doc = firstStr constants) ∧
    ∃ va vk, argsFromInput ⟨argc, if v.hasPosOnly then pos else 0, kw, varnames, va, vk⟩ = .ok args := by
  unfold decodeHeader at h
  obtain ⟨S, hS, h⟩ := bind_ok h
  obtain ⟨a, hargs, h⟩ := bind_ok h
  dsimp only at h
  split at h
  · exact absurd h (throw_ne_ok _)
  obtain ⟨⟨tp', f5⟩, htp, h⟩ := bind_ok h
  dsimp only at h
  split at h
  · exact absurd h (throw_ne_ok _)
  simp only [pure, Except.pure, Except.ok.injEq, Prod.mk.injEq] at h
  obtain ⟨rfl, _, _, rfl⟩ := h
  refine ⟨?_, ?_, _, _, hargs⟩
  · intro hn
    subst hn
    rcases headerType_spec _ _ _ _ _ htp with ⟨_, _, _, hl, _⟩ | ⟨doc, ft, hcon, _⟩
    · exact hl
    · cases hcon
  · intro f hf
    subst hf
    exact headerType_fn _ _ _ _ _ htp

end CDV
