import CDVProofs.TablesTotal
import CDVProofs.CodeRT1
/-! # `co_code` survives `from_code` → `to_code` -/
namespace CDV
open CDV.Props.C09 (keyEquiv_str keyEquiv_const)
open CDV.LT (LMap)

/-- the encoder's run up to the operand-width loop, on decoded data, with the operands it resolved -/
theorem body_resolve (v : Ver) (T : OpTable) (names varnames freevars cellvars : List PStr) (K : List Const) (lm : LMap)
    (tp : Option Function) (np : Nat) (code : List Nat) (st' : DecSt) (blocks : List (List Instr)) (n : Nat)
    (al : Option AdditionalLine) (aa : List Arg)
    (hbody : decodeBody v T names varnames freevars cellvars K lm tp np code = .ok (st', blocks))
    (htail : decodeTail st' n = .ok (al, aa))
    (hdoc : ∀ f, tp = some f → f.doc = firstStr K)
    (hnone : tp = none → np = 0)
    (hvo : ∀ f, tp = some f → f.args.varnameOrder = varnames.take np ∧ np ≤ varnames.length) :
    ∃ (st0 : DecSt) (raws : List RawI) (ois : List (Nat × Instr)) (est0 : EncSt) (cv : FromArgs PStr) (est1 : EncSt) (xs : List Int),
      parseBytes code = .ok raws ∧ decodeInstrs v T freevars st0 raws = .ok (st', ois) ∧ buildBlocks ois = .ok blocks ∧
      st0.names.args = names ∧ st0.varnames.args = varnames ∧ st0.cellvars.args = cellvars ∧ st0.consts.args = K ∧
      encInit tp = .ok est0 ∧ collectCells est0.cellvars (blocks.flatten.map Instr.arg ++ aa) = .ok cv ∧
      resolveArgs tp freevars { est0 with cellvars := cv } blocks.flatten = .ok (est1, xs) ∧ xs.length = raws.length ∧
      (∀ (j : Nat) (r : RawI) (p : Nat × Instr) (x : Int), raws[j]? = some r → ois[j]? = some p → xs[j]? = some x →
        isJump p.2.arg = false → cellvars.Nodup → freevars.Nodup → x = r.arg) := by
  obtain ⟨st0, raws, ois, hn0, hv0, hc0, hk1, hk0, hraws, hdec, hbl⟩ :=
    decodeBody_seeds v T names varnames freevars cellvars K lm tp np code st' blocks hbody
  have hflat := (CDV.Props.C13.C13_partition ois blocks hbl).2
  obtain ⟨an, av, ac, ak, han, hav, hac, hak, haa⟩ := decodeTail_args st' n al aa htail
  -- the tables as seeded on both sides
  have init : ∃ est0, encInit tp = .ok est0 ∧ est0.names = {} ∧ est0.cellvars = {} ∧ Sim strEq varnames st0.varnames est0.varnames ∧
      Sim Const.keyEq K st0.consts est0.consts := by
    cases tp with
    | none =>
      have hnp := hnone rfl
      subst hnp
      simp only [List.range_zero, seedFound, pure, Except.pure, Except.ok.injEq] at hv0
      refine ⟨{}, rfl, rfl, rfl, ?_, ?_⟩
      · rw [← hv0]; exact Sim.init _ _
      · rw [hk0 (by simp [docSome])]; exact Sim.init _ _
    | some f =>
      obtain ⟨hvo1, hvo2⟩ := hvo f rfl
      have hlen : (varnames.take np).length = np := by simp [List.length_take]; omega
      obtain ⟨e', hseed, hsv⟩ := seed_lockstep varnames (varnames.take np) 0 ⟨varnames, [], []⟩ st0.varnames {} (Sim.init _ _)
        (by intro k hk; simp at hk)
        (by intro j hj; simp only [Nat.zero_add]; rw [List.getElem?_take]; rw [hlen] at hj; simp [hj])
        (by rw [hlen, ← List.range_eq_range']; exact hv0)
      have hdf := hdoc f rfl
      cases hd : f.doc with
      | some s =>
        rw [hd] at hdf
        obtain ⟨a, o, hf⟩ := hk1 (by simp [docSome, hd])
        obtain ⟨e'', hset, hsk⟩ := sim_set_first keyEquiv_const K ⟨K, [], []⟩ {} (Sim.init _ _) 0 st0.consts a o hf rfl
        have ha : a = .inner (.str s) := by
          have hget := (foundIndex_ok _ 0 _ _ _ hf).1
          dsimp only at hget
          cases K with
          | nil => simp at hget
          | cons k0 K' =>
            simp only [List.getElem?_cons_zero, Option.some.injEq] at hget
            subst hget
            cases k0 with
            | code c => simp [firstStr] at hdf
            | inner i => cases i <;> simp [firstStr] at hdf; rw [hdf]
        subst ha
        refine ⟨{ varnames := e', consts := e'' }, ?_, rfl, rfl, hsv, hsk⟩
        simp only [encInit, hvo1, hseed, hd, hset, bind, Except.bind, pure, Except.pure]
      | none =>
        refine ⟨{ varnames := e' }, ?_, rfl, rfl, hsv, ?_⟩
        · simp only [encInit, hvo1, hseed, hd, bind, Except.bind, pure, Except.pure]
        · rw [hk0 (by simp [docSome, hd])]; exact Sim.init _ _
  obtain ⟨est0, h0, en0, ec0, hsv0, hsk0⟩ := init
  -- first pass
  obtain ⟨e1, hcol, hs1⟩ := decodeInstrs_collect v T freevars cellvars (targetsOf ois) raws st0 st' {} ois
    (by rw [hc0]; exact Sim.init _ _) hdec
  obtain ⟨e2, hrun2, hcomp2⟩ := sim_all_complete keyEquiv_str cellvars st'.cellvars e1 hs1 (fun t a o => t.add strEq a o)
    (fun _ _ _ _ _ _ _ _ => rfl) ac hac
  have hcv : collectCells est0.cellvars (blocks.flatten.map Instr.arg ++ aa) = .ok e2 := by
    rw [ec0, hflat, hcol aa, haa]
    rw [collectCells_skip _ _ _ (by intro a ha s o hh; obtain ⟨p, _, rfl⟩ := List.mem_map.mp ha; cases hh)]
    rw [collectCells_skip _ _ _ (by intro a ha s o hh; obtain ⟨p, _, rfl⟩ := List.mem_map.mp ha; cases hh)]
    rw [collectCells_cells, hrun2]
    simp only [bind, Except.bind]
    rw [collectCells_skip _ _ _ (by intro a ha s o hh; obtain ⟨p, _, rfl⟩ := List.mem_map.mp ha; cases hh)]
    rfl
  -- second pass
  have hsim0 : SimSt names varnames cellvars K st0 { est0 with cellvars := e2 } :=
    ⟨by rw [hn0, en0]; exact Sim.init _ _, hsv0, hsk0, hcomp2, by rw [hc0]⟩
  obtain ⟨est1, xs, hres, hss, hxlen, hxval⟩ := decodeInstrs_resolve v T freevars tp names varnames cellvars K hdoc (targetsOf ois) raws st0 st'
    { est0 with cellvars := e2 } ois hsim0 hdec
  rw [← hflat] at hres
  have hvargs : st0.varnames.args = varnames := by
    have := seedFound_args strEq _ _ _ hv0
    rw [this]
  have hkargs : st0.consts.args = K := hsk0.dargs
  exact ⟨st0, raws, ois, est0, e2, est1, xs, hraws, hdec, hbl, by rw [hn0], hvargs, by rw [hc0], hkargs, h0, hcv, hres, hxlen, hxval⟩

theorem operandOK_class (v : Ver) (T : OpTable) (names varnames freevars cellvars : List PStr) (consts : List Const) (r : RawI) (arg : Arg)
    (h : OperandOK v T names varnames freevars cellvars consts r arg) :
    (T.get r.op = .jabs ∧ 0 ≤ decMult v * r.arg ∧ arg = .jump (decMult v * r.arg).toNat false) ∨
    (T.get r.op = .jrel ∧ 0 ≤ (r.next : Int) + decMult v * r.arg ∧ arg = .jump ((r.next : Int) + decMult v * r.arg).toNat true) ∨
    (T.get r.op ≠ .jabs ∧ T.get r.op ≠ .jrel ∧ isJump arg = false) := by
  unfold OperandOK at h
  cases hc : T.get r.op <;> simp only [hc] at h
  · exact Or.inl ⟨rfl, h.1, h.2⟩
  · exact Or.inr (Or.inl ⟨rfl, h.1, h.2⟩)
  · obtain ⟨_, s, o, he, _⟩ := h; subst he; exact Or.inr (Or.inr ⟨by simp, by simp, rfl⟩)
  · obtain ⟨_, s, o, he, _⟩ := h; subst he; exact Or.inr (Or.inr ⟨by simp, by simp, rfl⟩)
  · obtain ⟨_, h⟩ := h
    split at h
    · obtain ⟨s, o, he, _⟩ := h; subst he; exact Or.inr (Or.inr ⟨by simp, by simp, rfl⟩)
    · obtain ⟨s, he, _⟩ := h; subst he; exact Or.inr (Or.inr ⟨by simp, by simp, rfl⟩)
  · obtain ⟨_, c, o, he, _⟩ := h; subst he; exact Or.inr (Or.inr ⟨by simp, by simp, rfl⟩)
  · subst h; exact Or.inr (Or.inr ⟨by simp, by simp, rfl⟩)
  · subst h; exact Or.inr (Or.inr ⟨by simp, by simp, rfl⟩)
  · subst h; exact Or.inr (Or.inr ⟨by simp, by simp, rfl⟩)

theorem mem_jumpTargets_inv : ∀ (l : List (Nat × Instr)) (t : Nat), t ∈ jumpTargets l →
    ∃ (j off op : Nat) (rel : Bool) (n : Option Nat) (ln : Option Int) (lo : List Int), l[j]? = some (off, Instr.mk op (.jump t rel) n ln lo) := by
  intro l
  induction l with
  | nil => intro t h; simp [jumpTargets] at h
  | cons p l ih =>
    intro t h
    obtain ⟨off, ⟨op, a, n, ln, lo⟩⟩ := p
    cases a with
    | jump t' rel =>
      simp only [jumpTargets, List.mem_cons] at h
      rcases h with rfl | h
      · exact ⟨0, off, op, rel, n, ln, lo, rfl⟩
      · obtain ⟨j, o2, op2, r2, n2, l2, lo2, hj⟩ := ih t h
        exact ⟨j + 1, o2, op2, r2, n2, l2, lo2, by simpa using hj⟩
    | _ =>
      simp only [jumpTargets] at h
      obtain ⟨j, o2, op2, r2, n2, l2, lo2, hj⟩ := ih t h
      exact ⟨j + 1, o2, op2, r2, n2, l2, lo2, by simpa using hj⟩

theorem sizeOfI_some (n : Nat) (a : Int) (h : 1 ≤ n) : sizeOfI (some n) a = n := by
  cases n with
  | zero => omega
  | succ k => rfl

theorem noOverride_novOf_jump (t : Nat) (rel : Bool) (nargs : Nat) (h1 : 1 ≤ nargs) :
    (noOverride (novOf (.jump t rel) nargs) = true ↔ nargs = 1) := by
  unfold novOf
  dsimp only
  by_cases h : nargs > 1
  · rw [if_pos h]
    cases nargs with
    | zero => omega
    | succ k => simp [noOverride]; omega
  · rw [if_neg h]
    simp [noOverride]; omega

end CDV
