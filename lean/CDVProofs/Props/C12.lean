import CDVProofs.Heap
/-! # C12 — API calls are pure (the part a model can carry: the dict/list manipulation of `_json_data.py`) -/
namespace CDV.Props.C12
open CDV
open CDV.Heap (State Val load loadList loadKvs alloc modifiedInputNodes codeDataFromJson_frame)

/-- **Frame**: in any heap, `from_json_data` writes only into nodes it allocated itself — no node that existed
    before the call (the caller's document, nested dictionaries and lists included) is modified. -/
theorem C12_from_json_frame (fuel : Nat) (s : State) (root : Val) (hw : s.written = []) :
    ∀ id ∈ (Heap.codeDataFromJson fuel s root).written, s.next ≤ id :=
  codeDataFromJson_frame fuel s root hw

mutual
theorem load_written : ∀ (s : State) (j : Json), (load s j).1.written = s.written
  | s, .arr xs => by simp [load, alloc, loadList_written s xs]
  | s, .obj kvs => by simp [load, alloc, loadKvs_written s kvs]
  | _, .null => rfl
  | _, .bool _ => rfl
  | _, .int _ => rfl
  | _, .float _ => rfl
  | _, .str _ => rfl
  | _, .reprOf _ => rfl
  | _, .b64Of _ => rfl
  | _, .decOf _ => rfl
  | _, .opName _ => rfl
  | _, .lit _ => rfl
theorem loadList_written : ∀ (s : State) (xs : List Json), (loadList s xs).1.written = s.written
  | _, [] => rfl
  | s, x :: xs => by simp [loadList, loadList_written (load s x).1 xs, load_written s x]
theorem loadKvs_written : ∀ (s : State) (kvs : List (String × Json)), (loadKvs s kvs).1.written = s.written
  | _, [] => rfl
  | s, (k, x) :: kvs => by simp [loadKvs, loadKvs_written (load s x).1 kvs, load_written s x]
end

/-- for **every** JSON document: `from_json_data` modifies none of its nodes -/
theorem C12_from_json_modifies_nothing (doc : Json) : modifiedInputNodes doc = 0 := by
  simp only [modifiedInputNodes]
  have hw : (load {} doc).1.written = [] := by rw [load_written]
  have hf := C12_from_json_frame 1000 (load {} doc).1 (load {} doc).2 hw
  have : List.filter (fun x => decide (x < (load {} doc).1.next)) (Heap.codeDataFromJson 1000 (load {} doc).1 (load {} doc).2).written = [] := by
    apply List.filter_eq_nil_iff.mpr
    intro id hid
    have := hf id hid
    simp; omega
  simp [this]

/-- non-vacuity: the program does write — into its own copies (a document with a "type" dictionary) -/
example :
    let doc : Json := .obj [("blocks", .arr []), ("filename", .lit "f"), ("type", .obj [("args", .obj [])])]
    let s0 := (load {} doc)
    (Heap.codeDataFromJson 1000 s0.1 s0.2).written ≠ [] ∧ modifiedInputNodes doc = 0 := by
  constructor
  · decide
  · exact C12_from_json_modifies_nothing _

end CDV.Props.C12
