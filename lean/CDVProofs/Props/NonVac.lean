import CDVProofs.Props.C01Full
import CDVProofs.Props.C02Main
import CDVProofs.Props.C05Main
import CDVProofs.Props.C03NonVac
/-! # The assembled C02 and C05 theorems apply to a concrete compiled function (their hypotheses are satisfiable) -/
namespace CDV.Props.NonVac
open CDV CDV.Props.C01

/-- `from_code` returns on the example function and on the module around it -/
example : (toCodeData .v38 exT exF exInner).toOption.isSome = true ∧ (toCodeData .v38 exT exF exOuter).toOption.isSome = true := by
  decide +kernel

/-- `C02_from_code_reads_like_cpython` applies to the example module: every hypothesis is met -/
example (d : CodeData) (h : toCodeData .v38 exT exF exOuter = .ok d) :
    ∃ (constants : List Const) (blocks : List (List Instr)) (tp : Option Function) (ann nested : Bool) (al : Option AdditionalLine) (aa : List Arg),
      d = .mk blocks (exN "m.py") 1 (exN "<module>") 2 tp [] ann nested al aa ∧ blocks.flatten.length = (Spec.read .v38 exT exOuter).length := by
  obtain ⟨_, _, _, hcode, _, hpre, _, _, _, _, hvalid, hteven, htbytes, htbc, htbcOld, _⟩ := ex_level_outer
  obtain ⟨constants, blocks, tp, ann, nested, al, aa, hd, _, hl, _⟩ := CDV.Props.C02.C02_from_code_reads_like_cpython .v38 exT exF
    0 0 0 0 2 0x40 1 [100, 0, 100, 1, 132, 0, 90, 0, 100, 2, 83, 0] [] (exN "m.py") (exN "<module>") [exN "f"] [] [] []
    [.code exInner, .inner (.str (exN "f")), .inner .none] d h hcode hpre hvalid hteven htbytes htbc htbcOld
  exact ⟨constants, blocks, tp, ann, nested, al, aa, hd, hl⟩

/-- the premises of `C05_normalized_code_reads_same` that speak of the re-encoding hold for the example function:
    `blocks_to_bytes` returns on the normalized decoding and the operands it computes fit their widths -/
theorem ex_c05_premises (d : CodeData) (h : toCodeData .v38 exT exF exInner = .ok d) :
    (∃ out, blocksToBytes .v38 (normCode d).blocks (normCode d).addArgs (normCode d).freevars (normCode d).type = .ok out) ∧
    (∀ args, finalArgs .v38 (normCode d).blocks (normCode d).addArgs (normCode d).freevars (normCode d).type = .ok args →
      ∀ p ∈ (normCode d).blocks.flatten.zip args, Encodable p.1 p.2) := by
  have key : ((toCodeData .v38 exT exF exInner).toOption.map fun d =>
      (blocksToBytes .v38 (normCode d).blocks (normCode d).addArgs (normCode d).freevars (normCode d).type).toOption.isSome &&
      (match finalArgs .v38 (normCode d).blocks (normCode d).addArgs (normCode d).freevars (normCode d).type with
       | .ok args => decide (∀ p ∈ (normCode d).blocks.flatten.zip args, Encodable p.1 p.2)
       | .error _ => true)) = some true := by decide +kernel
  rw [h] at key
  simp only [Except.toOption, Option.map_some, Option.some.injEq, Bool.and_eq_true] at key
  obtain ⟨k1, k2⟩ := key
  constructor
  · cases hb : blocksToBytes .v38 (normCode d).blocks (normCode d).addArgs (normCode d).freevars (normCode d).type with
    | ok out => exact ⟨out, rfl⟩
    | error e => rw [hb] at k1; simp [Except.toOption] at k1
  · intro args ha
    rw [ha] at k2
    exact of_decide_eq_true k2

end CDV.Props.NonVac
