import CDVProofs.TablesTotal
import CDVProofs.Props.C14
/-! # C14 — iterating decoded data yields the stand-alone decodings of the nested code objects -/
namespace CDV.Props.C14
open CDV

theorem mapM_dec (dec : RawCode → R CodeData) : ∀ (cs : List RConst) (K : List Const),
    cs.mapM (fun c => match c with | .inner i => pure (Const.inner i) | .code k => Const.code <$> dec k) = .ok K →
    (rawCodesOf cs).mapM dec = .ok (codesOf K)
  | [], K, h => by simp [pure, Except.pure] at h; subst h; simp [codesOf, rawCodesOf, pure, Except.pure]
  | .inner i :: cs, K, h => by
    simp only [List.mapM_cons] at h
    obtain ⟨r0, h0, h⟩ := bind_ok h
    obtain ⟨rs', h1, h⟩ := bind_ok h
    simp only [pure, Except.pure, Except.ok.injEq] at h h0
    subst h; subst h0
    simpa [codesOf, rawCodesOf] using mapM_dec dec cs rs' h1
  | .code d :: cs, K, h => by
    simp only [List.mapM_cons] at h
    obtain ⟨r0, h0, h⟩ := bind_ok h
    obtain ⟨rs', h1, h⟩ := bind_ok h
    simp only [pure, Except.pure, Except.ok.injEq] at h
    subst h
    cases he : dec d with
    | error e => simp [he, Functor.map, Except.map] at h0
    | ok c =>
      simp [he, Functor.map, Except.map] at h0
      subst h0
      have := mapM_dec dec cs rs' h1
      simp [codesOf, rawCodesOf, List.mapM_cons, he, this, bind, Except.bind, pure, Except.pure]

/-- **Iteration of decoded data = the nested code objects of `co_consts`, each decoded on its own.**  For every code
    object on which `from_code` succeeds (parameters: distinct names at the start of `co_varnames`; every decoded jump
    designates an existing block — both hold for compiled code): iterating the decoded data *succeeds* and yields exactly
    one CodeData for every code object in `co_consts` — referenced by an instruction or not (dead-code elimination) — in
    `co_consts` order, each being what `dec` (the stand-alone decoder the recursion uses) returns for that nested code
    object. -/
theorem C14_iter_is_standalone_decoding (v : Ver) (T : OpTable) (F : FlagTable) (dec : RawCode → R CodeData)
    (argc pos kw nl ss fl : Nat) (fln : Int) (code lt : List Nat) (fname name : PStr) (names varnames freevars cellvars : List PStr)
    (consts : List RConst) (d : CodeData)
    (h : toCodeDataGo v T F dec (.mk argc pos kw nl ss fl fln code lt fname name names varnames freevars cellvars consts) = .ok d)
    (hlen : argc + kw + (if fl.testBit bVARARGS then 1 else 0) + (if fl.testBit bVARKEYWORDS then 1 else 0) ≤ varnames.length)
    (hnodup : (varnames.take (argc + kw + (if fl.testBit bVARARGS then 1 else 0) + (if fl.testBit bVARKEYWORDS then 1 else 0))).Nodup)
    (hjv : ∀ i ∈ d.blocks.flatten, ∀ t r, i.arg = .jump t r → t < d.blocks.length) :
    ∃ ds, iterCode d = .ok ds ∧ (rawCodesOf consts).mapM dec = .ok ds := by
  obtain ⟨K, out, hK, henc, _, _, _, hk⟩ :=
    decoded_encodes v T F dec argc pos kw nl ss fl fln code lt fname name names varnames freevars cellvars consts d h hlen hnodup hjv
  refine ⟨codesOf K, ?_, mapM_dec dec consts K hK⟩
  rw [← hk]
  cases d with
  | mk bl f fl' nm ss' tp fv fut ne al aa =>
    exact C14_iter_is_constants_table v bl aa fv tp out f fl' nm ss' fut ne al henc

end CDV.Props.C14
