import CDVProofs.CanonTop
/-! # C06 — canonical form: code objects that CPython reads the same normalize to equal CodeData -/
namespace CDV.Props.C06
open CDV

/-- **Canonical form.**  Two code objects that differ only in serialization artefacts — the order of their constant /
    name / local / cell tables with operands renumbered consistently, extra unreferenced table entries, redundant
    `EXTENDED_ARG` prefixes, redundant line-table entries, the CO_NESTED flag — are code objects CPython *reads the same*
    (`Spec.read`: same opcodes, lines and operand readings position by position, `SameRd`).  For any two code objects
    read the same, on which `from_code` succeeds under the compiler facts of C02 and whose remaining header fields decode
    alike, the normalized decodings are equal (`CodeData.__eq__`).  This is the model-level statement; the direct oracle
    builds such variants with an independent assembler and checks, first, that CPython does read them the same. -/
theorem C06_canonical_form (v : Ver) (T : OpTable) (F : FlagTable) (dec1 dec2 : RawCode → R CodeData)
    (argc1 pos1 kw1 nl1 ss1 fl1 : Nat) (fln1 : Int) (code1 lt1 : List Nat) (fname1 name1 : PStr) (names1 varnames1 freevars1 cellvars1 : List PStr) (consts1 : List RConst)
    (argc2 pos2 kw2 nl2 ss2 fl2 : Nat) (fln2 : Int) (code2 lt2 : List Nat) (fname2 name2 : PStr) (names2 varnames2 freevars2 cellvars2 : List PStr) (consts2 : List RConst)
    (d1 d2 : CodeData)
    (h1 : toCodeDataGo v T F dec1 (.mk argc1 pos1 kw1 nl1 ss1 fl1 fln1 code1 lt1 fname1 name1 names1 varnames1 freevars1 cellvars1 consts1) = .ok d1)
    (h2 : toCodeDataGo v T F dec2 (.mk argc2 pos2 kw2 nl2 ss2 fl2 fln2 code2 lt2 fname2 name2 names2 varnames2 freevars2 cellvars2 consts2) = .ok d2)
    (hcode1 : ∀ x ∈ code1, x < 256) (hcode2 : ∀ x ∈ code2, x < 256)
    (hpre1 : ∀ raws, parseBytes code1 = .ok raws → ∀ r ∈ raws, r.nargs ≤ 4) (hpre2 : ∀ raws, parseBytes code2 = .ok raws → ∀ r ∈ raws, r.nargs ≤ 4)
    (hvalid1 : ∀ s ∈ Spec.read v T (.mk argc1 pos1 kw1 nl1 ss1 fl1 fln1 code1 lt1 fname1 name1 names1 varnames1 freevars1 cellvars1 consts1),
      ∀ idx rel, s.arg = .jump idx rel → idx.isSome)
    (hvalid2 : ∀ s ∈ Spec.read v T (.mk argc2 pos2 kw2 nl2 ss2 fl2 fln2 code2 lt2 fname2 name2 names2 varnames2 freevars2 cellvars2 consts2),
      ∀ idx rel, s.arg = .jump idx rel → idx.isSome)
    (hteven1 : lt1.length % 2 = 0) (htbytes1 : ∀ x ∈ lt1, x < 256) (hteven2 : lt2.length % 2 = 0) (htbytes2 : ∀ x ∈ lt2, x < 256)
    (htbc1 : v.is310 = true → ∀ x ∈ LT.bytesToItems lt1, x.bc % 2 = 0 ∧ x.bc ≠ 255)
    (htbc2 : v.is310 = true → ∀ x ∈ LT.bytesToItems lt2, x.bc % 2 = 0 ∧ x.bc ≠ 255)
    (htbcOld1 : v.is310 = false → ∀ cs, LT.collapse false (LT.bytesToItems lt1) = some cs → ∀ c ∈ cs, c.bc % 2 = 0)
    (htbcOld2 : v.is310 = false → ∀ cs, LT.collapse false (LT.bytesToItems lt2) = some cs → ∀ c ∈ cs, c.bc % 2 = 0)
    (hheader : d1.header = d2.header)
    (K1 K2 : List Const)
    (hK1 : consts1.mapM (fun c => match c with | .inner i => pure (Const.inner i) | .code k => Const.code <$> dec1 k) = .ok K1)
    (hK2 : consts2.mapM (fun c => match c with | .inner i => pure (Const.inner i) | .code k => Const.code <$> dec2 k) = .ok K2)
    (hlen : (Spec.read v T (.mk argc1 pos1 kw1 nl1 ss1 fl1 fln1 code1 lt1 fname1 name1 names1 varnames1 freevars1 cellvars1 consts1)).length =
      (Spec.read v T (.mk argc2 pos2 kw2 nl2 ss2 fl2 fln2 code2 lt2 fname2 name2 names2 varnames2 freevars2 cellvars2 consts2)).length)
    (hsame : ∀ (j : Nat) (s1 s2 : Spec.SInstr),
      (Spec.read v T (.mk argc1 pos1 kw1 nl1 ss1 fl1 fln1 code1 lt1 fname1 name1 names1 varnames1 freevars1 cellvars1 consts1))[j]? = some s1 →
      (Spec.read v T (.mk argc2 pos2 kw2 nl2 ss2 fl2 fln2 code2 lt2 fname2 name2 names2 varnames2 freevars2 cellvars2 consts2))[j]? = some s2 →
      s1.op = s2.op ∧ s1.line = s2.line ∧ SameRd K1 K2 s1.arg s2.arg) :
    CodeData.beq (normCode d1) (normCode d2) = true :=
  canonical_form v T F dec1 dec2 argc1 pos1 kw1 nl1 ss1 fl1 fln1 code1 lt1 fname1 name1 names1 varnames1 freevars1 cellvars1 consts1
    argc2 pos2 kw2 nl2 ss2 fl2 fln2 code2 lt2 fname2 name2 names2 varnames2 freevars2 cellvars2 consts2 d1 d2 h1 h2
    hcode1 hcode2 hpre1 hpre2 hvalid1 hvalid2 hteven1 htbytes1 hteven2 htbytes2 htbc1 htbc2 htbcOld1 htbcOld2 hheader K1 K2 hK1 hK2 hlen hsame

end CDV.Props.C06
