import CDVProofs.EncodeRead
import CDVProofs.EncTables
import CDVProofs.EncodeLines
import CDVProofs.EncodeOps
import CDVProofs.EncodeFree
import CDVProofs.Props.C09
/-! # C03 — encoding any well-formed CodeData yields code that says what the data says

Theorems about the model of `blocks_to_bytes` (`CDV/Encode.lean`): the operand-width loop terminates; when it
returns, CPython reads the assembled bytes back as the same instruction list and every jump designates the first
instruction of its target block; an operand index handed out by a table stays inside the table that is emitted and
designates an equivalent entry (equivalence = `constant_key`, which C08 shows separates 0.0 and -0.0, 1/True/1.0, 'a'/b'a').
Helper lemmas are in `CDVProofs/Bytes.lean`, `Relax.lean`, `EncodeRead.lean`, `EncTables.lean`. -/
namespace CDV.Props.C03
open CDV

/-- **`to_code()` terminates**: in the state in which `blocks_to_bytes` enters its `while` loop (operands resolved
    once, every jump operand 1), for *every* instruction list, block table and interpreter version, the loop over
    operand widths does not run out of the `3·(number of jumps) + 3` passes the model gives it: it returns, or raises the
    `KeyError` of a jump to a block that does not exist. -/
theorem C03_loop_terminates (v : Ver) (tp : Option Function) (fv : List PStr) (st st' : EncSt) (flat : List Instr) (starts : List Nat)
    (args0 : List Int) (h : resolveArgs tp fv st flat = .ok (st', args0)) (e : Err)
    (he : relax v flat starts (3 * (flat.filter fun i => isJump i.arg).length + 3) args0 = .error e) : e = .raised := by
  have hj := resolveArgs_jumpsOne tp fv flat st st' args0 h
  have hg : Growing v flat starts args0 := growing_init v starts _ flat args0 0 hj
  have hs := slack_le flat args0
  exact relax_terminates v flat starts _ args0 hg (by omega) e he

/-- **Every jump lands on the first instruction of its target block, whatever operand-width growth that needs.**
    Whenever the loop returns operands `res`, CPython's reader (`dis._unpack_opargs` / `ceval`: `Spec.units`, `Spec.fold`)
    reads the assembled bytes back as one instruction per instruction of the data, with the same opcode, and for every
    jump the target CPython computes from the assembled operand (absolute: operand × unit; relative: next offset +
    operand × unit) is the offset of the first instruction of the target block (`starts[t]`).
    Hypotheses: operands fit the width they are written in (`Encodable`: C-int range, a width override not smaller
    than the operand needs), opcodes are bytes, no block is empty at the end of the code. -/
theorem C03_jumps_land (v : Ver) (instrs : List Instr) (starts : List Nat) (fuel : Nat) (args res : List Int)
    (hl : instrs.length = args.length) (h : relax v instrs starts fuel args = .ok res)
    (henc : ∀ p ∈ instrs.zip res, Encodable p.1 p.2) (hop : ∀ i ∈ instrs, i.op < 256)
    (hst : ∀ s ∈ starts, s < instrs.length) :
    let rd := Spec.fold EXTENDED_ARG (Spec.units EXTENDED_ARG (emit instrs res 0).1 0 0) none
    rd.length = instrs.length ∧
    ∀ (j : Nat) (i : Instr) (t : Nat) (rel : Bool), instrs[j]? = some i → i.arg = .jump t rel →
      ∃ s first arg nxt, starts[t]? = some s ∧ rd[j]? = some (first, i.op, arg, nxt) ∧
        Spec.idxOfOffset (rd.map (·.1)) (if rel then (nxt : Int) + specMult v * arg else specMult v * arg) = some s :=
  jumps_land v instrs starts fuel args res hl h henc hop hst

/-- **The assembled bytes read back as the instruction list**: opcode, operand and offsets of every instruction, for
    any operands that fit their widths. -/
theorem C03_reads_back (is : List Instr) (as : List Int) (hl : is.length = as.length)
    (henc : ∀ p ∈ is.zip as, Encodable p.1 p.2) (hop : ∀ i ∈ is, i.op < 256) :
    Spec.fold EXTENDED_ARG (Spec.units EXTENDED_ARG (emit is as 0).1 0 0) none = (rawsOf is as 0).map RawI.proj ∧
    ∀ (j : Nat) (i : Instr) (a : Int), is[j]? = some i → as[j]? = some a →
      ((rawsOf is as 0).map RawI.proj)[j]? =
        some (2 * psum (szs is as) 0 j, i.op, a, 2 * psum (szs is as) 0 (j + 1)) := by
  refine ⟨read_emit is as hl henc hop, ?_⟩
  intro j i a hi ha
  rw [List.getElem?_map, rawsOf_get is as 0 j i a hl hi ha]
  simp [RawI.proj]

/-- **Each instruction carries the given line or no line — 3.10.**  For every non-empty instruction list and operands,
    whatever widths the instructions end up with: the `co_linetable` that `to_code()` writes from the per-code-unit
    lines recorded while assembling (data without a trailing extra line entry) makes CPython's reader assign to the first
    code unit of the `j`-th instruction exactly that instruction's `line_number`, and no line where it is `None`. -/
theorem C03_lines_310 (is : List Instr) (as : List Int) (fln : Int) (extra : List (Nat × List Int)) (hl : is.length = as.length)
    (hne : is ≠ []) :
    ∃ table, LT.fromLineMapping true ⟨(emit is as 0).2.1.map (fun p => (p.1, p.2.map (· - fln))), extra⟩ = .ok table ∧
      ∀ (j : Nat) (i : Instr), is[j]? = some i → Spec.lineOf .v310 table fln (2 * psum (szs is as) 0 j) = i.line :=
  encode_lines_310 is as fln extra hl hne

/-- **… and `co_lnotab` (3.7-3.9)**, where every instruction has to have a line (`None` cannot be written before 3.10:
    known finding `C03:none-line-before-3.10`), with any zero-width extra entries recorded as overrides. -/
theorem C03_lines_lnotab (v : Ver) (hv : v.is310 = false) (is : List Instr) (as : List Int) (fln : Int) (extra : List (Nat × List Int))
    (hl : is.length = as.length) (hsome : ∀ i ∈ is, i.line.isSome) :
    ∃ table, LT.fromLineMapping false ⟨(emit is as 0).2.1.map (fun p => (p.1, p.2.map (· - fln))), extra⟩ = .ok table ∧
      ∀ (j : Nat) (i : Instr), is[j]? = some i → Spec.lineOf v table fln (2 * psum (szs is as) 0 j) = i.line :=
  encode_lines_lnotab v hv is as fln extra hl hsome

/-- operands in C-int range are always written in a width that reads back (no override needed) -/
theorem C03_default_width_fits (a : Int) (h1 : -(2 ^ 31) ≤ a) (h2 : a < 2 ^ 31) : Fits a (sizeOfI none a) :=
  fits_instrsize a h1 h2

/-- **Operands index inside their table and designate the given entry.**  For every table (names, variables, cells,
    constants keyed by `constant_key`), in any state reached by table operations: the index `i` that `add` returns for
    an operand `a` (with or without a position override) still designates an entry equivalent to `a` after any further
    sequence of table operations, and if `to_tuple` then succeeds, `i` lies inside the emitted tuple and the entry
    there is equivalent to `a`.  (When overrides leave gaps `to_tuple` raises; when they collide `__setitem__` raises.) -/
theorem C03_operand_in_table {α} (keyEq : α → α → Bool) (hk : KeyEquiv keyEq) (t t1 t2 : FromArgs α) (a : α) (ov : Option Nat) (i : Nat)
    (hinv : t.Inv keyEq) (hadd : t.add keyEq a ov = .ok (t1, i)) (hsteps : FromArgs.Steps keyEq t1 t2)
    (tbl : List α) (htup : t2.toTuple = .ok tbl) :
    ∃ a', tbl[i]? = some a' ∧ keyEq a a' = true := by
  obtain ⟨i1, _, a1, h1, e1⟩ := FromArgs.add_spec hk t t1 a ov i hinv hadd
  obtain ⟨_, hext⟩ := FromArgs.steps_spec hk hsteps i1
  obtain ⟨a2, h2, e2⟩ := hext i a1 h1
  exact ⟨a2, FromArgs.toTuple_get t2 tbl htup i a2 h2, hk.trans _ _ _ e1 e2⟩

/-- **Every operand resolves to exactly the given name / variable / constant, with its index inside its table** — for
    `blocks_to_bytes` as a whole.  Whenever it returns: the bytes are the assembly of the instructions with some operand
    list, and for every instruction that names a name, a local, a cell variable or a constant, that operand is an index
    into the emitted table at which exactly that name / variable sits (for a constant: a constant with the same
    `constant_key`, so CPython-distinct constants are never exchanged) — through parameter seeding, the docstring slot,
    position overrides, additional arguments and the width loop.  (Free-variable operands: `C03_free_operands`.) -/
theorem C03_operands_resolve (v : Ver) (blocks : List (List Instr)) (addArgs : List Arg) (fv : List PStr) (tp : Option Function)
    (out : BlocksOut) (h : blocksToBytes v blocks addArgs fv tp = .ok out) :
    ∃ args : List Int, out.code = (emit blocks.flatten args 0).1 ∧ args.length = blocks.flatten.length ∧
      ∀ (j : Nat) (ins : Instr) (a : Int), blocks.flatten[j]? = some ins → args[j]? = some a → OperandInTables out ins.arg a :=
  blocksToBytes_operands v blocks addArgs fv tp out h

/-- **Free variables are as described.**  Whenever `blocks_to_bytes` returns, every instruction that names a free variable
    carries `len(co_cellvars) + (index of the variable in freevars)`, with the `co_cellvars` that is actually emitted — which
    is how CPython resolves it (`arg ≥ len(co_cellvars)` → `co_freevars[arg - len(co_cellvars)]`).  The cell variables are
    all collected, from the instructions *and* from the additional arguments, before the first operand is resolved, and the
    table does not grow afterwards (the invariant behind repaired defect cd20ca2; seeded change C01-r3 breaks exactly it). -/
theorem C03_free_operands (v : Ver) (blocks : List (List Instr)) (addArgs : List Arg) (fv : List PStr) (tp : Option Function)
    (out : BlocksOut) (h : blocksToBytes v blocks addArgs fv tp = .ok out) :
    ∃ args : List Int, out.code = (emit blocks.flatten args 0).1 ∧
      ∀ (j : Nat) (ins : Instr) (s : PStr) (a : Int), blocks.flatten[j]? = some ins → ins.arg = .free s → args[j]? = some a →
        ∃ idx, indexOfStr s fv = some idx ∧ a = ((out.cellvars.length + idx : Nat) : Int) :=
  blocksToBytes_free v blocks addArgs fv tp out h

/-- the empty tables `blocks_to_bytes` starts from satisfy the invariant -/
theorem C03_empty_inv {α} (keyEq : α → α → Bool) : (({} : FromArgs α)).Inv keyEq := by
  intro a i h; simp [keyFind] at h

/-- a position override that collides with a different entry makes the encoder raise -/
theorem C03_collision_raises {α} (keyEq : α → α → Bool) (t : FromArgs α) (i : Nat) (old a : α)
    (h : assoc? i t.iToArg = some old) (hne : keyEq old a = false) : t.set keyEq i a = .error .raised := by
  simp [FromArgs.set, h, hne, throw, throwThe, MonadExceptOf.throw]

/-- overrides that leave a gap make `to_tuple` raise -/
theorem C03_gap_raises {α} (t : FromArgs α)
    (h : ((t.iToArg.foldl (fun acc x => insertByKey x acc) []).map (·.1) == List.range (t.iToArg.foldl (fun acc x => insertByKey x acc) []).length) = false) :
    t.toTuple = .error .raised := by
  simp [FromArgs.toTuple, h, throw, throwThe, MonadExceptOf.throw]

set_option maxRecDepth 20000 in
/-- non-vacuity: a forward absolute jump over 130 one-unit instructions on 3.9 (operand 2·131 = 262 needs two code
    units, which moves the target to 264): the loop returns with the operand that lands -/
example : relax .v39 (Instr.mk 113 (.jump 1 false) none none [] :: List.replicate 130 (Instr.mk 9 (.noarg 0) none none []) ++ [Instr.mk 83 (.noarg 0) none none []])
    [0, 131] 6 (1 :: List.replicate 131 0) = .ok (264 :: List.replicate 131 0) := by
  rfl

/-- non-vacuity for the table theorem: the constants 0.0 and -0.0 get different indices, and asking again for 0.0
    gives the first index back -/
example : (do
      let (t1, i) ← (({} : FromArgs Const)).add Const.keyEq (.inner (.float 0)) none
      let (t2, j) ← t1.add Const.keyEq (.inner (.float (2^63))) none
      let (_, k) ← t2.add Const.keyEq (.inner (.float 0)) none
      pure (i, j, k)) = (.ok (0, 1, 0) : R (Nat × Nat × Nat)) := by
  simp [FromArgs.add, FromArgs.set, FromArgs.len, keyFind, keySet, assoc?, Const.keyEq, InnerConst.keyEq, floatKeyEq, isNaN, pure, Except.pure, bind, Except.bind]

end CDV.Props.C03
