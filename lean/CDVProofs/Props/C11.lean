import CDVProofs.Flags
/-! # C11 — flags convert without loss; nothing unrepresentable is silently dropped -/
namespace CDV.Props.C11
open CDV

/-- for **every** flag word and **every** table of known flags: a successful conversion is lossless -/
theorem C11_flags_roundtrip (F : FlagTable) (w : Nat) (s : List Nat) (h : toFlags F w = .ok s) :
    fromFlags s = w := toFlags_roundtrip F w s h

/-- every combination of known flags converts -/
theorem C11_known_ok (F : FlagTable) (w : Nat) (h : ∀ i, w.testBit i = true → i ∈ F.known) :
    ∃ s, toFlags F w = .ok s := toFlags_known_ok F w h

/-- a word with any bit that has no name makes the conversion raise -/
theorem C11_unknown_raises (F : FlagTable) (w i : Nat) (hi : w.testBit i = true) (hk : i ∉ F.known) :
    toFlags F w = .error .raised := toFlags_unknown_raises F w i hi hk

/-- the conversion names exactly the bits that are set -/
theorem C11_names_exact (F : FlagTable) (w : Nat) (s : List Nat) (h : toFlags F w = .ok s) (i : Nat) :
    i ∈ s ↔ (i ∈ F.known ∧ w.testBit i = true) := toFlags_mem F w s h i

/-- non-vacuity on the 3.8 table: 0x43 converts, 0x4000043 raises (the witness of the repaired defect) -/
example : toFlags ⟨[0,1,2,3,4,5,6,7,8,9,17,18,19,20,21,22,23,24], 24⟩ 0x43 = .ok [0, 1, 6] := by rfl
example : toFlags ⟨[0,1,2,3,4,5,6,7,8,9,17,18,19,20,21,22,23,24], 24⟩ 0x4000043 = .error .raised := by rfl

end CDV.Props.C11
