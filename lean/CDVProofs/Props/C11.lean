import CDVProofs.Flags
import CDVProofs.Header
/-! # C11 — flags convert without loss; nothing unrepresentable is silently dropped -/
namespace CDV.Props.C11
open CDV

/-- for **every** flag word and **every** table of known flags: a successful conversion is lossless -/
theorem C11_flags_roundtrip (F : FlagTable) (w : Nat) (s : List Nat) (h : toFlags F w = .ok s) :
    fromFlags s = w := toFlags_roundtrip F w s h

/-- every combination of known flags converts -/
theorem C11_known_ok (F : FlagTable) (w : Nat) (h : ∀ i, w.testBit i = true → i ∈ F.known) :
    ∃ s, toFlags F w = .ok s := toFlags_known_ok F w h

/-- a word with any bit that has no name makes the conversion raise -/
theorem C11_unknown_raises (F : FlagTable) (w i : Nat) (hi : w.testBit i = true) (hk : i ∉ F.known) :
    toFlags F w = .error .raised := toFlags_unknown_raises F w i hi hk

/-- the conversion names exactly the bits that are set -/
theorem C11_names_exact (F : FlagTable) (w : Nat) (s : List Nat) (h : toFlags F w = .ok s) (i : Nat) :
    i ∈ s ↔ (i ∈ F.known ∧ w.testBit i = true) := toFlags_mem F w s h i

/-- **Never silently lossy on the flag word.**  For any code object header whatsoever — any flag word (altered by hand or
    not), any argument counts, any variable tables, any table of known flags: if the header part of `from_code` returns at
    all, the flags `to_code` re-derives from what it returned are exactly `co_flags`.  Equivalently: a flag that is not
    consumed into a field, or that contradicts the tables (CO_NOFREE), makes `from_code` raise. -/
theorem C11_header_flags_no_loss (v : Ver) (F : FlagTable) (argc pos kw fl : Nat) (varnames freevars cellvars : List PStr)
    (constants : List Const) (tp : Option Function) (ann nested : Bool) (args : Args)
    (hA : F.annotations ∉ [bOPTIMIZED, bNEWLOCALS, bVARARGS, bVARKEYWORDS, bNESTED, bGENERATOR, bNOFREE, bCOROUTINE, bASYNC_GENERATOR])
    (h : decodeHeader v F argc pos kw fl varnames freevars cellvars constants = .ok (tp, ann, nested, args)) :
    fromFlags (flagsOut F tp freevars cellvars ann nested) = fl :=
  header_flags_roundtrip v F argc pos kw fl varnames freevars cellvars constants tp ann nested args hA h

/-- … and on the argument counts, for headers whose parameter names are distinct and present in `co_varnames`
    (for other headers the check decides: altered counts either raise or reproduce). -/
theorem C11_header_counts_no_loss (argc pos kw : Nat) (varnames : List PStr) (varargs varkw : Bool) (a : Args)
    (h : argsFromInput ⟨argc, pos, kw, varnames, varargs, varkw⟩ = .ok a)
    (hlen : argc + kw + (if varargs then 1 else 0) + (if varkw then 1 else 0) ≤ varnames.length)
    (hnodup : (varnames.take (argc + kw + (if varargs then 1 else 0) + (if varkw then 1 else 0))).Nodup) :
    a.posOnly.length = pos ∧ a.posOnly.length + a.posOrKw.length = argc ∧ a.kwOnly.length = kw ∧
    a.varPos.isSome = varargs ∧ a.varKw.isSome = varkw :=
  let ⟨h1, h2, h3, h4, h5, _, _⟩ := header_args_roundtrip argc pos kw varnames varargs varkw a h hlen hnodup
  ⟨h1, h2, h3, h4, h5⟩

/-- non-vacuity on the 3.8 table: 0x43 converts, 0x4000043 raises (the witness of the repaired defect) -/
example : toFlags ⟨[0,1,2,3,4,5,6,7,8,9,17,18,19,20,21,22,23,24], 24⟩ 0x43 = .ok [0, 1, 6] := by rfl
example : toFlags ⟨[0,1,2,3,4,5,6,7,8,9,17,18,19,20,21,22,23,24], 24⟩ 0x4000043 = .error .raised := by rfl

end CDV.Props.C11
