import CDVProofs.Props.C14
import CDVProofs.Props.C01Full
/-! # C14 — `all_code_data` walks the whole tree of `co_consts`, every depth -/
namespace CDV.Props.C14
open CDV

/-- CPython's side: the code object itself, then, for each code object in its `co_consts` in order, that object's own
    walk (pre-order over the nesting tree; fuel = nesting depth bound, as in the model of `to_code`) -/
def rawAllFuel : Nat → RawCode → List RawCode
  | 0, _ => []
  | n+1, c => c :: ((rawCodesOf c.consts).map (rawAllFuel n)).flatten

/-- position by position, the CodeData encodes to the code object -/
inductive EncAll (v : Ver) (F : FlagTable) : List CodeData → List RawCode → Prop
  | nil : EncAll v F [] []
  | cons {m d c ds cs} : fromCodeDataFuel v F m d = .ok c → EncAll v F ds cs → EncAll v F (d :: ds) (c :: cs)

theorem EncAll.append {v F} : ∀ {a b x y}, EncAll v F a x → EncAll v F b y → EncAll v F (a ++ b) (x ++ y)
  | _, _, _, _, .nil, h => h
  | _, _, _, _, .cons h0 t, h => .cons h0 (EncAll.append t h)

theorem EncAll.length_eq {v F} : ∀ {a x}, EncAll v F a x → a.length = x.length
  | _, _, .nil => rfl
  | _, _, .cons _ t => by simp [EncAll.length_eq t]

/-- the children, one by one -/
theorem kids_walk (v : Ver) (F : FlagTable) (n : Nat)
    (ih : ∀ d c, fromCodeDataFuel v F n d = .ok c → ∃ l, allCodeFuel n d = .ok l ∧ EncAll v F l (rawAllFuel n c)) :
    ∀ (ds : List CodeData) (cs : List RawCode), ds.mapM (fromCodeDataFuel v F n) = .ok cs →
      ∃ rest, ds.mapM (allCodeFuel n) = .ok rest ∧ EncAll v F rest.flatten ((cs.map (rawAllFuel n)).flatten)
  | [], cs, h => by
    simp [pure, Except.pure] at h; subst h
    exact ⟨[], by simp [pure, Except.pure], .nil⟩
  | d :: ds, cs, h => by
    simp only [List.mapM_cons] at h
    obtain ⟨c, h0, h⟩ := bind_ok h
    obtain ⟨cs', h1, h⟩ := bind_ok h
    simp only [pure, Except.pure, Except.ok.injEq] at h
    subst h
    obtain ⟨l, hl, el⟩ := ih d c h0
    obtain ⟨rest, hr, er⟩ := kids_walk v F n ih ds cs' h1
    refine ⟨l :: rest, ?_, ?_⟩
    · simp [List.mapM_cons, hl, hr, bind, Except.bind, pure, Except.pure]
    · simpa using EncAll.append el er

/-- **`all_code_data` visits every code object, at every depth, once, in CPython's order.**  If `to_code` succeeds on
    `d` and returns `c`, then `all_code_data(d)` succeeds and yields exactly one CodeData per node of the tree of
    code objects reachable from `c` through `co_consts` — referenced by an instruction or not — in pre-order, and the
    CodeData at each position is one that encodes to the code object at that position. -/
theorem C14_all_walks_co_consts (v : Ver) (F : FlagTable) : ∀ (n : Nat) (d : CodeData) (c : RawCode),
    fromCodeDataFuel v F n d = .ok c →
    ∃ l, allCodeFuel n d = .ok l ∧ EncAll v F l (rawAllFuel n c)
  | 0, d, c, h => by simp [fromCodeDataFuel, throw, throwThe, MonadExceptOf.throw] at h
  | n+1, d, c, h => by
    obtain ⟨ds, hi, hm⟩ := C14_iter_matches_co_consts v F n d c h
    obtain ⟨rest, hr, er⟩ := kids_walk v F n (C14_all_walks_co_consts v F n) ds _ hm
    refine ⟨d :: rest.flatten, ?_, ?_⟩
    · simp [allCodeFuel, hi, hr, bind, Except.bind, pure, Except.pure]
    · exact .cons h er

/-- corollary: as many CodeData as there are code objects in the tree -/
theorem C14_all_count (v : Ver) (F : FlagTable) (n : Nat) (d : CodeData) (c : RawCode) (l : List CodeData)
    (h : fromCodeDataFuel v F n d = .ok c) (hl : allCodeFuel n d = .ok l) :
    l.length = (rawAllFuel n c).length := by
  obtain ⟨l', hl', e⟩ := C14_all_walks_co_consts v F n d c h
  rw [hl] at hl'
  cases hl'
  exact e.length_eq

/-- non-vacuity: the module of `Props/C01Full.lean` that defines a function — its decoding encodes, `all_code_data` yields
    two CodeData, the tree of code objects has two nodes -/
example : (do let d ← toCodeDataFuel .v38 CDV.Props.C01.exT CDV.Props.C01.exF 2 CDV.Props.C01.exOuter
              let c ← fromCodeDataFuel .v38 CDV.Props.C01.exF 2 d
              let l ← allCodeFuel 2 d
              pure (l.length, (rawAllFuel 2 c).length) : R (Nat × Nat)).toOption = some (2, 2) := by decide +kernel

end CDV.Props.C14
