import CDVProofs.Props.C03Main
import CDVProofs.Props.C02Main
import CDVProofs.EncodeWF
import CDVProofs.EncodeWFAL
import CDVProofs.Props.C03Full
import CDVProofs.Props.C03NonVac
import CDV.Normalize
/-! # C03 — the bytecode `to_code()` assembles lies in the domain of the decoder's theorems -/
namespace CDV.Props.C03
open CDV

/-- **The assembled bytecode is well-formed for the reader.**  Under the hypotheses of `C03_to_code_reads_like_data`:
    `co_code` consists of bytes, no instruction has more than three `EXTENDED_ARG` prefixes, and every jump CPython reads
    in it lands on an instruction start — the facts about `co_code` that `C02_from_code_reads_like_cpython` assumes of
    compiled code hold of encoded code. -/
theorem C03_emitted_code_wellformed (v : Ver) (T : OpTable) (blocks : List (List Instr)) (addArgs : List Arg) (fv : List PStr)
    (tp : Option Function) (out : BlocksOut) (h : blocksToBytes v blocks addArgs fv tp = .ok out)
    (enc : CodeData → R RawCode) (consts' : List RConst)
    (hconsts : out.consts.mapM (fun c => match c with | .inner i => pure (RConst.inner i) | .code d => RConst.code <$> enc d) = .ok consts')
    (fln : Int) (table : List Nat)
    (htable : LT.fromLineMapping v.is310 ⟨out.lm.lines.map (fun p => (p.1, p.2.map (· - fln))), out.lm.extra⟩ = .ok table)
    (argc pos kw nl ss fl : Nat) (fname name : PStr)
    (hkind : ∀ ins ∈ blocks.flatten, KindOK T ins) (hopb : ∀ ins ∈ blocks.flatten, ins.op < 256)
    (henc : ∀ args, finalArgs v blocks addArgs fv tp = .ok args → ∀ p ∈ blocks.flatten.zip args, Encodable p.1 p.2)
    (hst : ∀ s ∈ blockStarts blocks 0, s < blocks.flatten.length) (hne : blocks.flatten ≠ [])
    (hlines : v.is310 = false → ∀ ins ∈ blocks.flatten, ins.line.isSome) :
    (∀ x ∈ out.code, x < 256) ∧
    (∀ raws, parseBytes out.code = .ok raws → ∀ r ∈ raws, r.nargs ≤ 4) ∧
    (∀ s ∈ Spec.read v T (.mk argc pos kw nl ss fl fln out.code table fname name out.names out.varnames fv out.cellvars consts'),
      ∀ idx rel, s.arg = .jump idx rel → idx.isSome) := by
  obtain ⟨args0, args, fuel, hal, hrelax, hcode, hlm, hlen, hops, hfree, hraw, hfinal⟩ := blocksToBytes_spec' v blocks addArgs fv tp out h
  have hencA := henc args hfinal
  have hl' : blocks.flatten.length = args.length := hlen.symm
  refine ⟨?_, ?_, ?_⟩
  · rw [hcode]; exact emit_lt blocks.flatten args 0 hopb
  · intro raws hp r hr
    have hpe := parse_emit blocks.flatten args 0 hl' hencA
    rw [hcode] at hp
    have : raws = rawsOf blocks.flatten args 0 := by
      have e : parseBytes (emit blocks.flatten args 0).1 = parseGo EXTENDED_ARG (emit blocks.flatten args 0).1 0 0 0 := rfl
      rw [e, hpe] at hp
      exact (Except.ok.inj hp).symm
    rw [this] at hr
    exact rawsOf_nargs blocks.flatten args 0 (fun p hp => (hencA p hp).2.1) r hr
  · obtain ⟨hrl, hall⟩ := C03_to_code_reads_like_data v T blocks addArgs fv tp out h enc consts' hconsts fln table htable
      argc pos kw nl ss fl fname name hkind hopb henc hst hne hlines
    intro s hs idx rel harg
    obtain ⟨j, hj⟩ := List.mem_iff_getElem?.mp hs
    have hjlt : j < blocks.flatten.length := by
      rw [← hrl]; exact (List.getElem?_eq_some_iff.mp hj).1
    have hi : blocks.flatten[j]? = some blocks.flatten[j] := List.getElem?_eq_getElem hjlt
    have := (hall j _ s hi hj).2.2
    rw [harg] at this
    obtain ⟨t, _, hsome, _⟩ := this
    exact hsome

/-- **… and so is the line table written**: even length, bytes, even address deltas (3.10: none of them 255; ≤3.9: once
    the reader has merged continuation rows) — `encoded_table_wellformed_310` / `_lnotab`, for every list of per-code-unit
    lines and any recorded zero-width entries. -/
theorem C03_emitted_table_wellformed (v : Ver) (blocks : List (List Instr)) (addArgs : List Arg) (fv : List PStr)
    (tp : Option Function) (out : BlocksOut) (h : blocksToBytes v blocks addArgs fv tp = .ok out)
    (fln : Int) (table : List Nat)
    (htable : LT.fromLineMapping v.is310 ⟨out.lm.lines.map (fun p => (p.1, p.2.map (· - fln))), out.lm.extra⟩ = .ok table)
    (hne : blocks.flatten ≠ [])
    (hlines : v.is310 = false → ∀ ins ∈ blocks.flatten, ins.line.isSome) :
    table.length % 2 = 0 ∧ (∀ x ∈ table, x < 256) ∧
    (v.is310 = true → ∀ x ∈ LT.bytesToItems table, x.bc % 2 = 0 ∧ x.bc ≠ 255) ∧
    (v.is310 = false → ∀ cs, LT.collapse false (LT.bytesToItems table) = some cs → ∀ c ∈ cs, c.bc % 2 = 0) := by
  obtain ⟨args0, args, fuel, hal, hrelax, hcode, hlm, hlen, _⟩ := blocksToBytes_spec' v blocks addArgs fv tp out h
  have e1 : out.lm.lines = (emit blocks.flatten args 0).2.1 := by rw [hlm]
  rw [e1] at htable
  exact encode_table_wellformed v blocks.flatten args fln out.lm.extra hlen.symm hne hlines table htable

/-- **Decoding what was encoded reads like the data** (`from_code ∘ to_code`, at the level of what CPython reads): under the
    hypotheses of `C03_to_code_reads_like_data`, the code object `to_code()` builds satisfies *every* hypothesis of
    `C02_from_code_reads_like_cpython`; hence, whenever `from_code` returns on it, the decoded data has one instruction
    per instruction of the input data, in order, with the same opcode and the same line (`None` iff none); the operands
    are related through CPython's reading (`ArgReads` on one side, `ArgSays` on the other). -/
theorem C03_decode_of_encode (v : Ver) (T : OpTable) (F : FlagTable) (blocks : List (List Instr)) (addArgs : List Arg) (fv : List PStr)
    (tp : Option Function) (out : BlocksOut) (h : blocksToBytes v blocks addArgs fv tp = .ok out)
    (enc : CodeData → R RawCode) (consts' : List RConst)
    (hconsts : out.consts.mapM (fun c => match c with | .inner i => pure (RConst.inner i) | .code d => RConst.code <$> enc d) = .ok consts')
    (fln : Int) (table : List Nat)
    (htable : LT.fromLineMapping v.is310 ⟨out.lm.lines.map (fun p => (p.1, p.2.map (· - fln))), out.lm.extra⟩ = .ok table)
    (argc pos kw nl ss fl : Nat) (fname name : PStr)
    (hkind : ∀ ins ∈ blocks.flatten, KindOK T ins) (hopb : ∀ ins ∈ blocks.flatten, ins.op < 256)
    (henc : ∀ args, finalArgs v blocks addArgs fv tp = .ok args → ∀ p ∈ blocks.flatten.zip args, Encodable p.1 p.2)
    (hst : ∀ s ∈ blockStarts blocks 0, s < blocks.flatten.length) (hne : blocks.flatten ≠ [])
    (hlines : v.is310 = false → ∀ ins ∈ blocks.flatten, ins.line.isSome)
    (d2 : CodeData)
    (hdec : toCodeData v T F (.mk argc pos kw nl ss fl fln out.code table fname name out.names out.varnames fv out.cellvars consts') = .ok d2) :
    d2.blocks.flatten.length = blocks.flatten.length ∧
    ∀ (j : Nat) (i i2 : Instr), blocks.flatten[j]? = some i → d2.blocks.flatten[j]? = some i2 → i2.op = i.op ∧ i2.line = i.line := by
  obtain ⟨w1, w2, w3⟩ := C03_emitted_code_wellformed v T blocks addArgs fv tp out h enc consts' hconsts fln table htable
    argc pos kw nl ss fl fname name hkind hopb henc hst hne hlines
  obtain ⟨t1, t2, t3, t4⟩ := C03_emitted_table_wellformed v blocks addArgs fv tp out h fln table htable hne hlines
  obtain ⟨hrl, hall⟩ := C03_to_code_reads_like_data v T blocks addArgs fv tp out h enc consts' hconsts fln table htable
    argc pos kw nl ss fl fname name hkind hopb henc hst hne hlines
  obtain ⟨constants, blocks2, tp2, ann, nested, al, aa, hd, _, hl2, hall2⟩ := CDV.Props.C02.C02_from_code_reads_like_cpython v T F
    argc pos kw nl ss fl fln out.code table fname name out.names out.varnames fv out.cellvars consts' d2 hdec w1 w2 w3 t1 t2 t3 t4
  subst hd
  simp only [CodeData.blocks]
  refine ⟨by rw [hl2, hrl], ?_⟩
  intro j i i2 hi hi2
  have hjlt : j < blocks.flatten.length := (List.getElem?_eq_some_iff.mp hi).1
  obtain ⟨s, hs⟩ : ∃ s, (Spec.read v T (.mk argc pos kw nl ss fl fln out.code table fname name out.names out.varnames fv out.cellvars consts'))[j]? = some s :=
    ⟨_, List.getElem?_eq_getElem (by rw [hrl]; exact hjlt)⟩
  obtain ⟨a1, a2, _⟩ := hall j i s hi hs
  obtain ⟨b1, b2, _⟩ := hall2 j i2 s hi2 hs
  exact ⟨by rw [b1, a1], by rw [b2, a2]⟩

/-- **`from_code(d.to_code())` reads like `d`** — for `to_code()` as a whole (any well-kinded CodeData, with or without
    `_additional_line` / `_additional_args`): under the hypotheses of `C03_to_code_reads_like_data_full`, the code object
    `to_code()` returns satisfies every hypothesis of `C02_from_code_reads_like_cpython` (bytes, at most three prefixes,
    jumps at instruction starts, a line table of even length with even address deltas); hence whenever `from_code` returns
    on it, the decoded data has exactly one instruction per instruction of `d`, in order, with the same opcode and the
    same line. -/
theorem C03_decode_of_encode_full (v : Ver) (T : OpTable) (F : FlagTable) (enc : CodeData → R RawCode)
    (blocks : List (List Instr)) (fname : PStr) (fln : Int) (name : PStr) (ss : Nat) (tp : Option Function) (fv : List PStr)
    (ann nested : Bool) (addLine : Option AdditionalLine) (addArgs : List Arg) (c' : RawCode)
    (h : fromCodeDataGo v F enc (.mk blocks fname fln name ss tp fv ann nested addLine addArgs) = .ok c')
    (hkind : ∀ ins ∈ blocks.flatten, KindOK T ins) (hopb : ∀ ins ∈ blocks.flatten, ins.op < 256)
    (henc : ∀ args, finalArgs v blocks addArgs fv tp = .ok args → ∀ p ∈ blocks.flatten.zip args, Encodable p.1 p.2)
    (hst : ∀ s ∈ blockStarts blocks 0, s < blocks.flatten.length) (hne : blocks.flatten ≠ [])
    (hlines : v.is310 = false → ∀ ins ∈ blocks.flatten, ins.line.isSome)
    (hal : v.is310 = false → ∀ a, addLine = some a → a.line.isSome)
    (d2 : CodeData) (hdec : toCodeData v T F c' = .ok d2) :
    d2.blocks.flatten.length = blocks.flatten.length ∧
    ∀ (j : Nat) (i i2 : Instr), blocks.flatten[j]? = some i → d2.blocks.flatten[j]? = some i2 → i2.op = i.op ∧ i2.line = i.line := by
  obtain ⟨out0, hout0, hrl, hall⟩ := C03_to_code_reads_like_data_full v T F enc blocks fname fln name ss tp fv ann nested addLine addArgs c' h
    hkind hopb henc hst hne hlines hal
  simp only [fromCodeDataGo] at h
  obtain ⟨out, hout, h⟩ := bind_ok h
  obtain ⟨consts', hc', h⟩ := bind_ok h
  obtain ⟨a, p, k, fl, table, htable, hmk⟩ := finishCode_table v F out consts' fname fln name ss tp fv ann nested addLine c' h
  subst hmk
  obtain ⟨args0, args, fuel, hal0, hrelax, hcode, hlm, hlen, hops, hfree, hraw, hfinal⟩ := blocksToBytes_spec' v blocks addArgs fv tp out hout
  have hencA := henc args hfinal
  have hl' : blocks.flatten.length = args.length := hlen.symm
  -- the bytecode
  have w1 : ∀ x ∈ out.code, x < 256 := by rw [hcode]; exact emit_lt blocks.flatten args 0 hopb
  have w2 : ∀ raws, parseBytes out.code = .ok raws → ∀ r ∈ raws, r.nargs ≤ 4 := by
    intro raws hp r hr
    have hpe := parse_emit blocks.flatten args 0 hl' hencA
    rw [hcode] at hp
    have : raws = rawsOf blocks.flatten args 0 := by
      have e : parseBytes (emit blocks.flatten args 0).1 = parseGo EXTENDED_ARG (emit blocks.flatten args 0).1 0 0 0 := rfl
      rw [e, hpe] at hp
      exact (Except.ok.inj hp).symm
    rw [this] at hr
    exact rawsOf_nargs blocks.flatten args 0 (fun p hp => (hencA p hp).2.1) r hr
  have w3 : ∀ s ∈ Spec.read v T (.mk a p k out.varnames.length ss fl fln out.code table fname name out.names out.varnames fv out.cellvars consts'),
      ∀ idx rel, s.arg = .jump idx rel → idx.isSome := by
    intro s hs idx rel harg
    obtain ⟨j, hj⟩ := List.mem_iff_getElem?.mp hs
    have hjlt : j < blocks.flatten.length := by
      rw [← hrl]; exact (List.getElem?_eq_some_iff.mp hj).1
    have hi : blocks.flatten[j]? = some blocks.flatten[j] := List.getElem?_eq_getElem hjlt
    have := (hall j _ s hi hj).2.2
    rw [harg] at this
    obtain ⟨t, _, hsome, _⟩ := this
    exact hsome
  -- the line table
  obtain ⟨t1, t2, t3, t4⟩ := table_wellformed_al v blocks.flatten args fln out addLine table hl' hne hcode hlm htable hlines hal
  obtain ⟨constants, blocks2, tp2, ann2, nested2, al2, aa2, hd, _, hl2, hall2⟩ := CDV.Props.C02.C02_from_code_reads_like_cpython v T F
    a p k out.varnames.length ss fl fln out.code table fname name out.names out.varnames fv out.cellvars consts' d2 hdec w1 w2 w3 t1 t2 t3 t4
  subst hd
  simp only [CodeData.blocks]
  refine ⟨by rw [hl2, hrl], ?_⟩
  intro j i i2 hi hi2
  have hjlt : j < blocks.flatten.length := (List.getElem?_eq_some_iff.mp hi).1
  obtain ⟨s, hs⟩ : ∃ s, (Spec.read v T (.mk a p k out.varnames.length ss fl fln out.code table fname name out.names out.varnames fv out.cellvars consts'))[j]? = some s :=
    ⟨_, List.getElem?_eq_getElem (by rw [hrl]; exact hjlt)⟩
  obtain ⟨a1, a2, _⟩ := hall j i s hi hs
  obtain ⟨b1, b2, _⟩ := hall2 j i2 s hi2 hs
  exact ⟨by rw [b1, a1], by rw [b2, a2]⟩

/-- non-vacuity of `C03_decode_of_encode_full`: for the two-block program of `Props/C03NonVac.lean` (whose data hypotheses are
    proved there) `to_code()` returns, `from_code` returns on the result, and the decoding has the six instructions again,
    with their opcodes and lines -/
example :
    let F : FlagTable := ⟨[0, 1, 2, 3, 4, 5, 6, 7, 8, 9, 20], 20⟩
    ((fromCodeData .v38 F (.mk nvBlocks (nvN "m.py") 1 (nvN "<module>") 2 none [] false false none [])).toOption.bind
      (fun c => (toCodeData .v38 nvT F c).toOption)).map (fun d2 => d2.blocks.flatten.map (fun i => (i.op, i.line)))
      = some [(101, some 1), (114, some 1), (100, some 2), (83, some 2), (100, some 3), (83, some 3)] := by
  decide +kernel

end CDV.Props.C03
