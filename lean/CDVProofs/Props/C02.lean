import CDVProofs.ParseOffsets
import CDVProofs.DecodeLines
import CDVProofs.Props.C13
/-! # C02 — decoded instructions, operands, jumps and lines match CPython's own reading

The decoder (`CDV/Decode.lean`, model of `bytes_to_blocks` / `to_arg` / `_parse_bytes`) against the Spec layer
(`CDV/Spec.lean`: `dis._unpack_opargs` with the C-int wrap, operand resolution of `dis`/`ceval`).
Helper lemmas: `CDVProofs/Bytes.lean`, `DecodeOps.lean`, `BlockStarts.lean`, `ParseOffsets.lean`. -/
namespace CDV.Props.C02
open CDV

/-- **The instructions are CPython's instructions, EXTENDED_ARG prefixes folded away.**  For every byte string, if
    `_parse_bytes` succeeds and no instruction has more than three prefixes (a C int has four bytes; CPython emits no
    more), it yields exactly what CPython's reader yields: same opcodes, same signed 32-bit operands, same first and
    next offsets, in the same order. -/
theorem C02_instructions (code : List Nat) (raws : List RawI) (hb : ∀ x ∈ code, x < 256)
    (hp : parseBytes code = .ok raws) (hn : ∀ r ∈ raws, r.nargs ≤ 4) :
    raws.map RawI.proj = Spec.fold EXTENDED_ARG (Spec.units EXTENDED_ARG code 0 0) none :=
  parseBytes_agrees code raws hb hp hn

/-- **Each operand is the name, local, cell/free variable or constant CPython would use; each jump carries CPython's
    target and kind.**  Whatever the tables and the bytecode: the decoded list has one instruction per raw instruction,
    with the same opcode and first offset, and its operand is related to the raw operand exactly by CPython's
    resolution rule for that opcode class (`OperandOK`: `co_names[arg]`, `co_varnames[arg]`, cell if
    `arg < len(co_cellvars)` else `co_freevars[arg - len(co_cellvars)]`, `co_consts[arg]`, absolute target
    `arg × unit`, relative target `next offset + arg × unit`). -/
theorem C02_operands (v : Ver) (T : OpTable) (fv : List PStr) (raws : List RawI) (st st' : DecSt) (ois : List (Nat × Instr))
    (h : decodeInstrs v T fv st raws = .ok (st', ois)) :
    ois.length = raws.length ∧
    ∀ (j : Nat) (r : RawI), raws[j]? = some r → ∃ ins, ois[j]? = some (r.first, ins) ∧ ins.op = r.op ∧
      OperandOK v T st.names.args st.varnames.args fv st.cellvars.args st.consts.args r ins.arg :=
  (decodeInstrs_ok v T fv raws st st' ois h).2

/-- **Every jump designates the block that begins at the instruction CPython would jump to.**  For the decoded list
    of any bytecode (offsets as `_parse_bytes` gives them), if every jump target is an instruction start — which CPython
    requires of valid code — then for each jump target offset `t` the block index stored in the jump
    (`indexOf t targets`, see `C13_jump_index_in_targets`) is the index of the block whose first instruction, in the
    flattened sequence, is the instruction at offset `t`. -/
theorem C02_jump_blocks (v : Ver) (T : OpTable) (fv : List PStr) (code : List Nat) (raws : List RawI) (st st' : DecSt)
    (ois : List (Nat × Instr)) (blocks : List (List Instr))
    (hp : parseBytes code = .ok raws) (hd : decodeInstrs v T fv st raws = .ok (st', ois)) (hb : buildBlocks ois = .ok blocks)
    (hvalid : ∀ t ∈ targetsOf ois, t ∈ ois.map (·.1)) (t : Nat) (ht : t ∈ targetsOf ois) :
    (blockStarts blocks 0)[indexOf t (targetsOf ois)]? = some (indexOf t (ois.map (·.1))) ∧
    (ois.map (·.1))[indexOf t (ois.map (·.1))]? = some t := by
  have hso : SortedLt (ois.map (·.1)) := by
    rw [decodeInstrs_offsets v T fv raws st st' ois hd]
    exact parseBytes_sorted code raws hp
  exact jump_block_start ois blocks hb hso hvalid t ht

/-- the flattened blocks are the decoded instructions in order, jumps re-targeted to block indices (from C13) -/
theorem C02_flatten (ois : List (Nat × Instr)) (blocks : List (List Instr)) (h : buildBlocks ois = .ok blocks) :
    blocks.flatten = ois.map (fun p => retarget (targetsOf ois) p.2) :=
  (CDV.Props.C13.C13_partition ois blocks h).2

/-- the line mapping `to_code_data` hands to `bytes_to_blocks`: the decoded table, made absolute with `co_firstlineno` -/
def shifted (lm : LT.LMap) (fln : Int) : LT.LMap := { lm with lines := lm.lines.map fun p => (p.1, p.2.map (· + fln)) }

/-- **Each instruction's `line_number` is the line CPython's line table assigns to its first code unit — 3.10.**
    For every `co_linetable` of in-range rows with even address deltas and every bytecode: the decoded mapping exists,
    and every decoded instruction carries `Spec.lineOf` (= `co_lines()` / `PyCode_Addr2Line` + `co_firstlineno`) of its
    first offset, `none` exactly where CPython reports no line. -/
theorem C02_lines_310 (T : OpTable) (fv : List PStr) (code table : List Nat) (fln : Int) (raws : List RawI) (st st' : DecSt)
    (ois : List (Nat × Instr))
    (heven : table.length % 2 = 0) (hbytes : ∀ x ∈ table, x < 256)
    (h255 : ∀ x ∈ LT.bytesToItems table, x.bc ≠ 255) (hbc : ∀ x ∈ LT.bytesToItems table, x.bc % 2 = 0)
    (hp : parseBytes code = .ok raws) :
    ∃ lm, LT.toLineMapping true table code.length = .ok lm ∧
      (st.lm = shifted lm fln → decodeInstrs .v310 T fv st raws = .ok (st', ois) →
        ∀ (j : Nat) (r : RawI), raws[j]? = some r → ∃ ins, ois[j]? = some (r.first, ins) ∧
          ins.line = Spec.lineOf .v310 table fln r.first) := by
  obtain ⟨lm, hlm, _, hall⟩ := LT.decoded_lines_310 table code.length heven hbytes h255 hbc
  refine ⟨lm, hlm, ?_⟩
  intro hst hd j r hj
  obtain ⟨ins, h1, h2⟩ := decodeInstrs_lines .v310 T fv raws st st' ois (parseBytes_chained code raws hp) hd j r hj
  refine ⟨ins, h1, ?_⟩
  have hb := parseGo_bounds EXTENDED_ARG code.length code rfl 0 0 0 raws (by omega) rfl hp r (List.mem_of_getElem? hj)
  rw [hst] at h2
  simp only [shifted] at h2
  rw [assoc?_map_val (fun l : Option Int => l.map (· + fln))] at h2
  cases ha : assoc? r.first lm.lines with
  | none => simp [ha] at h2
  | some l0 =>
    simp only [ha, Option.map_some, Option.some.injEq] at h2
    have := (hall r.first hb.1).1 l0 ha
    simp only [Spec.lineOf, Ver.is310, if_true, this]
    exact h2.symm

/-- **… and for `co_lnotab` (3.7-3.9).** -/
theorem C02_lines_lnotab (v : Ver) (hv : v.is310 = false) (T : OpTable) (fv : List PStr) (code table : List Nat) (fln : Int) (raws : List RawI)
    (st st' : DecSt) (ois : List (Nat × Instr))
    (heven : table.length % 2 = 0) (hbytes : ∀ x ∈ table, x < 256)
    (hbc : ∀ cs, LT.collapse false (LT.bytesToItems table) = some cs → ∀ c ∈ cs, c.bc % 2 = 0)
    (hp : parseBytes code = .ok raws) :
    ∃ lm, LT.toLineMapping false table code.length = .ok lm ∧
      (st.lm = shifted lm fln → decodeInstrs v T fv st raws = .ok (st', ois) →
        ∀ (j : Nat) (r : RawI), raws[j]? = some r → ∃ ins, ois[j]? = some (r.first, ins) ∧
          ins.line = Spec.lineOf v table fln r.first) := by
  obtain ⟨lm, hlm, hall⟩ := LT.decoded_lines_old table code.length heven hbytes hbc
  refine ⟨lm, hlm, ?_⟩
  intro hst hd j r hj
  obtain ⟨ins, h1, h2⟩ := decodeInstrs_lines v T fv raws st st' ois (parseBytes_chained code raws hp) hd j r hj
  refine ⟨ins, h1, ?_⟩
  have hb := parseGo_bounds EXTENDED_ARG code.length code rfl 0 0 0 raws (by omega) rfl hp r (List.mem_of_getElem? hj)
  have hch := parseBytes_chained code raws hp
  have hfn : r.first < r.next := by
    have : ∀ (l : List RawI), Chained l → ∀ x ∈ l, x.first < x.next := by
      intro l
      induction l with
      | nil => intro _ x hx; simp at hx
      | cons y ys ih =>
        intro hc x hx
        simp only [Chained] at hc
        rcases List.mem_cons.mp hx with rfl | hx
        · exact hc.1
        · exact ih hc.2.2 x hx
    exact this raws hch r (List.mem_of_getElem? hj)
  rw [hst] at h2
  simp only [shifted] at h2
  rw [assoc?_map_val (fun l : Option Int => l.map (· + fln)), hall r.first hb.1 (by omega)] at h2
  simp only [Option.map_some, Option.some.injEq] at h2
  simp only [Spec.lineOf, hv, Bool.false_eq_true, if_false]
  rw [← h2]
  simp [Int.add_comm]

/-- non-vacuity: `EXTENDED_ARG 1; JUMP_ABSOLUTE 4` is one instruction with operand 260, first offset 0 -/
example : parseBytes [144, 1, 113, 4] = .ok [⟨113, 260, 2, 0, 4⟩] := by rfl

end CDV.Props.C02
