import CDVProofs.ParseOffsets
import CDVProofs.Props.C13
/-! # C02 — decoded instructions, operands, jumps and lines match CPython's own reading

The decoder (`CDV/Decode.lean`, model of `bytes_to_blocks` / `to_arg` / `_parse_bytes`) against the Spec layer
(`CDV/Spec.lean`: `dis._unpack_opargs` with the C-int wrap, operand resolution of `dis`/`ceval`).
Helper lemmas: `CDVProofs/Bytes.lean`, `DecodeOps.lean`, `BlockStarts.lean`, `ParseOffsets.lean`. -/
namespace CDV.Props.C02
open CDV

/-- **The instructions are CPython's instructions, EXTENDED_ARG prefixes folded away.**  For every byte string, if
    `_parse_bytes` succeeds and no instruction has more than three prefixes (a C int has four bytes; CPython emits no
    more), it yields exactly what CPython's reader yields: same opcodes, same signed 32-bit operands, same first and
    next offsets, in the same order. -/
theorem C02_instructions (code : List Nat) (raws : List RawI) (hb : ∀ x ∈ code, x < 256)
    (hp : parseBytes code = .ok raws) (hn : ∀ r ∈ raws, r.nargs ≤ 4) :
    raws.map RawI.proj = Spec.fold EXTENDED_ARG (Spec.units EXTENDED_ARG code 0 0) none :=
  parseBytes_agrees code raws hb hp hn

/-- **Each operand is the name, local, cell/free variable or constant CPython would use; each jump carries CPython's
    target and kind.**  Whatever the tables and the bytecode: the decoded list has one instruction per raw instruction,
    with the same opcode and first offset, and its operand is related to the raw operand exactly by CPython's
    resolution rule for that opcode class (`OperandOK`: `co_names[arg]`, `co_varnames[arg]`, cell if
    `arg < len(co_cellvars)` else `co_freevars[arg - len(co_cellvars)]`, `co_consts[arg]`, absolute target
    `arg × unit`, relative target `next offset + arg × unit`). -/
theorem C02_operands (v : Ver) (T : OpTable) (fv : List PStr) (raws : List RawI) (st st' : DecSt) (ois : List (Nat × Instr))
    (h : decodeInstrs v T fv st raws = .ok (st', ois)) :
    ois.length = raws.length ∧
    ∀ (j : Nat) (r : RawI), raws[j]? = some r → ∃ ins, ois[j]? = some (r.first, ins) ∧ ins.op = r.op ∧
      OperandOK v T st.names.args st.varnames.args fv st.cellvars.args st.consts.args r ins.arg :=
  (decodeInstrs_ok v T fv raws st st' ois h).2

/-- **Every jump designates the block that begins at the instruction CPython would jump to.**  For the decoded list
    of any bytecode (offsets as `_parse_bytes` gives them), if every jump target is an instruction start — which CPython
    requires of valid code — then for each jump target offset `t` the block index stored in the jump
    (`indexOf t targets`, see `C13_jump_index_in_targets`) is the index of the block whose first instruction, in the
    flattened sequence, is the instruction at offset `t`. -/
theorem C02_jump_blocks (v : Ver) (T : OpTable) (fv : List PStr) (code : List Nat) (raws : List RawI) (st st' : DecSt)
    (ois : List (Nat × Instr)) (blocks : List (List Instr))
    (hp : parseBytes code = .ok raws) (hd : decodeInstrs v T fv st raws = .ok (st', ois)) (hb : buildBlocks ois = .ok blocks)
    (hvalid : ∀ t ∈ targetsOf ois, t ∈ ois.map (·.1)) (t : Nat) (ht : t ∈ targetsOf ois) :
    (blockStarts blocks 0)[indexOf t (targetsOf ois)]? = some (indexOf t (ois.map (·.1))) ∧
    (ois.map (·.1))[indexOf t (ois.map (·.1))]? = some t := by
  have hso : SortedLt (ois.map (·.1)) := by
    rw [decodeInstrs_offsets v T fv raws st st' ois hd]
    exact parseBytes_sorted code raws hp
  exact jump_block_start ois blocks hb hso hvalid t ht

/-- the flattened blocks are the decoded instructions in order, jumps re-targeted to block indices (from C13) -/
theorem C02_flatten (ois : List (Nat × Instr)) (blocks : List (List Instr)) (h : buildBlocks ois = .ok blocks) :
    blocks.flatten = ois.map (fun p => retarget (targetsOf ois) p.2) :=
  (CDV.Props.C13.C13_partition ois blocks h).2

/-- non-vacuity: `EXTENDED_ARG 1; JUMP_ABSOLUTE 4` is one instruction with operand 260, first offset 0 -/
example : parseBytes [144, 1, 113, 4] = .ok [⟨113, 260, 2, 0, 4⟩] := by rfl

end CDV.Props.C02
