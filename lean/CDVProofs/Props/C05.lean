import CDVProofs.Normalize
/-! # C05 — normalization preserves the meaning of the code (static part) -/
namespace CDV.Props.C05
open CDV

/-- `normalize` changes nothing that the reading of the data depends on: the flattened instruction stream
    (opcodes, resolved operands, jump structure, the line of every instruction — recursively through nested
    code) and the header (filename, first line, name, stack size, signature/docstring/kind, free variables,
    future annotations) are the same before and after.  Only private fields differ. -/
theorem C05_meaning_invariant (d : CodeData) : meaning (normCode d) = meaning d := by
  simp [meaning, meaningCode_norm, header_norm]

/-- what `normalize` does touch: the CO_NESTED bit, the extra line, the unreferenced entries -/
theorem C05_private_cleared (d : CodeData) :
    ∃ bl f fl n ss tp fv fut, normCode d = .mk bl f fl n ss tp fv fut false none [] := by
  cases d with
  | mk bl f fl n ss tp fv fut ne al aa => exact ⟨_, _, _, _, _, _, _, _, rfl⟩

end CDV.Props.C05
