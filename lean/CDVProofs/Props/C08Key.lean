import CDVProofs.Constants
/-! # C08 — equality of constants is the kernel of a key function (so a hash of the key respects `==`) -/
namespace CDV.Props.C08
open CDV

/-- the canonical NaN that `replace_nan` substitutes (any fixed token distinct from every non-NaN float) -/
def nanToken : Nat := 0x7ff8000000000000
def canonFloat (a : Nat) : Nat := if isNaN a then nanToken else a

mutual
/-- `inner_constant_key`, line by line: the constructor is the type tag; floats have NaN replaced; `is_neg_zero` is a
    function of the bits; tuples map the key over their elements -/
def canon : InnerConst → InnerConst
  | .float a => .float (canonFloat a)
  | .complex r i => .complex (canonFloat r) (canonFloat i)
  | .tuple xs => .tuple (canonList xs)
  | .fset xs => .fset (canonList xs)
  | c => c
def canonList : List InnerConst → List InnerConst
  | [] => []
  | x :: xs => canon x :: canonList xs
end

mutual
def noFset : InnerConst → Bool
  | .tuple xs => noFsetList xs
  | .fset _ => false
  | _ => true
def noFsetList : List InnerConst → Bool
  | [] => true
  | x :: xs => noFset x && noFsetList xs
end

theorem nanToken_isNaN : isNaN nanToken = true := by decide

theorem canonFloat_eq (a b : Nat) (h : floatKeyEq a b = true) : canonFloat a = canonFloat b := by
  unfold floatKeyEq at h
  unfold canonFloat
  by_cases ha : isNaN a = true <;> by_cases hb : isNaN b = true <;> simp_all

mutual
theorem canon_eq_of_keyEq : ∀ (a b : InnerConst), noFset a = true → InnerConst.keyEq a b = true → canon a = canon b
  | .none, b, _, h => by cases b <;> simp_all [InnerConst.keyEq]
  | .ellipsis, b, _, h => by cases b <;> simp_all [InnerConst.keyEq]
  | .bool _, b, _, h => by cases b <;> simp_all [InnerConst.keyEq]
  | .int _, b, _, h => by cases b <;> simp_all [InnerConst.keyEq]
  | .str _, b, _, h => by cases b <;> simp_all [InnerConst.keyEq]
  | .bytes _, b, _, h => by cases b <;> simp_all [InnerConst.keyEq]
  | .float x, b, _, h => by
    cases b <;> simp [InnerConst.keyEq] at h
    simp [canon, canonFloat_eq _ _ h]
  | .complex r i, b, _, h => by
    cases b <;> simp [InnerConst.keyEq] at h
    simp [canon, canonFloat_eq _ _ h.1, canonFloat_eq _ _ h.2]
  | .fset xs, b, hn, _ => by simp [noFset] at hn
  | .tuple xs, b, hn, h => by
    cases b with
    | tuple ys =>
      rw [keyEq_tuple] at h
      simp only [Bool.and_eq_true, beq_iff_eq] at h
      simp only [noFset] at hn
      simp only [canon]
      rw [canonList_eq_of_keyEq xs ys hn h.1 h.2]
    | _ => simp [InnerConst.keyEq] at h
theorem canonList_eq_of_keyEq : ∀ (xs ys : List InnerConst), noFsetList xs = true → xs.length = ys.length →
    (xs.zip ys).all (fun p => InnerConst.keyEq p.1 p.2) = true → canonList xs = canonList ys
  | [], [], _, _, _ => rfl
  | [], _ :: _, _, hl, _ => by simp at hl
  | _ :: _, [], _, hl, _ => by simp at hl
  | x :: xs, y :: ys, hn, hl, h => by
    simp only [noFsetList, Bool.and_eq_true] at hn
    simp only [List.zip_cons_cons, List.all_cons, Bool.and_eq_true] at h
    simp only [canonList]
    rw [canon_eq_of_keyEq x y hn.1 h.1, canonList_eq_of_keyEq xs ys hn.2 (by simpa using hl) h.2]
end

/-- **Equal constants have the same key** (frozenset-free constants; `_partial`: a frozenset's key is a *set* of keys,
    whose equality is not structural — there the statement would be about set equality of the element keys).  Hence any
    hash computed from `constant_key(value)` — which is what `ConstantArg.__hash__` does — agrees on constants that
    compare equal: two NaNs with different payloads, inside tuples at any depth, included. -/
theorem C08_equal_same_key_partial (a b : InnerConst) (hn : noFset a = true) (h : InnerConst.keyEq a b = true) :
    canon a = canon b := canon_eq_of_keyEq a b hn h

theorem mem_canonList : ∀ (xs : List InnerConst) (k : InnerConst), k ∈ canonList xs ↔ ∃ x ∈ xs, canon x = k
  | [], k => by simp [canonList]
  | x :: xs, k => by
    simp only [canonList, List.mem_cons, mem_canonList xs k]
    constructor
    · rintro (h | ⟨y, hy, h⟩)
      · exact ⟨x, Or.inl rfl, h.symm⟩
      · exact ⟨y, Or.inr hy, h⟩
    · rintro ⟨y, (rfl | hy), h⟩
      · exact Or.inl h.symm
      · exact Or.inr ⟨y, hy, h⟩

theorem noFsetList_mem : ∀ (xs : List InnerConst), noFsetList xs = true → ∀ x ∈ xs, noFset x = true
  | [], _, _, h => by simp at h
  | y :: ys, hn, x, h => by
    simp only [noFsetList, Bool.and_eq_true] at hn
    simp only [List.mem_cons] at h
    rcases h with rfl | h
    · exact hn.1
    · exact noFsetList_mem ys hn.2 x h

/-- **Equal frozensets have the same key** — the key of a frozenset is the *set* of its elements' keys: for frozensets
    of frozenset-free constants (tuples at any depth allowed) that compare equal, the two key sets have the same
    members, so `hash(frozenset(keys))` agrees (Python's frozenset hash depends only on the set of members: runtime
    fact).  `_partial`: frozensets nested inside frozensets are not covered. -/
theorem C08_equal_same_key_fset_partial (xs ys : List InnerConst) (hx : noFsetList xs = true)
    (h : InnerConst.keyEq (.fset xs) (.fset ys) = true) :
    ∀ k, k ∈ canonList xs ↔ k ∈ canonList ys := by
  rw [keyEq_fset] at h
  simp only [Bool.and_eq_true, List.all_eq_true, List.any_eq_true] at h
  intro k
  rw [mem_canonList, mem_canonList]
  constructor
  · rintro ⟨x, hxm, hk⟩
    obtain ⟨y, hym, he⟩ := h.1 x hxm
    exact ⟨y, hym, by rw [← canon_eq_of_keyEq x y (noFsetList_mem xs hx x hxm) he]; exact hk⟩
  · rintro ⟨y, hym, hk⟩
    obtain ⟨x, hxm, he⟩ := h.2 y hym
    exact ⟨x, hxm, by rw [canon_eq_of_keyEq x y (noFsetList_mem xs hx x hxm) he]; exact hk⟩

/-- non-vacuity / the case the repaired defect was about: two different NaN payloads inside a tuple -/
example : InnerConst.keyEq (.tuple [.float 0x7ff8000000000000, .int 1]) (.tuple [.float 0x7ff8000000000001, .int 1]) = true ∧
    canon (.tuple [.float 0x7ff8000000000000, .int 1]) = canon (.tuple [.float 0x7ff8000000000001, .int 1]) := by
  have h1 : isNaN 0x7ff8000000000000 = true := by decide
  have h2 : isNaN 0x7ff8000000000001 = true := by decide
  refine ⟨?_, ?_⟩
  · simp [keyEq_tuple, InnerConst.keyEq, floatKeyEq, h1, h2]
  · simp [canon, canonList, canonFloat, h1, h2]

end CDV.Props.C08
