import CDVProofs.HeaderKind
/-! # C04 — the assembled statement: signature, parameter count, docstring and kind of decoded code -/
namespace CDV.Props.C04
open CDV

/-- the number of parameters CPython binds: `co_argcount + co_kwonlyargcount + (*args) + (**kwargs)` -/
theorem sigCore_length (argc pos kw : Nat) (varnames : List PStr) (varargs varkw : Bool) (hpos : pos ≤ argc)
    (hlen : argc + kw + (if varargs then 1 else 0) + (if varkw then 1 else 0) ≤ varnames.length) :
    (Spec.sigCore argc pos kw varnames varargs varkw).length = argc + kw + (if varargs then 1 else 0) + (if varkw then 1 else 0) := by
  unfold Spec.sigCore
  cases varargs <;> cases varkw <;>
    simp only [List.length_append, List.length_map, List.length_take, List.length_drop, if_true, if_false, List.length_nil,
      Bool.false_eq_true] at * <;> omega

/-- **C04 for `CodeData.from_code`.**  For every code object on which `from_code` succeeds, whose `co_varnames` holds the
    parameters (CPython: `co_nlocals ≥` their number) under distinct names:
    * `type is None` exactly for code without `CO_NEWLOCALS`/`CO_OPTIMIZED` (module and class bodies), and a function-like
      scope has both;
    * `type.args.parameters` is CPython's binding of `co_varnames` (`Spec.signature`: positional-only, positional-or-keyword,
      `*args`, keyword-only, `**kwargs`, in `inspect.signature` order) and `len(args)` is
      `co_argcount + co_kwonlyargcount + (*args) + (**kwargs)`;
    * `type.docstring` is the first constant when that is a string, else `None` (what `FunctionType` exposes as `__doc__`);
    * `type.type` is GENERATOR / COROUTINE / ASYNC_GENERATOR exactly when `CO_GENERATOR` / `CO_COROUTINE` /
      `CO_ASYNC_GENERATOR` is set (what `inspect.isgeneratorfunction` etc. test). -/
theorem C04_from_code_function (v : Ver) (T : OpTable) (F : FlagTable) (dec : RawCode → R CodeData)
    (argc pos kw nl ss fl : Nat) (fln : Int) (code lt : List Nat) (fname name : PStr) (names varnames freevars cellvars : List PStr)
    (consts : List RConst) (d : CodeData)
    (hA : F.annotations ∉ [bOPTIMIZED, bNEWLOCALS, bVARARGS, bVARKEYWORDS, bNESTED, bGENERATOR, bNOFREE, bCOROUTINE, bASYNC_GENERATOR])
    (h : toCodeDataGo v T F dec (.mk argc pos kw nl ss fl fln code lt fname name names varnames freevars cellvars consts) = .ok d)
    (hlen : argc + kw + (if fl.testBit bVARARGS then 1 else 0) + (if fl.testBit bVARKEYWORDS then 1 else 0) ≤ varnames.length)
    (hnodup : ((Spec.sigCore argc (if v.hasPosOnly then pos else 0) kw varnames (fl.testBit bVARARGS) (fl.testBit bVARKEYWORDS)).map Prod.fst).Nodup) :
    ∃ (constants : List Const) (blocks : List (List Instr)) (tp : Option Function) (ann nested : Bool) (al : Option AdditionalLine) (aa : List Arg),
      d = .mk blocks fname fln name ss tp freevars ann nested al aa ∧
      consts.mapM (fun c => match c with | .inner i => pure (Const.inner i) | .code k => Const.code <$> dec k) = .ok constants ∧
      (tp = none ↔ (fl.testBit bNEWLOCALS = false ∧ fl.testBit bOPTIMIZED = false)) ∧
      (∀ f, tp = some f →
        fl.testBit bNEWLOCALS = true ∧ fl.testBit bOPTIMIZED = true ∧
        some f.args.parameters = Spec.signature v (.mk argc pos kw nl ss fl fln code lt fname name names varnames freevars cellvars consts) ∧
        f.args.len = argc + kw + (if fl.testBit bVARARGS then 1 else 0) + (if fl.testBit bVARKEYWORDS then 1 else 0) ∧
        f.doc = firstStr constants ∧
        (f.ftype = some .generator ↔ fl.testBit bGENERATOR = true) ∧
        (f.ftype = some .coroutine ↔ fl.testBit bCOROUTINE = true) ∧
        (f.ftype = some .asyncGenerator ↔ fl.testBit bASYNC_GENERATOR = true)) := by
  obtain ⟨lm, constants, tp, ann, nested, args, st0, st', raws, ois, blocks, al, aa, _, hK, hhdr, _, _, _, _, _, _, _, _, _, hd⟩ :=
    toCodeDataGo_decompose v T F dec argc pos kw nl ss fl fln code lt fname name names varnames freevars cellvars consts d h
  obtain ⟨hpar, hl, hnone, hsome⟩ := decodeHeader_function v F argc pos kw fl varnames freevars cellvars constants tp ann nested args hA hhdr hlen hnodup
  -- `pos ≤ argc` is what `args_from_input` checked
  have hle : (if v.hasPosOnly then pos else 0) ≤ argc := by
    unfold decodeHeader at hhdr
    obtain ⟨S, _, hh⟩ := bind_ok hhdr
    obtain ⟨a, hargs, _⟩ := bind_ok hh
    exact (argsFromInput_fields _ _ _ _ _ _ _ hargs).1
  refine ⟨constants, blocks, tp, ann, nested, al, aa, hd, hK, ?_, ?_⟩
  · constructor
    · intro hn
      obtain ⟨a, b, _⟩ := hnone hn
      exact ⟨a, b⟩
    · intro ⟨hb1, _⟩
      cases htp : tp with
      | none => rfl
      | some f =>
        have := (hsome f htp).1
        rw [hb1] at this
        cases this
  · intro f hf
    obtain ⟨b1, b0, hfa, hfd, g, c, ag⟩ := hsome f hf
    refine ⟨b1, b0, ?_, ?_, hfd, g, c, ag⟩
    · rw [hfa, hpar]
      unfold Spec.signature
      dsimp only
      have e2 : bVARARGS = 2 := rfl
      have e3 : bVARKEYWORDS = 3 := rfl
      rw [e2, e3] at hlen ⊢
      have hc : ¬ (varnames.length < argc + kw + (if fl.testBit 2 = true then 1 else 0) + (if fl.testBit 3 = true then 1 else 0) ∨
          argc < (if v.hasPosOnly = true then pos else 0)) := by omega
      rw [if_neg hc]
    · rw [hfa, hl, sigCore_length _ _ _ _ _ _ hle hlen]

/-- non-vacuity: `def f(a, /, b, *c, d, **e)` as a generator — flags OPTIMIZED|NEWLOCALS|VARARGS|VARKEYWORDS|GENERATOR = 0x2f -/
example :
    let n (s : String) : PStr := ⟨s, true⟩
    Spec.signature .v310 (.mk 2 1 1 5 1 0x2f 1 [] [] (n "f") (n "f") [] [n "a", n "b", n "d", n "c", n "e"] [] [] [])
      = some [(n "a", .posOnly), (n "b", .posOrKw), (n "c", .varPos), (n "d", .kwOnly), (n "e", .varKw)] := by
  decide

end CDV.Props.C04
