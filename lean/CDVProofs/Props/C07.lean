import CDVProofs.Json
/-! # C07 — the JSON form round-trips without loss (with all NaNs identified) -/
namespace CDV.Props.C07
open CDV

/-- **Round trip**: for every CodeData whose integers outside constants are JSON-safe (they are C ints in
    decoded data) and whose additional args are table entries, `from_json_data(to_json_data(x))` succeeds and
    returns `x` with every NaN replaced by the one NaN and the infinities by the two infinities — nothing
    else changes: every constant kind at every nesting depth, bytes, complex, signed zeros, huge ints,
    Ellipsis, strings with lone surrogates at every string position, every private field.
    (The runtime laws `literal_eval(repr(s)) = s`, `b64decode(b64encode(b)) = b`, `int(str(i)) = i` are built
    into the abstract JSON strings `reprOf / b64Of / decOf`; see the trusted base.) -/
theorem C07_roundtrip (d : CodeData) (h : WfCode d) : codeDataFromJson (jCodeData d) = .ok (canonCode d) :=
  codeDataFromJson_jCodeData d h

/-- the tag dispatch of `constant_value_from_json` is unambiguous: every constant comes back as itself -/
theorem C07_constants (c : InnerConst) : innerFromJson (jInner c) = .ok (canonInner c) := innerFromJson_jInner c

/-- what `canon` changes is invisible to equality: a float and its canonical form have the same `constant_key` -/
theorem C07_canon_float_key (b : Nat) (h : b < 2^64) : floatKeyEq b (canonF b) = true := by
  unfold canonF floatKeyEq
  by_cases h1 : isInf b = true
  · -- an infinity below 2^64 is one of the two infinities
    have : b = 0x7FF0000000000000 ∨ b = 0xFFF0000000000000 := by
      simp only [isInf, Bool.and_eq_true, beq_iff_eq] at h1
      omega
    rcases this with rfl | rfl <;> decide
  · by_cases h3 : isNaN b = true
    · have : isNaN 0x7FF8000000000000 = true := by decide
      simp [h1, h3, this]
    · simp [h1, h3]

/-- a second round trip changes nothing any more -/
theorem C07_canon_idem_float (b : Nat) : canonF (canonF b) = canonF b := by
  unfold canonF
  by_cases h1 : isInf b = true
  · by_cases h2 : b < 2^63 <;> simp [h1, h2] <;> decide
  · by_cases h3 : isNaN b = true
    · simp [h1, h3]; decide
    · simp [h1, h3]

/-- **Strict JSON, at the leaves**: an integer is written as a JSON number only inside ±(2^53 − 1) — proved about
    the `MIN_INTEGER` / `MAX_INTEGER` read from the source on this run -/
theorem C07_int_strict (i i' : Int) (h : jInt i = .int i') : -(2^53 - 1) ≤ i' ∧ i' ≤ 2^53 - 1 := by
  unfold jInt at h
  split at h
  · cases h
  · rename_i hr
    cases h
    simp only [MIN_INTEGER, MAX_INTEGER, Extracted.MIN_INTEGER, Extracted.MAX_INTEGER] at hr
    omega

/-- … a float is written as a JSON number only when it is finite (no NaN / Infinity tokens) -/
theorem C07_float_strict (b b' : Nat) (h : jFloat b = .float b') : isInf b' = false ∧ isNaN b' = false := by
  unfold jFloat at h
  split at h
  · cases h
  · split at h
    · cases h
    · cases h; rename_i h1 h2; simp at h1 h2; exact ⟨by simpa using h1, by simpa using h2⟩

/-- … and a string is written as a JSON string only when it has no lone surrogate -/
theorem C07_str_strict (s s' : PStr) (h : jStr s = .str s') : s'.enc = true := by
  unfold jStr at h
  split at h
  · cases h; assumption
  · cases h

/-- non-vacuity: a concrete CodeData with a NaN constant, a lone-surrogate docstring, a huge int and an override
    meets the hypothesis, and its round trip is what the theorem says -/
example :
    let d : CodeData := .mk [[.mk 100 (.const (.inner (.tuple [.float 0xFFF8000000000001, .int (2^70), .str ⟨"eda080", false⟩])) (some 3)) none (some 7) [],
                              .mk 83 (.noarg 0) none none []]]
      ⟨"66", true⟩ 1 ⟨"6d", true⟩ 1 (some ⟨{}, some ⟨"eda080", false⟩, some .generator⟩) [] false true none []
    WfCode d ∧ canonCode d ≠ d := by
  constructor
  · simp [WfCode, WfBlocks, WfInstrs, WfInstr, WfArg, WfConst, WfAddArgs, SmallOpt, SmallOptI, SmallInt, MIN_INTEGER, MAX_INTEGER, Extracted.MIN_INTEGER, Extracted.MAX_INTEGER]
  · intro h; simp [canonCode, canonBlocks, canonInstrs, canonInstr, canonArg, canonConst, canonInner, canonInners, canonF, isInf, isNaN] at h

end CDV.Props.C07
