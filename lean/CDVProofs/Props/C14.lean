import CDVProofs.Iter
/-! # C14 — iteration enumerates every nested code object -/
namespace CDV.Props.C14
open CDV

/-- **Iteration = the code objects of the constants table.**  Whenever the operand tables of a CodeData can be
    built (i.e. `to_code` gets past `blocks_to_bytes`), iterating it yields exactly the nested CodeData of the
    constants table that `to_code` emits, in table order: each table entry once, whether it is loaded by one
    instruction, by several, or by none (kept in `_additional_args`). -/
theorem C14_iter_is_constants_table (v : Ver) (bl : List (List Instr)) (aa : List Arg) (fv : List PStr) (tp : Option Function)
    (out : BlocksOut) (f : PStr) (fl : Int) (n : PStr) (ss : Nat) (fut ne : Bool) (al : Option AdditionalLine)
    (h : blocksToBytes v bl aa fv tp = .ok out) :
    iterCode (.mk bl f fl n ss tp fv fut ne al aa) = .ok (codesOf out.consts) :=
  iterCode_eq_table v bl aa fv tp out f fl n ss fut ne al h

/-- the code objects among the constants of a raw code object -/
def rawCodesOf : List RConst → List RawCode
  | [] => []
  | .code c :: r => c :: rawCodesOf r
  | _ :: r => rawCodesOf r

theorem mapM_consts (enc : CodeData → R RawCode) : ∀ (cs : List Const) (rs : List RConst),
    cs.mapM (fun c => match c with | .inner i => pure (RConst.inner i) | .code d => RConst.code <$> enc d) = .ok rs →
    (codesOf cs).mapM enc = .ok (rawCodesOf rs)
  | [], rs, h => by simp [pure, Except.pure] at h; subst h; simp [codesOf, rawCodesOf, pure, Except.pure]
  | .inner i :: cs, rs, h => by
    simp only [List.mapM_cons] at h
    obtain ⟨r0, h0, h⟩ := bind_ok h
    obtain ⟨rs', h1, h⟩ := bind_ok h
    simp only [pure, Except.pure, Except.ok.injEq] at h h0
    subst h; subst h0
    simpa [codesOf, rawCodesOf] using mapM_consts enc cs rs' h1
  | .code d :: cs, rs, h => by
    simp only [List.mapM_cons] at h
    obtain ⟨r0, h0, h⟩ := bind_ok h
    obtain ⟨rs', h1, h⟩ := bind_ok h
    simp only [pure, Except.pure, Except.ok.injEq] at h
    subst h
    cases he : enc d with
    | error e => simp [he, Functor.map, Except.map] at h0
    | ok c =>
      simp [he, Functor.map, Except.map] at h0
      subst h0
      have := mapM_consts enc cs rs' h1
      simp [codesOf, rawCodesOf, List.mapM_cons, he, this, bind, Except.bind, pure, Except.pure]

theorem finishCode_consts (v : Ver) (F : FlagTable) (out : BlocksOut) (consts : List RConst) (fname : PStr) (fln : Int) (name : PStr) (ss : Nat)
    (tp : Option Function) (fv : List PStr) (ann nested : Bool) (addLine : Option AdditionalLine) (c : RawCode)
    (h : finishCode v F out consts fname fln name ss tp fv ann nested addLine = .ok c) :
    c.consts = consts := by
  unfold finishCode at h
  cases hh : headerCounts tp out.varnames with
  | error e => simp [hh, bind, Except.bind] at h
  | ok r =>
    obtain ⟨argc, pos, kw, flags⟩ := r
    cases ht : LT.fromLineMapping v.is310 (finalLineMap out addLine fln) with
    | error e => simp [hh, ht, bind, Except.bind] at h
    | ok table =>
      by_cases hc : (!v.hasPosOnly && pos != 0) = true
      · simp [hh, ht, hc, bind, Except.bind, throw, throwThe, MonadExceptOf.throw] at h
      · simp [hh, ht, hc, bind, Except.bind, pure, Except.pure] at h
        subst h
        rfl

/-- **One for every code object reachable through the constants.**  If `to_code` succeeds on `d` (nesting depth
    within the fuel), then iterating `d` succeeds, and encoding the iterated CodeData one by one gives exactly the
    code objects found in `co_consts` of the result, in order. -/
theorem C14_iter_matches_co_consts (v : Ver) (F : FlagTable) (n : Nat) (d : CodeData) (c : RawCode)
    (h : fromCodeDataFuel v F (n + 1) d = .ok c) :
    ∃ ds, iterCode d = .ok ds ∧
      ds.mapM (fromCodeDataFuel v F n) = .ok (rawCodesOf c.consts) := by
  cases d with
  | mk bl f fl nm ss tp fv fut ne al aa =>
    simp only [fromCodeDataFuel, fromCodeDataGo] at h
    obtain ⟨out, h0, h⟩ := bind_ok h
    obtain ⟨consts, h1, h⟩ := bind_ok h
    refine ⟨codesOf out.consts, iterCode_eq_table v bl aa fv tp out f fl nm ss fut ne al h0, ?_⟩
    have hm := mapM_consts (fromCodeDataFuel v F n) out.consts consts h1
    -- the rest of `from_code_data` only computes header fields; the constants are `consts`
    rw [finishCode_consts v F out consts f fl nm ss tp fv fut ne al c h]
    exact hm

/-- `all_code_data` yields the object itself first -/
theorem C14_all_starts_with_self (n : Nat) (d : CodeData) (l : List CodeData) (h : allCodeFuel (n + 1) d = .ok l) :
    ∃ rest, l = d :: rest := by
  simp only [allCodeFuel] at h
  obtain ⟨kids, _, h⟩ := bind_ok h
  obtain ⟨rest, _, h⟩ := bind_ok h
  simp only [pure, Except.pure, Except.ok.injEq] at h
  exact ⟨_, h.symm⟩

end CDV.Props.C14
