import CDVProofs.DecodeSpec
/-! # C02 — the assembled statement: decoded data, read in order, is CPython's reading of the code object -/
namespace CDV.Props.C02
open CDV

/-- **C02 for `CodeData.from_code`.**  For every code object on which `from_code` succeeds — under the three facts CPython
    guarantees for compiled code: bytecode with at most three `EXTENDED_ARG` prefixes per instruction, jump targets that
    are instruction starts, a line table with in-range rows and even address deltas (`co_lnotab`: even once the 255-byte
    continuation rows are merged) — the instructions in the decoded
    blocks, read in order, are exactly the instructions CPython reads (`Spec.read`: `dis` with `EXTENDED_ARG` folded,
    operands resolved against the code object's tables, lines from `co_lines` / `PyCode_Addr2Line`):
    same count; the `j`-th has the `j`-th opcode, the line CPython assigns to its first code unit (`None` iff CPython
    reports no line) and the operand CPython resolves (`ArgReads`): the same name, local, cell / free variable, constant
    (a nested code object: its own decoding), raw operand, or a jump of the same kind whose block begins at the
    instruction CPython would jump to. -/
theorem C02_from_code_reads_like_cpython (v : Ver) (T : OpTable) (F : FlagTable)
    (argc pos kw nl ss fl : Nat) (fln : Int) (code lt : List Nat) (fname name : PStr) (names varnames freevars cellvars : List PStr)
    (consts : List RConst) (d : CodeData)
    (h : toCodeData v T F (.mk argc pos kw nl ss fl fln code lt fname name names varnames freevars cellvars consts) = .ok d)
    (hcode : ∀ x ∈ code, x < 256)
    (hpre : ∀ raws, parseBytes code = .ok raws → ∀ r ∈ raws, r.nargs ≤ 4)
    (hvalid : ∀ s ∈ Spec.read v T (.mk argc pos kw nl ss fl fln code lt fname name names varnames freevars cellvars consts),
      ∀ idx rel, s.arg = .jump idx rel → idx.isSome)
    (hteven : lt.length % 2 = 0) (htbytes : ∀ x ∈ lt, x < 256)
    (htbc : v.is310 = true → ∀ x ∈ LT.bytesToItems lt, x.bc % 2 = 0 ∧ x.bc ≠ 255)
    (htbcOld : v.is310 = false → ∀ cs, LT.collapse false (LT.bytesToItems lt) = some cs → ∀ c ∈ cs, c.bc % 2 = 0) :
    ∃ (constants : List Const) (blocks : List (List Instr)) (tp : Option Function) (ann nested : Bool) (al : Option AdditionalLine) (aa : List Arg),
      d = .mk blocks fname fln name ss tp freevars ann nested al aa ∧
      consts.mapM (fun c => match c with | .inner i => pure (Const.inner i) | .code k => Const.code <$> toCodeDataFuel v T F 63 k) = .ok constants ∧
      blocks.flatten.length = (Spec.read v T (.mk argc pos kw nl ss fl fln code lt fname name names varnames freevars cellvars consts)).length ∧
      ∀ (j : Nat) (i : Instr) (s : Spec.SInstr), blocks.flatten[j]? = some i →
        (Spec.read v T (.mk argc pos kw nl ss fl fln code lt fname name names varnames freevars cellvars consts))[j]? = some s →
        i.op = s.op ∧ i.line = s.line ∧ ArgReads (blockStarts blocks 0) constants i.arg s.arg :=
  decode_reads_like_cpython v T F (toCodeDataFuel v T F 63) argc pos kw nl ss fl fln code lt fname name names varnames freevars cellvars consts d
    h hcode hpre hvalid hteven htbytes htbc htbcOld

end CDV.Props.C02
