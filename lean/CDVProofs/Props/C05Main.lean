import CDVProofs.NormSpec
/-! # C05 — the composed static statement: CPython reads `normalize().to_code()` as it reads the original -/
namespace CDV.Props.C05
open CDV

/-- **Normalization preserves what CPython reads.**  For every code object `c` on which `from_code` succeeds (under the
    compiler facts of C02: at most three `EXTENDED_ARG` prefixes, jump targets that are instruction starts, line table
    with even address deltas) and has at least one instruction: if `to_code()` of the *normalized* data returns — bytes,
    tables, line table, constants — and the operands fit their widths, then CPython reads the rebuilt code object as it
    reads `c`: the same number of instructions and, position by position, the same opcode, the same line (`None` at the
    same places) and the same operand reading (`SameReading`): same name, local, cell or free variable; a constant with
    the same `constant_key`; nested code whose normalized decoding is what was encoded; the same raw operand; a jump of
    the same kind to the same instruction.  Table order, unreferenced entries, operand widths and redundant line entries
    are free to differ — they do not occur in the statement. -/
theorem C05_normalized_code_reads_same (v : Ver) (T : OpTable) (F : FlagTable) (dec : RawCode → R CodeData)
    (argc pos kw nl ss fl : Nat) (fln : Int) (code lt : List Nat) (fname name : PStr) (names varnames freevars cellvars : List PStr)
    (consts : List RConst) (d : CodeData)
    (h : toCodeDataGo v T F dec (.mk argc pos kw nl ss fl fln code lt fname name names varnames freevars cellvars consts) = .ok d)
    (hcode : ∀ x ∈ code, x < 256)
    (hpre : ∀ raws, parseBytes code = .ok raws → ∀ r ∈ raws, r.nargs ≤ 4)
    (hvalid : ∀ s ∈ Spec.read v T (.mk argc pos kw nl ss fl fln code lt fname name names varnames freevars cellvars consts),
      ∀ idx rel, s.arg = .jump idx rel → idx.isSome)
    (hteven : lt.length % 2 = 0) (htbytes : ∀ x ∈ lt, x < 256)
    (htbc : v.is310 = true → ∀ x ∈ LT.bytesToItems lt, x.bc % 2 = 0 ∧ x.bc ≠ 255)
    (htbcOld : v.is310 = false → ∀ cs, LT.collapse false (LT.bytesToItems lt) = some cs → ∀ c ∈ cs, c.bc % 2 = 0)
    (hT : ∀ op, T.get op = .ext → op = EXTENDED_ARG)
    (hrne : Spec.read v T (.mk argc pos kw nl ss fl fln code lt fname name names varnames freevars cellvars consts) ≠ [])
    (out : BlocksOut) (henc : blocksToBytes v (normCode d).blocks (normCode d).addArgs (normCode d).freevars (normCode d).type = .ok out)
    (enc : CodeData → R RawCode) (consts' : List RConst)
    (hconsts : out.consts.mapM (fun c => match c with | .inner i => pure (RConst.inner i) | .code d => RConst.code <$> enc d) = .ok consts')
    (table : List Nat)
    (htable : LT.fromLineMapping v.is310 ⟨out.lm.lines.map (fun p => (p.1, p.2.map (· - fln))), out.lm.extra⟩ = .ok table)
    (argc' pos' kw' nl' ss' fl' : Nat) (fname' name' : PStr)
    (hfit : ∀ args, finalArgs v (normCode d).blocks (normCode d).addArgs (normCode d).freevars (normCode d).type = .ok args →
      ∀ p ∈ (normCode d).blocks.flatten.zip args, Encodable p.1 p.2) :
    ∃ constants : List Const,
      consts.mapM (fun c => match c with | .inner i => pure (Const.inner i) | .code k => Const.code <$> dec k) = .ok constants ∧
      (Spec.read v T (.mk argc' pos' kw' nl' ss' fl' fln out.code table fname' name' out.names out.varnames (normCode d).freevars out.cellvars consts')).length =
        (Spec.read v T (.mk argc pos kw nl ss fl fln code lt fname name names varnames freevars cellvars consts)).length ∧
      ∀ (j : Nat) (s s' : Spec.SInstr),
        (Spec.read v T (.mk argc pos kw nl ss fl fln code lt fname name names varnames freevars cellvars consts))[j]? = some s →
        (Spec.read v T (.mk argc' pos' kw' nl' ss' fl' fln out.code table fname' name' out.names out.varnames (normCode d).freevars out.cellvars consts'))[j]? = some s' →
        s'.op = s.op ∧ s'.line = s.line ∧ SameReading constants out.consts s.arg s'.arg :=
  normalized_code_reads_same v T F dec argc pos kw nl ss fl fln code lt fname name names varnames freevars cellvars consts d h
    hcode hpre hvalid hteven htbytes htbc htbcOld hT hrne out henc enc consts' hconsts table htable argc' pos' kw' nl' ss' fl' fname' name' hfit

end CDV.Props.C05
