import CDVProofs.ToCodeReturns
/-! # C01 / C09 — the operand tables of a code object survive `from_code` → `to_code` -/
namespace CDV.Props.C01
open CDV

/-- **Lossless tables.**  For every code object on which `from_code` succeeds (parameters: distinct names at the start of
    `co_varnames`, as CPython guarantees): whenever `to_code` gets past `blocks_to_bytes` on the decoded data, the
    `co_names`, `co_varnames`, `co_cellvars` and `co_consts` it emits are exactly the original tuples — every entry at
    its index, also the entries no instruction uses (`_additional_args`), entries met out of first-use order, and entries
    that collide under `constant_key` (the `_index_override`s are sufficient, on the whole code object, for all four
    tables at once, with the parameter and docstring seeding of both sides). -/
theorem C01_operand_tables (v : Ver) (T : OpTable) (F : FlagTable) (dec : RawCode → R CodeData)
    (argc pos kw nl ss fl : Nat) (fln : Int) (code lt : List Nat) (fname name : PStr) (names varnames freevars cellvars : List PStr)
    (consts : List RConst) (d : CodeData)
    (h : toCodeDataGo v T F dec (.mk argc pos kw nl ss fl fln code lt fname name names varnames freevars cellvars consts) = .ok d)
    (hlen : argc + kw + (if fl.testBit bVARARGS then 1 else 0) + (if fl.testBit bVARKEYWORDS then 1 else 0) ≤ varnames.length)
    (hnodup : (varnames.take (argc + kw + (if fl.testBit bVARARGS then 1 else 0) + (if fl.testBit bVARKEYWORDS then 1 else 0))).Nodup) :
    ∃ (K : List Const) (blocks : List (List Instr)) (tp : Option Function) (ann nested : Bool) (al : Option AdditionalLine) (aa : List Arg),
      d = .mk blocks fname fln name ss tp freevars ann nested al aa ∧
      consts.mapM (fun c => match c with | .inner i => pure (Const.inner i) | .code k => Const.code <$> dec k) = .ok K ∧
      ∀ out, blocksToBytes v blocks aa freevars tp = .ok out →
        out.names = names ∧ out.varnames = varnames ∧ out.cellvars = cellvars ∧ out.consts = K :=
  decoded_tables_roundtrip v T F dec argc pos kw nl ss fl fln code lt fname name names varnames freevars cellvars consts d h hlen hnodup

/-- **… and `blocks_to_bytes` does return** on decoded data, provided every decoded jump designates a block that exists
    (true whenever the code's jump targets are instruction starts, `C13_blocks_are_targets`): the table-building,
    the two passes over the instructions, the operand-width loop (`C03_loop_terminates`) and the four `to_tuple` calls
    all succeed, and the tables emitted are the original ones. -/
theorem C01_decoded_data_encodes (v : Ver) (T : OpTable) (F : FlagTable) (dec : RawCode → R CodeData)
    (argc pos kw nl ss fl : Nat) (fln : Int) (code lt : List Nat) (fname name : PStr) (names varnames freevars cellvars : List PStr)
    (consts : List RConst) (d : CodeData)
    (h : toCodeDataGo v T F dec (.mk argc pos kw nl ss fl fln code lt fname name names varnames freevars cellvars consts) = .ok d)
    (hlen : argc + kw + (if fl.testBit bVARARGS then 1 else 0) + (if fl.testBit bVARKEYWORDS then 1 else 0) ≤ varnames.length)
    (hnodup : (varnames.take (argc + kw + (if fl.testBit bVARARGS then 1 else 0) + (if fl.testBit bVARKEYWORDS then 1 else 0))).Nodup)
    (hjv : ∀ i ∈ d.blocks.flatten, ∀ t r, i.arg = .jump t r → t < d.blocks.length) :
    ∃ (K : List Const) (out : BlocksOut),
      consts.mapM (fun c => match c with | .inner i => pure (Const.inner i) | .code k => Const.code <$> dec k) = .ok K ∧
      blocksToBytes v d.blocks d.addArgs d.freevars d.type = .ok out ∧
      out.names = names ∧ out.varnames = varnames ∧ out.cellvars = cellvars ∧ out.consts = K :=
  decoded_encodes v T F dec argc pos kw nl ss fl fln code lt fname name names varnames freevars cellvars consts d h hlen hnodup hjv

/-- **Lossless in every field but the two byte strings.**  For every code object on which `from_code` succeeds
    (parameters: distinct names at the start of `co_varnames`; 3.7 has no positional-only count): whenever `to_code`
    returns for the decoded data, the code object it builds has the original `co_argcount`, `co_posonlyargcount`,
    `co_kwonlyargcount`, `co_nlocals`, `co_stacksize`, `co_flags`, `co_firstlineno`, `co_filename`, `co_name`,
    `co_names`, `co_varnames`, `co_freevars`, `co_cellvars`; its `co_consts` are, entry by entry, the re-encodings of the
    decodings of the original constants (so the statement nests).  `co_code` and the line table are the subject of
    `C01_bytecode` and the C10 stage theorems. -/
theorem C01_fields_roundtrip (v : Ver) (T : OpTable) (F : FlagTable) (dec : RawCode → R CodeData) (enc : CodeData → R RawCode)
    (argc pos kw nl ss fl : Nat) (fln : Int) (code lt : List Nat) (fname name : PStr) (names varnames freevars cellvars : List PStr)
    (consts : List RConst) (d : CodeData) (c' : RawCode)
    (hA : F.annotations ∉ [bOPTIMIZED, bNEWLOCALS, bVARARGS, bVARKEYWORDS, bNESTED, bGENERATOR, bNOFREE, bCOROUTINE, bASYNC_GENERATOR])
    (h : toCodeDataGo v T F dec (.mk argc pos kw nl ss fl fln code lt fname name names varnames freevars cellvars consts) = .ok d)
    (hlen : argc + kw + (if fl.testBit bVARARGS then 1 else 0) + (if fl.testBit bVARKEYWORDS then 1 else 0) ≤ varnames.length)
    (hnodup : (varnames.take (argc + kw + (if fl.testBit bVARARGS then 1 else 0) + (if fl.testBit bVARKEYWORDS then 1 else 0))).Nodup)
    (hpos37 : v.hasPosOnly = false → pos = 0)
    (henc : fromCodeDataGo v F enc d = .ok c') :
    ∃ (K : List Const) (code' lt' : List Nat) (consts' : List RConst),
      consts.mapM (fun c => match c with | .inner i => pure (Const.inner i) | .code k => Const.code <$> dec k) = .ok K ∧
      K.mapM (fun c => match c with | .inner i => pure (RConst.inner i) | .code d => RConst.code <$> enc d) = .ok consts' ∧
      c' = .mk argc pos kw nl ss fl fln code' lt' fname name names varnames freevars cellvars consts' :=
  let ⟨K, out, lt', consts', h1, h2, _, h4⟩ := decoded_fields_roundtrip v T F dec enc argc pos kw nl ss fl fln code lt fname name names
    varnames freevars cellvars consts d c' hA h hlen hnodup hpos37 henc
  ⟨K, out.code, lt', consts', h1, h2, h4⟩

/-- **`from_code(c).to_code()` is `c` in every attribute except the line table.**  Under the compiler facts of
    `C01_code_bytes` (and no positional-only count on 3.7): whenever `to_code` returns for the decoded data, the code object
    it builds is the original one field by field — `co_code` included — with `co_consts` the re-encodings of the
    decodings entry by entry; only the line-table bytes are left open (their reading is C10 / C02 / C03). -/
theorem C01_all_but_linetable (v : Ver) (T : OpTable) (F : FlagTable) (dec : RawCode → R CodeData) (enc : CodeData → R RawCode)
    (argc pos kw nl ss fl : Nat) (fln : Int) (code lt : List Nat) (fname name : PStr) (names varnames freevars cellvars : List PStr)
    (consts : List RConst) (d : CodeData) (c' : RawCode)
    (hA : F.annotations ∉ [bOPTIMIZED, bNEWLOCALS, bVARARGS, bVARKEYWORDS, bNESTED, bGENERATOR, bNOFREE, bCOROUTINE, bASYNC_GENERATOR])
    (h : toCodeDataGo v T F dec (.mk argc pos kw nl ss fl fln code lt fname name names varnames freevars cellvars consts) = .ok d)
    (hlen : argc + kw + (if fl.testBit bVARARGS then 1 else 0) + (if fl.testBit bVARKEYWORDS then 1 else 0) ≤ varnames.length)
    (hnodup : (varnames.take (argc + kw + (if fl.testBit bVARARGS then 1 else 0) + (if fl.testBit bVARKEYWORDS then 1 else 0))).Nodup)
    (hpos37 : v.hasPosOnly = false → pos = 0)
    (hcode : ∀ x ∈ code, x < 256) (hcomp : Complete code 0)
    (hpre : ∀ raws, parseBytes code = .ok raws → ∀ r ∈ raws, r.nargs ≤ 4)
    (hmin : ∀ raws, parseBytes code = .ok raws → ∀ r ∈ raws, T.get r.op ≠ .jabs → T.get r.op ≠ .jrel → r.nargs = instrsize r.arg)
    (hjs : ∀ raws, parseBytes code = .ok raws → ∀ r ∈ raws,
      (T.get r.op = .jabs → (decMult v * r.arg).toNat ∈ raws.map (·.first)) ∧
      (T.get r.op = .jrel → ((r.next : Int) + decMult v * r.arg).toNat ∈ raws.map (·.first)))
    (hcn : cellvars.Nodup) (hfn : freevars.Nodup)
    (henc : fromCodeDataGo v F enc d = .ok c') :
    ∃ (K : List Const) (lt' : List Nat) (consts' : List RConst),
      consts.mapM (fun c => match c with | .inner i => pure (Const.inner i) | .code k => Const.code <$> dec k) = .ok K ∧
      K.mapM (fun c => match c with | .inner i => pure (RConst.inner i) | .code d => RConst.code <$> enc d) = .ok consts' ∧
      c' = .mk argc pos kw nl ss fl fln code lt' fname name names varnames freevars cellvars consts' := by
  obtain ⟨K, out, lt', consts', h1, h2, h3, h4⟩ := decoded_fields_roundtrip v T F dec enc argc pos kw nl ss fl fln code lt fname name names
    varnames freevars cellvars consts d c' hA h hlen hnodup hpos37 henc
  have hc := decoded_code_roundtrip v T F dec argc pos kw nl ss fl fln code lt fname name names varnames freevars cellvars consts d out
    h hlen hnodup hcode hcomp hpre hmin hjs hcn hfn h3
  exact ⟨K, lt', consts', h1, h2, by rw [h4, hc]⟩

/-- **`co_code` byte for byte.**  For every code object on which `from_code` succeeds, under facts CPython guarantees
    for compiled code — the bytecode does not end inside an instruction and has at most three `EXTENDED_ARG` prefixes per
    instruction; instructions other than jumps are written in the minimal width; jump targets are instruction starts; parameter, cell and free variable names are distinct: whenever
    `blocks_to_bytes` returns on the decoded data, the bytes it assembles are exactly the original `co_code`.
    (The operand-width loop, started with every jump one unit wide, climbs to the original layout and stops there:
    `relax_reproduces`.)  With `C01_fields_roundtrip` this leaves only the line table, whose byte-equality is false in
    general (known findings) and is covered semantically by the C10 theorems. -/
theorem C01_code_bytes (v : Ver) (T : OpTable) (F : FlagTable) (dec : RawCode → R CodeData)
    (argc pos kw nl ss fl : Nat) (fln : Int) (code lt : List Nat) (fname name : PStr) (names varnames freevars cellvars : List PStr)
    (consts : List RConst) (d : CodeData) (out : BlocksOut)
    (h : toCodeDataGo v T F dec (.mk argc pos kw nl ss fl fln code lt fname name names varnames freevars cellvars consts) = .ok d)
    (hlen : argc + kw + (if fl.testBit bVARARGS then 1 else 0) + (if fl.testBit bVARKEYWORDS then 1 else 0) ≤ varnames.length)
    (hnodup : (varnames.take (argc + kw + (if fl.testBit bVARARGS then 1 else 0) + (if fl.testBit bVARKEYWORDS then 1 else 0))).Nodup)
    (hcode : ∀ x ∈ code, x < 256) (hcomp : Complete code 0)
    (hpre : ∀ raws, parseBytes code = .ok raws → ∀ r ∈ raws, r.nargs ≤ 4)
    (hmin : ∀ raws, parseBytes code = .ok raws → ∀ r ∈ raws, T.get r.op ≠ .jabs → T.get r.op ≠ .jrel → r.nargs = instrsize r.arg)
    (hjs : ∀ raws, parseBytes code = .ok raws → ∀ r ∈ raws,
      (T.get r.op = .jabs → (decMult v * r.arg).toNat ∈ raws.map (·.first)) ∧
      (T.get r.op = .jrel → ((r.next : Int) + decMult v * r.arg).toNat ∈ raws.map (·.first)))
    (hcn : cellvars.Nodup) (hfn : freevars.Nodup)
    (henc : blocksToBytes v d.blocks d.addArgs d.freevars d.type = .ok out) :
    out.code = code :=
  decoded_code_roundtrip v T F dec argc pos kw nl ss fl fln code lt fname name names varnames freevars cellvars consts d out
    h hlen hnodup hcode hcomp hpre hmin hjs hcn hfn henc

/-- **… and CPython reads it with exactly the same instructions and resolved operands** (`Spec.read`: opcode and operand
    reading identical position by position — names, locals, cells, free variables, constants, jump targets as
    instruction indices). -/
theorem C01_reads_identically (v : Ver) (T : OpTable) (F : FlagTable) (dec : RawCode → R CodeData) (enc : CodeData → R RawCode)
    (argc pos kw nl ss fl : Nat) (fln : Int) (code lt : List Nat) (fname name : PStr) (names varnames freevars cellvars : List PStr)
    (consts : List RConst) (d : CodeData) (c' : RawCode)
    (hA : F.annotations ∉ [bOPTIMIZED, bNEWLOCALS, bVARARGS, bVARKEYWORDS, bNESTED, bGENERATOR, bNOFREE, bCOROUTINE, bASYNC_GENERATOR])
    (h : toCodeDataGo v T F dec (.mk argc pos kw nl ss fl fln code lt fname name names varnames freevars cellvars consts) = .ok d)
    (hlen : argc + kw + (if fl.testBit bVARARGS then 1 else 0) + (if fl.testBit bVARKEYWORDS then 1 else 0) ≤ varnames.length)
    (hnodup : (varnames.take (argc + kw + (if fl.testBit bVARARGS then 1 else 0) + (if fl.testBit bVARKEYWORDS then 1 else 0))).Nodup)
    (hpos37 : v.hasPosOnly = false → pos = 0)
    (hcode : ∀ x ∈ code, x < 256) (hcomp : Complete code 0)
    (hpre : ∀ raws, parseBytes code = .ok raws → ∀ r ∈ raws, r.nargs ≤ 4)
    (hmin : ∀ raws, parseBytes code = .ok raws → ∀ r ∈ raws, T.get r.op ≠ .jabs → T.get r.op ≠ .jrel → r.nargs = instrsize r.arg)
    (hjs : ∀ raws, parseBytes code = .ok raws → ∀ r ∈ raws,
      (T.get r.op = .jabs → (decMult v * r.arg).toNat ∈ raws.map (·.first)) ∧
      (T.get r.op = .jrel → ((r.next : Int) + decMult v * r.arg).toNat ∈ raws.map (·.first)))
    (hcn : cellvars.Nodup) (hfn : freevars.Nodup)
    (henc : fromCodeDataGo v F enc d = .ok c') :
    (Spec.read v T c').map (fun s => (s.op, s.arg)) =
      (Spec.read v T (.mk argc pos kw nl ss fl fln code lt fname name names varnames freevars cellvars consts)).map (fun s => (s.op, s.arg)) :=
  decoded_reads_identically v T F dec enc argc pos kw nl ss fl fln code lt fname name names varnames freevars cellvars consts d c'
    hA h hlen hnodup hpos37 hcode hcomp hpre hmin hjs hcn hfn henc

/-- **… lines included: CPython reads `from_code(c).to_code()` exactly as it reads `c`.**  With the hypotheses of
    `C01_all_but_linetable`, those of C02 about the line table (in-range rows, even address deltas) and jump targets, operands
    that fit four code units: `Spec.read` of the rebuilt
    code object *equals* `Spec.read` of the original, as lists: same instructions, same resolved operands, same line for
    every instruction (`None` where CPython has none), whatever bytes the line table is written in. -/
theorem C01_reads_identically_full (v : Ver) (T : OpTable) (F : FlagTable) (dec : RawCode → R CodeData) (enc : CodeData → R RawCode)
    (argc pos kw nl ss fl : Nat) (fln : Int) (code lt : List Nat) (fname name : PStr) (names varnames freevars cellvars : List PStr)
    (consts : List RConst) (d : CodeData) (c' : RawCode)
    (hA : F.annotations ∉ [bOPTIMIZED, bNEWLOCALS, bVARARGS, bVARKEYWORDS, bNESTED, bGENERATOR, bNOFREE, bCOROUTINE, bASYNC_GENERATOR])
    (h : toCodeDataGo v T F dec (.mk argc pos kw nl ss fl fln code lt fname name names varnames freevars cellvars consts) = .ok d)
    (hlen : argc + kw + (if fl.testBit bVARARGS then 1 else 0) + (if fl.testBit bVARKEYWORDS then 1 else 0) ≤ varnames.length)
    (hnodup : (varnames.take (argc + kw + (if fl.testBit bVARARGS then 1 else 0) + (if fl.testBit bVARKEYWORDS then 1 else 0))).Nodup)
    (hpos37 : v.hasPosOnly = false → pos = 0)
    (hcode : ∀ x ∈ code, x < 256) (hcomp : Complete code 0)
    (hpre : ∀ raws, parseBytes code = .ok raws → ∀ r ∈ raws, r.nargs ≤ 4)
    (hmin : ∀ raws, parseBytes code = .ok raws → ∀ r ∈ raws, T.get r.op ≠ .jabs → T.get r.op ≠ .jrel → r.nargs = instrsize r.arg)
    (hjs : ∀ raws, parseBytes code = .ok raws → ∀ r ∈ raws,
      (T.get r.op = .jabs → (decMult v * r.arg).toNat ∈ raws.map (·.first)) ∧
      (T.get r.op = .jrel → ((r.next : Int) + decMult v * r.arg).toNat ∈ raws.map (·.first)))
    (hcn : cellvars.Nodup) (hfn : freevars.Nodup)
    (hvalid : ∀ s ∈ Spec.read v T (.mk argc pos kw nl ss fl fln code lt fname name names varnames freevars cellvars consts),
      ∀ idx rel, s.arg = .jump idx rel → idx.isSome)
    (hteven : lt.length % 2 = 0) (htbytes : ∀ x ∈ lt, x < 256)
    (htbc : v.is310 = true → ∀ x ∈ LT.bytesToItems lt, x.bc % 2 = 0 ∧ x.bc ≠ 255)
    (htbcOld : v.is310 = false → ∀ cs, LT.collapse false (LT.bytesToItems lt) = some cs → ∀ c ∈ cs, c.bc % 2 = 0)
    (hT : ∀ op, T.get op = .ext → op = EXTENDED_ARG)
    (hrne : Spec.read v T (.mk argc pos kw nl ss fl fln code lt fname name names varnames freevars cellvars consts) ≠ [])
    (henc : fromCodeDataGo v F enc d = .ok c') :
    Spec.read v T c' = Spec.read v T (.mk argc pos kw nl ss fl fln code lt fname name names varnames freevars cellvars consts) :=
  decoded_reads_identically_full v T F dec enc argc pos kw nl ss fl fln code lt fname name names varnames freevars cellvars consts d c'
    hA h hlen hnodup hpos37 hcode hcomp hpre hmin hjs hcn hfn hvalid hteven htbytes htbc htbcOld hT hrne henc

/-- **`to_code()` returns on decoded data** (one nesting level: given that the decodings of the nested code objects
    encode).  Under the compiler facts of C02 and with every decoded jump designating an existing block: the operand tables
    are built, both passes and the width loop succeed, the header asserts hold (`varnames` start with the parameters), the
    line table can be written (before 3.10 every instruction and the additional line have a line), and on 3.7 no
    positional-only count is produced. -/
theorem C01_to_code_returns (v : Ver) (T : OpTable) (F : FlagTable) (dec : RawCode → R CodeData) (enc : CodeData → R RawCode)
    (argc pos kw nl ss fl : Nat) (fln : Int) (code lt : List Nat) (fname name : PStr) (names varnames freevars cellvars : List PStr)
    (consts : List RConst) (d : CodeData)
    (h : toCodeDataGo v T F dec (.mk argc pos kw nl ss fl fln code lt fname name names varnames freevars cellvars consts) = .ok d)
    (hlen : argc + kw + (if fl.testBit bVARARGS then 1 else 0) + (if fl.testBit bVARKEYWORDS then 1 else 0) ≤ varnames.length)
    (hnodup : (varnames.take (argc + kw + (if fl.testBit bVARARGS then 1 else 0) + (if fl.testBit bVARKEYWORDS then 1 else 0))).Nodup)
    (hjv : ∀ i ∈ d.blocks.flatten, ∀ t r, i.arg = .jump t r → t < d.blocks.length)
    (hcode : ∀ x ∈ code, x < 256)
    (hpre : ∀ raws, parseBytes code = .ok raws → ∀ r ∈ raws, r.nargs ≤ 4)
    (hvalid : ∀ s ∈ Spec.read v T (.mk argc pos kw nl ss fl fln code lt fname name names varnames freevars cellvars consts),
      ∀ idx rel, s.arg = .jump idx rel → idx.isSome)
    (hteven : lt.length % 2 = 0) (htbytes : ∀ x ∈ lt, x < 256)
    (htbc : v.is310 = true → ∀ x ∈ LT.bytesToItems lt, x.bc % 2 = 0 ∧ x.bc ≠ 255)
    (htbcOld : v.is310 = false → ∀ cs, LT.collapse false (LT.bytesToItems lt) = some cs → ∀ c ∈ cs, c.bc % 2 = 0)
    (hrne : Spec.read v T (.mk argc pos kw nl ss fl fln code lt fname name names varnames freevars cellvars consts) ≠ [])
    (hnested : ∀ K, consts.mapM (fun c => match c with | .inner i => pure (Const.inner i) | .code k => Const.code <$> dec k) = .ok K →
      ∃ consts', K.mapM (fun c => match c with | .inner i => pure (RConst.inner i) | .code d => RConst.code <$> enc d) = .ok consts') :
    ∃ c', fromCodeDataGo v F enc d = .ok c' :=
  decoded_to_code_returns v T F dec enc argc pos kw nl ss fl fln code lt fname name names varnames freevars cellvars consts d
    h hlen hnodup hjv hcode hpre hvalid hteven htbytes htbc htbcOld hrne hnested

/-- non-vacuity: a 3.8 module body with a conditional forward jump and a backward jump
    (`LOAD_NAME x; POP_JUMP_IF_FALSE 8; LOAD_CONST; JUMP_ABSOLUTE 0; LOAD_CONST; RETURN_VALUE`) decodes into two blocks
    and re-assembles to the same bytes -/
example :
    let n (s : String) : PStr := ⟨s, true⟩
    let T : OpTable := ⟨(List.range 160).map fun op => if op == 101 then .name else if op == 100 then .const
      else if op == 113 || op == 114 then .jabs else if op < 90 then .noarg else .raw⟩
    let F : FlagTable := ⟨[0, 1, 2, 3, 4, 5, 6, 7, 8, 9, 20], 20⟩
    let code := [101, 0, 114, 8, 100, 0, 113, 0, 100, 0, 83, 0]
    let raw : RawCode := .mk 0 0 0 0 1 0x40 1 code [12, 0] (n "m.py") (n "<module>") [n "x"] [] [] [] [.inner .none]
    ((toCodeData .v38 T F raw).toOption.bind (fun d =>
      (blocksToBytes .v38 d.blocks d.addArgs d.freevars d.type).toOption.map (fun o => (d.blocks.length, o.code))))
      = some (2, code) := by
  decide +kernel

/-- non-vacuity: `def f(x): return x + 1` (3.8: `LOAD_FAST 0; LOAD_CONST 1; BINARY_ADD; RETURN_VALUE`, flags
    OPTIMIZED|NEWLOCALS|NOFREE) decodes, its decoding encodes, and the name tables come back -/
example :
    let n (s : String) : PStr := ⟨s, true⟩
    let T : OpTable := ⟨(List.range 160).map fun op => if op == 124 then .loc else if op == 100 then .const else if op < 90 then .noarg else .raw⟩
    let F : FlagTable := ⟨[0, 1, 2, 3, 4, 5, 6, 7, 8, 9, 20], 20⟩
    let raw : RawCode := .mk 1 0 0 1 2 0x43 1 [124, 0, 100, 1, 23, 0, 83, 0] [0, 1] (n "f.py") (n "f") [] [n "x"] [] [] [.inner .none, .inner (.int 1)]
    ((toCodeData .v38 T F raw).toOption.bind (fun d =>
      (blocksToBytes .v38 d.blocks d.addArgs d.freevars d.type).toOption.map (fun o => (o.names, o.varnames, o.cellvars, o.consts.length))))
      = some ([], [n "x"], [], 2) := by
  decide +kernel

end CDV.Props.C01

namespace CDV.Props.C09
open CDV

/-- **Overrides are sufficient on whole code objects** (the table-level `C09_overrides_sufficient` /
    `C09_additional_complete`, lifted through `bytes_to_blocks` and `blocks_to_bytes`): same statement as
    `C01_operand_tables`. -/
theorem C09_decoded_tables_reproduced (v : Ver) (T : OpTable) (F : FlagTable) (dec : RawCode → R CodeData)
    (argc pos kw nl ss fl : Nat) (fln : Int) (code lt : List Nat) (fname name : PStr) (names varnames freevars cellvars : List PStr)
    (consts : List RConst) (d : CodeData)
    (h : toCodeDataGo v T F dec (.mk argc pos kw nl ss fl fln code lt fname name names varnames freevars cellvars consts) = .ok d)
    (hlen : argc + kw + (if fl.testBit bVARARGS then 1 else 0) + (if fl.testBit bVARKEYWORDS then 1 else 0) ≤ varnames.length)
    (hnodup : (varnames.take (argc + kw + (if fl.testBit bVARARGS then 1 else 0) + (if fl.testBit bVARKEYWORDS then 1 else 0))).Nodup) :
    ∃ (K : List Const) (blocks : List (List Instr)) (tp : Option Function) (ann nested : Bool) (al : Option AdditionalLine) (aa : List Arg),
      d = .mk blocks fname fln name ss tp freevars ann nested al aa ∧
      consts.mapM (fun c => match c with | .inner i => pure (Const.inner i) | .code k => Const.code <$> dec k) = .ok K ∧
      ∀ out, blocksToBytes v blocks aa freevars tp = .ok out →
        out.names = names ∧ out.varnames = varnames ∧ out.cellvars = cellvars ∧ out.consts = K :=
  decoded_tables_roundtrip v T F dec argc pos kw nl ss fl fln code lt fname name names varnames freevars cellvars consts d h hlen hnodup

end CDV.Props.C09
