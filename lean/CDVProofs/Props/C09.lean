import CDVProofs.Tables
import CDVProofs.BeqData
/-! # C09 — decoded data carries no redundant override information (and exactly the information re-encoding needs) -/
namespace CDV.Props.C09
open CDV

theorem keyEquiv_str : KeyEquiv strEq :=
  ⟨fun a => by simp [strEq], fun a b => by simp [strEq, beq_commL a b], fun a b c h1 h2 => by simp [strEq] at *; rw [h1, h2]⟩

theorem keyEquiv_const : KeyEquiv Const.keyEq :=
  ⟨Const.keyEq_refl, Const.keyEq_symm, Const.keyEq_trans⟩

/-- **Sufficient**: for any table and any sequence of uses — repeated uses, tables out of first-use order, entries that
    collide under `constant_key` (two NaNs, equal code objects) — re-encoding the operands the decoder produced, in the
    same order, gives back exactly the indices they were decoded from. -/
theorem C09_overrides_sufficient {α} (keyEq : α → α → Bool) (hk : KeyEquiv keyEq) (args : List α) (us : List Nat)
    (d' : ToArgs α) (ops : List (α × Option Nat)) (h : decRun keyEq ⟨args, [], []⟩ us = .ok (d', ops)) :
    ∃ e', encRun keyEq ⟨[], []⟩ ops = .ok (e', us) :=
  let ⟨e', he, _⟩ := runs_roundtrip hk args us _ _ d' ops (Sim.init keyEq args) h
  ⟨e', he⟩

/-- … and the entries listed as additional arguments complete the table: afterwards every index is present,
    each holding the original entry, none twice. -/
theorem C09_additional_complete {α} (keyEq : α → α → Bool) (hk : KeyEquiv keyEq) (args : List α) (us : List Nat)
    (d' : ToArgs α) (ops adds : List (α × Option Nat)) (h : decRun keyEq ⟨args, [], []⟩ us = .ok (d', ops))
    (ha : d'.additional keyEq = .ok adds) :
    ∃ e1 e2 idxs, encRun keyEq ⟨[], []⟩ ops = .ok (e1, us) ∧ encRun keyEq e1 adds = .ok (e2, idxs) ∧
      (∀ i a, (i, a) ∈ e2.iToArg → args[i]? = some a) ∧ (e2.iToArg.map Prod.fst).Nodup ∧
      (∀ i, i < args.length → i ∈ e2.iToArg.map Prod.fst) := by
  obtain ⟨e1, he1, hs1⟩ := runs_roundtrip hk args us _ _ d' ops (Sim.init keyEq args) h
  obtain ⟨e2, d2, idxs, he2, hs2, _, hall⟩ := additional_roundtrip hk args _ d' e1 adds hs1 ha
  refine ⟨e1, e2, idxs, he1, he2, hs2.table_content.1, hs2.table_content.2, ?_⟩
  intro i hi
  rw [hs2.idx]
  apply hall
  rw [hs1.dargs]
  simpa using hi

/-- **Necessary (no redundancy)**: an operand decoded *without* an override is one whose table position equals its rank
    in order of first use and whose key resolves to that position. -/
theorem C09_no_override_means_rank {α} (keyEq : α → α → Bool) (d d' : ToArgs α) (idx : Nat) (a : α)
    (h : d.foundIndex keyEq (idx : Int) = .ok (d', a, none)) :
    (assoc? idx d'.found).getD 0 = idx ∧ (∀ j, keyFind keyEq a d.keyToIndex = some j → j = idx) := by
  have hov := foundIndex_override d idx d' a none h
  by_cases hc : ((assoc? idx d'.found).getD 0 != idx || keyElsewhere keyEq a idx d.keyToIndex) = true
  · simp only [hc, if_true] at hov; cases hov
  · simp only [Bool.or_eq_true, not_or, Bool.not_eq_true] at hc
    exact ⟨by simpa using hc.1, (keyElsewhere_false a idx d.keyToIndex).mp hc.2⟩

/-- … and an override on the *first* use of an entry is justified: without it the encoder would put the entry somewhere else. -/
theorem C09_override_justified {α} (keyEq : α → α → Bool) (hk : KeyEquiv keyEq) (args : List α) (d d' : ToArgs α) (e e' : FromArgs α)
    (hs : Sim keyEq args d e) (idx : Nat) (a : α) (hfirst : assoc? idx d.found = none)
    (h : d.foundIndex keyEq (idx : Int) = .ok (d', a, some idx)) (i : Nat) (hadd : e.add keyEq a none = .ok (e', i)) :
    i ≠ idx := by
  obtain ⟨_, _, hfound, _, _⟩ := foundIndex_ok d idx d' a (some idx) h
  have hov := foundIndex_override d idx d' a (some idx) h
  have hnmemd : idx ∉ d.found.map Prod.fst := by
    intro hm; have := (assoc?_isSome_iff idx d.found).mpr hm; simp [hfirst] at this
  have hw : ((assoc? idx d'.found).getD 0 != idx || keyElsewhere keyEq a idx d.keyToIndex) = true := by
    by_cases hc : ((assoc? idx d'.found).getD 0 != idx || keyElsewhere keyEq a idx d.keyToIndex) = true
    · exact hc
    · simp only [hc] at hov; cases hov
  have horder : (assoc? idx d'.found).getD 0 = d.found.length := by
    rw [hfound, hfirst, assoc?_append_new idx d.found _ hnmemd]; rfl
  have hlen : e.iToArg.length = d.found.length := by
    have := congrArg List.length hs.idx; simpa using this
  simp only [FromArgs.add, hs.keys a] at hadd
  cases hkf : keyFind keyEq a d.keyToIndex with
  | some j =>
    simp only [hkf, pure, Except.pure, Except.ok.injEq, Prod.mk.injEq] at hadd
    obtain ⟨_, rfl⟩ := hadd
    intro hji; subst hji
    exact hnmemd (hs.keyFound a j hkf).1
  | none =>
    simp only [hkf] at hadd
    simp only [keyElsewhere, hkf] at hw
    obtain ⟨t, _, hadd⟩ := bind_ok' hadd
    simp only [pure, Except.pure, Except.ok.injEq, Prod.mk.injEq] at hadd
    obtain ⟨_, rfl⟩ := hadd
    simp only [Bool.or_false, horder] at hw
    simp only [FromArgs.len, hlen]
    simpa using hw

end CDV.Props.C09
