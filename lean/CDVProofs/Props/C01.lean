import CDVProofs.Header
import CDVProofs.BytesInv
import CDVProofs.Props.C09
import CDVProofs.Props.C10
import CDVProofs.Props.C03
/-! # C01 — code → data → code is lossless in every field

The round trip is the composition of: header (`to_code_data` ↔ `from_code_data`: flags, argument counts, `co_varnames`
prefix), bytecode (`_parse_bytes` ↔ the assembler loop), operand tables (`ToArgs` ↔ `FromArgs`: C09), line table
(three stages: C10).  The theorems here are the header half and the statement of the composed property; the other
components are proved under C03 (assembler read back), C09 (tables reproduce every index and entry) and C10 (stages
1–2 lossless, stage 3 semantically exact in both directions).  `C01_full` — the composed, byte-exact statement — is kept
as a `def … : Prop`: it is *not* proved (see DESIGN.md §9.8); on every run it is evaluated by the model driver on every
real code object (`rt` operation) and compared with the implementation. -/
namespace CDV.Props.C01
open CDV

/-- the full property, at model level: decoding any code object and re-encoding the result gives the code object back -/
def C01_full (v : Ver) (T : OpTable) (F : FlagTable) : Prop :=
  ∀ (c : RawCode) (d : CodeData), toCodeData v T F c = .ok d → fromCodeData v F d = .ok c

/-- **Flags.**  Whenever the header part of `to_code_data` accepts a flag word — every set bit is a known flag and has
    been consumed into a field (`type`, generator/coroutine kind, `*args`/`**kwargs` presence, future-annotations,
    CO_NESTED; CO_NOFREE checked against the free/cell variables) — the flag list `from_code_data` re-derives from those
    fields is exactly that word.  For every flag word, every table of known flags (whose annotations bit is none of the
    structural bits), every variable tables. -/
theorem C01_flags (v : Ver) (F : FlagTable) (argc pos kw fl : Nat) (varnames freevars cellvars : List PStr) (constants : List Const)
    (tp : Option Function) (ann nested : Bool) (args : Args)
    (hA : F.annotations ∉ [bOPTIMIZED, bNEWLOCALS, bVARARGS, bVARKEYWORDS, bNESTED, bGENERATOR, bNOFREE, bCOROUTINE, bASYNC_GENERATOR])
    (h : decodeHeader v F argc pos kw fl varnames freevars cellvars constants = .ok (tp, ann, nested, args)) :
    fromFlags (flagsOut F tp freevars cellvars ann nested) = fl :=
  header_flags_roundtrip v F argc pos kw fl varnames freevars cellvars constants tp ann nested args hA h

/-- **Argument counts and parameter names.**  For every header whose `co_varnames` holds the parameters without
    repetition (what CPython guarantees): the counts re-derived from the decoded `Args` are `co_posonlyargcount`,
    `co_argcount`, `co_kwonlyargcount`, `*args`/`**kwargs` presence is preserved, no name is lost to the ordered-dict
    merge, and the names come back as the same prefix of `co_varnames`, in `co_varnames` order
    (keyword-only names before `*args`). -/
theorem C01_args (argc pos kw : Nat) (varnames : List PStr) (varargs varkw : Bool) (a : Args)
    (h : argsFromInput ⟨argc, pos, kw, varnames, varargs, varkw⟩ = .ok a)
    (hlen : argc + kw + (if varargs then 1 else 0) + (if varkw then 1 else 0) ≤ varnames.length)
    (hnodup : (varnames.take (argc + kw + (if varargs then 1 else 0) + (if varkw then 1 else 0))).Nodup) :
    a.posOnly.length = pos ∧ a.posOnly.length + a.posOrKw.length = argc ∧ a.kwOnly.length = kw ∧
    a.varPos.isSome = varargs ∧ a.varKw.isSome = varkw ∧
    a.paramNames.length = a.posOnly.length + a.posOrKw.length + a.kwOnly.length + (if a.varPos.isSome then 1 else 0) + (if a.varKw.isSome then 1 else 0) ∧
    a.varnameOrder = varnames.take (argc + kw + (if varargs then 1 else 0) + (if varkw then 1 else 0)) :=
  header_args_roundtrip argc pos kw varnames varargs varkw a h hlen hnodup

/-- **Bytecode.**  For every byte string that does not end inside an instruction and has at most three `EXTENDED_ARG`
    prefixes per instruction (what CPython emits): writing every instruction `_parse_bytes` read with the assembler loop
    of `blocks_to_bytes`, in the number of code units it was read with, gives the byte string back — operands of any
    size, negative (wrapped) operands, redundant prefixes included.  (`C03_reads_back` is the converse.)
    The widths: jumps keep theirs as `_n_args_override`; other instructions are re-assembled in the minimal width, which
    is the width CPython's compiler gives them — that last fact is about compiler output and is decided by the check. -/
theorem C01_bytecode (code : List Nat) (raws : List RawI) (hb : ∀ x ∈ code, x < 256) (hc : Complete code 0)
    (hp : parseBytes code = .ok raws) (hn : ∀ r ∈ raws, r.nargs ≤ 4) :
    code = (raws.map (fun r => emitOne r.op r.arg r.nargs)).flatten :=
  emit_parseBytes code raws hb hc hp hn

/-- non-vacuity: a jump with a redundant prefix and a wrapped (negative) operand -/
example : Complete [144, 0, 113, 4, 144, 255, 144, 255, 144, 255, 100, 254] 0 ∧
    parseBytes [144, 0, 113, 4, 144, 255, 144, 255, 144, 255, 100, 254] = .ok [⟨113, 4, 2, 0, 4⟩, ⟨100, -2, 4, 4, 12⟩] := by
  constructor
  · simp [Complete, EXTENDED_ARG]
  · rfl

/-- non-vacuity: `def f(a, b=1, *c, d, **e)` — `co_varnames = (a, b, d, c, e)`, flags OPTIMIZED|NEWLOCALS|VARARGS|VARKEYWORDS|NOFREE -/
example :
    let n (s : String) : PStr := ⟨s, true⟩
    (argsFromInput ⟨2, 0, 1, [n "61", n "62", n "64", n "63", n "65"], true, true⟩).toOption.map Args.varnameOrder
      = some [n "61", n "62", n "64", n "63", n "65"] := by
  decide

end CDV.Props.C01
