import CDVProofs.BeqData
/-! # C08 — CodeData is a value: equality is an equivalence, type-exact, NaNs identified -/
namespace CDV.Props.C08
open CDV

/-- `Constant.__eq__` compares `constant_key`s.  On every pair of constants (any nesting of tuples and frozensets): -/
theorem C08_eq_refl (c : InnerConst) : InnerConst.keyEq c c = true := keyEq_refl c
theorem C08_eq_symm (a b : InnerConst) : InnerConst.keyEq a b = InnerConst.keyEq b a := keyEq_symm a b
theorem C08_eq_trans (a b c : InnerConst) (h1 : InnerConst.keyEq a b = true) (h2 : InnerConst.keyEq b c = true) :
    InnerConst.keyEq a c = true := keyEq_trans a b c h1 h2

/-- the dataclass equality of whole CodeData values (nested code included) is an equivalence relation too -/
theorem C08_data_eq_refl (d : CodeData) : CodeData.beq d d = true := CodeData.beq_refl d
theorem C08_data_eq_symm (a b : CodeData) : CodeData.beq a b = CodeData.beq b a := CodeData.beq_symm a b
theorem C08_data_eq_trans (a b c : CodeData) (h1 : CodeData.beq a b = true) (h2 : CodeData.beq b c = true) : CodeData.beq a c = true :=
  CodeData.beq_trans a b c h1 h2

/-- **Type-exact**: equality distinguishes what CPython's constant table distinguishes: values of different types
    are never equal, whatever their numeric value … -/
theorem C08_int_ne_bool (i : Int) (b : Bool) : InnerConst.keyEq (.int i) (.bool b) = false := by simp [InnerConst.keyEq]
theorem C08_int_ne_float (i : Int) (f : Nat) : InnerConst.keyEq (.int i) (.float f) = false := by simp [InnerConst.keyEq]
theorem C08_bool_ne_float (b : Bool) (f : Nat) : InnerConst.keyEq (.bool b) (.float f) = false := by simp [InnerConst.keyEq]
theorem C08_float_ne_complex (f r i : Nat) : InnerConst.keyEq (.float f) (.complex r i) = false := by simp [InnerConst.keyEq]
theorem C08_str_ne_bytes (s : PStr) (h : String) : InnerConst.keyEq (.str s) (.bytes h) = false := by simp [InnerConst.keyEq]
theorem C08_tuple_ne_fset (xs ys : List InnerConst) : InnerConst.keyEq (.tuple xs) (.fset ys) = false := by simp [InnerConst.keyEq]

/-- … two floats that are not NaN are equal only if they are the same bit pattern: `0.0` and `-0.0` differ … -/
theorem C08_float_exact (a b : Nat) (ha : isNaN a = false) (h : InnerConst.keyEq (.float a) (.float b) = true) : a = b := by
  simp [InnerConst.keyEq, floatKeyEq, ha] at h
  exact h

theorem C08_signed_zero : InnerConst.keyEq (.float 0) (.float 0x8000000000000000) = false := by
  simp [InnerConst.keyEq, floatKeyEq, isNaN]

/-- … likewise inside tuples (same length, pointwise) … -/
theorem C08_tuple_pointwise (x y : InnerConst) : InnerConst.keyEq (.tuple [x]) (.tuple [y]) = InnerConst.keyEq x y := by
  rw [keyEq_tuple]; simp

/-- … **except that all NaNs are identified**. -/
theorem C08_nan_identified (a b : Nat) (ha : isNaN a = true) (hb : isNaN b = true) :
    InnerConst.keyEq (.float a) (.float b) = true := by
  simp [InnerConst.keyEq, floatKeyEq, ha, hb]

/-- an override is part of the value: constants with different position overrides are different operands -/
theorem C08_override_matters (c : Const) (o o' : Option Nat) (h : o ≠ o') : Arg.beq (.const c o) (.const c o') = false := by
  simp [Arg.beq, h]

end CDV.Props.C08
