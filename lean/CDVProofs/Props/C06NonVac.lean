import CDVProofs.Props.C06Main
/-! # C06 — a concrete pair of serialization variants (non-vacuity of `C06_canonical_form`) -/
namespace CDV.Props.C06
open CDV

def nvN (s : String) : PStr := ⟨s, true⟩
def nvT : OpTable := ⟨(List.range 160).map fun op => if op == 101 then .name else if op == 100 then .const
  else if op == 144 then .ext else if op == 114 then .jabs else if op < 90 then .noarg else .raw⟩
def nvF : FlagTable := ⟨[0, 1, 2, 3, 4, 5, 6, 7, 8, 9, 20], 20⟩
/-- `LOAD_NAME x; POP_TOP; LOAD_CONST 1; POP_TOP; LOAD_CONST None; RETURN_VALUE` with tables `('x',)`, `(1, None)` -/
def nvA : RawCode := .mk 0 0 0 0 1 0x40 1 [101, 0, 1, 0, 100, 0, 1, 0, 100, 1, 83, 0] [0, 0] (nvN "m.py") (nvN "<module>")
  [nvN "x"] [] [] [] [.inner (.int 1), .inner .none]
/-- the same program with the constants table permuted and padded with an unreferenced entry, the names table padded,
    operands renumbered, and a redundant `EXTENDED_ARG 0` prefix on the first `LOAD_CONST` -/
def nvB : RawCode := .mk 0 0 0 0 1 0x40 1 [101, 1, 1, 0, 144, 0, 100, 2, 1, 0, 100, 0, 83, 0] [0, 0] (nvN "m.py") (nvN "<module>")
  [nvN "unused", nvN "x"] [] [] [] [.inner .none, .inner (.str (nvN "pad")), .inner (.int 1)]

/-- the two variants decode to different data … -/
example : ((toCodeData .v38 nvT nvF nvA).toOption.bind fun d1 => (toCodeData .v38 nvT nvF nvB).toOption.map fun d2 =>
    CodeData.beq d1 d2) = some false := by decide +kernel

/-- … and to equal normalized data -/
example : ((toCodeData .v38 nvT nvF nvA).toOption.bind fun d1 => (toCodeData .v38 nvT nvF nvB).toOption.map fun d2 =>
    CodeData.beq (normCode d1) (normCode d2)) = some true := by decide +kernel

end CDV.Props.C06
