import CDVProofs.LineTable
import CDVProofs.LineSem
import CDVProofs.LineSemOld
import CDVProofs.LineEnc
/-! # C10 — the line-table codec agrees with CPython for everything its assembler can emit

Property theorems only; helper lemmas live in `CDVProofs/LineTable.lean`.
Full-strength statements are kept as `def … : Prop` where only a part is proved so far. -/
namespace CDV.Props.C10
open CDV CDV.LT

/-- Stage 1 (bytes ↔ rows) loses nothing: every even-length byte string is reproduced. -/
theorem C10_bytes (b : List Nat) (heven : b.length % 2 = 0) (hbytes : ∀ x ∈ b, x < 256) :
    itemsToBytes (bytesToItems b) = b :=
  itemsToBytes_bytesToItems b heven hbytes

/-- Stage 2 (merge / split of rows) is lossless on **every** list of in-range rows, for both formats —
    no assumption that the rows come from CPython's assembler.  `collapse` never raises on such rows. -/
theorem C10_expand_collapse (isLT : Bool) (t : List Item) (hv : ∀ x ∈ t, ValidRow isLT x) :
    ∃ cs, collapse isLT t = some cs ∧ expand isLT cs = t :=
  let ⟨cs, h1, h2, _⟩ := expand_collapse isLT t hv
  ⟨cs, h1, h2⟩

/-- Stages 1+2 composed, from bytes: every lnotab byte string, and every linetable byte string without a
    255 address delta, is reproduced byte for byte by `items_to_bytes ∘ expand_items ∘ collapse_items ∘ bytes_to_items`. -/
theorem C10_bytes_rows_roundtrip (isLT : Bool) (b : List Nat) (heven : b.length % 2 = 0) (hbytes : ∀ x ∈ b, x < 256)
    (h255 : isLT = true → ∀ x ∈ bytesToItems b, x.bc ≠ 255) :
    ∃ cs, collapse isLT (bytesToItems b) = some cs ∧ itemsToBytes (expand isLT cs) = b := by
  obtain ⟨cs, h1, h2⟩ := C10_expand_collapse isLT (bytesToItems b) (bytesToItems_validRow isLT b hbytes h255)
  exact ⟨cs, h1, by rw [h2]; exact C10_bytes b heven hbytes⟩

/-- **Decoded lines are CPython's lines — 3.10 `co_linetable`** (stage 3, decoding direction, composed with stages 1-2).
    For every table of in-range rows with even address deltas — arbitrary forward and backward line jumps, ranges beyond
    one entry's 254 bytes, zero-width entries, runs without line; no assumption that CPython's assembler wrote it —
    `to_line_mapping` succeeds, every entry of the decoded mapping at an even offset carries exactly the line CPython's own
    reader (`co_lines()` / `PyCode_Addr2Line`, `Spec.lineOfLT`) assigns to that offset (`none` where CPython reports no
    line), and every even offset inside the table's range has an entry. -/
theorem C10_decoded_lines_310 (b : List Nat) (n : Nat) (heven : b.length % 2 = 0) (hbytes : ∀ x ∈ b, x < 256)
    (h255 : ∀ x ∈ bytesToItems b, x.bc ≠ 255) (hbc : ∀ x ∈ bytesToItems b, x.bc % 2 = 0) :
    ∃ lm, toLineMapping true b n = .ok lm ∧ lm.extra = [] ∧
      ∀ o, o % 2 = 0 →
        (∀ r, assoc? o lm.lines = some r → Spec.lineOfLT b o 0 0 = r) ∧
        (o < ((bytesToItems b).map (·.bc)).sum → (assoc? o lm.lines).isSome) :=
  decoded_lines_310 b n heven hbytes h255 hbc

/-- **Decoded lines are CPython's lines — `co_lnotab` (3.7-3.9)** (stage 3, decoding direction, composed with
    stages 1-2), **and the decoding loop terminates.**  For every lnotab byte string whose address deltas are even once the 255-byte
    continuation rows `(255, 0)` are merged with the row they continue (the rows themselves may be odd: 255) — any
    forward and backward line jumps (split over several rows or not), gaps beyond 255 bytes, zero-width rows; no assumption
    that CPython's assembler wrote it — `to_line_mapping` returns (its `while` loop ends within the model's fuel), and for
    every even offset below the code length the decoded mapping holds exactly the line `PyCode_Addr2Line` computes. -/
theorem C10_decoded_lines_lnotab (b : List Nat) (n : Nat) (heven : b.length % 2 = 0) (hbytes : ∀ x ∈ b, x < 256)
    (hbc : ∀ cs, collapse false (bytesToItems b) = some cs → ∀ c ∈ cs, c.bc % 2 = 0) :
    ∃ lm, toLineMapping false b n = .ok lm ∧
      ∀ o, o % 2 = 0 → o < n → assoc? o lm.lines = some (some (Spec.lineOfOld b o 0 0)) :=
  decoded_lines_old b n heven hbytes hbc

/-- **Encoding agrees with CPython — 3.10.**  For any non-empty list of per-code-unit lines (any jumps, `None` runs of any
    length): `from_line_mapping` succeeds and CPython's reader assigns to the `k`-th code unit exactly the `k`-th line.
    Together with `C10_decoded_lines_310`: decoding the table that was written gives the mapping back, line for line. -/
theorem C10_encoded_lines_310 (l0 : Option Int) (ls : List (Option Int)) (extra : List (Nat × List Int)) :
    ∃ table, fromLineMapping true ⟨unitsAt (l0 :: ls) 0, extra⟩ = .ok table ∧
      ∀ k l, (l0 :: ls)[k]? = some l → Spec.lineOfLT table (2 * k) 0 0 = l :=
  encoded_lines_310 l0 ls extra

/-- **Encoding agrees with CPython — `co_lnotab`.**  For any list of per-code-unit lines and any recorded zero-width
    extra entries: `from_line_mapping` succeeds and `PyCode_Addr2Line` assigns to the `k`-th code unit the `k`-th line. -/
theorem C10_encoded_lines_lnotab (ls : List Int) (extra : List (Nat × List Int)) :
    ∃ table, fromLineMapping false ⟨unitsAtS ls 0, extra⟩ = .ok table ∧
      ∀ k l, ls[k]? = some l → Spec.lineOfOld table (2 * k) 0 0 = l :=
  encoded_lines_lnotab ls extra

/-- the evenness hypothesis is needed, and its failure is a termination finding rather than a wrong line: with an odd
    address the offset counter (which advances by 2) never meets the row, and the loop of the implementation never ends;
    the model runs out of fuel (outside the quantifier of C10: CPython's assembler only emits even addresses) -/
example : toLineMapping false [1, 1] 4 = .error .fuel := by rfl

/-- non-vacuity for `C10_decoded_lines_lnotab`: `(0,+127),(0,-127),(255,0),(45,+1)` (the 3.8/3.9 compiler output of the
    repaired defect, then a line 300 bytes on: two odd rows, one even address) meets the hypotheses; CPython reads line +0
    at offset 298 and +1 at offset 300 -/
example : (∀ cs, collapse false (bytesToItems [0, 127, 0, 129, 255, 0, 45, 1]) = some cs → ∀ c ∈ cs, c.bc % 2 = 0) ∧
    Spec.lineOfOld [0, 127, 0, 129, 255, 0, 45, 1] 298 0 0 = 0 ∧ Spec.lineOfOld [0, 127, 0, 129, 255, 0, 45, 1] 300 0 0 = 1 := by
  refine ⟨?_, by decide, by decide⟩
  intro cs hcs
  have : collapse false (bytesToItems [0, 127, 0, 129, 255, 0, 45, 1]) = some [⟨some 127, 0⟩, ⟨some (-127), 0⟩, ⟨some 1, 300⟩] := by decide
  rw [this] at hcs
  cases hcs
  intro c hc
  simp at hc
  rcases hc with rfl | rfl | rfl <;> simp

/-- non-vacuity for `C10_decoded_lines_310`: `(4, +1), (254, -128), (2, -128), (6, +3)` — a line, 256 bytes without
    line, a line — meets the hypotheses; offset 100 has no line, offset 260 has line 4 -/
example : (∀ x ∈ bytesToItems [4, 1, 254, 128, 2, 128, 6, 3], x.bc ≠ 255 ∧ x.bc % 2 = 0) ∧
    Spec.lineOfLT [4, 1, 254, 128, 2, 128, 6, 3] 100 0 0 = none ∧ Spec.lineOfLT [4, 1, 254, 128, 2, 128, 6, 3] 260 0 0 = some 4 := by
  refine ⟨?_, by decide, by decide⟩
  intro x hx
  simp [bytesToItems, signed] at hx
  rcases hx with rfl | rfl | rfl | rfl <;> simp

/-- non-vacuity: the 3.8/3.9 compiler output `(0,+127),(0,-127)` (the witness of the repaired defect)
    meets the hypotheses and is not merged -/
example : (∀ x ∈ bytesToItems [0, 127, 0, 129], ValidRow false x) ∧
    collapse false (bytesToItems [0, 127, 0, 129]) = some [⟨some 127, 0⟩, ⟨some (-127), 0⟩] := by
  constructor
  · intro x hx
    simp [bytesToItems, signed] at hx
    rcases hx with rfl | rfl <;> simp [ValidRow, maxBc]
  · decide

/-- non-vacuity: a split line jump is merged and re-split -/
example : collapse false (bytesToItems [4, 127, 0, 1]) = some [⟨some 128, 4⟩] := by decide

end CDV.Props.C10
