import CDVProofs.LineTable
/-! # C10 — the line-table codec agrees with CPython for everything its assembler can emit

Property theorems only; helper lemmas live in `CDVProofs/LineTable.lean`.
Full-strength statements are kept as `def … : Prop` where only a part is proved so far. -/
namespace CDV.Props.C10
open CDV CDV.LT

/-- Stage 1 (bytes ↔ rows) loses nothing: every even-length byte string is reproduced. -/
theorem C10_bytes (b : List Nat) (heven : b.length % 2 = 0) (hbytes : ∀ x ∈ b, x < 256) :
    itemsToBytes (bytesToItems b) = b :=
  itemsToBytes_bytesToItems b heven hbytes

/-- Stage 2 (merge / split of rows) is lossless on **every** list of in-range rows, for both formats —
    no assumption that the rows come from CPython's assembler.  `collapse` never raises on such rows. -/
theorem C10_expand_collapse (isLT : Bool) (t : List Item) (hv : ∀ x ∈ t, ValidRow isLT x) :
    ∃ cs, collapse isLT t = some cs ∧ expand isLT cs = t :=
  let ⟨cs, h1, h2, _⟩ := expand_collapse isLT t hv
  ⟨cs, h1, h2⟩

/-- Stages 1+2 composed, from bytes: every lnotab byte string, and every linetable byte string without a
    255 address delta, is reproduced byte for byte by `items_to_bytes ∘ expand_items ∘ collapse_items ∘ bytes_to_items`. -/
theorem C10_bytes_rows_roundtrip (isLT : Bool) (b : List Nat) (heven : b.length % 2 = 0) (hbytes : ∀ x ∈ b, x < 256)
    (h255 : isLT = true → ∀ x ∈ bytesToItems b, x.bc ≠ 255) :
    ∃ cs, collapse isLT (bytesToItems b) = some cs ∧ itemsToBytes (expand isLT cs) = b := by
  obtain ⟨cs, h1, h2⟩ := C10_expand_collapse isLT (bytesToItems b) (bytesToItems_validRow isLT b hbytes h255)
  exact ⟨cs, h1, by rw [h2]; exact C10_bytes b heven hbytes⟩

/-- non-vacuity: the 3.8/3.9 compiler output `(0,+127),(0,-127)` (the witness of the repaired defect)
    meets the hypotheses and is not merged -/
example : (∀ x ∈ bytesToItems [0, 127, 0, 129], ValidRow false x) ∧
    collapse false (bytesToItems [0, 127, 0, 129]) = some [⟨some 127, 0⟩, ⟨some (-127), 0⟩] := by
  constructor
  · intro x hx
    simp [bytesToItems, signed] at hx
    rcases hx with rfl | rfl <;> simp [ValidRow, maxBc]
  · decide

/-- non-vacuity: a split line jump is merged and re-split -/
example : collapse false (bytesToItems [4, 127, 0, 1]) = some [⟨some 128, 4⟩] := by decide

end CDV.Props.C10
