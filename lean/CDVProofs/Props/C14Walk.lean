import CDVProofs.Props.C14All
import CDVProofs.Props.C14Main
import CDVProofs.JumpsValid
import CDVProofs.Props.C01Full
/-! # C14 — `all_code_data(from_code(c))` = the stand-alone decodings of every node of the `co_consts` tree -/
namespace CDV.Props.C14
open CDV

/-- position by position, the code object decodes (on its own) to the CodeData -/
inductive DecAll (v : Ver) (T : OpTable) (F : FlagTable) : List RawCode → List CodeData → Prop
  | nil : DecAll v T F [] []
  | cons {m c d cs ds} : toCodeDataFuel v T F m c = .ok d → DecAll v T F cs ds → DecAll v T F (c :: cs) (d :: ds)

theorem DecAll.append {v T F} : ∀ {a b x y}, DecAll v T F a x → DecAll v T F b y → DecAll v T F (a ++ b) (x ++ y)
  | _, _, _, _, .nil, h => h
  | _, _, _, _, .cons h0 t, h => .cons h0 (DecAll.append t h)

theorem DecAll.length_eq {v T F} : ∀ {a x}, DecAll v T F a x → a.length = x.length
  | _, _, .nil => rfl
  | _, _, .cons _ t => by simp [DecAll.length_eq t]

theorem kids_walk_dec (v : Ver) (T : OpTable) (F : FlagTable) (n : Nat)
    (ih : ∀ c d, AllOK v T n c → toCodeDataFuel v T F n c = .ok d →
      ∃ l, allCodeFuel n d = .ok l ∧ DecAll v T F (rawAllFuel n c) l) :
    ∀ (ks : List RawCode) (ds : List CodeData), (∀ k ∈ ks, AllOK v T n k) → ks.mapM (toCodeDataFuel v T F n) = .ok ds →
      ∃ rest, ds.mapM (allCodeFuel n) = .ok rest ∧ DecAll v T F ((ks.map (rawAllFuel n)).flatten) rest.flatten
  | [], ds, _, h => by
    simp [pure, Except.pure] at h; subst h
    exact ⟨[], by simp [pure, Except.pure], .nil⟩
  | k :: ks, ds, hok, h => by
    simp only [List.mapM_cons] at h
    obtain ⟨d, h0, h⟩ := bind_ok h
    obtain ⟨ds', h1, h⟩ := bind_ok h
    simp only [pure, Except.pure, Except.ok.injEq] at h
    subst h
    obtain ⟨l, hl, el⟩ := ih k d (hok k (by simp)) h0
    obtain ⟨rest, hr, er⟩ := kids_walk_dec v T F n ih ks ds' (fun k' hk' => hok k' (by simp [hk'])) h1
    refine ⟨l :: rest, ?_, ?_⟩
    · simp [List.mapM_cons, hl, hr, bind, Except.bind, pure, Except.pure]
    · simpa using DecAll.append el er

/-- **`all_code_data` of decoded data = every code object of the tree, each decoded on its own.**  For every code
    object `c` on which `from_code` succeeds and whose nesting levels all meet the compiler facts `AllOK` (the ones
    measured on every real code object of every run): `from_code(c).all_code_data()` succeeds and yields exactly one
    CodeData per node of the tree of code objects reachable from `c` through `co_consts` — whether an instruction
    loads it or not — in pre-order, and the CodeData at each position is what `from_code` returns for the code object
    at that position. -/
theorem C14_all_is_standalone_walk (v : Ver) (T : OpTable) (F : FlagTable) : ∀ (n : Nat) (c : RawCode) (d : CodeData),
    AllOK v T n c → toCodeDataFuel v T F n c = .ok d →
    ∃ l, allCodeFuel n d = .ok l ∧ DecAll v T F (rawAllFuel n c) l
  | 0, _, _, hok, _ => by simp [AllOK] at hok
  | n+1, c, d, hok, h => by
    obtain ⟨hlev, hkids⟩ := hok
    cases c with
    | mk argc pos kw nl ss fl fln code lt fname name names varnames freevars cellvars consts =>
      obtain ⟨hlen, hnodup, _, _, _, _, _, hjs, _⟩ := hlev
      have h' : toCodeDataGo v T F (toCodeDataFuel v T F n)
          (.mk argc pos kw nl ss fl fln code lt fname name names varnames freevars cellvars consts) = .ok d := h
      have hjv := decoded_jumps_valid v T F _ argc pos kw nl ss fl fln code lt fname name names varnames freevars cellvars consts d h' hjs
      obtain ⟨ds, hi, hm⟩ := C14_iter_is_standalone_decoding v T F _ argc pos kw nl ss fl fln code lt fname name names varnames
        freevars cellvars consts d h' hlen hnodup hjv
      obtain ⟨rest, hr, er⟩ := kids_walk_dec v T F n (C14_all_is_standalone_walk v T F n) (rawCodesOf consts) ds hkids hm
      refine ⟨d :: rest.flatten, ?_, ?_⟩
      · simp [allCodeFuel, hi, hr, bind, Except.bind, pure, Except.pure]
      · exact .cons h er

/-- corollary: one CodeData per code object of the tree -/
theorem C14_all_decoded_count (v : Ver) (T : OpTable) (F : FlagTable) (n : Nat) (c : RawCode) (d : CodeData) (l : List CodeData)
    (hok : AllOK v T n c) (h : toCodeDataFuel v T F n c = .ok d) (hl : allCodeFuel n d = .ok l) :
    l.length = (rawAllFuel n c).length := by
  obtain ⟨l', hl', e⟩ := C14_all_is_standalone_walk v T F n c d hok h
  rw [hl] at hl'
  cases hl'
  exact e.length_eq.symm

open CDV.Props.C01 in
/-- non-vacuity: the hypotheses hold for the two-level module of `Props/C01Full.lean` (a module that defines a function),
    and the walk has two elements -/
example : AllOK .v38 exT 2 exOuter ∧
    (do let d ← toCodeDataFuel .v38 exT exF 2 exOuter
        let l ← allCodeFuel 2 d
        pure (l.length, (rawAllFuel 2 exOuter).length) : R (Nat × Nat)).toOption = some (2, 2) := by
  refine ⟨⟨ex_level_outer, ?_⟩, by decide +kernel⟩
  intro k hk
  have : k = exInner := by simpa [exOuter, RawCode.consts, rawCodesOf] using hk
  subst this
  exact ⟨ex_level_inner, by intro k hk; simp [exInner, RawCode.consts, rawCodesOf] at hk⟩

end CDV.Props.C14
