import CDVProofs.FullRT
import CDVProofs.Props.C01
import CDVProofs.FullRT2
/-! # C01 — `CodeData.from_code(c).to_code()` is `c`, at every nesting depth -/
namespace CDV.Props.C01
open CDV

/-- **The round trip as a whole.**  For every code object `c` whose nested code objects (to depth `n`) all satisfy the
    compiler facts `LevelOK` (distinct parameter names at the start of `co_varnames`, bytecode of bytes that does not end
    inside an instruction, at most three `EXTENDED_ARG` prefixes, non-jump operands in minimal width, jump targets at
    instruction starts, distinct cell and free variable names, a well-formed line table): if `from_code` returns `d`
    then `d.to_code()` **returns**, and the code object it returns is `c` in every attribute at every nesting level
    (`SameButLT`: `co_argcount`, `co_posonlyargcount`, `co_kwonlyargcount`, `co_nlocals`, `co_stacksize`, `co_flags`,
    `co_firstlineno`, `co_code`, `co_filename`, `co_name`, `co_names`, `co_varnames`, `co_freevars`, `co_cellvars`, and
    `co_consts` entry by entry with nested code objects related in the same way) — except the bytes of the line tables,
    which `C01_reads_identically_full` shows denote the same line for every instruction.  Induction over the nesting
    depth; each level is `C01_to_code_returns` + `C01_all_but_linetable`, and the jump-validity premise of the former
    is derived (`decoded_jumps_valid`). -/
theorem C01_full_roundtrip (v : Ver) (T : OpTable) (F : FlagTable)
    (hA : F.annotations ∉ [bOPTIMIZED, bNEWLOCALS, bVARARGS, bVARKEYWORDS, bNESTED, bGENERATOR, bNOFREE, bCOROUTINE, bASYNC_GENERATOR])
    (n : Nat) (c : RawCode) (d : CodeData) (hok : AllOK v T n c) (h : toCodeDataFuel v T F n c = .ok d) :
    ∃ c', fromCodeDataFuel v F n d = .ok c' ∧ SameButLT n c c' :=
  full_roundtrip v T F hA n c d hok h

/-- the same for the entry points `from_code` / `to_code` (nesting depth up to the model's recursion bound 64) -/
theorem C01_from_code_to_code (v : Ver) (T : OpTable) (F : FlagTable)
    (hA : F.annotations ∉ [bOPTIMIZED, bNEWLOCALS, bVARARGS, bVARKEYWORDS, bNESTED, bGENERATOR, bNOFREE, bCOROUTINE, bASYNC_GENERATOR])
    (c : RawCode) (d : CodeData) (hok : AllOK v T 64 c) (h : toCodeData v T F c = .ok d) :
    ∃ c', fromCodeData v F d = .ok c' ∧ SameButLT 64 c c' :=
  full_roundtrip v T F hA 64 c d hok h

/-- **… and CPython reads the result exactly as the original, at every nesting level.**  Same hypotheses (plus: the
    opcode table classifies only `EXTENDED_ARG` as a prefix): the code object `to_code()` returns is related to the
    original by `SameAsRead` — every attribute equal except the line-table bytes, *and* `Spec.read` (instructions, resolved
    operands, the line of every instruction) equal, for the code object and every code object nested in it.  The
    "operands fit their widths" premise of the C03 theorems is derived for decoded data (`decoded_fits`: the width loop
    ends with the original operands, each of which fits the width it was read in). -/
theorem C01_full_roundtrip_reading (v : Ver) (T : OpTable) (F : FlagTable)
    (hA : F.annotations ∉ [bOPTIMIZED, bNEWLOCALS, bVARARGS, bVARKEYWORDS, bNESTED, bGENERATOR, bNOFREE, bCOROUTINE, bASYNC_GENERATOR])
    (hT : ∀ op, T.get op = .ext → op = EXTENDED_ARG)
    (n : Nat) (c : RawCode) (d : CodeData) (hok : AllOK v T n c) (h : toCodeDataFuel v T F n c = .ok d) :
    ∃ c', fromCodeDataFuel v F n d = .ok c' ∧ SameAsRead v T n c c' :=
  full_roundtrip_reading v T F hA hT n c d hok h

/-- every decoded jump designates a block that exists (used above; also the premise of `C01_decoded_data_encodes`) -/
theorem C13_decoded_jumps_valid (v : Ver) (T : OpTable) (F : FlagTable) (dec : RawCode → R CodeData)
    (argc pos kw nl ss fl : Nat) (fln : Int) (code lt : List Nat) (fname name : PStr) (names varnames freevars cellvars : List PStr)
    (consts : List RConst) (d : CodeData)
    (h : toCodeDataGo v T F dec (.mk argc pos kw nl ss fl fln code lt fname name names varnames freevars cellvars consts) = .ok d)
    (hjs : ∀ raws, parseBytes code = .ok raws → ∀ r ∈ raws,
      (T.get r.op = .jabs → (decMult v * r.arg).toNat ∈ raws.map (·.first)) ∧
      (T.get r.op = .jrel → ((r.next : Int) + decMult v * r.arg).toNat ∈ raws.map (·.first))) :
    ∀ i ∈ d.blocks.flatten, ∀ t r, i.arg = .jump t r → t < d.blocks.length :=
  decoded_jumps_valid v T F dec argc pos kw nl ss fl fln code lt fname name names varnames freevars cellvars consts d h hjs

def exN (s : String) : PStr := ⟨s, true⟩
def exT : OpTable := ⟨(List.range 160).map fun op => if op == 124 then .loc else if op == 100 then .const else if op == 90 then .name
  else if op == 113 then .jabs else if op < 90 then .noarg else .raw⟩
def exF : FlagTable := ⟨[0, 1, 2, 3, 4, 5, 6, 7, 8, 9, 20], 20⟩
/-- `def f(x): return x` as compiled by 3.8 -/
def exInner : RawCode := .mk 1 0 0 1 1 0x43 1 [124, 0, 83, 0] [0, 1] (exN "m.py") (exN "f") [] [exN "x"] [] [] [.inner .none]
/-- the module around it: `LOAD_CONST <code>; LOAD_CONST 'f'; MAKE_FUNCTION 0; STORE_NAME f; LOAD_CONST None; RETURN_VALUE` -/
def exOuter : RawCode := .mk 0 0 0 0 2 0x40 1 [100, 0, 100, 1, 132, 0, 90, 0, 100, 2, 83, 0] [] (exN "m.py") (exN "<module>") [exN "f"] [] [] []
  [.code exInner, .inner (.str (exN "f")), .inner .none]

theorem ex_parse_inner : parseBytes [124, 0, 83, 0] = .ok [⟨124, 0, 1, 0, 2⟩, ⟨83, 0, 1, 2, 4⟩] := by rfl
theorem ex_parse_outer : parseBytes [100, 0, 100, 1, 132, 0, 90, 0, 100, 2, 83, 0] =
    .ok [⟨100, 0, 1, 0, 2⟩, ⟨100, 1, 1, 2, 4⟩, ⟨132, 0, 1, 4, 6⟩, ⟨90, 0, 1, 6, 8⟩, ⟨100, 2, 1, 8, 10⟩, ⟨83, 0, 1, 10, 12⟩] := by rfl

theorem valid_of_all (l : List Spec.SInstr)
    (h : l.all (fun s => match s.arg with | .jump idx _ => idx.isSome | _ => true) = true) :
    ∀ s ∈ l, ∀ idx rel, s.arg = .jump idx rel → idx.isSome := by
  intro s hs idx rel he
  have := List.all_eq_true.mp h s hs
  rw [he] at this
  exact this

theorem ne_nil_of_isEmpty {α : Type} (l : List α) (h : l.isEmpty = false) : l ≠ [] := by
  intro h0; rw [h0] at h; cases h

theorem ex_level_inner : LevelOK .v38 exT exInner := by
  refine ⟨by decide, by decide, (by intro h; cases h), by decide, (by simp [Complete, EXTENDED_ARG]), ?_, ?_, ?_, by decide, by decide, ?_, by decide, by decide,
    (by intro h; cases h), ?_, ?_⟩
  · intro raws h; rw [ex_parse_inner] at h; cases h; decide
  · intro raws h; rw [ex_parse_inner] at h; cases h; decide +kernel
  · intro raws h; rw [ex_parse_inner] at h; cases h; decide +kernel
  · exact valid_of_all _ (by decide +kernel)
  · intro _ cs h
    have h2 : LT.collapse false (LT.bytesToItems [0, 1]) = some [⟨some 1, 0⟩] := by decide +kernel
    rw [h2] at h; cases h; decide
  · exact ne_nil_of_isEmpty _ (by decide +kernel)

theorem ex_level_outer : LevelOK .v38 exT exOuter := by
  refine ⟨by decide, by decide, (by intro h; cases h), by decide, (by simp [Complete, EXTENDED_ARG]), ?_, ?_, ?_, by decide, by decide, ?_, by decide, by decide,
    (by intro h; cases h), ?_, ?_⟩
  · intro raws h; rw [ex_parse_outer] at h; cases h; decide
  · intro raws h; rw [ex_parse_outer] at h; cases h; decide +kernel
  · intro raws h; rw [ex_parse_outer] at h; cases h; decide +kernel
  · exact valid_of_all _ (by decide +kernel)
  · intro _ cs h
    have h2 : LT.collapse false (LT.bytesToItems []) = some [] := by decide +kernel
    rw [h2] at h; cases h; decide
  · exact ne_nil_of_isEmpty _ (by decide +kernel)

/-- non-vacuity of `C01_full_roundtrip`: a module that defines a function (two nesting levels) meets `AllOK`, `from_code`
    returns on it — so the theorem applies and yields the re-encoded module with the same attributes at both levels -/
example : AllOK .v38 exT 2 exOuter ∧ (toCodeDataFuel .v38 exT exF 2 exOuter).toOption.isSome = true := by
  refine ⟨⟨ex_level_outer, ?_⟩, by decide +kernel⟩
  intro k hk
  have : k = exInner := by simpa [exOuter, RawCode.consts, CDV.Props.C14.rawCodesOf] using hk
  subst this
  exact ⟨ex_level_inner, by intro k hk; simp [exInner, RawCode.consts, CDV.Props.C14.rawCodesOf] at hk⟩

/-! ## `C01_full` (byte-equality of the line table included) is false -/

def exT2 : OpTable := ⟨(List.range 160).map fun op => if op == 100 then .const else if op == 144 then .ext else if op == 113 then .jabs
  else if op < 90 then .noarg else .raw⟩
/-- `EXTENDED_ARG 0; JUMP_ABSOLUTE 4; LOAD_CONST None; RETURN_VALUE` with the line table `(0,+1),(2,-1),(2,+5)`: the second
    entry's address lies inside the first instruction, after its prefix — the layout of the known finding
    `C01:lnotab-entry-inside-instruction` (there produced by the 3.8/3.9 peephole pass) -/
def exLT : RawCode := .mk 0 0 0 0 1 0x40 1 [144, 0, 113, 4, 100, 0, 83, 0] [0, 1, 2, 255, 2, 5] (exN "m.py") (exN "<module>") [] [] [] []
  [.inner .none]
def ltOf : RawCode → List Nat
  | .mk _ _ _ _ _ _ _ _ lt _ _ _ _ _ _ _ => lt
def codeOf : RawCode → List Nat
  | .mk _ _ _ _ _ _ _ code _ _ _ _ _ _ _ _ => code

/-- the model's round trip on the witness: `co_code` comes back byte for byte, the line table comes back as `(0,+1),(4,+4)` -/
theorem exLT_roundtrip : ((toCodeData .v38 exT2 exF exLT).toOption.bind (fun d => (fromCodeData .v38 exF d).toOption)).map
    (fun c => (codeOf c, ltOf c)) = some ([144, 0, 113, 4, 100, 0, 83, 0], [0, 1, 4, 4]) := by decide +kernel

/-- **The byte-exact statement is false** (which is why it is not claimed): the witness decodes and re-encodes to a
    different `co_lnotab`.  The same layout is replayed on the implementation by the known finding of C01. -/
theorem C01_full_false : ¬ C01_full .v38 exT2 exF := by
  intro hfull
  have hw := exLT_roundtrip
  cases hd : toCodeData .v38 exT2 exF exLT with
  | error e => rw [hd] at hw; simp [Except.toOption] at hw
  | ok d =>
    have h2 := hfull exLT d hd
    rw [hd] at hw
    simp [Except.toOption, h2, ltOf, codeOf, exLT] at hw

end CDV.Props.C01
