import CDVProofs.JsonCanon
/-! # C15 — the JSON form is portable across interpreter versions

`jCodeData` (to_json_data), `codeDataFromJson` (from_json_data) and `normCode` (normalize) take **no**
interpreter-version parameter: their types are the proof that the model of the JSON codec and of normalize
is one and the same on every host.  That this single model describes the implementation on each of
3.7 … 3.13 is the correspondence claim, checked on every run (documents written under 3.7–3.10, loaded
under 3.7–3.13, every consumer compared with the model).  On top of that: -/
namespace CDV.Props.C15
open CDV

/-- a document written by `to_json_data`, loaded by `from_json_data` and written again is the identical document -/
theorem C15_redump (d : CodeData) (h : WfCode d) :
    ∃ x, codeDataFromJson (jCodeData d) = .ok x ∧ jCodeData x = jCodeData d :=
  ⟨canonCode d, codeDataFromJson_jCodeData d h, jCodeData_canon d⟩

/-- normalizing the loaded data gives what loading the producer's normalized data gives -/
theorem C15_normalize_commutes (d : CodeData) (h : WfCode d) :
    ∃ x, codeDataFromJson (jCodeData d) = .ok x ∧ jCodeData (normCode x) = jCodeData (normCode d) := by
  refine ⟨canonCode d, codeDataFromJson_jCodeData d h, ?_⟩
  rw [normCode_canon, jCodeData_canon]

/-- loading twice changes nothing more: the loaded data is a fixed point of the round trip's effect -/
theorem C15_reload_stable (d : CodeData) : jCodeData (canonCode (canonCode d)) = jCodeData (canonCode d) :=
  jCodeData_canon (canonCode d)

end CDV.Props.C15
