import CDVProofs.SchemaValid
/-! # C07 — `to_json_data` validates against the published schema -/
namespace CDV.Props.C07
open CDV CDV.Extracted

/-- **Schema validity.**  The schema is `code_data.JSON_SCHEMA` itself, regenerated from the repository's source on every
    run (`CDV/ExtractedSchema.lean`); validity is JSON Schema's (`type`, `enum`, `required`, `properties`, `items`, `anyOf`,
    `$ref`).  For every CodeData whose integers outside constants are JSON-safe (`WfCode`: they come from C ints) and whose
    additional line, where present at any nesting depth, has a line (`AlCode`): the document `to_json_data` returns is
    valid — every operand kind, every constant kind at any nesting (huge ints as `{"int": …}`, non-finite floats as
    `{"float": …}`, strings with lone surrogates as `{"string": …}` at every string position, bytes, complex, tuples,
    frozensets, nested code), optional fields present or omitted. -/
theorem C07_schema_valid (d : CodeData) (hw : WfCode d) (ha : AlCode d) : Valid jsonDefs jsonRoot (jCodeData d) :=
  valid_code d hw ha

/-- the hypothesis the proof forced, run at the excluded point: an additional line without a line (which decoding
    produces only from a hand-altered 3.10 line table with a no-line range past the end of the code) serializes as
    `"line": null`, and that is *not* valid — the real implementation agrees (`$._additional_line.line: expected integer`) -/
example : ¬ Valid jsonDefs (.ref "AdditionalLine") (jAddLine ⟨none, []⟩) := by
  intro h
  cases h with
  | ref hl hv =>
    have : List.lookup "AdditionalLine" jsonDefs = some (.node (some .object) none [] [("line", .node (some .integer) none [] [] none),
      ("additional_offsets", .node (some .array) none [] [] (some (.node (some .integer) none [] [] none)))] none) := by rfl
    rw [this] at hl
    cases hl
    cases hv with
    | node _ _ _ hp _ =>
      have := hp (fields [("line", some .null), ("additional_offsets", nonEmpty ([] : List Int) (jInts []))]) rfl "line"
        (.node (some .integer) none [] [] none) .null (by simp) (by simp [jget_fields_cons])
      cases this with
      | node ht _ _ _ _ => cases ht

/-- non-vacuity: a module body `x = 1` with a docstring-less function constant satisfies the hypotheses -/
example : WfCode (.mk [[.mk 100 (.const (.inner (.int 1)) none) none (some 1) [], .mk 90 (.name ⟨"78", true⟩ none) none (some 1) []]]
    ⟨"6d", true⟩ 1 ⟨"6d", true⟩ 1 none [] false false none []) ∧
    AlCode (.mk [[.mk 100 (.const (.inner (.int 1)) none) none (some 1) [], .mk 90 (.name ⟨"78", true⟩ none) none (some 1) []]]
    ⟨"6d", true⟩ 1 ⟨"6d", true⟩ 1 none [] false false none []) := by
  simp [WfCode, WfBlocks, WfInstrs, WfInstr, WfArg, WfConst, WfAddArgs, AlCode, AlBlocks, AlInstrs, AlInstr, AlArg, AlConst, AlArgs,
    SmallInt, SmallOpt, SmallOptI, MIN_INTEGER, MAX_INTEGER, Extracted.MIN_INTEGER, Extracted.MAX_INTEGER]

end CDV.Props.C07
