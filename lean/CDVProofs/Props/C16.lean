import CDV.Cli
import CDVProofs.Normalize
/-! # C16 — the command line prints what the API returns (decision logic only; process behaviour is tested) -/
namespace CDV.Props.C16
open CDV CDV.Cli

/-- the command accepts exactly one program source: "given" means present on the command line, whatever its value -/
theorem C16_validation (s : Sources) :
    accepts s = true ↔
      (s = ⟨true, false, false, false⟩ ∨ s = ⟨false, true, false, false⟩ ∨ s = ⟨false, false, true, false⟩ ∨ s = ⟨false, false, false, true⟩) := by
  obtain ⟨f, c, m, e⟩ := s
  cases f <;> cases c <;> cases m <;> cases e <;> simp [accepts, given]

/-- no source, or two or more: usage error -/
theorem C16_usage_error (s : Sources) (h : given s ≠ 1) : accepts s = false := by
  simp [accepts, h]

/-- what is printed is the API's result: the normalized data by default, the decoded data with --no-normalize -/
theorem C16_printed (fl : Flags) (d : CodeData) :
    printed fl d = (if fl.noNormalize then d else normCode d) := rfl

/-- with --json the document is `to_json_data` of that same value -/
theorem C16_json (fl : Flags) (d : CodeData) (h : fl.json = true) :
    printedJson fl d = some (jCodeData (printed fl d)) := by simp [printedJson, h]

/-- the default output is a fixed point of normalize (printing twice through the pipeline changes nothing) -/
theorem C16_default_is_normal (fl : Flags) (d : CodeData) (h : fl.noNormalize = false) :
    normCode (printed fl d) = printed fl d := by simp [printed, h, normCode_idem]

example : accepts ⟨false, true, false, false⟩ = true ∧ accepts ⟨false, true, false, true⟩ = false ∧ accepts ⟨false, false, false, false⟩ = false := by decide

end CDV.Props.C16
