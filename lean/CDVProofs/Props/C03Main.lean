import CDVProofs.EncodeSpec
/-! # C03 — the assembled statement: CPython reads `to_code()`'s result as the data says -/
namespace CDV.Props.C03
open CDV

/-- **C03, assembled.**  For every well-kinded CodeData (each instruction's operand is of the kind its opcode takes)
    whose operands fit the widths they are written in, with no empty trailing block, and — before 3.10 — a line on every
    instruction: whenever `blocks_to_bytes` returns, the code object built from its bytes and tables, from the line table
    `from_line_mapping` writes for its per-code-unit lines, and from the encoded constants, is read by CPython as one
    instruction per instruction of the data, in order, with the same opcode, the given line (`None` iff none), and an
    operand that says what the data says: same name / local / cell / free variable, constant with the same
    `constant_key`, same raw operand, and every jump — whatever operand-width growth was needed — landing on the first
    instruction of its target block with the right kind. -/
theorem C03_to_code_reads_like_data (v : Ver) (T : OpTable) (blocks : List (List Instr)) (addArgs : List Arg) (fv : List PStr)
    (tp : Option Function) (out : BlocksOut) (h : blocksToBytes v blocks addArgs fv tp = .ok out)
    (enc : CodeData → R RawCode) (consts' : List RConst)
    (hconsts : out.consts.mapM (fun c => match c with | .inner i => pure (RConst.inner i) | .code d => RConst.code <$> enc d) = .ok consts')
    (fln : Int) (table : List Nat)
    (htable : LT.fromLineMapping v.is310 ⟨out.lm.lines.map (fun p => (p.1, p.2.map (· - fln))), out.lm.extra⟩ = .ok table)
    (argc pos kw nl ss fl : Nat) (fname name : PStr)
    (hkind : ∀ ins ∈ blocks.flatten, KindOK T ins) (hopb : ∀ ins ∈ blocks.flatten, ins.op < 256)
    (henc : ∀ args, finalArgs v blocks addArgs fv tp = .ok args → ∀ p ∈ blocks.flatten.zip args, Encodable p.1 p.2)
    (hst : ∀ s ∈ blockStarts blocks 0, s < blocks.flatten.length) (hne : blocks.flatten ≠ [])
    (hlines : v.is310 = false → ∀ ins ∈ blocks.flatten, ins.line.isSome) :
    (Spec.read v T (.mk argc pos kw nl ss fl fln out.code table fname name out.names out.varnames fv out.cellvars consts')).length
      = blocks.flatten.length ∧
    ∀ (j : Nat) (ins : Instr) (s : Spec.SInstr), blocks.flatten[j]? = some ins →
      (Spec.read v T (.mk argc pos kw nl ss fl fln out.code table fname name out.names out.varnames fv out.cellvars consts'))[j]? = some s →
      s.op = ins.op ∧ s.line = ins.line ∧ ArgSays (blockStarts blocks 0) out.consts ins.arg s.arg :=
  encode_reads_like_data v T blocks addArgs fv tp out h enc consts' hconsts fln table htable argc pos kw nl ss fl fname name
    hkind hopb henc hst hne hlines

end CDV.Props.C03
