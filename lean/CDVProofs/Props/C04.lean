import CDVProofs.Args
/-! # C04 — signature, docstring and kind agree with CPython's calling convention -/
namespace CDV.Props.C04
open CDV

/-- **Signature**: for every header (any counts, any flags) whose `co_varnames` is long enough and whose
    parameter names are distinct — which CPython guarantees for compiled code —
    `args_from_input` succeeds and `Args.parameters` lists exactly CPython's binding of the names
    (positional-only, positional-or-keyword, *args, keyword-only, **kwargs) in `inspect.signature` order. -/
theorem C04_signature (argc pos kw : Nat) (varnames : List PStr) (varargs varkw : Bool)
    (hpos : pos ≤ argc)
    (hlen : argc + kw + (if varargs then 1 else 0) + (if varkw then 1 else 0) ≤ varnames.length)
    (hnodup : ((Spec.sigCore argc pos kw varnames varargs varkw).map Prod.fst).Nodup) :
    ∃ a, argsFromInput ⟨argc, pos, kw, varnames, varargs, varkw⟩ = .ok a ∧
      a.parameters = Spec.sigCore argc pos kw varnames varargs varkw := by
  obtain ⟨a, h1, h2⟩ := argsFromInput_raw argc pos kw varnames varargs varkw hpos hlen
  refine ⟨a, h1, ?_⟩
  rw [Args.parameters, h2]
  exact odict_nodup _ hnodup

/-- non-vacuity + the witness of the repaired defect: `def f(a, b=1, *c, d, **e)` has
    `co_varnames = (a, b, d, c, e)`; the decoded signature is `a, b, *c, d, **e`. -/
example :
    let n (s : String) : PStr := ⟨s, true⟩
    (argsFromInput ⟨2, 0, 1, [n "61", n "62", n "64", n "63", n "65"], true, true⟩).toOption.map Args.parameters
      = some [(n "61", .posOrKw), (n "62", .posOrKw), (n "63", .varPos), (n "64", .kwOnly), (n "65", .varKw)] := by
  decide

end CDV.Props.C04
