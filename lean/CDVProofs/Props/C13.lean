import CDVProofs.Blocks
/-! # C13 — blocks are exactly the jump-target partition of the instruction sequence

`buildBlocks` is the block-building half of `bytes_to_blocks` (`to_code_data` calls it on the decoded
instruction list `ois : List (offset × instruction)`, jumps still carrying byte offsets). -/
namespace CDV.Props.C13
open CDV

/-- **Partition, in order, no empty block**: for every instruction list, the blocks concatenate to exactly the
    instruction sequence (jump operands rewritten to block indices, nothing else touched) and none is empty. -/
theorem C13_partition (ois : List (Nat × Instr)) (blocks : List (List Instr)) (h : buildBlocks ois = .ok blocks) :
    (∀ b ∈ blocks, b ≠ []) ∧ blocks.flatten = ois.map (fun p => retarget (targetsOf ois) p.2) := by
  have := group_spec (targetsOf ois) ois [] blocks (by simp) h
  exact ⟨this.1, by simpa [unacc] using this.2.1⟩

/-- **No more and no fewer**: there are exactly as many blocks as instructions whose offset is offset 0 or the
    target of some jump. -/
theorem C13_block_count (ois : List (Nat × Instr)) (blocks : List (List Instr)) (h : buildBlocks ois = .ok blocks) :
    blocks.length = (ois.filter (fun p => decide (p.1 = 0 ∨ p.1 ∈ jumpTargets ois))).length := by
  have := (group_spec (targetsOf ois) ois [] blocks (by simp) h).2.2
  simp only [List.length_nil, Nat.zero_add] at this
  rw [this]
  congr 1
  apply List.filter_congr
  intro p _
  simp [mem_targetsOf]

/-- grouping succeeds whenever the code starts at offset 0 (or is empty) -/
theorem C13_total (ois : List (Nat × Instr)) (h : ∀ p, ois.head? = some p → p.1 = 0) : ∃ blocks, buildBlocks ois = .ok blocks := by
  apply group_ok_of_first_target
  right
  intro p hp
  have := h p hp
  simp [this, zero_mem_targetsOf]

/-- **Every jump designates an entry of the target table**: the block index written into a jump is the rank of its
    target offset among the sorted targets, hence smaller than the number of targets. -/
theorem C13_jump_index_in_targets (ois : List (Nat × Instr)) (off op t : Nat) (r : Bool) (n : Option Nat) (l : Option Int) (o : List Int)
    (hm : (off, Instr.mk op (.jump t r) n l o) ∈ ois) :
    retarget (targetsOf ois) (Instr.mk op (.jump t r) n l o) = Instr.mk op (.jump (indexOf t (targetsOf ois)) r) n l o ∧
    indexOf t (targetsOf ois) < (targetsOf ois).length := by
  refine ⟨rfl, indexOf_lt_of_mem t _ ?_⟩
  exact jumpTarget_mem_targetsOf ois t (mem_jumpTargets op t r n l o off ois hm)

/-- non-vacuity: three instructions, the last jumps back to the second: two blocks `[i0]`, `[i1, jump→1]` -/
example :
    buildBlocks [(0, .mk 9 (.noarg 0) none none []), (2, .mk 9 (.noarg 0) none none []), (4, .mk 113 (.jump 2 false) none none [])]
      = .ok [[.mk 9 (.noarg 0) none none []], [.mk 9 (.noarg 0) none none [], .mk 113 (.jump 1 false) none none []]] := by
  rfl

end CDV.Props.C13
