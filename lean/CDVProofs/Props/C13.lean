import CDVProofs.Blocks
import CDVProofs.BlockStarts
/-! # C13 — blocks are exactly the jump-target partition of the instruction sequence

`buildBlocks` is the block-building half of `bytes_to_blocks` (`to_code_data` calls it on the decoded
instruction list `ois : List (offset × instruction)`, jumps still carrying byte offsets). -/
namespace CDV.Props.C13
open CDV

/-- **Partition, in order, no empty block**: for every instruction list, the blocks concatenate to exactly the
    instruction sequence (jump operands rewritten to block indices, nothing else touched) and none is empty. -/
theorem C13_partition (ois : List (Nat × Instr)) (blocks : List (List Instr)) (h : buildBlocks ois = .ok blocks) :
    (∀ b ∈ blocks, b ≠ []) ∧ blocks.flatten = ois.map (fun p => retarget (targetsOf ois) p.2) := by
  have := group_spec (targetsOf ois) ois [] blocks (by simp) h
  exact ⟨this.1, by simpa [unacc] using this.2.1⟩

/-- **No more and no fewer**: there are exactly as many blocks as instructions whose offset is offset 0 or the
    target of some jump. -/
theorem C13_block_count (ois : List (Nat × Instr)) (blocks : List (List Instr)) (h : buildBlocks ois = .ok blocks) :
    blocks.length = (ois.filter (fun p => decide (p.1 = 0 ∨ p.1 ∈ jumpTargets ois))).length := by
  have := (group_spec (targetsOf ois) ois [] blocks (by simp) h).2.2
  simp only [List.length_nil, Nat.zero_add] at this
  rw [this]
  congr 1
  apply List.filter_congr
  intro p _
  simp [mem_targetsOf]

/-- grouping succeeds whenever the code starts at offset 0 (or is empty) -/
theorem C13_total (ois : List (Nat × Instr)) (h : ∀ p, ois.head? = some p → p.1 = 0) : ∃ blocks, buildBlocks ois = .ok blocks := by
  apply group_ok_of_first_target
  right
  intro p hp
  have := h p hp
  simp [this, zero_mem_targetsOf]

/-- **Every jump designates an entry of the target table**: the block index written into a jump is the rank of its
    target offset among the sorted targets, hence smaller than the number of targets. -/
theorem C13_jump_index_in_targets (ois : List (Nat × Instr)) (off op t : Nat) (r : Bool) (n : Option Nat) (l : Option Int) (o : List Int)
    (hm : (off, Instr.mk op (.jump t r) n l o) ∈ ois) :
    retarget (targetsOf ois) (Instr.mk op (.jump t r) n l o) = Instr.mk op (.jump (indexOf t (targetsOf ois)) r) n l o ∧
    indexOf t (targetsOf ois) < (targetsOf ois).length := by
  refine ⟨rfl, indexOf_lt_of_mem t _ ?_⟩
  exact jumpTarget_mem_targetsOf ois t (mem_jumpTargets op t r n l o off ois hm)

/-- **One block per target, starting exactly there.**  With strictly increasing instruction offsets (what `_parse_bytes`
    yields, `C02`) and every jump target an instruction start (what CPython requires of valid code): there are exactly as
    many blocks as distinct targets (offset 0 and the jump targets), and the `k`-th block starts, in the flattened
    instruction sequence, at the instruction whose offset is the `k`-th smallest target. -/
theorem C13_blocks_are_targets (ois : List (Nat × Instr)) (blocks : List (List Instr)) (h : buildBlocks ois = .ok blocks)
    (hso : SortedLt (ois.map (·.1))) (hsub : ∀ t ∈ targetsOf ois, t ∈ ois.map (·.1)) :
    blocks.length = (targetsOf ois).length ∧
    blockStarts blocks 0 = (targetsOf ois).map (fun t => indexOf t (ois.map (·.1))) :=
  let ⟨h1, h2⟩ := blockStarts_eq_targets ois blocks h hso hsub
  ⟨h2, h1⟩

/-- **Every block after the first is the target of at least one jump**: the offset at which the `k`-th block starts
    (`k ≥ 1`) is a jump target of some decoded instruction. -/
theorem C13_later_blocks_are_jump_targets (ois : List (Nat × Instr)) (k t : Nat) (hk : 0 < k) (ht : (targetsOf ois)[k]? = some t) :
    t ∈ jumpTargets ois := by
  have hmem : t ∈ targetsOf ois := List.mem_of_getElem? ht
  rcases (mem_targetsOf ois t).mp hmem with h0 | hj
  · -- 0 is the smallest target, so it sits at index 0
    subst h0
    have hs := targetsOf_sorted ois
    have h00 : (targetsOf ois)[0]? = some 0 := by
      have hz := zero_mem_targetsOf ois
      cases hT : targetsOf ois with
      | nil => rw [hT] at hz; simp at hz
      | cons x xs =>
        rw [hT] at hs hz
        simp only [SortedLt, List.pairwise_cons] at hs
        rcases List.mem_cons.mp hz with h | h
        · subst h; simp
        · have := hs.1 0 h; omega
    -- a strictly sorted list has no repeated element
    have hk' : k < (targetsOf ois).length := (List.getElem?_eq_some_iff.mp ht).1
    have h0' : 0 < (targetsOf ois).length := by omega
    have e1 : (targetsOf ois)[k] = 0 := (List.getElem?_eq_some_iff.mp ht).2
    have e0 : (targetsOf ois)[0] = 0 := by
      have := (List.getElem?_eq_some_iff.mp h00).2; exact this
    have := List.pairwise_iff_getElem.mp hs 0 k h0' hk' hk
    omega
  · exact hj

/-- non-vacuity: three instructions, the last jumps back to the second: two blocks `[i0]`, `[i1, jump→1]` -/
example :
    buildBlocks [(0, .mk 9 (.noarg 0) none none []), (2, .mk 9 (.noarg 0) none none []), (4, .mk 113 (.jump 2 false) none none [])]
      = .ok [[.mk 9 (.noarg 0) none none []], [.mk 9 (.noarg 0) none none [], .mk 113 (.jump 1 false) none none []]] := by
  rfl

end CDV.Props.C13
