import CDVProofs.Normalize
/-! # C06 — normalization yields a canonical form, whatever the operation history -/
namespace CDV.Props.C06
open CDV

/-- `normalize` is idempotent (every CodeData, nested code included). -/
theorem C06_idempotent (d : CodeData) : normCode (normCode d) = normCode d := normCode_idem d

def iter (f : CodeData → CodeData) : Nat → CodeData → CodeData
  | 0, d => d
  | n + 1, d => f (iter f n d)

/-- Any non-empty sequence of `normalize` calls equals one call (induction over the history). -/
theorem C06_normalize_history (d : CodeData) : ∀ n : Nat, iter normCode (n + 1) d = normCode d
  | 0 => rfl
  | n + 1 => by
    show normCode (iter normCode (n + 1) d) = normCode d
    rw [C06_normalize_history d n, C06_idempotent]

/-- The operations of the property, as model functions: each one re-normalizes after decoding. -/
inductive Op | norm | jsonRT | codeRT
deriving DecidableEq, Repr

/-- One step of an API history on normalized data.  The two round-trip steps are parameters: their laws are
    C07 (JSON) and C01/C03 (code), stated there; this theorem is the induction over histories. -/
def stepWith (jsonRT codeRT : CodeData → Option CodeData) (d : CodeData) : Op → Option CodeData
  | .norm => some (normCode d)
  | .jsonRT => (jsonRT d).map normCode
  | .codeRT => (codeRT d).map normCode

def runWith (jsonRT codeRT : CodeData → Option CodeData) : List Op → CodeData → Option CodeData
  | [], d => some d
  | op :: ops, d => (stepWith jsonRT codeRT d op).bind (runWith jsonRT codeRT ops)

/-- **History stability**: if a JSON round trip returns its input and a code round trip of normalized data
    re-normalizes to its input, then *every* operation sequence started from normalized data returns that
    same data.  (The two hypotheses are exactly the round-trip theorems of C07 and of C01/C03+C06_canonical;
    the first is proved in `Props/C07`, the second is covered by the correspondence — see DESIGN.md.) -/
theorem C06_history (jsonRT codeRT : CodeData → Option CodeData) (d₀ : CodeData)
    (hnorm : normCode d₀ = d₀)
    (hjson : jsonRT d₀ = some d₀)
    (hcode : ∃ d', codeRT d₀ = some d' ∧ normCode d' = d₀) :
    ∀ ops : List Op, runWith jsonRT codeRT ops d₀ = some d₀
  | [] => rfl
  | op :: ops => by
    have hstep : stepWith jsonRT codeRT d₀ op = some d₀ := by
      cases op with
      | norm => simp [stepWith, hnorm]
      | jsonRT => simp [stepWith, hjson, hnorm]
      | codeRT => obtain ⟨d', h1, h2⟩ := hcode; simp [stepWith, h1, h2]
    simp [runWith, hstep, C06_history jsonRT codeRT d₀ hnorm hjson hcode ops]

/-- non-vacuity: a concrete CodeData with every private field set is changed by `normalize`, and the result is a fixed point -/
example :
    let d : CodeData := .mk [[.mk 100 (.const (.inner (.int 1)) (some 3)) (some 2) (some 7) [0]]] ⟨"66", true⟩ 1 ⟨"6d", true⟩ 1 none [] false true
      (some ⟨some 9, [1]⟩) [.name ⟨"78", true⟩ (some 0)]
    normCode d ≠ d ∧ normCode (normCode d) = normCode d := by
  constructor
  · intro h; simp [normCode] at h
  · exact normCode_idem _

end CDV.Props.C06
