import CDVProofs.Props.C03Main
/-! # C03 — the hypotheses of `C03_to_code_reads_like_data` are satisfiable (a concrete two-block program) -/
namespace CDV.Props.C03
open CDV

instance (i : Instr) (a : Int) : Decidable (Encodable i a) := by unfold Encodable Fits; infer_instance

def nvN (s : String) : PStr := ⟨s, true⟩
def nvT : OpTable := ⟨(List.range 160).map fun op => if op == 101 then .name else if op == 100 then .const
  else if op == 114 then .jabs else if op == 110 then .jrel else if op < 90 then .noarg else .raw⟩
/-- `LOAD_NAME x; POP_JUMP_IF_FALSE → block 1; LOAD_CONST 1; RETURN_VALUE | LOAD_CONST None; RETURN_VALUE` (3.8) -/
def nvBlocks : List (List Instr) :=
  [[.mk 101 (.name (nvN "x") none) none (some 1) [], .mk 114 (.jump 1 false) none (some 1) [],
    .mk 100 (.const (.inner (.int 1)) none) none (some 2) [], .mk 83 (.noarg 0) none (some 2) []],
   [.mk 100 (.const (.inner .none) none) none (some 3) [], .mk 83 (.noarg 0) none (some 3) []]]

theorem ok_of_toOption {α : Type} {e : R α} {a : α} (h : e.toOption = some a) : e = .ok a := by
  cases e with
  | error _ => cases h
  | ok b => simp [Except.toOption] at h; rw [h]

theorem nv_final : finalArgs .v38 nvBlocks [] [] none = .ok [0, 8, 0, 0, 1, 0] := ok_of_toOption (by decide +kernel)

theorem nv_flat : nvBlocks.flatten =
    [.mk 101 (.name (nvN "x") none) none (some 1) [], .mk 114 (.jump 1 false) none (some 1) [],
     .mk 100 (.const (.inner (.int 1)) none) none (some 2) [], .mk 83 (.noarg 0) none (some 2) [],
     .mk 100 (.const (.inner .none) none) none (some 3) [], .mk 83 (.noarg 0) none (some 3) []] := by rfl

/-- every hypothesis of `C03_to_code_reads_like_data` about the data holds for `nvBlocks`, and `blocks_to_bytes` returns on it -/
example :
    (blocksToBytes .v38 nvBlocks [] [] none).toOption.isSome = true ∧
    (∀ ins ∈ nvBlocks.flatten, KindOK nvT ins) ∧ (∀ ins ∈ nvBlocks.flatten, ins.op < 256) ∧
    (∀ args, finalArgs .v38 nvBlocks [] [] none = .ok args → ∀ p ∈ nvBlocks.flatten.zip args, Encodable p.1 p.2) ∧
    (∀ s ∈ blockStarts nvBlocks 0, s < nvBlocks.flatten.length) ∧ nvBlocks.flatten ≠ [] ∧
    (∀ ins ∈ nvBlocks.flatten, ins.line.isSome) := by
  refine ⟨by decide +kernel, ?_, by decide +kernel, ?_, by decide +kernel, by decide +kernel, by decide +kernel⟩
  · intro ins hi
    rw [nv_flat] at hi
    simp only [List.mem_cons, List.not_mem_nil, or_false] at hi
    rcases hi with rfl | rfl | rfl | rfl | rfl | rfl
    · exact ⟨_, _, rfl⟩
    · exact ⟨_, rfl⟩
    · exact ⟨_, _, rfl⟩
    · exact ⟨_, rfl⟩
    · exact ⟨_, _, rfl⟩
    · exact ⟨_, rfl⟩
  · intro args h
    rw [nv_final] at h
    cases h
    decide +kernel

end CDV.Props.C03
