import CDVProofs.EncodeSpecAL
/-! # C03 — `to_code()` as a whole, for any CodeData (with or without `_additional_line`) -/
namespace CDV.Props.C03
open CDV

/-- what `finishCode` builds, with the line table it wrote -/
theorem finishCode_table (v : Ver) (F : FlagTable) (out : BlocksOut) (consts : List RConst) (fname : PStr) (fln : Int) (name : PStr) (ss : Nat)
    (tp : Option Function) (fv : List PStr) (ann nested : Bool) (addLine : Option AdditionalLine) (c : RawCode)
    (h : finishCode v F out consts fname fln name ss tp fv ann nested addLine = .ok c) :
    ∃ a p k fl table, LT.fromLineMapping v.is310 (finalLineMap out addLine fln) = .ok table ∧
      c = .mk a p k out.varnames.length ss fl fln out.code table fname name out.names out.varnames fv out.cellvars consts := by
  unfold finishCode at h
  cases hh : headerCounts tp out.varnames with
  | error e => simp [hh, bind, Except.bind] at h
  | ok r =>
    obtain ⟨argc, pos, kw, flags⟩ := r
    cases ht : LT.fromLineMapping v.is310 (finalLineMap out addLine fln) with
    | error e => simp [hh, ht, bind, Except.bind] at h
    | ok table =>
      by_cases hc : (!v.hasPosOnly && pos != 0) = true
      · simp [hh, ht, hc, bind, Except.bind, throw, throwThe, MonadExceptOf.throw] at h
      · simp only [hh, ht, hc, bind, Except.bind, pure, Except.pure, if_false, Bool.false_eq_true, Except.ok.injEq] at h
        exact ⟨argc, pos, kw, _, table, rfl, h.symm⟩

/-- **C03 for `to_code()` as a whole.**  For every well-kinded CodeData — with or without `_additional_line` and
    `_additional_args` — whose operands fit the widths they are written in, with no empty trailing block, and, before 3.10,
    a line on every instruction and on the additional line: whenever `to_code()` returns, CPython reads the code object it
    built (`Spec.read`) as one instruction per instruction of the data, in order, with the same opcode, the given line
    (`None` iff none) and an operand that says what the data says (`ArgSays`, against the constants table that was
    emitted). -/
theorem C03_to_code_reads_like_data_full (v : Ver) (T : OpTable) (F : FlagTable) (enc : CodeData → R RawCode)
    (blocks : List (List Instr)) (fname : PStr) (fln : Int) (name : PStr) (ss : Nat) (tp : Option Function) (fv : List PStr)
    (ann nested : Bool) (addLine : Option AdditionalLine) (addArgs : List Arg) (c' : RawCode)
    (h : fromCodeDataGo v F enc (.mk blocks fname fln name ss tp fv ann nested addLine addArgs) = .ok c')
    (hkind : ∀ ins ∈ blocks.flatten, KindOK T ins) (hopb : ∀ ins ∈ blocks.flatten, ins.op < 256)
    (henc : ∀ args, finalArgs v blocks addArgs fv tp = .ok args → ∀ p ∈ blocks.flatten.zip args, Encodable p.1 p.2)
    (hst : ∀ s ∈ blockStarts blocks 0, s < blocks.flatten.length) (hne : blocks.flatten ≠ [])
    (hlines : v.is310 = false → ∀ ins ∈ blocks.flatten, ins.line.isSome)
    (hal : v.is310 = false → ∀ a, addLine = some a → a.line.isSome) :
    ∃ out, blocksToBytes v blocks addArgs fv tp = .ok out ∧
      (Spec.read v T c').length = blocks.flatten.length ∧
      ∀ (j : Nat) (ins : Instr) (s : Spec.SInstr), blocks.flatten[j]? = some ins → (Spec.read v T c')[j]? = some s →
        s.op = ins.op ∧ s.line = ins.line ∧ ArgSays (blockStarts blocks 0) out.consts ins.arg s.arg := by
  simp only [fromCodeDataGo] at h
  obtain ⟨out, hout, h⟩ := bind_ok h
  obtain ⟨consts', hc', h⟩ := bind_ok h
  obtain ⟨a, p, k, fl, table, htable, hmk⟩ := finishCode_table v F out consts' fname fln name ss tp fv ann nested addLine c' h
  subst hmk
  exact ⟨out, hout, encode_reads_like_data_al v T blocks addArgs fv tp out hout enc consts' hc' fln table addLine htable a p k
    out.varnames.length ss fl fname name hkind hopb henc hst hne hlines hal⟩

end CDV.Props.C03
