import CDVProofs.Bytes
/-! The other direction of the byte codec: assembling what `_parse_bytes` read reproduces the bytes. -/
namespace CDV

/-- the pending `EXTENDED_ARG` units that carry `e` (already shifted by one byte) -/
def encExt : Nat → Nat → List Nat
  | 1, e => [EXTENDED_ARG, (e / 256) % 256]
  | 2, e => [EXTENDED_ARG, (e / 65536) % 256, EXTENDED_ARG, (e / 256) % 256]
  | 3, e => [EXTENDED_ARG, (e / 16777216) % 256, EXTENDED_ARG, (e / 65536) % 256, EXTENDED_ARG, (e / 256) % 256]
  | _, _ => []

/-- the byte string does not end inside an instruction (no trailing `EXTENDED_ARG`, even length) -/
def Complete : List Nat → Nat → Prop
  | [], nargs => nargs = 0
  | [_], _ => False
  | op :: _ :: rest, nargs => Complete rest (if op = EXTENDED_ARG then nargs + 1 else 0)

theorem parseGo_first_nargs : ∀ (n : Nat) (code : List Nat), code.length = n → ∀ (i : Nat) (arg : Int) (nargs : Nat) (raws : List RawI),
    Complete code nargs → 0 < nargs → parseGo EXTENDED_ARG code i arg nargs = .ok raws →
    ∃ r rest, raws = r :: rest ∧ nargs < r.nargs := by
  intro n
  induction n using Nat.strongRecOn with
  | ind n ih =>
  intro code hlen i arg nargs raws hc hpos hp
  match code, hlen with
  | [], _ => simp [Complete] at hc; omega
  | [_], _ => simp [Complete] at hc
  | op :: a :: rest, hlen =>
    simp only [List.length_cons] at hlen
    rw [parseGo] at hp
    simp only [Complete] at hc
    by_cases hop : op = EXTENDED_ARG
    · simp only [hop, if_true] at hp hc
      obtain ⟨r, rs, h1, h2⟩ := ih rest.length (by omega) rest rfl _ _ _ raws hc (by omega) hp
      exact ⟨r, rs, h1, by omega⟩
    · simp only [hop, if_false] at hp
      obtain ⟨r, _, hp⟩ := bind_ok hp
      simp only [pure, Except.pure, Except.ok.injEq] at hp
      exact ⟨_, r, hp.symm, by simp⟩

/-- **Assembling what `_parse_bytes` read reproduces the bytes.**  For every byte string that does not end inside an
    instruction and has at most three `EXTENDED_ARG` prefixes per instruction: writing each raw instruction with the
    assembler loop, in the width it was read with, gives the byte string back. -/
theorem emit_parseGo : ∀ (n : Nat) (code : List Nat), code.length = n → ∀ (i : Nat) (arg : Int) (nargs e : Nat) (raws : List RawI),
    (∀ x ∈ code, x < 256) → nargs ≤ 3 → (arg = sgn32 e ∧ e % 256 = 0 ∧ e < 256 ^ (nargs + 1)) → Complete code nargs →
    parseGo EXTENDED_ARG code i arg nargs = .ok raws → (∀ r ∈ raws, r.nargs ≤ 4) →
    encExt nargs e ++ code = (raws.map (fun r => emitOne r.op r.arg r.nargs)).flatten := by
  intro n
  induction n using Nat.strongRecOn with
  | ind n ih =>
  intro code hlen i arg nargs e raws hb hn3 hrel hc hp hn
  match code, hlen with
  | [], _ =>
    simp [Complete] at hc
    subst hc
    simp [parseGo, pure, Except.pure] at hp
    subst hp
    simp [encExt]
  | [_], _ => simp [Complete] at hc
  | op :: a :: rest, hlen =>
    have ha : a < 256 := hb a (by simp)
    have hrest : ∀ x ∈ rest, x < 256 := fun x hx => hb x (by simp [hx])
    simp only [List.length_cons] at hlen
    rw [parseGo] at hp
    simp only [Complete] at hc
    obtain ⟨hv1, hv2, hv3⟩ := hrel
    by_cases hop : op = EXTENDED_ARG
    · simp only [hop, if_true] at hp hc
      by_cases h3 : nargs = 3
      · -- a fourth prefix: the instruction that follows would have five code units
        subst h3
        obtain ⟨r, rs, h1, h2⟩ := parseGo_first_nargs rest.length rest rfl _ _ _ raws hc (by omega) hp
        have := hn r (by rw [h1]; simp)
        omega
      · have h2 : nargs ≤ 2 := by omega
        have he : e < 16777216 := by
          have : nargs = 0 ∨ nargs = 1 ∨ nargs = 2 := by omega
          rcases this with h | h | h <;> subst h <;> simp at hv3 <;> omega
        have harg : arg = (e : Int) := by
          rw [hv1, sgn32]; split
          · omega
          · rfl
        rw [c_int_upper_eq, c_int_len_eq, harg] at hp
        have hrel' : ((if ((e : Int) + a) * 256 > 2147483647 then ((e : Int) + a) * 256 - 4294967296 else ((e : Int) + a) * 256) = sgn32 ((a + e) * 256)) ∧
            ((a + e) * 256) % 256 = 0 ∧ (a + e) * 256 < 256 ^ (nargs + 1 + 1) := by
          refine ⟨?_, by omega, ?_⟩
          · unfold sgn32; split <;> split <;> omega
          · have : nargs = 0 ∨ nargs = 1 ∨ nargs = 2 := by omega
            rcases this with h | h | h <;> subst h <;> simp at hv3 ⊢ <;> omega
        have := ih rest.length (by omega) rest rfl (i + 2) _ (nargs + 1) ((a + e) * 256) raws hrest (by omega) hrel' hc hp hn
        rw [← this, hop]
        have : nargs = 0 ∨ nargs = 1 ∨ nargs = 2 := by omega
        rcases this with h | h | h <;> subst h <;> simp only [encExt, List.nil_append, List.cons_append, List.cons.injEq, true_and, and_true] <;>
          simp at hv3 <;> omega
    · simp only [hop, if_false] at hp hc
      obtain ⟨r, hr, hp⟩ := bind_ok hp
      simp only [pure, Except.pure, Except.ok.injEq] at hp
      subst hp
      have hrec := ih rest.length (by omega) rest rfl (i + 2) 0 0 0 r hrest (by omega) ⟨by simp [sgn32], by simp, by simp⟩ hc hr
        (fun x hx => hn x (by simp [hx]))
      simp only [encExt, List.nil_append] at hrec
      simp only [List.map_cons, List.flatten_cons, ← hrec]
      have he : e < 4294967296 := by
        have : nargs = 0 ∨ nargs = 1 ∨ nargs = 2 ∨ nargs = 3 := by omega
        rcases this with h | h | h | h <;> subst h <;> simp at hv3 <;> omega
      have hone : emitOne op (arg + a) (nargs + 1) = encExt nargs e ++ [op, a] := by
        have : nargs = 0 ∨ nargs = 1 ∨ nargs = 2 ∨ nargs = 3 := by omega
        rcases this with h | h | h | h <;> subst h
        · rw [emitOne_1]; simp only [encExt, List.nil_append, List.cons.injEq, true_and, and_true]
          simp at hv3; rw [hv1]; unfold sgn32; split <;> omega
        · rw [emitOne_2]; simp only [encExt, List.cons_append, List.nil_append, List.cons.injEq, true_and, and_true]
          simp at hv3; rw [hv1]; unfold sgn32; split <;> omega
        · rw [emitOne_3]; simp only [encExt, List.cons_append, List.nil_append, List.cons.injEq, true_and, and_true]
          simp at hv3; rw [hv1]; unfold sgn32; split <;> omega
        · rw [emitOne_4]; simp only [encExt, List.cons_append, List.nil_append, List.cons.injEq, true_and, and_true]
          simp at hv3; rw [hv1]; unfold sgn32; split <;> omega
      rw [hone]; simp

theorem emit_parseBytes (code : List Nat) (raws : List RawI) (hb : ∀ x ∈ code, x < 256) (hc : Complete code 0)
    (hp : parseBytes code = .ok raws) (hn : ∀ r ∈ raws, r.nargs ≤ 4) :
    code = (raws.map (fun r => emitOne r.op r.arg r.nargs)).flatten := by
  have := emit_parseGo code.length code rfl 0 0 0 0 raws hb (by omega) ⟨by simp [sgn32], by simp, by simp⟩ hc hp hn
  simpa [encExt] using this

end CDV
