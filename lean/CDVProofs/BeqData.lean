import CDVProofs.Constants
/-! dataclass equality of CodeData (`==`) is reflexive and symmetric (helper lemmas for C08) -/
namespace CDV

theorem beq_commL {α} [BEq α] [LawfulBEq α] (a b : α) : (a == b) = (b == a) := by
  cases h : (a == b) <;> cases h' : (b == a) <;> simp_all

theorem optEq_refl {α} (f : α → α → Bool) (h : ∀ a, f a a = true) : ∀ o : Option α, optEq f o o = true
  | none => rfl
  | some a => h a

mutual
theorem Const.keyEq_refl : ∀ c : Const, Const.keyEq c c = true
  | .inner c => by simp [Const.keyEq, keyEq_refl]
  | .code d => by simp [Const.keyEq, CodeData.beq_refl d]
theorem Arg.beq_refl : ∀ a : Arg, Arg.beq a a = true
  | .raw _ => by simp [Arg.beq]
  | .jump .. => by simp [Arg.beq]
  | .name .. => by simp [Arg.beq]
  | .varname .. => by simp [Arg.beq]
  | .const c o => by simp [Arg.beq, Const.keyEq_refl c]
  | .free _ => by simp [Arg.beq]
  | .cell .. => by simp [Arg.beq]
  | .noarg _ => by simp [Arg.beq]
theorem Instr.beq_refl : ∀ i : Instr, Instr.beq i i = true
  | .mk _ a _ _ _ => by simp [Instr.beq, Arg.beq_refl a]
theorem instrsBeq_refl : ∀ is : List Instr, instrsBeq is is = true
  | [] => by simp [instrsBeq]
  | i :: is => by simp [instrsBeq, Instr.beq_refl i, instrsBeq_refl is]
theorem blocksBeq_refl : ∀ bs : List (List Instr), blocksBeq bs bs = true
  | [] => by simp [blocksBeq]
  | b :: bs => by simp [blocksBeq, instrsBeq_refl b, blocksBeq_refl bs]
theorem argsBeq_refl : ∀ as : List Arg, argsBeq as as = true
  | [] => by simp [argsBeq]
  | a :: as => by simp [argsBeq, Arg.beq_refl a, argsBeq_refl as]
theorem CodeData.beq_refl : ∀ d : CodeData, CodeData.beq d d = true
  | .mk bl .. => by simp [CodeData.beq, blocksBeq_refl bl, argsBeq_refl]
end

mutual
theorem Const.keyEq_symm : ∀ a b : Const, Const.keyEq a b = Const.keyEq b a
  | .inner a, .inner b => by simp [Const.keyEq, keyEq_symm a b]
  | .code a, .code b => by simp [Const.keyEq, CodeData.beq_symm a b]
  | .inner _, .code _ => by simp [Const.keyEq]
  | .code _, .inner _ => by simp [Const.keyEq]
theorem Arg.beq_symm : ∀ a b : Arg, Arg.beq a b = Arg.beq b a
  | .raw x, b => by cases b <;> simp [Arg.beq, beq_commL x]
  | .jump t r, b => by cases b <;> simp [Arg.beq, beq_commL t, beq_commL r]
  | .name s o, b => by cases b <;> simp [Arg.beq, beq_commL s, beq_commL o]
  | .varname s o, b => by cases b <;> simp [Arg.beq, beq_commL s, beq_commL o]
  | .const c o, b => by cases b <;> simp [Arg.beq, beq_commL o, Const.keyEq_symm c]
  | .free s, b => by cases b <;> simp [Arg.beq, beq_commL s]
  | .cell s o, b => by cases b <;> simp [Arg.beq, beq_commL s, beq_commL o]
  | .noarg x, b => by cases b <;> simp [Arg.beq, beq_commL x]
theorem Instr.beq_symm : ∀ i j : Instr, Instr.beq i j = Instr.beq j i
  | .mk op a n l o, .mk op' a' n' l' o' => by
    simp [Instr.beq, Arg.beq_symm a a', beq_commL op, beq_commL n, beq_commL l, beq_commL o]
theorem instrsBeq_symm : ∀ xs ys : List Instr, instrsBeq xs ys = instrsBeq ys xs
  | [], [] => by simp [instrsBeq]
  | [], _ :: _ => by simp [instrsBeq]
  | _ :: _, [] => by simp [instrsBeq]
  | x :: xs, y :: ys => by simp [instrsBeq, Instr.beq_symm x y, instrsBeq_symm xs ys]
theorem blocksBeq_symm : ∀ xs ys : List (List Instr), blocksBeq xs ys = blocksBeq ys xs
  | [], [] => by simp [blocksBeq]
  | [], _ :: _ => by simp [blocksBeq]
  | _ :: _, [] => by simp [blocksBeq]
  | x :: xs, y :: ys => by simp [blocksBeq, instrsBeq_symm x y, blocksBeq_symm xs ys]
theorem argsBeq_symm : ∀ xs ys : List Arg, argsBeq xs ys = argsBeq ys xs
  | [], [] => by simp [argsBeq]
  | [], _ :: _ => by simp [argsBeq]
  | _ :: _, [] => by simp [argsBeq]
  | x :: xs, y :: ys => by simp [argsBeq, Arg.beq_symm x y, argsBeq_symm xs ys]
theorem CodeData.beq_symm : ∀ a b : CodeData, CodeData.beq a b = CodeData.beq b a
  | .mk bl f fl n ss tp fv fut ne al aa, .mk bl' f' fl' n' ss' tp' fv' fut' ne' al' aa' => by
    simp [CodeData.beq, blocksBeq_symm bl bl', argsBeq_symm aa aa', beq_commL f, beq_commL fl, beq_commL n, beq_commL ss,
      beq_commL tp, beq_commL fv, beq_commL fut, beq_commL ne, beq_commL al]
end

end CDV
