import CDVProofs.Constants
/-! dataclass equality of CodeData (`==`) is reflexive and symmetric (helper lemmas for C08) -/
namespace CDV

theorem beq_commL {α} [BEq α] [LawfulBEq α] (a b : α) : (a == b) = (b == a) := by
  cases h : (a == b) <;> cases h' : (b == a) <;> simp_all

theorem optEq_refl {α} (f : α → α → Bool) (h : ∀ a, f a a = true) : ∀ o : Option α, optEq f o o = true
  | none => rfl
  | some a => h a

mutual
theorem Const.keyEq_refl : ∀ c : Const, Const.keyEq c c = true
  | .inner c => by simp [Const.keyEq, keyEq_refl]
  | .code d => by simp [Const.keyEq, CodeData.beq_refl d]
theorem Arg.beq_refl : ∀ a : Arg, Arg.beq a a = true
  | .raw _ => by simp [Arg.beq]
  | .jump .. => by simp [Arg.beq]
  | .name .. => by simp [Arg.beq]
  | .varname .. => by simp [Arg.beq]
  | .const c o => by simp [Arg.beq, Const.keyEq_refl c]
  | .free _ => by simp [Arg.beq]
  | .cell .. => by simp [Arg.beq]
  | .noarg _ => by simp [Arg.beq]
theorem Instr.beq_refl : ∀ i : Instr, Instr.beq i i = true
  | .mk _ a _ _ _ => by simp [Instr.beq, Arg.beq_refl a]
theorem instrsBeq_refl : ∀ is : List Instr, instrsBeq is is = true
  | [] => by simp [instrsBeq]
  | i :: is => by simp [instrsBeq, Instr.beq_refl i, instrsBeq_refl is]
theorem blocksBeq_refl : ∀ bs : List (List Instr), blocksBeq bs bs = true
  | [] => by simp [blocksBeq]
  | b :: bs => by simp [blocksBeq, instrsBeq_refl b, blocksBeq_refl bs]
theorem argsBeq_refl : ∀ as : List Arg, argsBeq as as = true
  | [] => by simp [argsBeq]
  | a :: as => by simp [argsBeq, Arg.beq_refl a, argsBeq_refl as]
theorem CodeData.beq_refl : ∀ d : CodeData, CodeData.beq d d = true
  | .mk bl .. => by simp [CodeData.beq, blocksBeq_refl bl, argsBeq_refl]
end

mutual
theorem Const.keyEq_symm : ∀ a b : Const, Const.keyEq a b = Const.keyEq b a
  | .inner a, .inner b => by simp [Const.keyEq, keyEq_symm a b]
  | .code a, .code b => by simp [Const.keyEq, CodeData.beq_symm a b]
  | .inner _, .code _ => by simp [Const.keyEq]
  | .code _, .inner _ => by simp [Const.keyEq]
theorem Arg.beq_symm : ∀ a b : Arg, Arg.beq a b = Arg.beq b a
  | .raw x, b => by cases b <;> simp [Arg.beq, beq_commL x]
  | .jump t r, b => by cases b <;> simp [Arg.beq, beq_commL t, beq_commL r]
  | .name s o, b => by cases b <;> simp [Arg.beq, beq_commL s, beq_commL o]
  | .varname s o, b => by cases b <;> simp [Arg.beq, beq_commL s, beq_commL o]
  | .const c o, b => by cases b <;> simp [Arg.beq, beq_commL o, Const.keyEq_symm c]
  | .free s, b => by cases b <;> simp [Arg.beq, beq_commL s]
  | .cell s o, b => by cases b <;> simp [Arg.beq, beq_commL s, beq_commL o]
  | .noarg x, b => by cases b <;> simp [Arg.beq, beq_commL x]
theorem Instr.beq_symm : ∀ i j : Instr, Instr.beq i j = Instr.beq j i
  | .mk op a n l o, .mk op' a' n' l' o' => by
    simp [Instr.beq, Arg.beq_symm a a', beq_commL op, beq_commL n, beq_commL l, beq_commL o]
theorem instrsBeq_symm : ∀ xs ys : List Instr, instrsBeq xs ys = instrsBeq ys xs
  | [], [] => by simp [instrsBeq]
  | [], _ :: _ => by simp [instrsBeq]
  | _ :: _, [] => by simp [instrsBeq]
  | x :: xs, y :: ys => by simp [instrsBeq, Instr.beq_symm x y, instrsBeq_symm xs ys]
theorem blocksBeq_symm : ∀ xs ys : List (List Instr), blocksBeq xs ys = blocksBeq ys xs
  | [], [] => by simp [blocksBeq]
  | [], _ :: _ => by simp [blocksBeq]
  | _ :: _, [] => by simp [blocksBeq]
  | x :: xs, y :: ys => by simp [blocksBeq, instrsBeq_symm x y, blocksBeq_symm xs ys]
theorem argsBeq_symm : ∀ xs ys : List Arg, argsBeq xs ys = argsBeq ys xs
  | [], [] => by simp [argsBeq]
  | [], _ :: _ => by simp [argsBeq]
  | _ :: _, [] => by simp [argsBeq]
  | x :: xs, y :: ys => by simp [argsBeq, Arg.beq_symm x y, argsBeq_symm xs ys]
theorem CodeData.beq_symm : ∀ a b : CodeData, CodeData.beq a b = CodeData.beq b a
  | .mk bl f fl n ss tp fv fut ne al aa, .mk bl' f' fl' n' ss' tp' fv' fut' ne' al' aa' => by
    simp [CodeData.beq, blocksBeq_symm bl bl', argsBeq_symm aa aa', beq_commL f, beq_commL fl, beq_commL n, beq_commL ss,
      beq_commL tp, beq_commL fv, beq_commL fut, beq_commL ne, beq_commL al]
end

end CDV

namespace CDV

theorem beq_transL {α} [BEq α] [LawfulBEq α] (a b c : α) (h1 : (a == b) = true) (h2 : (b == c) = true) : (a == c) = true := by
  have := eq_of_beq h1; have := eq_of_beq h2; subst_vars; exact beq_self_eq_true _

mutual
theorem Const.keyEq_trans : ∀ a b c : Const, Const.keyEq a b = true → Const.keyEq b c = true → Const.keyEq a c = true
  | .inner a, .inner b, .inner c, h1, h2 => by
    simp only [Const.keyEq] at h1 h2 ⊢; exact keyEq_trans a b c h1 h2
  | .code a, .code b, .code c, h1, h2 => by
    simp only [Const.keyEq] at h1 h2 ⊢; exact CodeData.beq_trans a b c h1 h2
  | .inner _, .code _, _, h1, _ => by simp [Const.keyEq] at h1
  | .code _, .inner _, _, h1, _ => by simp [Const.keyEq] at h1
  | .inner _, .inner _, .code _, _, h2 => by simp [Const.keyEq] at h2
  | .code _, .code _, .inner _, _, h2 => by simp [Const.keyEq] at h2
theorem Arg.beq_trans : ∀ a b c : Arg, Arg.beq a b = true → Arg.beq b c = true → Arg.beq a c = true
  | .raw x, b, c, h1, h2 => by
    cases b <;> simp [Arg.beq] at h1; subst h1; exact h2
  | .jump t r, b, c, h1, h2 => by
    cases b <;> simp [Arg.beq] at h1; obtain ⟨rfl, rfl⟩ := h1; exact h2
  | .name s o, b, c, h1, h2 => by
    cases b <;> simp [Arg.beq] at h1; obtain ⟨rfl, rfl⟩ := h1; exact h2
  | .varname s o, b, c, h1, h2 => by
    cases b <;> simp [Arg.beq] at h1; obtain ⟨rfl, rfl⟩ := h1; exact h2
  | .free s, b, c, h1, h2 => by
    cases b <;> simp [Arg.beq] at h1; subst h1; exact h2
  | .cell s o, b, c, h1, h2 => by
    cases b <;> simp [Arg.beq] at h1; obtain ⟨rfl, rfl⟩ := h1; exact h2
  | .noarg x, b, c, h1, h2 => by
    cases b <;> simp [Arg.beq] at h1; subst h1; exact h2
  | .const k o, b, c, h1, h2 => by
    cases b with
    | const k' o' =>
      cases c with
      | const k'' o'' =>
        simp only [Arg.beq, Bool.and_eq_true] at h1 h2 ⊢
        exact ⟨beq_transL o o' o'' h1.1 h2.1, Const.keyEq_trans k k' k'' h1.2 h2.2⟩
      | _ => simp [Arg.beq] at h2
    | _ => simp [Arg.beq] at h1
theorem Instr.beq_trans : ∀ i j k : Instr, Instr.beq i j = true → Instr.beq j k = true → Instr.beq i k = true
  | .mk op a n l o, .mk op' a' n' l' o', .mk op'' a'' n'' l'' o'', h1, h2 => by
    simp only [Instr.beq, Bool.and_eq_true] at h1 h2 ⊢
    exact ⟨⟨⟨⟨beq_transL _ _ _ h1.1.1.1.1 h2.1.1.1.1, Arg.beq_trans a a' a'' h1.1.1.1.2 h2.1.1.1.2⟩, beq_transL _ _ _ h1.1.1.2 h2.1.1.2⟩,
      beq_transL _ _ _ h1.1.2 h2.1.2⟩, beq_transL _ _ _ h1.2 h2.2⟩
theorem instrsBeq_trans : ∀ xs ys zs : List Instr, instrsBeq xs ys = true → instrsBeq ys zs = true → instrsBeq xs zs = true
  | [], [], zs, _, h2 => h2
  | [], _ :: _, _, h1, _ => by simp [instrsBeq] at h1
  | _ :: _, [], _, h1, _ => by simp [instrsBeq] at h1
  | _ :: _, _ :: _, [], _, h2 => by simp [instrsBeq] at h2
  | x :: xs, y :: ys, z :: zs, h1, h2 => by
    simp only [instrsBeq, Bool.and_eq_true] at h1 h2 ⊢
    exact ⟨Instr.beq_trans x y z h1.1 h2.1, instrsBeq_trans xs ys zs h1.2 h2.2⟩
theorem blocksBeq_trans : ∀ xs ys zs : List (List Instr), blocksBeq xs ys = true → blocksBeq ys zs = true → blocksBeq xs zs = true
  | [], [], zs, _, h2 => h2
  | [], _ :: _, _, h1, _ => by simp [blocksBeq] at h1
  | _ :: _, [], _, h1, _ => by simp [blocksBeq] at h1
  | _ :: _, _ :: _, [], _, h2 => by simp [blocksBeq] at h2
  | x :: xs, y :: ys, z :: zs, h1, h2 => by
    simp only [blocksBeq, Bool.and_eq_true] at h1 h2 ⊢
    exact ⟨instrsBeq_trans x y z h1.1 h2.1, blocksBeq_trans xs ys zs h1.2 h2.2⟩
theorem argsBeq_trans : ∀ xs ys zs : List Arg, argsBeq xs ys = true → argsBeq ys zs = true → argsBeq xs zs = true
  | [], [], zs, _, h2 => h2
  | [], _ :: _, _, h1, _ => by simp [argsBeq] at h1
  | _ :: _, [], _, h1, _ => by simp [argsBeq] at h1
  | _ :: _, _ :: _, [], _, h2 => by simp [argsBeq] at h2
  | x :: xs, y :: ys, z :: zs, h1, h2 => by
    simp only [argsBeq, Bool.and_eq_true] at h1 h2 ⊢
    exact ⟨Arg.beq_trans x y z h1.1 h2.1, argsBeq_trans xs ys zs h1.2 h2.2⟩
theorem CodeData.beq_trans : ∀ a b c : CodeData, CodeData.beq a b = true → CodeData.beq b c = true → CodeData.beq a c = true
  | .mk bl f fl n ss tp fv fut ne al aa, .mk bl' f' fl' n' ss' tp' fv' fut' ne' al' aa', .mk bl'' f'' fl'' n'' ss'' tp'' fv'' fut'' ne'' al'' aa'', h1, h2 => by
    simp only [CodeData.beq, Bool.and_eq_true] at h1 h2 ⊢
    obtain ⟨⟨⟨⟨⟨⟨⟨⟨⟨⟨a1, a2⟩, a3⟩, a4⟩, a5⟩, a6⟩, a7⟩, a8⟩, a9⟩, a10⟩, a11⟩ := h1
    obtain ⟨⟨⟨⟨⟨⟨⟨⟨⟨⟨b1, b2⟩, b3⟩, b4⟩, b5⟩, b6⟩, b7⟩, b8⟩, b9⟩, b10⟩, b11⟩ := h2
    exact ⟨⟨⟨⟨⟨⟨⟨⟨⟨⟨blocksBeq_trans _ _ _ a1 b1, beq_transL _ _ _ a2 b2⟩, beq_transL _ _ _ a3 b3⟩, beq_transL _ _ _ a4 b4⟩, beq_transL _ _ _ a5 b5⟩,
      beq_transL _ _ _ a6 b6⟩, beq_transL _ _ _ a7 b7⟩, beq_transL _ _ _ a8 b8⟩, beq_transL _ _ _ a9 b9⟩, beq_transL _ _ _ a10 b10⟩, argsBeq_trans _ _ _ a11 b11⟩
end

end CDV
