import CDVProofs.Blocks
import CDV.Encode
/-! Where blocks start: the block index written into a decoded jump designates the block whose first instruction is
    the instruction at the jump's target offset (helper lemmas for C02 / C13). -/
namespace CDV

/-- positions (in the flat instruction list, counted from `p`) of the instructions whose offset is a target -/
def startsPos (targets : List Nat) : List (Nat × Instr) → Nat → List Nat
  | [], _ => []
  | (off, _) :: r, p => if targets.contains off then p :: startsPos targets r (p + 1) else startsPos targets r (p + 1)

theorem blockStarts_append (l : List (List Instr)) (b : List Instr) (k : Nat) :
    blockStarts (l ++ [b]) k = blockStarts l k ++ [k + l.flatten.length] := by
  induction l generalizing k with
  | nil => simp [blockStarts]
  | cons x xs ih => simp [blockStarts, ih]; omega

theorem blockStarts_append_last (l : List (List Instr)) (b : List Instr) (x : Instr) (k : Nat) :
    blockStarts (l ++ [b ++ [x]]) k = blockStarts (l ++ [b]) k := by
  rw [blockStarts_append, blockStarts_append]

theorem unacc_cons (b : List Instr) (acc : List (List Instr)) : unacc (b :: acc) = unacc acc ++ [b.reverse] := by
  simp [unacc]

theorem group_starts (targets : List Nat) : ∀ (ois : List (Nat × Instr)) (acc : List (List Instr)) (blocks : List (List Instr)),
    group targets ois acc = .ok blocks →
    blockStarts blocks 0 = blockStarts (unacc acc) 0 ++ startsPos targets ois (unacc acc).flatten.length
  | [], acc, blocks, h => by
    simp only [group, pure, Except.pure, Except.ok.injEq] at h
    subst h
    simp [startsPos, unacc]
  | (off, i) :: rest, acc, blocks, h => by
    simp only [group] at h
    split at h
    · rename_i hc
      have ih := group_starts targets rest _ blocks h
      rw [ih, unacc_cons, blockStarts_append]
      have hc' : off ∈ targets := by simpa using hc
      simp [startsPos, hc']
    · rename_i hc
      cases acc with
      | nil => simp at h
      | cons b bs =>
        simp only at h
        have ih := group_starts targets rest _ blocks h
        rw [ih, unacc_cons, unacc_cons]
        simp only [List.reverse_cons, blockStarts_append_last, startsPos, hc]
        simp [Nat.add_assoc]

/-! ### sorted target lists -/

abbrev SortedLt (l : List Nat) : Prop := l.Pairwise (· < ·)

theorem insertSorted_sorted (x : Nat) : ∀ l : List Nat, SortedLt l → SortedLt (insertSorted x l) := by
  intro l
  induction l with
  | nil => intro _; simp [insertSorted, SortedLt]
  | cons y ys ih =>
    intro h
    simp only [SortedLt, List.pairwise_cons] at h
    simp only [insertSorted]
    split
    · next hlt =>
      simp only [SortedLt, List.pairwise_cons, List.mem_cons]
      refine ⟨?_, h⟩
      intro z hz
      rcases hz with rfl | hz
      · exact hlt
      · exact Nat.lt_trans hlt (h.1 z hz)
    · split
      · simp only [SortedLt, List.pairwise_cons]; exact h
      · next h1 h2 =>
        simp only [SortedLt, List.pairwise_cons]
        refine ⟨?_, ih h.2⟩
        intro z hz
        rcases (insertSorted_mem x z ys).mp hz with rfl | hz
        · omega
        · exact h.1 z hz

theorem foldl_insertSorted_sorted : ∀ (ts acc : List Nat), SortedLt acc → SortedLt (ts.foldl (fun acc t => insertSorted t acc) acc) := by
  intro ts
  induction ts with
  | nil => intro acc h; exact h
  | cons t ts ih => intro acc h; exact ih _ (insertSorted_sorted t acc h)

theorem targetsOf_sorted (ois : List (Nat × Instr)) : SortedLt (targetsOf ois) :=
  foldl_insertSorted_sorted _ _ (by simp [SortedLt])

theorem indexOf_get (x : Nat) : ∀ l : List Nat, x ∈ l → l[indexOf x l]? = some x := by
  intro l
  induction l with
  | nil => intro h; simp at h
  | cons y ys ih =>
    intro h
    simp only [indexOf]
    split
    · next heq => subst heq; simp
    · next hne =>
      rcases List.mem_cons.mp h with rfl | h'
      · exact absurd rfl hne
      · have := ih h'
        have e : 1 + indexOf x ys = indexOf x ys + 1 := by omega
        rw [e, List.getElem?_cons_succ]; exact this

theorem startsPos_congr (T T' : List Nat) : ∀ (ois : List (Nat × Instr)) (p : Nat),
    (∀ q ∈ ois, T.contains q.1 = T'.contains q.1) → startsPos T ois p = startsPos T' ois p := by
  intro ois
  induction ois with
  | nil => intro p _; rfl
  | cons q r ih =>
    intro p h
    obtain ⟨off, i⟩ := q
    simp only [startsPos]
    rw [h (off, i) (by simp), ih (p + 1) (fun q hq => h q (by simp [hq]))]

/-- with strictly increasing instruction offsets and a strictly increasing target list all of whose members are
    instruction offsets, the positions of the block starts are the positions of the targets, in order -/
theorem startsPos_eq : ∀ (ois : List (Nat × Instr)) (T : List Nat) (p : Nat),
    SortedLt (ois.map (·.1)) → SortedLt T → (∀ t ∈ T, t ∈ ois.map (·.1)) →
    startsPos T ois p = T.map (fun t => p + indexOf t (ois.map (·.1))) := by
  intro ois
  induction ois with
  | nil =>
    intro T p _ _ hsub
    cases T with
    | nil => rfl
    | cons t ts => have := hsub t (by simp); simp at this
  | cons q r ih =>
    intro T p hso hsT hsub
    obtain ⟨off, i⟩ := q
    simp only [List.map_cons, SortedLt, List.pairwise_cons] at hso
    simp only [startsPos]
    by_cases hc : T.contains off = true
    · simp only [hc, if_true]
      have hmem : off ∈ T := by simpa using hc
      -- `off` is the head of T
      cases T with
      | nil => simp at hmem
      | cons t ts =>
        simp only [SortedLt, List.pairwise_cons] at hsT
        have ht : t = off := by
          have h1 : t ∈ off :: r.map (·.1) := by simpa using hsub t (by simp)
          rcases List.mem_cons.mp hmem with h | h
          · exact h.symm
          · have := hsT.1 off h
            rcases List.mem_cons.mp h1 with h2 | h2
            · exact h2
            · have := hso.1 t h2; omega
        subst ht
        have hts : ∀ x ∈ ts, x ∈ r.map (·.1) := by
          intro x hx
          have h1 : x ∈ t :: r.map (·.1) := by simpa using hsub x (by simp [hx])
          rcases List.mem_cons.mp h1 with h2 | h2
          · have := hsT.1 x hx; omega
          · exact h2
        have hcongr : startsPos (t :: ts) r (p + 1) = startsPos ts r (p + 1) := by
          apply startsPos_congr
          intro q hq
          have hlt : t < q.1 := hso.1 q.1 (List.mem_map.mpr ⟨q, hq, rfl⟩)
          have : ¬ q.1 = t := by omega
          simp [List.contains_cons, this]
        rw [hcongr, ih ts (p + 1) hso.2 hsT.2 hts]
        simp only [List.map_cons, indexOf, if_true, Nat.add_zero, List.cons.injEq, true_and]
        apply List.map_congr_left
        intro x hx
        have : ¬ x = t := by have := hsT.1 x hx; omega
        simp only [this, if_false]; omega
    · have hc' : T.contains off = false := by simpa using hc
      simp only [hc', Bool.false_eq_true, if_false]
      have hnm : off ∉ T := by simpa using hc'
      have hsub' : ∀ t ∈ T, t ∈ r.map (·.1) := by
        intro t ht
        have h1 : t ∈ off :: r.map (·.1) := by simpa using hsub t ht
        rcases List.mem_cons.mp h1 with h2 | h2
        · subst h2; exact absurd ht hnm
        · exact h2
      rw [ih T (p + 1) hso.2 hsT hsub']
      apply List.map_congr_left
      intro x hx
      have : ¬ x = off := fun h => hnm (h ▸ hx)
      simp only [List.map_cons, indexOf, this, if_false]; omega

/-- **A decoded jump designates the block that begins at the instruction CPython would jump to.**
    `ois` is the decoded instruction list with byte offsets (strictly increasing); if every jump target is the offset of
    some instruction (what CPython requires of valid code) then for each target offset `t`, the block whose index
    `bytes_to_blocks` writes into the jump (`indexOf t targets`) starts, in the flattened instruction sequence, exactly at
    the instruction whose offset is `t`. -/
theorem jump_block_start (ois : List (Nat × Instr)) (blocks : List (List Instr)) (h : buildBlocks ois = .ok blocks)
    (hso : SortedLt (ois.map (·.1))) (hsub : ∀ t ∈ targetsOf ois, t ∈ ois.map (·.1)) (t : Nat) (ht : t ∈ targetsOf ois) :
    (blockStarts blocks 0)[indexOf t (targetsOf ois)]? = some (indexOf t (ois.map (·.1))) ∧
    (ois.map (·.1))[indexOf t (ois.map (·.1))]? = some t := by
  have hs := group_starts (targetsOf ois) ois [] blocks h
  simp only [unacc, List.reverse_nil, List.map_nil, blockStarts, List.flatten_nil, List.length_nil, List.nil_append] at hs
  rw [hs, startsPos_eq ois (targetsOf ois) 0 hso (targetsOf_sorted ois) hsub]
  refine ⟨?_, indexOf_get t _ (hsub t ht)⟩
  rw [List.getElem?_map, indexOf_get t _ ht]
  simp only [Option.map_some, Nat.zero_add]

end CDV

namespace CDV

theorem blockStarts_length : ∀ (bl : List (List Instr)) (k : Nat), (blockStarts bl k).length = bl.length := by
  intro bl
  induction bl with
  | nil => intro k; rfl
  | cons b bs ih => intro k; simp [blockStarts, ih]

/-- the block starts are the positions of the sorted targets, one block per target -/
theorem blockStarts_eq_targets (ois : List (Nat × Instr)) (blocks : List (List Instr)) (h : buildBlocks ois = .ok blocks)
    (hso : SortedLt (ois.map (·.1))) (hsub : ∀ t ∈ targetsOf ois, t ∈ ois.map (·.1)) :
    blockStarts blocks 0 = (targetsOf ois).map (fun t => indexOf t (ois.map (·.1))) ∧ blocks.length = (targetsOf ois).length := by
  have hs := group_starts (targetsOf ois) ois [] blocks h
  simp only [unacc, List.reverse_nil, List.map_nil, blockStarts, List.flatten_nil, List.length_nil, List.nil_append] at hs
  rw [startsPos_eq ois (targetsOf ois) 0 hso (targetsOf_sorted ois) hsub] at hs
  have hs' : blockStarts blocks 0 = (targetsOf ois).map (fun t => indexOf t (ois.map (·.1))) := by
    rw [hs]; apply List.map_congr_left; intro t _; omega
  refine ⟨hs', ?_⟩
  have := congrArg List.length hs'
  rw [blockStarts_length, List.length_map] at this
  exact this

end CDV
