import CDVProofs.Tables
/-! The encoder's operand tables (`FromArgs`): an index handed out for an operand keeps designating an equivalent
    entry through every later table operation, and lies inside the tuple that is finally emitted. -/
namespace CDV

section
variable {α : Type} {keyEq : α → α → Bool}

theorem assoc?_append {β} (k : Nat) (l : List (Nat × β)) (k' : Nat) (v : β) :
    assoc? k (l ++ [(k', v)]) = match assoc? k l with | some x => some x | none => if k = k' then some v else none := by
  induction l with
  | nil => simp [assoc?]
  | cons p l ih =>
    obtain ⟨c, w⟩ := p
    simp only [List.cons_append, assoc?]
    split
    · rfl
    · exact ih

theorem assoc?_replace (k i : Nat) (a : α) (l : List (Nat × α)) :
    assoc? k (l.map (fun (p : Nat × α) => if p.1 = i then (p.1, a) else (p.1, p.2))) =
      (assoc? k l).map (fun x => if k = i then a else x) := by
  induction l with
  | nil => simp [assoc?]
  | cons p l ih =>
    obtain ⟨c, w⟩ := p
    by_cases hkc : k = c
    · subst hkc
      by_cases hki : k = i <;> simp [assoc?, hki]
    · by_cases hci : c = i
      · simp only [List.map_cons, hci, if_true, assoc?]
        have : ¬ k = i := by omega
        simp only [this, if_false] at ih ⊢
        exact ih
      · simp only [List.map_cons, hci, if_false, assoc?, hkc]
        exact ih

/-- the two dictionaries of a `FromArgs` agree: a key that resolves to an index finds an equivalent entry there -/
def FromArgs.Inv (keyEq : α → α → Bool) (t : FromArgs α) : Prop :=
  ∀ a i, keyFind keyEq a t.argToI = some i → ∃ a', assoc? i t.iToArg = some a' ∧ keyEq a a' = true

/-- every entry of `t` is still there in `t'`, up to key equivalence -/
def FromArgs.Ext (keyEq : α → α → Bool) (t t' : FromArgs α) : Prop :=
  ∀ i a, assoc? i t.iToArg = some a → ∃ a', assoc? i t'.iToArg = some a' ∧ keyEq a a' = true

theorem FromArgs.Ext.refl (hk : KeyEquiv keyEq) (t : FromArgs α) : FromArgs.Ext keyEq t t :=
  fun _ a h => ⟨a, h, hk.refl a⟩

theorem FromArgs.Ext.trans (hk : KeyEquiv keyEq) {t1 t2 t3 : FromArgs α} (h1 : FromArgs.Ext keyEq t1 t2) (h2 : FromArgs.Ext keyEq t2 t3) :
    FromArgs.Ext keyEq t1 t3 := by
  intro i a h
  obtain ⟨a', h', e1⟩ := h1 i a h
  obtain ⟨a'', h'', e2⟩ := h2 i a' h'
  exact ⟨a'', h'', hk.trans _ _ _ e1 e2⟩

theorem FromArgs.set_spec (hk : KeyEquiv keyEq) (t t' : FromArgs α) (i : Nat) (a : α) (hinv : t.Inv keyEq)
    (h : t.set keyEq i a = .ok t') : t'.Inv keyEq ∧ FromArgs.Ext keyEq t t' ∧ assoc? i t'.iToArg = some a := by
  unfold FromArgs.set at h
  cases hold : assoc? i t.iToArg with
  | some old =>
    simp only [hold] at h
    by_cases hke : keyEq old a = true
    · simp only [hke, if_true, pure, Except.pure, Except.ok.injEq] at h
      subst h
      have hget : ∀ k, assoc? k (t.iToArg.map (fun (p : Nat × α) => if p.1 = i then (p.1, a) else (p.1, p.2))) =
          (assoc? k t.iToArg).map (fun x => if k = i then a else x) := fun k => assoc?_replace k i a t.iToArg
      refine ⟨?_, ?_, ?_⟩
      · intro b j hb
        simp only [keyFind_keySet hk] at hb
        simp only [hget]
        by_cases hba : keyEq b a = true
        · simp only [hba, if_true, Option.some.injEq] at hb
          subst hb
          exact ⟨a, by simp [hold], hba⟩
        · simp only [hba, if_false] at hb
          obtain ⟨a', h1, h2⟩ := hinv b j hb
          by_cases hji : j = i
          · subst hji
            rw [hold] at h1
            simp only [Option.some.injEq] at h1
            subst h1
            exact absurd (hk.trans _ _ _ h2 hke) hba
          · exact ⟨a', by simp [h1, hji], h2⟩
      · intro k b hb
        simp only [hget, hb, Option.map_some]
        by_cases hki : k = i
        · subst hki
          rw [hold] at hb
          simp only [Option.some.injEq] at hb
          subst hb
          exact ⟨a, by simp, hke⟩
        · exact ⟨b, by simp [hki], hk.refl b⟩
      · simp [hget, hold]
    · simp [hke, throw, throwThe, MonadExceptOf.throw] at h
  | none =>
    simp only [hold, pure, Except.pure, Except.ok.injEq] at h
    subst h
    refine ⟨?_, ?_, ?_⟩
    · intro b j hb
      simp only [keyFind_keySet hk] at hb
      simp only [assoc?_append]
      by_cases hba : keyEq b a = true
      · simp only [hba, if_true, Option.some.injEq] at hb
        subst hb
        exact ⟨a, by simp [hold], hba⟩
      · simp only [hba, if_false] at hb
        obtain ⟨a', h1, h2⟩ := hinv b j hb
        exact ⟨a', by simp [h1], h2⟩
    · intro k b hb
      exact ⟨b, by simp [assoc?_append, hb], hk.refl b⟩
    · simp [assoc?_append, hold]

theorem FromArgs.add_spec (hk : KeyEquiv keyEq) (t t' : FromArgs α) (a : α) (ov : Option Nat) (i : Nat) (hinv : t.Inv keyEq)
    (h : t.add keyEq a ov = .ok (t', i)) :
    t'.Inv keyEq ∧ FromArgs.Ext keyEq t t' ∧ ∃ a', assoc? i t'.iToArg = some a' ∧ keyEq a a' = true := by
  unfold FromArgs.add at h
  cases ov with
  | some j =>
    simp only at h
    obtain ⟨t1, h1, h⟩ := bind_ok' h
    simp only [pure, Except.pure, Except.ok.injEq, Prod.mk.injEq] at h
    obtain ⟨rfl, rfl⟩ := h
    obtain ⟨i1, i2, i3⟩ := FromArgs.set_spec hk t t1 j a hinv h1
    exact ⟨i1, i2, a, i3, hk.refl a⟩
  | none =>
    simp only at h
    cases hf : keyFind keyEq a t.argToI with
    | some j =>
      simp only [hf, pure, Except.pure, Except.ok.injEq, Prod.mk.injEq] at h
      obtain ⟨rfl, rfl⟩ := h
      exact ⟨hinv, FromArgs.Ext.refl hk t, hinv a j hf⟩
    | none =>
      simp only [hf] at h
      obtain ⟨t1, h1, h⟩ := bind_ok' h
      simp only [pure, Except.pure, Except.ok.injEq, Prod.mk.injEq] at h
      obtain ⟨rfl, rfl⟩ := h
      obtain ⟨i1, i2, i3⟩ := FromArgs.set_spec hk t t1 t.len a hinv h1
      exact ⟨i1, i2, a, i3, hk.refl a⟩

/-- any sequence of table operations (`table[i] = a`, `table.add(a, override)`) -/
inductive FromArgs.Steps (keyEq : α → α → Bool) : FromArgs α → FromArgs α → Prop
  | refl (t) : FromArgs.Steps keyEq t t
  | set {t t1 t2 : FromArgs α} {i : Nat} {a : α} : t.set keyEq i a = .ok t1 → FromArgs.Steps keyEq t1 t2 → FromArgs.Steps keyEq t t2
  | add {t t1 t2 : FromArgs α} {a : α} {ov : Option Nat} {i : Nat} : t.add keyEq a ov = .ok (t1, i) → FromArgs.Steps keyEq t1 t2 → FromArgs.Steps keyEq t t2

theorem FromArgs.steps_spec (hk : KeyEquiv keyEq) {t t' : FromArgs α} (hs : FromArgs.Steps keyEq t t') (hinv : t.Inv keyEq) :
    t'.Inv keyEq ∧ FromArgs.Ext keyEq t t' := by
  induction hs with
  | refl t => exact ⟨hinv, FromArgs.Ext.refl hk t⟩
  | set h _ ih =>
    obtain ⟨i1, i2, _⟩ := FromArgs.set_spec hk _ _ _ _ hinv h
    obtain ⟨j1, j2⟩ := ih i1
    exact ⟨j1, FromArgs.Ext.trans hk i2 j2⟩
  | add h _ ih =>
    obtain ⟨i1, i2, _⟩ := FromArgs.add_spec hk _ _ _ _ _ hinv h
    obtain ⟨j1, j2⟩ := ih i1
    exact ⟨j1, FromArgs.Ext.trans hk i2 j2⟩

/-! ### `to_tuple` -/

theorem insertByKey_mem {β} (x y : Nat × β) : ∀ l : List (Nat × β), y ∈ insertByKey x l ↔ y = x ∨ y ∈ l := by
  intro l
  induction l with
  | nil => simp [insertByKey]
  | cons z zs ih =>
    simp only [insertByKey]
    split
    · simp
    · simp only [List.mem_cons, ih]
      constructor
      · rintro (h | h | h) <;> simp [h]
      · rintro (h | h | h) <;> simp [h]

theorem foldl_insertByKey_mem {β} (y : Nat × β) : ∀ (l acc : List (Nat × β)),
    y ∈ l.foldl (fun acc x => insertByKey x acc) acc ↔ y ∈ l ∨ y ∈ acc := by
  intro l
  induction l with
  | nil => intro acc; simp
  | cons x xs ih =>
    intro acc
    simp only [List.foldl_cons, ih, insertByKey_mem, List.mem_cons]
    constructor
    · rintro (h | h | h) <;> simp [h]
    · rintro ((h | h) | h) <;> simp [h]

/-- **An index that was handed out lies inside the emitted tuple and holds the entry recorded for it.** -/
theorem FromArgs.toTuple_get (t : FromArgs α) (tbl : List α) (h : t.toTuple = .ok tbl)
    (i : Nat) (a : α) (hi : assoc? i t.iToArg = some a) : tbl[i]? = some a := by
  unfold FromArgs.toTuple at h
  simp only at h
  split at h
  · next hr =>
    simp only [pure, Except.pure, Except.ok.injEq] at h
    subst h
    have hkeys : (t.iToArg.foldl (fun acc x => insertByKey x acc) []).map Prod.fst =
        List.range (t.iToArg.foldl (fun acc x => insertByKey x acc) []).length := by simpa using hr
    generalize hsd : t.iToArg.foldl (fun acc x => insertByKey x acc) [] = sorted at hkeys
    have hmem : ∀ y, y ∈ sorted ↔ y ∈ t.iToArg := by
      intro y; rw [← hsd, foldl_insertByKey_mem]; simp
    have him : (i, a) ∈ sorted := (hmem _).mpr (assoc?_mem i a t.iToArg hi)
    obtain ⟨k, hk, hget⟩ := List.getElem_of_mem him
    have hfst : (sorted.map Prod.fst)[k]? = some i := by simp [List.getElem?_map, List.getElem?_eq_getElem hk, hget]
    rw [hkeys, List.getElem?_range (by simpa using hk)] at hfst
    simp only [Option.some.injEq] at hfst
    subst hfst
    simp [List.getElem?_map, List.getElem?_eq_getElem hk, hget]
  · simp [throw, throwThe, MonadExceptOf.throw] at h

end
end CDV
