import CDVProofs.CodeRT3
import CDVProofs.FieldsRT
import CDVProofs.ParseFits
/-! # `co_code` survives `from_code` → `to_code`: the statement for `to_code_data` / `blocks_to_bytes` -/
namespace CDV
open CDV.LT (LMap)

theorem body_code (v : Ver) (T : OpTable) (names varnames freevars cellvars : List PStr) (K : List Const) (lm : LMap)
    (tp : Option Function) (np : Nat) (code : List Nat) (st' : DecSt) (blocks : List (List Instr)) (n : Nat)
    (al : Option AdditionalLine) (aa : List Arg) (out : BlocksOut)
    (hbody : decodeBody v T names varnames freevars cellvars K lm tp np code = .ok (st', blocks))
    (htail : decodeTail st' n = .ok (al, aa))
    (hdoc : ∀ f, tp = some f → f.doc = firstStr K)
    (hnone : tp = none → np = 0)
    (hvo : ∀ f, tp = some f → f.args.varnameOrder = varnames.take np ∧ np ≤ varnames.length)
    (henc : blocksToBytes v blocks aa freevars tp = .ok out)
    (hcode : ∀ x ∈ code, x < 256) (hcomp : Complete code 0)
    (hpre : ∀ raws, parseBytes code = .ok raws → ∀ r ∈ raws, r.nargs ≤ 4)
    (hmin : ∀ raws, parseBytes code = .ok raws → ∀ r ∈ raws, T.get r.op ≠ .jabs → T.get r.op ≠ .jrel → r.nargs = instrsize r.arg)
    (hjs : ∀ raws, parseBytes code = .ok raws → ∀ r ∈ raws,
      (T.get r.op = .jabs → (decMult v * r.arg).toNat ∈ raws.map (·.first)) ∧
      (T.get r.op = .jrel → ((r.next : Int) + decMult v * r.arg).toNat ∈ raws.map (·.first)))
    (hcn : cellvars.Nodup) (hfn : freevars.Nodup) :
    out.code = code := by
  obtain ⟨st0, raws, ois, est0, cv, est1, xs, hraws, hdec, hbl, _, _, _, _, h0, hcv, hres, hxlen, hxval⟩ :=
    body_resolve v T names varnames freevars cellvars K lm tp np code st' blocks n al aa hbody htail hdoc hnone hvo
  simp only [blocksToBytes] at henc
  obtain ⟨est0', h0', henc⟩ := bind_ok henc
  rw [h0] at h0'; cases h0'
  obtain ⟨cv', hcv', henc⟩ := bind_ok henc
  rw [hcv] at hcv'; cases hcv'
  obtain ⟨⟨est1', xs'⟩, h1', henc⟩ := bind_ok henc
  rw [hres] at h1'; cases h1'
  obtain ⟨res, hrel, henc⟩ := bind_ok henc
  obtain ⟨est2, _, henc⟩ := bind_ok henc
  obtain ⟨tn, _, henc⟩ := bind_ok henc
  obtain ⟨tv, _, henc⟩ := bind_ok henc
  obtain ⟨tc, _, henc⟩ := bind_ok henc
  obtain ⟨tk, _, henc⟩ := bind_ok henc
  simp only [pure, Except.pure, Except.ok.injEq] at henc
  subst henc
  dsimp only
  exact flat_code v T freevars code raws st0 st' ois blocks xs res _ hraws hdec hbl hcode hcomp (hpre raws hraws) (hmin raws hraws)
    (parseBytes_fits code raws hcode hcomp hraws (hpre raws hraws)) (hjs raws hraws) hxlen (resolveArgs_jumpsOne tp freevars _ _ _ _ hres)
    (fun j r p x e1 e2 e3 e4 => hxval j r p x e1 e2 e3 e4 hcn hfn) hrel

/-- **`co_code` is reproduced byte for byte.**  For every code object on which `from_code` succeeds, under facts CPython
    guarantees for compiled code — bytecode that does not end inside an instruction, at most three `EXTENDED_ARG`
    prefixes, instructions other than jumps written in the minimal width, jump targets that are instruction starts, distinct parameter / cell / free variable names: whenever
    `blocks_to_bytes` returns on the decoded data, the bytes it assembles are exactly the original `co_code`.  The
    operand-width loop, started with every jump one unit wide, climbs to the *original* layout: the original operands
    are a fix point of one pass, one pass is monotone, the iteration from below stays below them, and at exit no width can
    be smaller than the original (overridden widths are kept, free jumps were one unit wide). -/
theorem decoded_code_roundtrip (v : Ver) (T : OpTable) (F : FlagTable) (dec : RawCode → R CodeData)
    (argc pos kw nl ss fl : Nat) (fln : Int) (code lt : List Nat) (fname name : PStr) (names varnames freevars cellvars : List PStr)
    (consts : List RConst) (d : CodeData) (out : BlocksOut)
    (h : toCodeDataGo v T F dec (.mk argc pos kw nl ss fl fln code lt fname name names varnames freevars cellvars consts) = .ok d)
    (hlen : argc + kw + (if fl.testBit bVARARGS then 1 else 0) + (if fl.testBit bVARKEYWORDS then 1 else 0) ≤ varnames.length)
    (hnodup : (varnames.take (argc + kw + (if fl.testBit bVARARGS then 1 else 0) + (if fl.testBit bVARKEYWORDS then 1 else 0))).Nodup)
    (hcode : ∀ x ∈ code, x < 256) (hcomp : Complete code 0)
    (hpre : ∀ raws, parseBytes code = .ok raws → ∀ r ∈ raws, r.nargs ≤ 4)
    (hmin : ∀ raws, parseBytes code = .ok raws → ∀ r ∈ raws, T.get r.op ≠ .jabs → T.get r.op ≠ .jrel → r.nargs = instrsize r.arg)
    (hjs : ∀ raws, parseBytes code = .ok raws → ∀ r ∈ raws,
      (T.get r.op = .jabs → (decMult v * r.arg).toNat ∈ raws.map (·.first)) ∧
      (T.get r.op = .jrel → ((r.next : Int) + decMult v * r.arg).toNat ∈ raws.map (·.first)))
    (hcn : cellvars.Nodup) (hfn : freevars.Nodup)
    (henc : blocksToBytes v d.blocks d.addArgs d.freevars d.type = .ok out) :
    out.code = code := by
  unfold toCodeDataGo at h
  dsimp only at h
  split at h
  · exact absurd h (throw_bind_ne _ _)
  obtain ⟨lm, hlm, h⟩ := bind_ok h
  obtain ⟨K, hK, h⟩ := bind_ok h
  obtain ⟨⟨tp, ann, nested, args⟩, hhdr, h⟩ := bind_ok h
  obtain ⟨⟨st', blocks⟩, hbody, h⟩ := bind_ok h
  obtain ⟨⟨al, aa⟩, htail, h⟩ := bind_ok h
  simp only [pure, Except.pure, Except.ok.injEq] at h
  subst h
  obtain ⟨hnone, hsome, _⟩ := decodeHeader_tp v F argc pos kw fl varnames freevars cellvars K tp ann nested args hhdr
  have hargs := decodeHeader_args v F argc pos kw fl varnames freevars cellvars K tp ann nested args hhdr
  obtain ⟨r1, r2, r3, r4, r5, r6, r7⟩ := header_args_roundtrip argc _ kw varnames _ _ args hargs hlen hnodup
  have hnp : args.len = argc + kw + (if fl.testBit bVARARGS then 1 else 0) + (if fl.testBit bVARKEYWORDS then 1 else 0) := by
    unfold Args.len
    rw [r6, r4, r5]
    omega
  exact body_code v T names varnames freevars cellvars K (shiftLines lm fln) tp args.len code st' blocks code.length al aa out hbody htail
    (fun f hf => (hsome f hf).2) hnone (fun f hf => by rw [(hsome f hf).1, r7, hnp]; exact ⟨rfl, hlen⟩) henc hcode hcomp hpre hmin hjs hcn hfn

end CDV
