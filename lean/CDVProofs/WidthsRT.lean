import CDVProofs.Relax
/-! # The operand-width loop reproduces a self-consistent original layout

If the original operands `O` are a fix point of one pass (every jump operand already designates its target in the
layout that `O` itself induces), the start state is below `O`, and the jumps that carry no width override were one
code unit wide, then the loop returns exactly `O`: monotone iteration from below stays below `O`, and at exit the
widths cannot be smaller than `O`'s. -/
namespace CDV

/-- one pass -/
def passOf (v : Ver) (instrs : List Instr) (starts : List Nat) (A : List Int) : List Int :=
  newArgs v starts (prefixSums (szs instrs A) 0) instrs A 0

/-- one pass is monotone (as `growing_step`, for two different states) -/
theorem passOf_mono (v : Ver) (instrs : List Instr) (starts : List Nat) (A B : List Int) (h : SzLE instrs A B) :
    SzLE instrs (passOf v instrs starts A) (passOf v instrs starts B) := by
  unfold passOf
  have hm := offsMono_prefixSums _ _ (SzLE.forall₂ _ _ _ h) (szs_pos _ _) (szs_pos _ _)
  apply newArgs_mono v starts _ _ hm instrs _ _ 0 h
  rw [prefixSums_length]
  have := (SzLE.len _ _ _ h).1
  simp only [szs, List.length_map, List.length_zip, ← this]
  omega

/-- the loop, from below a fix point `O`, exits below `O` after a pass that changed no width -/
theorem relax_below (v : Ver) (instrs : List Instr) (starts : List Nat) (O : List Int)
    (hfix : passOf v instrs starts O = O) : ∀ (fuel : Nat) (A res : List Int),
    SzLE instrs A O → relax v instrs starts fuel A = .ok res →
    ∃ a, SzLE instrs a O ∧ res = passOf v instrs starts a ∧ szs instrs res = szs instrs a := by
  intro fuel
  induction fuel with
  | zero => intro A res _ h; simp [relax, throw, throwThe, MonadExceptOf.throw] at h
  | succ f ih =>
    intro A res hle h
    have hl := (SzLE.len _ _ _ hle).1
    rw [relax] at h
    obtain ⟨⟨a', ch⟩, hp, h⟩ := bind_ok h
    rw [relaxPass_eq] at hp
    have ht := relaxGo_ok_targets v starts _ instrs A 0 _ hl hp
    rw [relaxGo_eq v starts _ instrs A 0 ht] at hp
    simp only [Except.ok.injEq, Prod.mk.injEq] at hp
    obtain ⟨ha', hch⟩ := hp
    cases ch with
    | true =>
      refine ih a' res ?_ (by simpa using h)
      rw [← ha', ← hfix]
      exact passOf_mono v instrs starts A O hle
    | false =>
      simp only [Bool.false_eq_true, if_false, pure, Except.pure, Except.ok.injEq] at h
      subst h
      refine ⟨A, hle, ha'.symm, ?_⟩
      rw [← ha']
      exact szs_of_unchanged v starts _ instrs A 0 hl hch

/-- jumps without a width override are one code unit wide in `O` -/
def FreeOne : List Instr → List Int → Prop
  | i :: is, o :: os => (isJump i.arg = true → noOverride i.nov = true → instrsize o = 1) ∧ FreeOne is os
  | _, _ => True

theorem szs_cons (i : Instr) (is : List Instr) (a : Int) (as : List Int) : szs (i :: is) (a :: as) = sizeOfI i.nov a :: szs is as := rfl

/-- below `O` and not narrower anywhere it could be: same widths -/
theorem szs_eq_of_le : ∀ (is : List Instr) (R O : List Int), SzLE is R O → FreeOne is O → szs is R = szs is O := by
  intro is
  induction is with
  | nil => intro R O h _; cases R <;> cases O <;> simp_all [SzLE, szs]
  | cons i is ih =>
    intro R O h hf
    cases R with
    | nil => simp [SzLE] at h
    | cons r R => cases O with
      | nil => simp [SzLE] at h
      | cons o O =>
        simp only [SzLE] at h
        simp only [FreeOne] at hf
        rw [szs_cons, szs_cons, ih R O h.2.2 hf.2]
        congr 1
        cases hj : isJump i.arg with
        | false => rw [h.2.1 hj]
        | true =>
          cases hno : noOverride i.nov with
          | false => exact sizeOfI_override _ _ _ hno
          | true =>
            have h1 := hf.1 hj hno
            rw [sizeOfI_noOverride _ _ hno] at h ⊢
            rw [sizeOfI_noOverride _ _ hno] at h ⊢
            have := instrsize_pos r
            omega

/-- a pass looks at the old operands only where they are not jumps -/
theorem newArgs_congr (v : Ver) (starts offs : List Nat) : ∀ (is : List Instr) (A B : List Int) (k : Nat), SzLE is A B →
    newArgs v starts offs is A k = newArgs v starts offs is B k := by
  intro is
  induction is with
  | nil => intro A B k h; cases A <;> cases B <;> simp_all [SzLE, newArgs]
  | cons i is ih =>
    intro A B k h
    cases A with
    | nil => simp [SzLE] at h
    | cons a A => cases B with
      | nil => simp [SzLE] at h
      | cons b B =>
        simp only [SzLE] at h
        simp only [newArgs]
        rw [ih A B (k + 1) h.2.2]
        congr 1
        cases hia : i.arg with
        | jump t rel => rfl
        | _ => simp only; exact h.2.1 (by simp [hia, isJump])

/-- **The loop returns the original operands.** -/
theorem relax_reproduces (v : Ver) (instrs : List Instr) (starts : List Nat) (O xs res : List Int) (fuel : Nat)
    (hfix : passOf v instrs starts O = O) (hle : SzLE instrs xs O) (hfree : FreeOne instrs O)
    (h : relax v instrs starts fuel xs = .ok res) : res = O := by
  obtain ⟨a, hale, hres, hsz⟩ := relax_below v instrs starts O hfix fuel xs res hle h
  have hresle : SzLE instrs res O := by
    rw [hres, ← hfix]
    exact passOf_mono v instrs starts a O hale
  have hs := szs_eq_of_le instrs res O hresle hfree
  rw [hres]
  unfold passOf
  rw [← hsz, hs, newArgs_congr v starts _ instrs a O 0 hale]
  exact hfix

end CDV
