import CDVProofs.DecodeTop
import CDVProofs.Props.C02
/-! The assembly: what `to_code_data` returns, read in order, is what CPython reads from the code object (`Spec.read`). -/
namespace CDV

/-- what the decoded operand must be, for CPython's reading `s` of the same instruction
    (`starts` = index of the first instruction of each block; `constants` = the decoded constants) -/
def ArgReads (starts : List Nat) (constants : List Const) (a : Arg) (s : Spec.SArg) : Prop :=
  match s with
  | .raw n => a = .raw n
  | .jump idx rel => ∃ t, a = .jump t rel ∧ idx.isSome ∧ starts[t]? = idx
  | .name x => ∃ o, a = .name x o
  | .loc x => ∃ o, a = .varname x o
  | .cell x => ∃ o, a = .cell x o
  | .free x => a = .free x
  | .constInner c => ∃ o, a = .const (.inner c) o
  | .constCode idx => ∃ d o, a = .const (.code d) o ∧ constants[idx]? = some (.code d)
  | .noarg => ∃ n, a = .noarg n
  | .bad => False

theorem go_indexOf (t : Nat) : ∀ (l : List Nat) (k : Nat), t ∈ l → Spec.idxOfOffset.go (t : Int) l k = some (k + indexOf t l) := by
  intro l
  induction l with
  | nil => intro k h; simp at h
  | cons o os ih =>
    intro k h
    rw [Spec.idxOfOffset.go]
    simp only [Int.toNat_natCast, indexOf]
    by_cases ho : o = t
    · subst ho; simp
    · have ht : ¬ t = o := fun e => ho e.symm
      simp only [ho, ht, if_false]
      rcases List.mem_cons.mp h with h | h
      · exact absurd h ht
      · rw [ih (k + 1) h]; congr 1; omega

theorem go_none (t : Nat) : ∀ (l : List Nat) (k : Nat), t ∉ l → Spec.idxOfOffset.go (t : Int) l k = none := by
  intro l
  induction l with
  | nil => intro k _; rfl
  | cons o os ih =>
    intro k h
    rw [Spec.idxOfOffset.go]
    simp only [Int.toNat_natCast]
    have ho : ¬ o = t := fun e => h (by simp [e])
    simp only [ho, if_false]
    exact ih (k + 1) (fun hm => h (by simp [hm]))

/-- CPython's "index of the instruction that starts at offset `x`" -/
theorem idxOfOffset_spec (l : List Nat) (x : Int) :
    Spec.idxOfOffset l x = if 0 ≤ x ∧ x.toNat ∈ l then some (indexOf x.toNat l) else none := by
  unfold Spec.idxOfOffset
  by_cases hx : x < 0
  · simp [hx]; intro h; omega
  · have h0 : 0 ≤ x := by omega
    simp only [hx, if_false, h0, true_and]
    have hc : ((x.toNat : Nat) : Int) = x := Int.toNat_of_nonneg h0
    by_cases hm : x.toNat ∈ l
    · rw [if_pos hm]
      have := go_indexOf x.toNat l 0 hm
      rw [hc] at this; simpa using this
    · rw [if_neg hm]
      have := go_none x.toNat l 0 hm
      rw [hc] at this; exact this

theorem mapM_get {α β} (f : α → R β) : ∀ (l : List α) (r : List β), l.mapM f = .ok r →
    r.length = l.length ∧ ∀ (k : Nat) (a : α), l[k]? = some a → ∃ b, r[k]? = some b ∧ f a = .ok b := by
  intro l
  induction l with
  | nil => intro r h; simp [List.mapM_nil, pure, Except.pure] at h; subst h; simp
  | cons x xs ih =>
    intro r h
    rw [List.mapM_cons] at h
    obtain ⟨b, hb, h⟩ := bind_ok h
    obtain ⟨bs, hbs, h⟩ := bind_ok h
    simp only [pure, Except.pure, Except.ok.injEq] at h
    subst h
    obtain ⟨i1, i2⟩ := ih bs hbs
    refine ⟨by simp [i1], ?_⟩
    intro k a hk
    cases k with
    | zero => simp only [List.getElem?_cons_zero, Option.some.injEq] at hk; subst hk; exact ⟨b, rfl, hb⟩
    | succ k => simp only [List.getElem?_cons_succ] at hk ⊢; exact i2 k a hk

/-- CPython's resolution of one operand (the body of `Spec.read`) -/
def specArg (v : Ver) (T : OpTable) (offs : List Nat) (names varnames freevars cellvars : List PStr) (consts : List RConst)
    (op : Nat) (arg : Int) (nxt : Nat) : Spec.SArg :=
  let mult : Int := if v.is310 then 2 else 1
  match T.get op with
  | .jabs => .jump (Spec.idxOfOffset offs (mult * arg)) false
  | .jrel => .jump (Spec.idxOfOffset offs (nxt + mult * arg)) true
  | .name => match Spec.getStr names arg with | some s => .name s | none => .bad
  | .loc => match Spec.getStr varnames arg with | some s => .loc s | none => .bad
  | .free =>
    if arg < 0 then .bad
    else if arg.toNat < cellvars.length then (match cellvars[arg.toNat]? with | some s => .cell s | none => .bad)
    else (match freevars[arg.toNat - cellvars.length]? with | some s => .free s | none => .bad)
  | .const =>
    if arg < 0 then .bad else
    match consts[arg.toNat]? with
    | some (.inner c) => .constInner c
    | some (.code _) => .constCode arg.toNat
    | none => .bad
  | .noarg => .noarg
  | _ => .raw arg

theorem read_eq (v : Ver) (T : OpTable) (argc pos kw nl ss fl : Nat) (fln : Int) (code lt : List Nat) (fname name : PStr)
    (names varnames freevars cellvars : List PStr) (consts : List RConst) :
    Spec.read v T (.mk argc pos kw nl ss fl fln code lt fname name names varnames freevars cellvars consts) =
      (Spec.fold EXTENDED_ARG (Spec.units EXTENDED_ARG code 0 0) none).map (fun p =>
        ⟨p.2.1, specArg v T ((Spec.fold EXTENDED_ARG (Spec.units EXTENDED_ARG code 0 0) none).map (·.1)) names varnames freevars cellvars consts p.2.1 p.2.2.1 p.2.2.2,
         Spec.lineOf v lt fln p.1⟩) := by
  rfl

/-- one instruction: the decoded operand (after jumps are re-targeted to block indices) is what CPython reads -/
theorem argReads_of_operandOK (v : Ver) (T : OpTable) (offs targets starts : List Nat) (names varnames freevars cellvars : List PStr)
    (consts : List RConst) (constants : List Const) (r : RawI) (ins : Instr)
    (hop : OperandOK v T names varnames freevars cellvars constants r ins.arg)
    (hconst : ∀ (k : Nat) (c : RConst), consts[k]? = some c →
      match c with | .inner i => constants[k]? = some (.inner i) | .code _ => ∃ d, constants[k]? = some (.code d))
    (hclen : constants.length = consts.length)
    (hjump : ∀ t rel, ins.arg = .jump t rel → t ∈ offs ∧ starts[indexOf t targets]? = some (indexOf t offs)) :
    ArgReads starts constants (retarget targets ins).arg (specArg v T offs names varnames freevars cellvars consts r.op r.arg r.next) := by
  obtain ⟨op, a, nov, ln, lo⟩ := ins
  simp only [Instr.arg] at hop hjump
  unfold OperandOK decMult at hop
  unfold specArg
  cases hc : T.get r.op <;> simp only [hc] at hop ⊢
  · -- jabs
    obtain ⟨h0, rfl⟩ := hop
    obtain ⟨hm, hs⟩ := hjump _ _ rfl
    simp only [retarget, Instr.arg, ArgReads, idxOfOffset_spec]
    have hcnd : 0 ≤ (if v.is310 = true then (2 : Int) else 1) * r.arg ∧ ((if v.is310 = true then (2 : Int) else 1) * r.arg).toNat ∈ offs := ⟨h0, hm⟩
    refine ⟨_, rfl, ?_, ?_⟩
    · rw [if_pos hcnd]; rfl
    · rw [if_pos hcnd]; exact hs
  · -- jrel
    obtain ⟨h0, rfl⟩ := hop
    obtain ⟨hm, hs⟩ := hjump _ _ rfl
    simp only [retarget, Instr.arg, ArgReads, idxOfOffset_spec]
    have hcnd : 0 ≤ (r.next : Int) + (if v.is310 = true then (2 : Int) else 1) * r.arg ∧
        ((r.next : Int) + (if v.is310 = true then (2 : Int) else 1) * r.arg).toNat ∈ offs := ⟨h0, hm⟩
    refine ⟨_, rfl, ?_, ?_⟩
    · rw [if_pos hcnd]; rfl
    · rw [if_pos hcnd]; exact hs
  · -- name
    obtain ⟨h0, s, o, rfl, hs⟩ := hop
    have : Spec.getStr names r.arg = some s := by simp [Spec.getStr, show ¬ r.arg < 0 by omega, hs]
    simp only [this, retarget, Instr.arg, ArgReads]
    exact ⟨o, rfl⟩
  · -- loc
    obtain ⟨h0, s, o, rfl, hs⟩ := hop
    have : Spec.getStr varnames r.arg = some s := by simp [Spec.getStr, show ¬ r.arg < 0 by omega, hs]
    simp only [this, retarget, Instr.arg, ArgReads]
    exact ⟨o, rfl⟩
  · -- free
    obtain ⟨h0, hrest⟩ := hop
    have hn : ¬ r.arg < 0 := by omega
    simp only [hn, if_false]
    by_cases hlt : r.arg < (cellvars.length : Int)
    · rw [if_pos hlt] at hrest
      obtain ⟨s, o, rfl, hs⟩ := hrest
      have : r.arg.toNat < cellvars.length := by omega
      simp only [this, if_true, hs, retarget, Instr.arg, ArgReads]
      exact ⟨o, rfl⟩
    · rw [if_neg hlt] at hrest
      obtain ⟨s, rfl, hs⟩ := hrest
      have : ¬ r.arg.toNat < cellvars.length := by omega
      have e : (r.arg - cellvars.length).toNat = r.arg.toNat - cellvars.length := by omega
      rw [e] at hs
      simp only [this, if_false, hs, retarget, Instr.arg, ArgReads]
  · -- const
    obtain ⟨h0, c, o, rfl, hs⟩ := hop
    have hn : ¬ r.arg < 0 := by omega
    simp only [hn, if_false]
    have hlt : r.arg.toNat < consts.length := by rw [← hclen]; exact (List.getElem?_eq_some_iff.mp hs).1
    have hget : consts[r.arg.toNat]? = some consts[r.arg.toNat] := List.getElem?_eq_getElem hlt
    have hk := hconst _ _ hget
    rw [hget]
    cases hcc : consts[r.arg.toNat] with
    | inner i =>
      rw [hcc] at hk
      simp only at hk
      rw [hs] at hk
      simp only [Option.some.injEq] at hk
      subst hk
      simp only [retarget, Instr.arg, ArgReads]
      exact ⟨o, rfl⟩
    | code k' =>
      rw [hcc] at hk
      obtain ⟨d, hd⟩ := hk
      rw [hs] at hd
      simp only [Option.some.injEq] at hd
      subst hd
      simp only [retarget, Instr.arg, ArgReads]
      exact ⟨d, o, rfl, hs⟩
  · -- noarg
    subst hop
    simp only [retarget, Instr.arg, ArgReads]; exact ⟨_, rfl⟩
  · subst hop; simp only [retarget, Instr.arg, ArgReads]
  · subst hop; simp only [retarget, Instr.arg, ArgReads]

theorem retarget_op (targets : List Nat) (i : Instr) : (retarget targets i).op = i.op := by
  obtain ⟨op, a, n, l, o⟩ := i
  cases a <;> rfl

theorem retarget_line (targets : List Nat) (i : Instr) : (retarget targets i).line = i.line := by
  obtain ⟨op, a, n, l, o⟩ := i
  cases a <;> rfl

theorem parseGo_head_first (ext : Nat) : ∀ (n : Nat) (code : List Nat), code.length = n → ∀ (i : Nat) (arg : Int) (nargs : Nat) (r : RawI) (rs : List RawI),
    2 * nargs ≤ i → parseGo ext code i arg nargs = .ok (r :: rs) → r.first = i - 2 * nargs := by
  intro n
  induction n using Nat.strongRecOn with
  | ind n ih =>
  intro code hlen i arg nargs r rs hpos hp
  match code, hlen with
  | [], _ => simp [parseGo, pure, Except.pure] at hp
  | [_], _ => simp [parseGo, throw, throwThe, MonadExceptOf.throw] at hp
  | op :: a :: rest, hlen =>
    simp only [List.length_cons] at hlen
    rw [parseGo] at hp
    by_cases hop : op = ext
    · simp only [hop, if_true] at hp
      have := ih rest.length (by omega) rest rfl (i + 2) _ (nargs + 1) r rs (by omega) hp
      omega
    · simp only [hop, if_false] at hp
      obtain ⟨r', _, hp⟩ := bind_ok hp
      simp only [pure, Except.pure, Except.ok.injEq, List.cons.injEq] at hp
      rw [← hp.1]; simp only; omega

/-- a decoded jump's target offset is an instruction start whenever CPython's reading of that jump finds one -/
theorem jump_target_valid (v : Ver) (T : OpTable) (offs : List Nat) (names varnames freevars cellvars : List PStr) (consts : List RConst)
    (constants : List Const) (r : RawI) (a : Arg) (t : Nat) (rel : Bool)
    (hop : OperandOK v T names varnames freevars cellvars constants r a) (ha : a = .jump t rel)
    (hv : ∀ idx rel', specArg v T offs names varnames freevars cellvars consts r.op r.arg r.next = .jump idx rel' → idx.isSome) :
    t ∈ offs := by
  subst ha
  unfold OperandOK decMult at hop
  unfold specArg at hv
  cases hc : T.get r.op <;> simp only [hc] at hop hv
  · obtain ⟨h0, he⟩ := hop
    simp only [Arg.jump.injEq] at he
    have := hv _ _ rfl
    rw [idxOfOffset_spec] at this
    by_cases hcond : 0 ≤ (if v.is310 = true then (2 : Int) else 1) * r.arg ∧ ((if v.is310 = true then (2 : Int) else 1) * r.arg).toNat ∈ offs
    · rw [he.1]; exact hcond.2
    · rw [if_neg hcond] at this; simp at this
  · obtain ⟨h0, he⟩ := hop
    simp only [Arg.jump.injEq] at he
    have := hv _ _ rfl
    rw [idxOfOffset_spec] at this
    by_cases hcond : 0 ≤ (r.next : Int) + (if v.is310 = true then (2 : Int) else 1) * r.arg ∧
        ((r.next : Int) + (if v.is310 = true then (2 : Int) else 1) * r.arg).toNat ∈ offs
    · rw [he.1]; exact hcond.2
    · rw [if_neg hcond] at this; simp at this
  · obtain ⟨_, s, o, he, _⟩ := hop; cases he
  · obtain ⟨_, s, o, he, _⟩ := hop; cases he
  · obtain ⟨_, hrest⟩ := hop
    split at hrest
    · obtain ⟨s, o, he, _⟩ := hrest; cases he
    · obtain ⟨s, he, _⟩ := hrest; cases he
  · obtain ⟨_, c, o, he, _⟩ := hop; cases he
  · cases hop
  · cases hop
  · cases hop

theorem shifted_eq (lm : LT.LMap) (fln : Int) : Props.C02.shifted lm fln = shiftLines lm fln := rfl

/-- **What `to_code_data` returns, read in order, is what CPython reads from the code object.**
    For every code object on which `to_code_data` succeeds, provided (as for everything CPython compiles) the bytecode is
    bytes with at most three `EXTENDED_ARG` prefixes per instruction, every jump target CPython computes is an
    instruction start, and the line table has in-range rows with even address deltas (for `co_lnotab`: even once its 255-byte
    continuation rows are merged): the blocks, flattened, have exactly
    as many instructions as CPython's reading (`Spec.read`: `dis` with prefixes folded + the line table reader), and the
    `j`-th decoded instruction has the `j`-th opcode, the line CPython assigns to its first code unit (`None` iff no line),
    and the operand CPython resolves — the same name / local / cell / free variable / constant (nested code: the decoding of
    the code object at that table position), raw operand, or a jump of the same kind to the block whose first instruction
    is the one CPython would jump to. -/
theorem decode_reads_like_cpython (v : Ver) (T : OpTable) (F : FlagTable) (dec : RawCode → R CodeData)
    (argc pos kw nl ss fl : Nat) (fln : Int) (code lt : List Nat) (fname name : PStr) (names varnames freevars cellvars : List PStr)
    (consts : List RConst) (d : CodeData)
    (h : toCodeDataGo v T F dec (.mk argc pos kw nl ss fl fln code lt fname name names varnames freevars cellvars consts) = .ok d)
    (hcode : ∀ x ∈ code, x < 256)
    (hpre : ∀ raws, parseBytes code = .ok raws → ∀ r ∈ raws, r.nargs ≤ 4)
    (hvalid : ∀ s ∈ Spec.read v T (.mk argc pos kw nl ss fl fln code lt fname name names varnames freevars cellvars consts),
      ∀ idx rel, s.arg = .jump idx rel → idx.isSome)
    (hteven : lt.length % 2 = 0) (htbytes : ∀ x ∈ lt, x < 256)
    (htbc : v.is310 = true → ∀ x ∈ LT.bytesToItems lt, x.bc % 2 = 0 ∧ x.bc ≠ 255)
    (htbcOld : v.is310 = false → ∀ cs, LT.collapse false (LT.bytesToItems lt) = some cs → ∀ c ∈ cs, c.bc % 2 = 0) :
    ∃ (constants : List Const) (blocks : List (List Instr)) (tp : Option Function) (ann nested : Bool) (al : Option AdditionalLine) (aa : List Arg),
      d = .mk blocks fname fln name ss tp freevars ann nested al aa ∧
      consts.mapM (fun c => match c with | .inner i => pure (Const.inner i) | .code k => Const.code <$> dec k) = .ok constants ∧
      blocks.flatten.length = (Spec.read v T (.mk argc pos kw nl ss fl fln code lt fname name names varnames freevars cellvars consts)).length ∧
      ∀ (j : Nat) (i : Instr) (s : Spec.SInstr), blocks.flatten[j]? = some i →
        (Spec.read v T (.mk argc pos kw nl ss fl fln code lt fname name names varnames freevars cellvars consts))[j]? = some s →
        i.op = s.op ∧ i.line = s.line ∧ ArgReads (blockStarts blocks 0) constants i.arg s.arg := by
  obtain ⟨lm, constants, tp, ann, nested, args, st0, st', raws, ois, blocks, al, aa, hlm, hconst, _, hn, hvn, hcv, hcs, hstlm, hraws, hdec, hbl, _, hd⟩ :=
    toCodeDataGo_decompose v T F dec argc pos kw nl ss fl fln code lt fname name names varnames freevars cellvars consts d h
  refine ⟨constants, blocks, tp, ann, nested, al, aa, hd, hconst, ?_⟩
  rw [read_eq]
  have hI := parseBytes_agrees code raws hcode hraws (hpre raws hraws)
  rw [← hI]
  obtain ⟨_, hlen, hall⟩ := decodeInstrs_ok v T freevars raws st0 st' ois hdec
  rw [hn, hvn, hcv, hcs] at hall
  have hflat := (CDV.Props.C13.C13_partition ois blocks hbl).2
  have hoffs : ois.map (·.1) = raws.map (·.first) := decodeInstrs_offsets v T freevars raws st0 st' ois hdec
  have hoffs' : (raws.map RawI.proj).map (·.1) = ois.map (·.1) := by
    rw [hoffs, List.map_map]; rfl
  rw [hoffs']
  obtain ⟨hclen, hcget⟩ := mapM_get _ consts constants hconst
  have hconstrel : ∀ (k : Nat) (c : RConst), consts[k]? = some c →
      match c with | .inner i => constants[k]? = some (.inner i) | .code _ => ∃ d, constants[k]? = some (.code d) := by
    intro k c hk
    obtain ⟨b, hb1, hb2⟩ := hcget k c hk
    cases c with
    | inner i => simp only [pure, Except.pure, Except.ok.injEq] at hb2; rw [hb1, ← hb2]
    | code k' =>
      simp only [Functor.map, Except.map] at hb2
      cases hdk : dec k' with
      | error e => rw [hdk] at hb2; cases hb2
      | ok dd => rw [hdk] at hb2; simp only [Except.ok.injEq] at hb2; exact ⟨dd, by rw [hb1, ← hb2]⟩
  -- CPython's reading finds every jump target: so does the decoder's
  have hvalid' : ∀ (j : Nat) (r : RawI), raws[j]? = some r → ∀ idx rel',
      specArg v T (ois.map (·.1)) names varnames freevars cellvars consts r.op r.arg r.next = .jump idx rel' → idx.isSome := by
    intro j r hj idx rel' he
    apply hvalid ⟨r.op, specArg v T (ois.map (·.1)) names varnames freevars cellvars consts r.op r.arg r.next, Spec.lineOf v lt fln r.first⟩ _ idx rel' he
    rw [read_eq, ← hI, hoffs']
    apply List.mem_map.mpr
    exact ⟨RawI.proj r, List.mem_map.mpr ⟨r, List.mem_of_getElem? hj, rfl⟩, rfl⟩
  have hjt : ∀ (j : Nat) (r : RawI) (ins : Instr) (t : Nat) (rel : Bool), raws[j]? = some r → ois[j]? = some (r.first, ins) →
      OperandOK v T names varnames freevars cellvars constants r ins.arg → ins.arg = .jump t rel → t ∈ ois.map (·.1) := by
    intro j r ins t rel hj _ hop ha
    exact jump_target_valid v T _ names varnames freevars cellvars consts constants r ins.arg t rel hop ha (hvalid' j r hj)
  refine ⟨by rw [hflat, List.length_map, List.length_map, List.length_map, hlen], ?_⟩
  intro j i s hi hs
  rw [hflat, List.getElem?_map] at hi
  rw [List.getElem?_map, List.getElem?_map] at hs
  cases hr : raws[j]? with
  | none => rw [hr] at hs; simp at hs
  | some r =>
    rw [hr] at hs
    simp only [Option.map_some, Option.some.injEq] at hs
    obtain ⟨ins, hoj, hopeq, hopok⟩ := hall j r hr
    rw [hoj] at hi
    simp only [Option.map_some, Option.some.injEq] at hi
    subst hi; subst hs
    -- the blocks: every target is an instruction start
    have hne : ois ≠ [] := by intro he; rw [he] at hoj; simp at hoj
    have hso : SortedLt (ois.map (·.1)) := by rw [hoffs]; exact parseBytes_sorted code raws hraws
    have hzero : 0 ∈ ois.map (·.1) := by
      rw [hoffs]
      cases hraw : raws with
      | nil => rw [hraw] at hr; simp at hr
      | cons r0 rs =>
        have := parseGo_head_first EXTENDED_ARG code.length code rfl 0 0 0 r0 rs (by omega) (by rw [← hraw]; exact hraws)
        simp only [List.map_cons, List.mem_cons]; left; omega
    have hsub : ∀ t ∈ targetsOf ois, t ∈ ois.map (·.1) := by
      intro t ht
      rcases (mem_targetsOf ois t).mp ht with rfl | hj
      · exact hzero
      · -- t is the target of some decoded jump
        have : ∀ (l : List (Nat × Instr)), t ∈ jumpTargets l → ∃ off op rel n ln lo, (off, Instr.mk op (.jump t rel) n ln lo) ∈ l := by
          intro l
          induction l with
          | nil => intro h; simp [jumpTargets] at h
          | cons p l ih =>
            intro h
            obtain ⟨off, ⟨op, a, n, ln, lo⟩⟩ := p
            cases a with
            | jump t' rel =>
              simp only [jumpTargets, List.mem_cons] at h
              rcases h with rfl | h
              · exact ⟨off, op, rel, n, ln, lo, by simp⟩
              · obtain ⟨o, p2, r2, n2, l2, lo2, hm⟩ := ih h; exact ⟨o, p2, r2, n2, l2, lo2, by simp [hm]⟩
            | _ =>
              simp only [jumpTargets] at h
              obtain ⟨o, p2, r2, n2, l2, lo2, hm⟩ := ih h; exact ⟨o, p2, r2, n2, l2, lo2, by simp [hm]⟩
        obtain ⟨off, op, rel, n, ln, lo, hm⟩ := this ois hj
        obtain ⟨j', hj'lt, hj'⟩ := List.getElem_of_mem hm
        have hj'r : j' < raws.length := by omega
        have hrj' : raws[j']? = some raws[j'] := List.getElem?_eq_getElem hj'r
        obtain ⟨ins', hoj', _, hopok'⟩ := hall j' raws[j'] hrj'
        have : ois[j']? = some (off, Instr.mk op (.jump t rel) n ln lo) := by rw [List.getElem?_eq_getElem hj'lt, hj']
        rw [this] at hoj'
        simp only [Option.some.injEq, Prod.mk.injEq] at hoj'
        rw [← hoj'.2] at hopok'
        exact hjt j' raws[j'] _ t rel hrj' (by rw [this, hoj'.1]) hopok' rfl
    refine ⟨by rw [retarget_op]; exact hopeq, ?_, ?_⟩
    · -- the line
      rw [retarget_line]
      simp only [RawI.proj]
      cases hv : v.is310 with
      | true =>
        have hv' : v = .v310 := by cases v <;> simp [Ver.is310] at hv ⊢
        subst hv'
        obtain ⟨lm', hlm', hlines⟩ := Props.C02.C02_lines_310 T freevars code lt fln raws st0 st' ois hteven htbytes (fun x hx => (htbc rfl x hx).2) (fun x hx => (htbc rfl x hx).1) hraws
        have : lm' = lm := by
          have e1 : LT.toLineMapping true lt code.length = .ok lm := hlm
          rw [hlm'] at e1; simpa using e1
        subst this
        obtain ⟨ins2, h1, h2⟩ := hlines (by rw [hstlm, shifted_eq]) hdec j r hr
        rw [hoj] at h1
        simp only [Option.some.injEq, Prod.mk.injEq, true_and] at h1
        rw [h1]; exact h2
      | false =>
        obtain ⟨lm', hlm', hlines⟩ := Props.C02.C02_lines_lnotab v hv T freevars code lt fln raws st0 st' ois hteven htbytes (htbcOld hv) hraws
        have : lm' = lm := by
          have e1 : LT.toLineMapping v.is310 lt code.length = .ok lm := hlm
          rw [hv, hlm'] at e1; simpa using e1
        subst this
        obtain ⟨ins2, h1, h2⟩ := hlines (by rw [hstlm, shifted_eq]) hdec j r hr
        rw [hoj] at h1
        simp only [Option.some.injEq, Prod.mk.injEq, true_and] at h1
        rw [h1]; exact h2
    · -- the operand
      simp only [RawI.proj]
      apply argReads_of_operandOK v T (ois.map (·.1)) (targetsOf ois) (blockStarts blocks 0) names varnames freevars cellvars consts constants r ins
        hopok hconstrel hclen
      intro t rel ha
      have htm : t ∈ ois.map (·.1) := hjt j r ins t rel hr hoj hopok ha
      refine ⟨htm, ?_⟩
      have htt : t ∈ targetsOf ois := by
        apply jumpTarget_mem_targetsOf
        obtain ⟨op, a, n, ln, lo⟩ := ins
        simp only [Instr.arg] at ha
        subst ha
        exact mem_jumpTargets op t rel n ln lo r.first ois (List.mem_of_getElem? hoj)
      exact (jump_block_start ois blocks hbl hso hsub t htt).1

end CDV
