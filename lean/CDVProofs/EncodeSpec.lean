import CDVProofs.EncodeFree
import CDVProofs.EncodeLines
import CDVProofs.DecodeSpec
/-! The assembly on the encoding side: CPython reads the code object `to_code()` builds as the data says. -/
namespace CDV
open CDV.Props.C09 (keyEquiv_str keyEquiv_const)

theorem resolveArgs_raw (tp : Option Function) (fv : List PStr) : ∀ (is : List Instr) (st st' : EncSt) (as : List Int),
    resolveArgs tp fv st is = .ok (st', as) →
    ∀ (j : Nat) (ins : Instr) (n a : Int), is[j]? = some ins → ins.arg = .raw n → as[j]? = some a → a = n := by
  intro is
  induction is with
  | nil => intro st st' as _ j ins n a hi; simp at hi
  | cons i0 is ih =>
    intro st st' as h j ins n a hi hia ha
    rw [resolveArgs] at h
    obtain ⟨⟨st1, a0⟩, h1, h⟩ := bind_ok' h
    obtain ⟨⟨st2, r⟩, h2, h⟩ := bind_ok' h
    simp only [pure, Except.pure, Except.ok.injEq, Prod.mk.injEq] at h
    obtain ⟨rfl, rfl⟩ := h
    cases j with
    | zero =>
      simp only [List.getElem?_cons_zero, Option.some.injEq] at hi ha
      subst hi; subst ha
      rw [hia] at h1
      simp only [fromArg, pure, Except.pure, Except.ok.injEq, Prod.mk.injEq] at h1
      exact h1.2.symm
    | succ j =>
      simp only [List.getElem?_cons_succ] at hi ha
      exact ih st1 st2 r h2 j ins n a hi hia ha

/-- the operands `blocks_to_bytes` assembles: resolved against the tables it builds, then widened by its fix-point loop
    (the first four steps of `blocksToBytes`, nothing else) -/
def finalArgs (v : Ver) (blocks : List (List Instr)) (addArgs : List Arg) (fv : List PStr) (tp : Option Function) : R (List Int) := do
  let st ← encInit tp
  let cv ← collectCells st.cellvars (blocks.flatten.map Instr.arg ++ addArgs)
  let (_, args0) ← resolveArgs tp fv { st with cellvars := cv } blocks.flatten
  relax v blocks.flatten (blockStarts blocks 0) (3 * (blocks.flatten.filter fun i => isJump i.arg).length + 3) args0

/-- everything `blocks_to_bytes` guarantees about its result, with one operand list — the one `finalArgs` computes -/
theorem blocksToBytes_spec' (v : Ver) (blocks : List (List Instr)) (addArgs : List Arg) (fv : List PStr) (tp : Option Function)
    (out : BlocksOut) (h : blocksToBytes v blocks addArgs fv tp = .ok out) :
    ∃ (args0 args : List Int) (fuel : Nat), blocks.flatten.length = args0.length ∧
      relax v blocks.flatten (blockStarts blocks 0) fuel args0 = .ok args ∧
      out.code = (emit blocks.flatten args 0).1 ∧ out.lm = ⟨(emit blocks.flatten args 0).2.1, (emit blocks.flatten args 0).2.2⟩ ∧
      args.length = blocks.flatten.length ∧
      (∀ (j : Nat) (ins : Instr) (a : Int), blocks.flatten[j]? = some ins → args[j]? = some a → OperandInTables out ins.arg a) ∧
      (∀ (j : Nat) (ins : Instr) (s : PStr) (a : Int), blocks.flatten[j]? = some ins → ins.arg = .free s → args[j]? = some a →
        ∃ idx, indexOfStr s fv = some idx ∧ a = ((out.cellvars.length + idx : Nat) : Int)) ∧
      (∀ (j : Nat) (ins : Instr) (n a : Int), blocks.flatten[j]? = some ins → ins.arg = .raw n → args[j]? = some a → a = n) ∧
      finalArgs v blocks addArgs fv tp = .ok args := by
  obtain ⟨argsA, hcA, hlA, hopA⟩ := blocksToBytes_operands v blocks addArgs fv tp out h
  obtain ⟨argsB, hcB, hfB⟩ := blocksToBytes_free v blocks addArgs fv tp out h
  -- both theorems speak of the operand list the function computed; recover it once more to name it
  unfold blocksToBytes at h
  obtain ⟨st0, h0, h⟩ := bind_ok' h
  obtain ⟨cv, hcv, h⟩ := bind_ok' h
  obtain ⟨⟨st1, args0⟩, hres, h⟩ := bind_ok' h
  obtain ⟨args, hrelax, h⟩ := bind_ok' h
  obtain ⟨st2, hadd, h⟩ := bind_ok' h
  obtain ⟨names, hn, h⟩ := bind_ok' h
  obtain ⟨varnames, hv, h⟩ := bind_ok' h
  obtain ⟨cellvars, hc, h⟩ := bind_ok' h
  obtain ⟨consts, hk, h⟩ := bind_ok' h
  simp only [pure, Except.pure, Except.ok.injEq] at h
  have i0 := encInit_inv tp st0 h0
  have i0' : InvAll { st0 with cellvars := cv } := ⟨i0.n, i0.v, collectCells_inv _ _ _ i0.c hcv, i0.k⟩
  have hal : blocks.flatten.length = args0.length := ((resolveArgs_spec tp fv _ _ _ _ i0' hres).2.2.1).symm
  have hrl := (relax_lands v _ _ _ _ _ hal hrelax).1
  have hout : blocksToBytes v blocks addArgs fv tp = .ok out := by
    unfold blocksToBytes
    simp only [h0, hcv, hres, hrelax, hadd, hn, hv, hc, hk, bind, Except.bind, pure, Except.pure, h]
  obtain ⟨argsA', hcA', hlA', hopA'⟩ := blocksToBytes_operands v blocks addArgs fv tp out hout
  refine ⟨args0, args, _, hal, hrelax, by rw [← h], by rw [← h], hrl, ?_, ?_, ?_, ?_⟩
  · -- re-derive for *this* operand list (same proof as `blocksToBytes_operands`, whose witness is this list)
    obtain ⟨i1, _, hlen, hargs⟩ := resolveArgs_spec tp fv _ _ _ _ i0' hres
    obtain ⟨_, e2⟩ := addAdditional_spec tp fv _ _ _ i1 hadd
    intro j ins a hi ha
    cases hia : ins.arg with
    | name s o =>
      have hnj := relax_nonjump v _ _ _ _ _ hal hrelax j ins hi (by simp [hia, isJump])
      rw [ha] at hnj
      have := (hargs j ins a hi hnj.symm).mono e2
      rw [hia] at this
      obtain ⟨k, hk1, a', hk2, hk3⟩ := this
      rw [← h]
      exact ⟨k, hk1, by rw [FromArgs.toTuple_get _ _ hn k a' hk2, strEq_eq _ _ hk3]⟩
    | varname s o =>
      have hnj := relax_nonjump v _ _ _ _ _ hal hrelax j ins hi (by simp [hia, isJump])
      rw [ha] at hnj
      have := (hargs j ins a hi hnj.symm).mono e2
      rw [hia] at this
      obtain ⟨k, hk1, a', hk2, hk3⟩ := this
      rw [← h]
      exact ⟨k, hk1, by rw [FromArgs.toTuple_get _ _ hv k a' hk2, strEq_eq _ _ hk3]⟩
    | cell s o =>
      have hnj := relax_nonjump v _ _ _ _ _ hal hrelax j ins hi (by simp [hia, isJump])
      rw [ha] at hnj
      have := (hargs j ins a hi hnj.symm).mono e2
      rw [hia] at this
      obtain ⟨k, hk1, a', hk2, hk3⟩ := this
      rw [← h]
      exact ⟨k, hk1, by rw [FromArgs.toTuple_get _ _ hc k a' hk2, strEq_eq _ _ hk3]⟩
    | const c o =>
      have hnj := relax_nonjump v _ _ _ _ _ hal hrelax j ins hi (by simp [hia, isJump])
      rw [ha] at hnj
      have := (hargs j ins a hi hnj.symm).mono e2
      rw [hia] at this
      obtain ⟨k, hk1, a', hk2, hk3⟩ := this
      rw [← h]
      exact ⟨k, a', hk1, FromArgs.toTuple_get _ _ hk k a' hk2, hk3⟩
    | _ => trivial
  · obtain ⟨hknown, _, _⟩ := collectCells_known _ _ _ hcv
    have hk1 : CellsKnown cv (blocks.flatten.map Instr.arg) := fun s o hm => hknown s o (List.mem_append.mpr (Or.inl hm))
    have hk2 : CellsKnown cv addArgs := fun s o hm => hknown s o (List.mem_append.mpr (Or.inr hm))
    obtain ⟨l1, p1, q1, f1⟩ := resolveArgs_cells tp fv _ { st0 with cellvars := cv } st1 args0 hk1 hres
    have hk2' : CellsKnown st1.cellvars addArgs := fun s o hm => CellKnown.mono p1 q1 (hk2 s o hm)
    have l2 := addAdditional_cells tp fv _ _ _ hk2' hadd
    have hlen : cellvars.length = cv.len := by rw [toTuple_length _ _ hc, l2, l1]
    intro j ins s a hi hia ha
    have hnj := relax_nonjump v _ _ _ _ _ hal hrelax j ins hi (by simp [hia, isJump])
    rw [ha] at hnj
    obtain ⟨idx, h3, h4⟩ := f1 j ins s a hi hia hnj.symm
    rw [← h]
    exact ⟨idx, h3, by rw [h4, hlen]⟩
  · intro j ins n a hi hia ha
    have hnj := relax_nonjump v _ _ _ _ _ hal hrelax j ins hi (by simp [hia, isJump])
    rw [ha] at hnj
    exact resolveArgs_raw tp fv _ _ _ _ hres j ins n a hi hia hnj.symm
  · unfold finalArgs
    simp only [h0, hcv, hres, hrelax, bind, Except.bind]

theorem blocksToBytes_spec (v : Ver) (blocks : List (List Instr)) (addArgs : List Arg) (fv : List PStr) (tp : Option Function)
    (out : BlocksOut) (h : blocksToBytes v blocks addArgs fv tp = .ok out) :
    ∃ (args0 args : List Int) (fuel : Nat), blocks.flatten.length = args0.length ∧
      relax v blocks.flatten (blockStarts blocks 0) fuel args0 = .ok args ∧
      out.code = (emit blocks.flatten args 0).1 ∧ out.lm = ⟨(emit blocks.flatten args 0).2.1, (emit blocks.flatten args 0).2.2⟩ ∧
      args.length = blocks.flatten.length ∧
      (∀ (j : Nat) (ins : Instr) (a : Int), blocks.flatten[j]? = some ins → args[j]? = some a → OperandInTables out ins.arg a) ∧
      (∀ (j : Nat) (ins : Instr) (s : PStr) (a : Int), blocks.flatten[j]? = some ins → ins.arg = .free s → args[j]? = some a →
        ∃ idx, indexOfStr s fv = some idx ∧ a = ((out.cellvars.length + idx : Nat) : Int)) ∧
      (∀ (j : Nat) (ins : Instr) (n a : Int), blocks.flatten[j]? = some ins → ins.arg = .raw n → args[j]? = some a → a = n) :=
  let ⟨a0, a, f, h1, h2, h3, h4, h5, h6, h7, h8, _⟩ := blocksToBytes_spec' v blocks addArgs fv tp out h
  ⟨a0, a, f, h1, h2, h3, h4, h5, h6, h7, h8⟩

end CDV

namespace CDV
open CDV.Props.C09 (keyEquiv_str keyEquiv_const)

/-- the data is well-kinded: every instruction's operand is of the kind its opcode takes -/
def KindOK (T : OpTable) (ins : Instr) : Prop :=
  match T.get ins.op with
  | .jabs => ∃ t, ins.arg = .jump t false
  | .jrel => ∃ t, ins.arg = .jump t true
  | .name => ∃ s o, ins.arg = .name s o
  | .loc => ∃ s o, ins.arg = .varname s o
  | .free => (∃ s o, ins.arg = .cell s o) ∨ (∃ s, ins.arg = .free s)
  | .const => ∃ c o, ins.arg = .const c o
  | .noarg => ∃ n, ins.arg = .noarg n
  | .raw => ∃ n, ins.arg = .raw n
  | .ext => False

/-- CPython's reading `s` of an assembled instruction says what the data's operand `a` says
    (constants up to `constant_key`; `outConsts` = the constants table that was emitted) -/
def ArgSays (starts : List Nat) (outConsts : List Const) (a : Arg) (s : Spec.SArg) : Prop :=
  match s with
  | .raw n => a = .raw n
  | .jump idx rel => ∃ t, a = .jump t rel ∧ idx.isSome ∧ starts[t]? = idx
  | .name x => ∃ o, a = .name x o
  | .loc x => ∃ o, a = .varname x o
  | .cell x => ∃ o, a = .cell x o
  | .free x => a = .free x
  | .constInner c' => ∃ c o, a = .const (.inner c) o ∧ InnerConst.keyEq c c' = true
  | .constCode idx => ∃ d d' o, a = .const (.code d) o ∧ outConsts[idx]? = some (.code d') ∧ CodeData.beq d d' = true
  | .noarg => ∃ n, a = .noarg n
  | .bad => False

theorem indexOfStr_get (s : PStr) : ∀ (l : List PStr) (i : Nat), indexOfStr s l = some i → l[i]? = some s := by
  intro l
  induction l with
  | nil => intro i h; simp [indexOfStr] at h
  | cons y ys ih =>
    intro i h
    simp only [indexOfStr] at h
    split at h
    · next heq => simp only [Option.some.injEq] at h; subst h; simp; exact (by simpa using heq : s = y).symm
    · cases hr : indexOfStr s ys with
      | none => simp [hr] at h
      | some k => simp only [hr, Option.map_some, Option.some.injEq] at h; subst h; simpa using ih k hr

/-- one assembled instruction: what CPython resolves is what the data says -/
theorem argSays_of_tables (v : Ver) (T : OpTable) (offs starts : List Nat) (fv : List PStr) (out : BlocksOut) (consts' : List RConst)
    (ins : Instr) (a : Int) (nxt : Nat) (hkind : KindOK T ins)
    (hops : OperandInTables out ins.arg a)
    (hfree : ∀ s, ins.arg = .free s → ∃ idx, indexOfStr s fv = some idx ∧ a = ((out.cellvars.length + idx : Nat) : Int))
    (hconst : ∀ (k : Nat) (c : Const), out.consts[k]? = some c →
      match c with | .inner i => consts'[k]? = some (.inner i) | .code _ => ∃ r, consts'[k]? = some (.code r))
    (hjump : ∀ t rel, ins.arg = .jump t rel → ∃ s, starts[t]? = some s ∧
      Spec.idxOfOffset offs (if rel then (nxt : Int) + specMult v * a else specMult v * a) = some s)
    (hraw : ∀ n, ins.arg = .raw n → a = n) :
    ArgSays starts out.consts ins.arg (specArg v T offs out.names out.varnames fv out.cellvars consts' ins.op a nxt) := by
  unfold KindOK at hkind
  unfold specArg
  cases hc : T.get ins.op <;> simp only [hc] at hkind ⊢
  · obtain ⟨t, ht⟩ := hkind
    obtain ⟨s, hs1, hs2⟩ := hjump t false ht
    simp only [Bool.false_eq_true, if_false, specMult] at hs2
    rw [hs2, ht]
    exact ⟨t, rfl, rfl, hs1⟩
  · obtain ⟨t, ht⟩ := hkind
    obtain ⟨s, hs1, hs2⟩ := hjump t true ht
    simp only [if_true, specMult] at hs2
    rw [hs2, ht]
    exact ⟨t, rfl, rfl, hs1⟩
  · obtain ⟨s, o, hs⟩ := hkind
    rw [hs] at hops
    obtain ⟨k, hk1, hk2⟩ := hops
    have : Spec.getStr out.names a = some s := by rw [hk1]; simp [Spec.getStr, hk2]
    rw [this, hs]; exact ⟨o, rfl⟩
  · obtain ⟨s, o, hs⟩ := hkind
    rw [hs] at hops
    obtain ⟨k, hk1, hk2⟩ := hops
    have : Spec.getStr out.varnames a = some s := by rw [hk1]; simp [Spec.getStr, hk2]
    rw [this, hs]; exact ⟨o, rfl⟩
  · rcases hkind with ⟨s, o, hs⟩ | ⟨s, hs⟩
    · rw [hs] at hops
      obtain ⟨k, hk1, hk2⟩ := hops
      have hlt : k < out.cellvars.length := (List.getElem?_eq_some_iff.mp hk2).1
      rw [hk1]
      have h0 : ¬ ((k : Int) < 0) := by omega
      simp only [h0, if_false, Int.toNat_natCast, hlt, if_true, hk2, hs]
      exact ⟨o, rfl⟩
    · obtain ⟨idx, h1, h2⟩ := hfree s hs
      rw [h2]
      have h0 : ¬ (((out.cellvars.length + idx : Nat) : Int) < 0) := by omega
      have hge : ¬ (out.cellvars.length + idx < out.cellvars.length) := by omega
      simp only [h0, if_false, Int.toNat_natCast, hge]
      rw [show out.cellvars.length + idx - out.cellvars.length = idx by omega, indexOfStr_get s fv idx h1, hs]
      simp only [ArgSays]
  · obtain ⟨c, o, hs⟩ := hkind
    rw [hs] at hops
    obtain ⟨k, c', hk1, hk2, hk3⟩ := hops
    rw [hk1]
    have h0 : ¬ ((k : Int) < 0) := by omega
    simp only [h0, if_false, Int.toNat_natCast]
    have hk := hconst k c' hk2
    cases c' with
    | inner i' =>
      simp only at hk
      rw [hk, hs]
      cases c with
      | inner i => exact ⟨i, o, rfl, by simpa [Const.keyEq] using hk3⟩
      | code d => simp [Const.keyEq] at hk3
    | code d' =>
      obtain ⟨r, hr⟩ := hk
      rw [hr, hs]
      cases c with
      | inner i => simp [Const.keyEq] at hk3
      | code d => exact ⟨d, d', o, rfl, hk2, by simpa [Const.keyEq] using hk3⟩
  · obtain ⟨n, hn⟩ := hkind; rw [hn]; exact ⟨n, rfl⟩
  · obtain ⟨n, hn⟩ := hkind; rw [hn, hraw n hn]; simp only [ArgSays]

end CDV

namespace CDV

/-- **CPython reads the code object `to_code()` builds as the data says.**  For every well-kinded data whose operands fit
    their widths: the code object assembled from `blocks_to_bytes`' bytes and tables, the line table written from its
    per-code-unit lines (data without a trailing extra line entry) and the encoded constants is read by CPython
    (`Spec.read`) as exactly one instruction per instruction of the data, in order, with the data's opcode, the data's
    line (`None` iff no line), and an operand that says what the data's operand says (`ArgSays`): the same name, local,
    cell or free variable, a constant with the same `constant_key`, the same raw operand, or a jump of the same kind to
    the first instruction of the data's target block. -/
theorem encode_reads_like_data (v : Ver) (T : OpTable) (blocks : List (List Instr)) (addArgs : List Arg) (fv : List PStr)
    (tp : Option Function) (out : BlocksOut) (h : blocksToBytes v blocks addArgs fv tp = .ok out)
    (enc : CodeData → R RawCode) (consts' : List RConst)
    (hconsts : out.consts.mapM (fun c => match c with | .inner i => pure (RConst.inner i) | .code d => RConst.code <$> enc d) = .ok consts')
    (fln : Int) (table : List Nat)
    (htable : LT.fromLineMapping v.is310 ⟨out.lm.lines.map (fun p => (p.1, p.2.map (· - fln))), out.lm.extra⟩ = .ok table)
    (argc pos kw nl ss fl : Nat) (fname name : PStr)
    (hkind : ∀ ins ∈ blocks.flatten, KindOK T ins) (hopb : ∀ ins ∈ blocks.flatten, ins.op < 256)
    (henc : ∀ args, finalArgs v blocks addArgs fv tp = .ok args → ∀ p ∈ blocks.flatten.zip args, Encodable p.1 p.2)
    (hst : ∀ s ∈ blockStarts blocks 0, s < blocks.flatten.length) (hne : blocks.flatten ≠ [])
    (hlines : v.is310 = false → ∀ ins ∈ blocks.flatten, ins.line.isSome) :
    (Spec.read v T (.mk argc pos kw nl ss fl fln out.code table fname name out.names out.varnames fv out.cellvars consts')).length
      = blocks.flatten.length ∧
    ∀ (j : Nat) (ins : Instr) (s : Spec.SInstr), blocks.flatten[j]? = some ins →
      (Spec.read v T (.mk argc pos kw nl ss fl fln out.code table fname name out.names out.varnames fv out.cellvars consts'))[j]? = some s →
      s.op = ins.op ∧ s.line = ins.line ∧ ArgSays (blockStarts blocks 0) out.consts ins.arg s.arg := by
  obtain ⟨args0, args, fuel, hal, hrelax, hcode, hlm, hlen, hops, hfree, hraw, hfinal⟩ := blocksToBytes_spec' v blocks addArgs fv tp out h
  have hencA := henc args hfinal
  have hl' : blocks.flatten.length = args.length := hlen.symm
  rw [read_eq, hcode, read_emit blocks.flatten args hl' hencA hopb]
  -- offsets CPython sees
  have hoffs : ((rawsOf blocks.flatten args 0).map RawI.proj).map (·.1) = (rawsOf blocks.flatten args 0).map (·.first) := by
    rw [List.map_map]; rfl
  obtain ⟨hcl, hcget⟩ := mapM_get _ out.consts consts' hconsts
  have hconstrel : ∀ (k : Nat) (c : Const), out.consts[k]? = some c →
      match c with | .inner i => consts'[k]? = some (.inner i) | .code _ => ∃ r, consts'[k]? = some (.code r) := by
    intro k c hk
    obtain ⟨b, hb1, hb2⟩ := hcget k c hk
    cases c with
    | inner i => simp only [pure, Except.pure, Except.ok.injEq] at hb2; rw [hb1, ← hb2]
    | code d =>
      simp only [Functor.map, Except.map] at hb2
      cases hdk : enc d with
      | error e => rw [hdk] at hb2; cases hb2
      | ok r => rw [hdk] at hb2; simp only [Except.ok.injEq] at hb2; exact ⟨r, by rw [hb1, ← hb2]⟩
  -- jumps: where CPython lands
  have hland := jumps_land v blocks.flatten (blockStarts blocks 0) fuel args0 args hal hrelax hencA hopb hst
  rw [read_emit blocks.flatten args hl' hencA hopb] at hland
  obtain ⟨hrdlen, hjumps⟩ := hland
  -- the line table
  have hlinesAll : ∀ (j : Nat) (ins : Instr), blocks.flatten[j]? = some ins →
      Spec.lineOf v table fln (2 * psum (szs blocks.flatten args) 0 j) = ins.line := by
    have hlmlines : out.lm.lines = (emit blocks.flatten args 0).2.1 := by rw [hlm]
    have hlmextra : out.lm.extra = (emit blocks.flatten args 0).2.2 := by rw [hlm]
    rw [hlmlines] at htable
    cases hv : v.is310 with
    | true =>
      have hv' : v = .v310 := by cases v <;> simp [Ver.is310] at hv ⊢
      subst hv'
      obtain ⟨table', ht', hall⟩ := encode_lines_310 blocks.flatten args fln out.lm.extra hl' hne
      have : table' = table := by
        have e : LT.fromLineMapping true ⟨(emit blocks.flatten args 0).2.1.map (fun p => (p.1, p.2.map (· - fln))), out.lm.extra⟩ = .ok table := htable
        rw [ht'] at e; simpa using e
      subst this
      exact hall
    | false =>
      obtain ⟨table', ht', hall⟩ := encode_lines_lnotab v hv blocks.flatten args fln out.lm.extra hl' (hlines hv)
      have : table' = table := by
        have e : LT.fromLineMapping v.is310 ⟨(emit blocks.flatten args 0).2.1.map (fun p => (p.1, p.2.map (· - fln))), out.lm.extra⟩ = .ok table := htable
        rw [hv, ht'] at e; simpa using e
      subst this
      exact hall
  refine ⟨by rw [List.length_map, List.length_map, rawsOf_length _ _ _ hl'], ?_⟩
  intro j ins s hi hs
  have hj : j < blocks.flatten.length := (List.getElem?_eq_some_iff.mp hi).1
  have haj : args[j]? = some (args[j]'(by omega)) := List.getElem?_eq_getElem (by omega)
  have hraw' := rawsOf_get blocks.flatten args 0 j ins _ hl' hi haj
  rw [List.getElem?_map, List.getElem?_map, hraw'] at hs
  simp only [Option.map_some, Option.some.injEq] at hs
  subst hs
  simp only [RawI.proj, Nat.zero_add]
  refine ⟨trivial, hlinesAll j ins hi, ?_⟩
  apply argSays_of_tables v T _ (blockStarts blocks 0) fv out consts' ins _ _ (hkind ins (List.mem_of_getElem? hi))
    (hops j ins _ hi haj) (fun s hs => hfree j ins s _ hi hs haj) hconstrel
  · intro t rel hia
    obtain ⟨s, first, arg, nxt, hs1, hs2, hs3⟩ := hjumps j ins t rel hi hia
    rw [List.getElem?_map, hraw'] at hs2
    simp only [Option.map_some, Option.some.injEq, RawI.proj, Prod.mk.injEq, Nat.zero_add] at hs2
    obtain ⟨rfl, _, rfl, rfl⟩ := hs2
    exact ⟨s, hs1, hs3⟩
  · intro n hia
    exact hraw j ins n _ hi hia haj

end CDV
