import CDV.Spec
/-! `args_from_input` against CPython's binding rules (helper lemmas for C04) -/
namespace CDV

theorem odictInsert_notMem (k : PStr) (v : Kind) : ∀ (acc : List (PStr × Kind)), k ∉ acc.map Prod.fst →
    odictInsert k v acc = acc ++ [(k, v)]
  | [], _ => rfl
  | (k', v') :: r, h => by
    simp only [List.map_cons, List.mem_cons, not_or] at h
    have hne : (k == k') = false := by simpa using h.1
    simp [odictInsert, hne, odictInsert_notMem k v r h.2]

theorem odict_foldl_nodup : ∀ (l acc : List (PStr × Kind)), ((acc ++ l).map Prod.fst).Nodup →
    l.foldl (fun acc kv => odictInsert kv.1 kv.2 acc) acc = acc ++ l
  | [], acc, _ => by simp
  | (k, v) :: r, acc, h => by
    have hk : k ∉ acc.map Prod.fst := by
      simp only [List.map_append, List.map_cons] at h
      have := (List.nodup_append.mp h).2.2
      intro hm
      exact this k hm k (by simp) rfl
    simp only [List.foldl_cons]
    rw [odictInsert_notMem k v acc hk]
    have := odict_foldl_nodup r (acc ++ [(k, v)]) (by simpa using h)
    simpa using this

/-- an `OrderedDict` built from pairs with distinct keys lists exactly those pairs, in order -/
theorem odict_nodup (l : List (PStr × Kind)) (h : (l.map Prod.fst).Nodup) : odict l = l := by
  have := odict_foldl_nodup l [] (by simpa using h)
  simpa [odict] using this

theorem drop_cons_of_lt {α} (l : List α) (n : Nat) (h : n < l.length) : ∃ x r, l.drop n = x :: r := by
  match hd : l.drop n with
  | [] => simp at hd; omega
  | x :: r => exact ⟨x, r, rfl⟩

/-- `args_from_input` succeeds whenever `co_varnames` is long enough, and the pairs it hands to
    `OrderedDict` are CPython's binding of the names, in `inspect.signature` order -/
theorem argsFromInput_raw (argc pos kw : Nat) (varnames : List PStr) (varargs varkw : Bool)
    (hpos : pos ≤ argc)
    (hlen : argc + kw + (if varargs then 1 else 0) + (if varkw then 1 else 0) ≤ varnames.length)
    :
    ∃ a, argsFromInput ⟨argc, pos, kw, varnames, varargs, varkw⟩ = .ok a ∧
      a.parametersRaw = Spec.sigCore argc pos kw varnames varargs varkw := by
  obtain ⟨k, rfl⟩ : ∃ k, argc = pos + k := ⟨argc - pos, by omega⟩
  have hlt : ¬ pos + k < pos := by omega
  have hsub : pos + k - pos = k := by omega
  cases varargs <;> cases varkw
  · -- no *args, no **kw
    refine ⟨⟨varnames.take pos, (varnames.drop pos).take k, none, ((varnames.drop pos).drop k).take kw, none⟩, ?_, ?_⟩
    · simp [argsFromInput, hlt, hsub, pure, Except.pure, bind, Except.bind]
    · simp [Args.parametersRaw, Spec.sigCore, optName, List.take_drop, List.drop_drop, List.map_take, List.map_drop]
  · -- **kw only
    obtain ⟨x, r, hx⟩ := drop_cons_of_lt varnames (pos + k + kw) (by simp at hlen; omega)
    refine ⟨⟨varnames.take pos, (varnames.drop pos).take k, none, ((varnames.drop pos).drop k).take kw, some x⟩, ?_, ?_⟩
    · have : List.drop kw (List.drop k (List.drop pos varnames)) = x :: r := by
        simpa [List.drop_drop, Nat.add_comm, Nat.add_left_comm, Nat.add_assoc] using hx
      simp [argsFromInput, hlt, hsub, pure, Except.pure, bind, Except.bind, this, hx]
    · simp [Args.parametersRaw, Spec.sigCore, optName, List.take_drop, List.drop_drop, List.map_take, List.map_drop, hx]
  · -- *args only
    obtain ⟨x, r, hx⟩ := drop_cons_of_lt varnames (pos + k + kw) (by simp at hlen; omega)
    refine ⟨⟨varnames.take pos, (varnames.drop pos).take k, some x, ((varnames.drop pos).drop k).take kw, none⟩, ?_, ?_⟩
    · have : List.drop kw (List.drop k (List.drop pos varnames)) = x :: r := by
        simpa [List.drop_drop, Nat.add_comm, Nat.add_left_comm, Nat.add_assoc] using hx
      simp [argsFromInput, hlt, hsub, pure, Except.pure, bind, Except.bind, this, hx]
    · simp [Args.parametersRaw, Spec.sigCore, optName, List.take_drop, List.drop_drop, List.map_take, List.map_drop, hx]
  · -- both
    obtain ⟨x, r, hx⟩ := drop_cons_of_lt varnames (pos + k + kw) (by simp at hlen; omega)
    obtain ⟨y, r', hy⟩ := drop_cons_of_lt varnames (pos + k + kw + 1) (by simp at hlen; omega)
    have hr : r = y :: r' := by
      have : varnames.drop (pos + k + kw + 1) = (varnames.drop (pos + k + kw)).drop 1 := by simp [List.drop_drop]
      rw [this, hx] at hy; simpa using hy
    refine ⟨⟨varnames.take pos, (varnames.drop pos).take k, some x, ((varnames.drop pos).drop k).take kw, some y⟩, ?_, ?_⟩
    · have : List.drop kw (List.drop k (List.drop pos varnames)) = x :: y :: r' := by
        rw [← hr]; simpa [List.drop_drop, Nat.add_comm, Nat.add_left_comm, Nat.add_assoc] using hx
      have hx' : List.drop (pos + k + kw) varnames = x :: y :: r' := by rw [hx, hr]
      simp [argsFromInput, hlt, hsub, pure, Except.pure, bind, Except.bind, this, hx']
    · simp [Args.parametersRaw, Spec.sigCore, optName, List.take_drop, List.drop_drop,
        List.map_take, List.map_drop, hx, hy]

end CDV
