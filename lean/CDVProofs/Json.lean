import CDV.Json
/-! JSON round trip: `from_json_data (to_json_data x) = x` up to the identification of NaNs (helper lemmas for C07) -/
namespace CDV

@[simp] theorem jget_fields_nil (k : String) : jget k (fields []) = none := rfl

@[simp] theorem jget_fields_some (k k' : String) (v : Json) (l : List (String × Option Json)) :
    jget k (fields ((k', some v) :: l)) = if k == k' then some v else jget k (fields l) := by
  simp [fields, jget]

@[simp] theorem jget_fields_none (k k' : String) (l : List (String × Option Json)) :
    jget k (fields ((k', none) :: l)) = jget k (fields l) := by
  simp [fields]

/-- canonical bit pattern of a float as it comes back from JSON: the infinities and one NaN -/
def canonF (bits : Nat) : Nat :=
  if isInf bits then (if bits < 2^63 then 0x7FF0000000000000 else 0xFFF0000000000000)
  else if isNaN bits then 0x7FF8000000000000 else bits

def SmallInt (i : Int) : Prop := MIN_INTEGER ≤ i ∧ i ≤ MAX_INTEGER

theorem jInt_small (i : Int) (h : SmallInt i) : jInt i = .int i := by
  unfold jInt
  have : ¬ (i < MIN_INTEGER ∨ i > MAX_INTEGER) := by unfold SmallInt at h; omega
  simp [this]

theorem intFromJson_jInt (i : Int) (h : SmallInt i) : intFromJson (jInt i) = .ok i := by
  rw [jInt_small i h]; rfl

theorem natFromJson_jNat (n : Nat) (h : SmallInt n) : natFromJson (jNat n) = .ok n := by
  simp [natFromJson, jNat, intFromJson_jInt _ h, bind, Except.bind, pure, Except.pure]

theorem strFromJson_jStr (s : PStr) : strFromJson (jStr s) = .ok s := by
  unfold jStr; split <;> simp [strFromJson, pure, Except.pure]

theorem strsFromJson_jStrs (xs : List PStr) : strsFromJson (jStrs xs) = .ok xs := by
  simp only [jStrs, strsFromJson]
  induction xs with
  | nil => rfl
  | cons x xs ih => simp [List.mapM_cons, strFromJson_jStr, ih, bind, Except.bind, pure, Except.pure]

theorem floatFromJson_jFloat (b : Nat) : floatFromJson (jFloat b) = .ok (canonF b) := by
  unfold jFloat canonF
  by_cases h1 : isInf b = true
  · by_cases h2 : b < 2^63 <;> simp [h1, h2, floatFromJson, pure, Except.pure]
  · by_cases h3 : isNaN b = true <;> simp [h1, h3, floatFromJson, pure, Except.pure]

mutual
def canonInner : InnerConst → InnerConst
  | .float b => .float (canonF b)
  | .complex r i => .complex (canonF r) (canonF i)
  | .tuple xs => .tuple (canonInners xs)
  | .fset xs => .fset (canonInners xs)
  | c => c
def canonInners : List InnerConst → List InnerConst
  | [] => []
  | x :: xs => canonInner x :: canonInners xs
end

theorem innerFromJson_jInt (i : Int) : innerFromJson (jInt i) = .ok (.int i) := by
  unfold jInt; split <;> simp [innerFromJson, pure, Except.pure]

theorem innerFromJson_jFloat (b : Nat) : innerFromJson (jFloat b) = .ok (.float (canonF b)) := by
  unfold jFloat canonF
  by_cases h1 : isInf b = true
  · by_cases h2 : b < 2^63 <;> simp [h1, h2, innerFromJson, pure, Except.pure]
  · by_cases h3 : isNaN b = true <;> simp [h1, h3, innerFromJson, pure, Except.pure]

theorem innerFromJson_jStr (s : PStr) : innerFromJson (jStr s) = .ok (.str s) := by
  unfold jStr; split <;> simp [innerFromJson, pure, Except.pure]

mutual
theorem innerFromJson_jInner : ∀ c, innerFromJson (jInner c) = .ok (canonInner c)
  | .none => by simp [jInner, innerFromJson, canonInner, pure, Except.pure]
  | .ellipsis => by simp [jInner, innerFromJson, canonInner, pure, Except.pure]
  | .bool b => by simp [jInner, innerFromJson, canonInner, pure, Except.pure]
  | .int i => by simp [jInner, innerFromJson_jInt, canonInner]
  | .float b => by simp [jInner, innerFromJson_jFloat, canonInner]
  | .complex r i => by
    simp [jInner, innerFromJson, floatFromJson_jFloat, canonInner, bind, Except.bind, pure, Except.pure]
  | .str s => by simp [jInner, innerFromJson_jStr, canonInner]
  | .bytes h => by simp [jInner, innerFromJson, canonInner, pure, Except.pure]
  | .tuple xs => by
    simp [jInner, innerFromJson, innersFromJson_jInners xs, canonInner, Functor.map, Except.map]
  | .fset xs => by
    simp [jInner, innerFromJson, innersFromJson_jInners xs, canonInner, Functor.map, Except.map]
theorem innersFromJson_jInners : ∀ xs, innersFromJson (jInners xs) = .ok (canonInners xs)
  | [] => by simp [jInners, innersFromJson, canonInners, pure, Except.pure]
  | x :: xs => by
    simp [jInners, innersFromJson, innerFromJson_jInner x, innersFromJson_jInners xs, canonInners, bind, Except.bind, pure, Except.pure]
end

/-! ### the dataclass layer -/

theorem optField_none {α} (k : String) (kvs : List (String × Json)) (f : Json → R α) (h : jget k kvs = none) :
    optField k kvs f = .ok none := by simp [optField, h, pure, Except.pure]

theorem optField_some {α} (k : String) (kvs : List (String × Json)) (f : Json → R α) (j : Json) (a : α)
    (h : jget k kvs = some j) (hf : f j = .ok a) : optField k kvs f = .ok (some a) := by
  simp [optField, h, hf, Functor.map, Except.map]

def SmallOpt (o : Option Nat) : Prop := ∀ n, o = some n → SmallInt n

theorem optNat_roundtrip (k : String) (rest : List (String × Option Json)) (pre : List (String × Json)) (o : Option Nat) (h : SmallOpt o)
    (kvs : List (String × Json)) (hk : jget k kvs = o.map jNat) :
    optNatField k kvs = .ok o := by
  cases o with
  | none => exact optField_none _ _ _ (by simpa using hk)
  | some n => exact optField_some _ _ _ _ _ (by simpa using hk) (natFromJson_jNat n (h n rfl))

theorem intsFromJson_jInts (xs : List Int) (h : ∀ x ∈ xs, SmallInt x) : intsFromJson (jInts xs) = .ok xs := by
  simp only [jInts, intsFromJson]
  induction xs with
  | nil => rfl
  | cons x xs ih =>
    simp [List.mapM_cons, intFromJson_jInt x (h x (by simp)), ih (fun y hy => h y (by simp [hy])), bind, Except.bind, pure, Except.pure]

theorem jget_fields_cons (k k' : String) (o : Option Json) (l : List (String × Option Json)) :
    jget k (fields ((k', o) :: l)) = if k == k' then o.or (jget k (fields l)) else jget k (fields l) := by
  cases o with
  | none => simp
  | some v => simp

theorem optField_strs (k : String) (kvs : List (String × Json)) (xs : List PStr)
    (h : jget k kvs = nonEmpty xs (jStrs xs)) : (optField k kvs strsFromJson).map (·.getD []) = .ok xs := by
  cases xs with
  | nil => simp [nonEmpty] at h; simp [optField, h, pure, Except.pure, Except.map]
  | cons x xs => simp [nonEmpty] at h; simp [optField, h, strsFromJson_jStrs, Functor.map, Except.map]

theorem optField_str (k : String) (kvs : List (String × Json)) (o : Option PStr)
    (h : jget k kvs = o.map jStr) : optField k kvs strFromJson = .ok o := by
  cases o with
  | none => simp at h; simp [optField, h, pure, Except.pure]
  | some s => simp at h; simp [optField, h, strFromJson_jStr, Functor.map, Except.map]

macro "jg" : tactic => `(tactic| simp [jget_fields_cons])

theorem argsFromJson_jArgs (a : Args) : (match jArgs a with | .obj k => argsFromJson k | _ => throw Err.raised) = .ok a := by
  obtain ⟨po, pk, vp, ko, vk⟩ := a
  simp only [jArgs, argsFromJson]
  generalize hk : fields [("positional_only", nonEmpty po (jStrs po)), ("positional_or_keyword", nonEmpty pk (jStrs pk)),
      ("var_positional", vp.map jStr), ("keyword_only", nonEmpty ko (jStrs ko)), ("var_keyword", vk.map jStr)] = kvs
  have h1 := optField_strs "positional_only" kvs po (by subst hk; jg)
  have h2 := optField_strs "positional_or_keyword" kvs pk (by subst hk; jg)
  have h3 := optField_str "var_positional" kvs vp (by subst hk; jg)
  have h4 := optField_strs "keyword_only" kvs ko (by subst hk; jg)
  have h5 := optField_str "var_keyword" kvs vk (by subst hk; jg)
  revert h1 h2 h4
  cases optField "positional_only" kvs strsFromJson <;> cases optField "positional_or_keyword" kvs strsFromJson <;>
    cases optField "keyword_only" kvs strsFromJson <;> simp [Except.map, h3, h5, bind, Except.bind, pure, Except.pure]
  intro h1 h2 h4; simp [h1, h2, h4]

theorem fnTypeFromJson_lit (t : FnType) : fnTypeFromJson (.lit (jFnType t)) = .ok t := by
  cases t <;> simp [jFnType, fnTypeFromJson, pure, Except.pure]

theorem functionFromJson_jFunction (f : Function) : functionFromJson (jFunction f) = .ok f := by
  obtain ⟨a, d, t⟩ := f
  simp only [jFunction, functionFromJson]
  generalize hk : fields [("args", if (a == ({} : Args)) = true then none else some (jArgs a)), ("docstring", d.map jStr),
      ("type", t.map (fun t => Json.lit (jFnType t)))] = kvs
  have h2 := optField_str "docstring" kvs d (by subst hk; jg)
  have h3 : optField "type" kvs fnTypeFromJson = .ok t := by
    subst hk
    cases t with
    | none => simp [optField, jget_fields_cons, pure, Except.pure]
    | some t => simp [optField, jget_fields_cons, fnTypeFromJson_lit, Functor.map, Except.map]
  have h1 : (optField "args" kvs (fun j => match j with | .obj k => argsFromJson k | _ => throw Err.raised)).map (·.getD {}) = .ok a := by
    subst hk
    by_cases he : (a == ({} : Args)) = true
    · have : a = {} := by simpa using he
      simp [optField, jget_fields_cons, he, this, pure, Except.pure, Except.map]
    · have hh := argsFromJson_jArgs a
      simp only [jArgs] at hh
      simp [optField, jget_fields_cons, he, jArgs, hh, Functor.map, Except.map]
  revert h1
  cases optField "args" kvs (fun j => match j with | .obj k => argsFromJson k | _ => throw Err.raised) <;>
    simp [Except.map, h2, h3, bind, Except.bind, pure, Except.pure]

def SmallOptI (o : Option Int) : Prop := ∀ n, o = some n → SmallInt n

theorem addLineFromJson_jAddLine (a : AdditionalLine) (h1 : SmallOptI a.line) (h2 : ∀ x ∈ a.offs, SmallInt x) :
    addLineFromJson (jAddLine a) = .ok a := by
  obtain ⟨l, o⟩ := a
  have e2 : ∀ lj, (optField "additional_offsets" (fields [("line", some lj), ("additional_offsets", nonEmpty o (jInts o))]) intsFromJson).map (·.getD []) = .ok o := by
    intro lj
    cases o with
    | nil => simp [optField, jget_fields_cons, nonEmpty, pure, Except.pure, Except.map]
    | cons x xs => simp [optField, jget_fields_cons, nonEmpty, intsFromJson_jInts _ h2, Functor.map, Except.map]
  cases l with
  | none =>
    have e := e2 Json.null
    simp only [jAddLine, addLineFromJson]
    revert e
    simp only [jget_fields_cons]
    cases optField "additional_offsets" _ intsFromJson <;> simp [Except.map, bind, Except.bind, pure, Except.pure]
  | some l =>
    have hs := jInt_small l (h1 l rfl)
    have e := e2 (Json.int l)
    simp only [jAddLine, addLineFromJson, hs]
    revert e
    simp only [jget_fields_cons]
    cases optField "additional_offsets" _ intsFromJson <;> simp [intFromJson, Except.map, bind, Except.bind, pure, Except.pure, Functor.map]

/-! ### CodeData -/

mutual
def canonConst : Const → Const
  | .inner c => .inner (canonInner c)
  | .code d => .code (canonCode d)
def canonArg : Arg → Arg
  | .const c o => .const (canonConst c) o
  | a => a
def canonInstr : Instr → Instr
  | .mk op a n l o => .mk op (canonArg a) n l o
def canonInstrs : List Instr → List Instr
  | [] => []
  | i :: is => canonInstr i :: canonInstrs is
def canonBlocks : List (List Instr) → List (List Instr)
  | [] => []
  | b :: bs => canonInstrs b :: canonBlocks bs
def canonArgList : List Arg → List Arg
  | [] => []
  | a :: as => canonArg a :: canonArgList as
/-- the data as it comes back from JSON: every NaN is the one NaN, the infinities are the two infinities -/
def canonCode : CodeData → CodeData
  | .mk bl fname fl name ss tp fv fut nested al aa => .mk (canonBlocks bl) fname fl name ss tp fv fut nested al (canonArgList aa)
end

mutual
/-- the integers outside constants are JSON-safe (they come from C ints), additional args are table entries -/
def WfConst : Const → Prop
  | .inner _ => True
  | .code d => WfCode d
def WfArg : Arg → Prop
  | .raw n => SmallInt n
  | .jump t _ => SmallInt t
  | .name _ o => SmallOpt o
  | .varname _ o => SmallOpt o
  | .const c o => WfConst c ∧ SmallOpt o
  | .free _ => True
  | .cell _ o => SmallOpt o
  | .noarg a => SmallInt a
def WfInstr : Instr → Prop
  | .mk _ a n l o => WfArg a ∧ SmallOpt n ∧ SmallOptI l ∧ ∀ x ∈ o, SmallInt x
def WfInstrs : List Instr → Prop
  | [] => True
  | i :: is => WfInstr i ∧ WfInstrs is
def WfBlocks : List (List Instr) → Prop
  | [] => True
  | b :: bs => WfInstrs b ∧ WfBlocks bs
def WfAddArgs : List Arg → Prop
  | [] => True
  | a :: as => (WfArg a ∧ (match a with | .name .. => True | .varname .. => True | .cell .. => True | .const .. => True | _ => False)) ∧ WfAddArgs as
def WfCode : CodeData → Prop
  | .mk bl _ fl _ ss _ _ _ _ al aa =>
    WfBlocks bl ∧ SmallInt fl ∧ SmallInt ss ∧ (∀ a, al = some a → SmallOptI a.line ∧ ∀ x ∈ a.offs, SmallInt x) ∧ WfAddArgs aa
end

theorem optNat_field (k : String) (kvs : List (String × Json)) (o : Option Nat) (h : SmallOpt o)
    (hk : jget k kvs = o.map jNat) : optNatField k kvs = .ok o := by
  cases o with
  | none => simp at hk; simp [optNatField, optField, hk, pure, Except.pure]
  | some n => simp at hk; simp [optNatField, optField, hk, natFromJson_jNat n (h n rfl), Functor.map, Except.map]

theorem argFromJson_name (s : PStr) (o : Option Nat) (h : SmallOpt o) : argFromJson (jArg (.name s o)) = .ok (.name s o) := by
  have := optNat_field "_index_override" (fields [("name", some (jStr s)), ("_index_override", o.map jNat)]) o h (by jg)
  simp [jArg, argFromJson, jhas, jget_fields_cons, strFromJson_jStr, this, bind, Except.bind, pure, Except.pure]

theorem argFromJson_varname (s : PStr) (o : Option Nat) (h : SmallOpt o) : argFromJson (jArg (.varname s o)) = .ok (.varname s o) := by
  have := optNat_field "_index_override" (fields [("varname", some (jStr s)), ("_index_override", o.map jNat)]) o h (by jg)
  simp [jArg, argFromJson, jhas, jget_fields_cons, strFromJson_jStr, this, bind, Except.bind, pure, Except.pure]

theorem argFromJson_cell (s : PStr) (o : Option Nat) (h : SmallOpt o) : argFromJson (jArg (.cell s o)) = .ok (.cell s o) := by
  have := optNat_field "_index_override" (fields [("cellvar", some (jStr s)), ("_index_override", o.map jNat)]) o h (by jg)
  simp [jArg, argFromJson, jhas, jget_fields_cons, strFromJson_jStr, this, bind, Except.bind, pure, Except.pure]

theorem argFromJson_free (s : PStr) : argFromJson (jArg (.free s)) = .ok (.free s) := by
  simp [jArg, argFromJson, jhas, jget_fields_cons, strFromJson_jStr, bind, Except.bind, pure, Except.pure]

theorem argFromJson_raw (n : Int) (h : SmallInt n) : argFromJson (jArg (.raw n)) = .ok (.raw n) := by
  simp [jArg, jInt_small n h, argFromJson, pure, Except.pure]

theorem argFromJson_jump (t : Nat) (r : Bool) (h : SmallInt t) : argFromJson (jArg (.jump t r)) = .ok (.jump t r) := by
  cases r <;>
    simp [jArg, argFromJson, jhas, jget_fields_cons, natFromJson_jNat t h, optField, boolFromJson, bind, Except.bind, pure, Except.pure, Functor.map, Except.map]

theorem argFromJson_noarg (a : Int) (h : SmallInt a) (hne : a ≠ 0) : argFromJson (jArg (.noarg a)) = .ok (.noarg a) := by
  have : (a == 0) = false := by simpa using hne
  simp [jArg, this, argFromJson, jhas, jget_fields_cons, intFromJson_jInt a h, bind, Except.bind, pure, Except.pure]

/-- a constant's JSON never has a "filename" key unless it is a code object -/
theorem jInner_not_code (c : InnerConst) : ∀ ckvs, jInner c = .obj ckvs → jhas "filename" ckvs = false := by
  intro ckvs h
  cases c with
  | none => simp [jInner] at h
  | ellipsis => simp [jInner] at h; subst h; rfl
  | bool b => simp [jInner] at h
  | int i => simp only [jInner, jInt] at h; split at h <;> simp at h; subst h; rfl
  | float b => simp only [jInner, jFloat] at h; split at h <;> (try split at h) <;> simp at h <;> (subst h; rfl)
  | complex r i => simp [jInner] at h; subst h; rfl
  | str s => simp only [jInner, jStr] at h; split at h <;> simp at h; subst h; rfl
  | bytes b => simp [jInner] at h; subst h; rfl
  | tuple xs => simp [jInner] at h
  | fset xs => simp [jInner] at h; subst h; rfl

theorem argFromJson_const_inner (c : InnerConst) (o : Option Nat) (h : SmallOpt o) :
    argFromJson (jArg (.const (.inner c) o)) = .ok (.const (.inner (canonInner c)) o) := by
  have hov := optNat_field "_index_override" (fields [("constant", some (jInner c)), ("_index_override", o.map jNat)]) o h (by jg)
  have hin := innerFromJson_jInner c
  have hnc := jInner_not_code c
  simp only [jArg, jConst]
  generalize hj : jInner c = j at hin hnc hov
  simp [argFromJson, jhas, jget_fields_cons, hov, bind, Except.bind, pure, Except.pure, Functor.map, Except.map]
  split
  · rename_i ckvs heq
    simp [jget_fields_cons] at heq
    subst heq
    have := hnc ckvs rfl
    simp [jhas] at this
    simp [this, hin]
  · rename_i j' hnot heq
    simp [jget_fields_cons] at heq
    subst heq
    simp [hin]
  · rename_i heq
    simp [jget_fields_cons] at heq

theorem jCodeData_has_filename (d : CodeData) : ∃ kvs, jCodeData d = .obj kvs ∧ jhas "filename" kvs = true := by
  cases d with
  | mk bl fname fl name ss tp fv fut nested al aa => exact ⟨_, rfl, by simp [jhas, jget_fields_cons]⟩

theorem argFromJson_const_code (d : CodeData) (o : Option Nat) (h : SmallOpt o) (d' : CodeData)
    (ih : codeDataFromJson (jCodeData d) = .ok d') :
    argFromJson (jArg (.const (.code d) o)) = .ok (.const (.code d') o) := by
  obtain ⟨kvs, hk, hf⟩ := jCodeData_has_filename d
  have hov := optNat_field "_index_override" (fields [("constant", some (jCodeData d)), ("_index_override", o.map jNat)]) o h (by jg)
  simp only [jArg, jConst]
  rw [hk] at ih hov ⊢
  simp [argFromJson, jhas, jget_fields_cons, hov, bind, Except.bind, pure, Except.pure, Functor.map, Except.map]
  split
  · rename_i ckvs heq
    simp [jget_fields_cons] at heq
    subst heq
    simp [jhas] at hf
    simp [hf, ih]
  · rename_i j' hnot heq
    simp [jget_fields_cons] at heq
    subst heq
    exact absurd rfl (hnot kvs)
  · rename_i heq
    simp [jget_fields_cons] at heq

theorem optInt_field (k : String) (kvs : List (String × Json)) (o : Option Int) (h : SmallOptI o)
    (hk : jget k kvs = o.map jInt) : optField k kvs intFromJson = .ok o := by
  cases o with
  | none => simp at hk; simp [optField, hk, pure, Except.pure]
  | some n => simp at hk; simp [optField, hk, intFromJson_jInt n (h n rfl), Functor.map, Except.map]

theorem optInts_field (k : String) (kvs : List (String × Json)) (xs : List Int) (h : ∀ x ∈ xs, SmallInt x)
    (hk : jget k kvs = nonEmpty xs (jInts xs)) : (optField k kvs intsFromJson).map (·.getD []) = .ok xs := by
  cases xs with
  | nil => simp [nonEmpty] at hk; simp [optField, hk, pure, Except.pure, Except.map]
  | cons x xs => simp [nonEmpty] at hk; simp [optField, hk, intsFromJson_jInts _ h, Functor.map, Except.map]

theorem optBool_field (k : String) (kvs : List (String × Json)) (b : Bool)
    (hk : jget k kvs = if b then some (.bool true) else none) : (optField k kvs boolFromJson).map (·.getD false) = .ok b := by
  cases b <;> simp at hk <;> simp [optField, hk, boolFromJson, pure, Except.pure, Except.map, Functor.map]

/-- the body of `instruction_from_json` once the operand is known -/
theorem instrFromJson_core (op : Nat) (a : Arg) (a' : Arg) (n : Option Nat) (l : Option Int) (o : List Int)
    (hn : SmallOpt n) (hl : SmallOptI l) (ho : ∀ x ∈ o, SmallInt x)
    (ja : Option Json)
    (harg : (match ja with | some j => argFromJson j | none => pure (.noarg 0)) = .ok a') :
    instrFromJson (.obj (fields [("name", some (.opName op)), ("arg", ja), ("_n_args_override", n.map jNat),
      ("line_number", l.map jInt), ("_line_offsets_override", nonEmpty o (jInts o))])) = .ok (.mk op a' n l o) := by
  generalize hk : fields [("name", some (.opName op)), ("arg", ja), ("_n_args_override", n.map jNat),
      ("line_number", l.map jInt), ("_line_offsets_override", nonEmpty o (jInts o))] = kvs
  have h1 : jget "name" kvs = some (.opName op) := by subst hk; jg
  have h2 : jget "arg" kvs = ja := by subst hk; jg
  have h3 := optNat_field "_n_args_override" kvs n hn (by subst hk; jg)
  have h4 := optInt_field "line_number" kvs l hl (by subst hk; jg)
  have h5 := optInts_field "_line_offsets_override" kvs o ho (by subst hk; jg)
  rw [instrFromJson]
  simp only [h1, opFromJson, h3, h4, bind, Except.bind, pure, Except.pure]
  revert h5
  cases optField "_line_offsets_override" kvs intsFromJson with
  | error e => simp [Except.map]
  | ok v =>
    simp only [Except.map]
    intro h5
    have h5' : v.getD [] = o := by simpa using h5
    split
    · rename_i j heq
      rw [h2] at heq
      subst heq
      simp only [pure, Except.pure] at harg
      simp [harg, h5']
    · rename_i heq
      rw [h2] at heq
      subst heq
      simp only [pure, Except.pure] at harg
      cases harg
      simp [h5']

mutual
theorem argFromJson_jArg : ∀ (a : Arg), WfArg a → (∀ x, a ≠ .noarg x ∨ x ≠ 0) → argFromJson (jArg a) = .ok (canonArg a)
  | .raw n, h, _ => by simpa [canonArg] using argFromJson_raw n (by simpa [WfArg] using h)
  | .jump t r, h, _ => by simpa [canonArg] using argFromJson_jump t r (by simpa [WfArg] using h)
  | .name s o, h, _ => by simpa [canonArg] using argFromJson_name s o (by simpa [WfArg] using h)
  | .varname s o, h, _ => by simpa [canonArg] using argFromJson_varname s o (by simpa [WfArg] using h)
  | .free s, _, _ => by simpa [canonArg] using argFromJson_free s
  | .cell s o, h, _ => by simpa [canonArg] using argFromJson_cell s o (by simpa [WfArg] using h)
  | .noarg a, h, hne => by
    have : a ≠ 0 := by rcases hne a with h' | h'; exact absurd rfl h'; exact h'
    simpa [canonArg] using argFromJson_noarg a (by simpa [WfArg] using h) this
  | .const (.inner c) o, h, _ => by
    simp only [WfArg] at h
    simpa [canonArg, canonConst] using argFromJson_const_inner c o h.2
  | .const (.code d) o, h, _ => by
    simp only [WfArg, WfConst] at h
    simpa [canonArg, canonConst] using argFromJson_const_code d o h.2 _ (codeDataFromJson_jCodeData d h.1)
theorem instrFromJson_jInstr : ∀ (i : Instr), WfInstr i → instrFromJson (jInstr i) = .ok (canonInstr i)
  | .mk op a n l o, h => by
    simp only [WfInstr] at h
    obtain ⟨ha, hn, hl, ho⟩ := h
    simp only [jInstr, canonInstr]
    apply instrFromJson_core op a (canonArg a) n l o hn hl ho
    by_cases h0 : a.isDefault = true
    · have : a = .noarg 0 := by
        cases a <;> simp [Arg.isDefault] at h0
        subst h0; rfl
      subst this
      simp [Arg.isDefault, canonArg, pure, Except.pure]
    · have hne : ∀ x, a ≠ .noarg x ∨ x ≠ 0 := by
        intro x
        by_cases hx : x = 0
        · left; subst hx; intro ha0; subst ha0; simp [Arg.isDefault] at h0
        · right; exact hx
      simp [h0, argFromJson_jArg a ha hne]
theorem instrsFromJson_jInstrs : ∀ (is : List Instr), WfInstrs is → instrsFromJson (jInstrs is) = .ok (canonInstrs is)
  | [], _ => by simp [jInstrs, instrsFromJson, canonInstrs, pure, Except.pure]
  | i :: is, h => by
    simp only [WfInstrs] at h
    simp [jInstrs, instrsFromJson, instrFromJson_jInstr i h.1, instrsFromJson_jInstrs is h.2, canonInstrs, bind, Except.bind, pure, Except.pure]
theorem blocksFromJson_jBlocks : ∀ (bs : List (List Instr)), WfBlocks bs → blocksFromJson (jBlocks bs) = .ok (canonBlocks bs)
  | [], _ => by simp [jBlocks, blocksFromJson, canonBlocks, pure, Except.pure]
  | b :: bs, h => by
    simp only [WfBlocks] at h
    simp [jBlocks, blocksFromJson, instrsFromJson_jInstrs b h.1, blocksFromJson_jBlocks bs h.2, canonBlocks, bind, Except.bind, pure, Except.pure]
theorem argListFromJson_jArgList : ∀ (as : List Arg), WfAddArgs as → argListFromJson (jArgList as) = .ok (canonArgList as)
  | [], _ => by simp [jArgList, argListFromJson, canonArgList, pure, Except.pure]
  | a :: as, h => by
    simp only [WfAddArgs] at h
    have hne : ∀ x, a ≠ .noarg x ∨ x ≠ 0 := by
      intro x; left; intro hx; subst hx; exact h.1.2
    simp [jArgList, argListFromJson, argFromJson_jArg a h.1.1 hne, argListFromJson_jArgList as h.2, canonArgList, bind, Except.bind, pure, Except.pure]
theorem codeDataFromJson_jCodeData : ∀ (d : CodeData), WfCode d → codeDataFromJson (jCodeData d) = .ok (canonCode d)
  | .mk bl fname fl name ss tp fv fut nested al aa, h => by
    simp only [WfCode] at h
    obtain ⟨hbl, hfl, hss, hal, haa⟩ := h
    have ihb := blocksFromJson_jBlocks bl hbl
    have iha := argListFromJson_jArgList aa haa
    simp only [jCodeData, canonCode]
    generalize hk : fields [("blocks", some (.arr (jBlocks bl))), ("filename", some (jStr fname)), ("first_line_number", some (jInt fl)),
                  ("name", some (jStr name)), ("stacksize", some (jNat ss)),
                  ("type", tp.map jFunction),
                  ("freevars", nonEmpty fv (jStrs fv)),
                  ("future_annotations", if fut then some (.bool true) else none),
                  ("_nested", if nested then some (.bool true) else none),
                  ("_additional_line", al.map jAddLine),
                  ("_additional_args", nonEmpty aa (.arr (jArgList aa)))] = kvs
    have g1 : jget "blocks" kvs = some (.arr (jBlocks bl)) := by subst hk; jg
    have g2 : jget "filename" kvs = some (jStr fname) := by subst hk; jg
    have g3 : jget "first_line_number" kvs = some (jInt fl) := by subst hk; jg
    have g4 : jget "name" kvs = some (jStr name) := by subst hk; jg
    have g5 : jget "stacksize" kvs = some (jNat ss) := by subst hk; jg
    have g6 : optField "type" kvs functionFromJson = .ok tp := by
      subst hk
      cases tp with
      | none => simp [optField, jget_fields_cons, pure, Except.pure]
      | some f => simp [optField, jget_fields_cons, functionFromJson_jFunction, Functor.map, Except.map]
    have g7 := optField_strs "freevars" kvs fv (by subst hk; jg)
    have g8 := optBool_field "future_annotations" kvs fut (by subst hk; jg)
    have g9 := optBool_field "_nested" kvs nested (by subst hk; jg)
    have g10 : optField "_additional_line" kvs addLineFromJson = .ok al := by
      subst hk
      cases al with
      | none => simp [optField, jget_fields_cons, pure, Except.pure]
      | some a => simp [optField, jget_fields_cons, addLineFromJson_jAddLine a (hal a rfl).1 (hal a rfl).2, Functor.map, Except.map]
    have g11 : jget "_additional_args" kvs = nonEmpty aa (.arr (jArgList aa)) := by subst hk; jg
    rw [codeDataFromJson]
    simp only [g2, g3, g4, g5, g6, g10, strFromJson_jStr, intFromJson_jInt fl hfl, natFromJson_jNat ss hss, bind, Except.bind, pure, Except.pure]
    revert g7 g8 g9
    cases optField "freevars" kvs strsFromJson <;> cases optField "future_annotations" kvs boolFromJson <;>
      cases optField "_nested" kvs boolFromJson <;> simp only [Except.map] <;> intro g7 g8 g9 <;> first | (cases g7; done) | (cases g8; done) | (cases g9; done) | skip
    rename_i vfv vfut vnested
    have e7 : vfv.getD [] = fv := by simpa using g7
    have e8 : vfut.getD false = fut := by simpa using g8
    have e9 : vnested.getD false = nested := by simpa using g9
    split
    · rename_i bs heq
      rw [g1] at heq
      cases heq
      simp only [ihb]
      split
      · rename_i xs heq2
        rw [g11] at heq2
        cases aa with
        | nil => simp [nonEmpty] at heq2
        | cons a as =>
          simp [nonEmpty] at heq2
          subst heq2
          simp [iha, e7, e8, e9]
      · rename_i j hnot heq2
        rw [g11] at heq2
        cases aa with
        | nil => simp [nonEmpty] at heq2
        | cons a as => simp [nonEmpty] at heq2; subst heq2; exact absurd rfl (hnot _)
      · rename_i heq2
        rw [g11] at heq2
        cases aa with
        | nil => simp [canonArgList, e7, e8, e9]
        | cons a as => simp [nonEmpty] at heq2
    · rename_i hnot
      exact absurd g1 (by intro hh; exact hnot _ hh)
end

end CDV
