import CDVProofs.EncTables
import CDVProofs.Relax
import CDVProofs.Props.C09
/-! The encoder's operand resolution (`from_arg` over all instructions and additional arguments): every operand index
    written into the bytecode designates, in the tables finally emitted, the entry the data names. -/
namespace CDV
open CDV.Props.C09 (keyEquiv_str keyEquiv_const)

/-- index `i` of table `t` holds an entry equivalent to `a` -/
def Holds {α} (keyEq : α → α → Bool) (t : FromArgs α) (i : Nat) (a : α) : Prop :=
  ∃ a', assoc? i t.iToArg = some a' ∧ keyEq a a' = true

theorem Holds.mono {α} {keyEq : α → α → Bool} (hk : KeyEquiv keyEq) {t t' : FromArgs α} {i : Nat} {a : α}
    (h : Holds keyEq t i a) (he : FromArgs.Ext keyEq t t') : Holds keyEq t' i a := by
  obtain ⟨a', h1, h2⟩ := h
  obtain ⟨a'', h3, h4⟩ := he i a' h1
  exact ⟨a'', h3, hk.trans _ _ _ h2 h4⟩

structure InvAll (st : EncSt) : Prop where
  n : st.names.Inv strEq
  v : st.varnames.Inv strEq
  c : st.cellvars.Inv strEq
  k : st.consts.Inv Const.keyEq

structure ExtAll (st st' : EncSt) : Prop where
  n : FromArgs.Ext strEq st.names st'.names
  v : FromArgs.Ext strEq st.varnames st'.varnames
  c : FromArgs.Ext strEq st.cellvars st'.cellvars
  k : FromArgs.Ext Const.keyEq st.consts st'.consts

theorem ExtAll.refl (st : EncSt) : ExtAll st st :=
  ⟨FromArgs.Ext.refl keyEquiv_str _, FromArgs.Ext.refl keyEquiv_str _, FromArgs.Ext.refl keyEquiv_str _, FromArgs.Ext.refl keyEquiv_const _⟩

theorem ExtAll.trans {a b c : EncSt} (h1 : ExtAll a b) (h2 : ExtAll b c) : ExtAll a c :=
  ⟨FromArgs.Ext.trans keyEquiv_str h1.n h2.n, FromArgs.Ext.trans keyEquiv_str h1.v h2.v,
   FromArgs.Ext.trans keyEquiv_str h1.c h2.c, FromArgs.Ext.trans keyEquiv_const h1.k h2.k⟩

/-- what the operand index of one argument designates, in a later state of the tables -/
def ArgHolds (st : EncSt) (a : Arg) (i : Int) : Prop :=
  match a with
  | .name s _ => ∃ k : Nat, i = k ∧ Holds strEq st.names k s
  | .varname s _ => ∃ k : Nat, i = k ∧ Holds strEq st.varnames k s
  | .cell s _ => ∃ k : Nat, i = k ∧ Holds strEq st.cellvars k s
  | .const c _ => ∃ k : Nat, i = k ∧ Holds Const.keyEq st.consts k c
  | _ => True

theorem ArgHolds.mono {st st' : EncSt} {a : Arg} {i : Int} (h : ArgHolds st a i) (he : ExtAll st st') : ArgHolds st' a i := by
  cases a <;> simp only [ArgHolds] at h ⊢
  · obtain ⟨k, h1, h2⟩ := h; exact ⟨k, h1, h2.mono keyEquiv_str he.n⟩
  · obtain ⟨k, h1, h2⟩ := h; exact ⟨k, h1, h2.mono keyEquiv_str he.v⟩
  · obtain ⟨k, h1, h2⟩ := h; exact ⟨k, h1, h2.mono keyEquiv_const he.k⟩
  · obtain ⟨k, h1, h2⟩ := h; exact ⟨k, h1, h2.mono keyEquiv_str he.c⟩

theorem fromConstArg_spec (tp : Option Function) (t t' : FromArgs Const) (c : Const) (o : Option Nat) (i : Nat)
    (hinv : t.Inv Const.keyEq) (h : fromConstArg tp t c o = .ok (t', i)) :
    t'.Inv Const.keyEq ∧ FromArgs.Ext Const.keyEq t t' ∧ Holds Const.keyEq t' i c := by
  unfold fromConstArg at h
  dsimp only at h
  have key1 : ∀ (hh : (FromArgs.set Const.keyEq t 0 (Const.inner InnerConst.none) >>= fun t => FromArgs.add Const.keyEq t c o) = Except.ok (t', i)),
      t'.Inv Const.keyEq ∧ FromArgs.Ext Const.keyEq t t' ∧ Holds Const.keyEq t' i c := by
    intro hh
    obtain ⟨t1, h1, hh⟩ := bind_ok' hh
    obtain ⟨i1, i2, _⟩ := FromArgs.set_spec keyEquiv_const _ _ _ _ hinv h1
    obtain ⟨j1, j2, j3⟩ := FromArgs.add_spec keyEquiv_const _ _ _ _ _ i1 hh
    exact ⟨j1, FromArgs.Ext.trans keyEquiv_const i2 j2, j3⟩
  have key2 : ∀ (hh : FromArgs.add Const.keyEq t c o = Except.ok (t', i)),
      t'.Inv Const.keyEq ∧ FromArgs.Ext Const.keyEq t t' ∧ Holds Const.keyEq t' i c :=
    fun hh => FromArgs.add_spec keyEquiv_const _ _ _ _ _ hinv hh
  repeat' split at h
  all_goals first | exact key1 h | exact key2 h

/-- **`from_arg`**: tables stay consistent, nothing already handed out is lost, and the index returned designates the operand -/
theorem fromArg_spec (tp : Option Function) (fv : List PStr) (st st' : EncSt) (a : Arg) (i : Int) (hinv : InvAll st)
    (h : fromArg tp fv st a = .ok (st', i)) : InvAll st' ∧ ExtAll st st' ∧ ArgHolds st' a i := by
  cases a with
  | noarg n => simp only [fromArg, pure, Except.pure, Except.ok.injEq, Prod.mk.injEq] at h; obtain ⟨rfl, rfl⟩ := h; exact ⟨hinv, ExtAll.refl _, trivial⟩
  | jump t r => simp only [fromArg, pure, Except.pure, Except.ok.injEq, Prod.mk.injEq] at h; obtain ⟨rfl, rfl⟩ := h; exact ⟨hinv, ExtAll.refl _, trivial⟩
  | raw n => simp only [fromArg, pure, Except.pure, Except.ok.injEq, Prod.mk.injEq] at h; obtain ⟨rfl, rfl⟩ := h; exact ⟨hinv, ExtAll.refl _, trivial⟩
  | free s =>
    simp only [fromArg] at h
    split at h
    · simp only [pure, Except.pure, Except.ok.injEq, Prod.mk.injEq] at h; obtain ⟨rfl, rfl⟩ := h; exact ⟨hinv, ExtAll.refl _, trivial⟩
    · simp [throw, throwThe, MonadExceptOf.throw] at h
  | name s o =>
    simp only [fromArg] at h
    obtain ⟨⟨t, k⟩, h1, h⟩ := bind_ok' h
    simp only [pure, Except.pure, Except.ok.injEq, Prod.mk.injEq] at h
    obtain ⟨rfl, rfl⟩ := h
    obtain ⟨j1, j2, j3⟩ := FromArgs.add_spec keyEquiv_str _ _ _ _ _ hinv.n h1
    exact ⟨⟨j1, hinv.v, hinv.c, hinv.k⟩, ⟨j2, FromArgs.Ext.refl keyEquiv_str _, FromArgs.Ext.refl keyEquiv_str _, FromArgs.Ext.refl keyEquiv_const _⟩, ⟨k, rfl, j3⟩⟩
  | varname s o =>
    simp only [fromArg] at h
    obtain ⟨⟨t, k⟩, h1, h⟩ := bind_ok' h
    simp only [pure, Except.pure, Except.ok.injEq, Prod.mk.injEq] at h
    obtain ⟨rfl, rfl⟩ := h
    obtain ⟨j1, j2, j3⟩ := FromArgs.add_spec keyEquiv_str _ _ _ _ _ hinv.v h1
    exact ⟨⟨hinv.n, j1, hinv.c, hinv.k⟩, ⟨FromArgs.Ext.refl keyEquiv_str _, j2, FromArgs.Ext.refl keyEquiv_str _, FromArgs.Ext.refl keyEquiv_const _⟩, ⟨k, rfl, j3⟩⟩
  | cell s o =>
    simp only [fromArg] at h
    obtain ⟨⟨t, k⟩, h1, h⟩ := bind_ok' h
    simp only [pure, Except.pure, Except.ok.injEq, Prod.mk.injEq] at h
    obtain ⟨rfl, rfl⟩ := h
    obtain ⟨j1, j2, j3⟩ := FromArgs.add_spec keyEquiv_str _ _ _ _ _ hinv.c h1
    exact ⟨⟨hinv.n, hinv.v, j1, hinv.k⟩, ⟨FromArgs.Ext.refl keyEquiv_str _, FromArgs.Ext.refl keyEquiv_str _, j2, FromArgs.Ext.refl keyEquiv_const _⟩, ⟨k, rfl, j3⟩⟩
  | const c o =>
    simp only [fromArg] at h
    obtain ⟨⟨t, k⟩, h1, h⟩ := bind_ok' h
    simp only [pure, Except.pure, Except.ok.injEq, Prod.mk.injEq] at h
    obtain ⟨rfl, rfl⟩ := h
    obtain ⟨j1, j2, j3⟩ := fromConstArg_spec tp _ _ _ _ _ hinv.k h1
    exact ⟨⟨hinv.n, hinv.v, hinv.c, j1⟩, ⟨FromArgs.Ext.refl keyEquiv_str _, FromArgs.Ext.refl keyEquiv_str _, FromArgs.Ext.refl keyEquiv_str _, j2⟩, ⟨k, rfl, j3⟩⟩

theorem resolveArgs_spec (tp : Option Function) (fv : List PStr) : ∀ (is : List Instr) (st st' : EncSt) (as : List Int), InvAll st →
    resolveArgs tp fv st is = .ok (st', as) →
    InvAll st' ∧ ExtAll st st' ∧ as.length = is.length ∧ ∀ (j : Nat) (i : Instr) (a : Int), is[j]? = some i → as[j]? = some a → ArgHolds st' i.arg a := by
  intro is
  induction is with
  | nil =>
    intro st st' as hinv h
    simp only [resolveArgs, pure, Except.pure, Except.ok.injEq, Prod.mk.injEq] at h
    obtain ⟨rfl, rfl⟩ := h
    exact ⟨hinv, ExtAll.refl _, rfl, fun j i a hi => by simp at hi⟩
  | cons i0 is ih =>
    intro st st' as hinv h
    rw [resolveArgs] at h
    obtain ⟨⟨st1, a0⟩, h1, h⟩ := bind_ok' h
    obtain ⟨⟨st2, r⟩, h2, h⟩ := bind_ok' h
    simp only [pure, Except.pure, Except.ok.injEq, Prod.mk.injEq] at h
    obtain ⟨rfl, rfl⟩ := h
    obtain ⟨i1, e1, a1⟩ := fromArg_spec tp fv st st1 _ a0 hinv h1
    obtain ⟨i2, e2, l2, a2⟩ := ih st1 st2 r i1 h2
    refine ⟨i2, e1.trans e2, by simp [l2], ?_⟩
    intro j i a hi ha
    cases j with
    | zero =>
      simp only [List.getElem?_cons_zero, Option.some.injEq] at hi ha
      subst hi; subst ha
      exact a1.mono e2
    | succ j =>
      simp only [List.getElem?_cons_succ] at hi ha
      exact a2 j i a hi ha

theorem addAdditional_spec (tp : Option Function) (fv : List PStr) : ∀ (as : List Arg) (st st' : EncSt), InvAll st →
    addAdditional tp fv st as = .ok st' → InvAll st' ∧ ExtAll st st' := by
  intro as
  induction as with
  | nil => intro st st' hinv h; simp only [addAdditional, pure, Except.pure, Except.ok.injEq] at h; subst h; exact ⟨hinv, ExtAll.refl _⟩
  | cons a as ih =>
    intro st st' hinv h
    rw [addAdditional] at h
    obtain ⟨⟨st1, k⟩, h1, h⟩ := bind_ok' h
    obtain ⟨i1, e1, _⟩ := fromArg_spec tp fv st st1 a k hinv h1
    obtain ⟨i2, e2⟩ := ih st1 st' i1 h
    exact ⟨i2, e1.trans e2⟩

end CDV

namespace CDV
open CDV.Props.C09 (keyEquiv_str keyEquiv_const)

theorem seedVarnames_inv : ∀ (ss : List PStr) (t t' : FromArgs PStr) (i : Nat), t.Inv strEq → seedVarnames t ss i = .ok t' → t'.Inv strEq := by
  intro ss
  induction ss with
  | nil => intro t t' i hinv h; simp only [seedVarnames, pure, Except.pure, Except.ok.injEq] at h; subst h; exact hinv
  | cons s ss ih =>
    intro t t' i hinv h
    rw [seedVarnames] at h
    obtain ⟨t1, h1, h⟩ := bind_ok' h
    exact ih t1 t' (i + 1) (FromArgs.set_spec keyEquiv_str _ _ _ _ hinv h1).1 h

theorem inv_empty {α} (keyEq : α → α → Bool) : (({} : FromArgs α)).Inv keyEq := by
  intro a i h; simp [keyFind] at h

theorem encInit_inv (tp : Option Function) (st : EncSt) (h : encInit tp = .ok st) : InvAll st := by
  unfold encInit at h
  cases tp with
  | none => simp only [pure, Except.pure, Except.ok.injEq] at h; subst h; exact ⟨inv_empty _, inv_empty _, inv_empty _, inv_empty _⟩
  | some f =>
    simp only at h
    obtain ⟨vn, hv, h⟩ := bind_ok' h
    have iv := seedVarnames_inv _ _ _ _ (inv_empty _) hv
    cases hd : f.doc with
    | none => simp only [hd, pure, Except.pure, Except.ok.injEq] at h; subst h; exact ⟨inv_empty _, iv, inv_empty _, inv_empty _⟩
    | some d =>
      simp only [hd] at h
      obtain ⟨t, ht, h⟩ := bind_ok' h
      simp only [pure, Except.pure, Except.ok.injEq] at h
      subst h
      exact ⟨inv_empty _, iv, inv_empty _, (FromArgs.set_spec keyEquiv_const _ _ _ _ (inv_empty _) ht).1⟩

theorem collectCells_inv : ∀ (as : List Arg) (t t' : FromArgs PStr), t.Inv strEq → collectCells t as = .ok t' → t'.Inv strEq := by
  intro as
  induction as with
  | nil => intro t t' hinv h; simp only [collectCells, pure, Except.pure, Except.ok.injEq] at h; subst h; exact hinv
  | cons a as ih =>
    intro t t' hinv h
    cases a with
    | cell s o =>
      rw [collectCells] at h
      obtain ⟨⟨t1, k⟩, h1, h⟩ := bind_ok' h
      exact ih t1 t' (FromArgs.add_spec keyEquiv_str _ _ _ _ _ hinv h1).1 h
    | _ => simp only [collectCells] at h; exact ih t t' hinv h

theorem strEq_eq (a b : PStr) (h : strEq a b = true) : a = b := by simpa [strEq] using h

/-- what an operand index designates in the tables `to_code()` emits -/
def OperandInTables (out : BlocksOut) (a : Arg) (i : Int) : Prop :=
  match a with
  | .name s _ => ∃ k : Nat, i = k ∧ out.names[k]? = some s
  | .varname s _ => ∃ k : Nat, i = k ∧ out.varnames[k]? = some s
  | .cell s _ => ∃ k : Nat, i = k ∧ out.cellvars[k]? = some s
  | .const c _ => ∃ (k : Nat) (c' : Const), i = k ∧ out.consts[k]? = some c' ∧ Const.keyEq c c' = true
  | _ => True

/-- **Every operand resolves to exactly the given name / variable / constant, with its index inside its table.**
    Whenever `blocks_to_bytes` returns: the bytes are the assembly of the instructions with some operand list, and for
    every instruction that names a name, local, cell variable or constant, its operand is an index into the emitted table
    at which exactly that name / variable sits — for constants: a constant with the same `constant_key` (so 0.0 and -0.0,
    1 / True / 1.0, 'a' / b'a' are never exchanged: C08). -/
theorem blocksToBytes_operands (v : Ver) (blocks : List (List Instr)) (addArgs : List Arg) (fv : List PStr) (tp : Option Function)
    (out : BlocksOut) (h : blocksToBytes v blocks addArgs fv tp = .ok out) :
    ∃ args : List Int, out.code = (emit blocks.flatten args 0).1 ∧ args.length = blocks.flatten.length ∧
      ∀ (j : Nat) (ins : Instr) (a : Int), blocks.flatten[j]? = some ins → args[j]? = some a → OperandInTables out ins.arg a := by
  unfold blocksToBytes at h
  obtain ⟨st0, h0, h⟩ := bind_ok' h
  obtain ⟨cv, hcv, h⟩ := bind_ok' h
  obtain ⟨⟨st1, args0⟩, hres, h⟩ := bind_ok' h
  obtain ⟨args, hrelax, h⟩ := bind_ok' h
  obtain ⟨st2, hadd, h⟩ := bind_ok' h
  obtain ⟨names, hn, h⟩ := bind_ok' h
  obtain ⟨varnames, hv, h⟩ := bind_ok' h
  obtain ⟨cellvars, hc, h⟩ := bind_ok' h
  obtain ⟨consts, hk, h⟩ := bind_ok' h
  simp only [pure, Except.pure, Except.ok.injEq] at h
  subst h
  have i0 := encInit_inv tp st0 h0
  have i0' : InvAll { st0 with cellvars := cv } := ⟨i0.n, i0.v, collectCells_inv _ _ _ i0.c hcv, i0.k⟩
  obtain ⟨i1, _, hlen, hargs⟩ := resolveArgs_spec tp fv _ _ _ _ i0' hres
  obtain ⟨_, e2⟩ := addAdditional_spec tp fv _ _ _ i1 hadd
  obtain ⟨hrl, _⟩ := relax_lands v _ _ _ _ _ (by rw [hlen]) hrelax
  refine ⟨args, rfl, hrl, ?_⟩
  intro j ins a hi ha
  have hj : j < blocks.flatten.length := (List.getElem?_eq_some_iff.mp hi).1
  cases hia : ins.arg with
  | name s o =>
    have hnj := relax_nonjump v _ _ _ _ _ (by rw [hlen]) hrelax j ins hi (by simp [hia, isJump])
    rw [ha] at hnj
    have := (hargs j ins a hi hnj.symm).mono e2
    rw [hia] at this
    obtain ⟨k, hk1, a', hk2, hk3⟩ := this
    exact ⟨k, hk1, by rw [FromArgs.toTuple_get _ _ hn k a' hk2, strEq_eq _ _ hk3]⟩
  | varname s o =>
    have hnj := relax_nonjump v _ _ _ _ _ (by rw [hlen]) hrelax j ins hi (by simp [hia, isJump])
    rw [ha] at hnj
    have := (hargs j ins a hi hnj.symm).mono e2
    rw [hia] at this
    obtain ⟨k, hk1, a', hk2, hk3⟩ := this
    exact ⟨k, hk1, by rw [FromArgs.toTuple_get _ _ hv k a' hk2, strEq_eq _ _ hk3]⟩
  | cell s o =>
    have hnj := relax_nonjump v _ _ _ _ _ (by rw [hlen]) hrelax j ins hi (by simp [hia, isJump])
    rw [ha] at hnj
    have := (hargs j ins a hi hnj.symm).mono e2
    rw [hia] at this
    obtain ⟨k, hk1, a', hk2, hk3⟩ := this
    exact ⟨k, hk1, by rw [FromArgs.toTuple_get _ _ hc k a' hk2, strEq_eq _ _ hk3]⟩
  | const c o =>
    have hnj := relax_nonjump v _ _ _ _ _ (by rw [hlen]) hrelax j ins hi (by simp [hia, isJump])
    rw [ha] at hnj
    have := (hargs j ins a hi hnj.symm).mono e2
    rw [hia] at this
    obtain ⟨k, hk1, a', hk2, hk3⟩ := this
    exact ⟨k, a', hk1, FromArgs.toTuple_get _ _ hk k a' hk2, hk3⟩
  | _ => trivial

end CDV
