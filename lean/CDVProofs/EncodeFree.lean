import CDVProofs.EncodeOps
/-! Free-variable operands: `len(cellvars) + index`.  The number of cell variables is known before any operand is
    resolved (they are collected first), so it is the length of the `co_cellvars` that is finally emitted. -/
namespace CDV
open CDV.Props.C09 (keyEquiv_str)

def IndexPresent {α} (t : FromArgs α) (i : Nat) : Prop := (assoc? i t.iToArg).isSome
def KeyPresent (t : FromArgs PStr) (s : PStr) : Prop := (keyFind strEq s t.argToI).isSome

/-- the cell argument `(s, o)` is already in the table: adding it again changes nothing of the table's size -/
def CellKnown (t : FromArgs PStr) (s : PStr) (o : Option Nat) : Prop :=
  match o with
  | some i => IndexPresent t i
  | none => KeyPresent t s

theorem set_cases (t t' : FromArgs PStr) (i : Nat) (s : PStr) (h : t.set strEq i s = .ok t') :
    t'.argToI = keySet strEq s i t.argToI ∧
    ((assoc? i t.iToArg = none ∧ t'.iToArg = t.iToArg ++ [(i, s)]) ∨
     (∃ old, assoc? i t.iToArg = some old ∧ t'.iToArg = t.iToArg.map (fun (p : Nat × PStr) => if p.1 = i then (p.1, s) else (p.1, p.2)))) := by
  unfold FromArgs.set at h
  cases ha : assoc? i t.iToArg with
  | none => simp only [ha, pure, Except.pure, Except.ok.injEq] at h; subst h; exact ⟨rfl, Or.inl ⟨rfl, rfl⟩⟩
  | some old =>
    simp only [ha] at h
    split at h
    · simp only [pure, Except.pure, Except.ok.injEq] at h; subst h; exact ⟨rfl, Or.inr ⟨old, rfl, rfl⟩⟩
    · simp [throw, throwThe, MonadExceptOf.throw] at h

theorem set_len_present (t t' : FromArgs PStr) (i : Nat) (s : PStr) (h : t.set strEq i s = .ok t') (hp : IndexPresent t i) : t'.len = t.len := by
  obtain ⟨_, hc⟩ := set_cases t t' i s h
  unfold IndexPresent at hp
  rcases hc with ⟨hn, _⟩ | ⟨old, _, he⟩
  · rw [hn] at hp; simp at hp
  · simp [FromArgs.len, he]

theorem set_preserves (t t' : FromArgs PStr) (i : Nat) (s : PStr) (h : t.set strEq i s = .ok t') :
    (∀ j, IndexPresent t j → IndexPresent t' j) ∧ (∀ x, KeyPresent t x → KeyPresent t' x) ∧ IndexPresent t' i ∧ KeyPresent t' s := by
  obtain ⟨hk, hc⟩ := set_cases t t' i s h
  have hget : ∀ j, assoc? j t'.iToArg = (match assoc? j t.iToArg with | some x => some (if j = i then s else x) | none => if j = i then some s else none) := by
    intro j
    rcases hc with ⟨hn, he⟩ | ⟨old, ho, he⟩
    · rw [he, assoc?_append]
      cases hj : assoc? j t.iToArg with
      | none => rfl
      | some x =>
        simp only
        have : j ≠ i := by intro e; subst e; rw [hn] at hj; cases hj
        simp [this]
    · rw [he, assoc?_replace]
      cases hj : assoc? j t.iToArg with
      | none =>
        simp only [Option.map_none]
        have : j ≠ i := by intro e; subst e; rw [ho] at hj; cases hj
        simp [this]
      | some x => simp
  refine ⟨?_, ?_, ?_, ?_⟩
  · intro j hj
    unfold IndexPresent at *
    rw [hget]
    cases hj' : assoc? j t.iToArg with
    | none => rw [hj'] at hj; simp at hj
    | some x => simp
  · intro x hx
    unfold KeyPresent at *
    rw [hk, keyFind_keySet keyEquiv_str]
    split
    · simp
    · exact hx
  · unfold IndexPresent
    rw [hget]
    cases assoc? i t.iToArg <;> simp
  · unfold KeyPresent
    rw [hk, keyFind_keySet keyEquiv_str]
    simp [strEq]

/-- adding a cell that is already known changes neither the size of the table nor what is known -/
theorem add_known (t t' : FromArgs PStr) (s : PStr) (o : Option Nat) (i : Nat) (h : t.add strEq s o = .ok (t', i)) :
    (CellKnown t s o → t'.len = t.len) ∧ (∀ j, IndexPresent t j → IndexPresent t' j) ∧ (∀ x, KeyPresent t x → KeyPresent t' x) ∧
    CellKnown t' s o := by
  unfold FromArgs.add at h
  cases o with
  | some j =>
    simp only at h
    obtain ⟨t1, h1, h⟩ := bind_ok' h
    simp only [pure, Except.pure, Except.ok.injEq, Prod.mk.injEq] at h
    obtain ⟨rfl, rfl⟩ := h
    obtain ⟨p1, p2, p3, _⟩ := set_preserves t t1 j s h1
    exact ⟨fun hk => set_len_present t t1 j s h1 hk, p1, p2, p3⟩
  | none =>
    simp only at h
    cases hf : keyFind strEq s t.argToI with
    | some j =>
      simp only [hf, pure, Except.pure, Except.ok.injEq, Prod.mk.injEq] at h
      obtain ⟨rfl, rfl⟩ := h
      exact ⟨fun _ => rfl, fun _ hj => hj, fun _ hx => hx, by simp [CellKnown, KeyPresent, hf]⟩
    | none =>
      simp only [hf] at h
      obtain ⟨t1, h1, h⟩ := bind_ok' h
      simp only [pure, Except.pure, Except.ok.injEq, Prod.mk.injEq] at h
      obtain ⟨rfl, rfl⟩ := h
      obtain ⟨p1, p2, _, p4⟩ := set_preserves t t1 t.len s h1
      refine ⟨fun hk => ?_, p1, p2, p4⟩
      simp [CellKnown, KeyPresent, hf] at hk

theorem CellKnown.mono {t t' : FromArgs PStr} (h1 : ∀ j, IndexPresent t j → IndexPresent t' j) (h2 : ∀ x, KeyPresent t x → KeyPresent t' x)
    {s : PStr} {o : Option Nat} (h : CellKnown t s o) : CellKnown t' s o := by
  cases o with
  | some i => exact h1 i h
  | none => exact h2 s h

/-- all cell arguments of a list are known to the table -/
def CellsKnown (t : FromArgs PStr) (as : List Arg) : Prop := ∀ s o, Arg.cell s o ∈ as → CellKnown t s o

/-- **After the cells have been collected, every cell argument is known.** -/
theorem collectCells_known : ∀ (as : List Arg) (t t' : FromArgs PStr), collectCells t as = .ok t' →
    CellsKnown t' as ∧ (∀ j, IndexPresent t j → IndexPresent t' j) ∧ (∀ x, KeyPresent t x → KeyPresent t' x) := by
  intro as
  induction as with
  | nil => intro t t' h; simp only [collectCells, pure, Except.pure, Except.ok.injEq] at h; subst h
           exact ⟨fun s o hm => by simp at hm, fun _ h => h, fun _ h => h⟩
  | cons a as ih =>
    intro t t' h
    cases a with
    | cell s o =>
      rw [collectCells] at h
      obtain ⟨⟨t1, k⟩, h1, h⟩ := bind_ok' h
      obtain ⟨_, p1, p2, p3⟩ := add_known t t1 s o k h1
      obtain ⟨q0, q1, q2⟩ := ih t1 t' h
      refine ⟨?_, fun j hj => q1 j (p1 j hj), fun x hx => q2 x (p2 x hx)⟩
      intro s' o' hm
      rcases List.mem_cons.mp hm with he | hm'
      · simp only [Arg.cell.injEq] at he
        obtain ⟨rfl, rfl⟩ := he
        exact CellKnown.mono q1 q2 p3
      · exact q0 s' o' hm'
    | _ =>
      simp only [collectCells] at h
      obtain ⟨q0, q1, q2⟩ := ih t t' h
      refine ⟨?_, q1, q2⟩
      intro s' o' hm
      rcases List.mem_cons.mp hm with he | hm'
      · cases he
      · exact q0 s' o' hm'

theorem fromArg_cells (tp : Option Function) (fv : List PStr) (st st' : EncSt) (a : Arg) (i : Int)
    (hk : ∀ s o, a = .cell s o → CellKnown st.cellvars s o) (h : fromArg tp fv st a = .ok (st', i)) :
    st'.cellvars.len = st.cellvars.len ∧ (∀ j, IndexPresent st.cellvars j → IndexPresent st'.cellvars j) ∧
    (∀ x, KeyPresent st.cellvars x → KeyPresent st'.cellvars x) ∧
    (∀ s, a = .free s → ∃ idx, indexOfStr s fv = some idx ∧ i = ((st.cellvars.len + idx : Nat) : Int)) := by
  cases a with
  | cell s o =>
    simp only [fromArg] at h
    obtain ⟨⟨t, k⟩, h1, h⟩ := bind_ok' h
    simp only [pure, Except.pure, Except.ok.injEq, Prod.mk.injEq] at h
    obtain ⟨rfl, rfl⟩ := h
    obtain ⟨p0, p1, p2, _⟩ := add_known _ _ _ _ _ h1
    exact ⟨p0 (hk s o rfl), p1, p2, fun s' he => by cases he⟩
  | free s =>
    simp only [fromArg] at h
    split at h
    · next idx hidx =>
      simp only [pure, Except.pure, Except.ok.injEq, Prod.mk.injEq] at h
      obtain ⟨rfl, rfl⟩ := h
      exact ⟨rfl, fun _ hj => hj, fun _ hx => hx, fun s' he => by cases he; exact ⟨idx, hidx, rfl⟩⟩
    · simp [throw, throwThe, MonadExceptOf.throw] at h
  | noarg n => simp only [fromArg, pure, Except.pure, Except.ok.injEq, Prod.mk.injEq] at h; obtain ⟨rfl, rfl⟩ := h
               exact ⟨rfl, fun _ hj => hj, fun _ hx => hx, fun s' he => by cases he⟩
  | jump t r => simp only [fromArg, pure, Except.pure, Except.ok.injEq, Prod.mk.injEq] at h; obtain ⟨rfl, rfl⟩ := h
                exact ⟨rfl, fun _ hj => hj, fun _ hx => hx, fun s' he => by cases he⟩
  | raw n => simp only [fromArg, pure, Except.pure, Except.ok.injEq, Prod.mk.injEq] at h; obtain ⟨rfl, rfl⟩ := h
             exact ⟨rfl, fun _ hj => hj, fun _ hx => hx, fun s' he => by cases he⟩
  | name s o =>
    simp only [fromArg] at h
    obtain ⟨⟨t, k⟩, h1, h⟩ := bind_ok' h
    simp only [pure, Except.pure, Except.ok.injEq, Prod.mk.injEq] at h
    obtain ⟨rfl, rfl⟩ := h
    exact ⟨rfl, fun _ hj => hj, fun _ hx => hx, fun s' he => by cases he⟩
  | varname s o =>
    simp only [fromArg] at h
    obtain ⟨⟨t, k⟩, h1, h⟩ := bind_ok' h
    simp only [pure, Except.pure, Except.ok.injEq, Prod.mk.injEq] at h
    obtain ⟨rfl, rfl⟩ := h
    exact ⟨rfl, fun _ hj => hj, fun _ hx => hx, fun s' he => by cases he⟩
  | const c o =>
    simp only [fromArg] at h
    obtain ⟨⟨t, k⟩, h1, h⟩ := bind_ok' h
    simp only [pure, Except.pure, Except.ok.injEq, Prod.mk.injEq] at h
    obtain ⟨rfl, rfl⟩ := h
    exact ⟨rfl, fun _ hj => hj, fun _ hx => hx, fun s' he => by cases he⟩

theorem resolveArgs_cells (tp : Option Function) (fv : List PStr) : ∀ (is : List Instr) (st st' : EncSt) (as : List Int),
    CellsKnown st.cellvars (is.map Instr.arg) → resolveArgs tp fv st is = .ok (st', as) →
    st'.cellvars.len = st.cellvars.len ∧ (∀ j, IndexPresent st.cellvars j → IndexPresent st'.cellvars j) ∧
    (∀ x, KeyPresent st.cellvars x → KeyPresent st'.cellvars x) ∧
    ∀ (j : Nat) (ins : Instr) (s : PStr) (a : Int), is[j]? = some ins → ins.arg = .free s → as[j]? = some a →
      ∃ idx, indexOfStr s fv = some idx ∧ a = ((st.cellvars.len + idx : Nat) : Int) := by
  intro is
  induction is with
  | nil =>
    intro st st' as _ h
    simp only [resolveArgs, pure, Except.pure, Except.ok.injEq, Prod.mk.injEq] at h
    obtain ⟨rfl, rfl⟩ := h
    exact ⟨rfl, fun _ h => h, fun _ h => h, fun j ins s a hi => by simp at hi⟩
  | cons i0 is ih =>
    intro st st' as hk h
    rw [resolveArgs] at h
    obtain ⟨⟨st1, a0⟩, h1, h⟩ := bind_ok' h
    obtain ⟨⟨st2, r⟩, h2, h⟩ := bind_ok' h
    simp only [pure, Except.pure, Except.ok.injEq, Prod.mk.injEq] at h
    obtain ⟨rfl, rfl⟩ := h
    obtain ⟨l1, p1, q1, f1⟩ := fromArg_cells tp fv st st1 i0.arg a0 (fun s o he => hk s o (by simp [he])) h1
    have hk1 : CellsKnown st1.cellvars (is.map Instr.arg) := fun s o hm => CellKnown.mono p1 q1 (hk s o (by simp [hm]))
    obtain ⟨l2, p2, q2, f2⟩ := ih st1 st2 r hk1 h2
    refine ⟨by rw [l2, l1], fun j hj => p2 j (p1 j hj), fun x hx => q2 x (q1 x hx), ?_⟩
    intro j ins s a hi hia ha
    cases j with
    | zero =>
      simp only [List.getElem?_cons_zero, Option.some.injEq] at hi ha
      subst hi; subst ha
      exact f1 s hia
    | succ j =>
      simp only [List.getElem?_cons_succ] at hi ha
      obtain ⟨idx, h3, h4⟩ := f2 j ins s a hi hia ha
      exact ⟨idx, h3, by rw [h4, l1]⟩

theorem addAdditional_cells (tp : Option Function) (fv : List PStr) : ∀ (as : List Arg) (st st' : EncSt),
    CellsKnown st.cellvars as → addAdditional tp fv st as = .ok st' → st'.cellvars.len = st.cellvars.len := by
  intro as
  induction as with
  | nil => intro st st' _ h; simp only [addAdditional, pure, Except.pure, Except.ok.injEq] at h; subst h; rfl
  | cons a as ih =>
    intro st st' hk h
    rw [addAdditional] at h
    obtain ⟨⟨st1, k⟩, h1, h⟩ := bind_ok' h
    obtain ⟨l1, p1, q1, _⟩ := fromArg_cells tp fv st st1 a k (fun s o he => hk s o (by simp [he])) h1
    have hk1 : CellsKnown st1.cellvars as := fun s o hm => CellKnown.mono p1 q1 (hk s o (by simp [hm]))
    rw [ih st1 st' hk1 h, l1]

theorem insertByKey_length {β} (x : Nat × β) : ∀ l : List (Nat × β), (insertByKey x l).length = l.length + 1 := by
  intro l
  induction l with
  | nil => rfl
  | cons y ys ih => simp only [insertByKey]; split <;> simp [ih]

theorem foldl_insertByKey_length {β} : ∀ (l acc : List (Nat × β)), (l.foldl (fun acc x => insertByKey x acc) acc).length = acc.length + l.length := by
  intro l
  induction l with
  | nil => intro acc; simp
  | cons x xs ih => intro acc; simp only [List.foldl_cons, ih, insertByKey_length, List.length_cons]; omega

theorem toTuple_length {α} (t : FromArgs α) (tbl : List α) (h : t.toTuple = .ok tbl) : tbl.length = t.len := by
  unfold FromArgs.toTuple at h
  simp only at h
  split at h
  · simp only [pure, Except.pure, Except.ok.injEq] at h
    subst h
    simp [foldl_insertByKey_length, FromArgs.len]
  · simp [throw, throwThe, MonadExceptOf.throw] at h

/-- **Free-variable operands.**  Whenever `blocks_to_bytes` returns, every instruction that names a free variable carries
    `len(co_cellvars) + index of the variable in freevars` — with the `co_cellvars` that is actually emitted: the cell
    variables are all known before the first operand is resolved, whether they come from instructions or only from the
    additional arguments, and the table does not grow afterwards. -/
theorem blocksToBytes_free (v : Ver) (blocks : List (List Instr)) (addArgs : List Arg) (fv : List PStr) (tp : Option Function)
    (out : BlocksOut) (h : blocksToBytes v blocks addArgs fv tp = .ok out) :
    ∃ args : List Int, out.code = (emit blocks.flatten args 0).1 ∧
      ∀ (j : Nat) (ins : Instr) (s : PStr) (a : Int), blocks.flatten[j]? = some ins → ins.arg = .free s → args[j]? = some a →
        ∃ idx, indexOfStr s fv = some idx ∧ a = ((out.cellvars.length + idx : Nat) : Int) := by
  unfold blocksToBytes at h
  obtain ⟨st0, h0, h⟩ := bind_ok' h
  obtain ⟨cv, hcv, h⟩ := bind_ok' h
  obtain ⟨⟨st1, args0⟩, hres, h⟩ := bind_ok' h
  obtain ⟨args, hrelax, h⟩ := bind_ok' h
  obtain ⟨st2, hadd, h⟩ := bind_ok' h
  obtain ⟨names, hn, h⟩ := bind_ok' h
  obtain ⟨varnames, hv, h⟩ := bind_ok' h
  obtain ⟨cellvars, hc, h⟩ := bind_ok' h
  obtain ⟨consts, hk, h⟩ := bind_ok' h
  simp only [pure, Except.pure, Except.ok.injEq] at h
  subst h
  obtain ⟨hknown, _, _⟩ := collectCells_known _ _ _ hcv
  have hk1 : CellsKnown cv (blocks.flatten.map Instr.arg) := fun s o hm => hknown s o (List.mem_append.mpr (Or.inl hm))
  have hk2 : CellsKnown cv addArgs := fun s o hm => hknown s o (List.mem_append.mpr (Or.inr hm))
  obtain ⟨l1, p1, q1, f1⟩ := resolveArgs_cells tp fv _ { st0 with cellvars := cv } st1 args0 hk1 hres
  have hk2' : CellsKnown st1.cellvars addArgs := fun s o hm => CellKnown.mono p1 q1 (hk2 s o hm)
  have l2 := addAdditional_cells tp fv _ _ _ hk2' hadd
  have hlen : cellvars.length = cv.len := by rw [toTuple_length _ _ hc, l2, l1]
  have hal : blocks.flatten.length = args0.length := by
    have i0 := encInit_inv tp st0 h0
    have i0' : InvAll { st0 with cellvars := cv } := ⟨i0.n, i0.v, collectCells_inv _ _ _ i0.c hcv, i0.k⟩
    exact ((resolveArgs_spec tp fv _ _ _ _ i0' hres).2.2.1).symm
  refine ⟨args, rfl, ?_⟩
  intro j ins s a hi hia ha
  have hnj := relax_nonjump v _ _ _ _ _ hal hrelax j ins hi (by simp [hia, isJump])
  rw [ha] at hnj
  obtain ⟨idx, h3, h4⟩ := f1 j ins s a hi hia hnj.symm
  exact ⟨idx, h3, by rw [h4, hlen]⟩

end CDV
