import CDVProofs.TablesRT5
/-! # The operand tables survive `from_code` → `to_code`: the statement for `to_code_data` -/
namespace CDV
open CDV.LT (LMap)

/-- the parameters `to_code_data` cuts out of `co_varnames` -/
theorem decodeHeader_args (v : Ver) (F : FlagTable) (argc pos kw fl : Nat) (varnames freevars cellvars : List PStr) (constants : List Const)
    (tp : Option Function) (ann nested : Bool) (args : Args)
    (h : decodeHeader v F argc pos kw fl varnames freevars cellvars constants = .ok (tp, ann, nested, args)) :
    argsFromInput ⟨argc, if v.hasPosOnly then pos else 0, kw, varnames, fl.testBit bVARARGS, fl.testBit bVARKEYWORDS⟩ = .ok args := by
  unfold decodeHeader at h
  obtain ⟨S, hS, h⟩ := bind_ok h
  obtain ⟨a, hargs, h⟩ := bind_ok h
  dsimp only at h
  split at h
  · exact absurd h (throw_ne_ok _)
  obtain ⟨⟨tp', f5⟩, htp, h⟩ := bind_ok h
  dsimp only at h
  split at h
  · exact absurd h (throw_ne_ok _)
  simp only [pure, Except.pure, Except.ok.injEq, Prod.mk.injEq] at h
  obtain ⟨_, _, _, rfl⟩ := h
  have hmem := toFlags_mem_iff F fl S hS
  have hva : S.contains bVARARGS = fl.testBit bVARARGS := by
    cases hb : fl.testBit bVARARGS
    · cases hc : S.contains bVARARGS
      · rfl
      · rw [List.contains_iff_mem, hmem, hb] at hc; cases hc
    · rw [List.contains_iff_mem, hmem]; exact hb
  have hvk : S.contains bVARKEYWORDS = fl.testBit bVARKEYWORDS := by
    cases hb : fl.testBit bVARKEYWORDS
    · cases hc : S.contains bVARKEYWORDS
      · rfl
      · rw [List.contains_iff_mem, hmem, hb] at hc; cases hc
    · rw [List.contains_iff_mem, hmem]; exact hb
  rw [hva, hvk] at hargs
  exact hargs

/-- **`from_code` then `to_code` reproduces the four operand tables.**  For every code object on which `from_code`
    succeeds and whose parameters are distinct names at the start of `co_varnames` (CPython guarantees both): whenever
    `blocks_to_bytes` returns for the decoded data, the `co_names`, `co_varnames`, `co_cellvars` and `co_consts` it
    emits are the original tuples (constants: the decoded ones, which `from_code_data` re-encodes one by one) — same
    entries, same order, nothing missing, nothing extra, whatever the order of uses, repeated uses, entries no
    instruction uses, entries that collide under `constant_key`. -/
theorem decoded_tables_roundtrip (v : Ver) (T : OpTable) (F : FlagTable) (dec : RawCode → R CodeData)
    (argc pos kw nl ss fl : Nat) (fln : Int) (code lt : List Nat) (fname name : PStr) (names varnames freevars cellvars : List PStr)
    (consts : List RConst) (d : CodeData)
    (h : toCodeDataGo v T F dec (.mk argc pos kw nl ss fl fln code lt fname name names varnames freevars cellvars consts) = .ok d)
    (hlen : argc + kw + (if fl.testBit bVARARGS then 1 else 0) + (if fl.testBit bVARKEYWORDS then 1 else 0) ≤ varnames.length)
    (hnodup : (varnames.take (argc + kw + (if fl.testBit bVARARGS then 1 else 0) + (if fl.testBit bVARKEYWORDS then 1 else 0))).Nodup) :
    ∃ (K : List Const) (blocks : List (List Instr)) (tp : Option Function) (ann nested : Bool) (al : Option AdditionalLine) (aa : List Arg),
      d = .mk blocks fname fln name ss tp freevars ann nested al aa ∧
      consts.mapM (fun c => match c with | .inner i => pure (Const.inner i) | .code k => Const.code <$> dec k) = .ok K ∧
      ∀ out, blocksToBytes v blocks aa freevars tp = .ok out →
        out.names = names ∧ out.varnames = varnames ∧ out.cellvars = cellvars ∧ out.consts = K := by
  unfold toCodeDataGo at h
  dsimp only at h
  split at h
  · exact absurd h (throw_bind_ne _ _)
  obtain ⟨lm, hlm, h⟩ := bind_ok h
  obtain ⟨K, hK, h⟩ := bind_ok h
  obtain ⟨⟨tp, ann, nested, args⟩, hhdr, h⟩ := bind_ok h
  obtain ⟨⟨st', blocks⟩, hbody, h⟩ := bind_ok h
  obtain ⟨⟨al, aa⟩, htail, h⟩ := bind_ok h
  simp only [pure, Except.pure, Except.ok.injEq] at h
  refine ⟨K, blocks, tp, ann, nested, al, aa, h.symm, hK, ?_⟩
  intro out henc
  obtain ⟨hnone, hsome, _⟩ := decodeHeader_tp v F argc pos kw fl varnames freevars cellvars K tp ann nested args hhdr
  have hargs := decodeHeader_args v F argc pos kw fl varnames freevars cellvars K tp ann nested args hhdr
  obtain ⟨r1, r2, r3, r4, r5, r6, r7⟩ := header_args_roundtrip argc _ kw varnames _ _ args hargs hlen hnodup
  have hnp : args.len = argc + kw + (if fl.testBit bVARARGS then 1 else 0) + (if fl.testBit bVARKEYWORDS then 1 else 0) := by
    unfold Args.len
    rw [r6, r4, r5]
    omega
  exact body_tables v T names varnames freevars cellvars K (shiftLines lm fln) tp args.len code st' blocks code.length al aa out hbody htail
    (fun f hf => (hsome f hf).2) hnone
    (fun f hf => by rw [(hsome f hf).1, r7, hnp]; exact ⟨rfl, hlen⟩) henc

end CDV
