import CDV.View
/-! normalize: idempotence and invariance of the reading (helper lemmas for C05 / C06) -/
namespace CDV

mutual
theorem normConst_idem : ∀ c, normConst (normConst c) = normConst c
  | .inner _ => rfl
  | .code d => by simp [normConst, normCode_idem d]
theorem normArg_idem : ∀ a, normArg (normArg a) = normArg a
  | .raw _ => rfl
  | .jump .. => rfl
  | .name .. => rfl
  | .varname .. => rfl
  | .const c _ => by simp [normArg, normConst_idem c]
  | .free _ => rfl
  | .cell .. => rfl
  | .noarg _ => rfl
theorem normInstr_idem : ∀ i, normInstr (normInstr i) = normInstr i
  | .mk _ a _ _ _ => by simp [normInstr, normArg_idem a]
theorem normInstrs_idem : ∀ is, normInstrs (normInstrs is) = normInstrs is
  | [] => rfl
  | i :: is => by simp [normInstrs, normInstr_idem i, normInstrs_idem is]
theorem normBlocks_idem : ∀ bs, normBlocks (normBlocks bs) = normBlocks bs
  | [] => rfl
  | b :: bs => by simp [normBlocks, normInstrs_idem b, normBlocks_idem bs]
theorem normCode_idem : ∀ d, normCode (normCode d) = normCode d
  | .mk bl .. => by simp [normCode, normBlocks_idem bl]
end

theorem normInstrs_length : ∀ is, (normInstrs is).length = is.length
  | [] => rfl
  | _ :: is => by simp [normInstrs, normInstrs_length is]

theorem blockStarts_norm : ∀ bs k, blockStarts (normBlocks bs) k = blockStarts bs k
  | [], _ => rfl
  | b :: bs, k => by simp [normBlocks, blockStarts, normInstrs_length, blockStarts_norm bs]

theorem header_norm : ∀ d, (normCode d).header = d.header
  | .mk .. => rfl

mutual
theorem meaningArg_norm (starts : List Nat) : ∀ a, meaningArg starts (normArg a) = meaningArg starts a
  | .raw _ => rfl
  | .jump .. => rfl
  | .name .. => rfl
  | .varname .. => rfl
  | .const (.inner _) _ => rfl
  | .const (.code d) _ => by simp [normArg, normConst, meaningArg, meaningCode_norm d, header_norm]
  | .free _ => rfl
  | .cell .. => rfl
  | .noarg _ => rfl
theorem meaningInstrs_norm (starts : List Nat) : ∀ is, meaningInstrs starts (normInstrs is) = meaningInstrs starts is
  | [] => rfl
  | .mk _ a _ _ _ :: is => by simp [normInstrs, normInstr, meaningInstrs, meaningArg_norm starts a, meaningInstrs_norm starts is]
theorem meaningBlocks_norm (starts : List Nat) : ∀ bs, meaningBlocks starts (normBlocks bs) = meaningBlocks starts bs
  | [] => rfl
  | b :: bs => by simp [normBlocks, meaningBlocks, meaningInstrs_norm starts b, meaningBlocks_norm starts bs]
theorem meaningCode_norm : ∀ d, meaningCode (normCode d) = meaningCode d
  | .mk bl .. => by simp [normCode, meaningCode, blockStarts_norm, meaningBlocks_norm]
end

end CDV
