import CDVProofs.CodeTop
/-! # Every decoded jump designates a block that exists -/
namespace CDV

/-- with jump targets at instruction starts, the block index written into every decoded jump is smaller than the number of blocks -/
theorem jumps_valid (v : Ver) (T : OpTable) (fv : List PStr) (code : List Nat) (raws : List RawI) (st st' : DecSt) (ois : List (Nat × Instr))
    (blocks : List (List Instr))
    (hraws : parseBytes code = .ok raws) (hdec : decodeInstrs v T fv st raws = .ok (st', ois)) (hbl : buildBlocks ois = .ok blocks)
    (hjs : ∀ r ∈ raws, (T.get r.op = .jabs → (decMult v * r.arg).toNat ∈ raws.map (·.first)) ∧
      (T.get r.op = .jrel → ((r.next : Int) + decMult v * r.arg).toNat ∈ raws.map (·.first))) :
    ∀ i ∈ blocks.flatten, ∀ t r, i.arg = .jump t r → t < blocks.length := by
  have hflat := (CDV.Props.C13.C13_partition ois blocks hbl).2
  have hoffs : ois.map (·.1) = raws.map (·.first) := decodeInstrs_offsets v T fv raws st st' ois hdec
  have hoislen : ois.length = raws.length := (decodeInstrs_ok v T fv raws st st' ois hdec).2.1
  have hso : SortedLt (ois.map (·.1)) := by rw [hoffs]; exact parseBytes_sorted code raws hraws
  have hlay := parseBytes_layout code raws hraws
  have hsub : raws ≠ [] → ∀ t ∈ targetsOf ois, t ∈ ois.map (·.1) := by
    intro hne t ht
    rw [hoffs]
    rcases (mem_targetsOf ois t).mp ht with rfl | hjt
    · cases hr : raws with
      | nil => exact absurd hr hne
      | cons r0 rs =>
        rw [hr] at hlay
        simp only [List.map_cons, List.mem_cons]
        left
        exact hlay.1.symm
    · obtain ⟨j, off, op, rel, n, ln, lo, hoj⟩ := mem_jumpTargets_inv ois t hjt
      have hjlt : j < raws.length := by
        rw [← hoislen]; exact (List.getElem?_eq_some_iff.mp hoj).1
      have hr : raws[j]? = some raws[j] := List.getElem?_eq_getElem hjlt
      obtain ⟨i0, ho, _, _, hcl⟩ := flat_at v T fv raws st st' ois hdec (targetsOf ois) j _ hr
      rw [hoj] at ho
      simp only [Option.some.injEq, Prod.mk.injEq] at ho
      obtain ⟨_, hi0⟩ := ho
      have := (hcl t rel (by rw [← hi0]; rfl)).2
      have hjr := hjs raws[j] (List.getElem_mem hjlt)
      rcases this with ⟨hc, _, ht'⟩ | ⟨hc, _, ht'⟩
      · have := hjr.1 hc
        rw [← ht'] at this
        simpa using this
      · have := hjr.2 hc
        rw [← ht'] at this
        simpa using this
  intro i hi t r harg
  rw [hflat] at hi
  obtain ⟨p, hp, rfl⟩ := List.mem_map.mp hi
  have hne : raws ≠ [] := by
    intro h0
    rw [h0] at hoislen
    have : ois = [] := List.eq_nil_of_length_eq_zero hoislen
    rw [this] at hp
    simp at hp
  have hblen := (blockStarts_eq_targets ois blocks hbl hso (hsub hne)).2
  rw [hblen]
  obtain ⟨off, op, a, n, l, o⟩ := p
  cases a with
  | jump t0 r0 =>
    obtain ⟨he, hlt⟩ := CDV.Props.C13.C13_jump_index_in_targets ois off op t0 r0 n l o hp
    dsimp only at harg
    rw [he] at harg
    simp only [Instr.arg, Arg.jump.injEq] at harg
    rw [← harg.1]
    exact hlt
  | _ => simp [retarget, Instr.arg] at harg

/-- **every jump in decoded data designates an existing block** — whenever the jump targets of the bytecode are instruction starts -/
theorem decoded_jumps_valid (v : Ver) (T : OpTable) (F : FlagTable) (dec : RawCode → R CodeData)
    (argc pos kw nl ss fl : Nat) (fln : Int) (code lt : List Nat) (fname name : PStr) (names varnames freevars cellvars : List PStr)
    (consts : List RConst) (d : CodeData)
    (h : toCodeDataGo v T F dec (.mk argc pos kw nl ss fl fln code lt fname name names varnames freevars cellvars consts) = .ok d)
    (hjs : ∀ raws, parseBytes code = .ok raws → ∀ r ∈ raws,
      (T.get r.op = .jabs → (decMult v * r.arg).toNat ∈ raws.map (·.first)) ∧
      (T.get r.op = .jrel → ((r.next : Int) + decMult v * r.arg).toNat ∈ raws.map (·.first))) :
    ∀ i ∈ d.blocks.flatten, ∀ t r, i.arg = .jump t r → t < d.blocks.length := by
  unfold toCodeDataGo at h
  dsimp only at h
  split at h
  · exact absurd h (throw_bind_ne _ _)
  obtain ⟨lm, hlm, h⟩ := bind_ok h
  obtain ⟨K, hK, h⟩ := bind_ok h
  obtain ⟨⟨tp, ann, nested, args⟩, hhdr, h⟩ := bind_ok h
  obtain ⟨⟨st', blocks⟩, hbody, h⟩ := bind_ok h
  obtain ⟨⟨al, aa⟩, htail, h⟩ := bind_ok h
  simp only [pure, Except.pure, Except.ok.injEq] at h
  subst h
  obtain ⟨st0, raws, ois, _, _, _, _, _, hraws, hdec, hbl⟩ :=
    decodeBody_seeds v T names varnames freevars cellvars K (shiftLines lm fln) tp args.len code st' blocks hbody
  exact jumps_valid v T freevars code raws st0 st' ois blocks hraws hdec hbl (hjs raws hraws)

end CDV
