import CDV.Heap
/-! Frame property of the heap model: `from_json_data` writes only into nodes it allocated itself. -/
namespace CDV.Heap

/-- `b` extends `a`: allocation only grows, and every node written since `a` was allocated after `a` -/
def Ext (a b : State) : Prop := a.next ≤ b.next ∧ ∀ id ∈ b.written, id ∈ a.written ∨ a.next ≤ id

theorem Ext.refl (a : State) : Ext a a := ⟨Nat.le_refl _, fun _ h => Or.inl h⟩

theorem Ext.trans {a b c : State} (h1 : Ext a b) (h2 : Ext b c) : Ext a c := by
  refine ⟨Nat.le_trans h1.1 h2.1, fun id hid => ?_⟩
  rcases h2.2 id hid with h | h
  · exact h1.2 id h
  · exact Or.inr (Nat.le_trans h1.1 h)

theorem alloc_ext (s : State) (n : Node) : Ext s (alloc s n).1 ∧ (alloc s n).2 = s.next := by
  refine ⟨⟨by simp [alloc], fun id h => Or.inl (by simpa [alloc] using h)⟩, rfl⟩

theorem copy_ext (s : State) (v : Val) : Ext s (copy s v).1 ∧ ∀ id, (copy s v).2 = .ref id → s.next ≤ id := by
  cases v with
  | scalar => exact ⟨Ext.refl _, fun id h => by simp [copy] at h⟩
  | ref i =>
    simp only [copy]
    cases hl : lookup s i with
    | none => exact ⟨Ext.refl _, fun id h => by simp at h⟩
    | some n =>
      refine ⟨(alloc_ext s n).1, fun id h => ?_⟩
      simp [alloc] at h
      omega

/-- writing into a node that was allocated after `a` keeps the extension -/
theorem setKey_ext (a s : State) (v : Val) (k : String) (h : Ext a s) (hv : ∀ id, v = .ref id → a.next ≤ id) :
    Ext a (setKey s v k) := by
  cases v with
  | scalar => simpa [setKey] using h
  | ref i =>
    simp only [setKey]
    cases hl : lookup s i with
    | none => exact h
    | some n =>
      cases n with
      | list xs => exact h
      | dict kvs =>
        refine ⟨by simpa using h.1, fun id hid => ?_⟩
        simp only [List.mem_cons] at hid
        rcases hid with rfl | hid
        · exact Or.inr (hv _ rfl)
        · exact h.2 id hid

theorem stepConstant_ext (cdf : State → Val → State) (hcdf : ∀ s v, Ext s (cdf s v)) (s : State) (v : Val) :
    Ext s (stepConstant cdf s v) := by
  obtain ⟨hc, hf⟩ := copy_ext s v
  simp only [stepConstant]
  apply setKey_ext s _ _ _ _ hf
  cases getKey (copy s v).1 (copy s v).2 "constant" with
  | none => exact hc
  | some c =>
    simp only
    split
    · exact hc.trans (hcdf _ c)
    · exact hc

theorem stepArg_ext (af : State → Val → State) (haf : ∀ s v, Ext s (af s v)) (s : State) (v a : Val) :
    Ext s (stepArg af s v a) := by
  obtain ⟨hc, hf⟩ := copy_ext s v
  simp only [stepArg]
  exact setKey_ext s _ _ _ (hc.trans (haf _ a)) hf

theorem stepBlocks_ext (bf : State → List Val → State) (hbf : ∀ s l, Ext s (bf s l)) (a s : State) (v' : Val)
    (h : Ext a s) (hf : ∀ id, v' = .ref id → a.next ≤ id) : Ext a (stepBlocks bf s v') := by
  simp only [stepBlocks]
  cases getKey s v' "blocks" with
  | none => exact h
  | some bl => exact setKey_ext a _ v' _ (h.trans (hbf s _)) hf

theorem stepType_ext (a s : State) (v' : Val) (h : Ext a s) (hf : ∀ id, v' = .ref id → a.next ≤ id) :
    Ext a (stepType s v') := by
  simp only [stepType]
  cases getKey s v' "type" with
  | none => exact h
  | some tp0 =>
    obtain ⟨hc2, hf2⟩ := copy_ext s tp0
    simp only
    apply setKey_ext a _ v' _ _ hf
    have hf2' : ∀ id, (copy s tp0).2 = .ref id → a.next ≤ id := fun id hh => Nat.le_trans h.1 (hf2 id hh)
    split
    · exact setKey_ext a _ _ _ (h.trans hc2) hf2'
    · exact h.trans hc2

theorem stepAddArgs_ext (af : State → List Val → State) (haf : ∀ s l, Ext s (af s l)) (a s : State) (v' : Val)
    (h : Ext a s) (hf : ∀ id, v' = .ref id → a.next ≤ id) : Ext a (stepAddArgs af s v') := by
  simp only [stepAddArgs]
  cases getKey s v' "_additional_args" with
  | none => exact h
  | some aa => exact setKey_ext a _ v' _ (h.trans (haf s _)) hf

theorem stepAddLine_ext (a s : State) (v' : Val) (h : Ext a s) (hf : ∀ id, v' = .ref id → a.next ≤ id) :
    Ext a (stepAddLine s v') := by
  simp only [stepAddLine]
  split
  · exact setKey_ext a _ v' _ h hf
  · exact h

/-- all six heap programs at once, by induction on the fuel -/
theorem all_ext : ∀ fuel : Nat,
    (∀ s v, Ext s (argFromJson fuel s v)) ∧ (∀ s v, Ext s (instrFromJson fuel s v)) ∧
    (∀ s l, Ext s (instrsFromJson fuel s l)) ∧ (∀ s l, Ext s (blocksFromJson fuel s l)) ∧
    (∀ s l, Ext s (argsFromJson fuel s l)) ∧ (∀ s v, Ext s (codeDataFromJson fuel s v))
  | 0 => by
    refine ⟨?_, ?_, ?_, ?_, ?_, ?_⟩ <;> intro s v <;> simp [argFromJson, instrFromJson, instrsFromJson, blocksFromJson, argsFromJson, codeDataFromJson, Ext.refl]
  | fuel + 1 => by
    obtain ⟨ihA, ihI, ihIs, ihB, ihAs, ihC⟩ := all_ext fuel
    refine ⟨?_, ?_, ?_, ?_, ?_, ?_⟩
    · intro s v
      simp only [argFromJson]
      split
      · exact stepConstant_ext _ ihC s v
      · exact Ext.refl _
    · intro s v
      simp only [instrFromJson]
      cases getKey s v "arg" with
      | none => exact Ext.refl _
      | some a => exact stepArg_ext _ ihA s v a
    · intro s l
      cases l with
      | nil => simp [instrsFromJson, Ext.refl]
      | cons i is => simp only [instrsFromJson]; exact (ihI s i).trans (ihIs _ is)
    · intro s l
      cases l with
      | nil => simp [blocksFromJson, Ext.refl]
      | cons b bs => simp only [blocksFromJson]; exact (ihIs s _).trans (ihB _ bs)
    · intro s l
      cases l with
      | nil => simp [argsFromJson, Ext.refl]
      | cons a as => simp only [argsFromJson]; exact (ihA s a).trans (ihAs _ as)
    · intro s v
      simp only [codeDataFromJson]
      obtain ⟨hc, hf⟩ := copy_ext s v
      exact stepAddLine_ext s _ _ (stepAddArgs_ext _ ihAs s _ _ (stepType_ext s _ _ (stepBlocks_ext _ ihB s _ _ hc hf) hf) hf) hf

/-- **frame**: after `from_json_data`, every node that was written into was allocated by the call itself -/
theorem codeDataFromJson_frame (fuel : Nat) (s : State) (v : Val) (hw : s.written = []) :
    ∀ id ∈ (codeDataFromJson fuel s v).written, s.next ≤ id := by
  intro id hid
  rcases ((all_ext fuel).2.2.2.2.2 s v).2 id hid with h | h
  · simp [hw] at h
  · exact h

end CDV.Heap
