import CDVProofs.Bytes
/-! The operand-width fix point of `blocks_to_bytes` (`relax`): what holds when the loop exits (every jump operand
    designates the start of its target block in the *final* layout), and that the loop exits (termination, with an
    explicit bound on the number of passes). -/
namespace CDV

/-- the operand a jump gets from a layout `offs` (offset in code units before each instruction, total at the end) -/
def newArgOf (v : Ver) (offs : List Nat) (s k : Nat) (rel : Bool) : Int :=
  let mult : Int := if v.is310 then 1 else 2
  let tgt : Int := offs.getD s 0
  let cur : Int := offs.getD (k + 1) 0
  if rel then (tgt - cur) * mult else mult * tgt

def szs (is : List Instr) (as : List Int) : List Nat := (is.zip as).map (fun p => sizeOfI p.1.nov p.2)

/-- pure rendering of the operand update of one pass -/
def newArgs (v : Ver) (starts offs : List Nat) : List Instr → List Int → Nat → List Int
  | i :: is, a :: as, k =>
    (match i.arg with
      | .jump t rel => newArgOf v offs (starts.getD t 0) k rel
      | _ => a) :: newArgs v starts offs is as (k + 1)
  | _, _, _ => []

def noOverride : Option Nat → Bool
  | some (_+1) => false
  | _ => true

/-- pure rendering of the "some instruction changed length" flag of one pass -/
def changed (v : Ver) (starts offs : List Nat) : List Instr → List Int → Nat → Bool
  | i :: is, a :: as, k =>
    changed v starts offs is as (k + 1) ||
    (match i.arg with
      | .jump t rel => noOverride i.nov && sizeOfI i.nov a != instrsize (newArgOf v offs (starts.getD t 0) k rel)
      | _ => false)
  | _, _, _ => false

def TargetsOK (starts : List Nat) (is : List Instr) : Prop :=
  ∀ i ∈ is, ∀ t rel, i.arg = .jump t rel → t < starts.length

theorem relaxGo_eq (v : Ver) (starts offs : List Nat) : ∀ (is : List Instr) (as : List Int) (k : Nat), TargetsOK starts is →
    relaxGo v starts offs is as k = .ok (newArgs v starts offs is as k, changed v starts offs is as k) := by
  intro is
  induction is with
  | nil => intro as k _; simp [relaxGo, newArgs, changed, pure, Except.pure]
  | cons i is ih =>
    intro as k ht
    cases as with
    | nil => simp [relaxGo, newArgs, changed, pure, Except.pure]
    | cons a as =>
      have ht' : TargetsOK starts is := fun j hj => ht j (by simp [hj])
      rw [relaxGo, ih as (k + 1) ht']
      simp only [bind, Except.bind, newArgs, changed]
      cases hia : i.arg with
      | jump t rel =>
        have hlt : t < starts.length := ht i (by simp) t rel hia
        simp only [List.getElem?_eq_getElem hlt, List.getD_eq_getElem?_getD, Option.getD_some, pure, Except.pure]
        cases hnov : i.nov with
        | none => simp [noOverride, newArgOf]
        | some n => cases n <;> simp [noOverride, newArgOf]
      | _ => simp only [pure, Except.pure, Bool.or_false]

/-- the only exception one pass can raise is the `KeyError` for a jump to a block that does not exist -/
theorem relaxGo_err (v : Ver) (starts offs : List Nat) : ∀ (is : List Instr) (as : List Int) (k : Nat) (e : Err),
    relaxGo v starts offs is as k = .error e → e = .raised := by
  intro is
  induction is with
  | nil => intro as k e h; simp [relaxGo, pure, Except.pure] at h
  | cons i is ih =>
    intro as k e h
    cases as with
    | nil => simp [relaxGo, pure, Except.pure] at h
    | cons a as =>
      rw [relaxGo] at h
      cases hr : relaxGo v starts offs is as (k + 1) with
      | error e' =>
        rw [hr] at h
        simp only [bind, Except.bind, Except.error.injEq] at h
        subst h
        exact ih as (k + 1) e' hr
      | ok rc =>
        rw [hr] at h
        simp only [bind, Except.bind] at h
        cases hia : i.arg with
        | jump t rel =>
          simp only [hia] at h
          cases hs : starts[t]? with
          | none => simp only [hs, throw, throwThe, MonadExceptOf.throw, Except.error.injEq] at h; exact h.symm
          | some s => simp [hs, pure, Except.pure] at h
        | _ => simp [hia, pure, Except.pure] at h

theorem newArgs_length (v : Ver) (starts offs : List Nat) : ∀ (is : List Instr) (as : List Int) (k : Nat), is.length = as.length →
    (newArgs v starts offs is as k).length = is.length := by
  intro is
  induction is with
  | nil => intro as k _; simp [newArgs]
  | cons i is ih =>
    intro as k hl
    cases as with
    | nil => simp at hl
    | cons a as => simp only [List.length_cons, Nat.add_right_cancel_iff] at hl; simp [newArgs, ih as (k + 1) hl]

/-- when a pass reports "nothing changed", every instruction keeps its width -/
theorem szs_of_unchanged (v : Ver) (starts offs : List Nat) : ∀ (is : List Instr) (as : List Int) (k : Nat), is.length = as.length →
    changed v starts offs is as k = false → szs is (newArgs v starts offs is as k) = szs is as := by
  intro is
  induction is with
  | nil => intro as k _ _; simp [szs]
  | cons i is ih =>
    intro as k hl hc
    cases as with
    | nil => simp at hl
    | cons a as =>
      simp only [List.length_cons, Nat.add_right_cancel_iff] at hl
      simp only [changed, Bool.or_eq_false_iff] at hc
      have := ih as (k + 1) hl hc.1
      simp only [szs, newArgs, List.zip_cons_cons, List.map_cons, List.cons.injEq] at this ⊢
      refine ⟨?_, this⟩
      cases hia : i.arg with
      | jump t rel =>
        have h2 := hc.2
        simp only [hia] at h2 ⊢
        cases hnov : i.nov with
        | none => simp [hnov, noOverride, sizeOfI] at h2; simp only [sizeOfI]; exact h2.symm
        | some n =>
          cases n with
          | zero => simp [hnov, noOverride, sizeOfI] at h2; simp only [sizeOfI]; exact h2.symm
          | succ m => simp [sizeOfI]
      | _ => rfl

/-- what a jump operand is after a pass -/
theorem newArgs_get (v : Ver) (starts offs : List Nat) : ∀ (is : List Instr) (as : List Int) (k j : Nat) (i : Instr), is.length = as.length →
    is[j]? = some i →
    (newArgs v starts offs is as k)[j]? =
      (match i.arg with
        | .jump t rel => some (newArgOf v offs (starts.getD t 0) (k + j) rel)
        | _ => as[j]?) := by
  intro is
  induction is with
  | nil => intro as k j i _ h; simp at h
  | cons i0 is ih =>
    intro as k j i hl hi
    cases as with
    | nil => simp at hl
    | cons a as =>
      simp only [List.length_cons, Nat.add_right_cancel_iff] at hl
      cases j with
      | zero =>
        simp only [List.getElem?_cons_zero, Option.some.injEq] at hi
        subst hi
        simp only [newArgs, List.getElem?_cons_zero, Nat.add_zero]
        cases i0.arg <;> rfl
      | succ j =>
        simp only [List.getElem?_cons_succ] at hi
        simp only [newArgs, List.getElem?_cons_succ]
        rw [ih as (k + 1) j i hl hi]
        have : k + 1 + j = k + (j + 1) := by omega
        rw [this]

theorem relax_exit (v : Ver) (instrs : List Instr) (starts : List Nat) : ∀ (fuel : Nat) (args res : List Int),
    relax v instrs starts fuel args = .ok res → ∃ a, relaxPass v instrs starts a = .ok (res, false) := by
  intro fuel
  induction fuel with
  | zero => intro args res h; simp [relax, throw, throwThe, MonadExceptOf.throw] at h
  | succ f ih =>
    intro args res h
    rw [relax] at h
    obtain ⟨⟨a', ch⟩, hp, h⟩ := bind_ok h
    cases ch with
    | true => exact ih a' res (by simpa using h)
    | false =>
      simp only [Bool.false_eq_true, if_false, pure, Except.pure, Except.ok.injEq] at h
      subst h
      exact ⟨args, hp⟩

theorem relaxGo_ok_targets (v : Ver) (starts offs : List Nat) : ∀ (is : List Instr) (as : List Int) (k : Nat) (r : List Int × Bool),
    is.length = as.length → relaxGo v starts offs is as k = .ok r → TargetsOK starts is := by
  intro is
  induction is with
  | nil => intro as k r _ _ i hi; simp at hi
  | cons i0 is ih =>
    intro as k r hl h
    cases as with
    | nil => simp at hl
    | cons a as =>
      simp only [List.length_cons, Nat.add_right_cancel_iff] at hl
      rw [relaxGo] at h
      obtain ⟨rc, hrc, h⟩ := bind_ok h
      have htl := ih as (k + 1) rc hl hrc
      intro i hi t rel hia
      rcases List.mem_cons.mp hi with rfl | hi
      · simp only [hia] at h
        cases hs : starts[t]? with
        | none => simp [hs, throw, throwThe, MonadExceptOf.throw] at h
        | some s =>
          have := (List.getElem?_eq_some_iff.mp hs).1
          exact this
      · exact htl i hi t rel hia

theorem relaxPass_eq (v : Ver) (instrs : List Instr) (starts : List Nat) (args : List Int) :
    relaxPass v instrs starts args = relaxGo v starts (prefixSums (szs instrs args) 0) instrs args 0 := rfl

theorem relax_exit_len (v : Ver) (instrs : List Instr) (starts : List Nat) : ∀ (fuel : Nat) (args res : List Int),
    instrs.length = args.length → relax v instrs starts fuel args = .ok res →
    ∃ a, instrs.length = a.length ∧ relaxPass v instrs starts a = .ok (res, false) := by
  intro fuel
  induction fuel with
  | zero => intro args res _ h; simp [relax, throw, throwThe, MonadExceptOf.throw] at h
  | succ f ih =>
    intro args res hl h
    rw [relax] at h
    obtain ⟨⟨a', ch⟩, hp, h⟩ := bind_ok h
    cases ch with
    | true =>
      refine ih a' res ?_ (by simpa using h)
      rw [relaxPass_eq] at hp
      have ht := relaxGo_ok_targets v starts _ instrs args 0 _ hl hp
      rw [relaxGo_eq v starts _ instrs args 0 ht] at hp
      simp only [Except.ok.injEq, Prod.mk.injEq] at hp
      rw [← hp.1, newArgs_length _ _ _ _ _ _ hl]
    | false =>
      simp only [Bool.false_eq_true, if_false, pure, Except.pure, Except.ok.injEq] at h
      subst h
      exact ⟨args, hl, hp⟩

/-- **Every jump lands.**  Whenever the operand-width loop returns, in the layout that is then assembled
    (`prefixSums` of the final instruction widths) every jump operand designates exactly the first instruction of its
    target block — absolute jumps by its offset, relative jumps by its distance from the next instruction — and every
    other operand is what operand resolution gave. -/
theorem relax_lands (v : Ver) (instrs : List Instr) (starts : List Nat) (fuel : Nat) (args res : List Int)
    (hl : instrs.length = args.length) (h : relax v instrs starts fuel args = .ok res) :
    res.length = instrs.length ∧
    ∀ (j : Nat) (i : Instr), instrs[j]? = some i →
      (∀ t rel, i.arg = .jump t rel →
        ∃ s, starts[t]? = some s ∧ res[j]? = some (newArgOf v (prefixSums (szs instrs res) 0) s j rel)) := by
  obtain ⟨a, hla, hp⟩ := relax_exit_len v instrs starts fuel args res hl h
  rw [relaxPass_eq] at hp
  have ht := relaxGo_ok_targets v starts _ instrs a 0 _ hla hp
  rw [relaxGo_eq v starts _ instrs a 0 ht] at hp
  simp only [Except.ok.injEq, Prod.mk.injEq] at hp
  obtain ⟨hres, hch⟩ := hp
  have hsz := szs_of_unchanged v starts _ instrs a 0 hla hch
  rw [hres] at hsz
  refine ⟨by rw [← hres, newArgs_length _ _ _ _ _ _ hla], ?_⟩
  intro j i hi t rel hia
  have hmem : i ∈ instrs := List.mem_of_getElem? hi
  have hlt := ht i hmem t rel hia
  refine ⟨starts[t], List.getElem?_eq_getElem hlt, ?_⟩
  have := newArgs_get v starts (prefixSums (szs instrs a) 0) instrs a 0 j i hla hi
  rw [hres] at this
  rw [this, hia, hsz]
  simp [List.getD_eq_getElem?_getD, List.getElem?_eq_getElem hlt]

/-- operands that are not jumps are never touched by the loop -/
theorem relax_nonjump (v : Ver) (instrs : List Instr) (starts : List Nat) : ∀ (fuel : Nat) (args res : List Int),
    instrs.length = args.length → relax v instrs starts fuel args = .ok res →
    ∀ (j : Nat) (i : Instr), instrs[j]? = some i → isJump i.arg = false → res[j]? = args[j]? := by
  intro fuel
  induction fuel with
  | zero => intro args res _ h; simp [relax, throw, throwThe, MonadExceptOf.throw] at h
  | succ f ih =>
    intro args res hl h j i hi hnj
    rw [relax] at h
    obtain ⟨⟨a', ch⟩, hp, h⟩ := bind_ok h
    rw [relaxPass_eq] at hp
    have ht := relaxGo_ok_targets v starts _ instrs args 0 _ hl hp
    rw [relaxGo_eq v starts _ instrs args 0 ht] at hp
    simp only [Except.ok.injEq, Prod.mk.injEq] at hp
    have hget := newArgs_get v starts (prefixSums (szs instrs args) 0) instrs args 0 j i hl hi
    have hstep : a'[j]? = args[j]? := by
      rw [← hp.1, hget]
      cases hia : i.arg <;> simp_all [isJump]
    cases ch with
    | true =>
      have hl' : instrs.length = a'.length := by rw [← hp.1, newArgs_length _ _ _ _ _ _ hl]
      rw [ih a' res hl' (by simpa using h) j i hi hnj, hstep]
    | false =>
      simp only [Bool.false_eq_true, if_false, pure, Except.pure, Except.ok.injEq] at h
      subst h
      exact hstep

/-! ### termination of the loop -/

/-- `(prefixSums X a)[s]`, 0 outside -/
def psum (X : List Nat) (a s : Nat) : Nat := (prefixSums X a).getD s 0

theorem prefixSums_length : ∀ (X : List Nat) (a : Nat), (prefixSums X a).length = X.length + 1 := by
  intro X; induction X with
  | nil => intro a; simp [prefixSums]
  | cons x X ih => intro a; simp [prefixSums, ih]

@[simp] theorem psum_zero (X : List Nat) (a : Nat) : psum X a 0 = a := by
  cases X <;> simp [psum, prefixSums]
@[simp] theorem psum_succ (x : Nat) (X : List Nat) (a s : Nat) : psum (x :: X) a (s + 1) = psum X (a + x) s := by
  simp [psum, prefixSums]
theorem psum_nil_succ (a s : Nat) : psum [] a (s + 1) = 0 := by simp [psum, prefixSums]

theorem psum_out : ∀ (X : List Nat) (a s : Nat), X.length < s → psum X a s = 0 := by
  intro X; induction X with
  | nil => intro a s h; cases s with
    | zero => simp at h
    | succ s => exact psum_nil_succ a s
  | cons x X ih => intro a s h; cases s with
    | zero => simp at h
    | succ s => simp only [psum_succ]; exact ih _ _ (by simpa using h)

theorem psum_ge : ∀ (X : List Nat) (a s : Nat), s ≤ X.length → a ≤ psum X a s := by
  intro X; induction X with
  | nil => intro a s h; simp at h; subst h; simp
  | cons x X ih => intro a s h; cases s with
    | zero => simp
    | succ s => simp only [psum_succ]; have := ih (a + x) s (by simpa using h); omega

/-- widths are at least one code unit: the layout is strictly increasing -/
theorem psum_strict : ∀ (X : List Nat) (a c s : Nat), (∀ x ∈ X, 1 ≤ x) → c < s → s ≤ X.length → psum X a c < psum X a s := by
  intro X; induction X with
  | nil => intro a c s _ h1 h2; simp at h2; omega
  | cons x X ih =>
    intro a c s hx h1 h2
    cases s with
    | zero => omega
    | succ s =>
      have hx1 : 1 ≤ x := hx x (by simp)
      have hX : ∀ y ∈ X, 1 ≤ y := fun y hy => hx y (by simp [hy])
      cases c with
      | zero =>
        simp only [psum_zero, psum_succ]
        have := psum_ge X (a + x) s (by simpa using h2)
        omega
      | succ c =>
        simp only [psum_succ]
        exact ih (a + x) c s hX (by omega) (by simpa using h2)

/-- pointwise `≤` of two lists of the same length -/
inductive LeL : List Nat → List Nat → Prop
  | nil : LeL [] []
  | cons {x y : Nat} {X Y : List Nat} : x ≤ y → LeL X Y → LeL (x :: X) (y :: Y)

theorem psum_excess : ∀ (X Y : List Nat), LeL X Y → ∀ (a b s : Nat), s ≤ X.length →
    (psum X a s : Int) - a ≤ (psum Y b s : Int) - b := by
  intro X Y h
  induction h with
  | nil => intro a b s hs; simp at hs; subst hs; simp
  | @cons x y X Y hxy _ ih =>
    intro a b s hs
    cases s with
    | zero => simp
    | succ s =>
      simp only [psum_succ]
      have := ih (a + x) (b + y) s (by simpa using hs)
      omega

theorem psum_diff_mono : ∀ (X Y : List Nat), LeL X Y → ∀ (a b c s : Nat), c ≤ s → s ≤ X.length →
    (psum X a s : Int) - psum X a c ≤ (psum Y b s : Int) - psum Y b c := by
  intro X Y h
  induction h with
  | nil => intro a b c s h1 h2; simp at h2; subst h2; have : c = 0 := by omega
           subst this; simp
  | @cons x y X Y hxy hXY ih =>
    intro a b c s h1 h2
    cases s with
    | zero => have : c = 0 := by omega
              subst this; simp
    | succ s =>
      cases c with
      | zero =>
        simp only [psum_zero]
        exact psum_excess (x :: X) (y :: Y) (LeL.cons hxy hXY) a b (s + 1) h2
      | succ c =>
        simp only [psum_succ]
        exact ih _ _ c s (by omega) (by simpa using h2)

theorem forall₂_length {l1 l2 : List Nat} (h : LeL l1 l2) : l1.length = l2.length := by
  induction h with
  | nil => rfl
  | cons _ _ ih => simp [ih]

/-- what the per-jump monotonicity needs from two layouts -/
structure OffsMono (A B : List Nat) : Prop where
  abs : ∀ s, A.getD s 0 ≤ B.getD s 0
  rel : ∀ s c, 1 ≤ c → c < A.length →
    (((A.getD s 0 : Int) - A.getD c 0 < 0) ∧ ((B.getD s 0 : Int) - B.getD c 0 < 0)) ∨
    ((0 : Int) ≤ (A.getD s 0 : Int) - A.getD c 0 ∧ (A.getD s 0 : Int) - A.getD c 0 ≤ (B.getD s 0 : Int) - B.getD c 0)

theorem offsMono_prefixSums (X Y : List Nat) (h : LeL X Y) (hx : ∀ x ∈ X, 1 ≤ x) (hy : ∀ y ∈ Y, 1 ≤ y) :
    OffsMono (prefixSums X 0) (prefixSums Y 0) := by
  have hlen := forall₂_length h
  constructor
  · intro s
    show psum X 0 s ≤ psum Y 0 s
    by_cases hs : s ≤ X.length
    · have := psum_excess X Y h 0 0 s hs; omega
    · rw [psum_out X 0 s (by omega), psum_out Y 0 s (by omega)]; omega
  · intro s c hc1 hc2
    rw [prefixSums_length] at hc2
    show ((psum X 0 s : Int) - psum X 0 c < 0 ∧ (psum Y 0 s : Int) - psum Y 0 c < 0) ∨
      ((0 : Int) ≤ (psum X 0 s : Int) - psum X 0 c ∧ (psum X 0 s : Int) - psum X 0 c ≤ (psum Y 0 s : Int) - psum Y 0 c)
    have hcX : 0 < psum X 0 c := by have := psum_strict X 0 0 c hx (by omega) (by omega); simpa using this
    have hcY : 0 < psum Y 0 c := by have := psum_strict Y 0 0 c hy (by omega) (by omega); simpa using this
    by_cases hs : s ≤ X.length
    · by_cases hsc : s < c
      · left
        have := psum_strict X 0 s c hx hsc (by omega)
        have := psum_strict Y 0 s c hy hsc (by omega)
        omega
      · right
        have h1 := psum_diff_mono X Y h 0 0 c s (by omega) hs
        have h2 : psum X 0 c ≤ psum X 0 s := by
          rcases Nat.lt_or_ge c s with h | h
          · exact Nat.le_of_lt (psum_strict X 0 c s hx h hs)
          · have : c = s := by omega
            subst this; exact Nat.le_refl _
        omega
    · left
      rw [psum_out X 0 s (by omega), psum_out Y 0 s (by omega)]
      omega

theorem instrsize_mono (a b : Int) (h0 : 0 ≤ a) (h : a ≤ b) : instrsize a ≤ instrsize b := by
  unfold instrsize
  simp only [Extracted.instrsizeLimit1, Extracted.instrsizeLimit2, Extracted.instrsizeLimit3]
  repeat' split
  all_goals omega

theorem instrsize_neg (a : Int) (h : a < 0) : instrsize a = 4 := by
  unfold instrsize; simp [h]

theorem instrsize_pos (a : Int) : 1 ≤ instrsize a := by
  unfold instrsize; split <;> try split <;> try split <;> try split
  all_goals omega

theorem newArg_size_mono (v : Ver) (A B : List Nat) (hm : OffsMono A B) (s k : Nat) (rel : Bool) (hk : k + 1 < A.length) :
    instrsize (newArgOf v A s k rel) ≤ instrsize (newArgOf v B s k rel) := by
  unfold newArgOf
  cases rel with
  | false =>
    simp only [Bool.false_eq_true, if_false]
    have := hm.abs s
    apply instrsize_mono
    · split <;> omega
    · split <;> omega
  | true =>
    simp only [if_true]
    rcases hm.rel s (k + 1) (by omega) hk with ⟨h1, h2⟩ | ⟨h1, h2⟩
    · have e1 : ((A.getD s 0 : Int) - A.getD (k + 1) 0) * (if v.is310 = true then 1 else 2) < 0 := by split <;> omega
      have e2 : ((B.getD s 0 : Int) - B.getD (k + 1) 0) * (if v.is310 = true then 1 else 2) < 0 := by split <;> omega
      rw [instrsize_neg _ e1, instrsize_neg _ e2]
      exact Nat.le_refl _
    · apply instrsize_mono
      · split <;> omega
      · split <;> omega

/-- pointwise: widths under `as` ≤ widths under `bs`, operands that are not jumps equal -/
def SzLE : List Instr → List Int → List Int → Prop
  | i :: is, a :: as, b :: bs => sizeOfI i.nov a ≤ sizeOfI i.nov b ∧ (isJump i.arg = false → a = b) ∧ SzLE is as bs
  | [], [], [] => True
  | _, _, _ => False

theorem SzLE.forall₂ : ∀ (is : List Instr) (as bs : List Int), SzLE is as bs → LeL (szs is as) (szs is bs) := by
  intro is
  induction is with
  | nil => intro as bs h; cases as <;> cases bs <;> first | exact LeL.nil | simp_all [SzLE]
  | cons i is ih =>
    intro as bs h
    cases as with
    | nil => simp [SzLE] at h
    | cons a as => cases bs with
      | nil => simp [SzLE] at h
      | cons b bs =>
        simp only [SzLE] at h
        simp only [szs, List.zip_cons_cons, List.map_cons]
        exact LeL.cons h.1 (ih as bs h.2.2)

theorem SzLE.len : ∀ (is : List Instr) (as bs : List Int), SzLE is as bs → is.length = as.length ∧ is.length = bs.length := by
  intro is
  induction is with
  | nil => intro as bs h; cases as <;> cases bs <;> simp_all [SzLE]
  | cons i is ih =>
    intro as bs h
    cases as with
    | nil => simp [SzLE] at h
    | cons a as => cases bs with
      | nil => simp [SzLE] at h
      | cons b bs =>
        simp only [SzLE] at h
        have := ih as bs h.2.2
        simp [this.1, ← this.2]

theorem szs_pos (is : List Instr) (as : List Int) : ∀ x ∈ szs is as, 1 ≤ x := by
  intro x hx
  simp only [szs, List.mem_map] at hx
  obtain ⟨p, _, rfl⟩ := hx
  exact sizeOfI_pos _ _

theorem sizeOfI_noOverride (nov : Option Nat) (a : Int) (h : noOverride nov = true) : sizeOfI nov a = instrsize a := by
  unfold noOverride at h; unfold sizeOfI
  split <;> simp_all

theorem sizeOfI_override (nov : Option Nat) (a b : Int) (h : noOverride nov = false) : sizeOfI nov a = sizeOfI nov b := by
  unfold noOverride at h; unfold sizeOfI
  split <;> simp_all

/-- one pass is monotone in the widths -/
theorem newArgs_mono (v : Ver) (starts A B : List Nat) (hm : OffsMono A B) : ∀ (is : List Instr) (as bs : List Int) (k : Nat),
    SzLE is as bs → k + is.length < A.length → SzLE is (newArgs v starts A is as k) (newArgs v starts B is bs k) := by
  intro is
  induction is with
  | nil => intro as bs k h _; cases as <;> cases bs <;> simp_all [SzLE, newArgs]
  | cons i is ih =>
    intro as bs k h hk
    cases as with
    | nil => simp [SzLE] at h
    | cons a as => cases bs with
      | nil => simp [SzLE] at h
      | cons b bs =>
        simp only [SzLE] at h
        simp only [List.length_cons] at hk
        simp only [newArgs, SzLE]
        refine ⟨?_, ?_, ih as bs (k + 1) h.2.2 (by omega)⟩
        · cases hia : i.arg with
          | jump t rel =>
            simp only
            cases hno : noOverride i.nov with
            | true =>
              rw [sizeOfI_noOverride _ _ hno, sizeOfI_noOverride _ _ hno]
              exact newArg_size_mono v A B hm _ k rel (by omega)
            | false => exact Nat.le_of_eq (sizeOfI_override _ _ _ hno)
          | _ => simp only; rw [h.2.1 (by simp [hia, isJump])]; exact Nat.le_refl _
        · intro hnj
          cases hia : i.arg with
          | jump t rel => simp [hia, isJump] at hnj
          | _ => simp only; exact h.2.1 hnj

/-- remaining room for growth: jumps without a width override can still grow up to four code units -/
def slack : List Instr → List Int → Nat
  | i :: is, a :: as => (if isJump i.arg && noOverride i.nov then 4 - instrsize a else 0) + slack is as
  | _, _ => 0

theorem slack_le : ∀ (is : List Instr) (as : List Int), slack is as ≤ 3 * (is.filter fun i => isJump i.arg).length := by
  intro is
  induction is with
  | nil => intro as; simp [slack]
  | cons i is ih =>
    intro as
    cases as with
    | nil => simp [slack]
    | cons a as =>
      simp only [slack, List.filter_cons]
      have := ih as
      have h1 := instrsize_pos a
      cases hj : isJump i.arg <;> simp <;> (try split) <;> omega

theorem slack_step (v : Ver) (starts offs : List Nat) : ∀ (is : List Instr) (as : List Int) (k : Nat),
    SzLE is as (newArgs v starts offs is as k) →
    slack is (newArgs v starts offs is as k) + (changed v starts offs is as k).toNat ≤ slack is as := by
  intro is
  induction is with
  | nil => intro as k _; cases as <;> simp [slack, newArgs, changed]
  | cons i is ih =>
    intro as k h
    cases as with
    | nil => simp [SzLE, newArgs] at h
    | cons a as =>
      cases i with
      | mk op arg nov ln lo =>
      simp only [newArgs, SzLE, Instr.arg, Instr.nov] at h
      have ih' := ih as (k + 1) h.2.2
      simp only [newArgs, slack, changed, Instr.arg, Instr.nov]
      cases arg with
      | jump t rel =>
        simp only at h
        simp only [isJump, Bool.true_and]
        by_cases hno : noOverride nov = true
        · have h1 := h.1
          rw [sizeOfI_noOverride _ _ hno, sizeOfI_noOverride _ _ hno] at h1
          rw [sizeOfI_noOverride _ _ hno]
          have h4 := instrsize_le (newArgOf v offs (starts.getD t 0) k rel)
          simp only [hno, if_true, Bool.true_and]
          by_cases hne : instrsize a = instrsize (newArgOf v offs (starts.getD t 0) k rel)
          · simp only [hne, bne_self_eq_false, Bool.or_false]
            rw [hne] at h1
            omega
          · have : (instrsize a != instrsize (newArgOf v offs (starts.getD t 0) k rel)) = true := by simpa using hne
            simp only [this, Bool.or_true, Bool.toNat_true]
            have : (changed v starts offs is as (k + 1)).toNat ≤ 1 := Bool.toNat_le _
            omega
        · have hno' : noOverride nov = false := by simpa using hno
          simp only [hno', Bool.false_eq_true, if_false, Bool.false_and, Bool.or_false]
          omega
      | _ => simp only [isJump, Bool.false_and, Bool.false_eq_true, if_false, Bool.or_false]; omega

/-- the state of the loop between passes: the next pass can only widen instructions -/
def Growing (v : Ver) (instrs : List Instr) (starts : List Nat) (A : List Int) : Prop :=
  SzLE instrs A (newArgs v starts (prefixSums (szs instrs A) 0) instrs A 0)

theorem growing_step (v : Ver) (instrs : List Instr) (starts : List Nat) (A : List Int) (h : Growing v instrs starts A) :
    Growing v instrs starts (newArgs v starts (prefixSums (szs instrs A) 0) instrs A 0) := by
  unfold Growing at *
  have hm := offsMono_prefixSums _ _ (SzLE.forall₂ _ _ _ h) (szs_pos _ _) (szs_pos _ _)
  apply newArgs_mono v starts _ _ hm instrs _ _ 0 h
  rw [prefixSums_length]
  have := (SzLE.len _ _ _ h).1
  simp only [szs, List.length_map, List.length_zip, ← this]
  omega

/-- **The operand-width loop terminates.**  Started from a state in which the next pass can only widen instructions
    (as the initial state is: every jump operand starts at 1), with fuel exceeding the remaining room for growth, the
    loop never runs out of fuel: it returns, or raises the `KeyError` of a jump to a missing block. -/
theorem relax_terminates (v : Ver) (instrs : List Instr) (starts : List Nat) : ∀ (fuel : Nat) (A : List Int),
    Growing v instrs starts A → slack instrs A < fuel → ∀ e, relax v instrs starts fuel A = .error e → e = .raised := by
  intro fuel
  induction fuel with
  | zero => intro A _ h; omega
  | succ f ih =>
    intro A hg hs e he
    have hl := (SzLE.len _ _ _ hg).1
    rw [relax] at he
    cases hp : relaxPass v instrs starts A with
    | error e' =>
      rw [hp] at he
      simp only [bind, Except.bind, Except.error.injEq] at he
      subst he
      rw [relaxPass_eq] at hp
      exact relaxGo_err _ _ _ _ _ _ _ hp
    | ok r =>
      rw [hp] at he
      simp only [bind, Except.bind] at he
      rw [relaxPass_eq] at hp
      have ht := relaxGo_ok_targets v starts _ instrs A 0 _ hl hp
      rw [relaxGo_eq v starts _ instrs A 0 ht] at hp
      simp only [Except.ok.injEq] at hp
      subst hp
      simp only at he
      have hstep := slack_step v starts (prefixSums (szs instrs A) 0) instrs A 0 hg
      split at he
      · next hc =>
        rw [hc] at hstep
        simp only [Bool.toNat_true] at hstep
        exact ih _ (growing_step v instrs starts A hg) (by omega) e he
      · simp [pure, Except.pure] at he

/-- every jump operand is 1, as `from_arg` leaves it -/
def JumpsOne : List Instr → List Int → Prop
  | i :: is, a :: as => (isJump i.arg = true → a = 1) ∧ JumpsOne is as
  | [], [] => True
  | _, _ => False

theorem growing_init (v : Ver) (starts offs : List Nat) : ∀ (is : List Instr) (as : List Int) (k : Nat), JumpsOne is as →
    SzLE is as (newArgs v starts offs is as k) := by
  intro is
  induction is with
  | nil => intro as k h; cases as <;> simp_all [JumpsOne, SzLE, newArgs]
  | cons i is ih =>
    intro as k h
    cases as with
    | nil => simp [JumpsOne] at h
    | cons a as =>
      simp only [JumpsOne] at h
      simp only [newArgs, SzLE]
      refine ⟨?_, ?_, ih as (k + 1) h.2⟩
      · cases hia : i.arg with
        | jump t rel =>
          simp only
          have ha : a = 1 := h.1 (by simp [hia, isJump])
          subst ha
          cases hno : noOverride i.nov with
          | true =>
            rw [sizeOfI_noOverride _ _ hno, sizeOfI_noOverride _ _ hno]
            have : instrsize 1 = 1 := by simp [instrsize, Extracted.instrsizeLimit1]
            rw [this]; exact instrsize_pos _
          | false => exact Nat.le_of_eq (sizeOfI_override _ _ _ hno)
        | _ => simp only; exact Nat.le_refl _
      · intro hnj
        cases hia : i.arg with
        | jump t rel => simp [hia, isJump] at hnj
        | _ => rfl

theorem resolveArgs_jumpsOne (tp : Option Function) (fv : List PStr) : ∀ (is : List Instr) (st st' : EncSt) (as : List Int),
    resolveArgs tp fv st is = .ok (st', as) → JumpsOne is as := by
  intro is
  induction is with
  | nil => intro st st' as h; simp [resolveArgs, pure, Except.pure] at h; rw [h.2]; trivial
  | cons i is ih =>
    intro st st' as h
    rw [resolveArgs] at h
    obtain ⟨⟨st1, a⟩, h1, h⟩ := bind_ok h
    obtain ⟨⟨st2, r⟩, h2, h⟩ := bind_ok h
    simp only [pure, Except.pure, Except.ok.injEq, Prod.mk.injEq] at h
    rw [← h.2]
    simp only [JumpsOne]
    refine ⟨?_, ih _ _ _ h2⟩
    intro hj
    cases hia : i.arg with
    | jump t rel =>
      rw [hia] at h1
      simp [fromArg, pure, Except.pure] at h1
      exact h1.2.symm
    | _ => simp [hia, isJump] at hj

end CDV
