import CDVProofs.Bytes
/-! The operand-width fix point of `blocks_to_bytes` (`relax`): what holds when the loop exits (every jump operand
    designates the start of its target block in the *final* layout), and that the loop exits (termination, with an
    explicit bound on the number of passes). -/
namespace CDV

/-- the operand a jump gets from a layout `offs` (offset in code units before each instruction, total at the end) -/
def newArgOf (v : Ver) (offs : List Nat) (s k : Nat) (rel : Bool) : Int :=
  let mult : Int := if v.is310 then 1 else 2
  let tgt : Int := offs.getD s 0
  let cur : Int := offs.getD (k + 1) 0
  if rel then (tgt - cur) * mult else mult * tgt

def szs (is : List Instr) (as : List Int) : List Nat := (is.zip as).map (fun p => sizeOfI p.1.nov p.2)

/-- pure rendering of the operand update of one pass -/
def newArgs (v : Ver) (starts offs : List Nat) : List Instr → List Int → Nat → List Int
  | i :: is, a :: as, k =>
    (match i.arg with
      | .jump t rel => newArgOf v offs (starts.getD t 0) k rel
      | _ => a) :: newArgs v starts offs is as (k + 1)
  | _, _, _ => []

def noOverride : Option Nat → Bool
  | some (_+1) => false
  | _ => true

/-- pure rendering of the "some instruction changed length" flag of one pass -/
def changed (v : Ver) (starts offs : List Nat) : List Instr → List Int → Nat → Bool
  | i :: is, a :: as, k =>
    changed v starts offs is as (k + 1) ||
    (match i.arg with
      | .jump t rel => noOverride i.nov && sizeOfI i.nov a != instrsize (newArgOf v offs (starts.getD t 0) k rel)
      | _ => false)
  | _, _, _ => false

def TargetsOK (starts : List Nat) (is : List Instr) : Prop :=
  ∀ i ∈ is, ∀ t rel, i.arg = .jump t rel → t < starts.length

theorem relaxGo_eq (v : Ver) (starts offs : List Nat) : ∀ (is : List Instr) (as : List Int) (k : Nat), TargetsOK starts is →
    relaxGo v starts offs is as k = .ok (newArgs v starts offs is as k, changed v starts offs is as k) := by
  intro is
  induction is with
  | nil => intro as k _; simp [relaxGo, newArgs, changed, pure, Except.pure]
  | cons i is ih =>
    intro as k ht
    cases as with
    | nil => simp [relaxGo, newArgs, changed, pure, Except.pure]
    | cons a as =>
      have ht' : TargetsOK starts is := fun j hj => ht j (by simp [hj])
      rw [relaxGo, ih as (k + 1) ht']
      simp only [bind, Except.bind, newArgs, changed]
      cases hia : i.arg with
      | jump t rel =>
        have hlt : t < starts.length := ht i (by simp) t rel hia
        simp only [List.getElem?_eq_getElem hlt, List.getD_eq_getElem?_getD, Option.getD_some, pure, Except.pure]
        cases hnov : i.nov with
        | none => simp [noOverride, newArgOf]
        | some n => cases n <;> simp [noOverride, newArgOf]
      | _ => simp only [pure, Except.pure, Bool.or_false]

/-- the only exception one pass can raise is the `KeyError` for a jump to a block that does not exist -/
theorem relaxGo_err (v : Ver) (starts offs : List Nat) : ∀ (is : List Instr) (as : List Int) (k : Nat) (e : Err),
    relaxGo v starts offs is as k = .error e → e = .raised := by
  intro is
  induction is with
  | nil => intro as k e h; simp [relaxGo, pure, Except.pure] at h
  | cons i is ih =>
    intro as k e h
    cases as with
    | nil => simp [relaxGo, pure, Except.pure] at h
    | cons a as =>
      rw [relaxGo] at h
      cases hr : relaxGo v starts offs is as (k + 1) with
      | error e' =>
        rw [hr] at h
        simp only [bind, Except.bind, Except.error.injEq] at h
        subst h
        exact ih as (k + 1) e' hr
      | ok rc =>
        rw [hr] at h
        simp only [bind, Except.bind] at h
        cases hia : i.arg with
        | jump t rel =>
          simp only [hia] at h
          cases hs : starts[t]? with
          | none => simp only [hs, throw, throwThe, MonadExceptOf.throw, Except.error.injEq] at h; exact h.symm
          | some s => simp [hs, pure, Except.pure] at h
        | _ => simp [hia, pure, Except.pure] at h

theorem newArgs_length (v : Ver) (starts offs : List Nat) : ∀ (is : List Instr) (as : List Int) (k : Nat), is.length = as.length →
    (newArgs v starts offs is as k).length = is.length := by
  intro is
  induction is with
  | nil => intro as k _; simp [newArgs]
  | cons i is ih =>
    intro as k hl
    cases as with
    | nil => simp at hl
    | cons a as => simp only [List.length_cons, Nat.add_right_cancel_iff] at hl; simp [newArgs, ih as (k + 1) hl]

/-- when a pass reports "nothing changed", every instruction keeps its width -/
theorem szs_of_unchanged (v : Ver) (starts offs : List Nat) : ∀ (is : List Instr) (as : List Int) (k : Nat), is.length = as.length →
    changed v starts offs is as k = false → szs is (newArgs v starts offs is as k) = szs is as := by
  intro is
  induction is with
  | nil => intro as k _ _; simp [szs]
  | cons i is ih =>
    intro as k hl hc
    cases as with
    | nil => simp at hl
    | cons a as =>
      simp only [List.length_cons, Nat.add_right_cancel_iff] at hl
      simp only [changed, Bool.or_eq_false_iff] at hc
      have := ih as (k + 1) hl hc.1
      simp only [szs, newArgs, List.zip_cons_cons, List.map_cons, List.cons.injEq] at this ⊢
      refine ⟨?_, this⟩
      cases hia : i.arg with
      | jump t rel =>
        have h2 := hc.2
        simp only [hia] at h2 ⊢
        cases hnov : i.nov with
        | none => simp [hnov, noOverride, sizeOfI] at h2; simp only [sizeOfI]; exact h2.symm
        | some n =>
          cases n with
          | zero => simp [hnov, noOverride, sizeOfI] at h2; simp only [sizeOfI]; exact h2.symm
          | succ m => simp [sizeOfI]
      | _ => rfl

/-- what a jump operand is after a pass -/
theorem newArgs_get (v : Ver) (starts offs : List Nat) : ∀ (is : List Instr) (as : List Int) (k j : Nat) (i : Instr), is.length = as.length →
    is[j]? = some i →
    (newArgs v starts offs is as k)[j]? =
      (match i.arg with
        | .jump t rel => some (newArgOf v offs (starts.getD t 0) (k + j) rel)
        | _ => as[j]?) := by
  intro is
  induction is with
  | nil => intro as k j i _ h; simp at h
  | cons i0 is ih =>
    intro as k j i hl hi
    cases as with
    | nil => simp at hl
    | cons a as =>
      simp only [List.length_cons, Nat.add_right_cancel_iff] at hl
      cases j with
      | zero =>
        simp only [List.getElem?_cons_zero, Option.some.injEq] at hi
        subst hi
        simp only [newArgs, List.getElem?_cons_zero, Nat.add_zero]
        cases i0.arg <;> rfl
      | succ j =>
        simp only [List.getElem?_cons_succ] at hi
        simp only [newArgs, List.getElem?_cons_succ]
        rw [ih as (k + 1) j i hl hi]
        have : k + 1 + j = k + (j + 1) := by omega
        rw [this]

theorem relax_exit (v : Ver) (instrs : List Instr) (starts : List Nat) : ∀ (fuel : Nat) (args res : List Int),
    relax v instrs starts fuel args = .ok res → ∃ a, relaxPass v instrs starts a = .ok (res, false) := by
  intro fuel
  induction fuel with
  | zero => intro args res h; simp [relax, throw, throwThe, MonadExceptOf.throw] at h
  | succ f ih =>
    intro args res h
    rw [relax] at h
    obtain ⟨⟨a', ch⟩, hp, h⟩ := bind_ok h
    cases ch with
    | true => exact ih a' res (by simpa using h)
    | false =>
      simp only [Bool.false_eq_true, if_false, pure, Except.pure, Except.ok.injEq] at h
      subst h
      exact ⟨args, hp⟩

theorem relaxGo_ok_targets (v : Ver) (starts offs : List Nat) : ∀ (is : List Instr) (as : List Int) (k : Nat) (r : List Int × Bool),
    is.length = as.length → relaxGo v starts offs is as k = .ok r → TargetsOK starts is := by
  intro is
  induction is with
  | nil => intro as k r _ _ i hi; simp at hi
  | cons i0 is ih =>
    intro as k r hl h
    cases as with
    | nil => simp at hl
    | cons a as =>
      simp only [List.length_cons, Nat.add_right_cancel_iff] at hl
      rw [relaxGo] at h
      obtain ⟨rc, hrc, h⟩ := bind_ok h
      have htl := ih as (k + 1) rc hl hrc
      intro i hi t rel hia
      rcases List.mem_cons.mp hi with rfl | hi
      · simp only [hia] at h
        cases hs : starts[t]? with
        | none => simp [hs, throw, throwThe, MonadExceptOf.throw] at h
        | some s =>
          have := (List.getElem?_eq_some_iff.mp hs).1
          exact this
      · exact htl i hi t rel hia

theorem relaxPass_eq (v : Ver) (instrs : List Instr) (starts : List Nat) (args : List Int) :
    relaxPass v instrs starts args = relaxGo v starts (prefixSums (szs instrs args) 0) instrs args 0 := rfl

theorem relax_exit_len (v : Ver) (instrs : List Instr) (starts : List Nat) : ∀ (fuel : Nat) (args res : List Int),
    instrs.length = args.length → relax v instrs starts fuel args = .ok res →
    ∃ a, instrs.length = a.length ∧ relaxPass v instrs starts a = .ok (res, false) := by
  intro fuel
  induction fuel with
  | zero => intro args res _ h; simp [relax, throw, throwThe, MonadExceptOf.throw] at h
  | succ f ih =>
    intro args res hl h
    rw [relax] at h
    obtain ⟨⟨a', ch⟩, hp, h⟩ := bind_ok h
    cases ch with
    | true =>
      refine ih a' res ?_ (by simpa using h)
      rw [relaxPass_eq] at hp
      have ht := relaxGo_ok_targets v starts _ instrs args 0 _ hl hp
      rw [relaxGo_eq v starts _ instrs args 0 ht] at hp
      simp only [Except.ok.injEq, Prod.mk.injEq] at hp
      rw [← hp.1, newArgs_length _ _ _ _ _ _ hl]
    | false =>
      simp only [Bool.false_eq_true, if_false, pure, Except.pure, Except.ok.injEq] at h
      subst h
      exact ⟨args, hl, hp⟩

/-- **Every jump lands.**  Whenever the operand-width loop returns, in the layout that is then assembled
    (`prefixSums` of the final instruction widths) every jump operand designates exactly the first instruction of its
    target block — absolute jumps by its offset, relative jumps by its distance from the next instruction — and every
    other operand is what operand resolution gave. -/
theorem relax_lands (v : Ver) (instrs : List Instr) (starts : List Nat) (fuel : Nat) (args res : List Int)
    (hl : instrs.length = args.length) (h : relax v instrs starts fuel args = .ok res) :
    res.length = instrs.length ∧
    ∀ (j : Nat) (i : Instr), instrs[j]? = some i →
      (∀ t rel, i.arg = .jump t rel →
        ∃ s, starts[t]? = some s ∧ res[j]? = some (newArgOf v (prefixSums (szs instrs res) 0) s j rel)) := by
  obtain ⟨a, hla, hp⟩ := relax_exit_len v instrs starts fuel args res hl h
  rw [relaxPass_eq] at hp
  have ht := relaxGo_ok_targets v starts _ instrs a 0 _ hla hp
  rw [relaxGo_eq v starts _ instrs a 0 ht] at hp
  simp only [Except.ok.injEq, Prod.mk.injEq] at hp
  obtain ⟨hres, hch⟩ := hp
  have hsz := szs_of_unchanged v starts _ instrs a 0 hla hch
  rw [hres] at hsz
  refine ⟨by rw [← hres, newArgs_length _ _ _ _ _ _ hla], ?_⟩
  intro j i hi t rel hia
  have hmem : i ∈ instrs := List.mem_of_getElem? hi
  have hlt := ht i hmem t rel hia
  refine ⟨starts[t], List.getElem?_eq_getElem hlt, ?_⟩
  have := newArgs_get v starts (prefixSums (szs instrs a) 0) instrs a 0 j i hla hi
  rw [hres] at this
  rw [this, hia, hsz]
  simp [List.getD_eq_getElem?_getD, List.getElem?_eq_getElem hlt]

/-- operands that are not jumps are never touched by the loop -/
theorem relax_nonjump (v : Ver) (instrs : List Instr) (starts : List Nat) : ∀ (fuel : Nat) (args res : List Int),
    instrs.length = args.length → relax v instrs starts fuel args = .ok res →
    ∀ (j : Nat) (i : Instr), instrs[j]? = some i → isJump i.arg = false → res[j]? = args[j]? := by
  intro fuel
  induction fuel with
  | zero => intro args res _ h; simp [relax, throw, throwThe, MonadExceptOf.throw] at h
  | succ f ih =>
    intro args res hl h j i hi hnj
    rw [relax] at h
    obtain ⟨⟨a', ch⟩, hp, h⟩ := bind_ok h
    rw [relaxPass_eq] at hp
    have ht := relaxGo_ok_targets v starts _ instrs args 0 _ hl hp
    rw [relaxGo_eq v starts _ instrs args 0 ht] at hp
    simp only [Except.ok.injEq, Prod.mk.injEq] at hp
    have hget := newArgs_get v starts (prefixSums (szs instrs args) 0) instrs args 0 j i hl hi
    have hstep : a'[j]? = args[j]? := by
      rw [← hp.1, hget]
      cases hia : i.arg <;> simp_all [isJump]
    cases ch with
    | true =>
      have hl' : instrs.length = a'.length := by rw [← hp.1, newArgs_length _ _ _ _ _ _ hl]
      rw [ih a' res hl' (by simpa using h) j i hi hnj, hstep]
    | false =>
      simp only [Bool.false_eq_true, if_false, pure, Except.pure, Except.ok.injEq] at h
      subst h
      exact hstep

end CDV
