import CDV.Normalize
/-! `CodeData.__iter__` enumerates exactly the nested code objects of the constants table that `to_code` builds
    (helper lemmas for C14) -/
namespace CDV

theorem bind_ok {α β} {x : R α} {f : α → R β} {b : β} (h : x >>= f = .ok b) : ∃ a, x = .ok a ∧ f a = .ok b := by
  cases x with
  | error e => simp [bind, Except.bind] at h
  | ok a => exact ⟨a, rfl, by simpa [bind, Except.bind] using h⟩

/-- `from_arg` touches the constants table only for constant operands, and then exactly as `fromConstArg` does -/
theorem fromArg_consts (tp : Option Function) (fv : List PStr) (st st' : EncSt) (a : Arg) (i : Int)
    (h : fromArg tp fv st a = .ok (st', i)) :
    iterTable tp st.consts [a] = .ok st'.consts := by
  cases a with
  | const c o =>
    simp only [fromArg] at h
    obtain ⟨⟨t, k⟩, h1, h2⟩ := bind_ok h
    simp only [pure, Except.pure, Except.ok.injEq, Prod.mk.injEq] at h2
    obtain ⟨rfl, _⟩ := h2
    simp [iterTable, h1, bind, Except.bind, pure, Except.pure]
  | raw n => simp [fromArg, pure, Except.pure] at h; obtain ⟨rfl, _⟩ := h; simp [iterTable, pure, Except.pure]
  | jump t r => simp [fromArg, pure, Except.pure] at h; obtain ⟨rfl, _⟩ := h; simp [iterTable, pure, Except.pure]
  | noarg x => simp [fromArg, pure, Except.pure] at h; obtain ⟨rfl, _⟩ := h; simp [iterTable, pure, Except.pure]
  | name s o =>
    simp only [fromArg] at h
    obtain ⟨⟨t, k⟩, _, h2⟩ := bind_ok h
    simp only [pure, Except.pure, Except.ok.injEq, Prod.mk.injEq] at h2
    obtain ⟨rfl, _⟩ := h2
    simp [iterTable, pure, Except.pure]
  | varname s o =>
    simp only [fromArg] at h
    obtain ⟨⟨t, k⟩, _, h2⟩ := bind_ok h
    simp only [pure, Except.pure, Except.ok.injEq, Prod.mk.injEq] at h2
    obtain ⟨rfl, _⟩ := h2
    simp [iterTable, pure, Except.pure]
  | cell s o =>
    simp only [fromArg] at h
    obtain ⟨⟨t, k⟩, _, h2⟩ := bind_ok h
    simp only [pure, Except.pure, Except.ok.injEq, Prod.mk.injEq] at h2
    obtain ⟨rfl, _⟩ := h2
    simp [iterTable, pure, Except.pure]
  | free s =>
    simp only [fromArg] at h
    split at h
    · simp [pure, Except.pure] at h; obtain ⟨rfl, _⟩ := h; simp [iterTable, pure, Except.pure]
    · simp at h

theorem iterTable_append (tp : Option Function) : ∀ (l1 l2 : List Arg) (t : FromArgs Const),
    iterTable tp t (l1 ++ l2) = (iterTable tp t l1 >>= fun t' => iterTable tp t' l2)
  | [], l2, t => by simp [iterTable, bind, Except.bind, pure, Except.pure]
  | a :: l1, l2, t => by
    cases a with
    | const c o =>
      simp only [List.cons_append, iterTable]
      cases fromConstArg tp t c o with
      | error e => simp [bind, Except.bind]
      | ok r => simp [bind, Except.bind, iterTable_append tp l1 l2 r.1]
    | _ => simp [iterTable, iterTable_append tp l1 l2 t]

theorem resolveArgs_consts (tp : Option Function) (fv : List PStr) : ∀ (is : List Instr) (st st' : EncSt) (args : List Int),
    resolveArgs tp fv st is = .ok (st', args) → iterTable tp st.consts (is.map Instr.arg) = .ok st'.consts
  | [], st, st', args, h => by
    simp [resolveArgs, pure, Except.pure] at h
    obtain ⟨rfl, _⟩ := h
    simp [iterTable, pure, Except.pure]
  | i :: is, st, st', args, h => by
    simp only [resolveArgs] at h
    obtain ⟨⟨st1, a⟩, h1, h2⟩ := bind_ok h
    obtain ⟨⟨st2, r⟩, h3, h4⟩ := bind_ok h2
    simp only [pure, Except.pure, Except.ok.injEq, Prod.mk.injEq] at h4
    obtain ⟨rfl, _⟩ := h4
    have e1 := fromArg_consts tp fv st st1 i.arg a h1
    have e2 := resolveArgs_consts tp fv is st1 st2 r h3
    have := iterTable_append tp [i.arg] (is.map Instr.arg) st.consts
    simp only [List.map_cons, List.singleton_append] at this ⊢
    rw [this, e1]
    simpa [bind, Except.bind] using e2

theorem addAdditional_consts (tp : Option Function) (fv : List PStr) : ∀ (as : List Arg) (st st' : EncSt),
    addAdditional tp fv st as = .ok st' → iterTable tp st.consts as = .ok st'.consts
  | [], st, st', h => by
    simp [addAdditional, pure, Except.pure] at h
    subst h
    simp [iterTable, pure, Except.pure]
  | a :: as, st, st', h => by
    simp only [addAdditional] at h
    obtain ⟨⟨st1, k⟩, h1, h2⟩ := bind_ok h
    have e1 := fromArg_consts tp fv st st1 a k h1
    have e2 := addAdditional_consts tp fv as st1 st' h2
    have := iterTable_append tp [a] as st.consts
    simp only [List.singleton_append] at this
    rw [this, e1]
    simpa [bind, Except.bind] using e2

/-- the nested code objects of a constants table, in table order -/
def codesOf : List Const → List CodeData
  | [] => []
  | .code d :: r => d :: codesOf r
  | _ :: r => codesOf r

theorem codeConsts_eq_codesOf : ∀ (l : List (Nat × Const)), codeConsts l = codesOf (l.map (·.2))
  | [] => rfl
  | (_, .code d) :: r => by simp [codeConsts, codesOf, codeConsts_eq_codesOf r]
  | (_, .inner _) :: r => by simp [codeConsts, codesOf, codeConsts_eq_codesOf r]

theorem toTuple_ok {α} (t : FromArgs α) (l : List α) (h : t.toTuple = .ok l) :
    l = (t.iToArg.foldl (fun acc x => insertByKey x acc) []).map (·.2) := by
  simp only [FromArgs.toTuple] at h
  split at h
  · simp [pure, Except.pure] at h; exact h.symm
  · simp at h

theorem collectCells_other : ∀ (as : List Arg) (t t' : FromArgs PStr), collectCells t as = .ok t' → True
  | _, _, _, _ => trivial

/-- whenever `blocks_to_bytes` succeeds, iterating the data yields exactly the code objects of its constants table -/
theorem iterCode_eq_table (v : Ver) (bl : List (List Instr)) (aa : List Arg) (fv : List PStr) (tp : Option Function) (out : BlocksOut)
    (f : PStr) (fl : Int) (n : PStr) (ss : Nat) (fut ne : Bool) (al : Option AdditionalLine)
    (h : blocksToBytes v bl aa fv tp = .ok out) :
    iterCode (.mk bl f fl n ss tp fv fut ne al aa) = .ok (codesOf out.consts) := by
  simp only [blocksToBytes] at h
  obtain ⟨st0, h0, h⟩ := bind_ok h
  obtain ⟨cv, _, h⟩ := bind_ok h
  obtain ⟨⟨st1, args0⟩, h1, h⟩ := bind_ok h
  obtain ⟨args, _, h⟩ := bind_ok h
  obtain ⟨st2, h2, h⟩ := bind_ok h
  obtain ⟨names, _, h⟩ := bind_ok h
  obtain ⟨varnames, _, h⟩ := bind_ok h
  obtain ⟨cellvars, _, h⟩ := bind_ok h
  obtain ⟨consts, h3, h⟩ := bind_ok h
  simp only [pure, Except.pure, Except.ok.injEq] at h
  subst h
  have e1 := resolveArgs_consts tp fv bl.flatten _ st1 args0 h1
  have e2 := addAdditional_consts tp fv aa st1 st2 h2
  have e3 := toTuple_ok st2.consts consts h3
  simp only [iterCode, CodeData.type, CodeData.blocks, CodeData.addArgs, h0, bind, Except.bind]
  simp only at e1
  rw [iterTable_append, e1]
  simp only [bind, Except.bind, e2, pure, Except.pure, codeConsts_eq_codesOf, e3]

end CDV
