import CDVProofs.LineEnc
/-! The table `from_line_mapping` writes (3.10) lies in the domain of the decoding theorems: even length, bytes, even address
    deltas, no 255 delta. -/
namespace CDV.LT
open CDV

theorem bytesToItems_itemsToBytes_bc : ∀ rows : List Item, (bytesToItems (itemsToBytes rows)).map (·.bc) = rows.map (·.bc)
  | [] => rfl
  | r :: rs => by simp [itemsToBytes, bytesToItems, bytesToItems_itemsToBytes_bc rs]

theorem itemsToBytes_length : ∀ rows : List Item, (itemsToBytes rows).length = 2 * rows.length
  | [] => rfl
  | r :: rs => by simp [itemsToBytes, itemsToBytes_length rs]; omega

theorem itemsToBytes_lt : ∀ rows : List Item, (∀ r ∈ rows, r.bc < 256) → ∀ x ∈ itemsToBytes rows, x < 256
  | [], _, x, hx => by simp [itemsToBytes] at hx
  | r :: rs, h, x, hx => by
    simp only [itemsToBytes, List.mem_cons] at hx
    rcases hx with rfl | rfl | hx
    · exact h r (by simp)
    · unfold unsigned
      have : (r.line % 256) < 256 := Int.emod_lt_of_pos _ (by omega)
      have h0 : 0 ≤ r.line % 256 := Int.emod_nonneg _ (by omega)
      omega
    · exact itemsToBytes_lt rs (fun r' hr' => h r' (by simp [hr'])) x hx

theorem expUp_rows_bc : ∀ (n : Nat) (l : Int) (bc : Nat), l.toNat = n → ∀ r ∈ (expUp true l bc).1, r.bc = 0 := by
  intro n
  induction n using Nat.strongRecOn with
  | _ n ih =>
    intro l bc hn r hr
    by_cases hb : l > 127
    · rw [expUp_step _ _ _ hb] at hr
      rcases List.mem_cons.mp hr with rfl | hr
      · rfl
      · exact ih (l - 127).toNat (by omega) _ _ rfl r hr
    · rw [expUp_small _ _ _ (by omega)] at hr; simp at hr

theorem expDown_rows_bc : ∀ (n : Nat) (l : Int) (bc : Nat), (-l).toNat = n → ∀ r ∈ (expDown true l bc).1, r.bc = 0 := by
  intro n
  induction n using Nat.strongRecOn with
  | _ n ih =>
    intro l bc hn r hr
    by_cases hb : l < minLine true
    · rw [expDown_step _ _ _ hb] at hr
      rw [minLine_true] at hb hr
      rcases List.mem_cons.mp hr with rfl | hr
      · rfl
      · exact ih (-(l - -127)).toNat (by omega) _ _ rfl r hr
    · rw [expDown_small _ _ _ (by omega)] at hr; simp at hr

theorem expBc_rows_bc : ∀ (bc : Nat) (line : Option Int), (∀ r ∈ (expBc true line bc).1, r.bc = 254) ∧
    (expBc true line bc).2.2 ≤ 254 ∧ (expBc true line bc).2.2 % 2 = bc % 2 := by
  intro bc
  induction bc using Nat.strongRecOn with
  | _ bc ih =>
    intro line
    by_cases hb : bc > 254
    · cases line with
      | none =>
        obtain ⟨i1, i2, i3⟩ := ih (bc - 254) (by omega) none
        rw [expBc_step_none bc hb]
        dsimp only
        refine ⟨?_, i2, by omega⟩
        intro r hr
        rcases List.mem_cons.mp hr with rfl | hr
        · rfl
        · exact i1 r hr
      | some l =>
        obtain ⟨i1, i2, i3⟩ := ih (bc - 254) (by omega) (some 0)
        rw [expBc_step_some l bc hb]
        dsimp only
        refine ⟨?_, i2, by omega⟩
        intro r hr
        rcases List.mem_cons.mp hr with rfl | hr
        · rfl
        · exact i1 r hr
    · rw [expBc_small _ _ _ (by rw [maxBc_true]; omega)]
      exact ⟨by intro r hr; simp at hr, by simpa using (by omega : bc ≤ 254), rfl⟩

/-- every row `expand_items` (3.10) writes for an item with an even address delta has an even delta ≤ 254 -/
theorem expandOne_rows_bc (c : CItem) (hc : c.bc % 2 = 0) : ∀ r ∈ expandOne true c, r.bc % 2 = 0 ∧ r.bc ≤ 254 := by
  obtain ⟨line, bc⟩ := c
  intro r hr
  simp only [expandOne, if_true] at hr
  have hl := expLine_bc_LT line bc
  obtain ⟨b1, b2, b3⟩ := expBc_rows_bc (expLine true line bc).2.2 (expLine true line bc).2.1
  have b3' : (expBc true (expLine true line bc).2.1 (expLine true line bc).2.2).2.2 % 2 = bc % 2 := b3.trans (by rw [hl])
  have hrows : ∀ x ∈ (expLine true line bc).1, x.bc = 0 := by
    cases line with
    | none => intro x hx; simp [expLine_none] at hx
    | some l =>
      intro x hx
      simp only [expLine] at hx
      rcases List.mem_append.mp hx with h | h
      · exact expUp_rows_bc _ _ _ rfl x h
      · exact expDown_rows_bc _ _ _ rfl x h
  unfold finish at hr
  have hmem : r ∈ (expLine true line bc).1 ++ (expBc true (expLine true line bc).2.1 (expLine true line bc).2.2).1 →
      r.bc % 2 = 0 ∧ r.bc ≤ 254 := by
    intro h
    rcases List.mem_append.mp h with h | h
    · rw [hrows r h]; omega
    · rw [b1 r h]; omega
  split at hr
  · rcases List.mem_append.mp hr with h | h
    · exact hmem h
    · simp only [List.mem_singleton] at h
      subst h
      dsimp only at hc ⊢
      exact ⟨by omega, b2⟩
  · exact hmem hr

theorem expand_rows_bc (cs : List CItem) (hc : ∀ c ∈ cs, c.bc % 2 = 0) : ∀ r ∈ expand true cs, r.bc % 2 = 0 ∧ r.bc ≤ 254 := by
  intro r hr
  simp only [expand, List.mem_flatMap] at hr
  obtain ⟨c, hcm, hrc⟩ := hr
  exact expandOne_rows_bc c (hc c hcm) r hrc

/-- the collapsed rows `mapping_to_items` (3.10) builds from one entry per code unit have even address deltas -/
theorem mappingToItemsLTgo_even : ∀ (ls : List (Option Int)) (sec : Sec) (lastOff : Nat), sec.start % 2 = 0 → lastOff % 2 = 0 →
    ∀ c ∈ mappingToItemsLTgo (unitsAt ls (lastOff + 2)) sec lastOff, c.bc % 2 = 0 := by
  intro ls
  induction ls with
  | nil =>
    intro sec lastOff h1 h2 c hc
    simp only [unitsAt, mappingToItemsLTgo, List.mem_singleton] at hc
    subst hc
    dsimp only
    omega
  | cons ln rest ih =>
    intro sec lastOff h1 h2 c hc
    simp only [unitsAt, mappingToItemsLTgo] at hc
    split at hc
    · rcases List.mem_cons.mp hc with rfl | hc
      · dsimp only; omega
      · exact ih _ (lastOff + 2) (by dsimp only; omega) (by omega) c hc
    · exact ih sec (lastOff + 2) h1 (by omega) c hc

/-- **The `co_linetable` that `from_line_mapping` writes is well-formed for the reader**: for any non-empty list of
    per-code-unit lines, the table has even length, consists of bytes, and every row has an even address delta other than
    255 — exactly the hypotheses of `C10_decoded_lines_310` / `C02_lines_310`, so decoding what was encoded is covered by
    those theorems. -/
theorem encoded_table_wellformed_310 (l0 : Option Int) (ls : List (Option Int)) (extra : List (Nat × List Int)) (table : List Nat)
    (h : fromLineMapping true ⟨unitsAt (l0 :: ls) 0, extra⟩ = .ok table) :
    table.length % 2 = 0 ∧ (∀ x ∈ table, x < 256) ∧ ∀ x ∈ bytesToItems table, x.bc % 2 = 0 ∧ x.bc ≠ 255 := by
  simp only [fromLineMapping, mappingToItems, if_true, unitsAt, mappingToItemsLT, bind, Except.bind, pure, Except.pure,
    Except.ok.injEq] at h
  subst h
  have hcs : ∀ c ∈ mappingToItemsLTgo (unitsAt ls (0 + 2)) ⟨0, l0, match l0 with | some l => l | none => 0, l0⟩ 0, c.bc % 2 = 0 :=
    mappingToItemsLTgo_even ls _ 0 rfl rfl
  have hrows := expand_rows_bc _ hcs
  refine ⟨by rw [itemsToBytes_length]; omega, itemsToBytes_lt _ (fun r hr => by have := (hrows r hr).2; omega), ?_⟩
  intro x hx
  have hbc : x.bc ∈ (bytesToItems (itemsToBytes (expand true _))).map (·.bc) := List.mem_map_of_mem hx
  rw [bytesToItems_itemsToBytes_bc] at hbc
  obtain ⟨r, hr, hrx⟩ := List.mem_map.mp hbc
  have := hrows r hr
  rw [← hrx]
  omega

end CDV.LT
