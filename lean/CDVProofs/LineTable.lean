import CDV.LineTable
/-! Stage 2 of the line-table codec: `expand (collapse t) = t` for every list of in-range rows, both formats.
    Ported from the round-0 prototype to the model that is tied to the source (`CDV.LineTable`). -/
namespace CDV.LT

theorem maxLine_eq : maxLine = 127 := rfl
theorem noLine_eq : Extracted.noLine = -128 := rfl

def ValidRow (isLT : Bool) (x : Item) : Prop :=
  x.bc ≤ maxBc isLT ∧ -128 ≤ x.line ∧ x.line ≤ 127

theorem expBc_small (isLT) (line) (bc : Nat) (h : bc ≤ maxBc isLT) :
    expBc isLT line bc = ([], line, bc) := by
  rw [expBc.eq_def]; simp [Nat.not_lt.mpr h]

theorem expBc_step (isLT) (line) (bc : Nat) (h : bc > maxBc isLT) :
    expBc isLT line bc =
      ((⟨if isLT then lineOr128 line else 0, maxBc isLT⟩ : Item) ::
        (expBc isLT (if isLT then (match line with | none => none | some _ => some 0) else line) (bc - maxBc isLT)).1,
       (expBc isLT (if isLT then (match line with | none => none | some _ => some 0) else line) (bc - maxBc isLT)).2) := by
  rw [expBc.eq_def]; simp only [h, dite_true]; rfl

theorem expUp_small (isLT) (line : Int) (bc : Nat) (h : line ≤ 127) :
    expUp isLT line bc = ([], line, bc) := by
  rw [expUp]; simp [maxLine_eq, Int.not_lt.mpr h]

theorem expUp_step (isLT) (line : Int) (bc : Nat) (h : line > 127) :
    expUp isLT line bc =
      ((⟨127, if isLT then 0 else bc⟩ : Item) :: (expUp isLT (line - 127) (if isLT then bc else 0)).1,
       (expUp isLT (line - 127) (if isLT then bc else 0)).2) := by
  rw [expUp]; simp [maxLine_eq, h]

theorem expDown_small (isLT) (line : Int) (bc : Nat) (h : minLine isLT ≤ line) :
    expDown isLT line bc = ([], line, bc) := by
  rw [expDown]; simp [Int.not_lt.mpr h]

theorem expDown_step (isLT) (line : Int) (bc : Nat) (h : line < minLine isLT) :
    expDown isLT line bc =
      ((⟨minLine isLT, if isLT then 0 else bc⟩ : Item) :: (expDown isLT (line - minLine isLT) (if isLT then bc else 0)).1,
       (expDown isLT (line - minLine isLT) (if isLT then bc else 0)).2) := by
  rw [expDown]; simp [h]

/-- final bc of expBc is nonzero when the input is -/
theorem expBc_bc_ne_zero (isLT) : ∀ (bc : Nat) (line), bc ≠ 0 → (expBc isLT line bc).2.2 ≠ 0 := by
  intro bc
  induction bc using Nat.strongRecOn with
  | _ bc ih =>
    intro line h
    by_cases hb : bc > maxBc isLT
    · rw [expBc_step _ _ _ hb]
      have hm : 0 < maxBc isLT := by unfold maxBc; split <;> decide
      exact ih (bc - maxBc isLT) (by omega) _ (by omega)
    · rw [expBc_small _ _ _ (by omega)]; exact h

/-- final line of expUp is in [1,127] when started positive -/
theorem expUp_line_pos (isLT) : ∀ (n : Nat) (line : Int) (bc : Nat), line.toNat = n → 0 < line →
    0 < (expUp isLT line bc).2.1 ∧ (expUp isLT line bc).2.1 ≤ 127 := by
  intro n
  induction n using Nat.strongRecOn with
  | _ n ih =>
    intro line bc hn hp
    by_cases hb : line > 127
    · rw [expUp_step _ _ _ hb]
      exact ih (line - 127).toNat (by omega) _ _ rfl (by omega)
    · rw [expUp_small _ _ _ (by omega)]; exact ⟨hp, by simp; omega⟩

theorem expDown_line_neg (isLT) : ∀ (n : Nat) (line : Int) (bc : Nat), (-line).toNat = n → line < 0 →
    (expDown isLT line bc).2.1 < 0 ∧ minLine isLT ≤ (expDown isLT line bc).2.1 := by
  intro n
  have hm : minLine isLT = -127 ∨ minLine isLT = -128 := by unfold minLine; split <;> simp
  induction n using Nat.strongRecOn with
  | _ n ih =>
    intro line bc hn hp
    by_cases hb : line < minLine isLT
    · rw [expDown_step _ _ _ hb]
      exact ih (-(line - minLine isLT)).toNat (by omega) _ _ rfl (by omega)
    · rw [expDown_small _ _ _ (by omega)]; exact ⟨hp, by simp; omega⟩

end CDV.LT

namespace CDV.LT

theorem finish_cons (x : Item) (rows : List Item) (l : Option Int) (b : Nat)
    (h : l ≠ some 0 ∨ b ≠ 0) : finish (x :: rows) l b = x :: finish rows l b := by
  unfold finish
  have : (l != some 0 || b != 0) = true := by
    rcases h with h | h <;> simp [h]
  simp [this]

/-- the state after all loops, and the rows they emit -/
def run (isLT : Bool) (c : CItem) : List Item × Option Int × Nat :=
  if isLT then
    let r1 := expLine isLT c.line c.bc
    let r2 := expBc isLT r1.2.1 r1.2.2
    (r1.1 ++ r2.1, r2.2.1, r2.2.2)
  else
    let r1 := expBc isLT c.line c.bc
    let r2 := expLine isLT r1.2.1 r1.2.2
    (r1.1 ++ r2.1, r2.2.1, r2.2.2)

theorem expandOne_eq_run (isLT) (c) : expandOne isLT c = finish (run isLT c).1 (run isLT c).2.1 (run isLT c).2.2 := by
  unfold expandOne run; cases isLT <;> simp

/-- expLine: final line nonzero when started nonzero -/
theorem expLine_line_ne (isLT) (l : Int) (bc : Nat) (h : l ≠ 0) :
    (expLine isLT (some l) bc).2.1 ≠ some 0 := by
  have hm : minLine isLT = -127 ∨ minLine isLT = -128 := by unfold minLine; split <;> simp
  simp only [expLine]
  by_cases hp : 0 < l
  · have h1 := expUp_line_pos isLT _ l bc rfl hp
    rw [expDown_small _ _ _ (by omega)]
    simp; omega
  · have hn : l < 0 := by omega
    rw [expUp_small _ _ _ (by omega)]
    have h2 := expDown_line_neg isLT _ l bc rfl hn
    simp; omega

theorem expLine_none (isLT) (bc) : expLine isLT none bc = ([], none, bc) := rfl

/-- in-range line: expLine is a no-op -/
theorem expLine_small (isLT) (l : Int) (bc : Nat) (h1 : minLine isLT ≤ l) (h2 : l ≤ 127) :
    expLine isLT (some l) bc = ([], some l, bc) := by
  simp only [expLine]
  rw [expUp_small _ _ _ h2, expDown_small _ _ _ h1]; rfl

/-- bc unchanged by expLine in linetable mode; if rows are emitted in lnotab mode bc becomes 0, else unchanged -/
theorem expUp_bc_LT : ∀ (n : Nat) (l : Int) (bc : Nat), l.toNat = n → (expUp true l bc).2.2 = bc := by
  intro n
  induction n using Nat.strongRecOn with
  | _ n ih =>
    intro l bc hn
    by_cases hb : l > 127
    · rw [expUp_step _ _ _ hb]; exact ih (l - 127).toNat (by omega) _ _ rfl
    · rw [expUp_small _ _ _ (by omega)]

theorem expDown_bc_LT : ∀ (n : Nat) (l : Int) (bc : Nat), (-l).toNat = n → (expDown true l bc).2.2 = bc := by
  intro n
  induction n using Nat.strongRecOn with
  | _ n ih =>
    intro l bc hn
    by_cases hb : l < minLine true
    · rw [expDown_step _ _ _ hb]
      have : minLine true = -127 := rfl
      exact ih (-(l - minLine true)).toNat (by omega) _ _ rfl
    · rw [expDown_small _ _ _ (by omega)]

theorem expLine_bc_LT (l : Option Int) (bc : Nat) : (expLine true l bc).2.2 = bc := by
  cases l with
  | none => rfl
  | some l => simp only [expLine]; rw [expDown_bc_LT _ _ _ rfl, expUp_bc_LT _ _ _ rfl]

/-- final state is "non-trivial" (so `finish` emits its last row regardless of earlier rows) -/
theorem run_final_ne (isLT) (c : CItem)
    (h : c.bc ≠ 0 ∨ (∃ l, c.line = some l ∧ l ≠ 0)) (hs : isLT = false → c.line.isSome) :
    (run isLT c).2.1 ≠ some 0 ∨ (run isLT c).2.2 ≠ 0 := by
  cases isLT with
  | true =>
    simp only [run, if_true]
    rcases h with h | ⟨l, hl, hl0⟩
    · right
      apply expBc_bc_ne_zero
      rw [expLine_bc_LT]; exact h
    · by_cases hb : c.bc = 0
      · left
        rw [expBc_small _ _ _ (by rw [expLine_bc_LT, hb]; exact Nat.zero_le _)]
        rw [hl]; exact expLine_line_ne true l c.bc hl0
      · right
        apply expBc_bc_ne_zero
        rw [expLine_bc_LT]; exact hb
  | false =>
    simp only [run, Bool.false_eq_true, if_false]
    have hsome := hs rfl
    obtain ⟨l0, hl0⟩ := Option.isSome_iff_exists.mp hsome
    -- lnotab: expBc first, never touches line
    have hline : ∀ (bc : Nat) (line : Option Int), (expBc false line bc).2.1 = line := by
      intro bc
      induction bc using Nat.strongRecOn with
      | _ bc ih =>
        intro line
        by_cases hb : bc > maxBc false
        · rw [expBc_step _ _ _ hb]
          have hm : 0 < maxBc false := by decide
          simpa using ih (bc - maxBc false) (by omega) line
        · rw [expBc_small _ _ _ (by omega)]
    rw [hline, hl0]
    by_cases hz : l0 = 0
    · -- line 0: expLine no-op; bc must be nonzero
      subst hz
      have hb : c.bc ≠ 0 := by
        rcases h with h | ⟨l, hl, hne⟩
        · exact h
        · rw [hl0] at hl; cases hl; exact absurd rfl hne
      right
      rw [expLine_small _ _ _ (by decide) (by decide)]
      have := expBc_bc_ne_zero false c.bc c.line hb
      rw [hl0] at this; simpa using this
    · left; exact expLine_line_ne false l0 _ hz

end CDV.LT

namespace CDV.LT

theorem run_cons_of (isLT) (x : Item) (m y : CItem)
    (h : run isLT m = (x :: (run isLT y).1, (run isLT y).2))
    (hne : (run isLT y).2.1 ≠ some 0 ∨ (run isLT y).2.2 ≠ 0) :
    expandOne isLT m = x :: expandOne isLT y := by
  rw [expandOne_eq_run, expandOne_eq_run, h]
  exact finish_cons _ _ _ _ hne

/-- lnotab, bytecode split: (255,0) followed by y with y.bc ≠ 0 -/
theorem merge_bc_old (x : Item) (y : CItem) (ly : Int) (hx0 : x.line = 0) (hxb : x.bc = 255)
    (hyl : y.line = some ly) (hyb : y.bc ≠ 0) :
    expandOne false ⟨some ly, x.bc + y.bc⟩ = x :: expandOne false y := by
  apply run_cons_of
  · simp only [run, Bool.false_eq_true, if_false]
    have hgt : x.bc + y.bc > maxBc false := by
      have : maxBc false = 255 := rfl
      omega
    rw [expBc_step _ _ _ hgt]
    have hsub : x.bc + y.bc - maxBc false = y.bc := by
      have : maxBc false = 255 := rfl
      omega
    simp only [Bool.false_eq_true, if_false, hsub, hyl]
    have : (⟨0, maxBc false⟩ : Item) = x := by
      cases x; simp_all [maxBc]
    rw [this]; simp
  · exact run_final_ne false y (Or.inl hyb) (fun _ => by simp [hyl])

/-- lnotab, line split upward: (b,127) followed by (0, ly>0) -/
theorem merge_up_old (x : Item) (y : CItem) (ly : Int) (hxl : x.line = 127) (hxb : x.bc ≤ 255)
    (hyl : y.line = some ly) (hyb : y.bc = 0) (hpos : 0 < ly) :
    expandOne false ⟨some (127 + ly), x.bc + y.bc⟩ = x :: expandOne false y := by
  apply run_cons_of
  · simp only [run, Bool.false_eq_true, if_false, hyb, Nat.add_zero, hyl]
    rw [expBc_small false _ x.bc (by exact hxb), expBc_small false _ 0 (by decide)]
    simp only [expLine]
    rw [expUp_step false _ _ (by omega)]
    have : (127 + ly - 127) = ly := by omega
    simp only [Bool.false_eq_true, if_false, this]
    have hx : (⟨127, x.bc⟩ : Item) = x := by cases x; simp_all
    rw [hx]; simp
  · exact run_final_ne false y (Or.inr ⟨ly, hyl, by omega⟩) (fun _ => by simp [hyl])

/-- lnotab, line split downward: (b,-128) followed by (0, ly<0) -/
theorem merge_down_old (x : Item) (y : CItem) (ly : Int) (hxl : x.line = -128) (hxb : x.bc ≤ 255)
    (hyl : y.line = some ly) (hyb : y.bc = 0) (hneg : ly < 0) :
    expandOne false ⟨some (-128 + ly), x.bc + y.bc⟩ = x :: expandOne false y := by
  apply run_cons_of
  · simp only [run, Bool.false_eq_true, if_false, hyb, Nat.add_zero, hyl]
    rw [expBc_small false _ x.bc (by exact hxb), expBc_small false _ 0 (by decide)]
    simp only [expLine]
    rw [expUp_small false _ _ (by omega), expUp_small false _ _ (by omega)]
    have hm : minLine false = -128 := rfl
    rw [expDown_step false _ _ (by simp only [hm]; omega)]
    have : (-128 + ly - minLine false) = ly := by rw [hm]; omega
    simp only [Bool.false_eq_true, if_false, this]
    have hx : (⟨minLine false, x.bc⟩ : Item) = x := by cases x; simp_all
    rw [hx]; simp
  · exact run_final_ne false y (Or.inr ⟨ly, hyl, by omega⟩) (fun _ => by simp [hyl])

end CDV.LT

namespace CDV.LT

/-- linetable, bytecode split: (254, lp) followed by (yb≠0, line 0) -/
theorem merge_bc_lt (x : Item) (y : CItem) (hxb : x.bc = 254) (hl1 : -127 ≤ x.line) (hl2 : x.line ≤ 127)
    (hyl : y.line = some 0) (hyb : y.bc ≠ 0) :
    expandOne true ⟨some x.line, x.bc + y.bc⟩ = x :: expandOne true y := by
  apply run_cons_of
  · simp only [run, if_true, hyl]
    rw [expLine_small true _ _ (by exact hl1) hl2, expLine_small true 0 _ (by decide) (by decide)]
    have hgt : x.bc + y.bc > maxBc true := by
      have : maxBc true = 254 := rfl
      omega
    simp only []
    rw [expBc_step _ _ _ hgt]
    have hsub : x.bc + y.bc - maxBc true = y.bc := by
      have : maxBc true = 254 := rfl
      omega
    simp only [if_true, hsub, lineOr128]
    have : (⟨x.line, maxBc true⟩ : Item) = x := by
      cases x; simp_all [maxBc]
    rw [this]; simp
  · exact run_final_ne true y (Or.inl hyb) (fun h => by cases h)

/-- linetable, line split upward: (0,127) followed by (yb, ly>0) -/
theorem merge_up_lt (x : Item) (y : CItem) (ly : Int) (hxl : x.line = 127) (hxb : x.bc = 0)
    (hyl : y.line = some ly) (hpos : 0 < ly) :
    expandOne true ⟨some (127 + ly), x.bc + y.bc⟩ = x :: expandOne true y := by
  apply run_cons_of
  · simp only [run, if_true, hyl, hxb, Nat.zero_add]
    simp only [expLine]
    rw [expUp_step true _ _ (by omega)]
    have : (127 + ly - 127) = ly := by omega
    simp only [if_true, this]
    have hx : (⟨127, 0⟩ : Item) = x := by cases x; simp_all
    rw [hx]; simp
  · exact run_final_ne true y (Or.inr ⟨ly, hyl, by omega⟩) (fun h => by cases h)

/-- linetable, line split downward: (0,-127) followed by (yb, ly<0) -/
theorem merge_down_lt (x : Item) (y : CItem) (ly : Int) (hxl : x.line = -127) (hxb : x.bc = 0)
    (hyl : y.line = some ly) (hneg : ly < 0) :
    expandOne true ⟨some (-127 + ly), x.bc + y.bc⟩ = x :: expandOne true y := by
  apply run_cons_of
  · simp only [run, if_true, hyl, hxb, Nat.zero_add]
    simp only [expLine]
    rw [expUp_small true _ _ (by omega), expUp_small true _ _ (by omega)]
    have hm : minLine true = -127 := rfl
    rw [expDown_step true _ _ (by simp only [hm]; omega)]
    have : (-127 + ly - minLine true) = ly := by rw [hm]; omega
    simp only [if_true, this]
    have hx : (⟨minLine true, 0⟩ : Item) = x := by cases x; simp_all
    rw [hx]; simp
  · exact run_final_ne true y (Or.inr ⟨ly, hyl, by omega⟩) (fun h => by cases h)

end CDV.LT

namespace CDV.LT

theorem expandOne_validRow (isLT : Bool) (x : Item) (h : ValidRow isLT x) :
    expandOne isLT (toC isLT x) = [x] := by
  obtain ⟨hb, hl1, hl2⟩ := h
  rw [expandOne_eq_run]
  cases isLT with
  | false =>
    have hm : minLine false = -128 := rfl
    simp only [run, toC, Bool.false_and, Bool.false_eq_true, if_false]
    rw [expBc_small _ _ _ hb, expLine_small _ _ _ (by rw [hm]; exact hl1) hl2]
    simp [finish, lineOr128]
  | true =>
    simp only [run, toC, Bool.true_and, if_true]
    by_cases hn : x.line = -128
    · simp only [hn, beq_self_eq_true, if_true, expLine_none]
      rw [expBc_small _ _ _ hb]
      cases x; simp_all [finish, lineOr128]
    · have hne : (x.line == -128) = false := by simpa using hn
      have hm : minLine true = -127 := rfl
      simp only [hne, Bool.false_eq_true, if_false]
      rw [expLine_small _ _ _ (by rw [hm]; omega) hl2, expBc_small _ _ _ hb]
      simp [finish, lineOr128]

theorem mergeLine_some_some (p l : Int) : mergeLine (some p) (some l) = some (some (p + l)) := by
  unfold mergeLine
  by_cases h : l = 0 <;> simp [h]

/-- every merge that (repaired) collapse performs is undone by expand -/
theorem merge_undone (isLT : Bool) (x : Item) (y : CItem) (hv : ValidRow isLT x)
    (hy : isLT = false → y.line.isSome)
    (hm : shouldMerge isLT (toC isLT x) y = true) :
    ∃ l, mergeLine (toC isLT x).line y.line = some l ∧ (isLT = false → l.isSome) ∧
      expandOne isLT ⟨l, (toC isLT x).bc + y.bc⟩ = x :: expandOne isLT y := by
  obtain ⟨hb, hl1, hl2⟩ := hv
  cases isLT with
  | false =>
    obtain ⟨ly, hyl⟩ := Option.isSome_iff_exists.mp (hy rfl)
    have hmax : maxBc false = 255 := rfl
    have hmin : minLine false = -128 := rfl
    have htc : toC false x = ⟨some x.line, x.bc⟩ := by simp [toC]
    rw [htc] at hm ⊢
    simp only [shouldMerge, Bool.false_eq_true, if_false, hyl, hmax, hmin, maxLine_eq,
      Option.isSome_some, Bool.true_and, Bool.and_true, Bool.or_eq_true, Bool.and_eq_true,
      beq_iff_eq, decide_eq_true_eq, bne_iff_ne, ne_eq, Option.some.injEq] at hm
    simp only [hyl, mergeLine_some_some]
    rcases hm with ⟨⟨h0, hb255⟩, hyb⟩ | ⟨hyb, (⟨hp, hpos⟩ | ⟨hp, hneg⟩)⟩
    · refine ⟨some (x.line + ly), rfl, fun _ => rfl, ?_⟩
      rw [h0, Int.zero_add]
      exact merge_bc_old x y ly h0 (by omega) hyl hyb
    · have hx127 : x.line = 127 := by simp only [decide_eq_true_eq, ge_iff_le] at hp; omega
      refine ⟨some (x.line + ly), rfl, fun _ => rfl, ?_⟩
      rw [hx127]
      exact merge_up_old x y ly hx127 (by omega) hyl hyb hpos
    · have hx128 : x.line = -128 := by omega
      refine ⟨some (x.line + ly), rfl, fun _ => rfl, ?_⟩
      rw [hx128]
      exact merge_down_old x y ly hx128 (by omega) hyl hyb hneg
  | true =>
    have hmax : maxBc true = 254 := rfl
    have hmin : minLine true = -127 := rfl
    by_cases hn : x.line = -128
    · simp [shouldMerge, toC, hn] at hm
    · have htc : toC true x = ⟨some x.line, x.bc⟩ := by simp [toC, hn]
      rw [htc] at hm ⊢
      simp only [shouldMerge, if_true, hmax, hmin, maxLine_eq,
        Option.isSome_some, Bool.and_true, Bool.or_eq_true, Bool.and_eq_true,
        beq_iff_eq, decide_eq_true_eq, bne_iff_ne, ne_eq] at hm
      rcases hm with ⟨⟨hy0, hb254⟩, hyb⟩ | ⟨hxb0, hl⟩
      · refine ⟨some x.line, ?_, (fun h => by cases h), ?_⟩
        · rw [hy0, mergeLine_some_some]; simp
        · exact merge_bc_lt x y (by omega) (by omega) hl2 hy0 hyb
      · cases hyl : y.line with
        | none => simp [hyl] at hl
        | some ly =>
          simp only [hyl, Bool.or_eq_true, Bool.and_eq_true, decide_eq_true_eq] at hl
          rw [mergeLine_some_some]
          rcases hl with ⟨hp, hpos⟩ | ⟨hp, hneg⟩
          · have hx127 : x.line = 127 := by simp only [decide_eq_true_eq, ge_iff_le] at hp; omega
            refine ⟨some (x.line + ly), rfl, (fun h => by cases h), ?_⟩
            rw [hx127]
            exact merge_up_lt x y ly hx127 hxb0 hyl hpos
          · have hx127 : x.line = -127 := by omega
            refine ⟨some (x.line + ly), rfl, (fun h => by cases h), ?_⟩
            rw [hx127]
            exact merge_down_lt x y ly hx127 hxb0 hyl hneg

end CDV.LT

namespace CDV.LT

/-- main theorem of stage 2 (repaired model): expand ∘ collapse = id on every list of in-range rows,
    for both formats.  No assembler-image hypothesis. -/
theorem expand_collapse (isLT : Bool) : ∀ (t : List Item), (∀ x ∈ t, ValidRow isLT x) →
    ∃ cs, collapse isLT t = some cs ∧ expand isLT cs = t ∧ (isLT = false → ∀ c ∈ cs, c.line.isSome)
  | [], _ => ⟨[], by simp [collapse, collapseC], by simp [expand], by simp⟩
  | x :: rest, hv => by
    have hvx : ValidRow isLT x := hv x (by simp)
    obtain ⟨cs, hc, he, hs⟩ := expand_collapse isLT rest (fun y hy => hv y (by simp [hy]))
    have hc' : collapseC isLT (List.map (toC isLT) rest) = some cs := hc
    have hxs : isLT = false → (toC isLT x).line.isSome := by
      intro h; subst h; simp [toC]
    cases cs with
    | nil =>
      refine ⟨[toC isLT x], ?_, ?_, ?_⟩
      · simp [collapse, collapseC, hc']
      · simp only [expand, List.flatMap_cons, List.flatMap_nil, List.append_nil] at he ⊢
        rw [expandOne_validRow isLT x hvx, ← he]
      · intro h c hcm; simp at hcm; subst hcm; exact hxs h
    | cons y ys =>
      by_cases hm : shouldMerge isLT (toC isLT x) y = true
      · obtain ⟨l, hl, hls, hx⟩ := merge_undone isLT x y hvx (fun h => hs h y (by simp)) hm
        refine ⟨⟨l, (toC isLT x).bc + y.bc⟩ :: ys, ?_, ?_, ?_⟩
        · simp [collapse, collapseC, hc', hm, hl]
        · simp only [expand, List.flatMap_cons] at he ⊢
          rw [hx, ← he]; simp
        · intro h c hcm
          simp only [List.mem_cons] at hcm
          rcases hcm with rfl | hcm
          · exact hls h
          · exact hs h c (by simp [hcm])
      · refine ⟨toC isLT x :: y :: ys, ?_, ?_, ?_⟩
        · simp [collapse, collapseC, hc', hm]
        · simp only [expand, List.flatMap_cons] at he ⊢
          rw [expandOne_validRow isLT x hvx, ← he]; simp
        · intro h c hcm
          simp only [List.mem_cons] at hcm
          rcases hcm with rfl | hcm
          · exact hxs h
          · exact hs h c (by simpa using hcm)


end CDV.LT

namespace CDV.LT

/-- stage 1: `items_to_bytes (bytes_to_items b) = b` for every even-length list of bytes -/
theorem itemsToBytes_bytesToItems : ∀ (b : List Nat), b.length % 2 = 0 → (∀ x ∈ b, x < 256) →
    itemsToBytes (bytesToItems b) = b
  | [], _, _ => rfl
  | [_], h, _ => by simp at h
  | a :: l :: rest, h, hb => by
    have hl : l < 256 := hb l (by simp)
    have ih := itemsToBytes_bytesToItems rest (by simp at h; omega) (fun x hx => hb x (by simp [hx]))
    simp only [bytesToItems, itemsToBytes, ih, unsigned, signed]
    congr 2
    split <;> omega

/-- rows read from bytes are in range: the lnotab format accepts every byte string, the linetable
    format every byte string whose address deltas are not 255 -/
theorem bytesToItems_validRow (isLT : Bool) : ∀ (b : List Nat), (∀ x ∈ b, x < 256) →
    (isLT = true → ∀ x ∈ bytesToItems b, x.bc ≠ 255) → ∀ x ∈ bytesToItems b, ValidRow isLT x
  | [], _, _ => by simp [bytesToItems]
  | [_], _, _ => by simp [bytesToItems]
  | a :: l :: rest, hb, h255 => by
    intro x hx
    simp only [bytesToItems, List.mem_cons] at hx
    rcases hx with rfl | hx
    · have hl : l < 256 := hb l (by simp)
      have ha : a < 256 := hb a (by simp)
      refine ⟨?_, ?_, ?_⟩
      · cases isLT with
        | false => show a ≤ 255; omega
        | true =>
          have := h255 rfl ⟨signed l, a⟩ (by simp [bytesToItems])
          show a ≤ 254
          simp at this; omega
      · simp only [signed]; split <;> omega
      · simp only [signed]; split <;> omega
    · exact bytesToItems_validRow isLT rest (fun y hy => hb y (by simp [hy]))
        (fun h y hy => h255 h y (by simp [bytesToItems, hy])) x hx

end CDV.LT
