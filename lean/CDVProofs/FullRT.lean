import CDVProofs.Props.C01Main
import CDVProofs.JumpsValid
import CDVProofs.Props.C14
/-! # The whole round trip, through every nesting level: `from_code(c).to_code()` returns `c` up to line-table bytes -/
namespace CDV
open CDV.Props.C14 (rawCodesOf)

/-- the facts about one code object (not about the code objects nested in it) that the round-trip theorems use:
    what CPython guarantees for compiled code -/
def LevelOK (v : Ver) (T : OpTable) : RawCode → Prop
  | .mk argc pos kw nl ss fl fln code lt fname name names varnames freevars cellvars consts =>
    argc + kw + (if fl.testBit bVARARGS then 1 else 0) + (if fl.testBit bVARKEYWORDS then 1 else 0) ≤ varnames.length ∧
    (varnames.take (argc + kw + (if fl.testBit bVARARGS then 1 else 0) + (if fl.testBit bVARKEYWORDS then 1 else 0))).Nodup ∧
    (v.hasPosOnly = false → pos = 0) ∧
    (∀ x ∈ code, x < 256) ∧ Complete code 0 ∧
    (∀ raws, parseBytes code = .ok raws → ∀ r ∈ raws, r.nargs ≤ 4) ∧
    (∀ raws, parseBytes code = .ok raws → ∀ r ∈ raws, T.get r.op ≠ .jabs → T.get r.op ≠ .jrel → r.nargs = instrsize r.arg) ∧
    (∀ raws, parseBytes code = .ok raws → ∀ r ∈ raws,
      (T.get r.op = .jabs → (decMult v * r.arg).toNat ∈ raws.map (·.first)) ∧
      (T.get r.op = .jrel → ((r.next : Int) + decMult v * r.arg).toNat ∈ raws.map (·.first))) ∧
    cellvars.Nodup ∧ freevars.Nodup ∧
    (∀ s ∈ Spec.read v T (.mk argc pos kw nl ss fl fln code lt fname name names varnames freevars cellvars consts),
      ∀ idx rel, s.arg = .jump idx rel → idx.isSome) ∧
    lt.length % 2 = 0 ∧ (∀ x ∈ lt, x < 256) ∧
    (v.is310 = true → ∀ x ∈ LT.bytesToItems lt, x.bc % 2 = 0 ∧ x.bc ≠ 255) ∧
    (v.is310 = false → ∀ cs, LT.collapse false (LT.bytesToItems lt) = some cs → ∀ c ∈ cs, c.bc % 2 = 0) ∧
    Spec.read v T (.mk argc pos kw nl ss fl fln code lt fname name names varnames freevars cellvars consts) ≠ []

/-- the facts hold at every nesting level down to depth `n` -/
def AllOK (v : Ver) (T : OpTable) : Nat → RawCode → Prop
  | 0, _ => False
  | n+1, c => LevelOK v T c ∧ ∀ k ∈ rawCodesOf c.consts, AllOK v T n k

/-- constants tables related entry by entry: the same non-code entries, related code objects -/
def constsRel (r : RawCode → RawCode → Prop) : List RConst → List RConst → Prop
  | [], [] => True
  | .inner x :: xs, .inner y :: ys => x = y ∧ constsRel r xs ys
  | .code a :: xs, .code b :: ys => r a b ∧ constsRel r xs ys
  | _, _ => False

/-- equal in every attribute except the bytes of the line table, at every nesting level -/
def SameButLT : Nat → RawCode → RawCode → Prop
  | 0, _, _ => False
  | n+1, .mk a p k nl ss fl fln code _ fn nm names vn fv cv consts, .mk a' p' k' nl' ss' fl' fln' code' _ fn' nm' names' vn' fv' cv' consts' =>
    a = a' ∧ p = p' ∧ k = k' ∧ nl = nl' ∧ ss = ss' ∧ fl = fl' ∧ fln = fln' ∧ code = code' ∧ fn = fn' ∧ nm = nm' ∧ names = names' ∧
    vn = vn' ∧ fv = fv' ∧ cv = cv' ∧ constsRel (SameButLT n) consts consts'

/-- the nested code objects: each decoding encodes, to a related code object -/
theorem nested_encode (dec : RawCode → R CodeData) (enc : CodeData → R RawCode) (ok : RawCode → Prop) (r : RawCode → RawCode → Prop)
    (ih : ∀ k dk, ok k → dec k = .ok dk → ∃ ck, enc dk = .ok ck ∧ r k ck) :
    ∀ (consts : List RConst) (K : List Const), (∀ k ∈ rawCodesOf consts, ok k) →
    consts.mapM (fun c => match c with | .inner i => pure (Const.inner i) | .code k => Const.code <$> dec k) = .ok K →
    ∃ consts', K.mapM (fun c => match c with | .inner i => pure (RConst.inner i) | .code d => RConst.code <$> enc d) = .ok consts' ∧
      constsRel r consts consts'
  | [], K, _, h => by
    simp [pure, Except.pure] at h; subst h
    exact ⟨[], by simp [pure, Except.pure], trivial⟩
  | .inner i :: cs, K, hok, h => by
    simp only [List.mapM_cons] at h
    obtain ⟨r0, h0, h⟩ := bind_ok h
    obtain ⟨rs', h1, h⟩ := bind_ok h
    simp only [pure, Except.pure, Except.ok.injEq] at h h0
    subst h; subst h0
    obtain ⟨cs', hcs', hrel⟩ := nested_encode dec enc ok r ih cs rs' (fun k hk => hok k (by simpa [rawCodesOf] using hk)) h1
    refine ⟨.inner i :: cs', ?_, ⟨rfl, hrel⟩⟩
    simp only [List.mapM_cons]
    rw [hcs']; rfl
  | .code k :: cs, K, hok, h => by
    simp only [List.mapM_cons] at h
    obtain ⟨r0, h0, h⟩ := bind_ok h
    obtain ⟨rs', h1, h⟩ := bind_ok h
    simp only [pure, Except.pure, Except.ok.injEq] at h
    subst h
    cases hd : dec k with
    | error e => simp [hd, Functor.map, Except.map] at h0
    | ok dk =>
      simp [hd, Functor.map, Except.map] at h0
      subst h0
      obtain ⟨ck, hck, hr⟩ := ih k dk (hok k (by simp [rawCodesOf])) hd
      obtain ⟨cs', hcs', hrel⟩ := nested_encode dec enc ok r ih cs rs' (fun k' hk => hok k' (by simp [rawCodesOf, hk])) h1
      refine ⟨.code ck :: cs', ?_, ⟨hr, hrel⟩⟩
      simp only [List.mapM_cons]
      rw [hcs', hck]; rfl

/-- **The whole round trip, at every nesting depth.** -/
theorem full_roundtrip (v : Ver) (T : OpTable) (F : FlagTable)
    (hA : F.annotations ∉ [bOPTIMIZED, bNEWLOCALS, bVARARGS, bVARKEYWORDS, bNESTED, bGENERATOR, bNOFREE, bCOROUTINE, bASYNC_GENERATOR]) :
    ∀ (n : Nat) (c : RawCode) (d : CodeData), AllOK v T n c → toCodeDataFuel v T F n c = .ok d →
      ∃ c', fromCodeDataFuel v F n d = .ok c' ∧ SameButLT n c c'
  | 0, _, _, hok, _ => hok.elim
  | n+1, .mk argc pos kw nl ss fl fln code lt fname name names varnames freevars cellvars consts, d, hok, h => by
    obtain ⟨⟨hlen, hnodup, hpos37, hcode, hcomp, hpre, hmin, hjs, hcn, hfn, hvalid, hteven, htbytes, htbc, htbcOld, hrne⟩, hsub⟩ := hok
    have h' : toCodeDataGo v T F (toCodeDataFuel v T F n)
        (.mk argc pos kw nl ss fl fln code lt fname name names varnames freevars cellvars consts) = .ok d := h
    have hjv := decoded_jumps_valid v T F _ argc pos kw nl ss fl fln code lt fname name names varnames freevars cellvars consts d h' hjs
    have hnest := nested_encode (toCodeDataFuel v T F n) (fromCodeDataFuel v F n) (AllOK v T n) (SameButLT n)
      (fun k dk hk hd => full_roundtrip v T F hA n k dk hk hd) consts
    obtain ⟨c', hc'⟩ := decoded_to_code_returns v T F _ (fromCodeDataFuel v F n) argc pos kw nl ss fl fln code lt fname name names varnames
      freevars cellvars consts d h' hlen hnodup hjv hcode hpre hvalid hteven htbytes htbc htbcOld hrne
      (fun K hK => let ⟨cs', h1, _⟩ := hnest K hsub hK; ⟨cs', h1⟩)
    obtain ⟨K, lt', consts', hK, hK', hceq⟩ := CDV.Props.C01.C01_all_but_linetable v T F _ (fromCodeDataFuel v F n) argc pos kw nl ss fl fln code lt fname name
      names varnames freevars cellvars consts d c' hA h' hlen hnodup hpos37 hcode hcomp hpre hmin hjs hcn hfn hc'
    obtain ⟨cs', h1, hrel⟩ := hnest K hsub hK
    have : cs' = consts' := by
      have := h1.symm.trans hK'
      exact Except.ok.inj this
    subst this
    refine ⟨c', hc', ?_⟩
    rw [hceq]
    exact ⟨rfl, rfl, rfl, rfl, rfl, rfl, rfl, rfl, rfl, rfl, rfl, rfl, rfl, rfl, hrel⟩

end CDV
