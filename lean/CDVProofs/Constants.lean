import CDV.Constants
/-! `Constant.__eq__` (equality of `constant_key`s) is an equivalence relation (helper lemmas for C08) -/
namespace CDV

theorem keyEq_tuple (xs ys : List InnerConst) :
    InnerConst.keyEq (.tuple xs) (.tuple ys) = (xs.length == ys.length && (xs.zip ys).all (fun p => InnerConst.keyEq p.1 p.2)) := by
  rw [InnerConst.keyEq]
  congr 1
  have : xs.zip ys = (xs.attach.zip ys).map (fun p => (p.1.1, p.2)) := by
    conv => lhs; rw [← List.attach_map_subtype_val xs]
    rw [List.zip_map_left]
    rfl
  rw [this, List.all_map]
  rfl

theorem keyEq_fset (xs ys : List InnerConst) :
    InnerConst.keyEq (.fset xs) (.fset ys) =
      (xs.all (fun x => ys.any (fun y => InnerConst.keyEq x y)) && ys.all (fun y => xs.any (fun x => InnerConst.keyEq x y))) := by
  rw [InnerConst.keyEq]
  congr 1
  · conv => rhs; rw [← List.attach_map_subtype_val xs]
    rw [List.all_map]; rfl
  · congr 1; funext y
    conv => rhs; rw [← List.attach_map_subtype_val xs]
    rw [List.any_map]; rfl

theorem floatKeyEq_refl (a : Nat) : floatKeyEq a a = true := by simp [floatKeyEq]
theorem floatKeyEq_symm (a b : Nat) : floatKeyEq a b = floatKeyEq b a := by
  simp only [floatKeyEq]; rw [Bool.and_comm]; congr 1; exact Bool.eq_iff_iff.mpr ⟨fun h => by simpa using (of_decide_eq_true h).symm, fun h => by simpa using (of_decide_eq_true h).symm⟩
theorem floatKeyEq_trans (a b c : Nat) (h1 : floatKeyEq a b = true) (h2 : floatKeyEq b c = true) : floatKeyEq a c = true := by
  simp only [floatKeyEq, Bool.or_eq_true, Bool.and_eq_true, beq_iff_eq] at *
  rcases h1 with ⟨ha, hb⟩ | rfl
  · rcases h2 with ⟨_, hc⟩ | rfl
    · exact Or.inl ⟨ha, hc⟩
    · exact Or.inl ⟨ha, hb⟩
  · exact h2

mutual
theorem keyEq_refl : ∀ c : InnerConst, InnerConst.keyEq c c = true
  | .none => by simp [InnerConst.keyEq]
  | .ellipsis => by simp [InnerConst.keyEq]
  | .bool _ => by simp [InnerConst.keyEq]
  | .int _ => by simp [InnerConst.keyEq]
  | .float a => by simp [InnerConst.keyEq, floatKeyEq_refl]
  | .complex r i => by simp [InnerConst.keyEq, floatKeyEq_refl]
  | .str _ => by simp [InnerConst.keyEq]
  | .bytes _ => by simp [InnerConst.keyEq]
  | .tuple xs => by
    rw [keyEq_tuple]
    simp only [beq_self_eq_true, Bool.true_and, List.all_eq_true]
    intro p hp
    have := List.of_mem_zip hp
    have hx := keyEq_refl_list xs p.1 this.1
    -- elements of `zip xs xs` are pairs (x, x)
    have : p.1 = p.2 := by
      clear hx this
      induction xs with
      | nil => simp at hp
      | cons x xs ih =>
        simp only [List.zip_cons_cons, List.mem_cons] at hp
        rcases hp with rfl | hp
        · rfl
        · exact ih hp
    rw [← this]; exact hx
  | .fset xs => by
    rw [keyEq_fset]
    simp only [Bool.and_eq_true, List.all_eq_true, List.any_eq_true]
    exact ⟨fun x hx => ⟨x, hx, keyEq_refl_list xs x hx⟩, fun y hy => ⟨y, hy, keyEq_refl_list xs y hy⟩⟩
theorem keyEq_refl_list : ∀ (xs : List InnerConst), ∀ x ∈ xs, InnerConst.keyEq x x = true
  | [], _, h => by simp at h
  | y :: ys, x, h => by
    simp only [List.mem_cons] at h
    rcases h with rfl | h
    · exact keyEq_refl x
    · exact keyEq_refl_list ys x h
end

theorem all_zip_swap {α β} (f : α → β → Bool) : ∀ (xs : List α) (ys : List β),
    (xs.zip ys).all (fun p => f p.1 p.2) = (ys.zip xs).all (fun p => f p.2 p.1)
  | [], ys => by cases ys <;> rfl
  | x :: xs, [] => by rfl
  | x :: xs, y :: ys => by
    simp only [List.zip_cons_cons, List.all_cons]
    rw [all_zip_swap f xs ys]

theorem all_congr_mem {α} (p q : α → Bool) : ∀ (l : List α), (∀ a ∈ l, p a = q a) → l.all p = l.all q
  | [], _ => rfl
  | a :: l, h => by
    simp only [List.all_cons, h a (by simp), all_congr_mem p q l (fun b hb => h b (by simp [hb]))]

theorem any_congr_mem {α} (p q : α → Bool) : ∀ (l : List α), (∀ a ∈ l, p a = q a) → l.any p = l.any q
  | [], _ => rfl
  | a :: l, h => by
    simp only [List.any_cons, h a (by simp), any_congr_mem p q l (fun b hb => h b (by simp [hb]))]

theorem beq_comm' {α} [DecidableEq α] (a b : α) : (a == b) = (b == a) := by
  cases hab : (a == b) <;> cases hba : (b == a) <;> simp_all

mutual
theorem keyEq_symm : ∀ (a b : InnerConst), InnerConst.keyEq a b = InnerConst.keyEq b a
  | .none, b => by cases b <;> simp [InnerConst.keyEq]
  | .ellipsis, b => by cases b <;> simp [InnerConst.keyEq]
  | .bool x, b => by cases b <;> simp [InnerConst.keyEq, beq_comm' x]
  | .int x, b => by cases b <;> simp [InnerConst.keyEq, beq_comm' x]
  | .float x, b => by cases b <;> simp [InnerConst.keyEq, floatKeyEq_symm x]
  | .complex r i, b => by cases b <;> simp [InnerConst.keyEq, floatKeyEq_symm r, floatKeyEq_symm i]
  | .str x, b => by cases b <;> simp [InnerConst.keyEq, beq_comm' x]
  | .bytes x, b => by cases b <;> simp [InnerConst.keyEq, beq_comm' x]
  | .tuple xs, b => by
    cases b with
    | tuple ys =>
      rw [keyEq_tuple, keyEq_tuple, all_zip_swap (fun a b => InnerConst.keyEq a b) xs ys, beq_comm' xs.length]
      congr 1
      apply all_congr_mem
      intro p hp
      exact keyEq_symm_list xs p.2 (List.of_mem_zip hp).2 p.1
    | _ => simp [InnerConst.keyEq]
  | .fset xs, b => by
    cases b with
    | fset ys =>
      rw [keyEq_fset, keyEq_fset, Bool.and_comm]
      have h1 : (ys.all fun y => xs.any fun x => InnerConst.keyEq x y) = (ys.all fun x => xs.any fun y => InnerConst.keyEq x y) := by
        apply all_congr_mem
        intro y _
        apply any_congr_mem
        intro x hx
        exact keyEq_symm_list xs x hx y
      have h2 : (xs.all fun x => ys.any fun y => InnerConst.keyEq x y) = (xs.all fun y => ys.any fun x => InnerConst.keyEq x y) := by
        apply all_congr_mem
        intro x hx
        apply any_congr_mem
        intro y _
        exact keyEq_symm_list xs x hx y
      rw [h1, h2]
    | _ => simp [InnerConst.keyEq]
theorem keyEq_symm_list : ∀ (xs : List InnerConst), ∀ x ∈ xs, ∀ b, InnerConst.keyEq x b = InnerConst.keyEq b x
  | [], _, h, _ => by simp at h
  | y :: ys, x, h, b => by
    simp only [List.mem_cons] at h
    rcases h with rfl | h
    · exact keyEq_symm x b
    · exact keyEq_symm_list ys x h b
end

theorem allzip_trans (f : InnerConst → InnerConst → Bool) : ∀ (xs ys zs : List InnerConst),
    (∀ x ∈ xs, ∀ y z, f x y = true → f y z = true → f x z = true) →
    xs.length = ys.length → ys.length = zs.length →
    (xs.zip ys).all (fun p => f p.1 p.2) = true → (ys.zip zs).all (fun p => f p.1 p.2) = true →
    (xs.zip zs).all (fun p => f p.1 p.2) = true
  | [], _, _, _, _, _, _, _ => by simp
  | x :: xs, [], _, _, h, _, _, _ => by simp at h
  | x :: xs, y :: ys, [], _, _, h, _, _ => by simp at h
  | x :: xs, y :: ys, z :: zs, H, h1, h2, a1, a2 => by
    simp only [List.zip_cons_cons, List.all_cons, Bool.and_eq_true] at a1 a2 ⊢
    exact ⟨H x (by simp) y z a1.1 a2.1,
      allzip_trans f xs ys zs (fun x' hx' => H x' (by simp [hx'])) (by simpa using h1) (by simpa using h2) a1.2 a2.2⟩

mutual
theorem keyEq_trans : ∀ (a b c : InnerConst), InnerConst.keyEq a b = true → InnerConst.keyEq b c = true → InnerConst.keyEq a c = true
  | .none, b, c, h1, h2 => by cases b <;> simp [InnerConst.keyEq] at h1; exact h2
  | .ellipsis, b, c, h1, h2 => by cases b <;> simp [InnerConst.keyEq] at h1; exact h2
  | .bool x, b, c, h1, h2 => by cases b <;> simp [InnerConst.keyEq] at h1; subst h1; exact h2
  | .int x, b, c, h1, h2 => by cases b <;> simp [InnerConst.keyEq] at h1; subst h1; exact h2
  | .float x, b, c, h1, h2 => by
    cases b <;> simp [InnerConst.keyEq] at h1
    cases c <;> simp [InnerConst.keyEq] at h2
    simp [InnerConst.keyEq, floatKeyEq_trans _ _ _ h1 h2]
  | .complex r i, b, c, h1, h2 => by
    cases b <;> simp [InnerConst.keyEq] at h1
    cases c <;> simp [InnerConst.keyEq] at h2
    simp [InnerConst.keyEq, floatKeyEq_trans _ _ _ h1.1 h2.1, floatKeyEq_trans _ _ _ h1.2 h2.2]
  | .str x, b, c, h1, h2 => by cases b <;> simp [InnerConst.keyEq] at h1; subst h1; exact h2
  | .bytes x, b, c, h1, h2 => by cases b <;> simp [InnerConst.keyEq] at h1; subst h1; exact h2
  | .tuple xs, b, c, h1, h2 => by
    cases b with
    | tuple ys =>
      cases c with
      | tuple zs =>
        rw [keyEq_tuple] at h1 h2 ⊢
        simp only [Bool.and_eq_true, beq_iff_eq] at h1 h2 ⊢
        exact ⟨h1.1.trans h2.1, allzip_trans _ xs ys zs (fun x hx y z => keyEq_trans_list xs x hx y z) h1.1 h2.1 h1.2 h2.2⟩
      | _ => simp [InnerConst.keyEq] at h2
    | _ => simp [InnerConst.keyEq] at h1
  | .fset xs, b, c, h1, h2 => by
    cases b with
    | fset ys =>
      cases c with
      | fset zs =>
        rw [keyEq_fset] at h1 h2 ⊢
        simp only [Bool.and_eq_true, List.all_eq_true, List.any_eq_true] at h1 h2 ⊢
        refine ⟨fun x hx => ?_, fun z hz => ?_⟩
        · obtain ⟨y, hy, hxy⟩ := h1.1 x hx
          obtain ⟨z, hz, hyz⟩ := h2.1 y hy
          exact ⟨z, hz, keyEq_trans_list xs x hx y z hxy hyz⟩
        · obtain ⟨y, hy, hyz⟩ := h2.2 z hz
          obtain ⟨x, hx, hxy⟩ := h1.2 y hy
          exact ⟨x, hx, keyEq_trans_list xs x hx y z hxy hyz⟩
      | _ => simp [InnerConst.keyEq] at h2
    | _ => simp [InnerConst.keyEq] at h1
theorem keyEq_trans_list : ∀ (xs : List InnerConst), ∀ x ∈ xs, ∀ b c,
    InnerConst.keyEq x b = true → InnerConst.keyEq b c = true → InnerConst.keyEq x c = true
  | [], _, h, _, _, _, _ => by simp at h
  | y :: ys, x, h, b, c, h1, h2 => by
    simp only [List.mem_cons] at h
    rcases h with rfl | h
    · exact keyEq_trans x b c h1 h2
    · exact keyEq_trans_list ys x h b c h1 h2
end

end CDV
