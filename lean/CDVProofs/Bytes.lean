import CDV.Encode
import CDV.Spec
/-! Byte-level codec: `_parse_bytes` (the library's reader) against CPython's own reading of wordcode
    (`Spec.units` / `Spec.fold`: `dis._unpack_opargs` with the 32-bit wrap of `ceval`), and against the
    library's own assembler loop (`emitOne`, the "duplicate semantics of write_op_arg" loop of `blocks_to_bytes`). -/
namespace CDV

theorem bind_ok {β γ} {x : R β} {f : β → R γ} {b : γ} (h : x >>= f = .ok b) : ∃ a, x = .ok a ∧ f a = .ok b := by
  cases x with
  | error e => simp [bind, Except.bind] at h
  | ok a => exact ⟨a, rfl, h⟩

/-- 32-bit two's complement reading of a natural number below 2^32 -/
def sgn32 (e : Nat) : Int := if e ≥ 2^31 then (e : Int) - 2^32 else e

theorem c_int_upper_eq : c_int_upper = 2147483647 := by
  simp [c_int_upper, Extracted.cIntBits]
theorem c_int_len_eq : c_int_len = 4294967296 := by
  simp [c_int_len, Extracted.cIntBits]

/-- the running state of `_parse_bytes` (`arg`, `n_args`, position) against the running state of CPython's reader
    (`extended_arg`, first offset of the current instruction) -/
structure ParseRel (i : Nat) (arg : Int) (nargs : Nat) (e : Nat) (first : Option Nat) : Prop where
  first_eq : first = if nargs = 0 then none else some (i - 2 * nargs)
  pos : 2 * nargs ≤ i
  val : nargs ≤ 3 → arg = sgn32 e ∧ e % 256 = 0 ∧ e < 256 ^ (nargs + 1)

def RawI.proj (r : RawI) : Nat × Nat × Int × Nat := (r.first, r.op, r.arg, r.next)

/-- **`_parse_bytes` reads what CPython reads.**  For every byte string (operands below 256), if `_parse_bytes`
    succeeds and no instruction carries more than three `EXTENDED_ARG` prefixes (the most CPython ever emits: a C int
    has four bytes), its result — opcode, folded signed operand, first offset, next offset — is exactly CPython's. -/
theorem parseGo_agrees (ext : Nat) : ∀ (n : Nat) (code : List Nat), code.length = n → ∀ (i : Nat) (arg : Int) (nargs e : Nat) (first : Option Nat)
    (raws : List RawI), (∀ x ∈ code, x < 256) → ParseRel i arg nargs e first →
    parseGo ext code i arg nargs = .ok raws → (∀ r ∈ raws, r.nargs ≤ 4) →
    raws.map RawI.proj = Spec.fold ext (Spec.units ext code i e) first := by
  intro n
  induction n using Nat.strongRecOn with
  | ind n ih =>
  intro code hlen i arg nargs e first raws hb hrel hp hn
  match code, hlen with
  | [], _ =>
    simp [parseGo, pure, Except.pure] at hp
    subst hp
    simp [Spec.units, Spec.fold]
  | [_], _ => simp [parseGo, throw, throwThe, MonadExceptOf.throw] at hp
  | op :: a :: rest, hlen =>
    have ha : a < 256 := hb a (by simp)
    have hrest : ∀ x ∈ rest, x < 256 := fun x hx => hb x (by simp [hx])
    simp only [List.length_cons] at hlen
    rw [parseGo] at hp
    simp only [Spec.units]
    by_cases hop : op = ext
    · simp only [hop, if_true] at hp ⊢
      rw [Spec.fold]
      simp only [if_true]
      apply ih rest.length (by omega) rest rfl _ _ _ _ _ raws hrest _ hp hn
      constructor
      · simp only [Nat.succ_ne_zero, if_false]
        rw [hrel.first_eq]
        split
        · next h0 => subst h0; simp
        · simp; have := hrel.pos; omega
      · have := hrel.pos; omega
      · intro h3
        have h2 : nargs ≤ 2 := by omega
        obtain ⟨hv1, hv2, hv3⟩ := hrel.val (by omega)
        have he : e < 16777216 := by
          have : nargs = 0 ∨ nargs = 1 ∨ nargs = 2 := by omega
          rcases this with h | h | h <;> subst h <;> simp at hv3 <;> omega
        have harg : arg = (e : Int) := by
          rw [hv1, sgn32]; split
          · omega
          · rfl
        rw [c_int_upper_eq, c_int_len_eq, harg]
        have hnw : ((a + e) * 256) % 2 ^ 32 = (a + e) * 256 := Nat.mod_eq_of_lt (by omega)
        rw [hnw]
        refine ⟨?_, by omega, ?_⟩
        · unfold sgn32
          split <;> split <;> omega
        · have : nargs = 0 ∨ nargs = 1 ∨ nargs = 2 := by omega
          rcases this with h | h | h <;> subst h <;> simp at hv3 ⊢ <;> omega
    · simp only [hop, if_false] at hp ⊢
      obtain ⟨r, hr, hp⟩ := bind_ok hp
      simp only [pure, Except.pure, Except.ok.injEq] at hp
      subst hp
      rw [Spec.fold]
      simp only [hop, if_false, List.map_cons]
      have hn4 : nargs + 1 ≤ 4 := hn ⟨op, arg + a, nargs + 1, i - (nargs + 1 - 1) * 2, i + 2⟩ (by simp)
      obtain ⟨hv1, hv2, hv3⟩ := hrel.val (by omega)
      have he : e < 4294967296 := by
        have : nargs = 0 ∨ nargs = 1 ∨ nargs = 2 ∨ nargs = 3 := by omega
        rcases this with h | h | h | h <;> subst h <;> simp at hv3 <;> omega
      congr 1
      · simp only [RawI.proj, Prod.mk.injEq, true_and]
        refine ⟨?_, ?_⟩
        · rw [hrel.first_eq]
          split
          · next h0 => subst h0; simp
          · simp; have := hrel.pos; omega
        · rw [hv1]; unfold sgn32
          split <;> split <;> (refine ⟨?_, trivial⟩; omega)
      · apply ih rest.length (by omega) rest rfl _ _ _ _ _ r hrest _ hr (fun x hx => hn x (by simp [hx]))
        exact ⟨by simp, by omega, fun _ => by simp [sgn32]⟩

theorem parseBytes_agrees (code : List Nat) (raws : List RawI) (hb : ∀ x ∈ code, x < 256)
    (hp : parseBytes code = .ok raws) (hn : ∀ r ∈ raws, r.nargs ≤ 4) :
    raws.map RawI.proj = Spec.fold EXTENDED_ARG (Spec.units EXTENDED_ARG code 0 0) none :=
  parseGo_agrees EXTENDED_ARG code.length code rfl 0 0 0 0 none raws hb ⟨by simp, by omega, fun _ => by simp [sgn32]⟩ hp hn

/-! ### the assembler loop against the reader -/

/-- the operand `a` can be written in `n` code units and read back unchanged -/
def Fits (a : Int) (n : Nat) : Prop :=
  (0 ≤ a ∧ a < 256 ^ n ∧ a < 2 ^ 31) ∨ (n = 4 ∧ -(2 ^ 31) ≤ a ∧ a < 0)

theorem emitOne_1 (op : Nat) (a : Int) : emitOne op a 1 = [op, ((a % 2 ^ 8).toNat / 1) % 256] := by
  simp [emitOne, List.range, List.range.loop]
theorem emitOne_2 (op : Nat) (a : Int) :
    emitOne op a 2 = [EXTENDED_ARG, ((a % 2 ^ 16).toNat / 256) % 256, op, ((a % 2 ^ 16).toNat / 1) % 256] := by
  simp [emitOne, List.range, List.range.loop]
theorem emitOne_3 (op : Nat) (a : Int) :
    emitOne op a 3 = [EXTENDED_ARG, ((a % 2 ^ 24).toNat / 65536) % 256, EXTENDED_ARG, ((a % 2 ^ 24).toNat / 256) % 256,
      op, ((a % 2 ^ 24).toNat / 1) % 256] := by
  simp [emitOne, List.range, List.range.loop]
theorem emitOne_4 (op : Nat) (a : Int) :
    emitOne op a 4 = [EXTENDED_ARG, ((a % 2 ^ 32).toNat / 16777216) % 256, EXTENDED_ARG, ((a % 2 ^ 32).toNat / 65536) % 256,
      EXTENDED_ARG, ((a % 2 ^ 32).toNat / 256) % 256, op, ((a % 2 ^ 32).toNat / 1) % 256] := by
  simp [emitOne, List.range, List.range.loop]

theorem emitOne_length (op : Nat) (a : Int) (n : Nat) : (emitOne op a n).length = 2 * n := by
  unfold emitOne
  generalize (a % 2 ^ (8 * n)).toNat = u
  have : ∀ l : List Nat, (l.flatMap fun i => [if i == 0 then op else EXTENDED_ARG, (u / 256 ^ i) % 256]).length = 2 * l.length := by
    intro l
    induction l with
    | nil => simp
    | cons x xs ih => simp only [List.flatMap_cons, List.length_append, List.length_cons, List.length_nil, ih]; omega
  rw [this]; simp

/-- **What the assembler loop writes, `_parse_bytes` reads back**: opcode, operand, number of code units, offsets. -/
theorem parseGo_emitOne (op : Nat) (a : Int) (n : Nat) (rest : List Nat) (i : Nat)
    (hop : op ≠ EXTENDED_ARG) (hn1 : 1 ≤ n) (hn4 : n ≤ 4) (hf : Fits a n) :
    parseGo EXTENDED_ARG (emitOne op a n ++ rest) i 0 0 =
      (do let r ← parseGo EXTENDED_ARG rest (i + 2 * n) 0 0; pure (⟨op, a, n, i, i + 2 * n⟩ :: r)) := by
  have hcases : n = 1 ∨ n = 2 ∨ n = 3 ∨ n = 4 := by omega
  have hE : EXTENDED_ARG ≠ op := fun h => hop h.symm
  rcases hcases with h | h | h | h <;> subst h
  · rw [emitOne_1]
    simp only [List.cons_append, List.nil_append]
    rw [parseGo]
    simp only [hop, if_false]
    have : (0 : Int) + ((a % 2 ^ 8).toNat / 1 % 256 : Nat) = a := by
      rcases hf with ⟨h0, h1, _⟩ | ⟨h, _⟩
      · omega
      · omega
    rw [this]; simp
  · rw [emitOne_2]
    simp only [List.cons_append, List.nil_append]
    rw [parseGo]; simp only [if_true]
    rw [parseGo]; simp only [hop, if_false]
    rcases hf with ⟨h0, h1, _⟩ | ⟨h, _⟩
    · have e1 : ((0 : Int) + ((a % 2 ^ 16).toNat / 256 % 256 : Nat)) * 256 ≤ c_int_upper := by rw [c_int_upper_eq]; omega
      have e2 : ((0 : Int) + ((a % 2 ^ 16).toNat / 256 % 256 : Nat)) * 256 + ((a % 2 ^ 16).toNat / 1 % 256 : Nat) = a := by omega
      simp only [Int.not_lt.mpr e1, if_false, e2]
      congr
    · omega
  · rw [emitOne_3]
    simp only [List.cons_append, List.nil_append]
    rw [parseGo]; simp only [if_true]
    rw [parseGo]; simp only [if_true]
    rw [parseGo]; simp only [hop, if_false]
    rcases hf with ⟨h0, h1, _⟩ | ⟨h, _⟩
    · have e1 : ((0 : Int) + ((a % 2 ^ 24).toNat / 65536 % 256 : Nat)) * 256 ≤ c_int_upper := by rw [c_int_upper_eq]; omega
      simp only [Int.not_lt.mpr e1, if_false]
      have e2 : (((0 : Int) + ((a % 2 ^ 24).toNat / 65536 % 256 : Nat)) * 256 + ((a % 2 ^ 24).toNat / 256 % 256 : Nat)) * 256 ≤ c_int_upper := by
        rw [c_int_upper_eq]; omega
      simp only [Int.not_lt.mpr e2, if_false]
      have e3 : (((0 : Int) + ((a % 2 ^ 24).toNat / 65536 % 256 : Nat)) * 256 + ((a % 2 ^ 24).toNat / 256 % 256 : Nat)) * 256
          + ((a % 2 ^ 24).toNat / 1 % 256 : Nat) = a := by omega
      simp only [e3]
      congr
    · omega
  · rw [emitOne_4]
    simp only [List.cons_append, List.nil_append]
    rw [parseGo]; simp only [if_true]
    rw [parseGo]; simp only [if_true]
    rw [parseGo]; simp only [if_true]
    rw [parseGo]; simp only [hop, if_false]
    have e1 : ((0 : Int) + ((a % 2 ^ 32).toNat / 16777216 % 256 : Nat)) * 256 ≤ c_int_upper := by rw [c_int_upper_eq]; omega
    simp only [Int.not_lt.mpr e1, if_false]
    have e2 : (((0 : Int) + ((a % 2 ^ 32).toNat / 16777216 % 256 : Nat)) * 256 + ((a % 2 ^ 32).toNat / 65536 % 256 : Nat)) * 256 ≤ c_int_upper := by
      rw [c_int_upper_eq]; omega
    simp only [Int.not_lt.mpr e2, if_false]
    rw [c_int_upper_eq, c_int_len_eq]
    rcases hf with ⟨h0, h1, h2⟩ | ⟨_, h1, h2⟩
    · have e3 : ¬ ((((0 : Int) + ((a % 2 ^ 32).toNat / 16777216 % 256 : Nat)) * 256 + ((a % 2 ^ 32).toNat / 65536 % 256 : Nat)) * 256
          + ((a % 2 ^ 32).toNat / 256 % 256 : Nat)) * 256 > 2147483647 := by omega
      simp only [e3, if_false]
      have e4 : ((((0 : Int) + ((a % 2 ^ 32).toNat / 16777216 % 256 : Nat)) * 256 + ((a % 2 ^ 32).toNat / 65536 % 256 : Nat)) * 256
          + ((a % 2 ^ 32).toNat / 256 % 256 : Nat)) * 256 + ((a % 2 ^ 32).toNat / 1 % 256 : Nat) = a := by omega
      simp only [e4]
      congr
    · have e3 : ((((0 : Int) + ((a % 2 ^ 32).toNat / 16777216 % 256 : Nat)) * 256 + ((a % 2 ^ 32).toNat / 65536 % 256 : Nat)) * 256
          + ((a % 2 ^ 32).toNat / 256 % 256 : Nat)) * 256 > 2147483647 := by omega
      simp only [e3, if_true]
      have e4 : ((((0 : Int) + ((a % 2 ^ 32).toNat / 16777216 % 256 : Nat)) * 256 + ((a % 2 ^ 32).toNat / 65536 % 256 : Nat)) * 256
          + ((a % 2 ^ 32).toNat / 256 % 256 : Nat)) * 256 - 4294967296 + ((a % 2 ^ 32).toNat / 1 % 256 : Nat) = a := by omega
      simp only [e4]
      congr

/-- the raw instruction list the assembler lays out: operand, width and offsets of every instruction -/
def rawsOf : List Instr → List Int → Nat → List RawI
  | i :: is, a :: as, off => ⟨i.op, a, sizeOfI i.nov a, off, off + 2 * sizeOfI i.nov a⟩ :: rawsOf is as (off + 2 * sizeOfI i.nov a)
  | _, _, _ => []

/-- an instruction the assembler can write and the reader reads back unchanged -/
def Encodable (i : Instr) (a : Int) : Prop :=
  i.op ≠ EXTENDED_ARG ∧ sizeOfI i.nov a ≤ 4 ∧ Fits a (sizeOfI i.nov a)

theorem sizeOfI_pos (nov : Option Nat) (a : Int) : 1 ≤ sizeOfI nov a := by
  unfold sizeOfI instrsize
  split
  · omega
  · split <;> try split <;> try split <;> try split
    all_goals omega

theorem instrsize_le (a : Int) : instrsize a ≤ 4 := by
  unfold instrsize; split <;> try split <;> try split <;> try split
  all_goals omega

/-- without a width override, every operand in C-int range is written in exactly the width that reads back -/
theorem fits_instrsize (a : Int) (h1 : -(2 ^ 31) ≤ a) (h2 : a < 2 ^ 31) : Fits a (instrsize a) := by
  unfold instrsize Fits
  simp only [Extracted.instrsizeLimit1, Extracted.instrsizeLimit2, Extracted.instrsizeLimit3]
  split
  · right; omega
  · left
    split
    · omega
    · split
      · omega
      · split <;> omega

theorem parse_emit : ∀ (is : List Instr) (as : List Int) (off : Nat), is.length = as.length →
    (∀ p ∈ is.zip as, Encodable p.1 p.2) →
    parseGo EXTENDED_ARG (emit is as off).1 off 0 0 = .ok (rawsOf is as off) := by
  intro is
  induction is with
  | nil => intro as off _ _; simp [emit, parseGo, rawsOf, pure, Except.pure]
  | cons i is ih =>
    intro as off hl he
    match as, hl with
    | a :: as, hl =>
      simp only [List.length_cons, Nat.add_right_cancel_iff] at hl
      obtain ⟨h1, h2, h3⟩ := he (i, a) (by simp)
      simp only [emit, rawsOf]
      rw [parseGo_emitOne i.op a _ _ off h1 (sizeOfI_pos _ _) h2 h3]
      rw [ih as _ hl (fun p hp => he p (by simp [hp]))]
      rfl

/-- the length of the assembled byte string -/
theorem emit_length : ∀ (is : List Instr) (as : List Int) (off : Nat), is.length = as.length →
    (emit is as off).1.length = 2 * ((is.zip as).map (fun p => sizeOfI p.1.nov p.2)).sum := by
  intro is
  induction is with
  | nil => intro as off _; simp [emit]
  | cons i is ih =>
    intro as off hl
    match as, hl with
    | a :: as, hl =>
      simp only [List.length_cons, Nat.add_right_cancel_iff] at hl
      simp only [emit, List.length_append, emitOne_length, ih as _ hl, List.zip_cons_cons, List.map_cons, List.sum_cons]
      omega

end CDV
