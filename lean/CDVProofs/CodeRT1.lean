import CDVProofs.WidthsRT
import CDVProofs.DecodeOps
import CDVProofs.BytesInv
/-! # `co_code` survives `from_code` → `to_code`: layout of what `_parse_bytes` read, shape of the decoded instructions -/
namespace CDV

/-- consecutive instructions, each `2 * nargs` bytes long -/
def Layout (start : Nat) : List RawI → Prop
  | [] => True
  | r :: rest => r.first = start ∧ r.next = start + 2 * r.nargs ∧ 1 ≤ r.nargs ∧ Layout r.next rest

theorem parseGo_layout (ext : Nat) : ∀ (n : Nat) (code : List Nat), code.length = n → ∀ (i : Nat) (arg : Int) (nargs : Nat) (raws : List RawI),
    2 * nargs ≤ i → parseGo ext code i arg nargs = .ok raws → Layout (i - 2 * nargs) raws := by
  intro n
  induction n using Nat.strongRecOn with
  | ind n ih =>
  intro code hlen i arg nargs raws hpos hp
  match code, hlen with
  | [], _ =>
    simp [parseGo, pure, Except.pure] at hp
    subst hp
    trivial
  | [_], _ => simp [parseGo, throw, throwThe, MonadExceptOf.throw] at hp
  | op :: a :: rest, hlen =>
    rw [parseGo] at hp
    dsimp only at hp
    split at hp
    · have := ih rest.length (by simp at hlen; omega) rest rfl (i + 2) _ (nargs + 1) raws (by omega) hp
      have e : i + 2 - 2 * (nargs + 1) = i - 2 * nargs := by omega
      rw [e] at this
      exact this
    · obtain ⟨r, hr, hp⟩ := bind_ok hp
      simp only [pure, Except.pure, Except.ok.injEq] at hp
      subst hp
      have := ih rest.length (by simp at hlen; omega) rest rfl (i + 2) 0 0 r (by omega) hr
      simp only [Nat.mul_zero, Nat.sub_zero] at this
      refine ⟨?_, ?_, Nat.succ_le_succ (Nat.zero_le _), this⟩
      · show i - (nargs + 1 - 1) * 2 = i - 2 * nargs
        omega
      · show i + 2 = i - 2 * nargs + 2 * (nargs + 1)
        omega

theorem psum_cons_zero (x : Nat) (X : List Nat) (a : Nat) : psum (x :: X) a 0 = a := by
  simp [psum, prefixSums]

theorem psum_cons_succ (x : Nat) (X : List Nat) (a s : Nat) : psum (x :: X) a (s + 1) = psum X (a + x) s := by
  simp [psum, prefixSums]

/-- offsets of the `j`-th instruction, in code units, are the prefix sums of the widths -/
theorem layout_psum : ∀ (raws : List RawI) (a : Nat), Layout (2 * a) raws → ∀ (j : Nat) (r : RawI), raws[j]? = some r →
    r.first = 2 * psum (raws.map (·.nargs)) a j ∧ r.next = 2 * psum (raws.map (·.nargs)) a (j + 1) := by
  intro raws
  induction raws with
  | nil => intro a _ j r h; simp at h
  | cons r0 rest ih =>
    intro a hl j r hj
    obtain ⟨h1, h2, h3, h4⟩ := hl
    have hnext : r0.next = 2 * (a + r0.nargs) := by omega
    cases j with
    | zero =>
      simp only [List.getElem?_cons_zero, Option.some.injEq] at hj
      subst hj
      simp only [List.map_cons, psum_cons_zero, psum_cons_succ]
      cases rest with
      | nil => simp [psum, prefixSums]; omega
      | cons r1 rest' => simp only [List.map_cons, psum_cons_zero]; omega
    | succ j =>
      simp only [List.getElem?_cons_succ] at hj
      rw [hnext] at h4
      have := ih (a + r0.nargs) h4 j r hj
      simp only [List.map_cons, psum_cons_succ]
      exact this

theorem parseBytes_layout (code : List Nat) (raws : List RawI) (h : parseBytes code = .ok raws) : Layout 0 raws := by
  have := parseGo_layout EXTENDED_ARG code.length code rfl 0 0 0 raws (by omega) h
  simpa using this

/-- the width override `bytes_to_blocks` records -/
def novOf (arg : Arg) (nargs : Nat) : Option Nat :=
  match arg with | .jump .. => (if nargs > 1 then some nargs else none) | _ => none

/-- shape of every decoded instruction: opcode, first offset, operand as CPython resolves it, width override -/
theorem decodeInstrs_shape (v : Ver) (T : OpTable) (fv : List PStr) : ∀ (raws : List RawI) (st st' : DecSt) (ois : List (Nat × Instr)),
    decodeInstrs v T fv st raws = .ok (st', ois) →
    ∀ (j : Nat) (r : RawI), raws[j]? = some r → ∃ arg line offs, ois[j]? = some (r.first, Instr.mk r.op arg (novOf arg r.nargs) line offs) ∧
      OperandOK v T st.names.args st.varnames.args fv st.cellvars.args st.consts.args r arg := by
  intro raws
  induction raws with
  | nil => intro st st' ois _ j r hr; simp at hr
  | cons r0 raws ih =>
    intro st st' ois h j rj hj
    rw [decodeInstrs] at h
    obtain ⟨⟨st1, arg⟩, h1, h⟩ := bind_ok h
    obtain ⟨⟨lm, line, offs⟩, h2, h⟩ := bind_ok h
    obtain ⟨⟨st2, r⟩, h3, h⟩ := bind_ok h
    simp only [pure, Except.pure, Except.ok.injEq, Prod.mk.injEq] at h
    obtain ⟨rfl, rfl⟩ := h
    obtain ⟨hop, hsame, _⟩ := toArg_ok v T fv st st1 r0 arg h1
    cases j with
    | zero =>
      simp only [List.getElem?_cons_zero, Option.some.injEq] at hj
      subst hj
      exact ⟨arg, line, offs, rfl, hop⟩
    | succ j =>
      simp only [List.getElem?_cons_succ] at hj ⊢
      obtain ⟨a, l, o, h1', h2'⟩ := ih _ _ _ h3 j rj hj
      refine ⟨a, l, o, h1', ?_⟩
      simpa only [hsame.names, hsame.varnames, hsame.cellvars, hsame.consts] using h2'

theorem emit_code_eq : ∀ (is : List Instr) (as : List Int) (off : Nat),
    (emit is as off).1 = ((is.zip as).map (fun p => emitOne p.1.op p.2 (sizeOfI p.1.nov p.2))).flatten := by
  intro is
  induction is with
  | nil => intro as off; simp [emit]
  | cons i is ih =>
    intro as off
    cases as with
    | nil => simp [emit]
    | cons a as => simp [emit, ih as]

theorem SzLE_of_pointwise : ∀ (is : List Instr) (as bs : List Int), is.length = as.length → is.length = bs.length →
    (∀ (j : Nat) (i : Instr) (a b : Int), is[j]? = some i → as[j]? = some a → bs[j]? = some b → sizeOfI i.nov a ≤ sizeOfI i.nov b ∧ (isJump i.arg = false → a = b)) →
    SzLE is as bs := by
  intro is
  induction is with
  | nil => intro as bs h1 h2 _; cases as <;> cases bs <;> simp_all [SzLE]
  | cons i is ih =>
    intro as bs h1 h2 hp
    cases as with
    | nil => simp at h1
    | cons a as => cases bs with
      | nil => simp at h2
      | cons b bs =>
        simp only [List.length_cons, Nat.add_right_cancel_iff] at h1 h2
        have h0 := hp 0 i a b (by simp) (by simp) (by simp)
        exact ⟨h0.1, h0.2, ih as bs h1 h2 (fun j i' a' b' e1 e2 e3 => hp (j + 1) i' a' b' (by simpa using e1) (by simpa using e2) (by simpa using e3))⟩

theorem FreeOne_of_pointwise : ∀ (is : List Instr) (os : List Int),
    (∀ (j : Nat) (i : Instr) (o : Int), is[j]? = some i → os[j]? = some o → isJump i.arg = true → noOverride i.nov = true → instrsize o = 1) → FreeOne is os := by
  intro is
  induction is with
  | nil => intro os _; cases os <;> trivial
  | cons i is ih =>
    intro os hp
    cases os with
    | nil => trivial
    | cons o os =>
      exact ⟨hp 0 i o (by simp) (by simp), ih os (fun j i' o' e1 e2 => hp (j + 1) i' o' (by simpa using e1) (by simpa using e2))⟩

theorem jumpsOne_get : ∀ (is : List Instr) (as : List Int), JumpsOne is as → ∀ (j : Nat) (i : Instr) (a : Int), is[j]? = some i → as[j]? = some a → isJump i.arg = true → a = 1 := by
  intro is
  induction is with
  | nil => intro as _ j i a h; simp at h
  | cons i0 is ih =>
    intro as h j i a hi ha hj
    cases as with
    | nil => simp at ha
    | cons a0 as =>
      simp only [JumpsOne] at h
      cases j with
      | zero =>
        simp only [List.getElem?_cons_zero, Option.some.injEq] at hi ha
        subst hi; subst ha
        exact h.1 hj
      | succ j =>
        simp only [List.getElem?_cons_succ] at hi ha
        exact ih as h.2 j i a hi ha hj

end CDV
