import CDVProofs.NormSpec
import CDVProofs.BeqData
/-! C06, second sentence (canonical form): two code objects that CPython *reads the same* — whatever the order of their
    tables, unreferenced entries, operand widths, redundant line entries, CO_NESTED — normalize to equal CodeData
    (blocks part; the header is compared field by field in the statement). -/
namespace CDV

/-- two of CPython's readings of an operand are the same (across two code objects with decoded constants `K1`, `K2`) -/
def SameRd (K1 K2 : List Const) : Spec.SArg → Spec.SArg → Prop
  | .raw n, .raw m => n = m
  | .jump i r, .jump i' r' => i = i' ∧ r = r'
  | .name x, .name y => x = y
  | .loc x, .loc y => x = y
  | .cell x, .cell y => x = y
  | .free x, .free y => x = y
  | .constInner c, .constInner c' => InnerConst.keyEq c c' = true
  | .constCode k, .constCode k' => ∃ e1 e2, K1[k]? = some (.code e1) ∧ K2[k']? = some (.code e2) ∧ CodeData.beq (normCode e1) (normCode e2) = true
  | .noarg, .noarg => True
  | _, _ => False

/-- block starts are strictly increasing when no block is empty -/
theorem blockStarts_sorted : ∀ (bl : List (List Instr)) (k : Nat), (∀ b ∈ bl, b ≠ []) → SortedLt (blockStarts bl k) ∧ ∀ s ∈ blockStarts bl k, k ≤ s := by
  intro bl
  induction bl with
  | nil => intro k _; simp [blockStarts, SortedLt]
  | cons b bs ih =>
    intro k hne
    have hb : 0 < b.length := List.length_pos_iff.mpr (hne b (by simp))
    obtain ⟨i1, i2⟩ := ih (k + b.length) (fun x hx => hne x (by simp [hx]))
    simp only [blockStarts, SortedLt, List.pairwise_cons, List.mem_cons]
    refine ⟨⟨fun s hs => by have := i2 s hs; omega, i1⟩, ?_⟩
    rintro s (rfl | hs)
    · exact Nat.le_refl _
    · have := i2 s hs; omega

/-- strictly sorted lists with the same members are equal -/
theorem sorted_ext : ∀ (l1 l2 : List Nat), SortedLt l1 → SortedLt l2 → (∀ x, x ∈ l1 ↔ x ∈ l2) → l1 = l2 := by
  intro l1
  induction l1 with
  | nil =>
    intro l2 _ _ h
    cases l2 with
    | nil => rfl
    | cons y ys => have := (h y).mpr (by simp); simp at this
  | cons x xs ih =>
    intro l2 h1 h2 h
    cases l2 with
    | nil => have := (h x).mp (by simp); simp at this
    | cons y ys =>
      simp only [SortedLt, List.pairwise_cons] at h1 h2
      have hxy : x = y := by
        have hx : x ∈ y :: ys := (h x).mp (by simp)
        have hy : y ∈ x :: xs := (h y).mpr (by simp)
        rcases List.mem_cons.mp hx with e | e
        · exact e
        · rcases List.mem_cons.mp hy with e' | e'
          · exact e'.symm
          · have := h1.1 y e'; have := h2.1 x e; omega
      subst hxy
      congr 1
      apply ih ys h1.2 h2.2
      intro z
      constructor
      · intro hz
        have : z ∈ x :: ys := (h z).mp (by simp [hz])
        rcases List.mem_cons.mp this with e | e
        · subst e; have := h1.1 z hz; omega
        · exact e
      · intro hz
        have : z ∈ x :: xs := (h z).mpr (by simp [hz])
        rcases List.mem_cons.mp this with e | e
        · subst e; have := h2.1 z hz; omega
        · exact e

theorem instrsBeq_length : ∀ (a b : List Instr), instrsBeq a b = true → a.length = b.length := by
  intro a
  induction a with
  | nil => intro b h; cases b <;> simp_all [instrsBeq]
  | cons x xs ih =>
    intro b h
    cases b with
    | nil => simp [instrsBeq] at h
    | cons y ys => simp only [instrsBeq, Bool.and_eq_true] at h; simp [ih ys h.2]

theorem instrsBeq_append : ∀ (a b c d : List Instr), a.length = c.length → instrsBeq (a ++ b) (c ++ d) = true →
    instrsBeq a c = true ∧ instrsBeq b d = true := by
  intro a
  induction a with
  | nil => intro b c d hl h; cases c with
    | nil => simpa [instrsBeq] using h
    | cons _ _ => simp at hl
  | cons x xs ih =>
    intro b c d hl h
    cases c with
    | nil => simp at hl
    | cons y ys =>
      simp only [List.cons_append, instrsBeq, Bool.and_eq_true] at h ⊢
      simp only [List.length_cons, Nat.add_right_cancel_iff] at hl
      obtain ⟨i1, i2⟩ := ih b ys d hl h.2
      exact ⟨⟨h.1, i1⟩, i2⟩

/-- blocks are determined by their flattening and their starts: two block lists without empty blocks, with the same
    starts and related flattenings, are related block by block -/
theorem blocksBeq_of_flat : ∀ (b1 b2 : List (List Instr)) (k : Nat), (∀ b ∈ b1, b ≠ []) → (∀ b ∈ b2, b ≠ []) →
    blockStarts b1 k = blockStarts b2 k → instrsBeq b1.flatten b2.flatten = true → blocksBeq b1 b2 = true := by
  intro b1
  induction b1 with
  | nil =>
    intro b2 k _ _ hs _
    cases b2 with
    | nil => simp [blocksBeq]
    | cons y ys => simp [blockStarts] at hs
  | cons x xs ih =>
    intro b2 k h1 h2 hs hf
    cases b2 with
    | nil => simp [blockStarts] at hs
    | cons y ys =>
      simp only [blockStarts, List.cons.injEq, true_and] at hs
      have hx : x ≠ [] := h1 x (by simp)
      have hy : y ≠ [] := h2 y (by simp)
      -- the two first blocks have the same length: the next start, or — if there is no next block — the total length
      have hlen : x.length = y.length := by
        cases xs with
        | nil =>
          cases ys with
          | nil =>
            simp only [List.flatten_cons, List.flatten_nil, List.append_nil] at hf
            exact instrsBeq_length _ _ hf
          | cons y2 ys2 => simp [blockStarts] at hs
        | cons x2 xs2 =>
          cases ys with
          | nil => simp [blockStarts] at hs
          | cons y2 ys2 =>
            simp only [blockStarts, List.cons.injEq] at hs
            omega
      simp only [List.flatten_cons] at hf
      obtain ⟨f1, f2⟩ := instrsBeq_append _ _ _ _ hlen hf
      simp only [blocksBeq, f1, Bool.true_and]
      rw [hlen] at hs
      exact ih ys (k + y.length) (fun b hb => h1 b (by simp [hb])) (fun b hb => h2 b (by simp [hb])) hs f2

end CDV

namespace CDV

theorem sorted_get_inj : ∀ (l : List Nat) (i j x : Nat), SortedLt l → l[i]? = some x → l[j]? = some x → i = j := by
  intro l i j x hs hi hj
  have hil := (List.getElem?_eq_some_iff.mp hi)
  have hjl := (List.getElem?_eq_some_iff.mp hj)
  obtain ⟨hi1, hi2⟩ := hil
  obtain ⟨hj1, hj2⟩ := hjl
  rcases Nat.lt_trichotomy i j with h | h | h
  · have := List.pairwise_iff_getElem.mp hs i j hi1 hj1 h; omega
  · exact h
  · have := List.pairwise_iff_getElem.mp hs j i hj1 hi1 h; omega

/-- two decoded operands whose CPython readings are the same normalize to equal operands -/
theorem argBeq_of_readings (st : List Nat) (hst : SortedLt st) (K1 K2 : List Const) (a1 a2 : Arg) (s1 s2 : Spec.SArg)
    (h1 : ArgReads st K1 a1 s1) (h2 : ArgReads st K2 a2 s2) (hs : SameRd K1 K2 s1 s2) : Arg.beq (normArg a1) (normArg a2) = true := by
  cases s1 <;> cases s2 <;> simp only [SameRd] at hs <;> simp only [ArgReads] at h1 h2
  · subst hs; subst h1; subst h2; simp [normArg, Arg.beq]
  · obtain ⟨t1, rfl, _, e1⟩ := h1
    obtain ⟨t2, rfl, _, e2⟩ := h2
    obtain ⟨rfl, rfl⟩ := hs
    cases hidx : (st[t1]?) with
    | none => rw [hidx] at e1; rw [← e1] at *; simp_all
    | some x =>
      rw [hidx] at e1
      rw [← e1] at e2
      have := sorted_get_inj st t1 t2 x hst hidx e2
      subst this
      simp [normArg, Arg.beq]
  · obtain ⟨o1, rfl⟩ := h1; obtain ⟨o2, rfl⟩ := h2; subst hs; simp [normArg, Arg.beq]
  · obtain ⟨o1, rfl⟩ := h1; obtain ⟨o2, rfl⟩ := h2; subst hs; simp [normArg, Arg.beq]
  · obtain ⟨o1, rfl⟩ := h1; obtain ⟨o2, rfl⟩ := h2; subst hs; simp [normArg, Arg.beq]
  · subst h1; subst h2; subst hs; simp [normArg, Arg.beq]
  · obtain ⟨o1, rfl⟩ := h1; obtain ⟨o2, rfl⟩ := h2
    simp [normArg, normConst, Arg.beq, Const.keyEq, hs]
  · obtain ⟨d1, o1, rfl, c1⟩ := h1; obtain ⟨d2, o2, rfl, c2⟩ := h2
    obtain ⟨e1, e2, k1, k2, hb⟩ := hs
    rw [c1] at k1; rw [c2] at k2
    simp only [Option.some.injEq, Const.code.injEq] at k1 k2
    subst k1; subst k2
    simp [normArg, normConst, Arg.beq, Const.keyEq, hb]
  · obtain ⟨n1, rfl⟩ := h1; obtain ⟨n2, rfl⟩ := h2; simp [normArg, Arg.beq]

end CDV

namespace CDV

theorem normBlocks_nonempty : ∀ (bl : List (List Instr)), (∀ b ∈ bl, b ≠ []) → ∀ b ∈ normBlocks bl, b ≠ [] := by
  intro bl
  induction bl with
  | nil => intro _ b hb; simp [normBlocks] at hb
  | cons x xs ih =>
    intro h b hb
    simp only [normBlocks, List.mem_cons] at hb
    rcases hb with rfl | hb
    · have := h x (by simp)
      cases x with
      | nil => exact absurd rfl this
      | cons i is => simp [normInstrs]
    · exact ih (fun y hy => h y (by simp [hy])) b hb

/-- what the decode theorems establish about decoded blocks against CPython's reading `rd` of the same code object -/
structure DecFacts (blocks : List (List Instr)) (K : List Const) (rd : List Spec.SInstr) : Prop where
  nonempty : ∀ b ∈ blocks, b ≠ []
  len : blocks.flatten.length = rd.length
  each : ∀ (j : Nat) (i : Instr) (s : Spec.SInstr), blocks.flatten[j]? = some i → rd[j]? = some s →
    i.op = s.op ∧ i.line = s.line ∧ ArgReads (blockStarts blocks 0) K i.arg s.arg
  later : ∀ k, 0 < k → k < blocks.length → ∃ (j : Nat) (i : Instr) (rel : Bool), blocks.flatten[j]? = some i ∧ i.arg = Arg.jump k rel

theorem argReads_jump {st K t r s} (h : ArgReads st K (.jump t r) s) : ∃ idx, s = .jump idx r ∧ idx.isSome ∧ st[t]? = idx := by
  cases s <;> simp only [ArgReads] at h
  case jump idx r' =>
    obtain ⟨t', he, h2, h3⟩ := h
    simp only [Arg.jump.injEq] at he
    obtain ⟨rfl, rfl⟩ := he
    exact ⟨idx, rfl, h2, h3⟩
  all_goals simp at h

theorem blockStarts_zero (b : List Instr) (bs : List (List Instr)) : (blockStarts (b :: bs) 0)[0]? = some 0 := by
  simp [blockStarts]

theorem flatten_ne_nil_iff (bl : List (List Instr)) (h : ∀ b ∈ bl, b ≠ []) : bl.flatten ≠ [] ↔ bl ≠ [] := by
  cases bl with
  | nil => simp
  | cons b bs =>
    have := h b (by simp)
    simp [this]

/-- the starts of the decoded blocks, in terms of CPython's reading only: instruction 0, and every instruction some jump targets -/
theorem starts_mem (blocks : List (List Instr)) (K : List Const) (rd : List Spec.SInstr) (F : DecFacts blocks K rd) (x : Nat) :
    x ∈ blockStarts blocks 0 ↔ (rd ≠ [] ∧ x = 0) ∨ ∃ (j : Nat) (s : Spec.SInstr) (rel : Bool), rd[j]? = some s ∧ s.arg = Spec.SArg.jump (some x) rel := by
  have hne : rd ≠ [] ↔ blocks ≠ [] := by
    rw [← flatten_ne_nil_iff blocks F.nonempty]
    constructor
    · intro h he; apply h; apply List.eq_nil_of_length_eq_zero; rw [← F.len, he]; rfl
    · intro h he; apply h; apply List.eq_nil_of_length_eq_zero; rw [F.len, he]; rfl
  constructor
  · intro hx
    obtain ⟨k, hk, hget⟩ := List.getElem_of_mem hx
    rw [blockStarts_length] at hk
    cases k with
    | zero =>
      left
      cases hb : blocks with
      | nil => rw [hb] at hk; simp at hk
      | cons b bs =>
        refine ⟨hne.mpr (by rw [hb]; simp), ?_⟩
        have := blockStarts_zero b bs
        simp only [hb] at hget
        rw [List.getElem?_eq_getElem (by simp [blockStarts_length])] at this
        simp only [Option.some.injEq] at this
        rw [← hget]; exact this
    | succ k =>
      right
      obtain ⟨j, i, rel, hi, hia⟩ := F.later (k + 1) (by omega) hk
      have hj : j < rd.length := by rw [← F.len]; exact (List.getElem?_eq_some_iff.mp hi).1
      obtain ⟨_, _, hr⟩ := F.each j i rd[j] hi (List.getElem?_eq_getElem hj)
      rw [hia] at hr
      obtain ⟨idx, hs, _, hst⟩ := argReads_jump hr
      have hxs : (blockStarts blocks 0)[k + 1]? = some x := by
        rw [List.getElem?_eq_getElem (by rw [blockStarts_length]; exact hk), hget]
      rw [hxs] at hst
      exact ⟨j, rd[j], rel, List.getElem?_eq_getElem hj, by rw [hs, ← hst]⟩
  · rintro (⟨hr, rfl⟩ | ⟨j, s, rel, hs, hsa⟩)
    · have hb := hne.mp hr
      cases hbl : blocks with
      | nil => exact absurd hbl hb
      | cons b bs => simp [blockStarts]
    · have hj : j < blocks.flatten.length := by rw [F.len]; exact (List.getElem?_eq_some_iff.mp hs).1
      obtain ⟨_, _, hr⟩ := F.each j blocks.flatten[j] s (List.getElem?_eq_getElem hj) hs
      rw [hsa] at hr
      simp only [ArgReads] at hr
      obtain ⟨t, _, _, hst⟩ := hr
      exact List.mem_of_getElem? hst

theorem instrsBeq_pointwise : ∀ (a b : List Instr), a.length = b.length →
    (∀ (j : Nat) (x y : Instr), a[j]? = some x → b[j]? = some y → Instr.beq x y = true) → instrsBeq a b = true := by
  intro a
  induction a with
  | nil => intro b hl _; cases b with
    | nil => simp [instrsBeq]
    | cons _ _ => simp at hl
  | cons x xs ih =>
    intro b hl h
    cases b with
    | nil => simp at hl
    | cons y ys =>
      simp only [List.length_cons, Nat.add_right_cancel_iff] at hl
      simp only [instrsBeq, Bool.and_eq_true]
      exact ⟨h 0 x y rfl rfl, ih ys hl (fun j x' y' hx hy => h (j + 1) x' y' (by simpa using hx) (by simpa using hy))⟩

/-- **Same reading ⇒ same normal form (blocks).**  If CPython reads two code objects the same — same opcodes, same lines,
    the same operand readings, position by position — their decoded blocks normalize to equal blocks, whatever their
    table orders, unreferenced entries, operand widths and redundant line entries were. -/
theorem canon_blocks (b1 b2 : List (List Instr)) (K1 K2 : List Const) (rd1 rd2 : List Spec.SInstr)
    (F1 : DecFacts b1 K1 rd1) (F2 : DecFacts b2 K2 rd2) (hlen : rd1.length = rd2.length)
    (hsame : ∀ (j : Nat) (s1 s2 : Spec.SInstr), rd1[j]? = some s1 → rd2[j]? = some s2 →
      s1.op = s2.op ∧ s1.line = s2.line ∧ SameRd K1 K2 s1.arg s2.arg) :
    blocksBeq (normBlocks b1) (normBlocks b2) = true := by
  -- the same block starts
  have hstarts : blockStarts b1 0 = blockStarts b2 0 := by
    apply sorted_ext _ _ (blockStarts_sorted b1 0 F1.nonempty).1 (blockStarts_sorted b2 0 F2.nonempty).1
    intro x
    rw [starts_mem b1 K1 rd1 F1, starts_mem b2 K2 rd2 F2]
    have hne : rd1 ≠ [] ↔ rd2 ≠ [] := by
      constructor
      · intro h he; apply h; apply List.eq_nil_of_length_eq_zero; rw [hlen, he]; rfl
      · intro h he; apply h; apply List.eq_nil_of_length_eq_zero; rw [← hlen, he]; rfl
    constructor
    · rintro (⟨h, rfl⟩ | ⟨j, s, rel, hs, hsa⟩)
      · exact Or.inl ⟨hne.mp h, rfl⟩
      · right
        have hj : j < rd2.length := by rw [← hlen]; exact (List.getElem?_eq_some_iff.mp hs).1
        obtain ⟨_, _, hr⟩ := hsame j s rd2[j] hs (List.getElem?_eq_getElem hj)
        rw [hsa] at hr
        cases hs2 : rd2[j].arg <;> rw [hs2] at hr <;> simp only [SameRd] at hr
        next i' r' => exact ⟨j, rd2[j], r', List.getElem?_eq_getElem hj, by rw [hs2, ← hr.1]⟩
    · rintro (⟨h, rfl⟩ | ⟨j, s, rel, hs, hsa⟩)
      · exact Or.inl ⟨hne.mpr h, rfl⟩
      · right
        have hj : j < rd1.length := by rw [hlen]; exact (List.getElem?_eq_some_iff.mp hs).1
        obtain ⟨_, _, hr⟩ := hsame j rd1[j] s (List.getElem?_eq_getElem hj) hs
        rw [hsa] at hr
        cases hs1 : rd1[j].arg <;> rw [hs1] at hr <;> simp only [SameRd] at hr
        next i' r' => exact ⟨j, rd1[j], r', List.getElem?_eq_getElem hj, by rw [hs1, hr.1]⟩
  -- the same instructions after normalization
  have hflat : instrsBeq (normBlocks b1).flatten (normBlocks b2).flatten = true := by
    rw [normBlocks_flatten, normBlocks_flatten]
    apply instrsBeq_pointwise
    · rw [normInstrs_length, normInstrs_length, F1.len, F2.len, hlen]
    · intro j x y hx hy
      rw [normInstrs_get] at hx hy
      cases h1 : b1.flatten[j]? with
      | none => rw [h1] at hx; simp at hx
      | some i1 =>
        cases h2 : b2.flatten[j]? with
        | none => rw [h2] at hy; simp at hy
        | some i2 =>
          rw [h1] at hx; rw [h2] at hy
          simp only [Option.map_some, Option.some.injEq] at hx hy
          subst hx; subst hy
          have hj1 : j < rd1.length := by rw [← F1.len]; exact (List.getElem?_eq_some_iff.mp h1).1
          have hj2 : j < rd2.length := by rw [← F2.len]; exact (List.getElem?_eq_some_iff.mp h2).1
          obtain ⟨o1, l1, a1⟩ := F1.each j i1 rd1[j] h1 (List.getElem?_eq_getElem hj1)
          obtain ⟨o2, l2, a2⟩ := F2.each j i2 rd2[j] h2 (List.getElem?_eq_getElem hj2)
          obtain ⟨so, sl, sa⟩ := hsame j rd1[j] rd2[j] (List.getElem?_eq_getElem hj1) (List.getElem?_eq_getElem hj2)
          rw [← hstarts] at a2
          have hab := argBeq_of_readings _ (blockStarts_sorted b1 0 F1.nonempty).1 K1 K2 _ _ _ _ a1 a2 sa
          obtain ⟨op1, ar1, n1, ln1, lo1⟩ := i1
          obtain ⟨op2, ar2, n2, ln2, lo2⟩ := i2
          simp only [Instr.op, Instr.line, Instr.arg] at o1 l1 o2 l2 hab
          simp only [normInstr, Instr.beq, hab, Bool.and_eq_true, beq_iff_eq, and_true, true_and]
          exact ⟨by rw [o1, o2, so], by rw [l1, l2, sl]⟩
  have hn1 : ∀ b ∈ normBlocks b1, b ≠ [] := normBlocks_nonempty b1 F1.nonempty
  have hn2 : ∀ b ∈ normBlocks b2, b ≠ [] := normBlocks_nonempty b2 F2.nonempty
  exact blocksBeq_of_flat _ _ 0 hn1 hn2 (by rw [blockStarts_norm, blockStarts_norm, hstarts]) hflat

end CDV
