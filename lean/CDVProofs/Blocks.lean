import CDV.Decode
import Mathlib.Tactic.Tauto
/-! invariants of the block grouping of `bytes_to_blocks` (helper lemmas for C13) -/
namespace CDV

/-- what `group` returns for an accumulator: reversed blocks, each reversed -/
def unacc (acc : List (List Instr)) : List (List Instr) := acc.reverse.map List.reverse

theorem group_spec (targets : List Nat) : ∀ (ois : List (Nat × Instr)) (acc : List (List Instr)) (blocks : List (List Instr)),
    (∀ b ∈ acc, b ≠ []) → group targets ois acc = .ok blocks →
    (∀ b ∈ blocks, b ≠ []) ∧
    blocks.flatten = (unacc acc).flatten ++ ois.map (fun p => retarget targets p.2) ∧
    blocks.length = acc.length + (ois.filter (fun p => targets.contains p.1)).length
  | [], acc, blocks, hacc, h => by
    simp only [group, pure, Except.pure, Except.ok.injEq] at h
    subst h
    refine ⟨?_, by simp [unacc], by simp⟩
    intro b hb
    simp only [List.mem_map, List.mem_reverse] at hb
    obtain ⟨b', hb', rfl⟩ := hb
    have := hacc b' hb'
    simpa using this
  | (off, i) :: rest, acc, blocks, hacc, h => by
    simp only [group] at h
    split at h
    · rename_i hc
      have ih := group_spec targets rest ([retarget targets i] :: acc) blocks
        (by intro b hb; simp only [List.mem_cons] at hb; rcases hb with rfl | hb; simp; exact hacc b hb) h
      refine ⟨ih.1, ?_, ?_⟩
      · rw [ih.2.1]; simp [unacc]
      · have hc' : off ∈ targets := by simpa using hc
        rw [ih.2.2]; simp [List.filter_cons, hc']; omega
    · rename_i hc
      cases acc with
      | nil => simp at h
      | cons b bs =>
        simp only at h
        have ih := group_spec targets rest ((retarget targets i :: b) :: bs) blocks
          (by intro b' hb'; simp only [List.mem_cons] at hb'; rcases hb' with rfl | hb'; simp; exact hacc b' (by simp [hb'])) h
        refine ⟨ih.1, ?_, ?_⟩
        · rw [ih.2.1]; simp [unacc]
        · have hc' : off ∉ targets := by simpa using hc
          rw [ih.2.2]; simp [List.filter_cons, hc']

/-- `group` raises exactly when the first instruction is not a target -/
theorem group_ok_of_first_target (targets : List Nat) : ∀ (ois : List (Nat × Instr)) (acc : List (List Instr)),
    (acc ≠ [] ∨ ∀ p, ois.head? = some p → targets.contains p.1 = true) → ∃ blocks, group targets ois acc = .ok blocks
  | [], acc, _ => ⟨_, rfl⟩
  | (off, i) :: rest, acc, h => by
    simp only [group]
    split
    · exact group_ok_of_first_target targets rest _ (Or.inl (by simp))
    · rename_i hc
      cases acc with
      | nil =>
        rcases h with h | h
        · exact absurd rfl h
        · have := h (off, i) rfl; exact absurd this hc
      | cons b bs => exact group_ok_of_first_target targets rest _ (Or.inl (by simp))

theorem insertSorted_mem (x y : Nat) : ∀ l : List Nat, y ∈ insertSorted x l ↔ y = x ∨ y ∈ l
  | [] => by simp [insertSorted]
  | z :: zs => by
    simp only [insertSorted]
    split
    · simp
    · split
      · rename_i h1 h2; subst h2; simp
      · simp [insertSorted_mem x y zs]; tauto

theorem foldl_insertSorted_mem (y : Nat) : ∀ (ts acc : List Nat),
    y ∈ ts.foldl (fun acc t => insertSorted t acc) acc ↔ y ∈ ts ∨ y ∈ acc
  | [], acc => by simp
  | t :: ts, acc => by
    simp only [List.foldl_cons]
    rw [foldl_insertSorted_mem y ts (insertSorted t acc), insertSorted_mem]
    simp; tauto

theorem indexOf_lt_of_mem (x : Nat) : ∀ l : List Nat, x ∈ l → indexOf x l < l.length
  | [], h => by simp at h
  | y :: ys, h => by
    simp only [indexOf]
    split
    · simp
    · rename_i hne
      have : x ∈ ys := by simpa [hne] using h
      have := indexOf_lt_of_mem x ys this
      simp; omega

end CDV

namespace CDV

theorem zero_mem_targetsOf (ois : List (Nat × Instr)) : 0 ∈ targetsOf ois := by
  simp [targetsOf, foldl_insertSorted_mem]

theorem jumpTarget_mem_targetsOf (ois : List (Nat × Instr)) (t : Nat) (h : t ∈ jumpTargets ois) : t ∈ targetsOf ois := by
  simp [targetsOf, foldl_insertSorted_mem, h]

theorem mem_targetsOf (ois : List (Nat × Instr)) (t : Nat) : t ∈ targetsOf ois ↔ t = 0 ∨ t ∈ jumpTargets ois := by
  simp [targetsOf, foldl_insertSorted_mem]; tauto

theorem mem_jumpTargets (op : Nat) (t : Nat) (r : Bool) (n : Option Nat) (l : Option Int) (o : List Int) (off : Nat) :
    ∀ ois : List (Nat × Instr), (off, Instr.mk op (.jump t r) n l o) ∈ ois → t ∈ jumpTargets ois
  | [], h => by simp at h
  | (off', i) :: rest, h => by
    simp only [List.mem_cons] at h
    rcases h with h | h
    · cases h; simp [jumpTargets]
    · have := mem_jumpTargets op t r n l o off rest h
      cases i with
      | mk op' a n' l' o' => cases a <;> simp [jumpTargets, this]

end CDV
