import CDVProofs.Bytes
import CDVProofs.BlockStarts
import CDVProofs.DecodeOps
/-! Offsets produced by `_parse_bytes` are strictly increasing; the decoded `(offset, instruction)` list inherits them. -/
namespace CDV

theorem parseGo_sorted (ext : Nat) : ∀ (n : Nat) (code : List Nat), code.length = n → ∀ (i : Nat) (arg : Int) (nargs : Nat) (raws : List RawI),
    2 * nargs ≤ i → parseGo ext code i arg nargs = .ok raws →
    SortedLt (raws.map (·.first)) ∧ ∀ r ∈ raws, i - 2 * nargs ≤ r.first := by
  intro n
  induction n using Nat.strongRecOn with
  | ind n ih =>
  intro code hlen i arg nargs raws hpos hp
  match code, hlen with
  | [], _ =>
    simp [parseGo, pure, Except.pure] at hp
    subst hp
    simp [SortedLt]
  | [_], _ => simp [parseGo, throw, throwThe, MonadExceptOf.throw] at hp
  | op :: a :: rest, hlen =>
    simp only [List.length_cons] at hlen
    rw [parseGo] at hp
    by_cases hop : op = ext
    · simp only [hop, if_true] at hp
      have := ih rest.length (by omega) rest rfl (i + 2) _ (nargs + 1) raws (by omega) hp
      refine ⟨this.1, fun r hr => ?_⟩
      have := this.2 r hr
      omega
    · simp only [hop, if_false] at hp
      obtain ⟨r, hr, hp⟩ := bind_ok hp
      simp only [pure, Except.pure, Except.ok.injEq] at hp
      subst hp
      have := ih rest.length (by omega) rest rfl (i + 2) 0 0 r (by omega) hr
      simp only [List.map_cons, SortedLt, List.pairwise_cons, List.mem_map, forall_exists_index, and_imp,
        forall_apply_eq_imp_iff₂, List.mem_cons, forall_eq_or_imp]
      refine ⟨⟨fun x hx => ?_, this.1⟩, by omega, fun x hx => ?_⟩
      · have := this.2 x hx; omega
      · have := this.2 x hx; omega

theorem parseBytes_sorted (code : List Nat) (raws : List RawI) (h : parseBytes code = .ok raws) : SortedLt (raws.map (·.first)) :=
  (parseGo_sorted EXTENDED_ARG code.length code rfl 0 0 0 raws (by omega) h).1

/-- the decoded list carries the raw instructions' first offsets -/
theorem decodeInstrs_offsets (v : Ver) (T : OpTable) (fv : List PStr) : ∀ (raws : List RawI) (st st' : DecSt) (ois : List (Nat × Instr)),
    decodeInstrs v T fv st raws = .ok (st', ois) → ois.map (·.1) = raws.map (·.first) := by
  intro raws
  induction raws with
  | nil =>
    intro st st' ois h
    simp only [decodeInstrs, pure, Except.pure, Except.ok.injEq, Prod.mk.injEq] at h
    rw [← h.2]; rfl
  | cons r0 raws ih =>
    intro st st' ois h
    rw [decodeInstrs] at h
    obtain ⟨⟨st1, arg⟩, h1, h⟩ := bind_ok h
    obtain ⟨⟨lm, line, offs⟩, h2, h⟩ := bind_ok h
    obtain ⟨⟨st2, r⟩, h3, h⟩ := bind_ok h
    simp only [pure, Except.pure, Except.ok.injEq, Prod.mk.injEq] at h
    rw [← h.2]
    simp [ih _ _ _ h3]

end CDV
