import CDVProofs.TablesRT2
/-! # The operand tables survive `from_code` → `to_code`: additional entries, seeds, assembly -/
namespace CDV
open CDV.Props.C09 (keyEquiv_str keyEquiv_const)

section
variable {α : Type} {keyEq : α → α → Bool}

/-- feed operands to one encoder table, dropping the indices -/
def runWith (step : FromArgs α → α → Option Nat → R (FromArgs α × Nat)) : FromArgs α → List (α × Option Nat) → R (FromArgs α)
  | t, [] => pure t
  | t, (a, ov) :: ops => step t a ov >>= fun r => runWith step r.1 ops

/-- the entries no instruction used, fed to the encoder by any step function that agrees with `add` on decoded operands -/
theorem additional_lockstep (hk : KeyEquiv keyEq) (args : List α) (step : FromArgs α → α → Option Nat → R (FromArgs α × Nat))
    (hstep : ∀ d e idx d' a ov, Sim keyEq args d e → d.foundIndex keyEq ((idx : Nat) : Int) = .ok (d', a, ov) → step e a ov = e.add keyEq a ov) :
    ∀ (is : List Nat) (d : ToArgs α) (e : FromArgs α)
    (ops : List (α × Option Nat)), Sim keyEq args d e → ToArgs.additionalGo keyEq d is = .ok ops →
    ∃ e' d', runWith step e ops = .ok e' ∧ Sim keyEq args d' e' ∧
      (∀ i, i ∈ d.found.map Prod.fst → i ∈ d'.found.map Prod.fst) ∧ (∀ i ∈ is, i ∈ d'.found.map Prod.fst)
  | [], d, e, ops, hs, h => by
    simp [ToArgs.additionalGo, pure, Except.pure] at h
    subst h
    exact ⟨e, d, rfl, hs, fun _ h => h, by simp⟩
  | i :: is, d, e, ops, hs, h => by
    simp only [ToArgs.additionalGo] at h
    cases hassoc : assoc? i d.found with
    | some o =>
      simp only [hassoc] at h
      obtain ⟨e', d', h1, h2, h3, h4⟩ := additional_lockstep hk args step hstep is d e ops hs h
      refine ⟨e', d', h1, h2, h3, ?_⟩
      intro j hj
      simp only [List.mem_cons] at hj
      rcases hj with rfl | hj
      · exact h3 j ((assoc?_isSome_iff j d.found).mp (by simp [hassoc]))
      · exact h4 j hj
    | none =>
      simp only [hassoc] at h
      obtain ⟨⟨t1, a, ov⟩, h1, h⟩ := bind_ok' h
      obtain ⟨r, h2, h⟩ := bind_ok' h
      simp only [pure, Except.pure, Except.ok.injEq] at h
      subst h
      obtain ⟨e1, he1, hs1⟩ := sim_step hk args d e hs i t1 a ov h1
      obtain ⟨e2, d2, he2, hs2, hsub, hall⟩ := additional_lockstep hk args step hstep is t1 e1 r hs1 h2
      have hf1 := (foundIndex_ok d i t1 a ov h1).2.2.1
      rw [hassoc] at hf1
      refine ⟨e2, d2, ?_, hs2, ?_, ?_⟩
      · simp only [runWith]
        rw [hstep d e i t1 a ov hs h1, he1]
        exact he2
      · intro j hj; apply hsub; rw [hf1]; simp [hj]
      · intro j hj
        simp only [List.mem_cons] at hj
        rcases hj with rfl | hj
        · apply hsub; rw [hf1]; simp
        · exact hall j hj

/-- every additional operand is an entry of the table, with no override or the override of its own index -/
theorem additionalGo_ops (args : List α) : ∀ (is : List Nat) (d : ToArgs α) (ops : List (α × Option Nat)),
    d.args = args → ToArgs.additionalGo keyEq d is = .ok ops →
    ∀ p ∈ ops, ∃ idx, args[idx]? = some p.1 ∧ (p.2 = none ∨ p.2 = some idx)
  | [], d, ops, _, h => by
    simp [ToArgs.additionalGo, pure, Except.pure] at h
    subst h
    intro p hp; cases hp
  | i :: is, d, ops, hd, h => by
    simp only [ToArgs.additionalGo] at h
    cases hassoc : assoc? i d.found with
    | some o =>
      simp only [hassoc] at h
      exact additionalGo_ops args is d ops hd h
    | none =>
      simp only [hassoc] at h
      obtain ⟨⟨t1, a, ov⟩, h1, h⟩ := bind_ok' h
      obtain ⟨r, h2, h⟩ := bind_ok' h
      simp only [pure, Except.pure, Except.ok.injEq] at h
      subst h
      obtain ⟨hget, hargs, _⟩ := foundIndex_ok d i t1 a ov h1
      intro p hp
      simp only [List.mem_cons] at hp
      rcases hp with rfl | hp
      · exact ⟨i, by rw [← hd]; exact hget, ov_cases d i t1 a ov h1⟩
      · exact additionalGo_ops args is t1 r (by rw [hargs]; exact hd) h2 p hp

/-- re-adding decoded operands to a complete table keeps it complete -/
theorem complete_run (hk : KeyEquiv keyEq) (args : List α) : ∀ (ops : List (α × Option Nat)) (e : FromArgs α),
    TableComplete keyEq args e → (∀ p ∈ ops, ∃ idx, args[idx]? = some p.1 ∧ (p.2 = none ∨ p.2 = some idx)) →
    ∃ e', runWith (fun t a o => t.add keyEq a o) e ops = .ok e' ∧ TableComplete keyEq args e'
  | [], e, hc, _ => ⟨e, rfl, hc⟩
  | (a, ov) :: ops, e, hc, hops => by
    obtain ⟨idx, hget, hov⟩ := hops (a, ov) (by simp)
    obtain ⟨e1, j, hadd, hc1, _⟩ := complete_add hk args e hc idx a ov hget hov
    obtain ⟨e2, hrun, hc2⟩ := complete_run hk args ops e1 hc1 (fun p hp => hops p (by simp [hp]))
    refine ⟨e2, ?_, hc2⟩
    simp only [runWith]
    rw [hadd]
    exact hrun

end

/-! ### `addAdditional` / `collectCells` over the four groups of `_additional_args` -/

theorem addAdditional_ops_names (tp : Option Function) (fv : List PStr) : ∀ (ops : List (PStr × Option Nat)) (est : EncSt) (rest : List Arg),
    addAdditional tp fv est (ops.map (fun p => Arg.name p.1 p.2) ++ rest) =
      runWith (fun t a o => t.add strEq a o) est.names ops >>= fun t => addAdditional tp fv { est with names := t } rest
  | [], est, rest => by simp [runWith, pure, Except.pure, bind, Except.bind]
  | (a, o) :: ops, est, rest => by
    simp only [List.map_cons, List.cons_append, addAdditional, fromArg, runWith]
    cases h : est.names.add strEq a o with
    | error e => simp [bind, Except.bind]
    | ok r =>
      simp only [bind, Except.bind, pure, Except.pure]
      have := addAdditional_ops_names tp fv ops { est with names := r.1 } rest
      simp only [bind, Except.bind] at this
      exact this

theorem addAdditional_ops_varnames (tp : Option Function) (fv : List PStr) : ∀ (ops : List (PStr × Option Nat)) (est : EncSt) (rest : List Arg),
    addAdditional tp fv est (ops.map (fun p => Arg.varname p.1 p.2) ++ rest) =
      runWith (fun t a o => t.add strEq a o) est.varnames ops >>= fun t => addAdditional tp fv { est with varnames := t } rest
  | [], est, rest => by simp [runWith, pure, Except.pure, bind, Except.bind]
  | (a, o) :: ops, est, rest => by
    simp only [List.map_cons, List.cons_append, addAdditional, fromArg, runWith]
    cases h : est.varnames.add strEq a o with
    | error e => simp [bind, Except.bind]
    | ok r =>
      simp only [bind, Except.bind, pure, Except.pure]
      have := addAdditional_ops_varnames tp fv ops { est with varnames := r.1 } rest
      simp only [bind, Except.bind] at this
      exact this

theorem addAdditional_ops_cells (tp : Option Function) (fv : List PStr) : ∀ (ops : List (PStr × Option Nat)) (est : EncSt) (rest : List Arg),
    addAdditional tp fv est (ops.map (fun p => Arg.cell p.1 p.2) ++ rest) =
      runWith (fun t a o => t.add strEq a o) est.cellvars ops >>= fun t => addAdditional tp fv { est with cellvars := t } rest
  | [], est, rest => by simp [runWith, pure, Except.pure, bind, Except.bind]
  | (a, o) :: ops, est, rest => by
    simp only [List.map_cons, List.cons_append, addAdditional, fromArg, runWith]
    cases h : est.cellvars.add strEq a o with
    | error e => simp [bind, Except.bind]
    | ok r =>
      simp only [bind, Except.bind, pure, Except.pure]
      have := addAdditional_ops_cells tp fv ops { est with cellvars := r.1 } rest
      simp only [bind, Except.bind] at this
      exact this

theorem addAdditional_ops_constants (tp : Option Function) (fv : List PStr) : ∀ (ops : List (Const × Option Nat)) (est : EncSt) (rest : List Arg),
    addAdditional tp fv est (ops.map (fun p => Arg.const p.1 p.2) ++ rest) =
      runWith (fun t a o => fromConstArg tp t a o) est.consts ops >>= fun t => addAdditional tp fv { est with consts := t } rest
  | [], est, rest => by simp [runWith, pure, Except.pure, bind, Except.bind]
  | (a, o) :: ops, est, rest => by
    simp only [List.map_cons, List.cons_append, addAdditional, fromArg, runWith]
    cases h : fromConstArg tp est.consts a o with
    | error e => simp [bind, Except.bind]
    | ok r =>
      simp only [bind, Except.bind, pure, Except.pure]
      have := addAdditional_ops_constants tp fv ops { est with consts := r.1 } rest
      simp only [bind, Except.bind] at this
      exact this

theorem collectCells_skip : ∀ (l : List Arg) (e : FromArgs PStr) (rest : List Arg), (∀ a ∈ l, ∀ s o, a ≠ Arg.cell s o) →
    collectCells e (l ++ rest) = collectCells e rest
  | [], e, rest, _ => rfl
  | a :: l, e, rest, h => by
    rw [List.cons_append, collectCells_cons_other e a _ (h a (by simp))]
    exact collectCells_skip l e rest (fun b hb => h b (by simp [hb]))

theorem collectCells_cells : ∀ (ops : List (PStr × Option Nat)) (e : FromArgs PStr) (rest : List Arg),
    collectCells e (ops.map (fun p => Arg.cell p.1 p.2) ++ rest) =
      runWith (fun t a o => t.add strEq a o) e ops >>= fun t => collectCells t rest
  | [], e, rest => by simp [runWith, pure, Except.pure, bind, Except.bind]
  | (a, o) :: ops, e, rest => by
    simp only [List.map_cons, List.cons_append, collectCells, runWith]
    cases h : e.add strEq a o with
    | error e => simp [bind, Except.bind]
    | ok r =>
      simp only [bind, Except.bind]
      have := collectCells_cells ops r.1 rest
      simp only [bind, Except.bind] at this
      exact this

end CDV
