import CDVProofs.Args
import CDVProofs.Flags
import CDV.Encode
import CDVProofs.Bytes
/-! The header of a code object through `to_code_data` and back through `from_code_data`:
    argument counts and `co_varnames` prefix (`args_from_input` / `args_to_input`), and the flag word. -/
namespace CDV

/-- the fields `args_from_input` cuts out of `co_varnames` -/
theorem argsFromInput_fields (argc pos kw : Nat) (varnames : List PStr) (varargs varkw : Bool) (a : Args)
    (h : argsFromInput ⟨argc, pos, kw, varnames, varargs, varkw⟩ = .ok a) :
    pos ≤ argc ∧
    a.posOnly = varnames.take pos ∧ a.posOrKw = (varnames.drop pos).take (argc - pos) ∧
    a.kwOnly = (varnames.drop argc).take kw ∧
    (optName a.varPos) = (if varargs then (varnames.drop (argc + kw)).take 1 else []) ∧
    (optName a.varKw) = (if varkw then (varnames.drop (argc + kw + (if varargs then 1 else 0))).take 1 else []) ∧
    (varargs = true → a.varPos.isSome) ∧ (varkw = true → a.varKw.isSome) := by
  unfold argsFromInput at h
  by_cases hlt : argc < pos
  · simp [hlt, throw, throwThe, MonadExceptOf.throw, bind, Except.bind] at h
  · have hle : pos ≤ argc := by omega
    simp only [hlt, if_false, bind, Except.bind, pure, Except.pure] at h
    have e1 : List.drop kw (List.drop (argc - pos) (List.drop pos varnames)) = varnames.drop (argc + kw) := by
      simp only [List.drop_drop]; congr 1; omega
    have e0 : List.drop (argc - pos) (List.drop pos varnames) = varnames.drop argc := by
      simp only [List.drop_drop]; congr 1; omega
    rw [e1] at h
    cases varargs <;> cases varkw <;> simp only [Bool.false_eq_true, if_false, if_true] at h ⊢
    · cases h
      exact ⟨hle, rfl, rfl, by rw [e0], rfl, rfl, by simp, by simp⟩
    · cases hd : varnames.drop (argc + kw) with
      | nil => simp [hd, throw, throwThe, MonadExceptOf.throw] at h
      | cons x r =>
        simp only [hd] at h
        cases h
        exact ⟨hle, rfl, rfl, by rw [e0], rfl, by simp [optName, hd], by simp, by simp⟩
    · cases hd : varnames.drop (argc + kw) with
      | nil => simp [hd, throw, throwThe, MonadExceptOf.throw] at h
      | cons x r =>
        simp only [hd] at h
        cases h
        exact ⟨hle, rfl, rfl, by rw [e0], by simp [optName, hd], rfl, by simp, by simp⟩
    · cases hd : varnames.drop (argc + kw) with
      | nil => simp [hd, throw, throwThe, MonadExceptOf.throw] at h
      | cons x r =>
        simp only [hd] at h
        cases r with
        | nil => simp [throw, throwThe, MonadExceptOf.throw] at h
        | cons y r' =>
          simp only at h
          cases h
          have hd2 : varnames.drop (argc + kw + 1) = y :: r' := by
            have : varnames.drop (argc + kw + 1) = (varnames.drop (argc + kw)).drop 1 := by simp [List.drop_drop]
            rw [this, hd]; rfl
          exact ⟨hle, rfl, rfl, by rw [e0], by simp [optName, hd], by simp [optName, hd2], by simp, by simp⟩

theorem dedupKeep_nodup : ∀ (l acc : List PStr), (acc.reverse ++ l).Nodup → dedupKeep l acc = acc.reverse ++ l := by
  intro l
  induction l with
  | nil => intro acc _; simp [dedupKeep]
  | cons x xs ih =>
    intro acc h
    have hx : x ∉ acc := by
      intro hm
      have := List.nodup_append.mp h
      exact this.2.2 x (by simpa using hm) x (by simp) rfl
    have hc : acc.contains x = false := by simpa using hx
    simp only [dedupKeep, hc, Bool.false_eq_true, if_false]
    rw [ih (x :: acc) (by simpa using h)]
    simp

theorem filter_ne_split (s : PStr) (A B : List PStr) (hA : s ∉ A) (hB : s ∉ B) :
    (A ++ [s] ++ B).filter (· != s) = A ++ B := by
  have fa : ∀ (L : List PStr), s ∉ L → L.filter (· != s) = L := by
    intro L hL
    apply List.filter_eq_self.mpr
    intro x hx
    have : x ≠ s := fun h => hL (h ▸ hx)
    simpa using this
  simp [List.filter_append, fa A hA, fa B hB]

theorem filter_ne_split' (s : PStr) (A B : List PStr) (h : (A ++ [s] ++ B).Nodup) :
    (A ++ [s] ++ B).filter (· != s) = A ++ B := by
  have h1 := List.nodup_append.mp h
  have h2 := List.nodup_append.mp h1.1
  apply filter_ne_split
  · intro hm; exact h2.2.2 s hm s (by simp) rfl
  · intro hm; exact h1.2.2 s (by simp) s hm rfl

/-- **`args_to_input ∘ args_from_input` is the identity on the header** (distinct parameter names, `co_varnames` long
    enough — what CPython guarantees): the re-encoded argument counts are the original ones and the parameter names come
    back as the same prefix of `co_varnames`. -/
theorem header_args_roundtrip (argc pos kw : Nat) (varnames : List PStr) (varargs varkw : Bool) (a : Args)
    (h : argsFromInput ⟨argc, pos, kw, varnames, varargs, varkw⟩ = .ok a)
    (hlen : argc + kw + (if varargs then 1 else 0) + (if varkw then 1 else 0) ≤ varnames.length)
    (hnodup : (varnames.take (argc + kw + (if varargs then 1 else 0) + (if varkw then 1 else 0))).Nodup) :
    a.posOnly.length = pos ∧ a.posOnly.length + a.posOrKw.length = argc ∧ a.kwOnly.length = kw ∧
    a.varPos.isSome = varargs ∧ a.varKw.isSome = varkw ∧
    a.paramNames.length = a.posOnly.length + a.posOrKw.length + a.kwOnly.length + (if a.varPos.isSome then 1 else 0) + (if a.varKw.isSome then 1 else 0) ∧
    a.varnameOrder = varnames.take (argc + kw + (if varargs then 1 else 0) + (if varkw then 1 else 0)) := by
  obtain ⟨hle, f1, f2, f3, f4, f5, f6, f7⟩ := argsFromInput_fields argc pos kw varnames varargs varkw a h
  -- split `co_varnames` into the five groups
  have hsplit : varnames.take (argc + kw + (if varargs then 1 else 0) + (if varkw then 1 else 0)) =
      a.posOnly ++ a.posOrKw ++ a.kwOnly ++ optName a.varPos ++ optName a.varKw := by
    rw [f1, f2, f3, f4, f5]
    have t : ∀ (n m : Nat) (l : List PStr), l.take (n + m) = l.take n ++ (l.drop n).take m := by
      intro n m l; rw [List.take_add]
    cases varargs <;> cases varkw <;> simp only [Bool.false_eq_true, if_false, if_true, Nat.add_zero, List.append_nil]
    · rw [t argc kw, show argc = pos + (argc - pos) by omega, t pos (argc - pos)]
      simp [show pos + (argc - pos) - pos = argc - pos by omega]
    · rw [t (argc + kw) 1, t argc kw, show argc = pos + (argc - pos) by omega, t pos (argc - pos)]
      simp [show pos + (argc - pos) - pos = argc - pos by omega, List.append_assoc]
    · rw [t (argc + kw) 1, t argc kw, show argc = pos + (argc - pos) by omega, t pos (argc - pos)]
      simp [show pos + (argc - pos) - pos = argc - pos by omega, List.append_assoc]
    · rw [t (argc + kw + 1) 1, t (argc + kw) 1, t argc kw, show argc = pos + (argc - pos) by omega, t pos (argc - pos)]
      simp [show pos + (argc - pos) - pos = argc - pos by omega, List.append_assoc]
  have hl1 : a.posOnly.length = pos := by rw [f1, List.length_take]; omega
  have hl2 : a.posOrKw.length = argc - pos := by rw [f2, List.length_take, List.length_drop]; omega
  have hl3 : a.kwOnly.length = kw := by rw [f3, List.length_take, List.length_drop]; omega
  have hvp : a.varPos.isSome = varargs := by
    cases varargs with
    | true => exact f6 rfl
    | false => simp only [Bool.false_eq_true, if_false] at f4; cases hv : a.varPos <;> simp_all [optName]
  have hvk : a.varKw.isSome = varkw := by
    cases varkw with
    | true => exact f7 rfl
    | false => simp only [Bool.false_eq_true, if_false] at f5; cases hv : a.varKw <;> simp_all [optName]
  rw [hsplit] at hnodup
  -- signature order is a permutation of the same names: still without repetition
  have hperm : (a.posOnly ++ a.posOrKw ++ a.kwOnly ++ optName a.varPos ++ optName a.varKw).Perm
      (a.posOnly ++ a.posOrKw ++ optName a.varPos ++ a.kwOnly ++ optName a.varKw) := by
    apply List.Perm.append_right
    simp only [List.append_assoc]
    apply List.Perm.append_left
    apply List.Perm.append_left
    exact List.perm_append_comm
  have hnd2 : (a.posOnly ++ a.posOrKw ++ optName a.varPos ++ a.kwOnly ++ optName a.varKw).Nodup := (hperm.nodup_iff).mp hnodup
  have hpn : a.paramNames = a.posOnly ++ a.posOrKw ++ optName a.varPos ++ a.kwOnly ++ optName a.varKw := by
    unfold Args.paramNames
    rw [dedupKeep_nodup _ [] (by simpa using hnd2)]; simp
  refine ⟨hl1, by omega, hl3, hvp, hvk, ?_, ?_⟩
  · rw [hpn]
    simp only [List.length_append]
    cases a.varPos <;> cases a.varKw <;> simp [optName] <;> omega
  · rw [hsplit]
    unfold Args.varnameOrder
    rw [hpn]
    cases hp : a.varPos with
    | none =>
      cases hk : a.varKw with
      | none => simp [optName]
      | some t =>
        simp only [optName, List.append_nil] at hnd2 ⊢
        rw [hp, hk] at hnd2
        simp only [optName, List.append_nil] at hnd2
        unfold moveToEnd
        have := filter_ne_split' t (a.posOnly ++ a.posOrKw ++ a.kwOnly) [] (by simpa using hnd2)
        simp only [List.append_nil] at this
        rw [this]
    | some s =>
      rw [hp] at hnd2
      simp only [optName] at hnd2 ⊢
      cases hk : a.varKw with
      | none =>
        rw [hk] at hnd2
        simp only [optName, List.append_nil] at hnd2 ⊢
        unfold moveToEnd
        rw [filter_ne_split' s (a.posOnly ++ a.posOrKw) a.kwOnly (by simpa [List.append_assoc] using hnd2)]
      | some t =>
        rw [hk] at hnd2
        simp only [optName] at hnd2 ⊢
        unfold moveToEnd
        rw [show a.posOnly ++ a.posOrKw ++ [s] ++ a.kwOnly ++ [t] = (a.posOnly ++ a.posOrKw) ++ [s] ++ (a.kwOnly ++ [t]) by simp [List.append_assoc]]
        rw [filter_ne_split' s (a.posOnly ++ a.posOrKw) (a.kwOnly ++ [t]) (by simpa [List.append_assoc] using hnd2)]
        have hnd3 : ((a.posOnly ++ a.posOrKw ++ a.kwOnly) ++ [t] ++ [s]).Nodup := by
          rw [hp, hk] at hnodup
          simp only [optName] at hnodup
          have hp2 : (a.posOnly ++ a.posOrKw ++ a.kwOnly ++ [s] ++ [t]).Perm (a.posOnly ++ a.posOrKw ++ a.kwOnly ++ [t] ++ [s]) := by
            simp only [List.append_assoc]
            apply List.Perm.append_left
            apply List.Perm.append_left
            apply List.Perm.append_left
            exact List.perm_append_comm
          exact (hp2.nodup_iff).mp hnodup
        rw [show a.posOnly ++ a.posOrKw ++ (a.kwOnly ++ [t]) ++ [s] = (a.posOnly ++ a.posOrKw ++ a.kwOnly) ++ [t] ++ [s] by simp [List.append_assoc]]
        rw [filter_ne_split' t (a.posOnly ++ a.posOrKw ++ a.kwOnly) [s] hnd3]

end CDV

namespace CDV

theorem fromFlags_congr (A B : List Nat) (h : ∀ i, i ∈ A ↔ i ∈ B) : fromFlags A = fromFlags B := by
  apply Nat.eq_of_testBit_eq
  intro i
  rw [testBit_fromFlags, testBit_fromFlags]
  simp [h i]

theorem throw_ne_ok {γ} (b : γ) : (throw Err.raised : R γ) ≠ .ok b := by intro h; cases h

/-- what `Function`-or-`None` inference returns -/
theorem headerType_spec (fl4 : List Nat) (args : Args) (c : List Const) (tp : Option Function) (f5 : List Nat)
    (h : headerType fl4 args c = .ok (tp, f5)) :
    (tp = none ∧ bNEWLOCALS ∉ fl4 ∧ bOPTIMIZED ∉ fl4 ∧ args.len = 0 ∧ f5 = fl4) ∨
    (∃ doc ft, tp = some ⟨args, doc, ft⟩ ∧ bNEWLOCALS ∈ fl4 ∧ bOPTIMIZED ∈ fl4 ∧
      ([bASYNC_GENERATOR, bCOROUTINE, bGENERATOR].filter fl4.contains).length ≤ 1 ∧
      ftypeBits ft = [bASYNC_GENERATOR, bCOROUTINE, bGENERATOR].filter fl4.contains ∧
      f5 = fl4.filter (fun b => !([bASYNC_GENERATOR, bCOROUTINE, bGENERATOR].filter fl4.contains).contains b && b != bNEWLOCALS && b != bOPTIMIZED)) := by
  unfold headerType at h
  dsimp only at h
  have e1 : ((1 + 1 : Nat) == 0) = false := rfl
  have e2 : ((1 + 1 : Nat) == 2) = true := rfl
  have e3 : ((1 + 0 : Nat) == 0) = false := rfl
  have e4 : ((1 + 0 : Nat) == 2) = false := rfl
  have e5 : ((0 + 1 : Nat) == 0) = false := rfl
  have e6 : ((0 + 1 : Nat) == 2) = false := rfl
  have e7 : ((0 + 0 : Nat) == 0) = true := rfl
  by_cases h1 : bNEWLOCALS ∈ fl4 <;> by_cases h0 : bOPTIMIZED ∈ fl4 <;>
    simp only [List.contains_iff_mem, h1, h0, if_true, if_false, e1, e2, e3, e4, e5, e6, e7, Bool.false_eq_true] at h
  · right
    split at h
    · exact absurd h (throw_ne_ok _)
    · next hlen =>
      simp only [pure, Except.pure, Except.ok.injEq, Prod.mk.injEq] at h
      refine ⟨_, _, h.1.symm, h1, h0, by omega, ?_, ?_⟩
      · generalize hT : List.filter fl4.contains [bASYNC_GENERATOR, bCOROUTINE, bGENERATOR] = T at *
        have hmem : ∀ x ∈ T, x = bASYNC_GENERATOR ∨ x = bCOROUTINE ∨ x = bGENERATOR := by
          intro x hx; rw [← hT] at hx; simp only [List.mem_filter, List.mem_cons, List.not_mem_nil, or_false] at hx; exact hx.1
        match T, hlen, hmem with
        | [], _, _ => rfl
        | [b], _, hm =>
          rcases hm b (by simp) with rfl | rfl | rfl <;> rfl
        | _ :: _ :: _, hl, _ => simp at hl
      · simpa [List.contains_iff_mem] using h.2.symm
  · exact absurd h (throw_ne_ok _)
  · exact absurd h (throw_ne_ok _)
  · left
    split at h
    · exact absurd h (throw_ne_ok _)
    · next hlen =>
      simp only [pure, Except.pure, Except.ok.injEq, Prod.mk.injEq] at h
      exact ⟨h.1.symm, h1, h0, by simpa using hlen, h.2.symm⟩

theorem dedupKeep_mem : ∀ (l acc : List PStr) (x : PStr), (x ∈ acc ∨ x ∈ l) → x ∈ dedupKeep l acc := by
  intro l
  induction l with
  | nil => intro acc x h; simp only [dedupKeep, List.mem_reverse]; rcases h with h | h; exact h; simp at h
  | cons y ys ih =>
    intro acc x h
    simp only [dedupKeep]
    split
    · next hc =>
      apply ih
      rcases h with h | h
      · exact Or.inl h
      · rcases List.mem_cons.mp h with rfl | h
        · exact Or.inl (by simpa using hc)
        · exact Or.inr h
    · apply ih
      rcases h with h | h
      · exact Or.inl (by simp [h])
      · rcases List.mem_cons.mp h with rfl | h
        · exact Or.inl (by simp)
        · exact Or.inr h

/-- the flag list `from_code_data` re-derives from the decoded header fields -/
def flagsOut (F : FlagTable) (tp : Option Function) (freevars cellvars : List PStr) (ann nested : Bool) : List Nat :=
  (match tp with
    | some f => [bNEWLOCALS, bOPTIMIZED] ++ ftypeBits f.ftype ++ (if (optName f.args.varPos).isEmpty then [] else [bVARARGS])
        ++ (if (optName f.args.varKw).isEmpty then [] else [bVARKEYWORDS])
    | none => [])
  ++ (if freevars.isEmpty && cellvars.isEmpty then [bNOFREE] else []) ++ (if ann then [F.annotations] else []) ++ (if nested then [bNESTED] else [])

/-- **The flag word survives the round trip through the decoded header.**  Whenever `to_code_data`'s header part accepts a
    flag word (every set bit known and consumed into a field), the flags `from_code_data` re-derives from those fields
    make up exactly that word — for every word, any table of known flags, any tables. -/
theorem header_flags_roundtrip (v : Ver) (F : FlagTable) (argc pos kw fl : Nat) (varnames freevars cellvars : List PStr) (constants : List Const)
    (tp : Option Function) (ann nested : Bool) (args : Args)
    (hA : F.annotations ∉ [bOPTIMIZED, bNEWLOCALS, bVARARGS, bVARKEYWORDS, bNESTED, bGENERATOR, bNOFREE, bCOROUTINE, bASYNC_GENERATOR])
    (h : decodeHeader v F argc pos kw fl varnames freevars cellvars constants = .ok (tp, ann, nested, args)) :
    fromFlags (flagsOut F tp freevars cellvars ann nested) = fl := by
  unfold decodeHeader at h
  obtain ⟨S, hS, h⟩ := bind_ok h
  obtain ⟨a, hargs, h⟩ := bind_ok h
  dsimp only at h
  split at h
  · exact absurd h (throw_ne_ok _)
  next hnofree =>
  obtain ⟨⟨tp', f5⟩, htp, h⟩ := bind_ok h
  dsimp only at h
  split at h
  · exact absurd h (throw_ne_ok _)
  next hempty =>
  simp only [pure, Except.pure, Except.ok.injEq, Prod.mk.injEq] at h
  obtain ⟨rfl, hann, hnested, rfl⟩ := h
  rw [← toFlags_roundtrip F fl S hS]
  apply fromFlags_congr
  obtain ⟨_, _, _, _, fvp, fvk, gvp, gvk⟩ := argsFromInput_fields _ _ _ _ _ _ _ hargs
  have hf5 : f5 = [] := by simpa using hempty
  simp only [List.mem_cons, List.not_mem_nil, or_false, not_or] at hA
  obtain ⟨a0, a1, a2, a3, a4, a5, a6, a7, a9⟩ := hA
  -- the decoded fields, as facts about membership in the set of named flags `S`
  have hVP : (optName a.varPos).isEmpty = false ↔ bVARARGS ∈ S := by
    rw [← List.contains_iff_mem]
    cases hc : S.contains bVARARGS with
    | true =>
      have h1 := gvp hc
      cases hv : a.varPos with
      | none => rw [hv] at h1; simp at h1
      | some x => simp [optName]
    | false => rw [hc] at fvp; simp only [Bool.false_eq_true, if_false] at fvp; rw [fvp]; simp
  have hVK : (optName a.varKw).isEmpty = false ↔ bVARKEYWORDS ∈ S := by
    rw [← List.contains_iff_mem]
    cases hc : S.contains bVARKEYWORDS with
    | true =>
      have h1 := gvk hc
      cases hv : a.varKw with
      | none => rw [hv] at h1; simp at h1
      | some x => simp [optName]
    | false => rw [hc] at fvk; simp only [Bool.false_eq_true, if_false] at fvk; rw [fvk]; simp
  have hNF : (freevars.isEmpty && cellvars.isEmpty) = true ↔ bNOFREE ∈ S := by
    have hb : ∀ (x y : Bool), ¬ ((x != y) = true) → x = y := by intro x y; cases x <;> cases y <;> simp
    have h1 : (List.filter (fun b => b != bVARARGS && b != bVARKEYWORDS) S).contains bNOFREE = (freevars.isEmpty && cellvars.isEmpty) :=
      hb _ _ hnofree
    rw [← h1, List.contains_iff_mem, List.mem_filter]
    constructor
    · intro hh; exact hh.1
    · intro hh; exact ⟨hh, by decide⟩
  have hAN : ann = true ↔ F.annotations ∈ S := by
    rw [← hann, List.contains_iff_mem, List.mem_filter, List.mem_filter]
    constructor
    · intro hh; exact hh.1.1
    · intro hh
      refine ⟨⟨hh, ?_⟩, ?_⟩
      · simp only [bne_iff_ne, ne_eq, Bool.and_eq_true]; exact ⟨a2, a3⟩
      · simp only [bne_iff_ne, ne_eq]; exact a6
  have hNE : nested = true ↔ bNESTED ∈ S := by
    rw [← hnested, List.contains_iff_mem, List.mem_filter, List.mem_filter, List.mem_filter]
    constructor
    · intro hh; exact hh.1.1.1
    · intro hh
      refine ⟨⟨⟨hh, by decide⟩, by decide⟩, ?_⟩
      simp only [bne_iff_ne, ne_eq]; exact fun e => a4 e.symm
  -- membership in what is left for the function flags
  have hf4 : ∀ i, i ∈ List.filter (fun x => x != bNESTED) (List.filter (fun x => x != F.annotations)
      (List.filter (fun x => x != bNOFREE) (List.filter (fun b => b != bVARARGS && b != bVARKEYWORDS) S))) ↔
      (i ∈ S ∧ i ≠ bVARARGS ∧ i ≠ bVARKEYWORDS ∧ i ≠ bNOFREE ∧ i ≠ F.annotations ∧ i ≠ bNESTED) := by
    intro i
    simp only [List.mem_filter, bne_iff_ne, ne_eq, Bool.and_eq_true]
    constructor
    · rintro ⟨⟨⟨⟨h1, h2, h3⟩, h4⟩, h5⟩, h6⟩; exact ⟨h1, h2, h3, h4, h5, h6⟩
    · rintro ⟨h1, h2, h3, h4, h5, h6⟩; exact ⟨⟨⟨⟨h1, h2, h3⟩, h4⟩, h5⟩, h6⟩
  -- the three trailing flags
  have htail : ∀ i, i ∈ ((if freevars.isEmpty && cellvars.isEmpty then [bNOFREE] else []) ++ (if ann then [F.annotations] else [])
      ++ (if nested then [bNESTED] else []) : List Nat) ↔ (i ∈ S ∧ (i = bNOFREE ∨ i = F.annotations ∨ i = bNESTED)) := by
    intro i
    simp only [List.mem_append]
    constructor
    · rintro ((h | h) | h)
      · split at h
        · next hc => simp only [List.mem_singleton] at h; subst h; exact ⟨hNF.mp hc, Or.inl rfl⟩
        · simp at h
      · split at h
        · next hc => simp only [List.mem_singleton] at h; subst h; exact ⟨hAN.mp hc, Or.inr (Or.inl rfl)⟩
        · simp at h
      · split at h
        · next hc => simp only [List.mem_singleton] at h; subst h; exact ⟨hNE.mp hc, Or.inr (Or.inr rfl)⟩
        · simp at h
    · rintro ⟨hi, rfl | rfl | rfl⟩
      · left; left; rw [if_pos (hNF.mpr hi)]; simp
      · left; right; rw [if_pos (hAN.mpr hi)]; simp
      · right; rw [if_pos (hNE.mpr hi)]; simp
  intro i
  unfold flagsOut
  rw [List.append_assoc, List.append_assoc, List.mem_append, ← List.append_assoc, htail]
  rcases headerType_spec _ _ _ _ _ htp with ⟨rfl, n1, n0, hlen, hf⟩ | ⟨doc, ft, rfl, m1, m0, hl1, hft, hf⟩
  · -- module / class body: no function flag may be left
    rw [hf5] at hf
    have hnone : ∀ j, j ∈ S → j = bVARARGS ∨ j = bVARKEYWORDS ∨ j = bNOFREE ∨ j = F.annotations ∨ j = bNESTED := by
      intro j hj
      apply Classical.byContradiction
      intro hcon
      simp only [not_or] at hcon
      have : j ∈ ([] : List Nat) := by rw [hf]; exact (hf4 j).mpr ⟨hj, hcon.1, hcon.2.1, hcon.2.2.1, hcon.2.2.2.1, hcon.2.2.2.2⟩
      simp at this
    -- and no *args / **kwargs either: there are no parameters
    have hp : a.paramNames = [] := by
      have : a.paramNames.length = 0 := hlen
      exact List.eq_nil_of_length_eq_zero this
    have hnovp : bVARARGS ∉ S := by
      intro hm
      have h1 := hVP.mpr hm
      cases hv : a.varPos with
      | none => rw [hv] at h1; simp [optName] at h1
      | some x =>
        have hx : x ∈ a.paramNames := by
          unfold Args.paramNames
          exact dedupKeep_mem _ _ _ (Or.inr (by simp [hv, optName]))
        rw [hp] at hx; simp at hx
    have hnovk : bVARKEYWORDS ∉ S := by
      intro hm
      have h1 := hVK.mpr hm
      cases hv : a.varKw with
      | none => rw [hv] at h1; simp [optName] at h1
      | some x =>
        have hx : x ∈ a.paramNames := by
          unfold Args.paramNames
          exact dedupKeep_mem _ _ _ (Or.inr (by simp [hv, optName]))
        rw [hp] at hx; simp at hx
    simp only [List.not_mem_nil, false_or]
    constructor
    · intro hh; exact hh.1
    · intro hi
      refine ⟨hi, ?_⟩
      rcases hnone i hi with rfl | rfl | h | h | h
      · exact absurd hi hnovp
      · exact absurd hi hnovk
      · exact Or.inl h
      · exact Or.inr (Or.inl h)
      · exact Or.inr (Or.inr h)
  · -- function: NEWLOCALS, OPTIMIZED, at most one kind flag, *args / **kwargs
    rw [hf5] at hf
    have hm1 : bNEWLOCALS ∈ S := ((hf4 _).mp m1).1
    have hm0 : bOPTIMIZED ∈ S := ((hf4 _).mp m0).1
    have htps : ∀ j, j ∈ ftypeBits ft ↔ (j ∈ S ∧ (j = bASYNC_GENERATOR ∨ j = bCOROUTINE ∨ j = bGENERATOR)) := by
      intro j
      rw [hft, List.mem_filter, List.contains_iff_mem, hf4]
      constructor
      · rintro ⟨hj, hjS, _⟩
        simp only [List.mem_cons, List.not_mem_nil, or_false] at hj
        exact ⟨hjS, hj⟩
      · rintro ⟨hjS, hj⟩
        refine ⟨by simpa using hj, hjS, ?_⟩
        rcases hj with rfl | rfl | rfl <;> refine ⟨by decide, by decide, by decide, ?_, by decide⟩
        · exact fun e => a9 e.symm
        · exact fun e => a7 e.symm
        · exact fun e => a5 e.symm
    have hrest : ∀ j, j ∈ S → j = bVARARGS ∨ j = bVARKEYWORDS ∨ j = bNOFREE ∨ j = F.annotations ∨ j = bNESTED ∨
        j = bNEWLOCALS ∨ j = bOPTIMIZED ∨ j ∈ ftypeBits ft := by
      intro j hj
      apply Classical.byContradiction
      intro hcon
      simp only [not_or] at hcon
      obtain ⟨c1, c2, c3, c4, c5, c6, c7, c8⟩ := hcon
      have hj4 := (hf4 j).mpr ⟨hj, c1, c2, c3, c4, c5⟩
      have : j ∈ ([] : List Nat) := by
        rw [hf, List.mem_filter]
        refine ⟨hj4, ?_⟩
        rw [← hft]
        simp only [Bool.and_eq_true, Bool.not_eq_true', bne_iff_ne, ne_eq]
        refine ⟨⟨?_, c6⟩, c7⟩
        cases hcc : (ftypeBits ft).contains j with
        | false => rfl
        | true => exact absurd (List.contains_iff_mem.mp hcc) c8
      simp at this
    simp only [List.mem_append, List.mem_cons, List.not_mem_nil, or_false]
    constructor
    · rintro ((((h | h) | h) | h) | h)
      · rcases h with rfl | rfl
        · exact hm1
        · exact hm0
      · exact ((htps i).mp h).1
      · split at h
        · simp at h
        · next hc => simp only [List.mem_singleton] at h; subst h; exact hVP.mp (by simpa using hc)
      · split at h
        · simp at h
        · next hc => simp only [List.mem_singleton] at h; subst h; exact hVK.mp (by simpa using hc)
      · exact h.1
    · intro hi
      rcases hrest i hi with rfl | rfl | h | h | h | rfl | rfl | h
      · left; left; right
        rw [if_neg (by rw [hVP.mpr hi]; simp)]; simp
      · left; right
        rw [if_neg (by rw [hVK.mpr hi]; simp)]; simp
      · right; exact ⟨hi, Or.inl h⟩
      · right; exact ⟨hi, Or.inr (Or.inl h)⟩
      · right; exact ⟨hi, Or.inr (Or.inr h)⟩
      · left; left; left; left; left; rfl
      · left; left; left; left; right; rfl
      · left; left; left; right; exact h

end CDV
