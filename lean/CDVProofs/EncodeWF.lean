import CDVProofs.EncodeLines
import CDVProofs.LineWFOld
/-! The line table `to_code` writes lies in the domain of the decoding theorems (both formats). -/
namespace CDV
open LT

theorem unitLines_some (fln : Int) : ∀ (is : List Instr) (as : List Int), (∀ i ∈ is, i.line.isSome) →
    ∃ ls : List Int, (unitLines is as).map (fun l => l.map (· - fln)) = ls.map some := by
  intro is
  induction is with
  | nil => intro as _; exact ⟨[], by simp [unitLines]⟩
  | cons i is ih =>
    intro as h
    cases as with
    | nil => exact ⟨[], by simp [unitLines]⟩
    | cons a as =>
      obtain ⟨ls, hls⟩ := ih as (fun x hx => h x (by simp [hx]))
      have hi := h i (by simp)
      cases hline : i.line with
      | none => simp [hline] at hi
      | some l =>
        refine ⟨List.replicate (sizeOfI i.nov a) (l - fln) ++ ls, ?_⟩
        simp only [unitLines, List.map_append, hls, hline, List.map_replicate, Option.map_some]

/-- **The line table written from the assembler's per-code-unit lines is well-formed for the reader**, in the format of
    the interpreter version: even length, bytes, even address deltas (3.10: none of them 255; ≤3.9: after the reader's merge
    of continuation rows). -/
theorem encode_table_wellformed (v : Ver) (is : List Instr) (as : List Int) (fln : Int) (extra : List (Nat × List Int))
    (hl : is.length = as.length) (hne : is ≠ []) (hsome : v.is310 = false → ∀ i ∈ is, i.line.isSome) (table : List Nat)
    (ht : LT.fromLineMapping v.is310 ⟨(emit is as 0).2.1.map (fun p => (p.1, p.2.map (· - fln))), extra⟩ = .ok table) :
    table.length % 2 = 0 ∧ (∀ x ∈ table, x < 256) ∧
    (v.is310 = true → ∀ x ∈ LT.bytesToItems table, x.bc % 2 = 0 ∧ x.bc ≠ 255) ∧
    (v.is310 = false → ∀ cs, LT.collapse false (LT.bytesToItems table) = some cs → ∀ c ∈ cs, c.bc % 2 = 0) := by
  rw [emit_lines, unitsAt_map (fun l => l.map (· - fln))] at ht
  cases hv : v.is310 with
  | true =>
    rw [hv] at ht
    have hne' : (unitLines is as).map (fun l => l.map (· - fln)) ≠ [] := by
      cases is with
      | nil => exact absurd rfl hne
      | cons i is =>
        cases as with
        | nil => simp at hl
        | cons a as =>
          have := sizeOfI_pos i.nov a
          simp only [unitLines, List.map_append, List.map_replicate, ne_eq, List.append_eq_nil_iff, List.replicate_eq_nil_iff, not_and]
          omega
    obtain ⟨l0, ls, hls⟩ := List.exists_cons_of_ne_nil hne'
    rw [hls] at ht
    obtain ⟨h1, h2, h3⟩ := encoded_table_wellformed_310 l0 ls extra table ht
    exact ⟨h1, h2, fun _ => h3, fun h => (by cases h)⟩
  | false =>
    rw [hv] at ht
    obtain ⟨ls, hls⟩ := unitLines_some fln is as (hsome hv)
    rw [hls] at ht
    obtain ⟨h1, h2, h3⟩ := encoded_table_wellformed_lnotab ls extra table ht
    exact ⟨h1, h2, fun h => (by cases h), fun _ => h3⟩

end CDV
