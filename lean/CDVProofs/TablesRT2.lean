import CDVProofs.TablesRT
import CDVProofs.HeaderKind
import CDVProofs.DecodeOps
import CDVProofs.Props.C09
import CDVProofs.EncodeSpec
/-! # The operand tables survive `from_code` → `to_code`: the four tables in lock step -/
namespace CDV
open CDV.Props.C09 (keyEquiv_str keyEquiv_const)

theorem foundIndex_nat {α} (keyEq : α → α → Bool) (d d' : ToArgs α) (x : Int) (a : α) (ov : Option Nat)
    (h : d.foundIndex keyEq x = .ok (d', a, ov)) : ∃ idx : Nat, x = (idx : Int) ∧ d.foundIndex keyEq (idx : Int) = .ok (d', a, ov) := by
  have hx : 0 ≤ x := by
    by_cases hx : x < 0
    · simp [ToArgs.foundIndex, hx, throw, throwThe, MonadExceptOf.throw] at h
    · omega
  have hcast : ((x.toNat : Nat) : Int) = x := Int.toNat_of_nonneg hx
  exact ⟨x.toNat, hcast.symm, by rw [hcast]; exact h⟩

/-- on decoded operands the docstring special case of `from_arg` never fires: a string decoded without an override as
    the first constant sits at index 0, and then it *is* the docstring -/
theorem fromConstArg_eq_add (tp : Option Function) (K : List Const) (hdoc : ∀ f, tp = some f → f.doc = firstStr K)
    (d : ToArgs Const) (e : FromArgs Const) (hs : Sim Const.keyEq K d e) (idx : Nat) (d' : ToArgs Const) (a : Const) (ov : Option Nat)
    (h : d.foundIndex Const.keyEq (idx : Int) = .ok (d', a, ov)) :
    fromConstArg tp e a ov = e.add Const.keyEq a ov := by
  unfold fromConstArg
  dsimp only
  cases tp with
  | none => simp only [Bool.false_and, Bool.false_eq_true, if_false]
  | some f =>
    dsimp only
    rw [ite_eq_right_iff]
    intro hc
    · exfalso
      simp only [Bool.and_eq_true] at hc
      obtain ⟨⟨⟨h1, h2⟩, h3⟩, h4⟩ := hc
      simp only [Option.isNone_iff_eq_none] at h1 h4
      subst h4
      have hlen : d.found.length = 0 := by
        have := congrArg List.length hs.idx
        simp only [List.length_map] at this
        have h2' : e.iToArg.length = 0 := by simpa [FromArgs.len] using h2
        omega
      have hnil : d.found = [] := List.eq_nil_of_length_eq_zero hlen
      obtain ⟨hget, _, hfound, _, _⟩ := foundIndex_ok d idx d' a none h
      have hov := foundIndex_override d idx d' a none h
      rw [hnil] at hfound
      simp only [assoc?, List.nil_append, List.length_nil] at hfound
      by_cases hw : ((assoc? idx d'.found).getD 0 != idx || keyElsewhere Const.keyEq a idx d.keyToIndex) = true
      · rw [if_pos hw] at hov; cases hov
      · simp only [Bool.or_eq_true, not_or, hfound, assoc?, if_true, Option.getD_some] at hw
        have hidx : idx = 0 := by
          have := hw.1
          simp only [bne_iff_ne, ne_eq, Decidable.not_not] at this
          exact this.symm
        subst hidx
        rw [hs.dargs] at hget
        have hd := hdoc f rfl
        rw [h1] at hd
        cases a with
        | code c => simp at h3
        | inner i =>
          cases i <;> simp at h3
          all_goals
            cases K with
            | nil => simp at hget
            | cons k0 K' =>
              simp only [List.getElem?_cons_zero, Option.some.injEq] at hget
              subst hget
              simp [firstStr] at hd

/-- decoder state and encoder state describe the same four tables (the cell table of the encoder is already complete:
    `blocks_to_bytes` collects the cells in a first pass) -/
structure SimSt (names varnames cellvars : List PStr) (K : List Const) (st : DecSt) (est : EncSt) : Prop where
  names : Sim strEq names st.names est.names
  varnames : Sim strEq varnames st.varnames est.varnames
  consts : Sim Const.keyEq K st.consts est.consts
  cells : TableComplete strEq cellvars est.cellvars
  cargs : st.cellvars.args = cellvars

theorem indexOfStr_of_get (s : PStr) : ∀ (l : List PStr) (k : Nat), l[k]? = some s → ∃ i, indexOfStr s l = some i
  | [], k, h => by simp at h
  | y :: ys, k, h => by
    unfold indexOfStr
    by_cases hy : (s == y) = true
    · exact ⟨0, by simp [hy]⟩
    · cases k with
      | zero => simp at h; subst h; simp at hy
      | succ k =>
        simp only [List.getElem?_cons_succ] at h
        obtain ⟨i, hi⟩ := indexOfStr_of_get s ys k h
        exact ⟨i + 1, by simp [hy, hi]⟩

/-- `a'` is `a`, or both are jumps (block grouping re-targets jumps; `from_arg` ignores the target) -/
def SameOrJump (a a' : Arg) : Prop := a' = a ∨ ((∃ t r, a = .jump t r) ∧ (∃ t r, a' = .jump t r))

/-- **one instruction**: what `to_arg` decoded, `from_arg` resolves against tables that stay in step -/
theorem toArg_fromArg (v : Ver) (T : OpTable) (fv : List PStr) (tp : Option Function) (names varnames cellvars : List PStr) (K : List Const)
    (hdoc : ∀ f, tp = some f → f.doc = firstStr K)
    (st st' : DecSt) (est : EncSt) (i : RawI) (arg arg' : Arg) (hs : SimSt names varnames cellvars K st est)
    (h : toArg v T fv st i = .ok (st', arg)) (hj : SameOrJump arg arg') :
    ∃ est' x, fromArg tp fv est arg' = .ok (est', x) ∧ SimSt names varnames cellvars K st' est' ∧
      ((∀ t r, arg ≠ .jump t r) → cellvars.Nodup → fv.Nodup → x = i.arg) := by
  have hjump : ∀ t r, arg = .jump t r → st' = st → ∃ est' x, fromArg tp fv est arg' = .ok (est', x) ∧ SimSt names varnames cellvars K st' est' ∧
      ((∀ t r, arg ≠ .jump t r) → cellvars.Nodup → fv.Nodup → x = i.arg) := by
    intro t r ha hst
    rcases hj with rfl | ⟨_, t', r', rfl⟩
    · subst ha; subst hst; exact ⟨est, 1, rfl, hs, fun hn => absurd rfl (hn _ _)⟩
    · subst hst; exact ⟨est, 1, rfl, hs, fun hn => absurd ha (hn _ _)⟩
  have hnoj : (∀ t r, arg ≠ .jump t r) → arg' = arg := by
    intro hn
    rcases hj with rfl | ⟨⟨t, r, ha⟩, _⟩
    · rfl
    · exact absurd ha (hn t r)
  unfold toArg at h
  cases hc : T.get i.op <;> simp only [hc] at h
  · -- jabs
    cases hv : v.is310 <;> simp only [hv, if_true, if_false, Bool.false_eq_true] at h <;>
    · split at h
      · simp [throw, throwThe, MonadExceptOf.throw] at h
      · simp only [pure, Except.pure, Except.ok.injEq, Prod.mk.injEq] at h
        obtain ⟨rfl, rfl⟩ := h
        exact hjump _ _ rfl rfl
  · -- jrel
    cases hv : v.is310 <;> simp only [hv, if_true, if_false, Bool.false_eq_true] at h <;>
    · split at h
      · simp [throw, throwThe, MonadExceptOf.throw] at h
      · simp only [pure, Except.pure, Except.ok.injEq, Prod.mk.injEq] at h
        obtain ⟨rfl, rfl⟩ := h
        exact hjump _ _ rfl rfl
  · -- name
    obtain ⟨⟨t, a, o⟩, hf, h⟩ := bind_ok h
    simp only [pure, Except.pure, Except.ok.injEq, Prod.mk.injEq] at h
    obtain ⟨rfl, rfl⟩ := h
    rw [hnoj (by intro t r hh; cases hh)]
    obtain ⟨idx, hidx, hf'⟩ := foundIndex_nat _ _ _ _ _ _ hf
    obtain ⟨e', hadd, hs'⟩ := sim_step keyEquiv_str names _ _ hs.names idx _ _ _ hf'
    refine ⟨{ est with names := e' }, idx, ?_, ⟨hs', hs.varnames, hs.consts, hs.cells, hs.cargs⟩, fun _ _ _ => hidx.symm⟩
    simp [fromArg, hadd, bind, Except.bind, pure, Except.pure]
  · -- loc
    obtain ⟨⟨t, a, o⟩, hf, h⟩ := bind_ok h
    simp only [pure, Except.pure, Except.ok.injEq, Prod.mk.injEq] at h
    obtain ⟨rfl, rfl⟩ := h
    rw [hnoj (by intro t r hh; cases hh)]
    obtain ⟨idx, hidx, hf'⟩ := foundIndex_nat _ _ _ _ _ _ hf
    obtain ⟨e', hadd, hs'⟩ := sim_step keyEquiv_str varnames _ _ hs.varnames idx _ _ _ hf'
    refine ⟨{ est with varnames := e' }, idx, ?_, ⟨hs.names, hs', hs.consts, hs.cells, hs.cargs⟩, fun _ _ _ => hidx.symm⟩
    simp [fromArg, hadd, bind, Except.bind, pure, Except.pure]
  · -- free
    split at h
    · obtain ⟨⟨t, a, o⟩, hf, h⟩ := bind_ok h
      simp only [pure, Except.pure, Except.ok.injEq, Prod.mk.injEq] at h
      obtain ⟨rfl, rfl⟩ := h
      rw [hnoj (by intro t r hh; cases hh)]
      obtain ⟨idx, hidx, hf'⟩ := foundIndex_nat _ _ _ _ _ _ hf
      obtain ⟨hget, hargs, _⟩ := foundIndex_ok _ idx _ _ _ hf'
      rw [hs.cargs] at hget
      obtain ⟨e', j, hadd, hc', b, hb, hab⟩ := complete_add keyEquiv_str cellvars est.cellvars hs.cells idx a o hget (ov_cases _ idx _ _ _ hf')
      refine ⟨{ est with cellvars := e' }, j, ?_, ⟨hs.names, hs.varnames, hs.consts, hc', ?_⟩, ?_⟩
      · simp [fromArg, hadd, bind, Except.bind, pure, Except.pure]
      · dsimp only; rw [hargs]; exact hs.cargs
      · intro _ hcn _
        have hab' : a = b := by simpa [strEq] using hab
        subst hab'
        have hlt : idx < cellvars.length := (List.getElem?_eq_some_iff.mp hget).1
        have := (List.getElem?_inj hlt hcn).mp (hget.trans hb.symm)
        rw [hidx, this]
    · split at h
      · next s hsome =>
        simp only [pure, Except.pure, Except.ok.injEq, Prod.mk.injEq] at h
        obtain ⟨rfl, rfl⟩ := h
        rw [hnoj (by intro t r hh; cases hh)]
        next hge =>
        obtain ⟨k, hk⟩ := indexOfStr_of_get s fv _ hsome
        refine ⟨est, ((est.cellvars.len + k : Nat) : Int), by simp [fromArg, hk, pure, Except.pure], hs, ?_⟩
        intro _ _ hfn
        have hk' := indexOfStr_get s fv k hk
        have hlt : k < fv.length := (List.getElem?_eq_some_iff.mp hk').1
        have hkeq := (List.getElem?_inj hlt hfn).mp (hk'.trans hsome.symm)
        have hlen : est.cellvars.len = st.cellvars.args.length := by
          rw [hs.cargs]; exact hs.cells.len
        rw [hlen, hkeq]
        omega
      · simp [throw, throwThe, MonadExceptOf.throw] at h
  · -- const
    obtain ⟨⟨t, a, o⟩, hf, h⟩ := bind_ok h
    simp only [pure, Except.pure, Except.ok.injEq, Prod.mk.injEq] at h
    obtain ⟨rfl, rfl⟩ := h
    rw [hnoj (by intro t r hh; cases hh)]
    obtain ⟨idx, hidx, hf'⟩ := foundIndex_nat _ _ _ _ _ _ hf
    obtain ⟨e', hadd, hs'⟩ := sim_step keyEquiv_const K _ _ hs.consts idx _ _ _ hf'
    refine ⟨{ est with consts := e' }, idx, ?_, ⟨hs.names, hs.varnames, hs', hs.cells, hs.cargs⟩, fun _ _ _ => hidx.symm⟩
    simp [fromArg, fromConstArg_eq_add tp K hdoc _ _ hs.consts idx _ _ _ hf', hadd, bind, Except.bind, pure, Except.pure]
  all_goals
    simp only [pure, Except.pure, Except.ok.injEq, Prod.mk.injEq] at h
    obtain ⟨rfl, rfl⟩ := h
    rw [hnoj (by intro t r hh; cases hh)]
    exact ⟨est, _, rfl, hs, fun _ _ _ => rfl⟩

theorem collectCells_cons_other (t : FromArgs PStr) (a : Arg) (rest : List Arg) (h : ∀ s o, a ≠ .cell s o) :
    collectCells t (a :: rest) = collectCells t rest := by
  cases a with
  | cell s o => exact absurd rfl (h s o)
  | _ => rfl

/-- first pass over one instruction: only a cell operand touches the cell table -/
theorem toArg_cells (v : Ver) (T : OpTable) (fv : List PStr) (cellvars : List PStr)
    (st st' : DecSt) (e : FromArgs PStr) (i : RawI) (arg arg' : Arg) (hs : Sim strEq cellvars st.cellvars e)
    (h : toArg v T fv st i = .ok (st', arg)) (hj : SameOrJump arg arg') :
    ∃ e', (∀ rest, collectCells e (arg' :: rest) = collectCells e' rest) ∧ Sim strEq cellvars st'.cellvars e' := by
  have hjump : ∀ t r, arg = .jump t r → st' = st → ∃ e', (∀ rest, collectCells e (arg' :: rest) = collectCells e' rest) ∧ Sim strEq cellvars st'.cellvars e' := by
    intro t r ha hst
    subst hst
    refine ⟨e, ?_, hs⟩
    intro rest
    rcases hj with rfl | ⟨_, t', r', rfl⟩
    · subst ha; rfl
    · rfl
  have hnoj : (∀ t r, arg ≠ .jump t r) → arg' = arg := by
    intro hn
    rcases hj with rfl | ⟨⟨t, r, ha⟩, _⟩
    · rfl
    · exact absurd ha (hn t r)
  unfold toArg at h
  cases hc : T.get i.op <;> simp only [hc] at h
  · cases hv : v.is310 <;> simp only [hv, if_true, if_false, Bool.false_eq_true] at h <;>
    · split at h
      · simp [throw, throwThe, MonadExceptOf.throw] at h
      · simp only [pure, Except.pure, Except.ok.injEq, Prod.mk.injEq] at h
        obtain ⟨rfl, rfl⟩ := h
        exact hjump _ _ rfl rfl
  · cases hv : v.is310 <;> simp only [hv, if_true, if_false, Bool.false_eq_true] at h <;>
    · split at h
      · simp [throw, throwThe, MonadExceptOf.throw] at h
      · simp only [pure, Except.pure, Except.ok.injEq, Prod.mk.injEq] at h
        obtain ⟨rfl, rfl⟩ := h
        exact hjump _ _ rfl rfl
  · obtain ⟨⟨t, a, o⟩, hf, h⟩ := bind_ok h
    simp only [pure, Except.pure, Except.ok.injEq, Prod.mk.injEq] at h
    obtain ⟨rfl, rfl⟩ := h
    rw [hnoj (by intro t r hh; cases hh)]
    exact ⟨e, fun rest => collectCells_cons_other e _ rest (by intro s o hh; cases hh), hs⟩
  · obtain ⟨⟨t, a, o⟩, hf, h⟩ := bind_ok h
    simp only [pure, Except.pure, Except.ok.injEq, Prod.mk.injEq] at h
    obtain ⟨rfl, rfl⟩ := h
    rw [hnoj (by intro t r hh; cases hh)]
    exact ⟨e, fun rest => collectCells_cons_other e _ rest (by intro s o hh; cases hh), hs⟩
  · split at h
    · obtain ⟨⟨t, a, o⟩, hf, h⟩ := bind_ok h
      simp only [pure, Except.pure, Except.ok.injEq, Prod.mk.injEq] at h
      obtain ⟨rfl, rfl⟩ := h
      rw [hnoj (by intro t r hh; cases hh)]
      obtain ⟨idx, _, hf'⟩ := foundIndex_nat _ _ _ _ _ _ hf
      obtain ⟨e', hadd, hs'⟩ := sim_step keyEquiv_str cellvars _ _ hs idx _ _ _ hf'
      refine ⟨e', ?_, hs'⟩
      intro rest
      simp [collectCells, hadd, bind, Except.bind]
    · split at h
      · simp only [pure, Except.pure, Except.ok.injEq, Prod.mk.injEq] at h
        obtain ⟨rfl, rfl⟩ := h
        rw [hnoj (by intro t r hh; cases hh)]
        exact ⟨e, fun rest => collectCells_cons_other e _ rest (by intro s o hh; cases hh), hs⟩
      · simp [throw, throwThe, MonadExceptOf.throw] at h
  · obtain ⟨⟨t, a, o⟩, hf, h⟩ := bind_ok h
    simp only [pure, Except.pure, Except.ok.injEq, Prod.mk.injEq] at h
    obtain ⟨rfl, rfl⟩ := h
    rw [hnoj (by intro t r hh; cases hh)]
    exact ⟨e, fun rest => collectCells_cons_other e _ rest (by intro s o hh; cases hh), hs⟩
  all_goals
    simp only [pure, Except.pure, Except.ok.injEq, Prod.mk.injEq] at h
    obtain ⟨rfl, rfl⟩ := h
    rw [hnoj (by intro t r hh; cases hh)]
    exact ⟨e, fun rest => collectCells_cons_other e _ rest (by intro s o hh; cases hh), hs⟩

theorem retarget_sameOrJump (tg : List Nat) (ins : Instr) : SameOrJump ins.arg (retarget tg ins).arg := by
  obtain ⟨op, a, n, l, o⟩ := ins
  cases a with
  | jump t r => exact Or.inr ⟨⟨t, r, rfl⟩, ⟨_, r, rfl⟩⟩
  | _ => exact Or.inl rfl

/-- **all instructions, second pass** (`resolveArgs`): the tables stay in step, and every operand that is not a jump is
    resolved to the operand the instruction had in the bytecode -/
theorem decodeInstrs_resolve (v : Ver) (T : OpTable) (fv : List PStr) (tp : Option Function) (names varnames cellvars : List PStr) (K : List Const)
    (hdoc : ∀ f, tp = some f → f.doc = firstStr K) (tg : List Nat) :
    ∀ (raws : List RawI) (st st' : DecSt) (est : EncSt) (ois : List (Nat × Instr)),
    SimSt names varnames cellvars K st est → decodeInstrs v T fv st raws = .ok (st', ois) →
    ∃ est' xs, resolveArgs tp fv est (ois.map (fun p => retarget tg p.2)) = .ok (est', xs) ∧ SimSt names varnames cellvars K st' est' ∧
      xs.length = raws.length ∧
      ∀ (j : Nat) (r : RawI) (p : Nat × Instr) (x : Int), raws[j]? = some r → ois[j]? = some p → xs[j]? = some x →
        isJump p.2.arg = false → cellvars.Nodup → fv.Nodup → x = r.arg := by
  intro raws
  induction raws with
  | nil =>
    intro st st' est ois hs h
    simp only [decodeInstrs, pure, Except.pure, Except.ok.injEq, Prod.mk.injEq] at h
    obtain ⟨rfl, rfl⟩ := h
    exact ⟨est, [], rfl, hs, rfl, fun j r p x hr => by simp at hr⟩
  | cons r0 raws ih =>
    intro st st' est ois hs h
    rw [decodeInstrs] at h
    obtain ⟨⟨st1, arg⟩, h1, h⟩ := bind_ok h
    obtain ⟨⟨lm, line, offs⟩, h2, h⟩ := bind_ok h
    obtain ⟨⟨st2, r⟩, h3, h⟩ := bind_ok h
    simp only [pure, Except.pure, Except.ok.injEq, Prod.mk.injEq] at h
    obtain ⟨rfl, rfl⟩ := h
    obtain ⟨est1, x, hx, hs1, hval⟩ := toArg_fromArg v T fv tp names varnames cellvars K hdoc st st1 est r0 arg _ hs h1
      (retarget_sameOrJump tg (Instr.mk r0.op arg _ line offs))
    have hs1' : SimSt names varnames cellvars K { st1 with lm := lm } est1 := ⟨hs1.names, hs1.varnames, hs1.consts, hs1.cells, hs1.cargs⟩
    obtain ⟨est2, xs, hxs, hs2, hlen, hvals⟩ := ih _ _ est1 _ hs1' h3
    refine ⟨est2, x :: xs, ?_, hs2, by simp [hlen], ?_⟩
    · simp only [List.map_cons, resolveArgs]
      rw [hx]
      simp only [bind, Except.bind]
      rw [hxs]
      rfl
    · intro j rj p y hr hp hy hnj hcn hfn
      cases j with
      | zero =>
        simp only [List.getElem?_cons_zero, Option.some.injEq] at hr hp hy
        subst hr; subst hp; subst hy
        apply hval _ hcn hfn
        intro t rr hh
        simp only [Instr.arg] at hnj
        rw [hh] at hnj
        simp [isJump] at hnj
      | succ j =>
        simp only [List.getElem?_cons_succ] at hr hp hy
        exact hvals j rj p y hr hp hy hnj hcn hfn

/-- **all instructions, first pass** (`collectCells`) -/
theorem decodeInstrs_collect (v : Ver) (T : OpTable) (fv : List PStr) (cellvars : List PStr) (tg : List Nat) :
    ∀ (raws : List RawI) (st st' : DecSt) (e : FromArgs PStr) (ois : List (Nat × Instr)),
    Sim strEq cellvars st.cellvars e → decodeInstrs v T fv st raws = .ok (st', ois) →
    ∃ e', (∀ rest, collectCells e ((ois.map (fun p => retarget tg p.2)).map Instr.arg ++ rest) = collectCells e' rest) ∧
      Sim strEq cellvars st'.cellvars e' := by
  intro raws
  induction raws with
  | nil =>
    intro st st' e ois hs h
    simp only [decodeInstrs, pure, Except.pure, Except.ok.injEq, Prod.mk.injEq] at h
    obtain ⟨rfl, rfl⟩ := h
    exact ⟨e, fun rest => rfl, hs⟩
  | cons r0 raws ih =>
    intro st st' e ois hs h
    rw [decodeInstrs] at h
    obtain ⟨⟨st1, arg⟩, h1, h⟩ := bind_ok h
    obtain ⟨⟨lm, line, offs⟩, h2, h⟩ := bind_ok h
    obtain ⟨⟨st2, r⟩, h3, h⟩ := bind_ok h
    simp only [pure, Except.pure, Except.ok.injEq, Prod.mk.injEq] at h
    obtain ⟨rfl, rfl⟩ := h
    obtain ⟨e1, hx, hs1⟩ := toArg_cells v T fv cellvars st st1 e r0 arg _ hs h1
      (retarget_sameOrJump tg (Instr.mk r0.op arg _ line offs))
    obtain ⟨e2, hxs, hs2⟩ := ih { st1 with lm := lm } _ e1 _ hs1 h3
    refine ⟨e2, ?_, hs2⟩
    intro rest
    simp only [List.map_cons, List.cons_append]
    rw [hx, hxs]

end CDV
