import CDVProofs.LineTable
import CDV.Spec
/-! Stage 3 of the line-table codec, decoding direction, 3.10 format (`co_linetable`): the per-offset lines that
    `items_to_mapping` produces from the collapsed rows are the lines CPython's own reader (`Spec.lineOfLT`: `co_lines()`
    / `PyCode_Addr2Line`) assigns to those offsets when it reads the table bytes. -/
namespace CDV.LT
open CDV

/-- CPython's 3.10 reader on rows: `inl r` = the offset lies in a row's range (`r` its line, `none` = no line);
    `inr (s, c)` = not found, with the reader's state (range start, computed line) after the rows -/
def scan : List Item → Nat → Nat → Int → Sum (Option Int) (Nat × Int)
  | [], _, s, c => .inr (s, c)
  | r :: rest, o, s, c =>
    let c' := if r.line == -128 then c else c + r.line
    if s ≤ o ∧ o < s + r.bc then .inl (if r.line == -128 then none else some c') else scan rest o (s + r.bc) c'

theorem scan_append : ∀ (A B : List Item) (o s : Nat) (c : Int),
    scan (A ++ B) o s c = match scan A o s c with | .inl r => .inl r | .inr (s', c') => scan B o s' c' := by
  intro A
  induction A with
  | nil => intro B o s c; simp [scan]
  | cons r A ih =>
    intro B o s c
    simp only [List.cons_append, scan]
    split
    · rfl
    · exact ih B o _ _

theorem signed_unsigned (l : Int) (h1 : -128 ≤ l) (h2 : l ≤ 127) : signed (unsigned l) = l := by
  unfold signed unsigned
  split <;> omega

theorem lineOfLT_eq_scan : ∀ (rows : List Item) (o s : Nat) (c : Int), (∀ r ∈ rows, -128 ≤ r.line ∧ r.line ≤ 127) →
    Spec.lineOfLT (itemsToBytes rows) o s c = (match scan rows o s c with | .inl r => r | .inr _ => none) := by
  intro rows
  induction rows with
  | nil => intro o s c _; simp [itemsToBytes, Spec.lineOfLT, scan]
  | cons r rows ih =>
    intro o s c h
    have hr := h r (by simp)
    simp only [itemsToBytes, Spec.lineOfLT, scan, signed_unsigned r.line hr.1 hr.2]
    split
    · rfl
    · exact ih o _ _ (fun x hx => h x (by simp [hx]))

/-! ### what the rows of one expanded item mean to the reader -/

theorem scan_expUp : ∀ (n : Nat) (l : Int) (bc : Nat) (R : List Item) (o s : Nat) (c : Int), l.toNat = n →
    scan ((expUp true l bc).1 ++ R) o s c = scan R o s (c + (l - (expUp true l bc).2.1)) := by
  intro n
  induction n using Nat.strongRecOn with
  | _ n ih =>
    intro l bc R o s c hn
    by_cases hb : l > 127
    · rw [expUp_step _ _ _ hb]
      simp only [List.cons_append, scan, if_true, Nat.add_zero]
      have h0 : ¬ (s ≤ o ∧ o < s) := by omega
      have h1 : ((127 : Int) == -128) = false := by decide
      simp only [h0, h1, if_false, Bool.false_eq_true]
      rw [ih (l - 127).toNat (by omega) (l - 127) bc R o s _ rfl]
      congr 1; omega
    · rw [expUp_small _ _ _ (by omega)]; simp

theorem minLine_true : minLine true = -127 := rfl

theorem scan_expDown : ∀ (n : Nat) (l : Int) (bc : Nat) (R : List Item) (o s : Nat) (c : Int), (-l).toNat = n →
    scan ((expDown true l bc).1 ++ R) o s c = scan R o s (c + (l - (expDown true l bc).2.1)) := by
  intro n
  induction n using Nat.strongRecOn with
  | _ n ih =>
    intro l bc R o s c hn
    by_cases hb : l < minLine true
    · rw [expDown_step _ _ _ hb]
      rw [minLine_true] at hb ⊢
      simp only [List.cons_append, scan, if_true, Nat.add_zero]
      have h0 : ¬ (s ≤ o ∧ o < s) := by omega
      have h1 : ((-127 : Int) == -128) = false := by decide
      simp only [h0, h1, if_false, Bool.false_eq_true]
      rw [ih (-(l - -127)).toNat (by omega) (l - -127) bc R o s _ rfl]
      congr 1; omega
    · rw [expDown_small _ _ _ (by omega)]; simp

/-- `expand_line` (3.10): zero-width rows that move the computed line; the remaining delta fits one row -/
theorem scan_expLine (l : Int) (bc : Nat) (R : List Item) (o s : Nat) (c : Int) :
    ∃ l', (expLine true (some l) bc).2.1 = some l' ∧ -127 ≤ l' ∧ l' ≤ 127 ∧ (expLine true (some l) bc).2.2 = bc ∧
      ((expLine true (some l) bc).1 = [] → l' = l) ∧
      scan ((expLine true (some l) bc).1 ++ R) o s c = scan R o s (c + (l - l')) := by
  simp only [expLine]
  refine ⟨(expDown true (expUp true l bc).2.1 (expUp true l bc).2.2).2.1, rfl, ?_, ?_, ?_, ?_, ?_⟩
  · by_cases hp : 0 < l
    · have h1 := expUp_line_pos true _ l bc rfl hp
      rw [expDown_small _ _ _ (by rw [minLine_true]; omega)]; simp; omega
    · by_cases hz : l = 0
      · subst hz
        rw [expUp_small _ _ _ (by omega), expDown_small _ _ _ (by rw [minLine_true]; simp)]; simp
      · rw [expUp_small _ _ _ (by omega)]
        have h2 := expDown_line_neg true _ l bc rfl (by omega)
        rw [minLine_true] at h2; simp; omega
  · by_cases hp : 0 < l
    · have h1 := expUp_line_pos true _ l bc rfl hp
      rw [expDown_small _ _ _ (by rw [minLine_true]; omega)]; simp; omega
    · rw [expUp_small _ _ _ (by omega)]
      by_cases hz : l = 0
      · subst hz; rw [expDown_small _ _ _ (by rw [minLine_true]; simp)]; simp
      · have h2 := expDown_line_neg true _ l bc rfl (by omega)
        simp; omega
  · rw [expDown_bc_LT _ _ _ rfl, expUp_bc_LT _ _ _ rfl]
  · intro hnil
    simp only [List.append_eq_nil_iff] at hnil
    have hu : ¬ l > 127 := by
      intro hb; rw [expUp_step _ _ _ hb] at hnil; simp at hnil
    rw [expUp_small _ _ _ (by omega)] at hnil ⊢
    have hd : ¬ l < minLine true := by
      intro hb; rw [expDown_step _ _ _ hb] at hnil; simp at hnil
    rw [expDown_small _ _ _ (by dsimp only; omega)]
  · rw [List.append_assoc, scan_expUp _ l bc _ o s c rfl, scan_expDown _ _ _ R o s _ rfl]
    congr 1; omega

theorem expBc_le (isLT) : ∀ (bc : Nat) (line), (expBc isLT line bc).2.2 ≤ bc := by
  intro bc
  induction bc using Nat.strongRecOn with
  | _ bc ih =>
    intro line
    by_cases hb : bc > maxBc isLT
    · rw [expBc_step _ _ _ hb]
      have hm : 0 < maxBc isLT := by unfold maxBc; split <;> decide
      exact Nat.le_trans (ih (bc - maxBc isLT) (by omega) _) (Nat.sub_le _ _)
    · rw [expBc_small _ _ _ (by omega)]; exact Nat.le_refl _

theorem maxBc_true : maxBc true = 254 := rfl

theorem expBc_step_none (bc : Nat) (hb : bc > 254) :
    expBc true none bc = ((⟨-128, 254⟩ : Item) :: (expBc true none (bc - 254)).1, (expBc true none (bc - 254)).2) := by
  rw [expBc_step true none bc (by rw [maxBc_true]; exact hb)]; rfl

theorem expBc_step_some (l : Int) (bc : Nat) (hb : bc > 254) :
    expBc true (some l) bc = ((⟨l, 254⟩ : Item) :: (expBc true (some 0) (bc - 254)).1, (expBc true (some 0) (bc - 254)).2) := by
  rw [expBc_step true (some l) bc (by rw [maxBc_true]; exact hb)]; rfl

/-- `expand_bytecode` (3.10) of a range without line: rows `(254, -128)` -/
theorem scan_expBc_none : ∀ (bc : Nat) (R : List Item) (o s : Nat) (c : Int),
    (expBc true none bc).2.1 = none ∧
    scan ((expBc true none bc).1 ++ R) o s c =
      (if s ≤ o ∧ o < s + (bc - (expBc true none bc).2.2) then .inl none
       else scan R o (s + (bc - (expBc true none bc).2.2)) c) := by
  intro bc
  induction bc using Nat.strongRecOn with
  | _ bc ih =>
    intro R o s c
    by_cases hb : bc > 254
    · have hle := expBc_le true (bc - 254) none
      have ih' := ih (bc - 254) (by omega) R o (s + 254) c
      rw [expBc_step_none bc hb]
      generalize expBc true none (bc - 254) = X at *
      obtain ⟨rows', l2, b2⟩ := X
      dsimp only at *
      refine ⟨ih'.1, ?_⟩
      simp only [List.cons_append, scan]
      have h1 : ((-128 : Int) == -128) = true := by decide
      simp only [h1, if_true]
      rw [ih'.2]
      by_cases hr : s ≤ o ∧ o < s + 254
      · have : s ≤ o ∧ o < s + (bc - b2) := by omega
        simp [hr, this]
      · simp only [hr, if_false]
        by_cases hr2 : s + 254 ≤ o ∧ o < s + 254 + (bc - 254 - b2)
        · have : s ≤ o ∧ o < s + (bc - b2) := by omega
          simp [hr2, this]
        · have : ¬ (s ≤ o ∧ o < s + (bc - b2)) := by omega
          simp only [hr2, this, if_false]
          have e : s + 254 + (bc - 254 - b2) = s + (bc - b2) := by omega
          rw [e]
    · rw [expBc_small _ _ _ (by rw [maxBc_true]; omega)]
      simp
      intro h1 h2; omega

/-- `expand_bytecode` (3.10) of a range with a line: the first row carries the line delta, the others delta 0 -/
theorem scan_expBc_some : ∀ (bc : Nat) (l : Int) (R : List Item) (o s : Nat) (c : Int), l ≠ -128 →
    (expBc true (some l) bc).2.1 = (if (expBc true (some l) bc).1 = [] then some l else some 0) ∧
    scan ((expBc true (some l) bc).1 ++ R) o s c =
      (if s ≤ o ∧ o < s + (bc - (expBc true (some l) bc).2.2) then .inl (some (c + l))
       else scan R o (s + (bc - (expBc true (some l) bc).2.2)) (if (expBc true (some l) bc).1 = [] then c else c + l)) := by
  intro bc
  induction bc using Nat.strongRecOn with
  | _ bc ih =>
    intro l R o s c hl
    by_cases hb : bc > 254
    · have hle := expBc_le true (bc - 254) (some 0)
      have ih' := ih (bc - 254) (by omega) 0 R o (s + 254) (c + l) (by decide)
      rw [expBc_step_some l bc hb]
      generalize expBc true (some 0) (bc - 254) = X at *
      obtain ⟨rows', l2, b2⟩ := X
      dsimp only at *
      refine ⟨by simp only [List.cons_ne_nil, if_false]; rw [ih'.1]; split <;> rfl, ?_⟩
      simp only [List.cons_append, scan, List.cons_ne_nil, if_false]
      have h1 : (l == -128) = false := by simpa using hl
      simp only [h1, if_false, Bool.false_eq_true]
      rw [ih'.2]
      simp only [Int.add_zero]
      by_cases hr : s ≤ o ∧ o < s + 254
      · have : s ≤ o ∧ o < s + (bc - b2) := by omega
        simp [hr, this]
      · simp only [hr, if_false]
        by_cases hr2 : s + 254 ≤ o ∧ o < s + 254 + (bc - 254 - b2)
        · have : s ≤ o ∧ o < s + (bc - b2) := by omega
          simp [hr2, this]
        · have : ¬ (s ≤ o ∧ o < s + (bc - b2)) := by omega
          simp only [hr2, this, if_false]
          have e : s + 254 + (bc - 254 - b2) = s + (bc - b2) := by omega
          rw [e]
          split <;> rfl
    · rw [expBc_small _ _ _ (by rw [maxBc_true]; omega)]
      simp
      intro h1 h2; omega

/-- the reading of collapsed rows (3.10): the line, relative to the first line, of the range that contains `o` -/
def semLT : List CItem → Nat → Nat → Int → Sum (Option Int) (Nat × Int)
  | [], _, s, c => .inr (s, c)
  | it :: rest, o, s, c =>
    if s ≤ o ∧ o < s + it.bc then .inl (it.line.map (c + ·)) else semLT rest o (s + it.bc) (c + it.line.getD 0)

theorem scan_one (x : Int) (b : Nat) (R : List Item) (o s : Nat) (c : Int) (hx : x ≠ -128) :
    scan (⟨x, b⟩ :: R) o s c = if s ≤ o ∧ o < s + b then .inl (some (c + x)) else scan R o (s + b) (c + x) := by
  have h1 : (x == -128) = false := by simpa using hx
  simp [scan, h1]

theorem scan_one_none (b : Nat) (R : List Item) (o s : Nat) (c : Int) :
    scan (⟨-128, b⟩ :: R) o s c = if s ≤ o ∧ o < s + b then .inl none else scan R o (s + b) c := by
  have h1 : ((-128 : Int) == -128) = true := by decide
  simp [scan, h1]

/-- **One collapsed row means to CPython's reader what it says**: however `expand_items` splits it into table rows,
    the reader finds the row's line over exactly the row's byte range and afterwards is in the state the row describes. -/
theorem scan_expandOne (c : CItem) (R : List Item) (o s : Nat) (cur : Int) :
    scan (expandOne true c ++ R) o s cur =
      if s ≤ o ∧ o < s + c.bc then .inl (c.line.map (cur + ·)) else scan R o (s + c.bc) (cur + c.line.getD 0) := by
  obtain ⟨line, bc⟩ := c
  simp only [expandOne, if_true]
  cases line with
  | none =>
    simp only [expLine_none, List.nil_append]
    obtain ⟨h1, h2⟩ := scan_expBc_none bc ([⟨-128, (expBc true none bc).2.2⟩] ++ R) o s cur
    have hle := expBc_le true bc none
    have hfin : finish (expBc true none bc).1 (expBc true none bc).2.1 (expBc true none bc).2.2 =
        (expBc true none bc).1 ++ [⟨-128, (expBc true none bc).2.2⟩] := by
      rw [h1]; simp [finish, lineOr128, noLine_eq]
    rw [hfin, List.append_assoc, h2]
    generalize (expBc true none bc).2.2 = b2 at *
    simp only [List.singleton_append, scan_one_none, Option.map_none, Option.getD_none, Int.add_zero]
    by_cases hr : s ≤ o ∧ o < s + (bc - b2)
    · have : s ≤ o ∧ o < s + bc := by omega
      simp [hr, this]
    · simp only [hr, if_false]
      have e : s + (bc - b2) + b2 = s + bc := by omega
      rw [e]
      by_cases hr2 : s + (bc - b2) ≤ o ∧ o < s + bc
      · have : s ≤ o ∧ o < s + bc := by omega
        simp [hr2, this]
      · have : ¬ (s ≤ o ∧ o < s + bc) := by omega
        simp [hr2, this]
  | some l =>
    obtain ⟨l', hl1, hl2, hl3, hbc, hnil, _⟩ := scan_expLine l bc [] 0 0 0
    simp only [hl1, hbc]
    have hl128 : l' ≠ -128 := by omega
    -- the rows `finish` appends
    have hfin : ∃ tail, finish ((expLine true (some l) bc).1 ++ (expBc true (some l') bc).1) (expBc true (some l') bc).2.1 (expBc true (some l') bc).2.2 =
        (expLine true (some l) bc).1 ++ (expBc true (some l') bc).1 ++ tail ∧
        tail = (if ((expBc true (some l') bc).2.1 != some 0 || (expBc true (some l') bc).2.2 != 0 ||
                    ((expLine true (some l) bc).1 ++ (expBc true (some l') bc).1).isEmpty) = true
                then [⟨lineOr128 (expBc true (some l') bc).2.1, (expBc true (some l') bc).2.2⟩] else []) := by
      unfold finish
      split
      · exact ⟨_, rfl, rfl⟩
      · exact ⟨[], by simp, rfl⟩
    obtain ⟨tail, hfin, htail⟩ := hfin
    rw [hfin]
    have hscanL := (scan_expLine l bc ((expBc true (some l') bc).1 ++ (tail ++ R)) o s cur)
    obtain ⟨l'', hl1', _, _, _, _, hscan'⟩ := hscanL
    rw [hl1] at hl1'
    have hll : l'' = l' := by simpa using hl1'.symm
    subst hll
    simp only [List.append_assoc]
    rw [hscan']
    obtain ⟨hb1, hb2⟩ := scan_expBc_some bc l'' (tail ++ R) o s (cur + (l - l'')) hl128
    have hle := expBc_le true bc (some l'')
    have hne := expBc_bc_ne_zero true bc (some l'')
    rw [hb2]
    rw [hb1] at htail
    generalize hB : (expBc true (some l'') bc).2.2 = b2 at *
    generalize hRows : (expBc true (some l'') bc).1 = rows2 at *
    simp only [Option.map_some, Option.getD_some]
    by_cases hrows : rows2 = []
    · -- no full row: the single final row carries everything (or nothing is left to say)
      subst hrows
      have hb2eq : b2 = bc := by
        have : ¬ bc > 254 := by
          intro hb; rw [expBc_step_some l'' bc hb] at hRows; simp at hRows
        rw [expBc_small _ _ _ (by rw [maxBc_true]; omega)] at hB; exact hB.symm
      subst hb2eq
      simp only [if_true, Nat.sub_self, Nat.add_zero, List.append_nil, List.isEmpty_iff] at htail ⊢
      have hno : ¬ (s ≤ o ∧ o < s) := by omega
      simp only [hno, if_false]
      by_cases happ : (some l'' != some 0 || b2 != 0 || decide ((expLine true (some l) b2).1 = [])) = true
      · rw [if_pos (by simpa using happ)] at htail
        subst htail
        simp only [lineOr128, List.singleton_append]
        rw [scan_one _ _ _ _ _ _ hl128]
        have e : cur + (l - l'') + l'' = cur + l := by omega
        rw [e]
      · rw [if_neg (by simpa using happ)] at htail
        subst htail
        simp only [Bool.or_eq_true, bne_iff_ne, ne_eq, decide_eq_true_eq, not_or, Decidable.not_not] at happ
        obtain ⟨⟨h0, hbz⟩, _⟩ := happ
        have hl0 : l'' = 0 := by simpa using h0
        subst hl0; subst hbz
        have hno' : ¬ (s ≤ o ∧ o < s + 0) := by omega
        simp [hno']
        intro h1 h2; omega
    · -- at least one full row: the final row has delta 0 and is not empty
      simp only [hrows, if_false] at htail hb2 ⊢
      have hbpos : b2 ≠ 0 := by
        have hbc0 : bc ≠ 0 := by
          intro h0; subst h0
          rw [expBc_small _ _ _ (by rw [maxBc_true]; omega)] at hRows; exact hrows hRows.symm
        exact hne hbc0
      have happ : (some (0 : Int) != some 0 || b2 != 0 || ((expLine true (some l) bc).1 ++ rows2).isEmpty) = true := by
        simp [hbpos]
      rw [if_pos happ] at htail
      subst htail
      simp only [lineOr128, List.singleton_append]
      rw [scan_one _ _ _ _ _ _ (by decide)]
      have e1 : cur + (l - l'') + l'' = cur + l := by omega
      have e2 : s + (bc - b2) + b2 = s + bc := by omega
      simp only [e1, e2, Int.add_zero]
      by_cases hr : s ≤ o ∧ o < s + (bc - b2)
      · have : s ≤ o ∧ o < s + bc := by omega
        simp [hr, this]
      · simp only [hr, if_false]
        by_cases hr2 : s + (bc - b2) ≤ o ∧ o < s + bc
        · have : s ≤ o ∧ o < s + bc := by omega
          simp [hr2, this]
        · have : ¬ (s ≤ o ∧ o < s + bc) := by omega
          simp [hr2, this]

/-- **The expanded table reads as the collapsed rows say** (3.10), for every list of collapsed rows. -/
theorem scan_expand : ∀ (cs : List CItem) (o s : Nat) (c : Int), scan (expand true cs) o s c = semLT cs o s c := by
  intro cs
  induction cs with
  | nil => intro o s c; simp [expand, scan, semLT]
  | cons x xs ih =>
    intro o s c
    have : expand true (x :: xs) = expandOne true x ++ expand true xs := by simp [expand]
    rw [this, scan_expandOne, semLT]
    split
    · rfl
    · exact ih o _ _

/-! ### the per-offset mapping -/

theorem assoc?_app {β} (k : Nat) (A B : List (Nat × β)) :
    assoc? k (A ++ B) = match assoc? k A with | some x => some x | none => assoc? k B := by
  induction A with
  | nil => simp [assoc?]
  | cons p A ih =>
    obtain ⟨c, w⟩ := p
    simp only [List.cons_append, assoc?]
    split
    · rfl
    · exact ih

theorem assoc?_units {β} (o off n : Nat) (v : β) :
    assoc? o ((List.range n).map (fun k => (off + 2 * k, v))) = if ∃ k, k < n ∧ off + 2 * k = o then some v else none := by
  induction n with
  | zero => simp [assoc?]
  | succ n ih =>
    rw [List.range_succ, List.map_append, assoc?_app, ih]
    by_cases h : ∃ k, k < n ∧ off + 2 * k = o
    · obtain ⟨k, hk, he⟩ := h
      rw [if_pos ⟨k, hk, he⟩, if_pos ⟨k, by omega, he⟩]
    · rw [if_neg h]
      simp only [List.map_cons, List.map_nil, assoc?]
      by_cases hn : o = off + 2 * n
      · rw [if_pos hn, if_pos ⟨n, by omega, hn.symm⟩]
      · have : ¬ ∃ k, k < n + 1 ∧ off + 2 * k = o := by
          rintro ⟨k, hk, he⟩
          by_cases hkn : k = n
          · subst hkn; exact hn he.symm
          · exact h ⟨k, by omega, he⟩
        rw [if_neg hn, if_neg this]

/-- **`items_to_mapping` (3.10) lists, for every even offset, the line of the collapsed row that covers it.** -/
theorem mappingLT_lookup : ∀ (cs : List CItem) (o off : Nat) (cur : Int), (∀ c ∈ cs, c.bc % 2 = 0) → off % 2 = 0 → o % 2 = 0 →
    assoc? o (itemsToMappingLT cs off cur) = (match semLT cs o off cur with | .inl r => some r | .inr _ => none) := by
  intro cs
  induction cs with
  | nil => intro o off cur _ _ _; simp [itemsToMappingLT, semLT, assoc?]
  | cons it rest ih =>
    intro o off cur hev hoff ho
    have hbc : it.bc % 2 = 0 := hev it (by simp)
    obtain ⟨line, bc⟩ := it
    simp only at hbc
    simp only [itemsToMappingLT, semLT]
    rw [assoc?_app, assoc?_units]
    by_cases hr : off ≤ o ∧ o < off + bc
    · have : ∃ k, k < (bc + 1) / 2 ∧ off + 2 * k = o := ⟨(o - off) / 2, by omega, by omega⟩
      rw [if_pos this, if_pos hr]
      cases line <;> simp
    · have : ¬ ∃ k, k < (bc + 1) / 2 ∧ off + 2 * k = o := by
        rintro ⟨k, hk, he⟩; omega
      rw [if_neg this, if_neg hr]
      have := ih o (off + bc) (cur + line.getD 0) (fun c hc => hev c (by simp [hc])) (by omega) ho
      cases line with
      | none => simpa using this
      | some l => simpa using this

theorem collapseC_even (isLT : Bool) : ∀ (xs : List CItem) (cs : List CItem), collapseC isLT xs = some cs → (∀ x ∈ xs, x.bc % 2 = 0) →
    ∀ c ∈ cs, c.bc % 2 = 0 := by
  intro xs
  induction xs with
  | nil => intro cs h _; simp [collapseC] at h; subst h; simp
  | cons x rest ih =>
    intro cs h hev
    simp only [collapseC] at h
    cases hr : collapseC isLT rest with
    | none => simp [hr] at h
    | some ys =>
      have ihy := ih ys hr (fun y hy => hev y (by simp [hy]))
      simp only [hr, Option.bind_eq_bind, Option.bind_some] at h
      have hx := hev x (by simp)
      cases ys with
      | nil =>
        simp only [pure, Option.some.injEq] at h
        subst h
        simpa using hx
      | cons y ys =>
        simp only at h
        split at h
        · cases hm : mergeLine x.line y.line with
          | none => simp [hm] at h
          | some l =>
            simp only [hm, Option.bind_some, pure, Option.some.injEq] at h
            subst h
            intro c hc
            rcases List.mem_cons.mp hc with rfl | hc
            · have := ihy y (by simp); simp only; omega
            · exact ihy c (by simp [hc])
        · simp only [pure, Option.some.injEq] at h
          subst h
          intro c hc
          rcases List.mem_cons.mp hc with rfl | hc
          · exact hx
          · exact ihy c hc

theorem scan_inr : ∀ (rows : List Item) (o s : Nat) (c : Int) (x : Nat × Int), scan rows o s c = .inr x → s ≤ o →
    s + (rows.map (·.bc)).sum ≤ o := by
  intro rows
  induction rows with
  | nil => intro o s c x _ h; simpa using h
  | cons r rows ih =>
    intro o s c x h hs
    simp only [scan] at h
    split at h
    · cases h
    · next hr =>
      have := ih o _ _ x h (by omega)
      simp only [List.map_cons, List.sum_cons]; omega

/-- **Decoded lines are CPython's lines (3.10 tables).**  For every `co_linetable` byte string of in-range rows with even
    address deltas (any line deltas, any number of rows — no assumption that the assembler wrote it):
    `to_line_mapping` succeeds, and for every even offset `o`
    * if the mapping has an entry for `o`, its line is the line CPython's reader assigns to `o` (`none` = no line), and
    * the mapping has an entry for every offset inside the table's total range. -/
theorem decoded_lines_310 (b : List Nat) (n : Nat) (heven : b.length % 2 = 0) (hbytes : ∀ x ∈ b, x < 256)
    (h255 : ∀ x ∈ bytesToItems b, x.bc ≠ 255) (hbc : ∀ x ∈ bytesToItems b, x.bc % 2 = 0) :
    ∃ lm, toLineMapping true b n = .ok lm ∧ lm.extra = [] ∧
      ∀ o, o % 2 = 0 →
        (∀ r, assoc? o lm.lines = some r → Spec.lineOfLT b o 0 0 = r) ∧
        (o < ((bytesToItems b).map (·.bc)).sum → (assoc? o lm.lines).isSome) := by
  have hv := bytesToItems_validRow true b hbytes (fun _ => h255)
  obtain ⟨cs, hc, he, _⟩ := expand_collapse true (bytesToItems b) hv
  refine ⟨⟨itemsToMappingLT cs 0 0, []⟩, ?_, rfl, ?_⟩
  · simp [toLineMapping, bytesToItems?, heven, hc, liftOpt, itemsToMapping, bind, Except.bind, pure, Except.pure]
  · intro o ho
    have hcs : ∀ c ∈ cs, c.bc % 2 = 0 := by
      apply collapseC_even true _ cs hc
      intro x hx
      simp only [List.mem_map] at hx
      obtain ⟨y, hy, rfl⟩ := hx
      simpa [toC] using hbc y hy
    have hlook := mappingLT_lookup cs o 0 0 hcs rfl ho
    have hb : itemsToBytes (bytesToItems b) = b := itemsToBytes_bytesToItems b heven hbytes
    have hspec := lineOfLT_eq_scan (bytesToItems b) o 0 0 (fun r hr => ⟨(hv r hr).2.1, (hv r hr).2.2⟩)
    rw [hb] at hspec
    have hscan : scan (bytesToItems b) o 0 0 = semLT cs o 0 0 := by rw [← he]; exact scan_expand cs o 0 0
    rw [hlook, hspec, hscan]
    constructor
    · intro r hr
      cases hsem : semLT cs o 0 0 with
      | inl x => simp [hsem] at hr ⊢; exact hr
      | inr x => simp [hsem] at hr
    · intro hlt
      cases hsem : semLT cs o 0 0 with
      | inl x => simp
      | inr x =>
        rw [← hscan] at hsem
        have := scan_inr _ o 0 0 x hsem (by omega)
        omega

end CDV.LT
