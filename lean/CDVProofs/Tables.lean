import CDV.Encode
/-! The decoder's table bookkeeping (`ToArgs.found_index`) simulates the encoder's (`FromArgs.add`):
    re-encoding the operands it produced, in the same order, reproduces every index (helper lemmas for C09 / C01). -/
namespace CDV

/-- the key comparison is an equivalence relation -/
structure KeyEquiv {α} (keyEq : α → α → Bool) : Prop where
  refl : ∀ a, keyEq a a = true
  symm : ∀ a b, keyEq a b = keyEq b a
  trans : ∀ a b c, keyEq a b = true → keyEq b c = true → keyEq a c = true

section
variable {α : Type} {keyEq : α → α → Bool}

theorem keyFind_append_not (a : α) (m : List (α × Nat)) (b : α) (i : Nat) :
    keyFind keyEq a (m ++ [(b, i)]) = match keyFind keyEq a m with | some j => some j | none => if keyEq a b then some i else none := by
  induction m with
  | nil => simp [keyFind]
  | cons p m ih =>
    obtain ⟨c, j⟩ := p
    simp only [List.cons_append, keyFind]
    split
    · rfl
    · exact ih

theorem keyFind_filter (hk : KeyEquiv keyEq) (a b : α) (m : List (α × Nat)) :
    keyFind keyEq a (m.filter (fun p => !keyEq b p.1)) = if keyEq a b then none else keyFind keyEq a m := by
  induction m with
  | nil => simp [keyFind]
  | cons p m ih =>
    obtain ⟨c, j⟩ := p
    simp only [List.filter_cons]
    by_cases hbc : keyEq b c = true
    · -- (c, j) is removed
      simp only [hbc, Bool.not_true, Bool.false_eq_true, if_false, ih, keyFind]
      by_cases hab : keyEq a b = true
      · simp [hab]
      · have hac : keyEq a c = false := by
          cases h : keyEq a c with
          | false => rfl
          | true =>
            have : keyEq c b = true := by rw [hk.symm]; exact hbc
            exact absurd (hk.trans a c b h this) hab
        simp [hab, hac]
    · -- (c, j) is kept
      have hbc' : keyEq b c = false := by simpa using hbc
      simp only [hbc', Bool.not_false, if_true, keyFind]
      by_cases hac : keyEq a c = true
      · have hab : keyEq a b = false := by
          cases h : keyEq a b with
          | false => rfl
          | true =>
            have : keyEq b a = true := by rw [hk.symm]; exact h
            exact absurd (hk.trans b a c this hac) hbc
        simp [hac, hab]
      · simp [hac, ih]

/-- lookup after `d[key(b)] = i` -/
theorem keyFind_keySet (hk : KeyEquiv keyEq) (a b : α) (i : Nat) (m : List (α × Nat)) :
    keyFind keyEq a (keySet keyEq b i m) = if keyEq a b then some i else keyFind keyEq a m := by
  simp only [keySet, keyFind_append_not, keyFind_filter hk]
  by_cases hab : keyEq a b = true
  · simp [hab]
  · simp [hab]
    cases keyFind keyEq a m <;> rfl

theorem keyFind_congr (hk : KeyEquiv keyEq) (x a : α) (h : keyEq x a = true) (m : List (α × Nat)) :
    keyFind keyEq x m = keyFind keyEq a m := by
  induction m with
  | nil => rfl
  | cons p m ih =>
    obtain ⟨c, j⟩ := p
    simp only [keyFind]
    have : keyEq x c = keyEq a c := by
      cases hxc : keyEq x c with
      | true =>
        have : keyEq a x = true := by rw [hk.symm]; exact h
        exact (hk.trans a x c this hxc).symm
      | false =>
        cases hac : keyEq a c with
        | false => rfl
        | true => exact absurd (hk.trans x a c h hac) (by simp [hxc])
    rw [this, ih]

theorem assoc?_isSome_iff {β} (k : Nat) (l : List (Nat × β)) : (assoc? k l).isSome ↔ k ∈ l.map Prod.fst := by
  induction l with
  | nil => simp [assoc?]
  | cons p l ih =>
    obtain ⟨k', v⟩ := p
    simp only [assoc?, List.map_cons, List.mem_cons]
    by_cases h : k = k'
    · simp [h]
    · simp [h, ih]

theorem assoc?_append_new {β} (k : Nat) (l : List (Nat × β)) (v : β) (h : k ∉ l.map Prod.fst) :
    assoc? k (l ++ [(k, v)]) = some v := by
  induction l with
  | nil => simp [assoc?]
  | cons p l ih =>
    obtain ⟨k', v'⟩ := p
    simp only [List.map_cons, List.mem_cons, not_or] at h
    simp [assoc?, h.1, ih h.2]

theorem assoc?_mem {β} (k : Nat) (v : β) (l : List (Nat × β)) (h : assoc? k l = some v) : (k, v) ∈ l := by
  induction l with
  | nil => simp [assoc?] at h
  | cons p l ih =>
    obtain ⟨k', v'⟩ := p
    simp only [assoc?] at h
    split at h
    · rename_i hk; cases h; simp [hk]
    · simp [ih h]

/-- position of a key in an association list whose stored orders are the positions -/
theorem assoc?_order (l : List (Nat × Nat)) (horder : ∀ k (h : k < l.length), (l[k]).2 = k) (idx o : Nat)
    (h : assoc? idx l = some o) : o < l.length := by
  have hm := assoc?_mem idx o l h
  obtain ⟨k, hk, hget⟩ := List.getElem_of_mem hm
  have := horder k hk
  rw [hget] at this
  simp at this
  omega

/-- the decoder state `d` and the encoder state `e` describe the same table prefix -/
structure Sim (keyEq : α → α → Bool) (args : List α) (d : ToArgs α) (e : FromArgs α) : Prop where
  dargs : d.args = args
  idx : e.iToArg.map Prod.fst = d.found.map Prod.fst
  vals : ∀ i a, (i, a) ∈ e.iToArg → args[i]? = some a
  order : ∀ k (h : k < d.found.length), (d.found[k]).2 = k
  nodup : (d.found.map Prod.fst).Nodup
  keys : ∀ a, keyFind keyEq a e.argToI = keyFind keyEq a d.keyToIndex
  keyFound : ∀ a j, keyFind keyEq a d.keyToIndex = some j → j ∈ d.found.map Prod.fst ∧ ∃ b, args[j]? = some b ∧ keyEq a b = true
  foundKey : ∀ i a, i ∈ d.found.map Prod.fst → args[i]? = some a → (keyFind keyEq a d.keyToIndex).isSome = true

theorem Sim.init (keyEq : α → α → Bool) (args : List α) : Sim keyEq args ⟨args, [], []⟩ ⟨[], []⟩ :=
  ⟨rfl, rfl, by simp, by simp, by simp, by simp [keyFind], by simp [keyFind], by simp⟩

/-- what `found_index idx` returns, spelled out -/
theorem foundIndex_ok (d : ToArgs α) (idx : Nat) (d' : ToArgs α) (a : α) (ov : Option Nat)
    (h : d.foundIndex keyEq (idx : Int) = .ok (d', a, ov)) :
    d.args[idx]? = some a ∧
    d'.args = d.args ∧
    d'.found = (match assoc? idx d.found with | some _ => d.found | none => d.found ++ [(idx, d.found.length)]) ∧
    d'.keyToIndex = keySet keyEq a idx d.keyToIndex ∧
    ov = (if ((assoc? idx d'.found).getD 0 != idx || (match keyFind keyEq a d.keyToIndex with | some j => j != idx | none => false)) = true
          then some idx else none) := by
  unfold ToArgs.foundIndex at h
  have hneg : ¬ ((idx : Int) < 0) := by omega
  simp only [hneg, if_false, Int.toNat_natCast] at h
  cases hget : d.args[idx]? with
  | none => simp [hget] at h
  | some b =>
    simp only [hget, pure, Except.pure, Except.ok.injEq, Prod.mk.injEq] at h
    obtain ⟨h1, h2, h3⟩ := h
    subst h2
    subst h1
    exact ⟨rfl, rfl, rfl, rfl, h3.symm⟩

/-- the key of `a` is already in the decoder's key map and points to another index -/
def keyElsewhere (keyEq : α → α → Bool) (a : α) (idx : Nat) (m : List (α × Nat)) : Bool :=
  match keyFind keyEq a m with | some j => j != idx | none => false

theorem keyElsewhere_false (a : α) (idx : Nat) (m : List (α × Nat)) :
    keyElsewhere keyEq a idx m = false ↔ ∀ j, keyFind keyEq a m = some j → j = idx := by
  unfold keyElsewhere
  cases keyFind keyEq a m with
  | none => simp
  | some j => simp

/-- `found_index` returns an override exactly when the rank differs from the index or the key points elsewhere -/
theorem foundIndex_override (d : ToArgs α) (idx : Nat) (d' : ToArgs α) (a : α) (ov : Option Nat)
    (h : d.foundIndex keyEq (idx : Int) = .ok (d', a, ov)) :
    ov = (if ((assoc? idx d'.found).getD 0 != idx || keyElsewhere keyEq a idx d.keyToIndex) = true then some idx else none) :=
  (foundIndex_ok d idx d' a ov h).2.2.2.2

theorem map_replace_same (l : List (Nat × α)) (i : Nat) (a : α) (h : ∀ v, (i, v) ∈ l → v = a) :
    l.map (fun (p : Nat × α) => if p.1 = i then (p.1, a) else (p.1, p.2)) = l := by
  induction l with
  | nil => rfl
  | cons p l ih =>
    obtain ⟨k, v⟩ := p
    simp only [List.map_cons]
    rw [ih (fun v' hv' => h v' (by simp [hv']))]
    by_cases hk : k = i
    · subst hk; simp [h v (by simp)]
    · simp [hk]

/-- **one step**: re-encoding the operand the decoder produced gives back the index it was decoded from -/
theorem sim_step (hk : KeyEquiv keyEq) (args : List α) (d : ToArgs α) (e : FromArgs α) (hs : Sim keyEq args d e)
    (idx : Nat) (d' : ToArgs α) (a : α) (ov : Option Nat)
    (h : d.foundIndex keyEq (idx : Int) = .ok (d', a, ov)) :
    ∃ e', e.add keyEq a ov = .ok (e', idx) ∧ Sim keyEq args d' e' := by
  obtain ⟨hget, hargs, hfound, hkti, hov⟩ := foundIndex_ok d idx d' a ov h
  have hget' : args[idx]? = some a := by rw [← hs.dargs]; exact hget
  have hlen : e.iToArg.length = d.found.length := by
    have := congrArg List.length hs.idx; simpa using this
  -- the new key map, common to all cases
  have hkeys' : ∀ (m : List (α × Nat)), (∀ x, keyFind keyEq x m = keyFind keyEq x d.keyToIndex) →
      ∀ x, keyFind keyEq x (keySet keyEq a idx m) = keyFind keyEq x d'.keyToIndex := by
    intro m hm x
    rw [hkti, keyFind_keySet hk, keyFind_keySet hk, hm x]
  have hkeyFound' : ∀ (found' : List Nat), (∀ j, j ∈ d.found.map Prod.fst → j ∈ found') → idx ∈ found' →
      ∀ x j, keyFind keyEq x d'.keyToIndex = some j → j ∈ found' ∧ ∃ b, args[j]? = some b ∧ keyEq x b = true := by
    intro found' hsub hin x j hx
    rw [hkti, keyFind_keySet hk] at hx
    by_cases hxa : keyEq x a = true
    · simp [hxa] at hx; subst hx; exact ⟨hin, a, hget', hxa⟩
    · simp [hxa] at hx
      obtain ⟨h1, h2⟩ := hs.keyFound x j hx
      exact ⟨hsub j h1, h2⟩
  have hfoundKey' : ∀ (found' : List Nat), (∀ i, i ∈ found' → i ∈ d.found.map Prod.fst ∨ i = idx) →
      ∀ i b, i ∈ found' → args[i]? = some b → (keyFind keyEq b d'.keyToIndex).isSome = true := by
    intro found' hsub i b hi hb
    rw [hkti, keyFind_keySet hk]
    by_cases hba : keyEq b a = true
    · simp [hba]
    · simp [hba]
      rcases hsub i hi with h1 | h1
      · exact hs.foundKey i b h1 hb
      · subst h1; rw [hget'] at hb; cases hb; exact absurd (hk.refl _) hba
  cases hassoc : assoc? idx d.found with
  | some o =>
    -- idx was found before
    have hmemd : idx ∈ d.found.map Prod.fst := (assoc?_isSome_iff idx d.found).mp (by simp [hassoc])
    have hf : d'.found = d.found := by rw [hfound, hassoc]
    have hmeme : idx ∈ e.iToArg.map Prod.fst := by rw [hs.idx]; exact hmemd
    obtain ⟨old, hold⟩ := Option.isSome_iff_exists.mp ((assoc?_isSome_iff idx e.iToArg).mpr hmeme)
    have holda : old = a := by
      have := hs.vals idx old (assoc?_mem idx old e.iToArg hold)
      rw [hget'] at this; cases this; rfl
    have hsame : ∀ v, (idx, v) ∈ e.iToArg → v = a := by
      intro v hv; have := hs.vals idx v hv; rw [hget'] at this; cases this; rfl
    have hsimbase : ∀ (m : List (α × Nat)), (∀ x, keyFind keyEq x m = keyFind keyEq x d'.keyToIndex) →
        Sim keyEq args d' ⟨e.iToArg, m⟩ := by
      intro m hm
      refine ⟨by rw [hargs, hs.dargs], by rw [hf]; exact hs.idx, hs.vals, by rw [hf]; exact hs.order, by rw [hf]; exact hs.nodup, hm, ?_, ?_⟩
      · rw [hf]; exact hkeyFound' _ (fun j hj => hj) hmemd
      · rw [hf]; exact hfoundKey' _ (fun i hi => Or.inl hi)
    by_cases hw : ov = some idx
    · -- override: `self[idx] = a` on an index that is already set to a
      subst hw
      refine ⟨⟨e.iToArg, keySet keyEq a idx e.argToI⟩, ?_, hsimbase _ (hkeys' _ hs.keys)⟩
      simp only [FromArgs.add, FromArgs.set, hold, holda, hk.refl a, if_true, bind, Except.bind, pure, Except.pure]
      congr 3
      exact map_replace_same e.iToArg idx a hsame
    · -- no override: the encoder looks the arg up by key
      have hov' : ov = none := by rw [hov] at hw ⊢; split <;> simp_all
      subst hov'
      have hnw : ¬ (((assoc? idx d'.found).getD 0 != idx || (match keyFind keyEq a d.keyToIndex with | some j => j != idx | none => false)) = true) := by
        intro hc; rw [if_pos hc] at hov; cases hov
      simp only [Bool.or_eq_true, not_or] at hnw
      have hsome := hs.foundKey idx a hmemd hget'
      obtain ⟨j, hj⟩ := Option.isSome_iff_exists.mp hsome
      have hjidx : j = idx := by
        have := hnw.2; rw [hj] at this; simpa using this
      subst hjidx
      refine ⟨e, ?_, hsimbase e.argToI ?_⟩
      · simp [FromArgs.add, hs.keys a, hj, pure, Except.pure]
      · intro x
        rw [hs.keys x, hkti, keyFind_keySet hk]
        by_cases hxa : keyEq x a = true
        · simp [hxa, keyFind_congr hk x a hxa, hj]
        · simp [hxa]
  | none =>
    -- first use of idx
    have hnmemd : idx ∉ d.found.map Prod.fst := by
      intro hm; have := (assoc?_isSome_iff idx d.found).mpr hm; simp [hassoc] at this
    have hf : d'.found = d.found ++ [(idx, d.found.length)] := by rw [hfound, hassoc]
    have hnmeme : assoc? idx e.iToArg = none := by
      cases hh : assoc? idx e.iToArg with
      | none => rfl
      | some v =>
        have := (assoc?_isSome_iff idx e.iToArg).mp (by simp [hh])
        rw [hs.idx] at this; exact absurd this hnmemd
    have horder' : (assoc? idx d'.found).getD 0 = d.found.length := by
      rw [hf, assoc?_append_new idx d.found _ hnmemd]; rfl
    have hsim' : Sim keyEq args d' ⟨e.iToArg ++ [(idx, a)], keySet keyEq a idx e.argToI⟩ := by
      refine ⟨by rw [hargs, hs.dargs], by rw [hf]; simp [hs.idx], ?_, ?_, ?_, hkeys' _ hs.keys, ?_, ?_⟩
      · intro i b hib
        simp only [List.mem_append, List.mem_singleton, Prod.mk.injEq] at hib
        rcases hib with hib | ⟨rfl, rfl⟩
        · exact hs.vals i b hib
        · exact hget'
      · have : ∀ (l : List (Nat × Nat)), l = d.found ++ [(idx, d.found.length)] → ∀ k (hk : k < l.length), (l[k]).2 = k := by
          intro l hl
          subst hl
          intro k hklt
          by_cases hkl : k < d.found.length
          · rw [List.getElem_append_left hkl]; exact hs.order k hkl
          · have : k = d.found.length := by simp at hklt; omega
            subst this; simp
        exact this d'.found hf
      · rw [hf]; simp only [List.map_append, List.map_cons, List.map_nil]
        exact List.nodup_append.mpr ⟨hs.nodup, by simp, by intro x hx y hy; simp at hy; subst hy; intro hxy; subst hxy; exact hnmemd hx⟩
      · rw [hf]; exact hkeyFound' _ (fun j hj => by simp [hj]) (by simp)
      · rw [hf]; exact hfoundKey' _ (fun i hi => by simpa using hi)
    by_cases hw : ov = some idx
    · subst hw
      refine ⟨_, ?_, hsim'⟩
      simp [FromArgs.add, FromArgs.set, hnmeme, bind, Except.bind, pure, Except.pure]
    · have hov' : ov = none := by rw [hov] at hw ⊢; split <;> simp_all
      subst hov'
      have hnw : ¬ (((assoc? idx d'.found).getD 0 != idx || (match keyFind keyEq a d.keyToIndex with | some j => j != idx | none => false)) = true) := by
        intro hc; rw [if_pos hc] at hov; cases hov
      simp only [Bool.or_eq_true, not_or, horder'] at hnw
      have hrank : d.found.length = idx := by simpa using hnw.1
      -- the key cannot be present: it would point to idx, which would then have been found
      have hnone : keyFind keyEq a d.keyToIndex = none := by
        cases hkf : keyFind keyEq a d.keyToIndex with
        | none => rfl
        | some j =>
          have hj : j = idx := by have := hnw.2; rw [hkf] at this; simpa using this
          subst hj
          exact absurd (hs.keyFound a j hkf).1 hnmemd
      refine ⟨_, ?_, hsim'⟩
      simp [FromArgs.add, hs.keys a, hnone, FromArgs.len, hlen, hrank, FromArgs.set, hnmeme, bind, Except.bind, pure, Except.pure]

/-- the decoder meeting the table indices `us` in this order (as operands of successive instructions) -/
def decRun (keyEq : α → α → Bool) : ToArgs α → List Nat → R (ToArgs α × List (α × Option Nat))
  | t, [] => pure (t, [])
  | t, u :: us => do
    let (t1, a, ov) ← t.foundIndex keyEq (u : Int)
    let (t2, r) ← decRun keyEq t1 us
    pure (t2, (a, ov) :: r)

/-- the encoder resolving those operands in the same order -/
def encRun (keyEq : α → α → Bool) : FromArgs α → List (α × Option Nat) → R (FromArgs α × List Nat)
  | t, [] => pure (t, [])
  | t, (a, ov) :: ops => do
    let (t1, i) ← t.add keyEq a ov
    let (t2, r) ← encRun keyEq t1 ops
    pure (t2, i :: r)

theorem bind_ok' {β γ} {x : R β} {f : β → R γ} {b : γ} (h : x >>= f = .ok b) : ∃ a, x = .ok a ∧ f a = .ok b := by
  cases x with
  | error e => simp [bind, Except.bind] at h
  | ok a => exact ⟨a, rfl, by simpa [bind, Except.bind] using h⟩

/-- **any sequence of uses**: re-encoding what was decoded reproduces every index, whatever the order of uses,
    repetitions, out-of-order tables and key collisions -/
theorem runs_roundtrip (hk : KeyEquiv keyEq) (args : List α) : ∀ (us : List Nat) (d : ToArgs α) (e : FromArgs α) (d' : ToArgs α)
    (ops : List (α × Option Nat)), Sim keyEq args d e → decRun keyEq d us = .ok (d', ops) →
    ∃ e', encRun keyEq e ops = .ok (e', us) ∧ Sim keyEq args d' e'
  | [], d, e, d', ops, hs, h => by
    simp [decRun, pure, Except.pure] at h
    obtain ⟨rfl, rfl⟩ := h
    exact ⟨e, rfl, hs⟩
  | u :: us, d, e, d', ops, hs, h => by
    simp only [decRun] at h
    obtain ⟨⟨t1, a, ov⟩, h1, h⟩ := bind_ok' h
    obtain ⟨⟨t2, r⟩, h2, h⟩ := bind_ok' h
    simp only [pure, Except.pure, Except.ok.injEq, Prod.mk.injEq] at h
    obtain ⟨rfl, rfl⟩ := h
    obtain ⟨e1, he1, hs1⟩ := sim_step hk args d e hs u t1 a ov h1
    obtain ⟨e2, he2, hs2⟩ := runs_roundtrip hk args us t1 e1 t2 r hs1 h2
    exact ⟨e2, by simp [encRun, he1, he2, bind, Except.bind, pure, Except.pure], hs2⟩

/-- the entries no instruction used (`additional_args`): they re-encode too, and afterwards every index of `is` is in the table -/
theorem additional_roundtrip (hk : KeyEquiv keyEq) (args : List α) : ∀ (is : List Nat) (d : ToArgs α) (e : FromArgs α)
    (ops : List (α × Option Nat)), Sim keyEq args d e → ToArgs.additionalGo keyEq d is = .ok ops →
    ∃ e' d' idxs, encRun keyEq e ops = .ok (e', idxs) ∧ Sim keyEq args d' e' ∧
      (∀ i, i ∈ d.found.map Prod.fst → i ∈ d'.found.map Prod.fst) ∧ (∀ i ∈ is, i ∈ d'.found.map Prod.fst)
  | [], d, e, ops, hs, h => by
    simp [ToArgs.additionalGo, pure, Except.pure] at h
    subst h
    exact ⟨e, d, [], rfl, hs, fun _ h => h, by simp⟩
  | i :: is, d, e, ops, hs, h => by
    simp only [ToArgs.additionalGo] at h
    cases hassoc : assoc? i d.found with
    | some o =>
      simp only [hassoc] at h
      obtain ⟨e', d', idxs, h1, h2, h3, h4⟩ := additional_roundtrip hk args is d e ops hs h
      refine ⟨e', d', idxs, h1, h2, h3, ?_⟩
      intro j hj
      simp only [List.mem_cons] at hj
      rcases hj with rfl | hj
      · exact h3 j ((assoc?_isSome_iff j d.found).mp (by simp [hassoc]))
      · exact h4 j hj
    | none =>
      simp only [hassoc] at h
      obtain ⟨⟨t1, a, ov⟩, h1, h⟩ := bind_ok' h
      obtain ⟨r, h2, h⟩ := bind_ok' h
      simp only [pure, Except.pure, Except.ok.injEq] at h
      subst h
      obtain ⟨e1, he1, hs1⟩ := sim_step hk args d e hs i t1 a ov h1
      obtain ⟨e2, d2, idxs, he2, hs2, hsub, hall⟩ := additional_roundtrip hk args is t1 e1 r hs1 h2
      have hf1 := (foundIndex_ok d i t1 a ov h1).2.2.1
      rw [hassoc] at hf1
      refine ⟨e2, d2, i :: idxs, by simp [encRun, he1, he2, bind, Except.bind, pure, Except.pure], hs2, ?_, ?_⟩
      · intro j hj; apply hsub; rw [hf1]; simp [hj]
      · intro j hj
        simp only [List.mem_cons] at hj
        rcases hj with rfl | hj
        · apply hsub; rw [hf1]; simp
        · exact hall j hj

/-- what is in the encoder's table is what the original table holds at that index -/
theorem Sim.table_content {args : List α} {d : ToArgs α} {e : FromArgs α} (hs : Sim keyEq args d e) :
    (∀ i a, (i, a) ∈ e.iToArg → args[i]? = some a) ∧ (e.iToArg.map Prod.fst).Nodup := by
  refine ⟨hs.vals, ?_⟩
  rw [hs.idx]; exact hs.nodup

end

end CDV
