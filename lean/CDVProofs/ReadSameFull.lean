import CDVProofs.ReadSame
import CDVProofs.NormSpec
import CDVProofs.Props.C03Full
import CDVProofs.AddLineSome
import CDVProofs.FinalArgs
/-! # CPython reads `from_code(c).to_code()` exactly as it reads `c` — instructions, operands and lines -/
namespace CDV

theorem kindOK_of_operandOK_raw (v : Ver) (T : OpTable) (names varnames fv cellvars : List PStr) (constants : List Const) (r : RawI) (ins : Instr)
    (hop : ins.op = r.op) (h : OperandOK v T names varnames fv cellvars constants r ins.arg) (hext : T.get r.op ≠ .ext) (targets : List Nat) :
    KindOK T (retarget targets ins) := by
  obtain ⟨op, a, n, l, o⟩ := ins
  simp only [Instr.op, Instr.arg] at hop h
  subst hop
  unfold OperandOK at h
  unfold KindOK
  cases hc : T.get r.op <;> simp only [hc] at h
  · obtain ⟨_, rfl⟩ := h; simp [retarget, Instr.op, Instr.arg, hc]
  · obtain ⟨_, rfl⟩ := h; simp [retarget, Instr.op, Instr.arg, hc]
  · obtain ⟨_, s, o', rfl, _⟩ := h; simp [retarget, Instr.op, Instr.arg, hc]
  · obtain ⟨_, s, o', rfl, _⟩ := h; simp [retarget, Instr.op, Instr.arg, hc]
  · obtain ⟨_, h⟩ := h
    split at h
    · obtain ⟨s, o', rfl, _⟩ := h; simp [retarget, Instr.op, Instr.arg, hc]
    · obtain ⟨s, rfl, _⟩ := h; simp [retarget, Instr.op, Instr.arg, hc]
  · obtain ⟨_, c, o', rfl, _⟩ := h; simp [retarget, Instr.op, Instr.arg, hc]
  · subst h; simp [retarget, Instr.op, Instr.arg, hc]
  · subst h; simp [retarget, Instr.op, Instr.arg, hc]
  · exact absurd hc hext

/-- **The rebuilt code object is read exactly as the original.** -/
theorem decoded_reads_identically_full (v : Ver) (T : OpTable) (F : FlagTable) (dec : RawCode → R CodeData) (enc : CodeData → R RawCode)
    (argc pos kw nl ss fl : Nat) (fln : Int) (code lt : List Nat) (fname name : PStr) (names varnames freevars cellvars : List PStr)
    (consts : List RConst) (d : CodeData) (c' : RawCode)
    (hA : F.annotations ∉ [bOPTIMIZED, bNEWLOCALS, bVARARGS, bVARKEYWORDS, bNESTED, bGENERATOR, bNOFREE, bCOROUTINE, bASYNC_GENERATOR])
    (h : toCodeDataGo v T F dec (.mk argc pos kw nl ss fl fln code lt fname name names varnames freevars cellvars consts) = .ok d)
    (hlen : argc + kw + (if fl.testBit bVARARGS then 1 else 0) + (if fl.testBit bVARKEYWORDS then 1 else 0) ≤ varnames.length)
    (hnodup : (varnames.take (argc + kw + (if fl.testBit bVARARGS then 1 else 0) + (if fl.testBit bVARKEYWORDS then 1 else 0))).Nodup)
    (hpos37 : v.hasPosOnly = false → pos = 0)
    (hcode : ∀ x ∈ code, x < 256) (hcomp : Complete code 0)
    (hpre : ∀ raws, parseBytes code = .ok raws → ∀ r ∈ raws, r.nargs ≤ 4)
    (hmin : ∀ raws, parseBytes code = .ok raws → ∀ r ∈ raws, T.get r.op ≠ .jabs → T.get r.op ≠ .jrel → r.nargs = instrsize r.arg)
    (hjs : ∀ raws, parseBytes code = .ok raws → ∀ r ∈ raws,
      (T.get r.op = .jabs → (decMult v * r.arg).toNat ∈ raws.map (·.first)) ∧
      (T.get r.op = .jrel → ((r.next : Int) + decMult v * r.arg).toNat ∈ raws.map (·.first)))
    (hcn : cellvars.Nodup) (hfn : freevars.Nodup)
    (hvalid : ∀ s ∈ Spec.read v T (.mk argc pos kw nl ss fl fln code lt fname name names varnames freevars cellvars consts),
      ∀ idx rel, s.arg = .jump idx rel → idx.isSome)
    (hteven : lt.length % 2 = 0) (htbytes : ∀ x ∈ lt, x < 256)
    (htbc : v.is310 = true → ∀ x ∈ LT.bytesToItems lt, x.bc % 2 = 0 ∧ x.bc ≠ 255)
    (htbcOld : v.is310 = false → ∀ cs, LT.collapse false (LT.bytesToItems lt) = some cs → ∀ c ∈ cs, c.bc % 2 = 0)
    (hT : ∀ op, T.get op = .ext → op = EXTENDED_ARG)
    (hrne : Spec.read v T (.mk argc pos kw nl ss fl fln code lt fname name names varnames freevars cellvars consts) ≠ [])
    (henc : fromCodeDataGo v F enc d = .ok c') :
    Spec.read v T c' = Spec.read v T (.mk argc pos kw nl ss fl fln code lt fname name names varnames freevars cellvars consts) := by
  have hfit := decoded_fits v T F dec argc pos kw nl ss fl fln code lt fname name names varnames freevars cellvars consts d h hlen hnodup
    hcode hcomp hpre hmin hjs hcn hfn
  have hal : v.is310 = false → ∀ a, d.addLine = some a → a.line.isSome = true := fun hv =>
    decoded_addLine_some v T F dec argc pos kw nl ss fl fln code lt fname name names varnames freevars cellvars consts d h hv hteven htbytes (htbcOld hv)
  have hoa := decoded_reads_identically v T F dec enc argc pos kw nl ss fl fln code lt fname name names varnames freevars cellvars consts d c'
    hA h hlen hnodup hpos37 hcode hcomp hpre hmin hjs hcn hfn henc
  obtain ⟨constants, blocks, tp, ann, nested, al, aa, hd, hcm, hlenR, hallR⟩ :=
    decode_reads_like_cpython v T F dec argc pos kw nl ss fl fln code lt fname name names varnames freevars cellvars consts d h
      hcode hpre hvalid hteven htbytes htbc htbcOld
  subst hd
  simp only [CodeData.blocks, CodeData.addLine, CodeData.addArgs, CodeData.freevars, CodeData.type] at hfit hal
  -- facts about the decoded blocks
  obtain ⟨lm, constants2, tp2, ann2, nested2, args2, st0, st', raws, ois, blocks2, al2, aa2, _, _, _, hn, hvn, hcv, hcs, _, hraws, hdecI, hbl, _, hd2⟩ :=
    toCodeDataGo_decompose v T F dec argc pos kw nl ss fl fln code lt fname name names varnames freevars cellvars consts _ h
  simp only [CodeData.mk.injEq] at hd2
  obtain ⟨hbeq, _⟩ := hd2
  subst hbeq
  have hpart := CDV.Props.C13.C13_partition ois blocks hbl
  obtain ⟨_, hlenI, hallI⟩ := decodeInstrs_ok v T freevars raws st0 st' ois hdecI
  have hnoext := parseGo_op_ne_ext EXTENDED_ARG code.length code rfl 0 0 0 raws hraws
  have hkind : ∀ ins ∈ blocks.flatten, KindOK T ins := by
    intro ins hins
    rw [hpart.2] at hins
    obtain ⟨p, hp, rfl⟩ := List.mem_map.mp hins
    obtain ⟨j, hj, hget⟩ := List.getElem_of_mem hp
    have hoj : ois[j]? = some p := by rw [List.getElem?_eq_getElem hj, hget]
    have hjr : j < raws.length := by rw [← hlenI]; exact hj
    obtain ⟨ins0, h1, h2, h3⟩ := hallI j raws[j] (List.getElem?_eq_getElem hjr)
    rw [hoj] at h1
    simp only [Option.some.injEq] at h1
    subst h1
    have hne : T.get raws[j].op ≠ .ext := fun he => hnoext raws[j] (List.getElem_mem hjr) (hT _ he)
    exact kindOK_of_operandOK_raw v T _ _ _ _ _ raws[j] ins0 h2 h3 hne (targetsOf ois)
  have hneF : blocks.flatten ≠ [] := by
    intro he
    have : (Spec.read v T (.mk argc pos kw nl ss fl fln code lt fname name names varnames freevars cellvars consts)).length = 0 := by
      rw [← hlenR, he]; rfl
    exact hrne (List.eq_nil_of_length_eq_zero this)
  have hst : ∀ s ∈ blockStarts blocks 0, s < blocks.flatten.length := by
    intro s hs
    have := blockStarts_lt blocks 0 hpart.1 s hs
    omega
  have hsj : ∀ (j : Nat) (i0 : Instr), blocks.flatten[j]? = some i0 →
      ∃ sj, (Spec.read v T (.mk argc pos kw nl ss fl fln code lt fname name names varnames freevars cellvars consts))[j]? = some sj := by
    intro j i0 hb
    have hjr : j < (Spec.read v T (.mk argc pos kw nl ss fl fln code lt fname name names varnames freevars cellvars consts)).length := by
      rw [← hlenR]; exact (List.getElem?_eq_some_iff.mp hb).1
    exact ⟨_, List.getElem?_eq_getElem hjr⟩
  have hopb : ∀ ins ∈ blocks.flatten, ins.op < 256 := by
    intro ins hins
    obtain ⟨j, hj, hget⟩ := List.getElem_of_mem hins
    have hb : blocks.flatten[j]? = some ins := by rw [List.getElem?_eq_getElem hj, hget]
    obtain ⟨sj, hs⟩ := hsj j ins hb
    obtain ⟨hop, _, _⟩ := hallR j ins sj hb hs
    rw [hop]
    rw [read_eq, List.getElem?_map] at hs
    cases hf : (Spec.fold EXTENDED_ARG (Spec.units EXTENDED_ARG code 0 0) none)[j]? with
    | none => rw [hf] at hs; simp at hs
    | some p =>
      rw [hf] at hs
      simp only [Option.map_some, Option.some.injEq] at hs
      rw [← hs]
      exact fold_op_lt EXTENDED_ARG code hcode _ _ _ p (List.mem_of_getElem? hf)
  have hlines : v.is310 = false → ∀ ins ∈ blocks.flatten, ins.line.isSome := by
    intro hv ins hins
    obtain ⟨j, hj, hget⟩ := List.getElem_of_mem hins
    have hb : blocks.flatten[j]? = some ins := by rw [List.getElem?_eq_getElem hj, hget]
    obtain ⟨sj, hs⟩ := hsj j ins hb
    obtain ⟨_, hline, _⟩ := hallR j ins sj hb hs
    rw [hline]
    rw [read_eq, List.getElem?_map] at hs
    cases hf : (Spec.fold EXTENDED_ARG (Spec.units EXTENDED_ARG code 0 0) none)[j]? with
    | none => rw [hf] at hs; simp at hs
    | some p =>
      rw [hf] at hs
      simp only [Option.map_some, Option.some.injEq] at hs
      rw [← hs]
      simp [Spec.lineOf, hv]
  obtain ⟨out, hout, hlenE, hallE⟩ := CDV.Props.C03.C03_to_code_reads_like_data_full v T F enc blocks fname fln name ss tp freevars ann nested al aa c'
    henc hkind hopb hfit hst hneF hlines hal
  -- assemble: same length, and pointwise the same op/arg (first part) and the same line
  have hlen2 : (Spec.read v T c').length = (Spec.read v T (.mk argc pos kw nl ss fl fln code lt fname name names varnames freevars cellvars consts)).length := by
    rw [hlenE, hlenR]
  apply List.ext_getElem?
  intro j
  cases h1 : (Spec.read v T c')[j]? with
  | none =>
    have : (Spec.read v T (.mk argc pos kw nl ss fl fln code lt fname name names varnames freevars cellvars consts))[j]? = none := by
      apply List.getElem?_eq_none
      have := List.getElem?_eq_none_iff.mp h1
      omega
    rw [this]
  | some s' =>
    have hj : j < (Spec.read v T (.mk argc pos kw nl ss fl fln code lt fname name names varnames freevars cellvars consts)).length := by
      rw [← hlen2]; exact (List.getElem?_eq_some_iff.mp h1).1
    obtain ⟨s, hs⟩ : ∃ s, (Spec.read v T (.mk argc pos kw nl ss fl fln code lt fname name names varnames freevars cellvars consts))[j]? = some s :=
      ⟨_, List.getElem?_eq_getElem hj⟩
    rw [hs]
    have hjb : j < blocks.flatten.length := by rw [hlenR]; exact hj
    have hb : blocks.flatten[j]? = some blocks.flatten[j] := List.getElem?_eq_getElem hjb
    obtain ⟨_, r2, _⟩ := hallR j _ s hb hs
    obtain ⟨_, e2, _⟩ := hallE j _ s' hb h1
    have hpair := congrArg (fun l => l[j]?) hoa
    simp only [List.getElem?_map, h1, hs, Option.map_some, Option.some.injEq, Prod.mk.injEq] at hpair
    obtain ⟨s'op, s'arg, s'line⟩ := s'
    obtain ⟨sop, sarg, sline⟩ := s
    simp only at hpair e2 r2
    rw [hpair.1, hpair.2, e2, r2]

end CDV
