import CDVProofs.DecodeLines
/-! `to_code_data` calls the pieces the C02 theorems are about, on the code object's own tables. -/
namespace CDV
open CDV.LT (LMap)

theorem seedFound_args {α} (keyEq : α → α → Bool) : ∀ (is : List Nat) (t t' : ToArgs α), seedFound keyEq t is = .ok t' → t'.args = t.args := by
  intro is
  induction is with
  | nil => intro t t' h; simp [seedFound, pure, Except.pure] at h; rw [h]
  | cons i is ih =>
    intro t t' h
    rw [seedFound] at h
    obtain ⟨⟨t1, a, o⟩, h1, h⟩ := bind_ok h
    have := (foundIndex_int keyEq t t1 (i : Int) a o h1).2.2
    rw [ih t1 t' h, this]

theorem throw_bind_ne {γ} (f : PUnit → R γ) (b : γ) : ((throw Err.raised : R PUnit) >>= f) ≠ .ok b := by
  intro h; cases h

/-- `bytes_to_blocks` decomposed: the tables it reads operands from are the code object's own -/
theorem decodeBody_decompose (v : Ver) (T : OpTable) (names varnames freevars cellvars : List PStr) (constants : List Const) (lm : LMap)
    (tp : Option Function) (np : Nat) (code : List Nat) (st' : DecSt) (blocks : List (List Instr))
    (h : decodeBody v T names varnames freevars cellvars constants lm tp np code = .ok (st', blocks)) :
    ∃ (st0 : DecSt) (raws : List RawI) (ois : List (Nat × Instr)),
      st0.names.args = names ∧ st0.varnames.args = varnames ∧ st0.cellvars.args = cellvars ∧ st0.consts.args = constants ∧ st0.lm = lm ∧
      parseBytes code = .ok raws ∧ decodeInstrs v T freevars st0 raws = .ok (st', ois) ∧ buildBlocks ois = .ok blocks := by
  unfold decodeBody at h
  obtain ⟨vn, hvn, h⟩ := bind_ok h
  have hvnargs := seedFound_args strEq _ _ _ hvn
  dsimp only at h
  -- the state after the optional `found_index(0)` for the docstring
  have key : ∀ (st0 : DecSt), st0.names.args = names → st0.varnames.args = varnames → st0.cellvars.args = cellvars →
      st0.consts.args = constants → st0.lm = lm →
      (do let raw ← parseBytes code
          let __x ← decodeInstrs v T freevars st0 raw
          match __x with
            | (st, ois) => do
              let blocks ← buildBlocks ois
              pure (st, blocks)) = Except.ok (st', blocks) →
      ∃ (st0 : DecSt) (raws : List RawI) (ois : List (Nat × Instr)),
        st0.names.args = names ∧ st0.varnames.args = varnames ∧ st0.cellvars.args = cellvars ∧ st0.consts.args = constants ∧ st0.lm = lm ∧
        parseBytes code = .ok raws ∧ decodeInstrs v T freevars st0 raws = .ok (st', ois) ∧ buildBlocks ois = .ok blocks := by
    intro st0 e1 e2 e3 e4 e5 hh
    obtain ⟨raws, hraws, hh⟩ := bind_ok hh
    obtain ⟨⟨st2, ois⟩, hdec, hh⟩ := bind_ok hh
    obtain ⟨bl, hbl, hh⟩ := bind_ok hh
    simp only [pure, Except.pure, Except.ok.injEq, Prod.mk.injEq] at hh
    obtain ⟨rfl, rfl⟩ := hh
    exact ⟨st0, raws, ois, e1, e2, e3, e4, e5, hraws, hdec, hbl⟩
  cases tp with
  | none =>
    obtain ⟨st0, hst0, h⟩ := bind_ok h
    simp only [pure, Except.pure, Except.ok.injEq] at hst0
    subst hst0
    exact key _ rfl hvnargs rfl rfl rfl h
  | some f =>
    dsimp only at h
    split at h
    · obtain ⟨st0, hst0, h⟩ := bind_ok h
      obtain ⟨⟨t, a, o⟩, hf, hst0⟩ := bind_ok hst0
      simp only [pure, Except.pure, Except.ok.injEq] at hst0
      subst hst0
      exact key _ rfl hvnargs rfl (foundIndex_int Const.keyEq _ t (0 : Int) a o hf).2.2 rfl h
    · obtain ⟨st0, hst0, h⟩ := bind_ok h
      simp only [pure, Except.pure, Except.ok.injEq] at hst0
      subst hst0
      exact key _ rfl hvnargs rfl rfl rfl h

/-- **`to_code_data` decomposed**: whenever it returns data, the data's blocks were built by `_parse_bytes`, `to_arg`
    (instruction by instruction) and the block grouping, from the code object's own bytecode and tables (constants with
    nested code objects decoded) and from its decoded line table made absolute with `co_firstlineno`. -/
theorem toCodeDataGo_decompose (v : Ver) (T : OpTable) (F : FlagTable) (dec : RawCode → R CodeData)
    (argc pos kw nl ss fl : Nat) (fln : Int) (code lt : List Nat) (fname name : PStr) (names varnames freevars cellvars : List PStr)
    (consts : List RConst) (d : CodeData)
    (h : toCodeDataGo v T F dec (.mk argc pos kw nl ss fl fln code lt fname name names varnames freevars cellvars consts) = .ok d) :
    ∃ (lm : LMap) (constants : List Const) (tp : Option Function) (ann nested : Bool) (args : Args) (st0 st' : DecSt) (raws : List RawI)
      (ois : List (Nat × Instr)) (blocks : List (List Instr)) (addLine : Option AdditionalLine) (addArgs : List Arg),
      LT.toLineMapping v.is310 lt code.length = .ok lm ∧
      consts.mapM (fun c => match c with | .inner i => pure (Const.inner i) | .code k => Const.code <$> dec k) = .ok constants ∧
      decodeHeader v F argc pos kw fl varnames freevars cellvars constants = .ok (tp, ann, nested, args) ∧
      st0.names.args = names ∧ st0.varnames.args = varnames ∧ st0.cellvars.args = cellvars ∧ st0.consts.args = constants ∧
      st0.lm = shiftLines lm fln ∧
      parseBytes code = .ok raws ∧ decodeInstrs v T freevars st0 raws = .ok (st', ois) ∧ buildBlocks ois = .ok blocks ∧
      decodeTail st' code.length = .ok (addLine, addArgs) ∧
      d = .mk blocks fname fln name ss tp freevars ann nested addLine addArgs := by
  unfold toCodeDataGo at h
  dsimp only at h
  split at h
  · exact absurd h (throw_bind_ne _ _)
  obtain ⟨lm, hlm, h⟩ := bind_ok h
  obtain ⟨constants, hconst, h⟩ := bind_ok h
  obtain ⟨⟨tp, ann, nested, args⟩, hhdr, h⟩ := bind_ok h
  obtain ⟨⟨st', blocks⟩, hbody, h⟩ := bind_ok h
  obtain ⟨⟨addLine, addArgs⟩, htail, h⟩ := bind_ok h
  simp only [pure, Except.pure, Except.ok.injEq] at h
  obtain ⟨st0, raws, ois, h1, h2, h3, h4, h5, h6, h7, h8⟩ := decodeBody_decompose _ _ _ _ _ _ _ _ _ _ _ _ _ hbody
  exact ⟨lm, constants, tp, ann, nested, args, st0, st', raws, ois, blocks, addLine, addArgs, hlm, hconst, hhdr, h1, h2, h3, h4, h5, h6, h7, h8, htail, h.symm⟩

end CDV
