import CDV.Schema
import CDVProofs.Json
/-! # `to_json_data` validates against the published `JSON_SCHEMA` (regenerated from the source on every run) -/
namespace CDV
open CDV.Extracted (jsonDefs jsonRoot)

abbrev D := jsonDefs

/-- a leaf schema (`{"type": t}`, possibly with an `enum`) -/
theorem valid_leaf (ty : Option JTy) (enum : Option (List String)) (j : Json) (h1 : tyOK ty j = true) (h2 : enumOK enum j = true)
    (hno : ∀ kvs, j ≠ .obj kvs) (hna : ∀ xs, j ≠ .arr xs) : Valid D (.node ty enum [] [] none) j :=
  Valid.node h1 h2 (fun kvs h => absurd h (hno kvs)) (fun kvs h => absurd h (hno kvs)) (fun xs s h => absurd h (hna xs))

/-- an object made of optional fields against an object schema -/
theorem valid_obj (req : List String) (props : List (String × Schema)) (l : List (String × Option Json))
    (hreq : ∀ r ∈ req, (jget r (fields l)).isSome = true)
    (hprops : ∀ k s v, (k, s) ∈ props → jget k (fields l) = some v → Valid D s v) :
    Valid D (.node (some .object) none req props none) (.obj (fields l)) := by
  apply Valid.node rfl rfl
  · intro kvs h r hr; cases h; exact hreq r hr
  · intro kvs h k s v hm hg; cases h; exact hprops k s v hm hg
  · intro xs s h; cases h

/-- an array against an array schema -/
theorem valid_arr (s : Schema) (xs : List Json) (h : ∀ x ∈ xs, Valid D s x) : Valid D (.node (some .array) none [] [] (some s)) (.arr xs) := by
  apply Valid.node rfl rfl
  · intro kvs h; cases h
  · intro kvs h; cases h
  · intro ys s' h1 h2 x hx; cases h1; cases h2; exact h x hx

theorem valid_integer (i : Int) (h : SmallInt i) : Valid D (.node (some .integer) none [] [] none) (jInt i) := by
  rw [jInt_small i h]
  exact valid_leaf _ _ _ rfl rfl (fun _ h => by cases h) (fun _ h => by cases h)

theorem valid_nat (n : Nat) (h : SmallInt n) : Valid D (.node (some .integer) none [] [] none) (jNat n) := valid_integer n h

theorem valid_bool (b : Bool) : Valid D (.node (some .boolean) none [] [] none) (.bool b) :=
  valid_leaf _ _ _ rfl rfl (fun _ h => by cases h) (fun _ h => by cases h)

/-- `ConstantString`: a plain string, or `{"string": repr}` for strings with lone surrogates -/
theorem valid_str (s : PStr) : Valid D (.ref "ConstantString") (jStr s) := by
  refine Valid.ref (by rfl : List.lookup "ConstantString" D = some _) ?_
  unfold jStr
  split
  · exact Valid.anyOf (s := .node (some .string) none [] [] none) (by simp)
      (valid_leaf _ _ _ rfl rfl (fun _ h => by cases h) (fun _ h => by cases h))
  · refine Valid.anyOf (s := .node (some .object) none ["string"] [("string", .node (some .string) none [] [] none)] none) (by simp) ?_
    have := valid_obj ["string"] [("string", .node (some .string) none [] [] none)] [("string", some (.reprOf s))]
      (by intro r hr; simp at hr; subst hr; rfl)
      (by
        intro k sc v hm hg
        simp at hm
        obtain ⟨rfl, rfl⟩ := hm
        simp [jget_fields_cons] at hg
        subst hg
        exact valid_leaf _ _ _ rfl rfl (fun _ h => by cases h) (fun _ h => by cases h))
    simpa [fields] using this

theorem valid_strs (xs : List PStr) : Valid D (.node (some .array) none [] [] (some (.ref "ConstantString"))) (jStrs xs) := by
  apply valid_arr
  intro x hx
  obtain ⟨s, _, rfl⟩ := List.mem_map.mp hx
  exact valid_str s

theorem valid_ints (xs : List Int) (h : ∀ x ∈ xs, SmallInt x) :
    Valid D (.node (some .array) none [] [] (some (.node (some .integer) none [] [] none))) (jInts xs) := by
  apply valid_arr
  intro x hx
  obtain ⟨i, hi, rfl⟩ := List.mem_map.mp hx
  exact valid_integer i (h i hi)

theorem mem_0 {α} {a : α} {l : List α} : a ∈ a :: l := List.Mem.head _
theorem mem_1 {α} {a b : α} {l : List α} : b ∈ a :: b :: l := List.Mem.tail _ mem_0
theorem mem_2 {α} {a b c : α} {l : List α} : c ∈ a :: b :: c :: l := List.Mem.tail _ mem_1
theorem mem_3 {α} {a b c d : α} {l : List α} : d ∈ a :: b :: c :: d :: l := List.Mem.tail _ mem_2
theorem mem_4 {α} {a b c d e : α} {l : List α} : e ∈ a :: b :: c :: d :: e :: l := List.Mem.tail _ mem_3
theorem mem_5 {α} {a b c d e f : α} {l : List α} : f ∈ a :: b :: c :: d :: e :: f :: l := List.Mem.tail _ mem_4
theorem mem_6 {α} {a b c d e f g : α} {l : List α} : g ∈ a :: b :: c :: d :: e :: f :: g :: l := List.Mem.tail _ mem_5
theorem mem_7 {α} {a b c d e f g h : α} {l : List α} : h ∈ a :: b :: c :: d :: e :: f :: g :: h :: l := List.Mem.tail _ mem_6
theorem mem_8 {α} {a b c d e f g h i : α} {l : List α} : i ∈ a :: b :: c :: d :: e :: f :: g :: h :: i :: l := List.Mem.tail _ mem_7
theorem mem_9 {α} {a b c d e f g h i j : α} {l : List α} : j ∈ a :: b :: c :: d :: e :: f :: g :: h :: i :: j :: l := List.Mem.tail _ mem_8

theorem valid_string_leaf (j : Json) (h : tyOK (some .string) j = true) : Valid D (.node (some .string) none [] [] none) j := by
  apply valid_leaf _ _ _ h rfl
  · intro kvs he; subst he; cases h
  · intro xs he; subst he; cases h

/-- a one-field object `{k: v}` against an object schema that requires `k` and constrains only `k` -/
theorem valid_obj1 (k : String) (sc : Schema) (v : Json) (hv : Valid D sc v) :
    Valid D (.node (some .object) none [k] [(k, sc)] none) (.obj [(k, v)]) := by
  have := valid_obj [k] [(k, sc)] [(k, some v)]
    (by intro r hr; simp at hr; subst hr; simp [jget_fields_cons])
    (by
      intro k' s' v' hm hg
      simp at hm
      obtain ⟨rfl, rfl⟩ := hm
      simp [jget_fields_cons] at hg
      subst hg
      exact hv)
  simpa [fields] using this

/-- `ConstantNumber`: a float -/
theorem valid_float (b : Nat) : Valid D (.ref "ConstantNumber") (jFloat b) := by
  refine Valid.ref (by rfl : List.lookup "ConstantNumber" D = some _) ?_
  unfold jFloat
  split
  · refine Valid.anyOf mem_0 ?_
    split
    · exact valid_obj1 "float" _ _ (valid_leaf _ _ _ rfl (by decide) (fun _ h => by cases h) (fun _ h => by cases h))
    · exact valid_obj1 "float" _ _ (valid_leaf _ _ _ rfl (by decide) (fun _ h => by cases h) (fun _ h => by cases h))
  · split
    · refine Valid.anyOf mem_0 ?_
      exact valid_obj1 "float" _ _ (valid_leaf _ _ _ rfl (by decide) (fun _ h => by cases h) (fun _ h => by cases h))
    · refine Valid.anyOf mem_2 ?_
      exact valid_leaf _ _ _ rfl rfl (fun _ h => by cases h) (fun _ h => by cases h)

/-- `ConstantNumber`: an int of any size (beyond ±2^53 as `{"int": "…"}`) -/
theorem valid_number_int (i : Int) : Valid D (.ref "ConstantNumber") (jInt i) := by
  refine Valid.ref (by rfl : List.lookup "ConstantNumber" D = some _) ?_
  unfold jInt
  split
  · refine Valid.anyOf mem_1 ?_
    exact valid_obj1 "int" _ _ (valid_string_leaf _ rfl)
  · refine Valid.anyOf mem_2 ?_
    exact valid_leaf _ _ _ rfl rfl (fun _ h => by cases h) (fun _ h => by cases h)

/-- an alternative of `ConstantValue` -/
theorem valid_cv {s : Schema} {j : Json} (hm : ∀ alts, List.lookup "ConstantValue" D = some (.anyOf alts) → s ∈ alts) (h : Valid D s j) :
    Valid D (.ref "ConstantValue") j := by
  refine Valid.ref (by rfl : List.lookup "ConstantValue" D = some _) ?_
  exact Valid.anyOf (hm _ rfl) h

mutual
theorem valid_inner : ∀ (c : InnerConst), Valid D (.ref "ConstantValue") (jInner c)
  | .none => valid_cv (fun _ h => by cases h; exact mem_1) (valid_leaf _ _ _ rfl rfl (fun _ h => by cases h) (fun _ h => by cases h))
  | .ellipsis => valid_cv (fun _ h => by cases h; exact mem_4)
      (Valid.ref (by rfl : List.lookup "ConstantEllipsis" D = some _)
        (valid_obj1 "type" _ _ (valid_leaf _ _ _ rfl (by decide) (fun _ h => by cases h) (fun _ h => by cases h))))
  | .bool b => valid_cv (fun _ h => by cases h; exact mem_0) (valid_bool b)
  | .int i => valid_cv (fun _ h => by cases h; exact mem_3) (valid_number_int i)
  | .float b => valid_cv (fun _ h => by cases h; exact mem_3) (valid_float b)
  | .complex r i => valid_cv (fun _ h => by cases h; exact mem_5) (by
      refine Valid.ref (by rfl : List.lookup "ConstantComplex" D = some _) ?_
      have := valid_obj ["real", "imag"] [("real", .ref "ConstantNumber"), ("imag", .ref "ConstantNumber")]
        [("real", some (jFloat r)), ("imag", some (jFloat i))]
        (by intro k hk; simp at hk; rcases hk with rfl | rfl <;> simp [jget_fields_cons])
        (by
          intro k sc v hm hg
          simp at hm
          rcases hm with ⟨rfl, rfl⟩ | ⟨rfl, rfl⟩
          · simp [jget_fields_cons] at hg; subst hg; exact valid_float r
          · simp [jget_fields_cons] at hg; subst hg; exact valid_float i)
      simpa [fields, jInner] using this)
  | .str s => valid_cv (fun _ h => by cases h; exact mem_2) (valid_str s)
  | .bytes h => valid_cv (fun _ h => by cases h; exact mem_8)
      (Valid.ref (by rfl : List.lookup "ConstantBytes" D = some _) (valid_obj1 "bytes" _ _ (valid_string_leaf _ rfl)))
  | .tuple xs => valid_cv (fun _ h => by cases h; exact mem_7)
      (Valid.ref (by rfl : List.lookup "ConstantTuple" D = some _) (valid_arr _ _ (valid_inners xs)))
  | .fset xs => valid_cv (fun _ h => by cases h; exact mem_6)
      (Valid.ref (by rfl : List.lookup "ConstantFrozenset" D = some _) (valid_obj1 "frozenset" _ _ (valid_arr _ _ (valid_inners xs))))
theorem valid_inners : ∀ (xs : List InnerConst), ∀ x ∈ jInners xs, Valid D (.ref "ConstantValue") x
  | [], x, h => by simp [jInners] at h
  | c :: cs, x, h => by
    simp only [jInners, List.mem_cons] at h
    rcases h with rfl | h
    · exact valid_inner c
    · exact valid_inners cs x h
end

theorem nonEmpty_some {α} (xs : List α) (j v : Json) (h : nonEmpty xs j = some v) : v = j := by
  unfold nonEmpty at h
  split at h
  · cases h
  · cases h; rfl

theorem valid_args (a : Args) : Valid D (.ref "Args") (jArgs a) := by
  refine Valid.ref (by rfl : List.lookup "Args" D = some _) ?_
  unfold jArgs
  apply valid_obj
  · intro r hr; cases hr
  · intro k sc v hm hg
    simp only [List.mem_cons, Prod.mk.injEq, List.not_mem_nil, or_false] at hm
    rcases hm with ⟨rfl, rfl⟩ | ⟨rfl, rfl⟩ | ⟨rfl, rfl⟩ | ⟨rfl, rfl⟩ | ⟨rfl, rfl⟩
    · simp [jget_fields_cons] at hg; rw [nonEmpty_some _ _ _ hg]; exact valid_strs _
    · simp [jget_fields_cons] at hg; rw [nonEmpty_some _ _ _ hg]; exact valid_strs _
    · simp [jget_fields_cons] at hg; obtain ⟨s, _, rfl⟩ := hg; exact valid_str s
    · simp [jget_fields_cons] at hg; rw [nonEmpty_some _ _ _ hg]; exact valid_strs _
    · simp [jget_fields_cons] at hg; obtain ⟨s, _, rfl⟩ := hg; exact valid_str s

theorem valid_function (f : Function) : Valid D (.ref "Function") (jFunction f) := by
  refine Valid.ref (by rfl : List.lookup "Function" D = some _) ?_
  unfold jFunction
  apply valid_obj
  · intro r hr; cases hr
  · intro k sc v hm hg
    simp only [List.mem_cons, Prod.mk.injEq, List.not_mem_nil, or_false] at hm
    rcases hm with ⟨rfl, rfl⟩ | ⟨rfl, rfl⟩ | ⟨rfl, rfl⟩
    · simp [jget_fields_cons] at hg
      rw [← hg.2]; exact valid_args _
    · simp [jget_fields_cons] at hg; obtain ⟨s, _, rfl⟩ := hg; exact valid_str s
    · simp [jget_fields_cons] at hg
      obtain ⟨t, _, rfl⟩ := hg
      cases t <;> exact valid_leaf _ _ _ rfl (by decide) (fun _ h => by cases h) (fun _ h => by cases h)

/-- `_additional_line` (the schema wants an integer line: an additional line *without* a line, which only a hand-altered
    3.10 line table produces, serializes as `null` and is not schema-valid) -/
theorem valid_addLine (a : AdditionalLine) (l : Int) (hl : a.line = some l) (h1 : SmallInt l) (h2 : ∀ x ∈ a.offs, SmallInt x) :
    Valid D (.ref "AdditionalLine") (jAddLine a) := by
  refine Valid.ref (by rfl : List.lookup "AdditionalLine" D = some _) ?_
  unfold jAddLine
  rw [hl]
  apply valid_obj
  · intro r hr; cases hr
  · intro k sc v hm hg
    simp only [List.mem_cons, Prod.mk.injEq, List.not_mem_nil, or_false] at hm
    rcases hm with ⟨rfl, rfl⟩ | ⟨rfl, rfl⟩
    · simp [jget_fields_cons] at hg; subst hg; exact valid_integer l h1
    · simp [jget_fields_cons] at hg; rw [nonEmpty_some _ _ _ hg]; exact valid_ints _ h2

mutual
/-- an additional line, where present (at any nesting depth), has a line -/
def AlConst : Const → Prop
  | .inner _ => True
  | .code d => AlCode d
def AlArg : Arg → Prop
  | .const c _ => AlConst c
  | _ => True
def AlInstr : Instr → Prop
  | .mk _ a _ _ _ => AlArg a
def AlInstrs : List Instr → Prop
  | [] => True
  | i :: is => AlInstr i ∧ AlInstrs is
def AlBlocks : List (List Instr) → Prop
  | [] => True
  | b :: bs => AlInstrs b ∧ AlBlocks bs
def AlArgs : List Arg → Prop
  | [] => True
  | a :: as => AlArg a ∧ AlArgs as
def AlCode : CodeData → Prop
  | .mk bl _ _ _ _ _ _ _ _ al aa => AlBlocks bl ∧ (∀ a, al = some a → a.line.isSome = true) ∧ AlArgs aa
end

def intSchema : Schema := .node (some .integer) none [] [] none

/-- the schema of `Instruction.arg` -/
def argSchema : Schema := .anyOf [.ref "Jump", .ref "Name", .ref "Varname", .ref "Constant", .ref "Freevar", .ref "Cellvar", .ref "NoArg", intSchema]
/-- the schema of the entries of `_additional_args` -/
def addArgSchema : Schema := .anyOf [.ref "Name", .ref "Varname", .ref "Cellvar", .ref "Constant"]

/-- the definition an operand's JSON form validates against -/
def kindSchema : Arg → Schema
  | .raw _ => intSchema
  | .jump .. => .ref "Jump"
  | .name .. => .ref "Name"
  | .varname .. => .ref "Varname"
  | .const .. => .ref "Constant"
  | .free _ => .ref "Freevar"
  | .cell .. => .ref "Cellvar"
  | .noarg _ => .ref "NoArg"

/-- `{key: <string>, "_index_override": <int>?}` against one of `Name` / `Varname` / `Cellvar` -/
theorem valid_named (defName key : String) (s : PStr) (o : Option Nat) (ho : SmallOpt o)
    (hl : List.lookup defName D = some (.node (some .object) none [key] [(key, .ref "ConstantString"), ("_index_override", intSchema)] none))
    (hk : (key == "_index_override") = false) :
    Valid D (.ref defName) (.obj (fields [(key, some (jStr s)), ("_index_override", o.map jNat)])) := by
  refine Valid.ref hl ?_
  apply valid_obj
  · intro r hr; simp at hr; subst hr; simp [jget_fields_cons]
  · intro k sc v hm hg
    simp only [List.mem_cons, Prod.mk.injEq, List.not_mem_nil, or_false] at hm
    rcases hm with ⟨rfl, rfl⟩ | ⟨rfl, rfl⟩
    · simp [jget_fields_cons] at hg; subst hg; exact valid_str s
    · have hk' : ("_index_override" == key) = false := by
        rw [Bool.eq_false_iff] at hk ⊢
        intro h; apply hk; simp at h ⊢; exact h.symm
      simp [jget_fields_cons, hk'] at hg
      obtain ⟨n, hn, rfl⟩ := hg
      exact valid_nat n (ho n hn)

theorem valid_jump (t : Nat) (r : Bool) (h : SmallInt t) : Valid D (.ref "Jump") (jArg (.jump t r)) := by
  refine Valid.ref (by rfl : List.lookup "Jump" D = some _) ?_
  simp only [jArg]
  apply valid_obj
  · intro k hk; simp at hk; subst hk; simp [jget_fields_cons]
  · intro k sc v hm hg
    simp only [List.mem_cons, Prod.mk.injEq, List.not_mem_nil, or_false] at hm
    rcases hm with ⟨rfl, rfl⟩ | ⟨rfl, rfl⟩
    · simp [jget_fields_cons] at hg; subst hg; exact valid_nat t h
    · simp [jget_fields_cons] at hg; rw [← hg.2]; exact valid_bool true

theorem valid_noarg (a : Int) (h : SmallInt a) : Valid D (.ref "NoArg") (jArg (.noarg a)) := by
  refine Valid.ref (by rfl : List.lookup "NoArg" D = some _) ?_
  simp only [jArg]
  apply valid_obj
  · intro k hk; cases hk
  · intro k sc v hm hg
    simp only [List.mem_cons, Prod.mk.injEq, List.not_mem_nil, or_false] at hm
    obtain ⟨rfl, rfl⟩ := hm
    simp [jget_fields_cons] at hg
    rw [← hg.2]; exact valid_integer a h

theorem valid_free (s : PStr) : Valid D (.ref "Freevar") (jArg (.free s)) := by
  refine Valid.ref (by rfl : List.lookup "Freevar" D = some _) ?_
  simp only [jArg]
  apply valid_obj
  · intro k hk; simp at hk; subst hk; simp [jget_fields_cons]
  · intro k sc v hm hg
    simp only [List.mem_cons, Prod.mk.injEq, List.not_mem_nil, or_false] at hm
    obtain ⟨rfl, rfl⟩ := hm
    simp [jget_fields_cons] at hg; subst hg; exact valid_str s

mutual
theorem valid_const : ∀ (c : Const), WfConst c → AlConst c → Valid D (.ref "ConstantValue") (jConst c)
  | .inner c, _, _ => by simp only [jConst]; exact valid_inner c
  | .code d, hw, ha => by
    simp only [jConst]
    exact valid_cv (fun _ h => by cases h; exact mem_9) (valid_code d (by simpa [WfConst] using hw) (by simpa [AlConst] using ha))
theorem valid_arg_kind : ∀ (a : Arg), WfArg a → AlArg a → Valid D (kindSchema a) (jArg a)
  | .raw n, hw, _ => by simp only [jArg, kindSchema]; exact valid_integer n (by simpa [WfArg] using hw)
  | .jump t r, hw, _ => valid_jump t r (by simpa [WfArg] using hw)
  | .name s o, hw, _ => by
    simp only [jArg, kindSchema]
    exact valid_named "Name" "name" s o (by simpa [WfArg] using hw) (by rfl) (by decide)
  | .varname s o, hw, _ => by
    simp only [jArg, kindSchema]
    exact valid_named "Varname" "varname" s o (by simpa [WfArg] using hw) (by rfl) (by decide)
  | .cell s o, hw, _ => by
    simp only [jArg, kindSchema]
    exact valid_named "Cellvar" "cellvar" s o (by simpa [WfArg] using hw) (by rfl) (by decide)
  | .free s, _, _ => valid_free s
  | .noarg a, hw, _ => valid_noarg a (by simpa [WfArg] using hw)
  | .const c o, hw, ha => by
    simp only [WfArg] at hw
    simp only [jArg, kindSchema]
    refine Valid.ref (by rfl : List.lookup "Constant" D = some _) ?_
    apply valid_obj
    · intro k hk; cases hk
    · intro k sc v hm hg
      simp only [List.mem_cons, Prod.mk.injEq, List.not_mem_nil, or_false] at hm
      rcases hm with ⟨rfl, rfl⟩ | ⟨rfl, rfl⟩
      · simp [jget_fields_cons] at hg; subst hg; exact valid_const c hw.1 (by simpa [AlArg] using ha)
      · simp [jget_fields_cons] at hg
        obtain ⟨n, hn, rfl⟩ := hg
        exact valid_nat n (hw.2 n hn)
theorem valid_instr : ∀ (i : Instr), WfInstr i → AlInstr i → Valid D (.ref "Instruction") (jInstr i)
  | .mk op a n l o, hw, ha => by
    simp only [WfInstr] at hw
    obtain ⟨hwa, hwn, hwl, hwo⟩ := hw
    refine Valid.ref (by rfl : List.lookup "Instruction" D = some _) ?_
    simp only [jInstr]
    apply valid_obj
    · intro k hk; simp at hk; subst hk; simp [jget_fields_cons]
    · intro k sc v hm hg
      simp only [List.mem_cons, Prod.mk.injEq, List.not_mem_nil, or_false] at hm
      rcases hm with ⟨rfl, rfl⟩ | ⟨rfl, rfl⟩ | ⟨rfl, rfl⟩ | ⟨rfl, rfl⟩ | ⟨rfl, rfl⟩
      · simp [jget_fields_cons] at hg; subst hg; exact valid_string_leaf _ rfl
      · simp [jget_fields_cons] at hg
        rw [← hg.2]
        have hk := valid_arg_kind a hwa (by simpa [AlInstr] using ha)
        cases a with
        | raw n => exact Valid.anyOf mem_7 hk
        | jump t r => exact Valid.anyOf mem_0 hk
        | name s o => exact Valid.anyOf mem_1 hk
        | varname s o => exact Valid.anyOf mem_2 hk
        | const c o => exact Valid.anyOf mem_3 hk
        | free s => exact Valid.anyOf mem_4 hk
        | cell s o => exact Valid.anyOf mem_5 hk
        | noarg x => exact Valid.anyOf mem_6 hk
      · simp [jget_fields_cons] at hg
        obtain ⟨m, hm', rfl⟩ := hg
        exact valid_nat m (hwn m hm')
      · simp [jget_fields_cons] at hg
        obtain ⟨m, hm', rfl⟩ := hg
        exact valid_integer m (hwl m hm')
      · simp [jget_fields_cons] at hg
        rw [nonEmpty_some _ _ _ hg]; exact valid_ints _ hwo
theorem valid_instrs : ∀ (is : List Instr), WfInstrs is → AlInstrs is → ∀ x ∈ jInstrs is, Valid D (.ref "Instruction") x
  | [], _, _, x, h => by simp [jInstrs] at h
  | i :: is, hw, ha, x, h => by
    simp only [jInstrs, List.mem_cons] at h
    simp only [WfInstrs] at hw
    simp only [AlInstrs] at ha
    rcases h with rfl | h
    · exact valid_instr i hw.1 ha.1
    · exact valid_instrs is hw.2 ha.2 x h
theorem valid_blocks : ∀ (bl : List (List Instr)), WfBlocks bl → AlBlocks bl →
    ∀ x ∈ jBlocks bl, Valid D (.node (some .array) none [] [] (some (.ref "Instruction"))) x
  | [], _, _, x, h => by simp [jBlocks] at h
  | b :: bs, hw, ha, x, h => by
    simp only [jBlocks, List.mem_cons] at h
    simp only [WfBlocks] at hw
    simp only [AlBlocks] at ha
    rcases h with rfl | h
    · exact valid_arr _ _ (valid_instrs b hw.1 ha.1)
    · exact valid_blocks bs hw.2 ha.2 x h
theorem valid_arglist : ∀ (as : List Arg), WfAddArgs as → AlArgs as → ∀ x ∈ jArgList as, Valid D addArgSchema x
  | [], _, _, x, h => by simp [jArgList] at h
  | a :: as, hw, ha, x, h => by
    simp only [jArgList, List.mem_cons] at h
    simp only [WfAddArgs] at hw
    simp only [AlArgs] at ha
    rcases h with rfl | h
    · have hk := valid_arg_kind a hw.1.1 ha.1
      have hkind := hw.1.2
      cases a with
      | name s o => exact Valid.anyOf mem_0 hk
      | varname s o => exact Valid.anyOf mem_1 hk
      | cell s o => exact Valid.anyOf mem_2 hk
      | const c o => exact Valid.anyOf mem_3 hk
      | raw n => exact absurd hkind (by simp)
      | jump t r => exact absurd hkind (by simp)
      | free s => exact absurd hkind (by simp)
      | noarg x => exact absurd hkind (by simp)
    · exact valid_arglist as hw.2 ha.2 x h
theorem valid_code : ∀ (d : CodeData), WfCode d → AlCode d → Valid D (.ref "CodeData") (jCodeData d)
  | .mk bl fname fl name ss tp fv fut nested al aa, hw, ha => by
    simp only [WfCode] at hw
    obtain ⟨hwb, hwfl, hwss, hwal, hwaa⟩ := hw
    simp only [AlCode] at ha
    obtain ⟨hab, haal, haaa⟩ := ha
    refine Valid.ref (by rfl : List.lookup "CodeData" D = some _) ?_
    simp only [jCodeData]
    apply valid_obj
    · intro k hk
      simp at hk
      rcases hk with rfl | rfl | rfl | rfl | rfl <;> simp [jget_fields_cons]
    · intro k sc v hm hg
      simp only [List.mem_cons, Prod.mk.injEq, List.not_mem_nil, or_false] at hm
      rcases hm with ⟨rfl, rfl⟩ | ⟨rfl, rfl⟩ | ⟨rfl, rfl⟩ | ⟨rfl, rfl⟩ | ⟨rfl, rfl⟩ | ⟨rfl, rfl⟩ | ⟨rfl, rfl⟩ | ⟨rfl, rfl⟩ | ⟨rfl, rfl⟩ | ⟨rfl, rfl⟩
      · simp [jget_fields_cons] at hg; subst hg; exact valid_arr _ _ (valid_blocks bl hwb hab)
      · simp [jget_fields_cons] at hg; subst hg; exact valid_str fname
      · simp [jget_fields_cons] at hg; subst hg; exact valid_integer fl hwfl
      · simp [jget_fields_cons] at hg; subst hg; exact valid_str name
      · simp [jget_fields_cons] at hg; subst hg; exact valid_nat ss hwss
      · simp [jget_fields_cons] at hg
        obtain ⟨f, _, rfl⟩ := hg
        exact valid_function f
      · simp [jget_fields_cons] at hg
        rw [nonEmpty_some _ _ _ hg]; exact valid_strs fv
      · simp [jget_fields_cons] at hg
        rw [← hg.2]; exact valid_bool true
      · simp [jget_fields_cons] at hg
        obtain ⟨a, rfl, rfl⟩ := hg
        have h1 := hwal a rfl
        have h2 := haal a rfl
        obtain ⟨l, hl⟩ := Option.isSome_iff_exists.mp h2
        exact valid_addLine a l hl (h1.1 l hl) h1.2
      · simp [jget_fields_cons] at hg
        rw [nonEmpty_some _ _ _ hg]
        exact valid_arr _ _ (valid_arglist aa hwaa haaa)
end

end CDV
