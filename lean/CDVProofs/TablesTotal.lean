import CDVProofs.TablesTop
import CDVProofs.Canon
import CDVProofs.Relax
import CDVProofs.Props.C03
/-! # `blocks_to_bytes` succeeds on what `bytes_to_blocks` decoded -/
namespace CDV
open CDV.Props.C09 (keyEquiv_str keyEquiv_const)
open CDV.LT (LMap)

section
variable {α : Type}

theorem insertByKey_keys (x : Nat × α) : ∀ (l : List (Nat × α)), x.1 ∉ l.map Prod.fst →
    (insertByKey x l).map Prod.fst = insertSorted x.1 (l.map Prod.fst)
  | [], _ => rfl
  | y :: ys, h => by
    simp only [List.map_cons, List.mem_cons, not_or] at h
    simp only [insertByKey, List.map_cons, insertSorted]
    split
    · rfl
    · rw [if_neg h.1]
      simp only [List.map_cons]
      rw [insertByKey_keys x ys h.2]

theorem foldl_insertByKey_keys : ∀ (l acc : List (Nat × α)), (l.map Prod.fst).Nodup → (∀ k ∈ l.map Prod.fst, k ∉ acc.map Prod.fst) →
    (l.foldl (fun acc x => insertByKey x acc) acc).map Prod.fst = (l.map Prod.fst).foldl (fun a t => insertSorted t a) (acc.map Prod.fst)
  | [], acc, _, _ => rfl
  | x :: l, acc, hn, hd => by
    simp only [List.map_cons, List.nodup_cons] at hn
    simp only [List.foldl_cons, List.map_cons]
    rw [foldl_insertByKey_keys l (insertByKey x acc) hn.2 ?_, insertByKey_keys x acc (hd x.1 (by simp))]
    intro k hk hin
    rw [insertByKey_keys x acc (hd x.1 (by simp)), insertSorted_mem] at hin
    rcases hin with rfl | hin
    · exact hn.1 hk
    · exact hd k (by simp [hk]) hin

theorem range_sorted : ∀ n, SortedLt (List.range n) := by
  intro n
  simp only [SortedLt, List.pairwise_iff_getElem]
  intro i j hi hj hij
  simp only [List.getElem_range]
  exact hij

/-- a complete table can be emitted -/
theorem complete_toTuple_ok {keyEq : α → α → Bool} (args : List α) (e : FromArgs α) (hc : TableComplete keyEq args e) :
    ∃ tbl, e.toTuple = .ok tbl := by
  unfold FromArgs.toTuple
  dsimp only
  have hkeys : (e.iToArg.foldl (fun acc x => insertByKey x acc) []).map Prod.fst =
      (e.iToArg.map Prod.fst).foldl (fun a t => insertSorted t a) [] :=
    foldl_insertByKey_keys e.iToArg [] hc.nodup (by simp)
  have hsorted : SortedLt ((e.iToArg.map Prod.fst).foldl (fun a t => insertSorted t a) []) :=
    foldl_insertSorted_sorted _ _ (by simp [SortedLt])
  have hmem : ∀ x, x ∈ (e.iToArg.map Prod.fst).foldl (fun a t => insertSorted t a) [] ↔ x ∈ List.range args.length := by
    intro x
    rw [foldl_insertSorted_mem]
    simp only [List.not_mem_nil, or_false, List.mem_range]
    constructor
    · intro hx
      obtain ⟨⟨k, a⟩, hm, hk⟩ := List.mem_map.mp hx
      dsimp only at hk; subst hk
      exact (List.getElem?_eq_some_iff.mp (hc.vals k a hm)).1
    · exact hc.all x
  have heq := sorted_ext _ _ hsorted (range_sorted args.length) hmem
  have hlen : (e.iToArg.foldl (fun acc x => insertByKey x acc) []).length = args.length := by
    have := congrArg List.length (hkeys.trans heq)
    simpa using this
  have hcond : (List.map (fun x => x.fst) (List.foldl (fun acc x => insertByKey x acc) [] e.iToArg) ==
      List.range (List.foldl (fun acc x => insertByKey x acc) [] e.iToArg).length) = true := by
    rw [hlen]
    simp only [beq_iff_eq]
    exact hkeys.trans heq
  rw [if_pos hcond]
  exact ⟨_, rfl⟩

end

/-- with every jump pointing at an existing block, a pass of the width loop does not raise -/
theorem relaxGo_ok (v : Ver) (starts offs : List Nat) : ∀ (is : List Instr) (as : List Int) (k : Nat),
    (∀ i ∈ is, ∀ t r, i.arg = .jump t r → t < starts.length) → ∃ r, relaxGo v starts offs is as k = .ok r := by
  intro is
  induction is with
  | nil => intro as k _; exact ⟨_, rfl⟩
  | cons i is ih =>
    intro as k hv
    cases as with
    | nil => exact ⟨_, rfl⟩
    | cons a as =>
      obtain ⟨⟨r, ch⟩, hr⟩ := ih as (k + 1) (fun j hj => hv j (by simp [hj]))
      rw [relaxGo, hr]
      simp only [bind, Except.bind]
      cases harg : i.arg with
      | jump t rel =>
        have hlt := hv i (by simp) t rel harg
        have : starts[t]? = some starts[t] := List.getElem?_eq_getElem hlt
        simp only [this]
        exact ⟨_, rfl⟩
      | _ => exact ⟨_, rfl⟩

theorem relax_not_raised (v : Ver) (instrs : List Instr) (starts : List Nat)
    (hv : ∀ i ∈ instrs, ∀ t r, i.arg = .jump t r → t < starts.length) :
    ∀ (fuel : Nat) (A : List Int), relax v instrs starts fuel A ≠ .error .raised := by
  intro fuel
  induction fuel with
  | zero => intro A h; simp [relax, throw, throwThe, MonadExceptOf.throw] at h
  | succ f ih =>
    intro A h
    rw [relax] at h
    obtain ⟨⟨r, ch⟩, hr⟩ := relaxGo_ok v starts (prefixSums ((instrs.zip A).map (fun (i, a) => sizeOfI i.nov a)) 0) instrs A 0 hv
    have hp : relaxPass v instrs starts A = .ok (r, ch) := hr
    rw [hp] at h
    simp only [bind, Except.bind] at h
    cases ch with
    | true => simp only [if_true] at h; exact ih r h
    | false => simp [pure, Except.pure] at h

/-- **`blocks_to_bytes` returns on what `bytes_to_blocks` decoded** (given that every decoded jump designates a block that
    exists — which holds when jump targets are instruction starts, C13). -/
theorem body_encodes (v : Ver) (T : OpTable) (names varnames freevars cellvars : List PStr) (K : List Const) (lm : LMap)
    (tp : Option Function) (np : Nat) (code : List Nat) (st' : DecSt) (blocks : List (List Instr)) (n : Nat)
    (al : Option AdditionalLine) (aa : List Arg)
    (hbody : decodeBody v T names varnames freevars cellvars K lm tp np code = .ok (st', blocks))
    (htail : decodeTail st' n = .ok (al, aa))
    (hdoc : ∀ f, tp = some f → f.doc = firstStr K)
    (hnone : tp = none → np = 0)
    (hvo : ∀ f, tp = some f → f.args.varnameOrder = varnames.take np ∧ np ≤ varnames.length)
    (hjv : ∀ i ∈ blocks.flatten, ∀ t r, i.arg = .jump t r → t < blocks.length) :
    ∃ out, blocksToBytes v blocks aa freevars tp = .ok out := by
  obtain ⟨st0, raws, ois, hn0, hv0, hc0, hk1, hk0, hraws, hdec, hbl⟩ :=
    decodeBody_seeds v T names varnames freevars cellvars K lm tp np code st' blocks hbody
  have hflat := (CDV.Props.C13.C13_partition ois blocks hbl).2
  obtain ⟨an, av, ac, ak, han, hav, hac, hak, haa⟩ := decodeTail_args st' n al aa htail
  -- the tables as seeded on both sides
  have init : ∃ est0, encInit tp = .ok est0 ∧ est0.names = {} ∧ est0.cellvars = {} ∧ Sim strEq varnames st0.varnames est0.varnames ∧
      Sim Const.keyEq K st0.consts est0.consts := by
    cases tp with
    | none =>
      have hnp := hnone rfl
      subst hnp
      simp only [List.range_zero, seedFound, pure, Except.pure, Except.ok.injEq] at hv0
      refine ⟨{}, rfl, rfl, rfl, ?_, ?_⟩
      · rw [← hv0]; exact Sim.init _ _
      · rw [hk0 (by simp [docSome])]; exact Sim.init _ _
    | some f =>
      obtain ⟨hvo1, hvo2⟩ := hvo f rfl
      have hlen : (varnames.take np).length = np := by simp [List.length_take]; omega
      obtain ⟨e', hseed, hsv⟩ := seed_lockstep varnames (varnames.take np) 0 ⟨varnames, [], []⟩ st0.varnames {} (Sim.init _ _)
        (by intro k hk; simp at hk)
        (by intro j hj; simp only [Nat.zero_add]; rw [List.getElem?_take]; rw [hlen] at hj; simp [hj])
        (by rw [hlen, ← List.range_eq_range']; exact hv0)
      have hdf := hdoc f rfl
      cases hd : f.doc with
      | some s =>
        rw [hd] at hdf
        obtain ⟨a, o, hf⟩ := hk1 (by simp [docSome, hd])
        obtain ⟨e'', hset, hsk⟩ := sim_set_first keyEquiv_const K ⟨K, [], []⟩ {} (Sim.init _ _) 0 st0.consts a o hf rfl
        have ha : a = .inner (.str s) := by
          have hget := (foundIndex_ok _ 0 _ _ _ hf).1
          dsimp only at hget
          cases K with
          | nil => simp at hget
          | cons k0 K' =>
            simp only [List.getElem?_cons_zero, Option.some.injEq] at hget
            subst hget
            cases k0 with
            | code c => simp [firstStr] at hdf
            | inner i => cases i <;> simp [firstStr] at hdf; rw [hdf]
        subst ha
        refine ⟨{ varnames := e', consts := e'' }, ?_, rfl, rfl, hsv, hsk⟩
        simp only [encInit, hvo1, hseed, hd, hset, bind, Except.bind, pure, Except.pure]
      | none =>
        refine ⟨{ varnames := e' }, ?_, rfl, rfl, hsv, ?_⟩
        · simp only [encInit, hvo1, hseed, hd, bind, Except.bind, pure, Except.pure]
        · rw [hk0 (by simp [docSome, hd])]; exact Sim.init _ _
  obtain ⟨est0, h0, en0, ec0, hsv0, hsk0⟩ := init
  -- first pass
  obtain ⟨e1, hcol, hs1⟩ := decodeInstrs_collect v T freevars cellvars (targetsOf ois) raws st0 st' {} ois
    (by rw [hc0]; exact Sim.init _ _) hdec
  obtain ⟨e2, hrun2, hcomp2⟩ := sim_all_complete keyEquiv_str cellvars st'.cellvars e1 hs1 (fun t a o => t.add strEq a o)
    (fun _ _ _ _ _ _ _ _ => rfl) ac hac
  have hcv : collectCells est0.cellvars (blocks.flatten.map Instr.arg ++ aa) = .ok e2 := by
    rw [ec0, hflat, hcol aa, haa]
    rw [collectCells_skip _ _ _ (by intro a ha s o hh; obtain ⟨p, _, rfl⟩ := List.mem_map.mp ha; cases hh)]
    rw [collectCells_skip _ _ _ (by intro a ha s o hh; obtain ⟨p, _, rfl⟩ := List.mem_map.mp ha; cases hh)]
    rw [collectCells_cells, hrun2]
    simp only [bind, Except.bind]
    rw [collectCells_skip _ _ _ (by intro a ha s o hh; obtain ⟨p, _, rfl⟩ := List.mem_map.mp ha; cases hh)]
    rfl
  -- second pass
  have hsim0 : SimSt names varnames cellvars K st0 { est0 with cellvars := e2 } :=
    ⟨by rw [hn0, en0]; exact Sim.init _ _, hsv0, hsk0, hcomp2, by rw [hc0]⟩
  obtain ⟨est1, xs, hres, hss, hxlen, hxval⟩ := decodeInstrs_resolve v T freevars tp names varnames cellvars K hdoc (targetsOf ois) raws st0 st'
    { est0 with cellvars := e2 } ois hsim0 hdec
  rw [← hflat] at hres
  -- the width loop
  have hrelax : ∃ res, relax v blocks.flatten (blockStarts blocks 0) (3 * (blocks.flatten.filter fun i => isJump i.arg).length + 3) xs = .ok res := by
    cases hr : relax v blocks.flatten (blockStarts blocks 0) (3 * (blocks.flatten.filter fun i => isJump i.arg).length + 3) xs with
    | ok res => exact ⟨res, rfl⟩
    | error e =>
      have he := CDV.Props.C03.C03_loop_terminates v tp freevars _ _ blocks.flatten (blockStarts blocks 0) xs hres e hr
      subst he
      exact absurd hr (relax_not_raised v blocks.flatten (blockStarts blocks 0) (by rw [blockStarts_length]; exact hjv) _ _)
  obtain ⟨res, hrel⟩ := hrelax
  -- the additional entries
  obtain ⟨fn, hfn, hcn⟩ := sim_all_complete keyEquiv_str names st'.names est1.names hss.names (fun t a o => t.add strEq a o)
    (fun _ _ _ _ _ _ _ _ => rfl) an han
  obtain ⟨fvn, hfvn, hcvn⟩ := sim_all_complete keyEquiv_str varnames st'.varnames est1.varnames hss.varnames (fun t a o => t.add strEq a o)
    (fun _ _ _ _ _ _ _ _ => rfl) av hav
  obtain ⟨fc, hfc, hcc⟩ := complete_run keyEquiv_str cellvars ac est1.cellvars hss.cells
    (additionalGo_ops cellvars _ st'.cellvars ac (by
      have := (decodeInstrs_ok v T freevars raws st0 st' ois hdec).1.cellvars
      rw [this, hc0]) hac)
  obtain ⟨fk, hfk, hck⟩ := sim_all_complete keyEquiv_const K st'.consts est1.consts hss.consts (fun t a o => fromConstArg tp t a o)
    (fun d e idx d' a ov hs hf => fromConstArg_eq_add tp K hdoc d e hs idx d' a ov hf) ak hak
  have hadd : addAdditional tp freevars est1 aa = .ok { names := fn, varnames := fvn, cellvars := fc, consts := fk } := by
    rw [haa, addAdditional_ops_names, hfn]
    simp only [bind, Except.bind]
    rw [addAdditional_ops_varnames]
    dsimp only
    rw [hfvn]
    simp only [bind, Except.bind]
    rw [addAdditional_ops_cells]
    dsimp only
    rw [hfc]
    simp only [bind, Except.bind]
    rw [addAdditional_ops_constants]
    dsimp only
    rw [hfk]
    rfl
  obtain ⟨tn, htn⟩ := complete_toTuple_ok names fn hcn
  obtain ⟨tv, htv⟩ := complete_toTuple_ok varnames fvn hcvn
  obtain ⟨tc, htc⟩ := complete_toTuple_ok cellvars fc hcc
  obtain ⟨tk, htk⟩ := complete_toTuple_ok K fk hck
  simp only [blocksToBytes, h0, hcv, hres, hrel, hadd, htn, htv, htc, htk, bind, Except.bind, pure, Except.pure]
  exact ⟨_, rfl⟩

/-- **`from_code` then `blocks_to_bytes`: returns, with the original four operand tables.** -/
theorem decoded_encodes (v : Ver) (T : OpTable) (F : FlagTable) (dec : RawCode → R CodeData)
    (argc pos kw nl ss fl : Nat) (fln : Int) (code lt : List Nat) (fname name : PStr) (names varnames freevars cellvars : List PStr)
    (consts : List RConst) (d : CodeData)
    (h : toCodeDataGo v T F dec (.mk argc pos kw nl ss fl fln code lt fname name names varnames freevars cellvars consts) = .ok d)
    (hlen : argc + kw + (if fl.testBit bVARARGS then 1 else 0) + (if fl.testBit bVARKEYWORDS then 1 else 0) ≤ varnames.length)
    (hnodup : (varnames.take (argc + kw + (if fl.testBit bVARARGS then 1 else 0) + (if fl.testBit bVARKEYWORDS then 1 else 0))).Nodup)
    (hjv : ∀ i ∈ d.blocks.flatten, ∀ t r, i.arg = .jump t r → t < d.blocks.length) :
    ∃ (K : List Const) (out : BlocksOut),
      consts.mapM (fun c => match c with | .inner i => pure (Const.inner i) | .code k => Const.code <$> dec k) = .ok K ∧
      blocksToBytes v d.blocks d.addArgs d.freevars d.type = .ok out ∧
      out.names = names ∧ out.varnames = varnames ∧ out.cellvars = cellvars ∧ out.consts = K := by
  have h' := h
  unfold toCodeDataGo at h
  dsimp only at h
  split at h
  · exact absurd h (throw_bind_ne _ _)
  obtain ⟨lm, hlm, h⟩ := bind_ok h
  obtain ⟨K, hK, h⟩ := bind_ok h
  obtain ⟨⟨tp, ann, nested, args⟩, hhdr, h⟩ := bind_ok h
  obtain ⟨⟨st', blocks⟩, hbody, h⟩ := bind_ok h
  obtain ⟨⟨al, aa⟩, htail, h⟩ := bind_ok h
  simp only [pure, Except.pure, Except.ok.injEq] at h
  subst h
  obtain ⟨hnone, hsome, _⟩ := decodeHeader_tp v F argc pos kw fl varnames freevars cellvars K tp ann nested args hhdr
  have hargs := decodeHeader_args v F argc pos kw fl varnames freevars cellvars K tp ann nested args hhdr
  obtain ⟨r1, r2, r3, r4, r5, r6, r7⟩ := header_args_roundtrip argc _ kw varnames _ _ args hargs hlen hnodup
  have hnp : args.len = argc + kw + (if fl.testBit bVARARGS then 1 else 0) + (if fl.testBit bVARKEYWORDS then 1 else 0) := by
    unfold Args.len
    rw [r6, r4, r5]
    omega
  obtain ⟨out, hout⟩ := body_encodes v T names varnames freevars cellvars K (shiftLines lm fln) tp args.len code st' blocks code.length al aa
    hbody htail (fun f hf => (hsome f hf).2) hnone (fun f hf => by rw [(hsome f hf).1, r7, hnp]; exact ⟨rfl, hlen⟩) hjv
  refine ⟨K, out, hK, hout, ?_⟩
  exact body_tables v T names varnames freevars cellvars K (shiftLines lm fln) tp args.len code st' blocks code.length al aa out hbody htail
    (fun f hf => (hsome f hf).2) hnone (fun f hf => by rw [(hsome f hf).1, r7, hnp]; exact ⟨rfl, hlen⟩) hout

end CDV
