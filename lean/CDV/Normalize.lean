import CDV.Encode
/-! Model of code_data/_normalize.py and of CodeData.__iter__ / all_code_data. -/
namespace CDV

mutual
def normConst : Const → Const
  | .inner c => .inner c
  | .code d => .code (normCode d)
def normArg : Arg → Arg
  | .raw n => .raw n
  | .jump t r => .jump t r
  | .name s _ => .name s none
  | .varname s _ => .varname s none
  | .const c _ => .const (normConst c) none
  | .free s => .free s
  | .cell s _ => .cell s none
  | .noarg _ => .noarg 0
def normInstr : Instr → Instr
  | .mk op a _ l _ => .mk op (normArg a) none l []
def normInstrs : List Instr → List Instr
  | [] => []
  | i :: is => normInstr i :: normInstrs is
def normBlocks : List (List Instr) → List (List Instr)
  | [] => []
  | b :: bs => normInstrs b :: normBlocks bs
/-- `normalize` on a CodeData -/
def normCode : CodeData → CodeData
  | .mk bl fname fl name ss tp fv fut _ _ _ => .mk (normBlocks bl) fname fl name ss tp fv fut false none []
end

def CodeData.blocks : CodeData → List (List Instr) | .mk bl .. => bl
def CodeData.type : CodeData → Option Function | .mk _ _ _ _ _ tp .. => tp
def CodeData.addArgs : CodeData → List Arg | .mk _ _ _ _ _ _ _ _ _ _ aa => aa
def CodeData.freevars : CodeData → List PStr | .mk _ _ _ _ _ _ fv .. => fv

/-- the constants table as `CodeData.__iter__` rebuilds it -/
def iterTable (tp : Option Function) : FromArgs Const → List Arg → R (FromArgs Const)
  | t, [] => pure t
  | t, .const c o :: as => do
    let (t, _) ← fromConstArg tp t c o
    iterTable tp t as
  | t, _ :: as => iterTable tp t as

def codeConsts : List (Nat × Const) → List CodeData
  | [] => []
  | (_, .code d) :: r => d :: codeConsts r
  | _ :: r => codeConsts r

/-- `list(code_data)` : the directly nested CodeData, in table order -/
def iterCode (d : CodeData) : R (List CodeData) := do
  let st ← encInit d.type
  let t ← iterTable d.type st.consts (d.blocks.flatten.map Instr.arg ++ d.addArgs)
  pure (codeConsts (t.iToArg.foldl (fun acc x => insertByKey x acc) []))

/-- `all_code_data`, by fuel = nesting depth bound -/
def allCodeFuel : Nat → CodeData → R (List CodeData)
  | 0, _ => throw .fuel
  | n+1, d => do
    let kids ← iterCode d
    let rest ← kids.mapM (allCodeFuel n)
    pure (d :: rest.flatten)

def allCode (d : CodeData) : R (List CodeData) := allCodeFuel 64 d

end CDV
