import CDV.Decode
/-! Model of blocks_to_bytes, args_to_input, from_flags_data, from_code_data. -/
namespace CDV
open CDV.LT (LMap)

/-- encoder-side table (`FromArgs`) -/
structure FromArgs (α : Type) where
  iToArg : List (Nat × α) := []        -- `_i_to_arg`, insertion order
  argToI : List (α × Nat) := []        -- `_arg_to_i`, keyed by `keyEq`

def FromArgs.len {α} (t : FromArgs α) : Nat := t.iToArg.length

/-- `FromArgs.__setitem__` -/
def FromArgs.set {α} (keyEq : α → α → Bool) (t : FromArgs α) (i : Nat) (a : α) : R (FromArgs α) :=
  match assoc? i t.iToArg with
  | some old =>
    if keyEq old a then
      pure ⟨t.iToArg.map (fun (k, v) => if k = i then (k, a) else (k, v)), keySet keyEq a i t.argToI⟩
    else throw .raised          -- AssertionError
  | none => pure ⟨t.iToArg ++ [(i, a)], keySet keyEq a i t.argToI⟩

/-- `FromArgs.add` -/
def FromArgs.add {α} (keyEq : α → α → Bool) (t : FromArgs α) (a : α) (ov : Option Nat) : R (FromArgs α × Nat) :=
  match ov with
  | some i => do let t ← t.set keyEq i a; pure (t, i)
  | none =>
    match keyFind keyEq a t.argToI with
    | some i => pure (t, i)
    | none => do
      let i := t.len
      let t ← t.set keyEq i a
      pure (t, i)

def insertByKey {α} (x : Nat × α) : List (Nat × α) → List (Nat × α)
  | [] => [x]
  | y :: ys => if x.1 < y.1 then x :: y :: ys else y :: insertByKey x ys

/-- `FromArgs.to_tuple`: the indices must be exactly 0..n-1 -/
def FromArgs.toTuple {α} (t : FromArgs α) : R (List α) :=
  let sorted := t.iToArg.foldl (fun acc x => insertByKey x acc) []
  if sorted.map (·.1) == List.range sorted.length then pure (sorted.map (·.2)) else throw .raised

structure EncSt where
  names : FromArgs PStr := {}
  varnames : FromArgs PStr := {}
  cellvars : FromArgs PStr := {}
  consts : FromArgs Const := {}

/-- `args_to_varnames`: `parameters` with the *args and **kwargs names moved to the end -/
def moveToEnd (s : PStr) (l : List PStr) : List PStr := (l.filter (· != s)) ++ [s]

def Args.varnameOrder (a : Args) : List PStr :=
  let p := a.paramNames
  let p := match a.varPos with | some s => moveToEnd s p | none => p
  match a.varKw with | some s => moveToEnd s p | none => p

def indexOfStr (x : PStr) : List PStr → Option Nat
  | [] => none
  | y :: ys => if x == y then some 0 else (indexOfStr x ys).map (· + 1)

/-- `from_arg` restricted to constants (also used by `CodeData.__iter__`) -/
def fromConstArg (tp : Option Function) (consts : FromArgs Const) (c : Const) (o : Option Nat) : R (FromArgs Const × Nat) :=
  let docNone := match tp with | some f => f.doc.isNone | none => false
  let firstConst := consts.len == 0
  let isStr := match c with | .inner (.str _) => true | _ => false
  if docNone && firstConst && isStr && o.isNone then
    (consts.set Const.keyEq 0 (.inner .none)) >>= fun t => t.add Const.keyEq c o
  else consts.add Const.keyEq c o

/-- `from_arg` -/
def fromArg (tp : Option Function) (freevars : List PStr) (st : EncSt) : Arg → R (EncSt × Int)
  | .noarg a => pure (st, a)
  | .jump .. => pure (st, 1)
  | .name s o => do let (t, i) ← st.names.add strEq s o; pure ({ st with names := t }, i)
  | .varname s o => do let (t, i) ← st.varnames.add strEq s o; pure ({ st with varnames := t }, i)
  | .free s => match indexOfStr s freevars with
      | some i => pure (st, ((st.cellvars.len + i : Nat) : Int))
      | none => throw .raised
  | .cell s o => do let (t, i) ← st.cellvars.add strEq s o; pure ({ st with cellvars := t }, i)
  | .const c o => do let (t, i) ← fromConstArg tp st.consts c o; pure ({ st with consts := t }, i)
  | .raw n => pure (st, n)

def Instr.arg : Instr → Arg | .mk _ a _ _ _ => a
def Instr.nov : Instr → Option Nat | .mk _ _ n _ _ => n
def Instr.op : Instr → Nat | .mk op _ _ _ _ => op
def Instr.line : Instr → Option Int | .mk _ _ _ l _ => l
def Instr.offs : Instr → List Int | .mk _ _ _ _ o => o

/-- `instruction._n_args_override or _instrsize(arg_value)` -/
def sizeOfI (nov : Option Nat) (arg : Int) : Nat :=
  match nov with
  | some (n+1) => n+1
  | _ => instrsize arg

/-- first pass of the loop: resolve every operand once, in instruction order -/
def resolveArgs (tp : Option Function) (freevars : List PStr) : EncSt → List Instr → R (EncSt × List Int)
  | st, [] => pure (st, [])
  | st, i :: rest => do
    let (st, a) ← fromArg tp freevars st i.arg
    let (st, r) ← resolveArgs tp freevars st rest
    pure (st, a :: r)

/-- offset (in code units) *before* each element, plus the total at the end -/
def prefixSums : List Nat → Nat → List Nat
  | [], acc => [acc]
  | x :: xs, acc => acc :: prefixSums xs (acc + x)

def isJump : Arg → Bool | .jump .. => true | _ => false

def relaxGo (v : Ver) (starts offs : List Nat) : List Instr → List Int → Nat → R (List Int × Bool)
  | [], _, _ => pure ([], false)
  | _, [], _ => pure ([], false)
  | i :: is, a :: as, k => do
    let (r, ch) ← relaxGo v starts offs is as (k + 1)
    match i.arg with
    | .jump t rel =>
      match starts[t]? with
      | none => throw .raised                      -- KeyError: no such block
      | some s =>
        let mult : Int := if v.is310 then 1 else 2
        let tgt : Int := offs.getD s 0
        let cur : Int := offs.getD (k + 1) 0
        let newArg : Int := if rel then (tgt - cur) * mult else mult * tgt
        let n := sizeOfI i.nov a
        let ch' := (match i.nov with | some (_+1) => false | _ => true) && n != instrsize newArg
        pure (newArg :: r, ch || ch')
    | _ => pure (a :: r, ch)

/-- one pass of the fix-point loop over the flattened instruction list.
    `starts` = index (in the flat list) of the first instruction of each block. -/
def relaxPass (v : Ver) (instrs : List Instr) (starts : List Nat) (args : List Int) : R (List Int × Bool) :=
  let sizes := (instrs.zip args).map (fun (i, a) => sizeOfI i.nov a)
  relaxGo v starts (prefixSums sizes 0) instrs args 0

def relax (v : Ver) (instrs : List Instr) (starts : List Nat) : Nat → List Int → R (List Int)
  | 0, _ => throw .fuel
  | fuel+1, args => do
    let (args', changed) ← relaxPass v instrs starts args
    if changed then relax v instrs starts fuel args' else pure args'

def blockStarts : List (List Instr) → Nat → List Nat
  | [], _ => []
  | b :: bs, k => k :: blockStarts bs (k + b.length)

/-- the `for i in reversed(range(n_args))` of the assembly loop -/
def emitOne (op : Nat) (arg : Int) (n : Nat) : List Nat :=
  let u : Nat := (arg % ((2:Int)^(8 * n))).toNat
  (List.range n).reverse.flatMap fun i => [if i == 0 then op else EXTENDED_ARG, (u / 256^i) % 256]

def emit : List Instr → List Int → Nat → List Nat × List (Nat × Option Int) × List (Nat × List Int)
  | [], _, _ => ([], [], [])
  | _, [], _ => ([], [], [])
  | i :: is, a :: as, off =>
    let n := sizeOfI i.nov a
    let r := emit is as (off + 2 * n)
    (emitOne i.op a n ++ r.1,
     (List.range n).map (fun k => (off + 2 * k, i.line)) ++ r.2.1,
     (if i.offs.isEmpty then [] else [(off, i.offs)]) ++ r.2.2)

structure BlocksOut where
  code : List Nat
  lm : LMap
  names : List PStr
  varnames : List PStr
  cellvars : List PStr
  consts : List Const

def seedVarnames : FromArgs PStr → List PStr → Nat → R (FromArgs PStr)
  | t, [], _ => pure t
  | t, s :: ss, i => do
    let t ← t.set strEq i s
    seedVarnames t ss (i + 1)

def addAdditional (tp : Option Function) (freevars : List PStr) : EncSt → List Arg → R EncSt
  | st, [] => pure st
  | st, a :: as => do
    let (st, _) ← fromArg tp freevars st a
    addAdditional tp freevars st as

/-- the operand tables, as `blocks_to_bytes` builds them before it assembles anything -/
def encInit (tp : Option Function) : R EncSt :=
  match tp with
  | none => pure {}
  | some f =>
    (seedVarnames {} f.args.varnameOrder 0) >>= fun vn =>
      match f.doc with
      | some d => (({} : FromArgs Const).set Const.keyEq 0 (.inner (.str d))) >>= fun t => pure { varnames := vn, consts := t }
      | none => pure { varnames := vn }

def collectCells : FromArgs PStr → List Arg → R (FromArgs PStr)
  | t, [] => pure t
  | t, .cell s o :: as => do
    let (t, _) ← t.add strEq s o
    collectCells t as
  | t, _ :: as => collectCells t as

def blocksToBytes (v : Ver) (blocks : List (List Instr)) (addArgs : List Arg) (freevars : List PStr)
    (tp : Option Function) : R BlocksOut := do
  let st ← encInit tp
  let flat := blocks.flatten
  let starts := blockStarts blocks 0
  -- the cellvars get their indices first (instruction operands, then additional args)
  let cv ← collectCells st.cellvars (flat.map Instr.arg ++ addArgs)
  let st := { st with cellvars := cv }
  let (st, args0) ← resolveArgs tp freevars st flat
  let njumps := (flat.filter fun i => isJump i.arg).length
  let args ← relax v flat starts (3 * njumps + 3) args0
  let st ← addAdditional tp freevars st addArgs
  -- an operand that needs more than 4 code units cannot be assembled: Python loops over range(n_args),
  -- the model does the same, but n > 4 only comes from an explicit override
  let out := emit flat args 0
  let names ← st.names.toTuple
  let varnames ← st.varnames.toTuple
  let cellvars ← st.cellvars.toTuple
  let consts ← st.consts.toTuple
  pure ⟨out.1, ⟨out.2.1, out.2.2⟩, names, varnames, cellvars, consts⟩

def ftypeBits : Option FnType → List Nat
  | some .generator => [bGENERATOR] | some .coroutine => [bCOROUTINE] | some .asyncGenerator => [bASYNC_GENERATOR] | none => []

/-- argument counts and flags of the header, from `type` (`args_to_input`, the `varnames should start with args` assert) -/
def headerCounts (tp : Option Function) (outVarnames : List PStr) : R (Nat × Nat × Nat × List Nat) :=
  match tp with
  | some f => do
    let a := f.args
    -- duplicate parameter names: what the CodeType constructor then checks is not modelled
    if a.paramNames.length != a.posOnly.length + a.posOrKw.length + a.kwOnly.length
        + (if a.varPos.isSome then 1 else 0) + (if a.varKw.isSome then 1 else 0) then throw .unmodelled
    let flags := [bNEWLOCALS, bOPTIMIZED] ++ ftypeBits f.ftype
    let flags := flags ++ (if (optName a.varPos).isEmpty then [] else [bVARARGS])
    let flags := flags ++ (if (optName a.varKw).isEmpty then [] else [bVARKEYWORDS])
    let vn := a.varnameOrder
    if outVarnames.take vn.length != vn then throw .raised
    pure (a.posOnly.length + a.posOrKw.length, a.posOnly.length, a.kwOnly.length, flags)
  | none => pure (0, 0, 0, [])

/-- the line mapping handed to `from_line_mapping`: the instruction lines, the optional extra line, relative to the first line -/
def finalLineMap (out : BlocksOut) (addLine : Option AdditionalLine) (fln : Int) : LMap :=
  let lm : LMap := match addLine with
    | some al =>
      let n := out.code.length
      ⟨LT.setAssoc n al.line out.lm.lines, LT.setAssoc n al.offs out.lm.extra⟩
    | none => out.lm
  { lm with lines := lm.lines.map fun (o, l) => (o, l.map (· - fln)) }

/-- everything of `from_code_data` after the operand tables and the nested code objects are known -/
def finishCode (v : Ver) (F : FlagTable) (out : BlocksOut) (consts : List RConst) (fname : PStr) (fln : Int) (name : PStr) (ss : Nat)
    (tp : Option Function) (fv : List PStr) (ann nested : Bool) (addLine : Option AdditionalLine) : R RawCode := do
  let (argc, pos, kw, flags) ← headerCounts tp out.varnames
  let flags := if fv.isEmpty && out.cellvars.isEmpty then flags ++ [bNOFREE] else flags
  let flags := if ann then flags ++ [F.annotations] else flags
  let flags := if nested then flags ++ [bNESTED] else flags
  let table ← LT.fromLineMapping v.is310 (finalLineMap out addLine fln)
  if !v.hasPosOnly && pos != 0 then throw .raised
  pure (.mk argc pos kw out.varnames.length ss (fromFlags flags) fln out.code table fname name out.names out.varnames fv out.cellvars consts)

def fromCodeDataGo (v : Ver) (F : FlagTable) (enc : CodeData → R RawCode) : CodeData → R RawCode
  | .mk blocks fname fln name ss tp fv ann nested addLine addArgs => do
    let out ← blocksToBytes v blocks addArgs fv tp
    let consts ← out.consts.mapM (fun c => match c with
      | .inner i => pure (RConst.inner i)
      | .code d => RConst.code <$> enc d)
    finishCode v F out consts fname fln name ss tp fv ann nested addLine

def fromCodeDataFuel (v : Ver) (F : FlagTable) : Nat → CodeData → R RawCode
  | 0, _ => throw .fuel
  | n+1, d => fromCodeDataGo v F (fromCodeDataFuel v F n) d

def fromCodeData (v : Ver) (F : FlagTable) (d : CodeData) : R RawCode :=
  fromCodeDataFuel v F 64 d

end CDV
