import CDV.Blocks
import CDV.Constants
/-! Model of bytes_to_blocks, args_from_input, to_flags_data, to_code_data. -/
namespace CDV
open LT (LMap)

/-- `dict.pop(k)` on an association list -/
def popAssoc {β} (k : Nat) : List (Nat × β) → Option (β × List (Nat × β))
  | [] => none
  | (k', v) :: r => if k = k' then some (v, r) else
      match popAssoc k r with
      | some (x, r') => some (x, (k', v) :: r')
      | none => none

structure DecSt where
  names : ToArgs PStr
  varnames : ToArgs PStr
  cellvars : ToArgs PStr
  consts : ToArgs Const
  lm : LMap

def strEq (a b : PStr) : Bool := a == b

/-- `to_arg`; jumps carry the byte offset of their target for now -/
def toArg (v : Ver) (T : OpTable) (freevars : List PStr) (st : DecSt) (i : RawI) : R (DecSt × Arg) :=
  let mult : Int := if v.is310 then 2 else 1
  match T.get i.op with
  | .jabs => let t := mult * i.arg
             if t < 0 then throw .unmodelled else pure (st, .jump t.toNat false)
  | .jrel => let t := (i.next : Int) + mult * i.arg
             if t < 0 then throw .unmodelled else pure (st, .jump t.toNat true)
  | .name => do let (t, a, o) ← st.names.foundIndex strEq i.arg; pure ({ st with names := t }, .name a o)
  | .loc => do let (t, a, o) ← st.varnames.foundIndex strEq i.arg; pure ({ st with varnames := t }, .varname a o)
  | .free =>
    if i.arg < (st.cellvars.args.length : Int) then do
      let (t, a, o) ← st.cellvars.foundIndex strEq i.arg; pure ({ st with cellvars := t }, .cell a o)
    else
      let k := i.arg - st.cellvars.args.length
      match freevars[k.toNat]? with
      | some s => pure (st, .free s)
      | none => throw .raised
  | .const => do let (t, a, o) ← st.consts.foundIndex Const.keyEq i.arg; pure ({ st with consts := t }, .const a o)
  | .noarg => pure (st, .noarg i.arg)
  | .raw => pure (st, .raw i.arg)
  | .ext => pure (st, .raw i.arg)      -- unreachable: EXTENDED_ARG is folded by parseBytes

/-- pop the line info of one instruction (first unit: required; continuation units: dropped) -/
def popLines (lm : LMap) (i : RawI) : R (LMap × Option Int × List Int) := do
  match popAssoc i.first lm.lines with
  | none => throw .raised                                  -- KeyError
  | some (line, lines') =>
    let (offs, extra') := match popAssoc i.first lm.extra with
      | some (o, e) => (o, e) | none => ([], lm.extra)
    let units := (List.range ((i.next - i.first) / 2 - 1)).map (fun k => i.first + 2 + 2 * k)
    let lines'' := units.foldl (fun l u => match popAssoc u l with | some (_, l') => l' | none => l) lines'
    let extra'' := units.foldl (fun l u => match popAssoc u l with | some (_, l') => l' | none => l) extra'
    pure (⟨lines'', extra''⟩, line, offs)

def decodeInstrs (v : Ver) (T : OpTable) (freevars : List PStr) :
    DecSt → List RawI → R (DecSt × List (Nat × Instr))
  | st, [] => pure (st, [])
  | st, i :: rest => do
    let (st, arg) ← toArg v T freevars st i
    let nov := match arg with | .jump .. => (if i.nargs > 1 then some i.nargs else none) | _ => none
    let (lm, line, offs) ← popLines st.lm i
    let st := { st with lm := lm }
    let (st, r) ← decodeInstrs v T freevars st rest
    pure (st, (i.first, Instr.mk i.op arg nov line offs) :: r)

def insertSorted (x : Nat) : List Nat → List Nat
  | [] => [x]
  | y :: ys => if x < y then x :: y :: ys else if x = y then y :: ys else y :: insertSorted x ys

def indexOf (x : Nat) : List Nat → Nat
  | [] => 0
  | y :: ys => if x = y then 0 else 1 + indexOf x ys

def retarget (targets : List Nat) : Instr → Instr
  | .mk op (.jump t r) n l o => .mk op (.jump (indexOf t targets) r) n l o
  | i => i

/-- group instructions into blocks: a new block starts at every offset in `targets` -/
def group (targets : List Nat) : List (Nat × Instr) → List (List Instr) → R (List (List Instr))
  | [], acc => pure (acc.reverse.map List.reverse)
  | (off, i) :: rest, acc =>
    if targets.contains off then
      group targets rest ([retarget targets i] :: acc)
    else match acc with
      | b :: bs => group targets rest ((retarget targets i :: b) :: bs)
      | [] => throw .raised            -- UnboundLocalError: the first instruction is not a target

def jumpTargets : List (Nat × Instr) → List Nat
  | [] => []
  | (_, .mk _ (.jump t _) _ _ _) :: r => t :: jumpTargets r
  | _ :: r => jumpTargets r

/-- `sorted(targets_set)`: offset 0 and every jump target, ascending, without repetitions -/
def targetsOf (ois : List (Nat × Instr)) : List Nat :=
  (jumpTargets ois).foldl (fun acc t => insertSorted t acc) [0]

/-- the second half of `bytes_to_blocks`: cut the instruction list into blocks at the target offsets and
    rewrite every jump target from a byte offset to a block index -/
def buildBlocks (ois : List (Nat × Instr)) : R (List (List Instr)) := group (targetsOf ois) ois []

structure ArgsInput where
  argcount : Nat
  posonly : Nat
  kwonly : Nat
  varnames : List PStr
  varargs : Bool
  varkw : Bool

/-- `args_from_input` (Python slices never raise; `varnames[0]` does) -/
def argsFromInput (inp : ArgsInput) : R Args := do
  if inp.argcount < inp.posonly then throw .unmodelled      -- a negative slice bound
  let vs := inp.varnames
  let posOnly := vs.take inp.posonly; let vs := vs.drop inp.posonly
  let k := inp.argcount - inp.posonly
  let posOrKw := vs.take k; let vs := vs.drop k
  let kwOnly := vs.take inp.kwonly; let vs := vs.drop inp.kwonly
  let (vp, vs) ← if inp.varargs then (match vs with | x :: r => pure (some x, r) | [] => throw .raised) else pure (none, vs)
  let (vk, _) ← if inp.varkw then (match vs with | x :: r => pure (some x, r) | [] => throw .raised) else pure (none, vs)
  pure ⟨posOnly, posOrKw, vp, kwOnly, vk⟩

def dedupKeep : List PStr → List PStr → List PStr
  | [], acc => acc.reverse
  | x :: xs, acc => if acc.contains x then dedupKeep xs acc else dedupKeep xs (x :: acc)

def optName : Option PStr → List PStr
  | some s => [s]
  | none => []

/-- `args.parameters.keys()` (signature order; an OrderedDict, so duplicate names collapse) -/
def Args.paramNames (a : Args) : List PStr :=
  dedupKeep (a.posOnly ++ a.posOrKw ++ optName a.varPos ++ a.kwOnly ++ optName a.varKw) []

inductive Kind | posOnly | posOrKw | varPos | kwOnly | varKw
deriving DecidableEq, Repr

/-- the (name, kind) pairs `args_to_parameters` feeds to `OrderedDict`, in signature order -/
def Args.parametersRaw (a : Args) : List (PStr × Kind) :=
  a.posOnly.map (·, Kind.posOnly) ++ a.posOrKw.map (·, Kind.posOrKw) ++ (optName a.varPos).map (·, Kind.varPos)
    ++ a.kwOnly.map (·, Kind.kwOnly) ++ (optName a.varKw).map (·, Kind.varKw)

/-- `OrderedDict.__setitem__`: a repeated key keeps its position and takes the new value -/
def odictInsert (k : PStr) (v : Kind) : List (PStr × Kind) → List (PStr × Kind)
  | [] => [(k, v)]
  | (k', v') :: r => if k == k' then (k', v) :: r else (k', v') :: odictInsert k v r

def odict (l : List (PStr × Kind)) : List (PStr × Kind) := l.foldl (fun acc kv => odictInsert kv.1 kv.2 acc) []

/-- `Args.parameters` -/
def Args.parameters (a : Args) : List (PStr × Kind) := odict a.parametersRaw

/-- `len(args)` -/
def Args.len (a : Args) : Nat := a.paramNames.length

/-- flag bit positions (same on 3.7–3.10 except the futures) -/
structure FlagTable where
  known : List Nat        -- every bit position with a name in `_CodeFlag`
  annotations : Nat

def bOPTIMIZED := 0
def bNEWLOCALS := 1
def bVARARGS := 2
def bVARKEYWORDS := 3
def bNESTED := 4
def bGENERATOR := 5
def bNOFREE := 6
def bCOROUTINE := 7
def bASYNC_GENERATOR := 9

/-- the word with exactly the given bit positions set (`from_flags_data`) -/
def fromFlags (bits : List Nat) : Nat := bits.foldl (fun a b => a ||| (1 <<< b)) 0

/-- `to_flags_data`: the named bits that are set, or a ValueError if a set bit has no name -/
def toFlags (F : FlagTable) (w : Nat) : R (List Nat) :=
  if w &&& fromFlags F.known = w then pure (F.known.filter (fun b => w.testBit b)) else throw .raised

/-- seed the table with indices `0..n-1` (the parameters), as `found_index(i)` does -/
def seedFound {α} (keyEq : α → α → Bool) : ToArgs α → List Nat → R (ToArgs α)
  | t, [] => pure t
  | t, i :: is => do
    let (t', _, _) ← t.foundIndex keyEq i
    seedFound keyEq t' is

/-- `Function` / `None` from the function flags that are left: `(type, remaining flags)` -/
def headerType (flags : List Nat) (args : Args) (constants : List Const) : R (Option Function × List Nat) :=
  let nfn := (if flags.contains bNEWLOCALS then 1 else 0) + (if flags.contains bOPTIMIZED then 1 else 0)
  if nfn == 0 then
    (if args.len != 0 then throw .raised else pure ((none : Option Function), flags))
  else if nfn == 2 then
    let doc := match constants with
      | .inner (.str s) :: _ => some s
      | _ => none
    let tps := [bASYNC_GENERATOR, bCOROUTINE, bGENERATOR].filter flags.contains
    if tps.length > 1 then throw .raised else
    let ft : Option FnType := match tps with
      | [b] => if b == bGENERATOR then some .generator else if b == bCOROUTINE then some .coroutine else some .asyncGenerator
      | _ => none
    pure (some ⟨args, doc, ft⟩, flags.filter (fun b => !tps.contains b && b != bNEWLOCALS && b != bOPTIMIZED))
  else throw .raised

/-- the header part of `to_code_data`: flags consumed one by one into `type`, future-annotations, CO_NESTED; the
    parameters cut out of `co_varnames`.  Returns `(type, annotations, nested, args)`. -/
def decodeHeader (v : Ver) (F : FlagTable) (argc pos kw fl : Nat) (varnames freevars cellvars : List PStr) (constants : List Const) :
    R (Option Function × Bool × Bool × Args) := do
  let flags ← toFlags F fl
  let args ← argsFromInput ⟨argc, if v.hasPosOnly then pos else 0, kw, varnames, flags.contains bVARARGS, flags.contains bVARKEYWORDS⟩
  let f1 := flags.filter (fun b => b != bVARARGS && b != bVARKEYWORDS)
  if f1.contains bNOFREE != (freevars.isEmpty && cellvars.isEmpty) then throw .raised else
  let f2 := f1.filter (· != bNOFREE)
  let f3 := f2.filter (· != F.annotations)
  let f4 := f3.filter (· != bNESTED)
  let r ← headerType f4 args constants
  if !r.2.isEmpty then throw .raised else
  pure (r.1, f2.contains F.annotations, f3.contains bNESTED, args)

/-- `bytes_to_blocks` up to the blocks: parameters and docstring count as found first, then `_parse_bytes`, `to_arg`
    instruction by instruction (popping the line mapping), then the grouping into blocks -/
def decodeBody (v : Ver) (T : OpTable) (names varnames freevars cellvars : List PStr) (constants : List Const) (lm : LMap)
    (tp : Option Function) (nparams : Nat) (code : List Nat) : R (DecSt × List (List Instr)) := do
  let vn ← seedFound strEq ⟨varnames, [], []⟩ (List.range nparams)
  let st : DecSt := {
    names := ⟨names, [], []⟩,
    varnames := vn,
    cellvars := ⟨cellvars, [], []⟩,
    consts := ⟨constants, [], []⟩,
    lm := lm }
  let st ← match tp with
    | some f => if f.doc.isSome then (do let (t, _, _) ← st.consts.foundIndex Const.keyEq 0; pure { st with consts := t }) else pure st
    | none => pure st
  let raw ← parseBytes code
  let (st, ois) ← decodeInstrs v T freevars st raw
  let blocks ← buildBlocks ois
  pure (st, blocks)

/-- the rest of `bytes_to_blocks` / `to_code_data`: the entries no instruction used, and what is left of the line mapping -/
def decodeTail (st : DecSt) (n : Nat) : R (Option AdditionalLine × List Arg) := do
  let an ← st.names.additional strEq
  let av ← st.varnames.additional strEq
  let ac ← st.cellvars.additional strEq
  let ak ← st.consts.additional Const.keyEq
  let addArgs := an.map (fun (s, o) => Arg.name s o) ++ av.map (fun (s, o) => Arg.varname s o)
    ++ ac.map (fun (s, o) => Arg.cell s o) ++ ak.map (fun (c, o) => Arg.const c o)
  -- pop_additional_line(len(code))
  if !st.lm.extra.isEmpty && !(st.lm.extra.all fun (o, _) => o == n) then throw .raised
  let addLine ←
    if !st.lm.lines.isEmpty then
      if !(st.lm.lines.all fun (o, _) => o == n) then throw .raised
      else
        let line := match st.lm.lines with | (_, l) :: _ => l | [] => none
        let offs := (LT.lookupExtra st.lm.extra n).getD []
        pure (some (⟨line, offs⟩ : AdditionalLine))
    else pure none
  pure (addLine, addArgs)

/-- the line mapping handed to `bytes_to_blocks`: relative lines made absolute with `co_firstlineno` -/
def shiftLines (lm : LMap) (fln : Int) : LMap := { lm with lines := lm.lines.map fun (o, l) => (o, l.map (· + fln)) }

def toCodeDataGo (v : Ver) (T : OpTable) (F : FlagTable) (dec : RawCode → R CodeData) : RawCode → R CodeData
  | .mk argc pos kw nl ss fl fln code lt fname name names varnames freevars cellvars consts => do
    if nl != varnames.length then throw .raised
    let lm ← LT.toLineMapping v.is310 lt code.length
    let constants ← consts.mapM (fun c => match c with
      | .inner i => pure (Const.inner i)
      | .code k => Const.code <$> dec k)
    let (tp, ann, nested, args) ← decodeHeader v F argc pos kw fl varnames freevars cellvars constants
    let (st, blocks) ← decodeBody v T names varnames freevars cellvars constants (shiftLines lm fln) tp args.len code
    let (addLine, addArgs) ← decodeTail st code.length
    pure (.mk blocks fname fln name ss tp freevars ann nested addLine addArgs)

/-- recursion through nested code objects, by fuel = nesting depth bound -/
def toCodeDataFuel (v : Ver) (T : OpTable) (F : FlagTable) : Nat → RawCode → R CodeData
  | 0, _ => throw .fuel
  | n+1, c => toCodeDataGo v T F (toCodeDataFuel v T F n) c

def toCodeData (v : Ver) (T : OpTable) (F : FlagTable) (c : RawCode) : R CodeData :=
  toCodeDataFuel v T F 64 c

end CDV
