import CDV.Json
/-! A heap model of the dict/list manipulation in code_data/_json_data.py (for C12: purity).

JSON documents live in a heap of dict / list nodes with identities; values are scalars or references.
The `*_from_json` functions are modelled as heap programs that mirror the Python statement by statement:
`copy(d)` allocates a node with the same children, `d[k] = v` writes into a node, reading a key returns
the reference stored there (so `tp = value["type"]` would alias the caller's node).
What the programs *compute* is the tree model's business (`CDV.Json`); here only which nodes are
written matters. -/
namespace CDV.Heap

inductive Val where
  | scalar                 -- None / bool / int / float / str: immutable
  | ref (id : Nat)
deriving DecidableEq, Repr

inductive Node where
  | dict (kvs : List (String × Val))
  | list (xs : List Val)
deriving Repr

structure State where
  nodes : List (Nat × Node) := []
  next : Nat := 0
  written : List Nat := []     -- ids of the nodes some `d[k] = v` wrote into
deriving Repr

def lookup (s : State) (id : Nat) : Option Node :=
  (s.nodes.find? (fun p => p.1 == id)).map (·.2)

/-- allocate a fresh node -/
def alloc (s : State) (n : Node) : State × Nat :=
  ({ s with nodes := (s.next, n) :: s.nodes, next := s.next + 1 }, s.next)

/-- `copy(value)` (shallow) — on a scalar it is the scalar itself -/
def copy (s : State) : Val → State × Val
  | .scalar => (s, .scalar)
  | .ref id =>
    match lookup s id with
    | some n => let (s', id') := alloc s n; (s', .ref id')
    | none => (s, .scalar)

/-- `value[k] = <something freshly built>` -/
def setKey (s : State) (v : Val) (k : String) : State :=
  match v with
  | .ref id =>
    match lookup s id with
    | some (.dict kvs) =>
      { s with nodes := s.nodes.map (fun p => if p.1 == id then (id, Node.dict ((kvs.filter (·.1 != k)) ++ [(k, Val.scalar)])) else p),
               written := id :: s.written }
    | _ => s
  | .scalar => s

def getKey (s : State) (v : Val) (k : String) : Option Val :=
  match v with
  | .ref id => match lookup s id with
    | some (.dict kvs) => (kvs.find? (·.1 == k)).map (·.2)
    | _ => none
  | .scalar => none

def items (s : State) (v : Val) : List Val :=
  match v with
  | .ref id => match lookup s id with
    | some (.list xs) => xs
    | _ => []
  | .scalar => []

def isDict (s : State) (v : Val) : Bool :=
  match v with
  | .ref id => match lookup s id with | some (.dict _) => true | _ => false
  | .scalar => false

/-- `value = copy(value); value["constant"] = …` of `arg_from_json`, the nested decoder as a parameter -/
def stepConstant (cdf : State → Val → State) (s : State) (v : Val) : State :=
  let r := copy s v
  let s1 := match getKey r.1 r.2 "constant" with
    | some c => if isDict r.1 c && (getKey r.1 c "filename").isSome then cdf r.1 c else r.1
    | none => r.1
  setKey s1 r.2 "constant"

/-- `value = copy(value); value["arg"] = arg_from_json(value["arg"])` -/
def stepArg (af : State → Val → State) (s : State) (v a : Val) : State :=
  let r := copy s v
  setKey (af r.1 a) r.2 "arg"

/-- `if "blocks" in value: value["blocks"] = tuple(tuple(instruction_from_json(i) …` -/
def stepBlocks (bf : State → List Val → State) (s : State) (v' : Val) : State :=
  match getKey s v' "blocks" with
  | some bl => setKey (bf s (items s bl)) v' "blocks"
  | none => s

/-- `if "type" in value: tp = copy(value["type"]); if "args" in tp: tp["args"] = Args(…); value["type"] = Function(…)` -/
def stepType (s : State) (v' : Val) : State :=
  match getKey s v' "type" with
  | some tp0 =>
    let r := copy s tp0
    let s1 := if (getKey r.1 r.2 "args").isSome then setKey r.1 r.2 "args" else r.1
    setKey s1 v' "type"
  | none => s

/-- `if "_additional_args" in value: value["_additional_args"] = tuple(arg_from_json(a) for a in …)` -/
def stepAddArgs (af : State → List Val → State) (s : State) (v' : Val) : State :=
  match getKey s v' "_additional_args" with
  | some aa => setKey (af s (items s aa)) v' "_additional_args"
  | none => s

/-- `if "_additional_line" in value: value["_additional_line"] = AdditionalLine(**…)` -/
def stepAddLine (s : State) (v' : Val) : State :=
  if (getKey s v' "_additional_line").isSome then setKey s v' "_additional_line" else s

mutual
/-- `arg_from_json` -/
def argFromJson : Nat → State → Val → State
  | 0, s, _ => s
  | fuel + 1, s, v =>
    if (getKey s v "constant").isSome then stepConstant (codeDataFromJson fuel) s v
    else s          -- Jump(**value), Name(**…), …: only reads
/-- `instruction_from_json` -/
def instrFromJson : Nat → State → Val → State
  | 0, s, _ => s
  | fuel + 1, s, v =>
    match getKey s v "arg" with
    | some a => stepArg (argFromJson fuel) s v a
    | none => s
def instrsFromJson : Nat → State → List Val → State
  | 0, s, _ => s
  | _ + 1, s, [] => s
  | fuel + 1, s, i :: is => instrsFromJson fuel (instrFromJson fuel s i) is
def blocksFromJson : Nat → State → List Val → State
  | 0, s, _ => s
  | _ + 1, s, [] => s
  | fuel + 1, s, b :: bs => blocksFromJson fuel (instrsFromJson fuel s (items s b)) bs
def argsFromJson : Nat → State → List Val → State
  | 0, s, _ => s
  | _ + 1, s, [] => s
  | fuel + 1, s, a :: as => argsFromJson fuel (argFromJson fuel s a) as
/-- `code_data_from_json` -/
def codeDataFromJson : Nat → State → Val → State
  | 0, s, _ => s
  | fuel + 1, s, v =>
    let r := copy s v         -- value = copy(value)
    stepAddLine (stepAddArgs (argsFromJson fuel) (stepType (stepBlocks (blocksFromJson fuel) r.1 r.2) r.2) r.2) r.2
end

mutual
/-- load a JSON tree into a heap, returning the reference to its root -/
def load : State → Json → State × Val
  | s, .arr xs =>
    let r := loadList s xs
    let (s', id) := alloc r.1 (.list r.2)
    (s', .ref id)
  | s, .obj kvs =>
    let r := loadKvs s kvs
    let (s', id) := alloc r.1 (.dict r.2)
    (s', .ref id)
  | s, _ => (s, .scalar)
def loadList : State → List Json → State × List Val
  | s, [] => (s, [])
  | s, x :: xs =>
    let (s1, v) := load s x
    let (s2, vs) := loadList s1 xs
    (s2, v :: vs)
def loadKvs : State → List (String × Json) → State × List (String × Val)
  | s, [] => (s, [])
  | s, (k, x) :: kvs =>
    let (s1, v) := load s x
    let (s2, vs) := loadKvs s1 kvs
    (s2, (k, v) :: vs)
end

/-- run `from_json_data` on a document: how many nodes of the caller's document were written into -/
def modifiedInputNodes (doc : Json) : Nat :=
  let (s0, root) := load {} doc
  let s1 := codeDataFromJson 1000 s0 root
  (s1.written.filter (· < s0.next)).eraseDups.length

end CDV.Heap
