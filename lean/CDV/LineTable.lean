import CDV.Basic
import CDV.Extracted
/-! Model of code_data/_line_mapping.py (the three-stage line-table codec), as the code is now.
    Names follow the Python: bytes_to_items / items_to_bytes, collapse_items / expand_items,
    items_to_mapping / mapping_to_items, to_line_mapping / from_line_mapping.
    Thresholds come from `CDV.Extracted` (regenerated from /repo on every run). -/
namespace CDV
namespace LT

structure Item where
  line : Int
  bc   : Nat
deriving DecidableEq, Repr

structure CItem where
  line : Option Int
  bc   : Nat
deriving DecidableEq, Repr

def signed (b : Nat) : Int := if b < 128 then (b : Int) else (b : Int) - 256
def unsigned (l : Int) : Nat := (l % 256).toNat

/-- `bytes_to_items` (an odd trailing byte raises IndexError in Python; modelled as dropped,
    callers go through `bytesToItems?`) -/
def bytesToItems : List Nat → List Item
  | b :: l :: rest => ⟨signed l, b⟩ :: bytesToItems rest
  | _ => []

def bytesToItems? (bs : List Nat) : R (List Item) :=
  if bs.length % 2 = 0 then pure (bytesToItems bs) else throw .raised

def itemsToBytes : List Item → List Nat
  | [] => []
  | i :: rest => i.bc :: unsigned i.line :: itemsToBytes rest

def toC (isLT : Bool) (i : Item) : CItem :=
  ⟨if isLT && i.line == Extracted.noLine then none else some i.line, i.bc⟩

def maxBc (isLT : Bool) : Nat := if isLT then Extracted.maxBytecodeLinetable else Extracted.maxBytecodeLnotab
def minLine (isLT : Bool) : Int := if isLT then Extracted.minLineLinetable else Extracted.minLineLnotab
def maxLine : Int := Extracted.maxLine

/-- the merge test of `collapse_items` -/
def shouldMerge (isLT : Bool) (prev item : CItem) : Bool :=
  let bcSplit :=
    ((if isLT then item else prev).line == some 0)
      && prev.line.isSome
      && decide (prev.bc ≥ maxBc isLT)
      && (item.bc != 0)
  let lineSplit :=
    ((if isLT then prev else item).bc == 0)
      && (match prev.line, item.line with
          | some p, some l => (decide (p ≥ maxLine) && decide (l > 0)) || (decide (p ≤ minLine isLT) && decide (l < 0))
          | _, _ => false)
  bcSplit || lineSplit

/-- `if item.line_offset: prev.line_offset += item.line_offset` — `none` = TypeError (prev is None) -/
def mergeLine (prev item : Option Int) : Option (Option Int) :=
  match item with
  | none => some prev
  | some l =>
    if l = 0 then some prev
    else match prev with
      | some p => some (some (p + l))
      | none => none

/-- the backwards loop of `collapse_items` is a right fold with one item of look-ahead -/
def collapseC (isLT : Bool) : List CItem → Option (List CItem)
  | [] => some []
  | x :: rest => do
    match ← collapseC isLT rest with
    | [] => pure [x]
    | y :: ys =>
      if shouldMerge isLT x y then
        let l ← mergeLine x.line y.line
        pure (⟨l, x.bc + y.bc⟩ :: ys)
      else pure (x :: y :: ys)

def collapse (isLT : Bool) (items : List Item) : Option (List CItem) :=
  collapseC isLT (items.map (toC isLT))

def lineOr128 : Option Int → Int
  | none => Extracted.noLine
  | some l => l

/-- `expand_bytecode` -/
def expBc (isLT : Bool) (line : Option Int) (bc : Nat) : List Item × Option Int × Nat :=
  if _h : bc > maxBc isLT then
    let row : Item := ⟨if isLT then lineOr128 line else 0, maxBc isLT⟩
    let line' := if isLT then (match line with | none => none | some _ => some 0) else line
    let (rows, l, b) := expBc isLT line' (bc - maxBc isLT)
    (row :: rows, l, b)
  else ([], line, bc)
termination_by bc
decreasing_by
  have : 0 < maxBc isLT := by unfold maxBc; split <;> decide
  omega

/-- first loop of `expand_line` -/
def expUp (isLT : Bool) (line : Int) (bc : Nat) : List Item × Int × Nat :=
  if _h : line > maxLine then
    let (rows, l, b) := expUp isLT (line - maxLine) (if isLT then bc else 0)
    (⟨maxLine, if isLT then 0 else bc⟩ :: rows, l, b)
  else ([], line, bc)
termination_by line.toNat
decreasing_by
  simp only [maxLine, Extracted.maxLine] at *
  omega

/-- second loop of `expand_line` -/
def expDown (isLT : Bool) (line : Int) (bc : Nat) : List Item × Int × Nat :=
  if _h : line < minLine isLT then
    let (rows, l, b) := expDown isLT (line - minLine isLT) (if isLT then bc else 0)
    (⟨minLine isLT, if isLT then 0 else bc⟩ :: rows, l, b)
  else ([], line, bc)
termination_by (-line).toNat
decreasing_by
  have : minLine isLT = -127 ∨ minLine isLT = -128 := by unfold minLine; split <;> simp [Extracted.minLineLinetable, Extracted.minLineLnotab]
  omega

def expLine (isLT : Bool) (line : Option Int) (bc : Nat) : List Item × Option Int × Nat :=
  match line with
  | none => ([], none, bc)
  | some l =>
    let u := expUp isLT l bc
    let d := expDown isLT u.2.1 u.2.2
    (u.1 ++ d.1, some d.2.1, d.2.2)

/-- `if line_offset != 0 or bytecode_offset != 0 or not emitted_extra: append` -/
def finish (rows : List Item) (line : Option Int) (bc : Nat) : List Item :=
  if line != some 0 || bc != 0 || rows.isEmpty then rows ++ [⟨lineOr128 line, bc⟩] else rows

def expandOne (isLT : Bool) (c : CItem) : List Item :=
  if isLT then
    let r1 := expLine isLT c.line c.bc
    let r2 := expBc isLT r1.2.1 r1.2.2
    finish (r1.1 ++ r2.1) r2.2.1 r2.2.2
  else
    let r1 := expBc isLT c.line c.bc
    let r2 := expLine isLT r1.2.1 r1.2.2
    finish (r1.1 ++ r2.1) r2.2.1 r2.2.2

def expand (isLT : Bool) (cs : List CItem) : List Item := cs.flatMap (expandOne isLT)

/-! ### stage 3 -/

/-- `LineMapping`: both dicts as association lists in insertion order -/
structure LMap where
  lines : List (Nat × Option Int) := []
  extra : List (Nat × List Int) := []
deriving Repr, DecidableEq

def addExtra (e : List (Nat × List Int)) (off : Nat) (v : Int) : List (Nat × List Int) :=
  match e with
  | [] => [(off, [v])]
  | (o, vs) :: r => if o = off then (o, vs ++ [v]) :: r else (o, vs) :: addExtra r off v

def lookupExtra (e : List (Nat × List Int)) (off : Nat) : Option (List Int) :=
  match e with
  | [] => none
  | (o, vs) :: r => if o = off then some vs else lookupExtra r off

/-- linetable branch of `items_to_mapping` -/
def itemsToMappingLT : List CItem → Nat → Int → List (Nat × Option Int)
  | [], _, _ => []
  | it :: rest, off, cur =>
    let cur' := match it.line with | some l => cur + l | none => cur
    let n := (it.bc + 1) / 2
    (List.range n).map (fun k => (off + 2 * k, it.line.map (fun _ => cur'))) ++
      itemsToMappingLT rest (off + it.bc) cur'

/-- `dict[k] = v` on an association list: replace in place or append -/
def setAssoc {β} (k : Nat) (v : β) : List (Nat × β) → List (Nat × β)
  | [] => [(k, v)]
  | (k', v') :: r => if k = k' then (k, v) :: r else (k', v') :: setAssoc k v r

def zeroRun : List CItem → List Int × List CItem
  | it :: rest => if it.bc = 0 then
      let r := zeroRun rest
      ((it.line.getD 0) :: r.1, r.2)
    else ([], it :: rest)
  | [] => ([], [])

structure St where
  items : List CItem
  last  : Nat
  cur   : Int
  off   : Nat
  lines : List (Nat × Option Int)   -- reversed
  extra : List (Nat × List Int)

/-- one iteration of the `while` of the lnotab branch of `items_to_mapping` -/
def oldStep (s : St) : St :=
  let s1 : St :=
    match s.items with
    | it :: rest =>
      let s' : St :=
        if s.off - s.last = it.bc then
          let e := if it.line = some 0 then addExtra s.extra s.off 0 else s.extra
          { s with items := rest, last := s.off, cur := s.cur + it.line.getD 0, extra := e }
        else s
      let z := zeroRun s'.items
      { s' with items := z.2, cur := s'.cur + z.1.foldl (· + ·) 0,
                extra := z.1.foldl (fun e l => addExtra e s'.off l) s'.extra }
    | [] => s
  { s1 with lines := (s1.off, some s1.cur) :: s1.lines, off := s1.off + 2 }

def oldLoop (maxOff : Nat) : Nat → St → R St
  | 0, s => if s.off < maxOff ∨ s.items ≠ [] then throw .fuel else pure s
  | fuel+1, s =>
    if s.off < maxOff ∨ s.items ≠ [] then oldLoop maxOff fuel (oldStep s) else pure s

def sumBc (items : List CItem) : Nat := (items.map (·.bc)).foldl (· + ·) 0

def itemsToMapping (isLT : Bool) (items : List CItem) (maxOff : Nat) : R LMap :=
  if isLT then pure ⟨itemsToMappingLT items 0 0, []⟩
  else do
    let s ← oldLoop maxOff (maxOff + sumBc items + 4) ⟨items, 0, 0, 0, [], []⟩
    pure ⟨s.lines.reverse, s.extra⟩

def mappingToItemsOld (extra : List (Nat × List Int)) : List (Nat × Option Int) → Int → Nat → R (List CItem)
  | [], _, _ => pure []
  | (off, ln) :: rest, lastLine, lastOff =>
    match ln with
    | none => throw .raised           -- TypeError: None - int
    | some l => do
      let add := (lookupExtra extra off).getD []
      let first := l - lastLine - add.foldl (· + ·) 0
      let all := if first ≠ 0 then first :: add else add
      let its : List CItem := match all with
        | [] => []
        | a :: as => ⟨some a, off - lastOff⟩ :: as.map (fun x => ⟨some x, 0⟩)
      let lastOff' := if all = [] then lastOff else off
      let r ← mappingToItemsOld extra rest l lastOff'
      pure (its ++ r)

/-- linetable branch of `mapping_to_items`: sections of equal line -/
structure Sec where
  start : Nat
  line : Option Int       -- section_line_number
  lastLine : Int          -- last_section_line_number
  diff : Option Int       -- section_line_number_diff

def mappingToItemsLTgo : List (Nat × Option Int) → Sec → Nat → List CItem
  | [], sec, lastOff => [⟨sec.diff, lastOff + 2 - sec.start⟩]
  | (off, ln) :: rest, sec, _ =>
    if ln != sec.line then
      let item : CItem := ⟨sec.diff, off - sec.start⟩
      let diff := ln.map (fun l => l - sec.lastLine)
      let last := match ln with | some l => l | none => sec.lastLine
      item :: mappingToItemsLTgo rest ⟨off, ln, last, diff⟩ off
    else mappingToItemsLTgo rest sec off

def mappingToItemsLT : List (Nat × Option Int) → R (List CItem)
  | [] => throw .raised      -- UnboundLocalError on an empty mapping
  | (off, ln) :: rest =>
    let last := match ln with | some l => l | none => 0
    pure (mappingToItemsLTgo rest ⟨off, ln, last, ln⟩ off)

def mappingToItems (isLT : Bool) (m : LMap) : R (List CItem) :=
  if isLT then mappingToItemsLT m.lines else mappingToItemsOld m.extra m.lines 0 0

def liftOpt {α} : Option α → R α
  | some a => pure a
  | none => throw .raised

def toLineMapping (isLT : Bool) (table : List Nat) (codeLen : Nat) : R LMap := do
  let items ← bytesToItems? table
  let cs ← liftOpt (collapse isLT items)
  itemsToMapping isLT cs codeLen

def fromLineMapping (isLT : Bool) (m : LMap) : R (List Nat) := do
  let cs ← mappingToItems isLT m
  pure (itemsToBytes (expand isLT cs))

end LT
end CDV
