/-! The fragment of JSON Schema (draft-07 keywords `type`, `enum`, `required`, `properties`, `items`, `anyOf`, `$ref`)
    that `code_data.JSON_SCHEMA` uses.  The schema itself is regenerated from the repository's source on every run
    (`CDV/ExtractedSchema.lean`, written by harness/extract.py). -/
namespace CDV

inductive JTy | object | array | string | integer | number | boolean | null
deriving DecidableEq, Repr

inductive Schema where
  | ref (name : String)
  | anyOf (alts : List Schema)
  | node (ty : Option JTy) (enum : Option (List String)) (required : List String) (props : List (String × Schema)) (items : Option Schema)
deriving Repr

end CDV
