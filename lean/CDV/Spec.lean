import CDV.Decode
/-! Spec layer: what CPython itself reads from a code object (independent of the Model layer's decode). -/
namespace CDV
namespace Spec

/-- operand as CPython resolves it -/
inductive SArg where
  | raw (n : Int)
  | jump (instrIdx : Option Nat) (rel : Bool)      -- index of the instruction starting at the target offset
  | name (s : PStr)
  | loc (s : PStr)
  | cell (s : PStr)
  | free (s : PStr)
  | constInner (c : InnerConst)
  | constCode (idx : Nat)                            -- nested code: identified by table position
  | noarg
  | bad                                              -- operand out of range
deriving Repr

structure SInstr where
  op : Nat
  arg : SArg
  line : Option Int
deriving Repr

/-- `PyCode_Addr2Line` for co_lnotab (≤3.9): line delta relative to co_firstlineno -/
def lineOfOld : List Nat → Nat → Nat → Int → Int
  | b :: l :: rest, off, addr, line =>
    let addr := addr + b
    if addr > off then line else lineOfOld rest off addr (line + LT.signed l)
  | _, _, _, line => line

/-- co_lines() / PyCode_Addr2Line for co_linetable (3.10): `none` = no line -/
def lineOfLT : List Nat → Nat → Nat → Int → Option Int
  | b :: l :: rest, off, start, computed =>
    let stop := start + b
    let ld := LT.signed l
    let computed' := if ld == -128 then computed else computed + ld
    if start ≤ off ∧ off < stop then (if ld == -128 then none else some computed')
    else lineOfLT rest off stop computed'
  | _, _, _, _ => none

def lineOf (v : Ver) (table : List Nat) (firstlineno : Int) (off : Nat) : Option Int :=
  if v.is310 then (lineOfLT table off 0 0).map (· + firstlineno)
  else some (firstlineno + lineOfOld table off 0 0)

/-- one code unit at a time, like dis._unpack_opargs / ceval: (offset, op, arg-with-extension) -/
def units (ext : Nat) : List Nat → Nat → Nat → List (Nat × Nat × Nat)
  | op :: a :: rest, off, e =>
    let arg := a + e
    (off, op, arg) :: units ext rest (off + 2) (if op = ext then (arg * 256) % 2^32 else 0)
  | _, _, _ => []

/-- fold EXTENDED_ARG runs: (first offset, op, signed 32-bit arg, next offset) -/
def fold (ext : Nat) : List (Nat × Nat × Nat) → Option Nat → List (Nat × Nat × Int × Nat)
  | [], _ => []
  | (off, op, arg) :: rest, first =>
    let f := first.getD off
    if op = ext then fold ext rest (some f)
    else
      let sarg : Int := if arg ≥ 2^31 then (arg : Int) - 2^32 else arg
      (f, op, sarg, off + 2) :: fold ext rest none

def idxOfOffset (offs : List Nat) (t : Int) : Option Nat :=
  if t < 0 then none else
  let rec go : List Nat → Nat → Option Nat
    | [], _ => none
    | o :: os, k => if o = t.toNat then some k else go os (k + 1)
  go offs 0

def getStr (xs : List PStr) (i : Int) : Option PStr := if i < 0 then none else xs[i.toNat]?

def read (v : Ver) (T : OpTable) : RawCode → List SInstr
  | .mk _ _ _ _ _ _ fln code lt _ _ names varnames freevars cellvars consts =>
    let is := fold EXTENDED_ARG (units EXTENDED_ARG code 0 0) none
    let offs := is.map (·.1)
    let mult : Int := if v.is310 then 2 else 1
    is.map fun (first, op, arg, nxt) =>
      let sarg : SArg := match T.get op with
        | .jabs => .jump (idxOfOffset offs (mult * arg)) false
        | .jrel => .jump (idxOfOffset offs (nxt + mult * arg)) true
        | .name => match getStr names arg with | some s => .name s | none => .bad
        | .loc => match getStr varnames arg with | some s => .loc s | none => .bad
        | .free =>
          if arg < 0 then .bad
          else if arg.toNat < cellvars.length then (match cellvars[arg.toNat]? with | some s => .cell s | none => .bad)
          else (match freevars[arg.toNat - cellvars.length]? with | some s => .free s | none => .bad)
        | .const =>
          if arg < 0 then .bad else
          match consts[arg.toNat]? with
          | some (.inner c) => .constInner c
          | some (.code _) => .constCode arg.toNat
          | none => .bad
        | .noarg => .noarg
        | _ => .raw arg
      ⟨op, sarg, lineOf v lt fln first⟩

end Spec

/-- the reading of a CodeData value: flatten blocks, jumps to the index of the target block's first instruction -/
def viewArg (starts : List Nat) (constIdx : Const → Option Nat) : Arg → Spec.SArg
  | .raw n => .raw n
  | .jump t r => .jump starts[t]? r
  | .name s _ => .name s
  | .varname s _ => .loc s
  | .cell s _ => .cell s
  | .free s => .free s
  | .const (.inner c) _ => .constInner c
  | .const (.code d) _ => match constIdx (.code d) with | some i => .constCode i | none => .bad
  | .noarg _ => .noarg

end CDV

namespace CDV
namespace Spec

/-- CPython's binding of `co_varnames` to parameters, in `inspect.signature` order -/
def sigCore (argc pos kw : Nat) (varnames : List PStr) (varargs varkw : Bool) : List (PStr × Kind) :=
  let positional := (varnames.take pos).map (·, Kind.posOnly) ++ ((varnames.take argc).drop pos).map (·, Kind.posOrKw)
  let kwonly := ((varnames.drop argc).take kw).map (·, Kind.kwOnly)
  let va := if varargs then ((varnames.drop (argc + kw)).take 1).map (·, Kind.varPos) else []
  let vk := if varkw then ((varnames.drop (argc + kw + (if varargs then 1 else 0))).take 1).map (·, Kind.varKw) else []
  positional ++ va ++ kwonly ++ vk

def signature (v : Ver) : RawCode → Option (List (PStr × Kind))
  | .mk argc pos kw _ _ fl _ _ _ _ _ _ varnames _ _ _ =>
    let pos := if v.hasPosOnly then pos else 0
    let varargs := fl.testBit 2
    let varkw := fl.testBit 3
    let n := argc + kw + (if varargs then 1 else 0) + (if varkw then 1 else 0)
    if varnames.length < n ∨ argc < pos then none else some (sigCore argc pos kw varnames varargs varkw)

/-! ### CPython's line-table assemblers, as functions from abstract line programs to table rows.
    An event is `(byte delta, line delta)`; on 3.10 the line may be absent (`none`). -/

/-- `assemble_lnotab` (3.7–3.9) for one event, after the early return -/
def asmOldEvent (bd : Nat) (ld : Int) : List (Nat × Int) :=
  let nb := bd / 255
  let head := List.replicate (if bd > 255 then nb else 0) (255, (0 : Int))
  let bd := if bd > 255 then bd - nb * 255 else bd
  if ld < -128 ∨ 127 < ld then
    let k : Int := if ld < 0 then -128 else 127
    let ncodes : Nat := if ld < 0 then ((-ld) / 128).toNat else (ld / 127).toNat
    let ld' := ld - ncodes * k
    head ++ [(bd, k)] ++ List.replicate (ncodes - 1) (0, k) ++ [(0, ld')]
  else head ++ [(bd, ld)]

/-- 3.7/3.8 skip an event only when both deltas are zero; 3.9 skips every event without a line change -/
def asmOld (v : Ver) : List (Nat × Int) → List (Nat × Int)
  | [] => []
  | (bd, ld) :: rest =>
    let skip := match v with | .v39 => ld == 0 | _ => bd == 0 && ld == 0
    (if skip then [] else asmOldEvent bd ld) ++ asmOld v rest

/-- `assemble_line_range` (3.10) for one event with `bd > 0` -/
def asmLTEvent (bd : Nat) (ld : Option Int) : List (Nat × Int) :=
  let pre : List (Nat × Int) × Int := match ld with
    | none => ([], -128)
    | some l =>
      if l > 127 then
        let n := ((l - 1) / 127).toNat        -- iterations of `while (ldelta > 127)`
        (List.replicate n (0, 127), l - n * 127)
      else if l < -127 then
        let n := ((-l - 1) / 127).toNat
        (List.replicate n (0, -127), l + n * 127)
      else ([], l)
  let cont : Int := if ld.isNone then -128 else 0
  let nb := (bd - 1) / 254                     -- iterations of `while (bdelta > 254)`
  let rows : List (Nat × Int) := match nb with
    | 0 => [(bd, pre.2)]
    | k+1 => [(254, pre.2)] ++ List.replicate k (254, cont) ++ [(bd - nb * 254, cont)]
  pre.1 ++ rows

def asmLT : List (Nat × Option Int) → List (Nat × Int)
  | [] => []
  | (bd, ld) :: rest => (if bd == 0 then [] else asmLTEvent bd ld) ++ asmLT rest

def rowsToBytes : List (Nat × Int) → List Nat
  | [] => []
  | (b, l) :: r => b :: LT.unsigned l :: rowsToBytes r

end Spec
end CDV
