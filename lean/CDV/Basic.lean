/-! Core datatypes of the model: raw code objects (what CPython holds) and CodeData (what code_data holds). -/
namespace CDV

inductive Ver | v37 | v38 | v39 | v310
deriving DecidableEq, Repr

def Ver.is310 : Ver → Bool | .v310 => true | _ => false
def Ver.hasPosOnly : Ver → Bool | .v37 => false | _ => true

inductive OpClass | jabs | jrel | name | loc | free | const | noarg | raw | ext
deriving DecidableEq, Repr

/-- opcode classification table: index = opcode (0..255) -/
structure OpTable where
  cls : List OpClass
deriving Repr

def OpTable.get (t : OpTable) (op : Nat) : OpClass := t.cls.getD op .raw

/-- Python `str`, opaque: the protocol token (hex of the UTF-8 bytes, surrogatepass) plus whether it is
    UTF-8 encodable (no lone surrogates). The model never looks inside. -/
structure PStr where
  hex : String
  enc : Bool := true
deriving DecidableEq, Repr

inductive InnerConst where
  | none | ellipsis
  | bool (b : Bool)
  | int (i : Int)
  | float (bits : Nat)
  | complex (re im : Nat)
  | str (s : PStr)
  | bytes (hex : String)
  | tuple (xs : List InnerConst)
  | fset (xs : List InnerConst)
deriving Repr

mutual
inductive RConst where
  | inner (c : InnerConst)
  | code (c : RawCode)
inductive RawCode where
  | mk (argcount posonly kwonly nlocals stacksize flags : Nat) (firstlineno : Int)
       (code : List Nat) (linetable : List Nat) (filename name : PStr)
       (names varnames freevars cellvars : List PStr) (consts : List RConst)
end

def RawCode.consts : RawCode → List RConst
  | .mk _ _ _ _ _ _ _ _ _ _ _ _ _ _ _ cs => cs

structure Args where
  posOnly : List PStr := []
  posOrKw : List PStr := []
  varPos : Option PStr := none
  kwOnly : List PStr := []
  varKw : Option PStr := none
deriving DecidableEq, Repr

inductive FnType | generator | coroutine | asyncGenerator
deriving DecidableEq, Repr

structure Function where
  args : Args := {}
  doc : Option PStr := none
  ftype : Option FnType := none
deriving DecidableEq, Repr

structure AdditionalLine where
  line : Option Int
  offs : List Int := []
deriving DecidableEq, Repr

mutual
inductive Const where
  | inner (c : InnerConst)
  | code (d : CodeData)
inductive Arg where
  | raw (n : Int)
  | jump (target : Nat) (rel : Bool)
  | name (s : PStr) (ov : Option Nat)
  | varname (s : PStr) (ov : Option Nat)
  | const (c : Const) (ov : Option Nat)
  | free (s : PStr)
  | cell (s : PStr) (ov : Option Nat)
  | noarg (a : Int)
inductive Instr where
  | mk (op : Nat) (arg : Arg) (nargs : Option Nat) (line : Option Int) (lineOffs : List Int)
inductive CodeData where
  | mk (blocks : List (List Instr)) (filename : PStr) (firstLine : Int) (name : PStr) (stack : Nat)
       (type : Option Function) (freevars : List PStr) (futAnn nested : Bool)
       (addLine : Option AdditionalLine) (addArgs : List Arg)
end

inductive Err | raised | unmodelled | fuel
deriving DecidableEq, Repr

abbrev R := Except Err

end CDV
