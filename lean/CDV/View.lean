import CDV.Normalize
import CDV.Spec
/-! The *reading* of a CodeData value: what it says once every private (serialization-only) field is
    ignored.  Instructions are flattened, jumps resolved to the index of the first instruction of their
    target block, operands resolved to their values, nested code read recursively.
    `C02` ties this reading of decoded data to CPython's own reading of the code object (`Spec.read`). -/
namespace CDV

inductive MArg where
  | raw (n : Int)
  | jump (instrIdx : Option Nat) (rel : Bool)
  | name (s : PStr)
  | loc (s : PStr)
  | cell (s : PStr)
  | free (s : PStr)
  | const (c : InnerConst)
  | code (body : List (Nat × MArg × Option Int)) (hdr : PStr × Int × PStr × Nat × Option Function × List PStr × Bool)
  | noarg

abbrev MInstr := Nat × MArg × Option Int

/-- everything of a CodeData that is not a private field, except the blocks -/
def CodeData.header : CodeData → PStr × Int × PStr × Nat × Option Function × List PStr × Bool
  | .mk _ fname fl name ss tp fv fut _ _ _ => (fname, fl, name, ss, tp, fv, fut)

mutual
def meaningArg (starts : List Nat) : Arg → MArg
  | .raw n => .raw n
  | .jump t r => .jump starts[t]? r
  | .name s _ => .name s
  | .varname s _ => .loc s
  | .cell s _ => .cell s
  | .free s => .free s
  | .const (.inner c) _ => .const c
  | .const (.code d) _ => .code (meaningCode d) d.header
  | .noarg _ => .noarg
def meaningInstrs (starts : List Nat) : List Instr → List MInstr
  | [] => []
  | .mk op a _ l _ :: is => (op, meaningArg starts a, l) :: meaningInstrs starts is
def meaningBlocks (starts : List Nat) : List (List Instr) → List MInstr
  | [] => []
  | b :: bs => meaningInstrs starts b ++ meaningBlocks starts bs
/-- the instruction stream a CodeData describes -/
def meaningCode : CodeData → List MInstr
  | .mk bl _ _ _ _ _ _ _ _ _ _ => meaningBlocks (blockStarts bl 0) bl
end

/-- the whole reading: instruction stream + header -/
def meaning (d : CodeData) : List MInstr × (PStr × Int × PStr × Nat × Option Function × List PStr × Bool) :=
  (meaningCode d, d.header)

/-- the flat (non-recursive) view compared with `Spec.read` by the driver -/
def viewOf : CodeData → List Spec.SInstr
  | .mk blocks _ _ _ _ _ _ _ _ _ _ =>
    let starts := blockStarts blocks 0
    blocks.flatten.map fun i => ⟨i.op, viewArg starts (fun _ => some 0) i.arg, i.line⟩

end CDV
