import CDV.Basic
/-! Model of code_data/_constants.py `constant_key` as an equivalence test, and dataclass equality. -/
namespace CDV

def isNaN (bits : Nat) : Bool := (bits / 2^52) % 2048 == 2047 && bits % 2^52 != 0
def floatKeyEq (a b : Nat) : Bool := (isNaN a && isNaN b) || a == b

/-- `constant_key a == constant_key b`.  Recursion is on the first argument only (frozensets compare as
    sets of keys, in both directions, always calling with an element of the *first* set first). -/
def InnerConst.keyEq : InnerConst → InnerConst → Bool
  | .none, .none => true
  | .ellipsis, .ellipsis => true
  | .bool a, .bool b => a == b
  | .int a, .int b => a == b
  | .float a, .float b => floatKeyEq a b
  | .complex r i, .complex r' i' => floatKeyEq r r' && floatKeyEq i i'
  | .str a, .str b => a == b
  | .bytes a, .bytes b => a == b
  | .tuple xs, .tuple ys =>
    xs.length == ys.length &&
      (xs.attach.zip ys).all (fun (⟨x, _⟩, y) => InnerConst.keyEq x y)
  | .fset xs, .fset ys =>
    xs.attach.all (fun ⟨x, _⟩ => ys.any (fun y => InnerConst.keyEq x y)) &&
      ys.all (fun y => xs.attach.any (fun ⟨x, _⟩ => InnerConst.keyEq x y))
  | _, _ => false
termination_by a => sizeOf a
decreasing_by
  all_goals simp_wf
  all_goals (have := List.sizeOf_lt_of_mem ‹_ ∈ xs›; omega)

def optEq {α} (f : α → α → Bool) : Option α → Option α → Bool
  | none, none => true
  | some a, some b => f a b
  | _, _ => false

mutual
def Const.keyEq : Const → Const → Bool
  | .inner a, .inner b => InnerConst.keyEq a b
  | .code a, .code b => CodeData.beq a b
  | _, _ => false
def Arg.beq : Arg → Arg → Bool
  | .raw a, .raw b => a == b
  | .jump t r, .jump t' r' => t == t' && r == r'
  | .name s o, .name s' o' => s == s' && o == o'
  | .varname s o, .varname s' o' => s == s' && o == o'
  | .const c o, .const c' o' => o == o' && Const.keyEq c c'
  | .free s, .free s' => s == s'
  | .cell s o, .cell s' o' => s == s' && o == o'
  | .noarg a, .noarg b => a == b
  | _, _ => false
def Instr.beq : Instr → Instr → Bool
  | .mk op a n l o, .mk op' a' n' l' o' => op == op' && Arg.beq a a' && n == n' && l == l' && o == o'
def instrsBeq : List Instr → List Instr → Bool
  | [], [] => true
  | x :: xs, y :: ys => Instr.beq x y && instrsBeq xs ys
  | _, _ => false
def blocksBeq : List (List Instr) → List (List Instr) → Bool
  | [], [] => true
  | x :: xs, y :: ys => instrsBeq x y && blocksBeq xs ys
  | _, _ => false
def argsBeq : List Arg → List Arg → Bool
  | [], [] => true
  | x :: xs, y :: ys => Arg.beq x y && argsBeq xs ys
  | _, _ => false
def CodeData.beq : CodeData → CodeData → Bool
  | .mk bl f fl n ss tp fv fut ne al aa, .mk bl' f' fl' n' ss' tp' fv' fut' ne' al' aa' =>
    blocksBeq bl bl' && f == f' && fl == fl' && n == n' && ss == ss' && tp == tp' && fv == fv'
      && fut == fut' && ne == ne' && al == al' && argsBeq aa aa'
end

end CDV
