import CDV.Basic
import CDV.LineTable
/-! Model of code_data/_blocks.py, shared pieces: `_parse_bytes`, `_instrsize`, `ToArgs`. -/
namespace CDV

open LT (LMap)

structure RawI where
  op : Nat
  arg : Int
  nargs : Nat
  first : Nat
  next : Nat
deriving Repr, DecidableEq

def c_int_upper : Int := 2^(Extracted.cIntBits - 1) - 1
def c_int_len : Int := 2^Extracted.cIntBits

/-- `_parse_bytes` -/
def parseGo (ext : Nat) : List Nat → (i : Nat) → (arg : Int) → (nargs : Nat) → R (List RawI)
  | [], _, _, _ => pure []
  | [_], _, _, _ => throw .raised                       -- b[i+1] IndexError
  | op :: a :: rest, i, arg, nargs =>
    let arg := arg + a                                   -- `arg |= b[i+1]` (the low byte of arg is 0 here)
    let nargs := nargs + 1
    if op = ext then
      let arg := arg * 256
      let arg := if arg > c_int_upper then arg - c_int_len else arg
      parseGo ext rest (i + 2) arg nargs
    else do
      let r ← parseGo ext rest (i + 2) 0 0
      pure (⟨op, arg, nargs, i - (nargs - 1) * 2, i + 2⟩ :: r)

def EXTENDED_ARG : Nat := 144
def HAVE_ARGUMENT : Nat := 90

def parseBytes (code : List Nat) : R (List RawI) := parseGo EXTENDED_ARG code 0 0 0

/-- `_instrsize` -/
def instrsize (arg : Int) : Nat :=
  if arg < 0 then 4
  else if arg ≤ Extracted.instrsizeLimit1 then 1
  else if arg ≤ Extracted.instrsizeLimit2 then 2
  else if arg ≤ Extracted.instrsizeLimit3 then 3 else 4

def assoc? {β} (k : Nat) : List (Nat × β) → Option β
  | [] => none
  | (k', v) :: r => if k = k' then some v else assoc? k r

/-- lookup in a dict keyed by `_hash_fn(arg)`; key equality is `keyEq` -/
def keyFind {α} (keyEq : α → α → Bool) (a : α) : List (α × Nat) → Option Nat
  | [] => none
  | (b, i) :: r => if keyEq a b then some i else keyFind keyEq a r

def keySet {α} (keyEq : α → α → Bool) (a : α) (i : Nat) (m : List (α × Nat)) : List (α × Nat) :=
  (m.filter (fun (b, _) => !keyEq a b)) ++ [(a, i)]

/-- decoder-side table bookkeeping (`ToArgs`) -/
structure ToArgs (α : Type) where
  args : List α
  found : List (Nat × Nat) := []          -- `_index_to_order`: index ↦ order, insertion order
  keyToIndex : List (α × Nat) := []       -- `_key_to_index`

/-- `ToArgs.found_index` -/
def ToArgs.foundIndex {α} (keyEq : α → α → Bool) (t : ToArgs α) (index : Int) : R (ToArgs α × α × Option Nat) :=
  if index < 0 then throw .unmodelled else      -- Python would index from the end
  let idx := index.toNat
  match t.args[idx]? with
  | none => throw .raised
  | some a =>
    let found := match assoc? idx t.found with
      | some _ => t.found
      | none => t.found ++ [(idx, t.found.length)]
    let order := (assoc? idx found).getD 0
    let wrong := order != idx || (match keyFind keyEq a t.keyToIndex with | some j => j != idx | none => false)
    pure ({ t with found := found, keyToIndex := keySet keyEq a idx t.keyToIndex }, a, if wrong then some idx else none)

def ToArgs.additionalGo {α} (keyEq : α → α → Bool) : ToArgs α → List Nat → R (List (α × Option Nat))
  | _, [] => pure []
  | t, i :: is =>
    match assoc? i t.found with
    | some _ => ToArgs.additionalGo keyEq t is
    | none => do
      let (t', a, o) ← t.foundIndex keyEq i
      let r ← ToArgs.additionalGo keyEq t' is
      pure ((a, o) :: r)

/-- `ToArgs.additional_args` -/
def ToArgs.additional {α} (keyEq : α → α → Bool) (t : ToArgs α) : R (List (α × Option Nat)) :=
  ToArgs.additionalGo keyEq t (List.range t.args.length)

end CDV
