import CDV.Json
import CDV.ExtractedSchema
/-! JSON Schema validity (the keywords `code_data.JSON_SCHEMA` uses) as a relation between a schema and a JSON tree.
    `properties`, `required` constrain objects only, `items` arrays only; unknown properties are allowed; a `$ref` is
    looked up in the definitions. -/
namespace CDV

def tyOK : Option JTy → Json → Bool
  | none, _ => true
  | some .object, .obj _ => true
  | some .array, .arr _ => true
  | some .string, .str _ => true
  | some .string, .reprOf _ => true
  | some .string, .b64Of _ => true
  | some .string, .decOf _ => true
  | some .string, .opName _ => true
  | some .string, .lit _ => true
  | some .integer, .int _ => true
  | some .number, .int _ => true
  | some .number, .float _ => true
  | some .boolean, .bool _ => true
  | some .null, .null => true
  | _, _ => false

/-- `enum` (only string literals occur in the schema): the instance is one of the listed literals -/
def enumOK : Option (List String) → Json → Bool
  | none, _ => true
  | some l, .lit s => l.contains s
  | some _, _ => false

inductive Valid (defs : List (String × Schema)) : Schema → Json → Prop
  | ref {n : String} {s : Schema} {j : Json} : defs.lookup n = some s → Valid defs s j → Valid defs (.ref n) j
  | anyOf {alts : List Schema} {s : Schema} {j : Json} : s ∈ alts → Valid defs s j → Valid defs (.anyOf alts) j
  | node {ty : Option JTy} {enum : Option (List String)} {req : List String} {props : List (String × Schema)} {items : Option Schema} {j : Json} :
      tyOK ty j = true → enumOK enum j = true →
      (∀ kvs, j = .obj kvs → ∀ r ∈ req, (jget r kvs).isSome = true) →
      (∀ kvs, j = .obj kvs → ∀ k s v, (k, s) ∈ props → jget k kvs = some v → Valid defs s v) →
      (∀ xs s, j = .arr xs → items = some s → ∀ x ∈ xs, Valid defs s x) →
      Valid defs (.node ty enum req props items) j

end CDV
