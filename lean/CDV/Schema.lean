import CDV.Json
import CDV.ExtractedSchema
/-! JSON Schema validity (the keywords `code_data.JSON_SCHEMA` uses) as a relation between a schema and a JSON tree.
    `properties`, `required` constrain objects only, `items` arrays only; unknown properties are allowed; a `$ref` is
    looked up in the definitions. -/
namespace CDV

def tyOK : Option JTy → Json → Bool
  | none, _ => true
  | some .object, .obj _ => true
  | some .array, .arr _ => true
  | some .string, .str _ => true
  | some .string, .reprOf _ => true
  | some .string, .b64Of _ => true
  | some .string, .decOf _ => true
  | some .string, .opName _ => true
  | some .string, .lit _ => true
  | some .integer, .int _ => true
  | some .number, .int _ => true
  | some .number, .float _ => true
  | some .boolean, .bool _ => true
  | some .null, .null => true
  | _, _ => false

/-- `enum` (only string literals occur in the schema): the instance is one of the listed literals -/
def enumOK : Option (List String) → Json → Bool
  | none, _ => true
  | some l, .lit s => l.contains s
  | some _, _ => false

inductive Valid (defs : List (String × Schema)) : Schema → Json → Prop
  | ref {n : String} {s : Schema} {j : Json} : defs.lookup n = some s → Valid defs s j → Valid defs (.ref n) j
  | anyOf {alts : List Schema} {s : Schema} {j : Json} : s ∈ alts → Valid defs s j → Valid defs (.anyOf alts) j
  | node {ty : Option JTy} {enum : Option (List String)} {req : List String} {props : List (String × Schema)} {items : Option Schema} {j : Json} :
      tyOK ty j = true → enumOK enum j = true →
      (∀ kvs, j = .obj kvs → ∀ r ∈ req, (jget r kvs).isSome = true) →
      (∀ kvs, j = .obj kvs → ∀ k s v, (k, s) ∈ props → jget k kvs = some v → Valid defs s v) →
      (∀ xs s, j = .arr xs → items = some s → ∀ x ∈ xs, Valid defs s x) →
      Valid defs (.node ty enum req props items) j

/-- an executable validator (fuel = recursion depth), the reference the harness compares with an independent validator -/
def validateB (defs : List (String × Schema)) : Nat → Schema → Json → Bool
  | 0, _, _ => false
  | n+1, .ref name, j => match defs.lookup name with | some s => validateB defs n s j | none => false
  | n+1, .anyOf alts, j => alts.any (fun s => validateB defs n s j)
  | n+1, .node ty enum req props items, j =>
    tyOK ty j && enumOK enum j &&
    (match j with
      | .obj kvs => req.all (fun r => (jget r kvs).isSome) &&
          props.all (fun p => match jget p.1 kvs with | some v => validateB defs n p.2 v | none => true)
      | _ => true) &&
    (match j, items with
      | .arr xs, some s => xs.all (fun x => validateB defs n s x)
      | _, _ => true)

/-- fuel enough for any document: every step consumes fuel, and the schema's reference chains are short -/
def validate (defs : List (String × Schema)) (root : Schema) (j : Json) : Bool := validateB defs 200 root j

end CDV
