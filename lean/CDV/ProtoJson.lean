import CDV.Proto
import CDV.Json
/-! Protocol tokens for JSON documents (printing with sorted keys; parsing). Not part of any proof. -/
namespace CDV

def hexOfAscii (s : String) : String :=
  String.ofList (s.toList.flatMap fun c => let n := c.toNat; [hexDigit (n / 16), hexDigit (n % 16)])

def asciiOfHex (h : String) : String := String.ofList ((hexBytes h).map Char.ofNat)

def insertKV (x : String × String) : List (String × String) → List (String × String)
  | [] => [x]
  | y :: ys => if x.1 < y.1 then x :: y :: ys else y :: insertKV x ys

partial def sJson : Json → String
  | .null => "N" | .bool true => "T" | .bool false => "F"
  | .int i => s!"i{i}"
  | .float b => "f" ++ natToHex b 16
  | .str s => sStr s
  | .reprOf s => "R" ++ s.hex
  | .b64Of h => "B" ++ h
  | .decOf i => "s" ++ hexOfAscii (toString i)
  | .opName n => s!"i{n}"
  | .lit s => "s" ++ hexOfAscii s
  | .arr xs => " ".intercalate (s!"[{xs.length}" :: xs.map sJson)
  | .obj [("frozenset", .arr xs)] => " ".intercalate ["{1", "frozenset", " ".intercalate (s!"[{xs.length}" :: sortStrings (xs.map sJson))]
  | .obj kvs =>
    let sorted := (kvs.map fun (k, v) => (k, sJson v)).foldl (fun acc x => insertKV x acc) []
    " ".intercalate (("{" ++ toString kvs.length) :: sorted.flatMap fun (k, v) => [k, v])

inductive JCtx | none | blocks | block | instr
deriving DecidableEq

/-- parse the tokens printed by the Python side (`ser.s_json`) -/
partial def pJsonC (key : String) (ctx : JCtx) : P Json := do
  let t ← next
  if t == "N" then pure .null
  else if t == "T" then pure (.bool true)
  else if t == "F" then pure (.bool false)
  else if t.startsWith "i" then
    let n := (t.drop 1).toString.toInt!
    if key == "name" && ctx == .instr then pure (.opName n.toNat) else pure (.int n)
  else if t.startsWith "f" then pure (.float (hexToNat (t.drop 1).toString))
  else if t.startsWith "R" then pure (.reprOf ⟨(t.drop 1).toString, false⟩)
  else if t.startsWith "B" then pure (.b64Of (t.drop 1).toString)
  else if t.startsWith "S" then pure (.str ⟨(t.drop 1).toString, false⟩)
  else if t.startsWith "s" then
    let h := (t.drop 1).toString
    if key == "int" then pure (.decOf (asciiOfHex h).toInt!)
    else if key == "float" || key == "type" then pure (.lit (asciiOfHex h))
    else pure (.str ⟨h, true⟩)
  else if t.startsWith "[" then
    let n := (t.drop 1).toString.toNat!
    let sub := match ctx with | .blocks => JCtx.block | .block => JCtx.instr | _ => JCtx.none
    let mut out := #[]
    for _ in [0:n] do out := out.push (← pJsonC "" sub)
    pure (.arr out.toList)
  else if t.startsWith "{" then
    let n := (t.drop 1).toString.toNat!
    -- look ahead: is there a "filename" key?  (keys are sorted, so collect first)
    let mut kvs : Array (String × Json) := #[]
    -- two-pass is not possible on a stream; `blocks` sorts before `filename`, so decide by the key alone:
    -- only CodeData objects have a "blocks" key.
    for _ in [0:n] do
      let k ← next
      let sub := if ctx == .instr then (if k == "name" then JCtx.instr else JCtx.none)
                 else if k == "blocks" then JCtx.blocks else JCtx.none
      let v ← pJsonC k sub
      kvs := kvs.push (k, v)
    pure (.obj kvs.toList)
  else throw s!"json token: {t}"

def pJson : P Json := pJsonC "" .none

end CDV
