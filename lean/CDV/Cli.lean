import CDV.Json
/-! Model of the decision logic of code_data/_cli.py `main`: source validation and what is printed. -/
namespace CDV.Cli

/-- which of `file`, `-c`, `-m`, `-e` were given on the command line (argparse leaves the others `None`) -/
structure Sources where
  file : Bool
  cmd : Bool
  mod : Bool
  eval : Bool
deriving DecidableEq, Repr

/-- `sum(x is not None for x in [file, cmd, mod, eval_])` -/
def given (s : Sources) : Nat :=
  (if s.file then 1 else 0) + (if s.cmd then 1 else 0) + (if s.mod then 1 else 0) + (if s.eval then 1 else 0)

/-- `main` goes on (true) or calls `parser.error` (false: usage error, exit status 2) -/
def accepts (s : Sources) : Bool := given s == 1

structure Flags where
  dis : Bool
  disAfter : Bool
  source : Bool
  noNormalize : Bool
  json : Bool
deriving DecidableEq, Repr

/-- the value `console.print(code_data)` prints, and that `--json` / `--dis-after` are computed from -/
def printed (fl : Flags) (d : CodeData) : CodeData := if fl.noNormalize then d else normCode d

/-- the JSON document printed with `--json` -/
def printedJson (fl : Flags) (d : CodeData) : Option Json := if fl.json then some (jCodeData (printed fl d)) else none

end CDV.Cli
