import CDV.Basic
/-! Line protocol: parsing and canonical printing (not part of any proof). -/
namespace CDV

abbrev P := StateT Nat (ExceptT String (ReaderM (Array String)))

def next : P String := do
  let i ← get
  let a ← read
  if h : i < a.size then set (i+1); pure a[i] else throw "eof"

def peek : P String := do
  let i ← get
  let a ← read
  if h : i < a.size then pure a[i] else throw "eof"

def pInt : P Int := do
  let t ← next
  match t.toInt? with | some i => pure i | none => throw s!"int expected: {t}"
def pNat : P Nat := do let i ← pInt; pure i.toNat

def hexVal (c : Char) : Nat :=
  if c.isDigit then c.toNat - '0'.toNat else if 'a' ≤ c ∧ c ≤ 'f' then c.toNat - 'a'.toNat + 10 else 0
def hexToNat (s : String) : Nat := s.foldl (fun a c => a * 16 + hexVal c) 0
def hexBytes (s : String) : List Nat :=
  let rec go : List Char → List Nat
    | a :: b :: r => (hexVal a * 16 + hexVal b) :: go r
    | _ => []
  go s.toList

def pStr : P PStr := do
  let t ← next
  if t.startsWith "s" then pure ⟨(t.drop 1).toString, true⟩
  else if t.startsWith "S" then pure ⟨(t.drop 1).toString, false⟩
  else throw s!"str expected: {t}"

def pOpt {α} (p : P α) : P (Option α) := do
  if (← peek) == "-" then let _ ← next; pure none else some <$> p

def pList {α} (p : P α) : P (List α) := do
  let t ← next
  if !t.startsWith "L" then throw s!"list expected: {t}"
  let n := (t.drop 1).toString.toNat!
  let mut out := #[]
  for _ in [0:n] do out := out.push (← p)
  pure out.toList

partial def pInner : P InnerConst := do
  let t ← next
  if t == "N" then pure .none
  else if t == "E" then pure .ellipsis
  else if t == "T" then pure (.bool true)
  else if t == "F" then pure (.bool false)
  else if t.startsWith "i" then pure (.int (t.drop 1).toString.toInt!)
  else if t.startsWith "f" then pure (.float (hexToNat (t.drop 1).toString))
  else if t.startsWith "c" then
    let h := (t.drop 1).toString
    pure (.complex (hexToNat (h.take 16).toString) (hexToNat (h.drop 16).toString))
  else if t.startsWith "s" then pure (.str ⟨(t.drop 1).toString, true⟩)
  else if t.startsWith "S" then pure (.str ⟨(t.drop 1).toString, false⟩)
  else if t.startsWith "y" then pure (.bytes (t.drop 1).toString)
  else if t.startsWith "t" then
    let n := (t.drop 1).toString.toNat!
    let mut out := #[]
    for _ in [0:n] do out := out.push (← pInner)
    pure (.tuple out.toList)
  else if t.startsWith "z" then
    let n := (t.drop 1).toString.toNat!
    let mut out := #[]
    for _ in [0:n] do out := out.push (← pInner)
    pure (.fset out.toList)
  else throw s!"const expected: {t}"

mutual
partial def pRConst : P RConst := do
  if (← peek) == "K" then .code <$> pRawCode else .inner <$> pInner
partial def pRawCode : P RawCode := do
  let t ← next
  if t != "K" then throw s!"K expected: {t}"
  let argc ← pNat; let pos ← pNat; let kw ← pNat; let nl ← pNat; let ss ← pNat; let fl ← pNat
  let fln ← pInt
  let code ← next; let lt ← next
  let fname ← pStr; let name ← pStr
  let names ← pList pStr; let varnames ← pList pStr; let freevars ← pList pStr; let cellvars ← pList pStr
  let consts ← pList pRConst
  pure (.mk argc pos kw nl ss fl fln (hexBytes (code.drop 1).toString) (hexBytes (lt.drop 1).toString) fname name names varnames freevars cellvars consts)
end

def pArgs : P Args := do
  let t ← next
  if t != "A" then throw s!"A expected: {t}"
  let a ← pList pStr; let b ← pList pStr; let c ← pOpt pStr; let d ← pList pStr; let e ← pOpt pStr
  pure ⟨a, b, c, d, e⟩

def pFnType : P (Option FnType) := do
  let t ← next
  match t with
  | "-" => pure none | "G" => pure (some .generator) | "C" => pure (some .coroutine) | "AG" => pure (some .asyncGenerator)
  | _ => throw s!"fntype: {t}"

def pFunction : P (Option Function) := do
  let t ← next
  if t == "-" then pure none
  else if t == "U" then
    let a ← pArgs; let d ← pOpt pStr; let f ← pFnType
    pure (some ⟨a, d, f⟩)
  else throw s!"type: {t}"

def pAddLine : P (Option AdditionalLine) := do
  let t ← next
  if t == "-" then pure none
  else if t == "AL" then
    let l ← pOpt pInt; let o ← pList pInt
    pure (some ⟨l, o⟩)
  else throw s!"addline: {t}"

mutual
partial def pConst : P Const := do
  if (← peek) == "D" then .code <$> pCodeData else .inner <$> pInner
partial def pArg : P Arg := do
  let t ← next
  if t.startsWith "r" then pure (.raw (t.drop 1).toString.toInt!)
  else if t == "J" then let tg ← pNat; let r ← pNat; pure (.jump tg (r == 1))
  else if t == "n" then let s ← pStr; let o ← pOpt pNat; pure (.name s o)
  else if t == "v" then let s ← pStr; let o ← pOpt pNat; pure (.varname s o)
  else if t == "k" then let c ← pConst; let o ← pOpt pNat; pure (.const c o)
  else if t == "fr" then let s ← pStr; pure (.free s)
  else if t == "ce" then let s ← pStr; let o ← pOpt pNat; pure (.cell s o)
  else if t.startsWith "na" then pure (.noarg (t.drop 2).toString.toInt!)
  else throw s!"arg: {t}"
partial def pInstr : P Instr := do
  let t ← next
  if t != "I" then throw s!"I expected: {t}"
  let op ← pNat; let a ← pArg; let n ← pOpt pNat; let l ← pOpt pInt; let o ← pList pInt
  pure (.mk op a n l o)
partial def pCodeData : P CodeData := do
  let t ← next
  if t != "D" then throw s!"D expected: {t}"
  let fname ← pStr; let name ← pStr; let fl ← pInt; let ss ← pNat
  let nested ← pNat; let fut ← pNat
  let tp ← pFunction
  let fv ← pList pStr
  let al ← pAddLine
  let aa ← pList pArg
  let bl ← pList (pList pInstr)
  pure (.mk bl fname fl name ss tp fv (fut == 1) (nested == 1) al aa)
end

/-! printing -/
def sStr (s : PStr) : String := (if s.enc then "s" else "S") ++ s.hex
def sOpt {α} (f : α → String) : Option α → String | none => "-" | some a => f a
def sList {α} (f : α → String) (xs : List α) : String :=
  (s!"L{xs.length}" :: xs.map f) |> " ".intercalate
def hexDigit (n : Nat) : Char := if n < 10 then Char.ofNat (48 + n) else Char.ofNat (87 + n)
def natToHex (n width : Nat) : String :=
  String.ofList ((List.range width).reverse.map fun i => hexDigit ((n / 16^i) % 16))

def insertString (x : String) : List String → List String
  | [] => [x]
  | y :: ys => if x ≤ y then x :: y :: ys else y :: insertString x ys

/-- frozenset members are printed sorted (the Python side does the same): sets are unordered -/
def sortStrings (xs : List String) : List String := xs.foldl (fun acc x => insertString x acc) []

partial def sInner : InnerConst → String
  | .none => "N" | .ellipsis => "E" | .bool true => "T" | .bool false => "F"
  | .int i => s!"i{i}" | .float b => "f" ++ natToHex b 16
  | .complex r i => "c" ++ natToHex r 16 ++ natToHex i 16
  | .str s => sStr s | .bytes h => "y" ++ h
  | .tuple xs => " ".intercalate (s!"t{xs.length}" :: xs.map sInner)
  | .fset xs => " ".intercalate (s!"z{xs.length}" :: sortStrings (xs.map sInner))

def sArgs (a : Args) : String :=
  " ".intercalate ["A", sList sStr a.posOnly, sList sStr a.posOrKw, sOpt sStr a.varPos, sList sStr a.kwOnly, sOpt sStr a.varKw]
def sFnType : Option FnType → String
  | none => "-" | some .generator => "G" | some .coroutine => "C" | some .asyncGenerator => "AG"
def sFunction : Option Function → String
  | none => "-"
  | some f => " ".intercalate ["U", sArgs f.args, sOpt sStr f.doc, sFnType f.ftype]
def sAddLine : Option AdditionalLine → String
  | none => "-"
  | some a => " ".intercalate ["AL", sOpt toString a.line, sList toString a.offs]

mutual
partial def sConst : Const → String
  | .inner c => sInner c
  | .code d => sCodeData d
partial def sArg : Arg → String
  | .raw n => s!"r{n}"
  | .jump t r => s!"J {t} {if r then 1 else 0}"
  | .name s o => s!"n {sStr s} {sOpt toString o}"
  | .varname s o => s!"v {sStr s} {sOpt toString o}"
  | .const c o => s!"k {sConst c} {sOpt toString o}"
  | .free s => s!"fr {sStr s}"
  | .cell s o => s!"ce {sStr s} {sOpt toString o}"
  | .noarg a => s!"na{a}"
partial def sInstr : Instr → String
  | .mk op a n l o => s!"I {op} {sArg a} {sOpt toString n} {sOpt toString l} {sList toString o}"
partial def sCodeData : CodeData → String
  | .mk bl fname fl name ss tp fv fut nested al aa =>
    " ".intercalate ["D", sStr fname, sStr name, toString fl, toString ss,
      (if nested then "1" else "0"), (if fut then "1" else "0"), sFunction tp, sList sStr fv, sAddLine al,
      sList sArg aa, sList (sList sInstr) bl]
end

def bytesHex (bs : List Nat) : String := String.ofList (bs.flatMap fun b => [hexDigit (b / 16), hexDigit (b % 16)])

mutual
partial def sRConst : RConst → String
  | .inner c => sInner c
  | .code c => sRawCode c
partial def sRawCode : RawCode → String
  | .mk argc pos kw nl ss fl fln code lt fname name names varnames freevars cellvars consts =>
    " ".intercalate ["K", toString argc, toString pos, toString kw, toString nl, toString ss, toString fl, toString fln,
      "y" ++ bytesHex code, "y" ++ bytesHex lt, sStr fname, sStr name, sList sStr names, sList sStr varnames,
      sList sStr freevars, sList sStr cellvars, sList sRConst consts]
end

def runP {α} (p : P α) (toks : Array String) : Except String α :=
  match (p.run 0).run.run toks with
  | .ok (a, _) => .ok a
  | .error e => .error e

end CDV
