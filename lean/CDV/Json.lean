import CDV.Normalize
/-! Model of code_data/_json_data.py over an abstract JSON tree.

Strings produced by Python runtime functions are kept abstract: `reprOf s` is the str `repr(s)`,
`b64Of h` is `b64encode(bytes).decode()`, `decOf i` is `str(i)`, `opName n` is `dis.opname[n]` of the
interpreter that wrote the document.  Decoding them back (`ast.literal_eval`, `b64decode`, `int`,
`dis.opmap`) is therefore the identity *by construction*: these are the runtime laws listed in the
trusted base, tested on the real interpreters by the harness. -/
namespace CDV

inductive Json where
  | null
  | bool (b : Bool)
  | int (i : Int)
  | float (bits : Nat)
  | str (s : PStr)               -- a Python str as-is (UTF-8 encodable)
  | reprOf (s : PStr)            -- the str `repr(s)`
  | b64Of (hex : String)         -- the str `b64encode(bytes).decode()`
  | decOf (i : Int)              -- the str `str(i)`
  | opName (op : Nat)            -- the str `dis.opname[op]`
  | lit (s : String)             -- a literal ASCII str ("inf", "ellipsis", "GENERATOR", …)
  | arr (xs : List Json)
  | obj (kvs : List (String × Json))
deriving Repr

def MIN_INTEGER : Int := Extracted.MIN_INTEGER
def MAX_INTEGER : Int := Extracted.MAX_INTEGER

def isInf (bits : Nat) : Bool := (bits / 2^52) % 2048 == 2047 && bits % 2^52 == 0

def jStr (s : PStr) : Json := if s.enc then .str s else .obj [("string", .reprOf s)]

def jFloat (bits : Nat) : Json :=
  if isInf bits then .obj [("float", .lit (if bits < 2^63 then "inf" else "-inf"))]
  else if isNaN bits then .obj [("float", .lit "nan")]
  else .float bits

def jInt (i : Int) : Json := if i < MIN_INTEGER ∨ i > MAX_INTEGER then .obj [("int", .decOf i)] else .int i

mutual
def jInner : InnerConst → Json
  | .none => .null
  | .ellipsis => .obj [("type", .lit "ellipsis")]
  | .bool b => .bool b
  | .int i => jInt i
  | .float b => jFloat b
  | .complex r i => .obj [("real", jFloat r), ("imag", jFloat i)]
  | .str s => jStr s
  | .bytes h => .obj [("bytes", .b64Of h)]
  | .tuple xs => .arr (jInners xs)
  | .fset xs => .obj [("frozenset", .arr (jInners xs))]
def jInners : List InnerConst → List Json
  | [] => []
  | x :: xs => jInner x :: jInners xs
end

/-- an object from a list of optional fields: dataclass fields equal to their default are omitted -/
def fields (l : List (String × Option Json)) : List (String × Json) :=
  l.filterMap (fun kv => kv.2.map (fun v => (kv.1, v)))

def jNat (n : Nat) : Json := jInt n

def jStrs (xs : List PStr) : Json := .arr (xs.map jStr)

def nonEmpty {α} (xs : List α) (j : Json) : Option Json := if xs.isEmpty then none else some j

def jArgs (a : Args) : Json :=
  .obj (fields [("positional_only", nonEmpty a.posOnly (jStrs a.posOnly)),
                ("positional_or_keyword", nonEmpty a.posOrKw (jStrs a.posOrKw)),
                ("var_positional", a.varPos.map jStr),
                ("keyword_only", nonEmpty a.kwOnly (jStrs a.kwOnly)),
                ("var_keyword", a.varKw.map jStr)])

def jFnType : FnType → String
  | .generator => "GENERATOR" | .coroutine => "COROUTINE" | .asyncGenerator => "ASYNC_GENERATOR"

def jFunction (f : Function) : Json :=
  .obj (fields [("args", if f.args == {} then none else some (jArgs f.args)),
                ("docstring", f.doc.map jStr),
                ("type", f.ftype.map (fun t => .lit (jFnType t)))])

def jInts (xs : List Int) : Json := .arr (xs.map jInt)

def jAddLine (a : AdditionalLine) : Json :=
  .obj (fields [("line", some (match a.line with | none => .null | some l => jInt l)),
                ("additional_offsets", nonEmpty a.offs (jInts a.offs))])

/-- `arg == NoArg()`, the default of `Instruction.arg` -/
def Arg.isDefault : Arg → Bool
  | .noarg x => x == 0
  | _ => false

mutual
def jConst : Const → Json
  | .inner c => jInner c
  | .code d => jCodeData d
def jArg : Arg → Json
  | .raw n => jInt n
  | .jump t r => .obj (fields [("target", some (jNat t)), ("relative", if r then some (.bool true) else none)])
  | .name s o => .obj (fields [("name", some (jStr s)), ("_index_override", o.map jNat)])
  | .varname s o => .obj (fields [("varname", some (jStr s)), ("_index_override", o.map jNat)])
  | .const c o => .obj (fields [("constant", some (jConst c)), ("_index_override", o.map jNat)])
  | .free s => .obj (fields [("freevar", some (jStr s))])
  | .cell s o => .obj (fields [("cellvar", some (jStr s)), ("_index_override", o.map jNat)])
  | .noarg a => .obj (fields [("_arg", if a == 0 then none else some (jInt a))])
def jInstr : Instr → Json
  | .mk op a n l o =>
    .obj (fields [("name", some (.opName op)),
                  ("arg", if a.isDefault then none else some (jArg a)),
                  ("_n_args_override", n.map jNat),
                  ("line_number", l.map jInt),
                  ("_line_offsets_override", nonEmpty o (jInts o))])
def jInstrs : List Instr → List Json
  | [] => []
  | i :: is => jInstr i :: jInstrs is
def jBlocks : List (List Instr) → List Json
  | [] => []
  | b :: bs => .arr (jInstrs b) :: jBlocks bs
def jArgList : List Arg → List Json
  | [] => []
  | a :: as => jArg a :: jArgList as
/-- `to_json_data` -/
def jCodeData : CodeData → Json
  | .mk bl fname fl name ss tp fv fut nested al aa =>
    .obj (fields [("blocks", some (.arr (jBlocks bl))), ("filename", some (jStr fname)), ("first_line_number", some (jInt fl)),
                  ("name", some (jStr name)), ("stacksize", some (jNat ss)),
                  ("type", tp.map jFunction),
                  ("freevars", nonEmpty fv (jStrs fv)),
                  ("future_annotations", if fut then some (.bool true) else none),
                  ("_nested", if nested then some (.bool true) else none),
                  ("_additional_line", al.map jAddLine),
                  ("_additional_args", nonEmpty aa (.arr (jArgList aa)))])
end

/-! ### from JSON -/

def jget (k : String) : List (String × Json) → Option Json
  | [] => none
  | (k', v) :: r => if k == k' then some v else jget k r

def jhas (k : String) (kvs : List (String × Json)) : Bool := (jget k kvs).isSome

/-- `string_from_json`, then the value must be a `str` -/
def strFromJson : Json → R PStr
  | .str s => pure s
  | .obj [("string", .reprOf s)] => pure s
  | _ => throw .unmodelled        -- a field of the wrong type: the dataclass would hold it unchecked

def strsFromJson : Json → R (List PStr)
  | .arr xs => xs.mapM strFromJson
  | _ => throw .unmodelled

/-- an int field of a dataclass: only a JSON integer is an int (a larger one was written as {"int": …},
    which `from_json_data` does not decode outside constants: not modelled) -/
def intFromJson : Json → R Int
  | .int i => pure i
  | _ => throw .unmodelled

def natFromJson (j : Json) : R Nat := do
  let i ← intFromJson j
  if i < 0 then throw .unmodelled else pure i.toNat

def floatFromJson : Json → R Nat
  | .float b => pure b
  | .obj [("float", .lit "inf")] => pure 0x7FF0000000000000
  | .obj [("float", .lit "-inf")] => pure 0xFFF0000000000000
  | .obj [("float", .lit "nan")] => pure 0x7FF8000000000000
  | _ => throw .unmodelled

mutual
/-- `constant_value_from_json` -/
def innerFromJson : Json → R InnerConst
  | .null => pure .none
  | .bool b => pure (.bool b)
  | .int i => pure (.int i)
  | .float b => pure (.float b)
  | .str s => pure (.str s)
  | .arr xs => .tuple <$> innersFromJson xs
  | .obj [("int", .decOf i)] => pure (.int i)
  | .obj [("float", .lit "inf")] => pure (.float 0x7FF0000000000000)
  | .obj [("float", .lit "-inf")] => pure (.float 0xFFF0000000000000)
  | .obj [("float", .lit "nan")] => pure (.float 0x7FF8000000000000)
  | .obj [("string", .reprOf s)] => pure (.str s)
  | .obj [("type", .lit "ellipsis")] => pure .ellipsis
  | .obj [("real", r), ("imag", i)] => do pure (.complex (← floatFromJson r) (← floatFromJson i))
  | .obj [("imag", i), ("real", r)] => do pure (.complex (← floatFromJson r) (← floatFromJson i))
  | .obj [("bytes", .b64Of h)] => pure (.bytes h)
  | .obj [("frozenset", .arr xs)] => .fset <$> innersFromJson xs
  | _ => throw .raised
def innersFromJson : List Json → R (List InnerConst)
  | [] => pure []
  | x :: xs => do pure ((← innerFromJson x) :: (← innersFromJson xs))
end

def optField {α} (k : String) (kvs : List (String × Json)) (f : Json → R α) : R (Option α) :=
  match jget k kvs with
  | some j => some <$> f j
  | none => pure none

def argsFromJson (kvs : List (String × Json)) : R Args := do
  let a ← optField "positional_only" kvs strsFromJson
  let b ← optField "positional_or_keyword" kvs strsFromJson
  let c ← optField "var_positional" kvs strFromJson
  let d ← optField "keyword_only" kvs strsFromJson
  let e ← optField "var_keyword" kvs strFromJson
  pure ⟨a.getD [], b.getD [], c, d.getD [], e⟩

def fnTypeFromJson : Json → R FnType
  | .lit "GENERATOR" => pure .generator
  | .lit "COROUTINE" => pure .coroutine
  | .lit "ASYNC_GENERATOR" => pure .asyncGenerator
  | _ => throw .unmodelled

def functionFromJson : Json → R Function
  | .obj kvs => do
    let a ← optField "args" kvs (fun j => match j with | .obj k => argsFromJson k | _ => throw .raised)
    let d ← optField "docstring" kvs strFromJson
    let t ← optField "type" kvs fnTypeFromJson
    pure ⟨a.getD {}, d, t⟩
  | _ => throw .raised

def intsFromJson : Json → R (List Int)
  | .arr xs => xs.mapM intFromJson
  | _ => throw .unmodelled

def boolFromJson : Json → R Bool
  | .bool b => pure b
  | _ => throw .unmodelled

def addLineFromJson : Json → R AdditionalLine
  | .obj kvs => do
    let l ← match jget "line" kvs with
      | some .null => pure none
      | some j => some <$> intFromJson j
      | none => throw .raised          -- required field
    let o ← optField "additional_offsets" kvs intsFromJson
    pure ⟨l, o.getD []⟩
  | _ => throw .raised

def opFromJson : Json → R Nat
  | .opName n => pure n
  | _ => throw .unmodelled

theorem jget_lt {k : String} {kvs : List (String × Json)} {j : Json} (h : jget k kvs = some j) :
    sizeOf j < sizeOf kvs := by
  induction kvs with
  | nil => simp [jget] at h
  | cons kv r ih =>
    obtain ⟨k', v⟩ := kv
    simp only [jget] at h
    split at h
    · cases h; simp; omega
    · have := ih h; simp; omega

def optNatField (k : String) (kvs : List (String × Json)) : R (Option Nat) := optField k kvs natFromJson

mutual
/-- `arg_from_json` -/
def argFromJson : Json → R Arg
  | .int i => pure (.raw i)
  | .obj kvs =>
    if jhas "target" kvs then do
      let t ← match jget "target" kvs with | some j => natFromJson j | none => throw .raised
      let r ← optField "relative" kvs boolFromJson
      pure (.jump t (r.getD false))
    else if jhas "name" kvs then do
      let s ← match jget "name" kvs with | some j => strFromJson j | none => throw .raised
      pure (.name s (← optNatField "_index_override" kvs))
    else if jhas "varname" kvs then do
      let s ← match jget "varname" kvs with | some j => strFromJson j | none => throw .raised
      pure (.varname s (← optNatField "_index_override" kvs))
    else if jhas "constant" kvs then do
      let c ← match h : jget "constant" kvs with
        | some (.obj ckvs) => if jhas "filename" ckvs then Const.code <$> codeDataFromJson (.obj ckvs)
                              else Const.inner <$> innerFromJson (.obj ckvs)
        | some j => Const.inner <$> innerFromJson j
        | none => throw .raised
      pure (.const c (← optNatField "_index_override" kvs))
    else if jhas "freevar" kvs then do
      let s ← match jget "freevar" kvs with | some j => strFromJson j | none => throw .raised
      pure (.free s)
    else if jhas "cellvar" kvs then do
      let s ← match jget "cellvar" kvs with | some j => strFromJson j | none => throw .raised
      pure (.cell s (← optNatField "_index_override" kvs))
    else if jhas "_arg" kvs then do
      let a ← match jget "_arg" kvs with | some j => intFromJson j | none => throw .raised
      pure (.noarg a)
    else throw .raised
  | _ => throw .raised
termination_by j => sizeOf j
decreasing_by
  all_goals simp_wf
  all_goals (have := jget_lt h; first | omega | (simp at this; omega))
/-- `instruction_from_json` -/
def instrFromJson : Json → R Instr
  | .obj kvs => do
    let op ← match jget "name" kvs with | some j => opFromJson j | none => throw .raised
    let a ← match h : jget "arg" kvs with | some j => argFromJson j | none => pure (.noarg 0)
    let n ← optNatField "_n_args_override" kvs
    let l ← optField "line_number" kvs intFromJson
    let o ← optField "_line_offsets_override" kvs intsFromJson
    pure (.mk op a n l (o.getD []))
  | _ => throw .raised
termination_by j => sizeOf j
decreasing_by
  all_goals simp_wf
  all_goals (have := jget_lt h; first | omega | (simp at this; omega))
def instrsFromJson : List Json → R (List Instr)
  | [] => pure []
  | x :: xs => do pure ((← instrFromJson x) :: (← instrsFromJson xs))
termination_by l => sizeOf l
def blocksFromJson : List Json → R (List (List Instr))
  | [] => pure []
  | .arr b :: bs => do pure ((← instrsFromJson b) :: (← blocksFromJson bs))
  | _ :: _ => throw .raised
termination_by l => sizeOf l
def argListFromJson : List Json → R (List Arg)
  | [] => pure []
  | x :: xs => do pure ((← argFromJson x) :: (← argListFromJson xs))
termination_by l => sizeOf l
/-- `code_data_from_json` -/
def codeDataFromJson : Json → R CodeData
  | .obj kvs => do
    let bl ← match h : jget "blocks" kvs with | some (.arr bs) => blocksFromJson bs | _ => throw .raised
    let fname ← match jget "filename" kvs with | some j => strFromJson j | none => throw .raised
    let fl ← match jget "first_line_number" kvs with | some j => intFromJson j | none => throw .raised
    let name ← match jget "name" kvs with | some j => strFromJson j | none => throw .raised
    let ss ← match jget "stacksize" kvs with | some j => natFromJson j | none => throw .raised
    let tp ← optField "type" kvs functionFromJson
    let fv ← optField "freevars" kvs strsFromJson
    let fut ← optField "future_annotations" kvs boolFromJson
    let nested ← optField "_nested" kvs boolFromJson
    let al ← optField "_additional_line" kvs addLineFromJson
    let aa ← match h : jget "_additional_args" kvs with | some (.arr xs) => argListFromJson xs | some _ => throw .raised | none => pure []
    pure (.mk bl fname fl name ss tp (fv.getD []) (fut.getD false) (nested.getD false) al aa)
  | _ => throw .raised
termination_by j => sizeOf j
decreasing_by
  all_goals simp_wf
  all_goals (have := jget_lt h; simp at this; omega)
end

end CDV
