import CDVProofs.LineTable
import CDVProofs.Props.C10
